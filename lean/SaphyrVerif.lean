import SaphyrVerif.Basic.Text
import SaphyrVerif.Model.Scalars
import SaphyrVerif.Model.Base64
import SaphyrVerif.Spec.Scalars
import SaphyrVerif.Model.PathMap
import SaphyrVerif.Model.Tls
import SaphyrVerif.Model.Locs
