import SaphyrVerif.Model.De
import SaphyrVerif.Model.Entry
import SaphyrVerif.Model.Tls
/-!
Model for C16 (locations).

* Part A — positions: `posOf text i` walks `i` characters of the text the way the scanner of
  `saphyr-parser-bw` advances its `Marker` (`skip_blank` / `skip_non_blank`: index+1, col+1;
  `skip_nl`: index+1, line+1, col 0; the CR of a CRLF pair is consumed with `skip_blank`, the LF with
  `skip_nl`; byte offset = UTF-8 prefix length), the mark of the end-of-stream token
  (`fetch_stream_end` forces a new line), and the conversions `location::location_from_span`,
  `Error::from_scan_error` with their `as u32` casts and the explicit range check of the byte info, and
  `mark_line_and_column` (the end-of-stream mark put back on the last line when the input is in memory).
* Part B — the span-carrying wrapper `Spanned<T>` (`de/spanned_deser.rs::deserialize_yaml_spanned`)
  on top of the cursor of `Model/De.lean`, as a wrapper type language `STy` around `De.deser`
  (the containers that may hold span-carrying children are mirrored here: `Vec`, map with untyped
  keys, derived struct, option, and the untyped tree whose every node is span-carrying).
* Part C (inside Part B) — the fallback location of Serde's static error constructors
  (`de_error.rs`: `MISSING_FIELD_FALLBACK`, `maybe_attach_fallback_location`; the cell itself and its guards
  are the subject of `Model/Tls.lean`).  `deserS` takes the content of the cell as a parameter `fb`: by
  C15 `fallback_restored` / `value_guard_invisible_outside` every guard is scoped, so what the cell holds
  while a node is read is a function of the accesses enclosing the node.  The two accesses install it:
  `SA::next_element_seed` and — since the repair of `C16-static-error-at-map-value-reported-at-key` —
  `MA::next_value_seed` set it to the node's `reference_location` (the use site) for the time the element /
  value is read; the span-carrying wrapper and `Option` leave it alone; a top-level call starts with an
  empty cell (`FallbackScopeGuard`).  The type `nonzero` (`std::num::NonZero*`) is the consumer that raises
  such an error at the node itself: `invalid_value` for 0.  NOT tracked (location 0, compared without
  location): static errors raised by the leaf types of `Model/De.lean` and the container-level
  `missing_field` (the cell then holds the key guard's location, which `KeyStep` does not carry).
-/
namespace SaphyrVerif.Locs
open SaphyrVerif SaphyrVerif.Scalars SaphyrVerif.Pump SaphyrVerif.De SaphyrVerif.Budget

/-! ## Part A: positions -/

/-- a position of the text: character index, 1-based line, 0-based column, byte offset -/
structure Pos where
  index : Nat
  line : Nat
  col : Nat
  byte : Nat
deriving Repr, DecidableEq, Inhabited

def Pos.start : Pos := ⟨0, 1, 0, 0⟩

/-- `char_traits::is_break` -/
def isBreak (c : Char) : Bool := c == '\n' || c == '\r'

/-- one character consumed; `next` is the character after it (`skip_break` / `skip_linebreak`:
a CR directly before an LF is consumed like a blank, the line ends at the LF) -/
def Pos.step (p : Pos) (c : Char) (next : Option Char) : Pos :=
  if c == '\r' && next == some '\n' then
    { index := p.index + 1, line := p.line, col := p.col + 1, byte := p.byte + utf8LenChar c }
  else if isBreak c then
    { index := p.index + 1, line := p.line + 1, col := 0, byte := p.byte + utf8LenChar c }
  else
    { index := p.index + 1, line := p.line, col := p.col + 1, byte := p.byte + utf8LenChar c }

/-- consume `n` characters (fewer if the text ends) -/
def walk : Pos → List Char → Nat → Pos
  | p, _, 0 => p
  | p, [], _ + 1 => p
  | p, c :: rest, n + 1 => walk (p.step c rest.head?) rest n

/-- the scanner's mark in front of character `i` of the text -/
def posOf (text : List Char) (i : Nat) : Pos := walk Pos.start text i

/-- the mark of the stream-end token: `fetch_stream_end` "forces a new line" when the column is not 0 -/
def streamEndMark (text : List Char) : Pos :=
  let p := posOf text text.length
  if p.col != 0 then { p with col := 0, line := p.line + 1 } else p

/-- `saphyr_parser::Marker` -/
structure Mark where
  index : Nat
  line : Nat
  col : Nat
  byte : Option Nat
deriving Repr, DecidableEq, Inhabited

def Pos.toMark (p : Pos) : Mark := ⟨p.index, p.line, p.col, some p.byte⟩

/-- `location::Span` (non-`huge_documents` build: `SpanIndex = u32`) -/
structure Span where
  offset : Nat
  len : Nat
  byteInfo : Nat × Nat
deriving Repr, DecidableEq, Inhabited

/-- `location::Location` -/
structure Location where
  line : Nat
  column : Nat
  span : Span
deriving Repr, DecidableEq, Inhabited

def Location.unknown : Location := ⟨0, 0, ⟨0, 0, (0, 0)⟩⟩

/-- `Span::byte_offset` / `Span::byte_len`: `(0, 0)` is the encoding of "not available" -/
def Span.byteOffset (s : Span) : Option Nat := if s.byteInfo == (0, 0) then none else some s.byteInfo.1
def Span.byteLen (s : Span) : Option Nat := if s.byteInfo == (0, 0) then none else some s.byteInfo.2

def U32_MAX : Nat := 4294967295

/-- `x as u32` -/
def asU32 (n : Nat) : Nat := n % 4294967296

/-- outcome of a conversion: arithmetic on `usize` can overflow (panic with overflow checks on) -/
inductive Res (α : Type) where
  | ok (a : α)
  | panic (site : String)
deriving Repr, DecidableEq

/-- `location::location_from_span` -/
def locationFromSpan (s e : Mark) : Res Location :=
  let byteInfo : Nat × Nat :=
    match s.byte, e.byte with
    | some sb, some eb =>
      let len := eb - sb            -- `saturating_sub`
      if sb > U32_MAX || len > U32_MAX then (0, 0) else (sb, len)
    | _, _ => (0, 0)
  if s.col + 1 > USIZE_MAX then .panic "start.col() + 1"
  else if e.index < s.index then .panic "Span::len: end.index() - start.index()"
  else
    .ok { line := asU32 s.line, column := asU32 (s.col + 1),
          span := { offset := asU32 s.index, len := asU32 (e.index - s.index), byteInfo := byteInfo } }

/-- the location built by `Error::from_scan_error` -/
def fromScanError (m : Mark) : Res Location :=
  if m.col + 1 > USIZE_MAX then .panic "mark.col() + 1"
  else .ok { line := asU32 m.line, column := asU32 (m.col + 1), span := { offset := asU32 m.index, len := 1, byteInfo := (0, 0) } }

/-- `str::get(..byte)`: the prefix of the text that is `byte` bytes long (`none`: beyond the end or not
a character boundary) -/
def prefixOfByte : List Char → Nat → Option (List Char)
  | _, 0 => some []
  | [], _ + 1 => none
  | c :: rest, b + 1 =>
    if utf8LenChar c ≤ b + 1 then (prefixOfByte rest (b + 1 - utf8LenChar c)).map (c :: ·) else none

/-- `before.ends_with(['\n', '\r'])` -/
def endsWithBreak (pre : List Char) : Bool :=
  match pre.getLast? with
  | some c => isBreak c
  | none => false

/-- `before[line_start..].chars().count()` with `line_start` = one past the last `\n` / `\r` (or 0) -/
def charsAfterLastBreak (pre : List Char) : Nat := (pre.reverse.takeWhile (fun c => !isBreak c)).length

/-- `location::mark_line_and_column`: line and 1-based column of a mark.  A mark at column 0 whose preceding
character (known when the input is in memory and the mark has a byte offset) is not a line break is the
scanner's end-of-stream mark on its forced new line: it is put back just after the last character. -/
def markLineCol (m : Mark) (input : Option (List Char)) : Nat × Nat :=
  if m.col == 0 && m.line > 1 then
    match input, m.byte with
    | some text, some byte =>
      if byte > 0 then
        match prefixOfByte text byte with
        | some before =>
          if !endsWithBreak before then (m.line - 1, charsAfterLastBreak before + 1) else (m.line, m.col + 1)
        | none => (m.line, m.col + 1)
      else (m.line, m.col + 1)
    | _, _ => (m.line, m.col + 1)
  else (m.line, m.col + 1)

/-- `location::location_from_span_in`: what `LiveEvents` applies to every span (`input` = the in-memory
text, `none` for reader input) -/
def locationFromSpanIn (input : Option (List Char)) (s e : Mark) : Res Location :=
  let byteInfo : Nat × Nat :=
    match s.byte, e.byte with
    | some sb, some eb =>
      let len := eb - sb
      if sb > U32_MAX || len > U32_MAX then (0, 0) else (sb, len)
    | _, _ => (0, 0)
  if s.col + 1 > USIZE_MAX then .panic "start.col() + 1"
  else if e.index < s.index then .panic "Span::len: end.index() - start.index()"
  else
    let lc := markLineCol s input
    .ok { line := asU32 lc.1, column := asU32 lc.2,
          span := { offset := asU32 s.index, len := asU32 (e.index - s.index), byteInfo := byteInfo } }

/-- `Error::from_scan_error_in` -/
def fromScanErrorIn (input : Option (List Char)) (m : Mark) : Res Location :=
  if m.col + 1 > USIZE_MAX then .panic "mark.col() + 1"
  else
    let lc := markLineCol m input
    .ok { line := asU32 lc.1, column := asU32 lc.2, span := { offset := asU32 m.index, len := 1, byteInfo := (0, 0) } }

/-- Opaque code of a `Location` for the event models (`Loc := Nat`, `0` = `Location::UNKNOWN`).  The low
20 bits hold the (clamped) column because `Pump.locCol0` reads them; the full fields follow. -/
def Location.code (l : Location) : Loc :=
  min l.column 1048575 + 1048576 * (l.line + 4294967296 * (l.column + 4294967296 * (l.span.offset +
    4294967296 * (l.span.len + 4294967296 * (l.span.byteInfo.1 + 4294967296 * l.span.byteInfo.2)))))

def Location.ofCode (c : Loc) : Location :=
  let r := c / 1048576
  let line := r % 4294967296
  let r := r / 4294967296
  let column := r % 4294967296
  let r := r / 4294967296
  let offset := r % 4294967296
  let r := r / 4294967296
  let len := r % 4294967296
  let r := r / 4294967296
  ⟨line, column, ⟨offset, len, (r % 4294967296, r / 4294967296)⟩⟩

/-- a parser item with its marks -/
inductive MItem where
  | ev (e : Raw) (s e' : Mark)
  | err (unknownAnchorMsg : Bool) (m : Mark)
deriving Repr, Inhabited

/-- what `LiveEvents::next_impl` makes of a parser item before looking at the event:
`location_from_span_in(&span, input)` / `Error::from_scan_error_in(err, input)` -/
def itemOf (input : Option (List Char)) : MItem → Res RawItem
  | .ev e s e' =>
    match locationFromSpanIn input s e' with
    | .ok l => .ok (.ev e l.code)
    | .panic s => .panic s
  | .err ua m =>
    match fromScanErrorIn input m with
    | .ok l => .ok (.err ua l.code)
    | .panic s => .panic s

def itemsOf (input : Option (List Char)) : List MItem → Res (List RawItem)
  | [] => .ok []
  | i :: rest =>
    match itemOf input i, itemsOf input rest with
    | .ok x, .ok xs => .ok (x :: xs)
    | .panic s, _ => .panic s
    | _, .panic s => .panic s

/-! ## Part B: the span-carrying wrapper over the cursor -/

/-- target types: `leaf t` is any type of `Model/De.lean` (no span-carrying parts), the other constructors
may contain span-carrying children -/
inductive STy where
  | leaf (t : Ty)
  | spanned (t : STy)
  | option (t : STy)
  | seq (t : STy)
  | map (v : STy)
  | struct (fields : List (String × STy))
  | treeInner
  /-- `std::num::NonZeroU8 … NonZeroI64`: `deserialize_u8(NonZeroVisitor)` …, whose `visit_*` rejects 0 with the
  static constructor `Error::invalid_value(Unexpected::Unsigned(0), &self)` — an error without location -/
  | nonzero (signed : Bool) (bits : Nat)

inductive SVal where
  | leaf (v : Val)
  | spanned (referenced defined : Loc) (v : SVal)
  | none
  | some (v : SVal)
  | seq (vs : List SVal)
  | map (es : List (Val × SVal))
  | struct (fs : List (String × SVal))
deriving Inhabited

/-- `deserialize_yaml_spanned`, the part before the value is read: `peek`, then
`defined` = location of the next event (`last_location()` at the end of input),
`referenced` = `reference_location()` -/
def spannedLocs (c : Cur) : R (Loc × Loc) :=
  match c.peek with
  | .err e c => .err e c
  | .ok (some ev) c => .ok (c.refLoc, ev.loc) c
  | .ok none c => .ok (c.refLoc, c.lastLoc) c

/-- A static constructor of `impl serde::de::Error for Error` (`invalid_type`, `invalid_value`,
`unknown_variant`, `unknown_field`, `missing_field`): the error is built with `Location::UNKNOWN` and
`maybe_attach_fallback_location` gives it what the cell holds (`None` and `Some(UNKNOWN)` attach nothing). -/
def staticErr (kind : String) (cell : Option Loc) : DErr := ⟨kind, Tls.effLoc cell, 0⟩

/-- missing fields of a derived struct: `Option` fields default to `None` -/
def structFinishS (fields : List (String × STy)) (got : List (String × SVal)) (c : Cur) : R SVal :=
  let rec fill (fs : List (String × STy)) (acc : List (String × SVal)) : Except DErr (List (String × SVal)) :=
    match fs with
    | [] => .ok acc
    | (n, t) :: rest =>
      match got.find? (fun p => p.1 == n) with
      | some p => fill rest (acc ++ [p])
      | none =>
        match t with
        | .option _ => fill rest (acc ++ [(n, SVal.none)])
        | _ => .error (serdeErr "missing_field")
  match fill fields [] with
  | .ok fs => .ok (.struct fs) c
  | .error e => .err e c

mutual

/-- `T::deserialize(YamlDeserializer)` for the wrapper types; `fb` = what the fallback cell holds while
this node is read -/
def deserS : Nat → Cfg → Option Loc → STy → Cur → R SVal
  | 0, _, _, _, c => .err ⟨"OutOfFuel", 0, 0⟩ c
  | fuel + 1, cfg, fb, sty, c =>
    match sty with
    | .leaf t =>
      match deser (fuel + 1) cfg t false false c with
      | .err e c => .err e c
      | .ok v c => .ok (.leaf v) c
    | .spanned t =>
      match spannedLocs c with
      | .err e c => .err e c
      | .ok (referenced, defined) c =>
        -- `SpannedMapAccess` hands out the inner deserializer as it is: no guard
        match deserS fuel cfg fb t c with
        | .err e c => .err e c
        | .ok v c => .ok (.spanned referenced defined v) c
    | .option t =>
      match c.peek with
      | .err e c => .err e c
      | .ok none c => .ok .none c
      | .ok (some (.scalar v tag _ st _ _)) c =>
        if tag == tagNull || scalarIsNullishForOption v st then
          match c.next with
          | .err e c => .err e c
          | .ok _ c => .ok .none c
        else
          match deserS fuel cfg fb t c with
          | .err e c => .err e c
          | .ok v c => .ok (.some v) c
      | .ok (some (.mapEnd _)) c | .ok (some (.seqEnd _)) c => .ok .none c
      | .ok (some _) c =>
        match deserS fuel cfg fb t c with
        | .err e c => .err e c
        | .ok v c => .ok (.some v) c
    | .seq t => deserSeqS fuel cfg t c
    | .map v => deserMapS fuel cfg (.inl v) c
    | .struct fields => deserMapS fuel cfg (.inr fields) c
    | .treeInner =>
      match c.peek with
      | .err e c => .err e c
      | .ok none c => .ok (.leaf .unit) c
      | .ok (some (.scalar v tag _ st _ l)) c =>
        match deserAnyScalar cfg c v tag st l with
        | .err e c => .err e c
        | .ok x c => .ok (.leaf x) c
      | .ok (some (.seqStart ..)) c => deserSeqS fuel cfg (.spanned .treeInner) c
      | .ok (some (.mapStart ..)) c => deserMapS fuel cfg (.inl (.spanned .treeInner)) c
      | .ok (some (.seqEnd l)) c => .err ⟨"UnexpectedSequenceEnd", l, 0⟩ c
      | .ok (some (.mapEnd l)) c => .err ⟨"UnexpectedMappingEnd", l, 0⟩ c
    | .nonzero signed bits =>
      -- `deserialize_u8(NonZeroVisitor)`: the integer is read as for the plain type, `visit_u8(0)` is refused
      match deser (fuel + 1) cfg (.int signed bits) false false c with
      | .err e c => .err e c
      | .ok (.int i) c => if i == 0 then .err (staticErr "invalid_value" fb) c else .ok (.leaf (.int i)) c
      | .ok v c => .ok (.leaf v) c

/-- `deserialize_seq` with a `Vec<T>` visitor (mirror of `De.deserSeqLike`, `inl` shape) -/
def deserSeqS : Nat → Cfg → STy → Cur → R SVal
  | 0, _, _, c => .err ⟨"OutOfFuel", 0, 0⟩ c
  | fuel + 1, cfg, t, c =>
    match c.peek with
    | .err e c => .err e c
    | .ok pk c =>
      let special : Option (R SVal) :=
        match pk with
        | some (.scalar v tag _ st _ _) =>
          if tag == tagNull || scalarIsNullish v st then
            match c.next with
            | .err e c => some (.err e c)
            | .ok _ c => some (.ok (.seq []) c)
          else if tag == tagBinary then
            -- `!!binary` scalar as a byte sequence: elements come from `U8Deserializer`; a span-carrying
            -- element would carry `Location::UNKNOWN` (not modelled, never generated)
            some (.err ⟨"NotModelled", 0, 0⟩ c)
          else none
        | _ => none
      match special with
      | some r => r
      | none =>
        match c.next with
        | .err e c => .err e c
        | .ok none c => .err (eofErr c) c
        | .ok (some (.seqStart ..)) c =>
          match seqElemsS fuel cfg t c [] with
          | .err e c => .err e c
          | .ok vs c =>
            match c.peek with
            | .err e c => .err e c
            | .ok (some (.seqEnd _)) c =>
              match c.next with
              | .err e c => .err e c
              | .ok _ c => .ok (.seq vs) c
            | .ok _ c => .ok (.seq vs) c
        | .ok (some other) c => .err ⟨"Unexpected", other.loc, 0⟩ c

/-- `SA::next_element_seed` until it returns `None` -/
def seqElemsS : Nat → Cfg → STy → Cur → List SVal → R (List SVal)
  | 0, _, _, c, _ => .err ⟨"OutOfFuel", 0, 0⟩ c
  | fuel + 1, cfg, t, c, acc =>
    match c.peek with
    | .err e c => .err e c
    | .ok none c => .err (eofErr c) c
    | .ok (some (.seqEnd _)) c => .ok acc c
    | .ok (some ev) c =>
      let defined := ev.loc
      let ref := c.refLoc
      -- `let _missing_field_guard = MissingFieldLocationGuard::new(reference_location)`
      match deserS fuel cfg (some ref) t c with
      | .err e c => .err (attachAlias e ref defined) c
      | .ok v c => seqElemsS fuel cfg t c (acc ++ [v])

/-- `deserialize_map` / `deserialize_struct` (mirror of `De.deserMapLike`) -/
def deserMapS : Nat → Cfg → (STy ⊕ List (String × STy)) → Cur → R SVal
  | 0, _, _, c => .err ⟨"OutOfFuel", 0, 0⟩ c
  | fuel + 1, cfg, shape, c =>
    match c.peek with
    | .err e c => .err e c
    | .ok pk c =>
      let isNull := match pk with
        | some (.scalar v tag _ st _ _) => tag == tagNull || scalarIsNullish v st
        | _ => false
      if isNull then
        match c.next with
        | .err e c => .err e c
        | .ok _ c =>
          match shape with
          | .inl _ => .ok (.map []) c
          | .inr fields => structFinishS fields [] c
      else
        match c.next with
        | .err e c => .err e c
        | .ok none c => .err (eofErr c) c
        | .ok (some (.mapStart ..)) c =>
          match shape with
          | .inl v =>
            match mapEntriesS fuel cfg v c {} [] with
            | .err e c => .err e c
            | .ok es c => .ok (.map es) c
          | .inr fields =>
            match structEntriesS fuel cfg fields c {} [] with
            | .err e c => .err e c
            | .ok got c => structFinishS fields got c
        | .ok (some other) c => .err ⟨"Unexpected", other.loc, 0⟩ c

/-- map visitor with untyped keys -/
def mapEntriesS : Nat → Cfg → STy → Cur → MA → List (Val × SVal) → R (List (Val × SVal))
  | 0, _, _, c, _, _ => .err ⟨"OutOfFuel", 0, 0⟩ c
  | fuel + 1, cfg, vt, c, m, acc =>
    match nextKey fuel cfg (.inl .any) c m with
    | .err e c => .err e c
    | .ok (.done, _) c => .ok acc c
    | .ok (.key k _, m) c =>
      match nextValueS fuel cfg vt c m with
      | .err e c => .err e c
      | .ok (v, m) c => mapEntriesS fuel cfg vt c m (acc ++ [(k, v)])

/-- derived struct visitor (unknown fields ignored) -/
def structEntriesS : Nat → Cfg → List (String × STy) → Cur → MA → List (String × SVal) → R (List (String × SVal))
  | 0, _, _, c, _, _ => .err ⟨"OutOfFuel", 0, 0⟩ c
  | fuel + 1, cfg, fields, c, m, acc =>
    match nextKey fuel cfg (.inr ()) c m with
    | .err e c => .err e c
    | .ok (.done, _) c => .ok acc c
    | .ok (.key (.str name) _, m) c =>
      match lookupField fields name with
      | some (_, t) =>
        let fname := String.ofList name
        if acc.any (fun p => p.1 == fname) then .err (serdeErr "duplicate_field") c
        else
          match nextValueS fuel cfg t c m with
          | .err e c => .err e c
          | .ok (v, m) c => structEntriesS fuel cfg fields c m (acc ++ [(fname, v)])
      | none =>
        match nextValue fuel cfg .any c m with
        | .err e c => .err e c
        | .ok (_, m) c => structEntriesS fuel cfg fields c m acc
    | .ok (.key _ _, _) c => .err ⟨"ModelMisuse", 0, 0⟩ c

/-- `MA::next_value_seed` (mirror of `De.nextValue`) -/
def nextValueS : Nat → Cfg → STy → Cur → MA → R (SVal × MA)
  | 0, _, _, c, _ => .err ⟨"OutOfFuel", 0, 0⟩ c
  | fuel + 1, cfg, vt, c, m =>
    if !m.haveKey then .err ⟨"ValueRequestedBeforeKey", c.lastLoc, 0⟩ c else
    let m := { m with haveKey := false }
    match m.pendingValue with
    | some (events, ref) =>
      let m := { m with pendingValue := none }
      let rc := Cur.replay events 0 (some ref)
      let defined := match events[0]? with
        | some e => e.loc
        | none => 0
      -- `let _value_guard = MissingFieldLocationGuard::new(reference_location)`
      match deserS fuel cfg (some ref) vt rc with
      | .err e _ => .err (attachAlias e ref defined) c
      | .ok v rc' =>
        match rc'.peek with
        | .ok (some ev) _ => .err ⟨"Unexpected", ev.loc, 0⟩ c
        | _ => .ok (v, m) c
    | none =>
      match c.peek with
      | .err e c => .err e c
      | .ok pk c =>
        let defined := match pk with
          | some e => e.loc
          | none => c.lastLoc
        let ref := c.refLoc
        -- `let _value_guard = MissingFieldLocationGuard::new(reference_location)`
        match deserS fuel cfg (some ref) vt c with
        | .err e c => .err (attachAlias e ref defined) c
        | .ok v c => .ok (v, m) c

end

/-- `with_deserializer_from_str_with_options` with a span-carrying target -/
def fromSingleS (cfg : Cfg) (sty : STy) (p : Pump) (items : List RawItem) : Except DErr SVal :=
  let c := Cur.live p items
  -- `with_document_scope`: `FallbackScopeGuard::enter()` empties the cell
  match deserS (Entry.fuelFor items.length) cfg none sty c with
  | .err e c =>
    let syn := match c with | .live p _ => p.synthesizedNull | _ => false
    if syn then .error ⟨"Eof", c.lastLoc, 0⟩ else .error e
  | .ok v c =>
    match Entry.enforceSingle c with
    | some e => .error e
    | none => .ok v

/-- `Error::locations()`: a pair for every located error (`Locations::same` for the single-location
variants, both locations of an `AliasError`), `none` without location -/
def errLocations (e : DErr) : Option (Loc × Loc) :=
  if e.kind == "AliasError" then some (e.loc, e.loc2)
  else if e.loc == 0 then none else some (e.loc, e.loc)

end SaphyrVerif.Locs
