import SaphyrVerif.Model.Event
import SaphyrVerif.Gen.Tables
/-!
Model of the snippet helpers of `src/de/snippet.rs`, the region bookkeeping of
`src/de_error.rs` (`with_snippet*`, `pick_cropped_region`, `line_count_including_trailing_empty_line`)
and the recent-bytes trimming of `src/ring_reader.rs`.

Representation (DESIGN.md 3.2): a Rust `&str` is a `List Char`; byte offsets are prefix sums of
`utf8LenChar`. Where the Rust code works on the raw bytes (sanitiser, cleanliness scan, ring reader)
the model works on `List Nat` bytes through `encode` / `decode`.

Every `&s[a..b]` is `slice s a b site`, which is `Res.panic site` unless `a ≤ b ≤ len` and both are
character boundaries (exactly Rust's panic condition); `v[i]` on a `Vec` is `idx`; `x - 1` on a
`usize` is `subOne`. Loops that the Rust code drives by a byte position are modelled with the same
position variable and a fuel argument; running out of fuel is itself a `panic "fuel:…"` outcome so
that "the fuel suffices" is part of the no-panic theorems (Props/C17.lean), never an assumption.
`saturating_add` on `usize` is `satAdd` (saturates at `usizeMax = 2^64-1`); plain `+ 1` on positions,
rows and columns is unbounded (those counters are bounded by the text length, which Rust bounds by
`isize::MAX`).

Line breaks (fix of finding `C17-lone-cr-line-break`): every entry point that counts or splits lines
(`crop_source_window`, both renderers, `line_count_including_trailing_empty_line`) first rewrites the
text with `normalize_line_breaks` (`normBreaks`: a lone CR becomes LF, one byte for one byte), so that
the `\n`-based helpers below see the line breaks YAML sees (LF, CRLF, lone CR); the ring reader counts an
evicted lone CR as a line, and `line_aligned_text` skips the partial line up to the first such break.
-/
namespace SaphyrVerif.Snippet
open SaphyrVerif

/-- outcome of a modelled function: a value, or a Rust panic at a named site -/
inductive Res (α : Type) where
  | ok (a : α)
  | panic (site : String)
deriving Repr, DecidableEq

namespace Res
def bind {α β} : Res α → (α → Res β) → Res β
  | ok a, f => f a
  | panic s, _ => panic s
instance : Monad Res where
  pure := ok
  bind := bind
def isOk {α} : Res α → Bool
  | ok _ => true
  | panic _ => false
end Res

def usizeMax : Nat := 18446744073709551615
/-- `usize::saturating_add` -/
def satAdd (a b : Nat) : Nat := min (a + b) usizeMax

/-- `str::len` -/
abbrev blen (s : List Char) : Nat := utf8Len s

/-! ## UTF-8 byte view -/

/-- UTF-8 encoding of one scalar value -/
def utf8Bytes (c : Char) : List Nat :=
  let n := c.toNat
  if n < 0x80 then [n]
  else if n < 0x800 then [0xC0 + n / 64, 0x80 + n % 64]
  else if n < 0x10000 then [0xE0 + n / 4096, 0x80 + (n / 64) % 64, 0x80 + n % 64]
  else [0xF0 + n / 262144, 0x80 + (n / 4096) % 64, 0x80 + (n / 64) % 64, 0x80 + n % 64]

/-- `str::as_bytes` -/
def encode : List Char → List Nat
  | [] => []
  | c :: cs => utf8Bytes c ++ encode cs

/-- `String::from_utf8` (strict: shortest form, no surrogates, ≤ U+10FFFF); `none` = `Err` -/
def decode : List Nat → Option (List Char)
  | [] => some []
  | b0 :: rest =>
    if b0 < 0x80 then (decode rest).map (Char.ofNat b0 :: ·)
    else if 0xC2 ≤ b0 ∧ b0 < 0xE0 then
      match rest with
      | b1 :: r =>
        if 0x80 ≤ b1 ∧ b1 < 0xC0 then (decode r).map (Char.ofNat ((b0 - 0xC0) * 64 + (b1 - 0x80)) :: ·) else none
      | _ => none
    else if 0xE0 ≤ b0 ∧ b0 < 0xF0 then
      match rest with
      | b1 :: b2 :: r =>
        let cp := (b0 - 0xE0) * 4096 + (b1 - 0x80) * 64 + (b2 - 0x80)
        if 0x80 ≤ b1 ∧ b1 < 0xC0 ∧ 0x80 ≤ b2 ∧ b2 < 0xC0 ∧ cp ≥ 0x800 ∧ ¬ (0xD800 ≤ cp ∧ cp < 0xE000)
        then (decode r).map (Char.ofNat cp :: ·) else none
      | _ => none
    else if 0xF0 ≤ b0 ∧ b0 < 0xF5 then
      match rest with
      | b1 :: b2 :: b3 :: r =>
        let cp := (b0 - 0xF0) * 262144 + (b1 - 0x80) * 4096 + (b2 - 0x80) * 64 + (b3 - 0x80)
        if 0x80 ≤ b1 ∧ b1 < 0xC0 ∧ 0x80 ≤ b2 ∧ b2 < 0xC0 ∧ 0x80 ≤ b3 ∧ b3 < 0xC0 ∧ cp ≥ 0x10000 ∧ cp ≤ 0x10FFFF
        then (decode r).map (Char.ofNat cp :: ·) else none
      | _ => none
    else none

/-- `s.as_bytes().get(i)` -/
def byteAt : List Char → Nat → Option Nat
  | [], _ => none
  | c :: cs, i => if i < utf8LenChar c then (utf8Bytes c)[i]? else byteAt cs (i - utf8LenChar c)

/-! ## slicing with Rust's panic condition -/

/-- the suffix starting at byte `n`; `none` if `n` is past the end or inside a character -/
def dropBytes : List Char → Nat → Option (List Char)
  | s, 0 => some s
  | [], _ + 1 => none
  | c :: cs, n + 1 => if utf8LenChar c ≤ n + 1 then dropBytes cs (n + 1 - utf8LenChar c) else none

/-- the prefix of exactly `n` bytes; `none` if `n` is past the end or inside a character -/
def takeBytes : List Char → Nat → Option (List Char)
  | _, 0 => some []
  | [], _ + 1 => none
  | c :: cs, n + 1 =>
    if utf8LenChar c ≤ n + 1 then (takeBytes cs (n + 1 - utf8LenChar c)).map (c :: ·) else none

/-- `&s[a..b]` -/
def slice (s : List Char) (a b : Nat) (site : String) : Res (List Char) :=
  if a ≤ b then
    match dropBytes s a with
    | some r =>
      match takeBytes r (b - a) with
      | some t => .ok t
      | none => .panic site
    | none => .panic site
  else .panic site

/-- `v[i]` on a `Vec<usize>` -/
def idx (v : List Nat) (i : Nat) (site : String) : Res Nat :=
  match v[i]? with
  | some x => .ok x
  | none => .panic site

/-- `x - 1` on `usize` (overflow check) -/
def subOne (x : Nat) (site : String) : Res Nat :=
  if x = 0 then .panic site else .ok (x - 1)

/-! ## sanitising (bytes) -/

/-- C0 control other than `\n`, `\t`, or DEL -/
def isC0Del (b : Nat) : Bool := (b < 0x20 && b != 0x0A && b != 0x09) || b == 0x7F

/-- first loop of `sanitize_terminal_snippet_preserve_len` -/
def pass1 (bs : List Nat) : List Nat := bs.map fun b => if isC0Del b then 0x20 else b

/-- second loop: `0xC2 0x80..=0x9F` becomes `0xC2 0xA0`, skipping the pair -/
def pass2 : List Nat → List Nat
  | [] => []
  | [b] => [b]
  | b0 :: b1 :: rest =>
    if b0 == 0xC2 && (0x80 ≤ b1 && b1 ≤ 0x9F) then b0 :: 0xA0 :: pass2 rest
    else b0 :: pass2 (b1 :: rest)

def sanitizeBytes (bs : List Nat) : List Nat := pass2 (pass1 bs)

/-- `sanitize_terminal_snippet_preserve_len`. The `from_utf8_lossy` fallback branch is not
modelled: reaching it is reported as the distinguished outcome below, and `sanitize_utf8`
(Props/C17) proves it is never reached. -/
def sanitize (s : List Char) : Res (List Char) :=
  match decode (sanitizeBytes (encode s)) with
  | some r => .ok r
  | none => .panic "unmodelled:sanitize:from_utf8_lossy"

/-- second loop of `is_terminal_snippet_clean` (advances by one byte every time) -/
def hasC1Pair : List Nat → Bool
  | [] => false
  | [_] => false
  | b0 :: b1 :: rest => (b0 == 0xC2 && (0x80 ≤ b1 && b1 ≤ 0x9F)) || hasC1Pair (b1 :: rest)

def isCleanBytes (bs : List Nat) : Bool := bs.all (fun b => !isC0Del b) && !hasC1Pair bs

/-- `is_terminal_snippet_clean` -/
def isClean (s : List Char) : Bool := isCleanBytes (encode s)

/-! ## lines and columns -/

def lineStartsFrom (off : Nat) : List Char → List Nat
  | [] => []
  | c :: cs =>
    if c = '\n' then (off + 1) :: lineStartsFrom (off + 1) cs
    else lineStartsFrom (off + utf8LenChar c) cs

/-- `line_starts` -/
def lineStarts (s : List Char) : List Nat :=
  if s.isEmpty then [] else 0 :: lineStartsFrom 0 s

def colToByteGo (col1 : Nat) : List Char → Nat → Nat → Option Nat
  | [], col, i => if col = col1 then some i else none
  | c :: cs, col, i => if col = col1 then some i else colToByteGo col1 cs (col + 1) (i + utf8LenChar c)

/-- `col_to_byte_offset_in_line` -/
def colToByte (line : List Char) (col1 : Nat) : Option Nat :=
  if col1 = 0 then none else colToByteGo col1 line 1 0

/-- `line_col_to_byte_offset_with_starts` -/
def lineColToByte (source : List Char) (starts : List Nat) (row1 col1 : Nat) : Res (Option Nat) :=
  if row1 = 0 ∨ col1 = 0 then .ok none
  else if starts.isEmpty then .ok none
  else
    let rowIdx := row1 - 1
    if rowIdx ≥ starts.length then .ok none
    else do
      let lineStart ← idx starts rowIdx "line_col_to_byte:starts[row_idx]"
      let lineEnd0 ← if rowIdx + 1 < starts.length
        then (do let s ← idx starts (rowIdx + 1) "line_col_to_byte:starts[row_idx+1]"; pure (s - 1))
        else pure (blen source)
      let lineEnd := if lineEnd0 > lineStart ∧ byteAt source (lineEnd0 - 1) = some 0x0D then lineEnd0 - 1 else lineEnd0
      let line ← slice source lineStart lineEnd "line_col_to_byte:source[line_start..line_end]"
      pure ((colToByte line col1).map (lineStart + ·))

/-- `next_char_boundary` -/
def nextCharBoundary (source : List Char) (start : Nat) : Res (Option Nat) :=
  if start ≥ blen source then .ok none
  else do
    let s ← slice source start (blen source) "next_char_boundary:source[start..]"
    match s with
    | [] => pure none
    | c :: rest =>
      match rest with
      | [] => pure (some (blen source))
      | _ :: _ => pure (some (start + utf8LenChar c))

/-- `s.strip_suffix('\r').unwrap_or(s)` -/
def stripCR (l : List Char) : List Char :=
  if l.getLast? = some '\r' then l.dropLast else l

/-- `s.strip_suffix('\n').unwrap_or(s)` -/
def stripNL (l : List Char) : List Char :=
  if l.getLast? = some '\n' then l.dropLast else l

/-- `s.strip_prefix('\u{FEFF}').unwrap_or(s)` -/
def stripBom : List Char → List Char
  | c :: cs => if c.toNat = 0xFEFF then cs else c :: cs
  | [] => []

/-- `normalize_line_breaks`: every lone `\r` (one that is not followed by `\n`) becomes `\n`; the
borrowed and the rebuilt result of the Rust function are the same text -/
def normBreaks : List Char → List Char
  | [] => []
  | c :: cs => (if c = '\r' ∧ cs.head? ≠ some '\n' then '\n' else c) :: normBreaks cs

/-- `s.find('\n')` (byte index) -/
def findNl : List Char → Option Nat
  | [] => none
  | c :: cs => if c = '\n' then some 0 else (findNl cs).map (· + utf8LenChar c)

/-- `s.rfind('\n')` (byte index of the last newline) -/
def rfindNl (s : List Char) : Option Nat :=
  (findNl s.reverse).map fun i => blen s - 1 - i

/-- `s.split_inclusive('\n')` -/
def splitInclusive : List Char → List (List Char)
  | [] => []
  | c :: cs =>
    if c = '\n' then [c] :: splitInclusive cs
    else match splitInclusive cs with
      | [] => [[c]]
      | l :: ls => (c :: l) :: ls

/-- `s.lines()`: pieces of `split_inclusive('\n')` without `\n`, and without `\r` before that `\n` -/
def linesOf (s : List Char) : List (List Char) :=
  (splitInclusive s).map fun p =>
    if p.getLast? = some '\n' then stripCR p.dropLast else p

/-! ## horizontal cropping of one line -/

structure LineCrop where
  startByte : Nat
  prefixBytes : Nat
deriving Repr, DecidableEq

def ellipsis : Char := '…'

/-- `crop_line_by_cols` -/
def cropLineByCols (line : List Char) (left right : Nat) : Res (List Char × LineCrop) :=
  let n := line.length
  if n = 0 then .ok ([], ⟨0, 0⟩)
  else if left ≥ satAdd n 1 then .ok (line, ⟨0, 0⟩)
  else if left ≤ 1 ∧ right ≥ n then .ok (line, ⟨0, 0⟩)
  else
    let startCol := min left (n + 1)
    let endColExcl := min (satAdd right 1) (n + 1)
    let startByte := (colToByte line startCol).getD 0
    let endByte := (colToByte line endColExcl).getD (blen line)
    let leftClipped := decide (startCol > 1) && decide (startByte > 0)
    let rightClipped := decide (endColExcl ≤ n) && decide (endByte < blen line)
    do
      let mid ← slice line startByte endByte "crop_line_by_cols:line[start_byte..end_byte]"
      let out := (if leftClipped then [ellipsis] else []) ++ mid ++ (if rightClipped then [ellipsis] else [])
      pure (out, ⟨startByte, if leftClipped then utf8LenChar ellipsis else 0⟩)

/-! ## `crop_window_text` -/

structure CwtState where
  oldPos : Nat
  row : Nat
  out : List Char
  newStart : Nat
  newEnd : Nat
  rebased : Bool
deriving Repr

/-- one line of the loops of `crop_window_text` / `crop_source_window`:
`(line_raw, had_nl, consumed)` from the position `old_pos` -/
def nextLine (w : List Char) (oldPos : Nat) (site : String) : Res (List Char × Bool × Nat) := do
  let rest ← slice w oldPos (blen w) (site ++ ":window_text[old_pos..]")
  match (findNl rest).map (oldPos + ·) with
  | some nl => do
    let l ← slice w oldPos nl (site ++ ":window_text[old_pos..nl]")
    pure (l, true, (nl - oldPos) + 1)
  | none => do
    let l ← slice w oldPos (blen w) (site ++ ":window_text[old_pos..]")
    pure (l, false, blen w - oldPos)

/-- `if do_crop { crop_line_by_cols(line, left_col, right_col) } else { (line.to_owned(), LineCrop { 0, 0 }) }` -/
def renderLine (doCrop : Bool) (line : List Char) (leftCol rightCol : Nat) : Res (List Char × LineCrop) :=
  if doCrop then cropLineByCols line leftCol rightCol else .ok (line, ⟨0, 0⟩)

/-- the `while old_pos < window_text.len()` loop of `crop_window_text` -/
def cwtLoop (w : List Char) (errorRow : Nat) (doCrop : Bool) (leftCol rightCol localStart localEnd : Nat) :
    Nat → CwtState → Res CwtState
  | 0, st => if st.oldPos < blen w then .panic "fuel:crop_window_text" else .ok st
  | fuel + 1, st =>
    if st.oldPos < blen w then do
      let (lineRaw, hadNl, consumed) ← nextLine w st.oldPos "crop_window_text"
      let line := stripCR lineRaw
      let lineStartOld := st.oldPos
      let lineStartNew := blen st.out
      let (rendered, crop) ← renderLine doCrop line leftCol rightCol
      let out := st.out ++ rendered ++ (if hadNl then ['\n'] else [])
      let st1 : CwtState :=
        if st.row = errorRow then
          let s0 := min (localStart - lineStartOld) (blen line) - crop.startByte
          let e0 := min (localEnd - lineStartOld) (blen line) - crop.startByte
          let mx := lineStartNew + blen rendered
          let ns := min (lineStartNew + crop.prefixBytes + s0) mx
          let ne := min (lineStartNew + crop.prefixBytes + e0) mx
          { st with newStart := ns, newEnd := if ne < ns then ns else ne, rebased := true }
        else st
      let st2 : CwtState := { st1 with oldPos := st.oldPos + consumed, row := st.row + 1, out := out }
      if hadNl then cwtLoop w errorRow doCrop leftCol rightCol localStart localEnd fuel st2 else pure st2
    else .ok st

/-- `crop_window_text` → `(text, local_start, local_end)` -/
def cropWindowText (w : List Char) (windowStartRow errorRow errorCol cropRadius localStart localEnd : Nat) :
    Res (List Char × Nat × Nat) :=
  if cropRadius = 0 ∧ ¬ (encode w).contains 0x0D ∧ isClean w then .ok (w, localStart, localEnd)
  else do
    let doCrop := cropRadius != 0
    let leftCol := max (errorCol - cropRadius) 1
    let rightCol := satAdd errorCol cropRadius
    let st ← cwtLoop w errorRow doCrop leftCol rightCol localStart localEnd (blen w)
      ⟨0, windowStartRow, [], localStart, localEnd, false⟩
    let (ns, ne) :=
      if ¬ st.rebased ∧ w.getLast? = some '\n' ∧ st.row = errorRow then (blen st.out, blen st.out)
      else (st.newStart, st.newEnd)
    let mx := blen st.out
    let ns := min ns mx
    let ne := min ne mx
    let ne := if ne < ns then ns else ne
    let out ← sanitize st.out
    pure (out, ns, ne)

/-! ## `crop_source_window` -/

/-- `LineMapping`: `none` = `Identity`, `some n` = `Offset { start_line: n }` -/
abbrev Mapping := Option Nat

/-- a `Location` as far as the snippet code looks at it: `(line, column)`; the span is not used by
the snippet code except through `== Location::UNKNOWN`, and the hooks always pass an unknown span -/
structure Loc where
  line : Nat
  column : Nat
deriving Repr, DecidableEq

def Loc.isUnknown (l : Loc) : Bool := l.line == 0 && l.column == 0

/-- absolute row → row relative to the text; `none` when the row lies before the fragment -/
def relativeRow (m : Mapping) (absRow : Nat) : Option Nat :=
  match m with
  | none => some absRow
  | some startLine => if absRow < startLine then none else some (satAdd (absRow - startLine) 1)

/-- window start row → absolute display row -/
def absoluteRow (m : Mapping) (windowRow : Nat) : Nat :=
  match m with
  | none => windowRow
  | some startLine => satAdd startLine windowRow - 1

def ctxLines : Nat := Gen.snippetContextLines

/-- the vertical window `(window_start_row, window_end_row)` around `row` -/
def windowRows (row total : Nat) : Nat × Nat :=
  let ws := max (row - ctxLines) 1
  let we := min (satAdd row ctxLines) total
  (min ws we, we)

/-- `(window_start, window_end)` byte range of the rows `ws..=we` -/
def windowBytes (text : List Char) (starts : List Nat) (ws we : Nat) (site : String) : Res (Nat × Nat) := do
  let i ← subOne ws (site ++ ":window_start_row-1")
  let a ← idx starts i (site ++ ":starts[window_start_row-1]")
  let b ← if we < starts.length then idx starts we (site ++ ":starts[window_end_row]") else pure (blen text)
  pure (a, b)

/-- the storage-crop loop of `crop_source_window` -/
def cswLoop (w : List Char) (errorRow leftCol rightCol : Nat) : Nat → Nat → Nat → List Char → Res (List Char)
  | 0, oldPos, _, out => if oldPos < blen w then .panic "fuel:crop_source_window" else .ok out
  | fuel + 1, oldPos, row, out =>
    if oldPos < blen w then do
      let (lineRaw, hadNl, consumed) ← nextLine w oldPos "crop_source_window"
      let line := stripCR lineRaw
      let out1 ←
        if row = errorRow then do
          let endColExcl := satAdd rightCol 1
          let endByte := (colToByte line endColExcl).getD (blen line)
          let rightClipped := decide (endByte < blen line)
          let pre ← slice line 0 endByte "crop_source_window:line[..end_byte]"
          pure (out ++ pre ++ (if rightClipped then [ellipsis] else []))
        else do
          let (rendered, _) ← cropLineByCols line leftCol rightCol
          pure (out ++ rendered)
      let out2 := out1 ++ (if hadNl then ['\n'] else [])
      cswLoop w errorRow leftCol rightCol fuel (satAdd oldPos consumed) (satAdd row 1) out2
    else .ok out

def storageCropTotal : Nat := Gen.snippetStorageCropWindowBytes
def storageCropLine : Nat := Gen.snippetStorageCropLineBytes

/-- `crop_source_window` → `(cropped_text, start_line)` -/
def cropSourceWindow (text0 : List Char) (loc : Loc) (m : Mapping) (cropRadius : Nat) : Res (List Char × Nat) :=
  if text0.isEmpty ∨ loc.isUnknown then .ok ([], 1)
  else
    let text := normBreaks (stripBom text0)
    match relativeRow m loc.line with
    | none => .ok ([], m.getD 1)
    | some rel =>
      let starts := lineStarts text
      if starts.isEmpty then .ok ([], 1)
      else if rel = 0 ∨ rel > starts.length then .ok ([], m.getD 1)
      else do
        let (ws, we) := windowRows rel starts.length
        let (a, b) ← windowBytes text starts ws we "crop_source_window"
        let w ← slice text a b "crop_source_window:text[window_start..window_end]"
        if cropRadius = 0 then pure (w, absoluteRow m ws)
        else
          let needs := decide (blen w > storageCropTotal) ||
            (linesOf w).any (fun l => decide (blen (stripCR l) > storageCropLine))
          if ¬ needs then pure (w, absoluteRow m ws)
          else do
            let leftCol := max (loc.column - cropRadius) 1
            let rightCol := satAdd loc.column cropRadius
            let out ← cswLoop w rel leftCol rightCol (blen w) 0 ws []
            let out ← sanitize out
            pure (out, absoluteRow m ws)

/-! ## the span / window computation shared by both renderers -/

/-- what `Snippet::fmt_or_fallback` hands to annotate-snippets, and what
`fmt_snippet_window_with_mapping_or_fallback` prints itself -/
structure Prepared where
  windowText : List Char
  localStart : Nat
  localEnd : Nat
  /-- row (relative to the text) of the location -/
  row : Nat
  windowStartRow : Nat
  windowEndRow : Nat
  totalLines : Nat
  /-- `line_start(..)` given to the renderer -/
  displayStartRow : Nat
deriving Repr

/-- the end of the minimal primary span:
`match text.as_bytes().get(start) { Some(b'\n') | Some(b'\r') => start, _ => next_char_boundary(text, start).unwrap_or(start) }` -/
def spanEnd (text : List Char) (start : Nat) : Res Nat :=
  let b := byteAt text start
  if b = some 0x0A ∨ b = some 0x0D then .ok start
  else do
    let n ← nextCharBoundary text start
    pure (n.getD start)

/-- common prefix of `Snippet::fmt_or_fallback` and `fmt_snippet_window_with_mapping_or_fallback`;
`none` = the fallback (no snippet) path -/
def prepare (text0 : List Char) (loc : Loc) (m : Mapping) (cropRadius : Nat) : Res (Option Prepared) :=
  if loc.isUnknown then .ok none
  else
    match relativeRow m loc.line with
    | none => .ok none
    | some row =>
      let text := normBreaks text0
      let starts := lineStarts text
      if starts.isEmpty then .ok none
      else if row = 0 ∨ row > starts.length then .ok none
      else do
        let some start ← lineColToByte text starts row loc.column | pure none
        let endB ← spanEnd text start
        let (ws, we) := windowRows row starts.length
        let (a, bnd) ← windowBytes text starts ws we "fmt"
        let w ← slice text a bnd "fmt:text[window_start..window_end]"
        let ls := min (start - a) (blen w)
        let le := min (endB - a) (blen w)
        let (wt, ls', le') ← cropWindowText w ws row loc.column cropRadius ls le
        pure (some ⟨wt, ls', le', row, ws, we, starts.length, absoluteRow m ws⟩)

/-- what `Snippet::fmt_or_fallback` hands to the external renderer annotate-snippets: the title
`"{loc_prefix}: {msg}"` (default localizer: `line L column C`), the window source with its first line
number, the primary span and the label (the message again). `none` = no snippet (plain message). -/
structure RenderRequest where
  title : List Char
  source : List Char
  lineStart : Nat
  spanStart : Nat
  spanEnd : Nat
  label : List Char
deriving Repr, DecidableEq

/-- `Localizer::snippet_location_prefix` (default English localizer) -/
def locPrefix (loc : Loc) : List Char :=
  "line ".toList ++ Nat.toDigits 10 loc.line ++ " column ".toList ++ Nat.toDigits 10 loc.column

/-- `sanitize_terminal_message`: the sanitiser of the snippet source, applied to message text
(borrowed unchanged when already clean) -/
def sanitizeMessage (msg : List Char) : Res (List Char) :=
  if isClean msg then .ok msg else sanitize msg

/-- `Snippet::fmt_or_fallback` up to the call of the external renderer; `msg` is the formatted message:
it is sanitised first, and so is the whole title. A location on the empty line after the input's
final line break gets that line terminated in the source handed over, so that the renderer shows it. -/
def snippetRequest (text : List Char) (loc : Loc) (m : Mapping) (cropRadius : Nat) (msg : List Char) :
    Res (Option RenderRequest) := do
  let msg ← sanitizeMessage msg
  let some p ← prepare text loc m cropRadius | pure none
  let source :=
    if p.row = p.totalLines ∧ p.localStart = blen p.windowText ∧ p.windowText.getLast? = some '\n'
    then p.windowText ++ ['\n'] else p.windowText
  let title ← sanitizeMessage (locPrefix loc ++ ": ".toList ++ msg)
  pure (some ⟨title, source, p.displayStartRow, p.localStart, p.localEnd, msg⟩)

/-! ## `fmt_snippet_window_with_mapping_or_fallback` (the crate's own window renderer) -/

/-- `n.to_string()` -/
def natStr (n : Nat) : List Char := Nat.toDigits 10 n

/-- `format!("{s:>width$}")` -/
def padLeft (s : List Char) (width : Nat) : List Char := List.replicate (width - s.length) ' ' ++ s

/-- the caret line written under the error row -/
def caretLine (wt : List Char) (localStart : Nat) (msg : List Char) : Res (List Char) := do
  let pre ← slice wt 0 localStart "fmt_window:window_text[..local_start]"
  let lineByteStart := match rfindNl pre with
    | some i => i + 1
    | none => 0
  let seg ← slice wt lineByteStart localStart "fmt_window:window_text[line_byte_start..local_start]"
  let caretChars := seg.length
  pure ("  | ".toList ++ List.replicate caretChars ' ' ++ ['^'] ++
    (if msg.isEmpty then [] else ' ' :: msg) ++ ['\n'])

/-- the `for line in window_text.split_inclusive('\n')` loop; returns `(output, cur_row)` -/
def fmtLines (wt : List Char) (localStart : Nat) (msg : List Char) (row wsr wer wsar gutter : Nat) :
    List (List Char) → Nat → List Char → Res (List Char × Nat)
  | [], cur, out => .ok (out, cur)
  | piece :: rest, cur, out => do
    let line := stripCR (stripNL piece)
    let displayRow := satAdd wsar cur - wsr
    let out1 := out ++ padLeft (natStr displayRow) gutter ++ " | ".toList ++ line ++ ['\n']
    let out2 ← if cur = row then (do let c ← caretLine wt localStart msg; pure (out1 ++ c)) else pure out1
    let cur' := cur + 1
    if cur' > wer then pure (out2, cur') else fmtLines wt localStart msg row wsr wer wsar gutter rest cur' out2

/-- `fmt_snippet_window_with_mapping_or_fallback`: the text written to the formatter -/
def fmtWindow (text : List Char) (loc : Loc) (m : Mapping) (msg : List Char) (cropRadius : Nat) : Res (List Char) := do
  let msg ← sanitizeMessage msg
  let some p ← prepare text loc m cropRadius | pure []
  let maxDisplayRow := absoluteRow m p.windowEndRow
  let gutter := (natStr maxDisplayRow).length
  let (out, cur) ← fmtLines p.windowText p.localStart msg p.row p.windowStartRow p.windowEndRow
    p.displayStartRow gutter (splitInclusive p.windowText) p.windowStartRow "  |\n".toList
  let out ←
    if p.windowEndRow = p.totalLines ∧ p.windowText.getLast? = some '\n' ∧ cur ≤ p.windowEndRow then do
      let displayRow := satAdd p.displayStartRow cur - p.windowStartRow
      let out1 := out ++ padLeft (natStr displayRow) gutter ++ " |\n".toList
      if cur = p.row then (do let c ← caretLine p.windowText p.localStart msg; pure (out1 ++ c)) else pure out1
    else pure out
  pure (out ++ "  |\n".toList)

/-! ## regions stored by `with_snippet` / `with_snippet_offset` (de_error.rs) -/

/-- `line_count_including_trailing_empty_line` -/
def lineCount (text0 : List Char) : Nat :=
  let text := normBreaks text0
  let nl := text.count '\n'
  let terminatorCount := if text.isEmpty then 0 else if text.getLast? = some '\n' then nl else nl + 1
  max terminatorCount 1 + (if text.getLast? = some '\n' then 1 else 0)

structure Region where
  text : List Char
  startLine : Nat
  endLine : Nat
deriving Repr

/-- `cropped_region_end_line`: the window keeps `ctxLines` lines after the error line, clipped to the
last line of the text (the empty line after a final line break counts as a line of the text) -/
def regionEndLine (text : List Char) (m : Mapping) (loc : Loc) : Nat :=
  let firstTextLine := match m with
    | none => 1
    | some s => s
  let lastTextLine := satAdd firstTextLine (lineCount text - 1)
  min (satAdd loc.line ctxLines) lastTextLine

/-- `push_region_for_location` -/
def regionFor (text : List Char) (loc : Loc) (m : Mapping) (cropRadius : Nat) : Res (Option Region) :=
  if cropRadius = 0 ∨ loc.isUnknown then .ok none
  else do
    let (cropped, startLine) ← cropSourceWindow text loc m cropRadius
    if cropped.isEmpty then pure none
    else pure (some ⟨cropped, startLine, regionEndLine text m loc⟩)

/-- regions of `Error::Message{location}.with_snippet(text, r)` (`m = none`) /
`.with_snippet_offset(text, n, r)` (`m = some n`): one location, BOM stripped first -/
def withSnippetRegions (text : List Char) (loc : Loc) (m : Mapping) (cropRadius : Nat) : Res (List Region) := do
  if loc.isUnknown then pure []   -- `inner.locations()` / `inner.location()` are `None`
  else
    let r ← regionFor (stripBom text) loc m cropRadius
    pure r.toList

/-- `CroppedRegion::covers` -/
def Region.covers (r : Region) (loc : Loc) : Bool :=
  !loc.isUnknown && decide (r.startLine ≤ loc.line) && decide (loc.line ≤ r.endLine)

/-- `pick_cropped_region` -/
def pickRegion (rs : List Region) (loc : Loc) : Option Region :=
  match rs.find? (·.covers loc) with
  | some r => some r
  | none => rs.head?

/-- the single-location arm of `fmt_error_rendered` for a `WithSnippet` error: which window is
handed to the snippet renderer (`none` = plain message, no snippet) -/
def renderPrepare (rs : List Region) (loc : Loc) (cropRadius : Nat) : Res (Option Prepared) :=
  if cropRadius = 0 ∨ rs.isEmpty ∨ loc.isUnknown then .ok none
  else
    match pickRegion rs loc with
    | none => .ok none
    | some r => prepare r.text loc (some r.startLine) cropRadius

/-! ## ring reader: recent-bytes window and its trimming (bytes) -/

/-- `is_utf8_continuation` -/
def isCont (b : Nat) : Bool := b / 64 == 2

/-- `utf8_expected_len` -/
def expectedLen (lead : Nat) : Option Nat :=
  if lead ≤ 0x7F then some 1
  else if 0xC2 ≤ lead ∧ lead ≤ 0xDF then some 2
  else if 0xE0 ≤ lead ∧ lead ≤ 0xEF then some 3
  else if 0xF0 ≤ lead ∧ lead ≤ 0xF4 then some 4
  else none

/-- the `while i > 0 && cont < 3` scan of `trim_incomplete_utf8_tail`; returns `(i, cont)` -/
def trailScan (bs : List Nat) : Nat → Nat → Nat → Res (Nat × Nat)
  | 0, i, cont => .ok (i, cont)
  | f + 1, i, cont =>
    if i > 0 ∧ cont < 3 then
      match bs[i - 1]? with
      | none => .panic "trim_tail:bytes[i-1]"
      | some b => if isCont b then trailScan bs f (i - 1) (cont + 1) else .ok (i, cont)
    else .ok (i, cont)

/-- `trim_incomplete_utf8_tail` -/
def trimTail : Nat → List Nat → Res (List Nat)
  | 0, bs => if bs.isEmpty then .ok bs else .panic "fuel:trim_incomplete_utf8_tail"
  | fuel + 1, bs =>
    if bs.isEmpty then .ok bs
    else do
      let (i, _) ← trailScan bs 3 bs.length 0
      if i = 0 then pure []
      else
        let leadIdx := i - 1
        match bs[leadIdx]? with
        | none => .panic "trim_tail:bytes[lead_idx]"
        | some lead =>
          match expectedLen lead with
          | none => pure bs
          | some expected =>
            let actual := bs.length - leadIdx
            if actual < expected then trimTail fuel (bs.take leadIdx) else pure bs

/-- `trim_to_utf8_boundaries_with_line` → `(start_offset, start_line, bytes)` -/
def ringTrim (bytes : List Nat) (startOffset startLine : Nat) : Res (Nat × Nat × List Nat) :=
  if bytes.isEmpty then .ok (startOffset, startLine, bytes)
  else
    let lead := bytes.takeWhile isCont
    let cut := lead.length
    let startLine' := satAdd startLine (lead.count 0x0A)   -- never happens: `\n` is not a continuation byte
    let rest := bytes.drop cut
    do
      let t ← trimTail (rest.length + 1) rest
      pure (startOffset + cut, startLine', t)

structure Ring where
  buf : List Nat
  startOffset : Nat
  startLine : Nat
  /-- `ring_starts_line`: nothing evicted yet, or the last evicted byte ended a line -/
  startsLine : Bool := true
deriving Repr

def ringCap : Nat := Gen.ringBufferSize
def maxReadAhead : Nat := Gen.maxReadAhead

/-- one iteration of `push_ring_bytes` (byte `b` at absolute offset `off`) with capacity `cap` -/
def ringPush1 (cap : Nat) (r : Ring) (off b : Nat) : Ring :=
  let r1 : Ring := if r.buf.isEmpty then { r with startOffset := off } else r
  let r2 : Ring :=
    if r1.buf.length = cap then
      match r1.buf with
      | e :: tl =>
        -- `self.ring.front().unwrap_or(b)`: the byte after the evicted one
        let next := tl.head?.getD b
        -- LF, or a lone CR; the CR of a CRLF pair does not end the line
        let endedLine := decide (e = 0x0A ∨ (e = 0x0D ∧ next ≠ 0x0A))
        { buf := tl, startOffset := r1.startOffset + 1,
          startLine := if endedLine then satAdd r1.startLine 1 else r1.startLine,
          startsLine := endedLine }
      | [] => { r1 with startOffset := r1.startOffset + 1 }
    else r1
  { r2 with buf := r2.buf ++ [b] }

def ringPush (cap : Nat) (r : Ring) (off : Nat) : List Nat → Ring
  | [] => r
  | b :: bs => ringPush cap (ringPush1 cap r off b) (off + 1) bs

/-- `get_recent()` after the consumer has read `consumed` bytes of `data` from a fresh reader:
everything returned plus up to `MAX_READ_AHEAD` read-ahead bytes went through `push_ring_bytes`.
Returns `(start_offset, end_offset, start_line, bytes)`. -/
def ringRun (cap ahead : Nat) (data : List Nat) (consumed : Nat) : Res (Nat × Nat × Nat × List Nat) :=
  let returned := min consumed data.length
  let seen := data.take (returned + ahead)
  let r := ringPush cap ⟨[], 0, 1, true⟩ 0 seen
  if r.buf.isEmpty then .ok (returned, returned, r.startLine, [])
  else do
    let (so, sl, bs) ← ringTrim r.buf r.startOffset r.startLine
    pure (so, so + bs.length, sl, bs)

/-- `RecentSnapshot::line_aligned_text` on a snapshot with text `text` (`String::from_utf8_lossy` of
its bytes): when the snapshot does not start at the beginning of a line, the partial first line — up
to and including the first line break (LF, CRLF or a lone CR) — is left out and the line number advances -/
def lineAligned (startsAtLineStart : Bool) (text : List Char) (startLine : Nat) : List Char × Nat :=
  if startsAtLineStart then (text, startLine)
  else
    -- `text.find(['\n', '\r'])`, then past the break (two characters for CRLF)
    let rest := match text.dropWhile (fun c => c ≠ '\n' ∧ c ≠ '\r') with
      | '\r' :: '\n' :: t => t
      | _ :: t => t
      | [] => []
    (rest, satAdd startLine 1)

/-- `get_recent()` followed by `line_aligned_text()` (what `from_reader` attaches as snippet text):
`(starts_at_line_start, text, start_line)`. `from_utf8_lossy` is only modelled on valid UTF-8. -/
def ringRunAligned (cap ahead : Nat) (data : List Nat) (consumed : Nat) : Res (Bool × List Char × Nat) :=
  let returned := min consumed data.length
  let seen := data.take (returned + ahead)
  let r := ringPush cap ⟨[], 0, 1, true⟩ 0 seen
  if r.buf.isEmpty then
    let (t, l) := lineAligned r.startsLine [] r.startLine
    .ok (r.startsLine, t, l)
  else do
    let (so, sl, bs) ← ringTrim r.buf r.startOffset r.startLine
    let starts := r.startsLine && decide (so = r.startOffset)
    match decode bs with
    | none => .panic "unmodelled:from_utf8_lossy"
    | some text =>
      let (t, l) := lineAligned starts text sl
      pure (starts, t, l)

end SaphyrVerif.Snippet
