import SaphyrVerif.Model.Pump
import SaphyrVerif.Model.Reader
/-!
Model of the deferred I/O error protocol (C10).

* The reader glue (`ChunkedChars`) stores an I/O error in a shared cell and reports end of input to the
  parser; `LiveEvents::io_error()` **takes** the error out of the cell; it is called at the top of
  `Events::next`, `Events::peek` and `finish` (src/live_events.rs).
* The single-document reader entry points (`from_reader_with_options`, `*_valid`, `*_validate`,
  `with_deserializer_from_reader_with_options`; src/lib.rs, src/de/with_deserializer.rs): value, then
  `peek` (an `Err` is ignored when `seen_doc_end`), then `finish`.
* `ReadIter::next` (three identical copies in src/lib.rs).
* The `io::Write` adapter of `to_io_writer_with_options`.

The event source is the pump model (Model/Pump.lean) over the parser items of the text the scanner
saw.  The fault is a side effect of pulling the parser (the scanner pulls characters, the character
iterator hits the fault, sets the cell and reports end of input): `fires` lists the fault points as
`(n, kind)` — the cell is set (replaced) during the pull that delivers the `n`-th parser item.  Nothing
inside `next_impl` reads the cell, so firing after the pump operation that made the pull is exact.
-/
namespace SaphyrVerif.IoCell
open SaphyrVerif SaphyrVerif.Scalars SaphyrVerif.Pump SaphyrVerif.Reader

inductive Err where
  /-- `Error::IOError` made from the taken cell -/
  | io (k : IoKind)
  /-- an error of the pump (scan error, budget, alias limits, …) -/
  | pump (e : PErr)
  /-- the consumer met the end of the events (`Error::eof()` of de.rs) -/
  | eof
  /-- the value error replaced by `Error::eof()` because the synthetic null was emitted -/
  | eofSynth
  /-- `Error::multiple_documents` of the single-document check -/
  | multiDoc
  /-- `Error::UnexpectedSequenceEnd` / `UnexpectedMappingEnd`: a container end where a document should start -/
  | unexpectedEnd
  /-- the consumer's own (type) error -/
  | client
  /-- model artefact: iteration bound reached (never on a real run) -/
  | fuel
deriving Repr, DecidableEq

/-- what `next` / `peek` return -/
inductive R where
  | event (e : Ev)
  | none
  | err (e : Err)
deriving Repr, DecidableEq

def R.isErr : R → Bool
  | .err _ => true
  | _ => false

/-- `LiveEvents` over a reader: pump state, remaining parser items, the shared cell, the pending fault
points; `everSet` is a ghost flag (the cell was set at some point). -/
structure Src where
  pump : Pump
  input : List RawItem
  /-- number of parser items of the whole run (`input.length` at the start) -/
  total : Nat
  fires : List (Nat × IoKind) := []
  cell : Option IoKind := none
  everSet : Bool := false
deriving Repr

/-- apply the fault points reached by the pulls made so far (`err.replace(Some(e))`) -/
def Src.fire (s : Src) : Src :=
  let delivered := s.total - s.input.length
  match (s.fires.filter (fun f => f.1 ≤ delivered)).getLast? with
  | none => s
  | some f =>
    { s with cell := some f.2, fires := s.fires.filter (fun f => !(f.1 ≤ delivered)), everSet := true }

def ofStep : Step → R
  | .event e => .event e
  | .eof => .none
  | .error e => .err (.pump e)

/-- `Events::next`: `self.io_error()?` first -/
def Src.next (s : Src) : R × Src :=
  match s.cell with
  | some k => (.err (.io k), { s with cell := none })
  | none =>
    let (step, p, rest) := Pump.next s.pump s.input
    (ofStep step, ({ s with pump := p, input := rest }).fire)

/-- `Events::peek`: `self.io_error()?` first -/
def Src.peek (s : Src) : R × Src :=
  match s.cell with
  | some k => (.err (.io k), { s with cell := none })
  | none =>
    let (step, p, rest) := Pump.peek s.pump s.input
    (ofStep step, ({ s with pump := p, input := rest }).fire)

/-- `finish`: `self.io_error()?`, then the budget is taken and finalised -/
def Src.finish (s : Src) : Option Err × Src :=
  match s.cell with
  | some k => (some (.io k), { s with cell := none })
  | none => ((Pump.finish s.pump).1.map .pump, { s with pump := { s.pump with budget := none } })

/-- `skip_to_next_document` (pulls the parser; never looks at the cell) -/
def Src.skipToNextDocument (s : Src) : Bool × Src :=
  let (found, p, rest) := Pump.skipToNextDocument s.pump s.input
  (found, ({ s with pump := p, input := rest }).fire)

/-! ## the consumer (typed deserializer) -/

inductive COp where
  | next
  | peek
deriving Repr, DecidableEq

inductive Decision where
  | op (o : COp)
  /-- the value is complete -/
  | done
  /-- the consumer's own error (type mismatch, …) -/
  | fail
deriving Repr, DecidableEq

/-- A consumer is any strategy that decides from the events it has been given so far (latest first).
Contract of the real consumer (de.rs + Serde visitors; trusted, exercised at run time): an `Err` from an
event call is propagated, and running out of events where one is needed is `Error::eof()`. -/
abbrev Client := List Ev → Decision

def Src.doOp (s : Src) : COp → R × Src
  | .next => s.next
  | .peek => s.peek

/-- `T::deserialize(YamlDeserializer::new(&mut src, cfg))`: `none` = `Ok(value)` -/
def runClient (c : Client) : Nat → List Ev → Src → Option Err × Src
  | 0, _, s => (some .fuel, s)
  | fuel + 1, hist, s =>
    match c hist with
    | .done => (none, s)
    | .fail => (some .client, s)
    | .op o =>
      match s.doOp o with
      | (.event e, s') => runClient c fuel (e :: hist) s'
      | (.none, s') => (some .eof, s')
      | (.err e, s') => (some e, s')

/-- nesting depth after the events seen so far (latest first); `none` = more ends than starts -/
def depthOf : List Ev → Option Nat
  | [] => some 0
  | e :: older =>
    match depthOf older, e with
    | some d, .scalar .. => some d
    | some d, .seqStart .. => some (d + 1)
    | some d, .mapStart .. => some (d + 1)
    | some (d + 1), .seqEnd _ => some d
    | some (d + 1), .mapEnd _ => some d
    | _, _ => none

/-- every second element of the history, starting with the latest: the results of the `next` calls of a
consumer that alternates `peek`, `next` -/
def takenOf : List Ev → List Ev
  | n :: _ :: rest => n :: takenOf rest
  | _ => []

/-- the consumer that takes exactly one node, looking at every event with `peek` before taking it with
`next` (what de.rs does for `deserialize_any` / `IgnoredAny`: every event is inspected before it is
consumed), and has no error of its own.  Used by the correspondence run and the (F) witnesses. -/
def consumeNode : Client := fun hist =>
  if hist.length % 2 == 1 then .op .next
  else
    match takenOf hist, depthOf (takenOf hist) with
    | [], _ => .op .peek
    | _, some 0 => .done
    | _, some _ => .op .peek
    | _, none => .fail

/-! ## single-document reader entry points -/

inductive Outcome where
  | ok
  | err (e : Err)
deriving Repr, DecidableEq

def finishTail (s : Src) : Outcome × Src :=
  match s.finish with
  | (some e, s') => (.err e, s')
  | (none, s') => (.ok, s')

/-- `Error::is_trailing_garbage` (fix ae01964): errors reported by the scanner/parser itself — the only ones
that may be ignored after a document end marker -/
def Err.isTrailingGarbage : Err → Bool
  | .pump (.scan _) => true
  | .pump (.unknownAnchor _) => true
  | _ => false

/-- `from_reader_with_options` / `with_deserializer_from_reader_with_options` (and the `_valid` /
`_validate` copies, which add a validation step after `finish`) -/
def fromReader (c : Client) (fuel : Nat) (s : Src) : Outcome × Src :=
  match runClient c fuel [] s with
  | (some e, s1) =>
    if s1.pump.synthesizedNull then (.err .eofSynth, s1) else (.err e, s1)
  | (none, s1) =>
    match s1.peek with
    | (.event _, s2) => (.err .multiDoc, s2)
    | (.none, s2) => finishTail s2
    | (.err e, s2) =>
      -- "trailing garbage after a document end marker is ignored" — scanner errors only
      if s2.pump.seenDocEnd && e.isTrailingGarbage then finishTail s2
      else (.err e, s2)

/-! ## the entry points as compositions over one pipeline

The scanner is external: `scan` maps the text it is given to its item list (contract: the same function
for `StrInput` and `BufferedInput`, exercised by the C09 oracle).  `mk` builds the pump configuration
from `Options`.  The string entry points (`from_str_with_options_impl`,
`with_deserializer_from_str_with_options`) run the same value / `peek` / `finish` protocol as the reader
ones; their error cell is never set. -/

/-- `std::str::from_utf8` on the whole slice (`from_slice_with_options`): `none` = `InvalidUtf8Input`.
Greedy validation with the same leading-byte / well-formedness tables as the reader glue. -/
def utf8ValidateF : Nat → List Nat → Option (List Char)
  | 0, _ => none
  | _ + 1, [] => some []
  | fuel + 1, b :: t =>
    match needed b with
    | none => none
    | some n =>
      if t.length < n - 1 then none
      else
        match decode1 (b :: t.take (n - 1)) with
        | none => none
        | some c => (utf8ValidateF fuel (t.drop (n - 1))).map (c :: ·)

def utf8Validate (bytes : List Nat) : Option (List Char) := utf8ValidateF (bytes.length + 1) bytes

structure Pipeline where
  scan : List Char → List RawItem
  mkSrc : List RawItem → Src
  client : Client
  fuel : Nat

inductive EntryRes where
  | res (o : Outcome)
  | invalidUtf8
deriving Repr, DecidableEq

/-- `from_str` / `from_str_with_options` -/
def Pipeline.fromStr (p : Pipeline) (text : List Char) : EntryRes :=
  .res (fromReader p.client p.fuel (p.mkSrc (p.scan (strPathText text)))).1

/-- `with_deserializer_from_str[_with_options]` -/
def Pipeline.closureFromStr (p : Pipeline) (text : List Char) : EntryRes :=
  .res (fromReader p.client p.fuel (p.mkSrc (p.scan (closureStrPathText text)))).1

/-- `from_slice[_with_options]`, `with_deserializer_from_slice[_with_options]` -/
def Pipeline.fromSlice (p : Pipeline) (bytes : List Nat) : EntryRes :=
  match utf8Validate bytes with
  | none => .invalidUtf8
  | some t => p.fromStr t

/-- `from_reader[_with_options]`, `with_deserializer_from_reader[_with_options]` over a fault-free reader
delivering well-formed UTF-8: `ChunkedChars` re-assembles the characters (and terminates an unterminated
final `%` line, fix bfd6267), the decoder in front of it has removed one BOM (`readerPathText`) -/
def Pipeline.fromReaderEntry (p : Pipeline) (sched : Sched) : EntryRes :=
  let r := collectAll { reader := sched }
  .res (fromReader p.client p.fuel (p.mkSrc (p.scan (readerPathText r.1)))).1

/-! ## borrowing (`deserialize_str`) -/

/-- what a visitor receives for a string scalar -/
inductive StrVisit where
  | borrowed (t : List Char)
  | owned (t : List Char)
deriving Repr, DecidableEq

/-- what the scalar's tag does to a string target (`deserialize_string`): the text is taken as it is, it is
replaced by another text (`!!binary`: the decoded bytes), or the tag refuses strings
(`TaggedScalarCannotDeserializeIntoString`, `NullIntoString`, …) -/
inductive TagEffect where
  | keep
  | transformed (t' : List Char)
  | refused
deriving Repr, DecidableEq

/-- `deserialize_string` for a scalar: `visit_borrowed_str` exactly when the tag keeps the text and the
parser's `Cow` is `Borrowed`, `visit_string` otherwise, or the tag's error (`none`) -/
def deserializeString (eff : TagEffect) (parserBorrowed : Bool) (t : List Char) : Option StrVisit :=
  match eff with
  | .refused => none
  | .transformed t' => some (.owned t')
  | .keep => some (if parserBorrowed then .borrowed t else .owned t)

/-- `deserialize_str` (fix 7f69297): the same null / tag / `!!binary` handling as `deserialize_string`; only
the visitor's refusal of an owned string is reworded (`cannot_borrow_transformed`) -/
def deserializeStr (eff : TagEffect) (parserBorrowed : Bool) (t : List Char) : Option StrVisit :=
  deserializeString eff parserBorrowed t

/-- Serde's visitor for `&'de str` accepts only `visit_borrowed_str` (the refusal becomes
`cannot_borrow_transformed`) -/
def visitStrRef : StrVisit → Option (List Char)
  | .borrowed t => some t
  | .owned _ => none

/-- Serde's visitor for `String` accepts both -/
def visitString : StrVisit → Option (List Char)
  | .borrowed t => some t
  | .owned t => some t

/-- the parser's `Cow` for reader input: `BufferedInput::slice_borrowed` always returns `None`
(external; contract exercised by the `C09-reader-lends` oracle) -/
def readerParserBorrowed : Bool := false

/-! ## `ReadIter::next` -/

inductive Item where
  | ok
  | err (e : Err)
deriving Repr, DecidableEq

def Item.isErr : Item → Bool
  | .err _ => true
  | .ok => false

structure Iter where
  src : Src
  finished : Bool := false
deriving Repr

def isNullishScalar : Ev → Bool
  | .scalar v _ _ st _ _ => scalarIsNullish v st
  | _ => false

def isContainerEnd : Ev → Bool
  | .seqEnd _ => true
  | .mapEnd _ => true
  | _ => false

/-- `ReadIter::next` (`fuel` bounds the `loop` and the consumer).  Since fix 80d7f83 an error met while
consuming a null-like document is returned and ends the iteration; since fix 2d066df a container end where
a document should start is an error item (followed by `skip_to_next_document`). -/
def iterNext (c : Client) : Nat → Iter → Option Item × Iter
  | 0, it => (some (.err .fuel), { it with finished := true })
  | fuel + 1, it =>
    if it.finished then (none, it)
    else
      match it.src.peek with
      | (.event ev, s) =>
        if isNullishScalar ev then
          match s.next with
          | (.err e, s') =>
            let (_, s'') := s'.finish                                 -- `let _ = self.src.finish();`
            (some (.err e), { it with src := s'', finished := true })
          | (_, s') => iterNext c fuel { it with src := s' }         -- `continue`
        else if isContainerEnd ev then
          let (found, s') := s.skipToNextDocument
          (some (.err .unexpectedEnd), { it with src := s', finished := !found })
        else
          match runClient c fuel [] s with
          | (none, s') => (some .ok, { it with src := s' })
          | (some e, s') =>
            let (found, s'') := s'.skipToNextDocument
            (some (.err e), { it with src := s'', finished := !found })
      | (.none, s) =>
        match s.finish with
        | (some e, s') => (some (.err e), { it with src := s', finished := true })
        | (none, s') => (none, { it with src := s', finished := true })
      | (.err e, s) =>
        let (_, s') := s.finish                                     -- `let _ = self.src.finish();`
        (some (.err e), { it with src := s', finished := true })

/-- drive the iterator until it returns `None` (at most `calls` calls); the `Bool` tells whether the
`None` was reached -/
def iterAll (c : Client) (fuel : Nat) : Nat → Iter → List Item × Bool × Iter
  | 0, it => ([], false, it)
  | calls + 1, it =>
    match iterNext c fuel it with
    | (none, it') => ([], true, it')
    | (some item, it') =>
      let r := iterAll c fuel calls it'
      (item :: r.1, r.2.1, r.2.2)

/-! ## writer adapter -/

inductive WItem where
  /-- the call accepts at most `n` bytes -/
  | accept (n : Nat)
  | fail (k : IoKind)
deriving Repr, DecidableEq

def kWriteZero : IoKind := 6

/-- the `io::Write` target: its schedule of `write` results (exhausted = accepts everything), the bytes
it accepted so far, and `Adapter.last_err` -/
structure W where
  sched : List WItem
  written : List Nat := []
  lastErr : Option IoKind := none
deriving Repr, DecidableEq

/-- `write_all`: `Ok(0)` ⇒ `WriteZero`, `Interrupted` is retried, any other error is returned.  Every
iteration consumes a schedule item or finishes, so `fuel = sched.length + 1` suffices. -/
def writeAll : Nat → List Nat → W → Option IoKind × W
  | 0, buf, w => (none, { w with written := w.written ++ buf })       -- schedule exhausted: accepts everything
  | fuel + 1, buf, w =>
    if buf.isEmpty then (none, w)
    else
      match w.sched with
      | [] => (none, { w with written := w.written ++ buf })
      | .fail k :: rest =>
        if k == kInterrupted then writeAll fuel buf { w with sched := rest }
        else (some k, { w with sched := rest })
      | .accept n :: rest =>
        if min n buf.length == 0 then (some kWriteZero, { w with sched := rest })
        else writeAll fuel (buf.drop n) { w with sched := rest, written := w.written ++ buf.take n }

/-- `Adapter::write_str`: `true` = `Err(fmt::Error)` -/
def writeStr (chunk : List Nat) (w : W) : Bool × W :=
  match writeAll (w.sched.length + 1) chunk w with
  | (none, w') => (false, w')
  | (some k, w') => (true, { w' with lastErr := some k })

inductive SerRes where
  | ok
  /-- `ser::Error::IO` -/
  | io (k : IoKind)
  /-- `ser::Error::Format` (a `fmt::Error` with no I/O error remembered) -/
  | format
  /-- the serializer's own error (message, invalid options, …) -/
  | own
deriving Repr, DecidableEq

/-- the serializer is a function to the list of `write_str` chunks (every write is `?`-chained, so the
first failing write ends it); `ownErr` = it ends with an error of its own after the last chunk -/
def emitChunks : List (List Nat) → W → Bool × W
  | [], w => (false, w)
  | c :: cs, w =>
    match writeStr c w with
    | (true, w') => (true, w')
    | (false, w') => emitChunks cs w'

/-- `to_io_writer_with_options` -/
def toIoWriter (chunks : List (List Nat)) (ownErr : Bool) (w : W) : SerRes × W :=
  match emitChunks chunks w with
  | (true, w') =>
    match w'.lastErr with
    | some k => (.io k, { w' with lastErr := none })
    | none => (.format, w')
  | (false, w') =>
    if ownErr then
      match w'.lastErr with
      | some k => (.io k, { w' with lastErr := none })
      | none => (.own, w')
    else (.ok, w')

end SaphyrVerif.IoCell
