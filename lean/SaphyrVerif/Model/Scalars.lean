import SaphyrVerif.Basic.Text
/-!
Model of `src/parse_scalars.rs` (integers, booleans, null-likes) — shaped like the Rust code:
checked accumulation in a 128-bit accumulator, then `TryFrom` narrowing.  All numbers are `Nat`/`Int`
with explicit range checks (nothing is silently totalised).
-/
namespace SaphyrVerif.Scalars
open SaphyrVerif

def U128_MAX : Nat := 2 ^ 128 - 1
def I128_MAX : Nat := 2 ^ 127 - 1

/-- Value of one digit character in `radix`, as the three `match` arms of `parse_digits_u128`
decide it: `none` = the function returns `None` at this character. -/
def digitOf (radix : Nat) (c : Char) : Option Nat :=
  let n := c.toNat
  if 48 ≤ n && n ≤ 57 then
    (if n - 48 ≥ radix then none else some (n - 48))
  else if radix > 10 && 97 ≤ n && n ≤ 102 then
    (if 10 + (n - 97) ≥ radix then none else some (10 + (n - 97)))
  else if radix > 10 && 65 ≤ n && n ≤ 70 then
    (if 10 + (n - 65) ≥ radix then none else some (10 + (n - 65)))
  else none

/-- `parse_digits_u128` / `parse_decimal_unsigned_u128` / the positive arm of
`parse_decimal_signed_i128`: accumulate with a checked bound `max`. -/
def accum (radix max : Nat) : List Char → Nat → Bool → Option Nat
  | [], val, saw => if saw then some val else none
  | c :: cs, val, saw =>
    if c == '_' then accum radix max cs val saw
    else match digitOf radix c with
      | none => none
      | some d =>
        let v := val * radix + d
        if v > max then none else accum radix max cs v true

def parseDigitsU128 (digits : List Char) (radix : Nat) : Option Nat := accum radix U128_MAX digits 0 false
def parseDecimalUnsignedU128 (digits : List Char) : Option Nat := accum 10 U128_MAX digits 0 false

/-- `parse_decimal_signed_i128`: the negative arm accumulates downwards to `i128::MIN`,
i.e. the magnitude may reach `2^127`. -/
def parseDecimalSignedI128 (digits : List Char) (neg : Bool) : Option Int :=
  if neg then (accum 10 (I128_MAX + 1) digits 0 false).map (fun m => - (Int.ofNat m))
  else (accum 10 I128_MAX digits 0 false).map Int.ofNat

/-- `radix_and_digits`. -/
def radixAndDigits (legacyOctal : Bool) (rest : List Char) : Nat × List Char :=
  match rest with
  | '0' :: 'x' :: r => (16, r)
  | '0' :: 'X' :: r => (16, r)
  | '0' :: 'o' :: r => (8, r)
  | '0' :: 'O' :: r => (8, r)
  | '0' :: 'b' :: r => (2, r)
  | '0' :: 'B' :: r => (2, r)
  | '0' :: '0' :: r =>
    if legacyOctal then (if r.isEmpty then (8, ['0']) else (8, r)) else (10, rest)
  | _ => (10, rest)

def fitsSigned (w : Nat) (v : Int) : Bool := - (2 : Int) ^ (w - 1) ≤ v && v < (2 : Int) ^ (w - 1)
def fitsUnsigned (w : Nat) (v : Nat) : Bool := v < 2 ^ w

/-- `parse_int_signed::<iW>` (W ∈ {8,16,32,64,128}); `none` = `Error::InvalidScalar`. -/
def parseIntSigned (w : Nat) (legacyOctal : Bool) (s : List Char) : Option Int :=
  let t := trim s
  let (neg, rest) := match t with
    | '+' :: r => (false, r)
    | '-' :: r => (true, r)
    | _ => (false, t)
  let (radix, digits) := radixAndDigits legacyOctal rest
  if radix == 10 then
    match parseDecimalSignedI128 digits neg with
    | none => none
    | some v => if fitsSigned w v then some v else none
  else
    match parseDigitsU128 digits radix with
    | none => none
    | some mag =>
      -- `0i128.checked_sub_unsigned(mag)` / `mag.try_into::<i128>()`
      let v128 : Option Int :=
        if neg then (if mag ≤ I128_MAX + 1 then some (- (Int.ofNat mag)) else none)
        else (if mag ≤ I128_MAX then some (Int.ofNat mag) else none)
      match v128 with
      | none => none
      | some v => if fitsSigned w v then some v else none

/-- `parse_int_unsigned::<uW>`. -/
def parseIntUnsigned (w : Nat) (legacyOctal : Bool) (s : List Char) : Option Nat :=
  let t := trim s
  match t with
  | '-' :: _ => none
  | _ =>
    let rest := match t with
      | '+' :: r => r
      | _ => t
    let (radix, digits) := radixAndDigits legacyOctal rest
    let mag := if radix == 10 then parseDecimalUnsignedU128 digits else parseDigitsU128 digits radix
    match mag with
    | none => none
    | some m => if fitsUnsigned w m then some m else none

/-- `parse_yaml11_bool`. -/
def parseYaml11Bool (s : List Char) : Option Bool :=
  let t := trim s
  if eqIgnoreAsciiCase t "true".toList || eqIgnoreAsciiCase t "yes".toList ||
     eqIgnoreAsciiCase t "y".toList || eqIgnoreAsciiCase t "on".toList then some true
  else if eqIgnoreAsciiCase t "false".toList || eqIgnoreAsciiCase t "no".toList ||
     eqIgnoreAsciiCase t "n".toList || eqIgnoreAsciiCase t "off".toList then some false
  else none

/-- strict_booleans branch of `deserialize_bool`. -/
def parseStrictBool (s : List Char) : Option Bool :=
  let t := trim s
  if eqIgnoreAsciiCase t "true".toList then some true
  else if eqIgnoreAsciiCase t "false".toList then some false
  else none

/-- Scalar styles, in the order of the protocol codes 0..4. -/
inductive Style where
  | plain | single | double | literal | folded
deriving DecidableEq, Repr, Inhabited

def Style.ofCode : Nat → Style
  | 0 => .plain | 1 => .single | 2 => .double | 3 => .literal | _ => .folded

/-- `scalar_is_nullish`. -/
def scalarIsNullish (v : List Char) (st : Style) : Bool :=
  st == .plain && (v.isEmpty || v == ['~'] || eqIgnoreAsciiCase v "null".toList)

/-- `scalar_is_nullish_for_option`. -/
def scalarIsNullishForOption (v : List Char) (st : Style) : Bool :=
  (v.isEmpty && !(st == .single || st == .double)) ||
  (st == .plain && (v == ['~'] || eqIgnoreAsciiCase v "null".toList))

/-- `leading_zero_decimal`. -/
def leadingZeroDecimal (t : List Char) : Bool :=
  let s := trim t
  let digits := match s with
    | '+' :: r => r
    | '-' :: r => r
    | _ => s
  match digits with
  | '0' :: next :: _ => !(next == 'x' || next == 'X' || next == 'o' || next == 'O' || next == 'b' || next == 'B')
  | _ => false

end SaphyrVerif.Scalars
