/-!
# Model for C14 — shared-pointer topology through anchors and aliases

Import-free (core Lean only).

* **Object graph** (`Val`, `Heap`): what the Rust `Serialize` impls of `src/anchors.rs`/`src/ser.rs` walk.
  Strong wrappers (`RcAnchor`, `ArcAnchor`, `RcRecursive`, `ArcRecursive`) and weak wrappers
  (`RcWeakAnchor`, `ArcWeakAnchor`, `RcRecursion`, `ArcRecursion`) are edges labelled with a pointer identity
  (`Rc::as_ptr as usize`); the payload of a live allocation is found in the heap; a weak edge whose
  pointer has no heap cell is dangling (`upgrade() == None`).
* **Serializer side** (`serVal`): `YamlSerializer::alloc_anchor_for` (pointer table, `next_anchor_id`),
  the `pending_anchor_id` register and the `TupleSer` arms `AnchorStrong` / `AnchorWeak` of `src/ser.rs`.
  The register is taken by every node that is written: scalars (`write_scalar_prefix_if_anchor`, also
  `null` from `serialize_none`/`serialize_unit` and from a dangling weak), `serialize_seq`/`serialize_map`
  (`write_anchor_for_complex_node`) and enum variants with data (`write_anchor_before_variant_key`).
  The block-scalar path of `serialize_str` cannot write it (a block scalar header carries no node
  properties): it drops the register and forgets the pointer(s) registered under that id, so a
  block-scalar payload is written in full at every occurrence (`forgetPending`, `LeafKind.takesAnchor`).
  A wrapper directly inside a wrapper is the same YAML node as the outer
  one: while the outer anchor is pending the inner pointer is registered under that same id; if the
  inner pointer is already anchored the node cannot be written (`SerErr.aliasNeedsAnchor`).
* **Deserializer side** (`de`, `deE`): the thread-local `AnchorState` of `src/anchor_store.rs` (context
  stack, the four stores merged into one map keyed by kind, in-progress counts = multiplicity on the
  stack), the `__yaml_*` arms of `deserialize_newtype_struct` in `src/de.rs` (`peek_anchor_id`,
  `with_anchor_context(own_context_id(..))`: every wrapper enters a context of its own, `NOT_ANCHORED`
  when its node has no anchor), the `Deserialize` impls of `src/anchors.rs`, and the part of the event pump
  that matters here (`src/live_events.rs`: anchored nodes are recorded under their numeric id, an alias
  replays the recorded node *with the ids of the definition*, an alias to a node still being recorded
  yields the null placeholder iff `recursive_anchor_in_progress(id)`).

Allocation identity of the rebuilt graph is a counter (`nextPtr`): each `Rc::new`/`Arc::new` returns a
fresh number.  Not modelled: alias limits and budgets of the pump (C02/C07/C08), scalar typing (C05/C06),
YAML layout (C13) — the document is a tree of nodes with anchor ids, as delivered by the parser.
-/
namespace SaphyrVerif.Anchors

/-- `anchor_store::AnchorKind` -/
inductive Kind where
  | rc | arc | rcRec | arcRec
deriving DecidableEq, Repr, Inhabited

def Kind.isRec : Kind → Bool
  | .rcRec | .arcRec => true
  | .rc | .arc => false

def Kind.code : Kind → Nat
  | .rc => 0 | .arc => 1 | .rcRec => 2 | .arcRec => 3

def Kind.ofCode : Nat → Kind
  | 0 => .rc | 1 => .arc | 2 => .rcRec | _ => .arcRec

abbrev Ptr := Nat

/-- scalars as the serializer writes them -/
inductive LeafKind where
  /-- integer / bool / float / plain or quoted one-line string: written after `write_scalar_prefix_if_anchor` -/
  | int (n : Nat)
  | word
  /-- `serialize_none` / `serialize_unit` / dangling weak: `null` -/
  | null
  /-- literal / folded block scalar path of `serialize_str`: cannot carry an anchor (`forgetPending`) -/
  | block
deriving DecidableEq, Repr, Inhabited

def LeafKind.takesAnchor : LeafKind → Bool
  | .int _ | .word | .null => true
  | .block => false

/-- a Rust value as seen by `Serialize`.  `node isMap items`: sequence / tuple / map / struct / enum
variant with data (a one-entry map). -/
inductive Val where
  | leaf (k : LeafKind)
  | node (isMap : Bool) (items : List Val)
  | strong (k : Kind) (tid : Nat) (p : Ptr)
  | weak (k : Kind) (tid : Nat) (p : Ptr)
deriving Repr, Inhabited

/-- live allocations: pointer ↦ payload -/
abbrev Heap := List (Ptr × Val)

/-- the emitted document: nodes with anchor marks (0 = none) and alias leaves -/
inductive Out where
  | leaf (anchor : Nat) (k : LeafKind)
  | node (anchor : Nat) (isMap : Bool) (items : List Out)
  | alias (id : Nat)
deriving Repr, Inhabited

/-- an unanchored or anchored plain `null` scalar -/
def Out.isNull : Out → Bool
  | .leaf _ .null => true
  | _ => false

def Out.rootAnchor : Out → Nat
  | .leaf a _ => a
  | .node a _ _ => a
  | .alias _ => 0

/-- state-threading traversal of a list (the `for` loops over fields / elements) -/
def traverse {σ α β ε : Type} (f : σ → α → Except ε (β × σ)) : σ → List α → Except ε (List β × σ)
  | s, [] => .ok ([], s)
  | s, x :: xs =>
    match f s x with
    | .error e => .error e
    | .ok (y, s1) =>
      match traverse f s1 xs with
      | .error e => .error e
      | .ok (ys, s2) => .ok (y :: ys, s2)

/-! ## Serializer side -/

structure SerSt where
  /-- `anchors`: pointer identity ↦ anchor id -/
  anchors : List (Ptr × Nat) := []
  /-- `next_anchor_id` (1-based; `u32::saturating_add` in the code — the model is exact below 2^32-1
  distinct pointers) -/
  next : Nat := 1
  /-- `pending_anchor_id` -/
  pending : Option Nat := none
  /-- `ArcRecursive` cells whose `Mutex` is currently locked by an enclosing `Serialize` call
  (`ArcRecursive::serialize` and `ArcRecursivePayload::serialize` hold the guard while the payload is
  written; `std::sync::Mutex` is not re-entrant) -/
  held : List Ptr := []
deriving Repr

inductive SerErr where
  | fuel
  /-- a strong edge whose pointer has no heap cell: not a Rust value -/
  | deadStrong
  /-- `self.0.lock()` on a mutex already held by this thread: the call never returns -/
  | deadlock
  /-- a wrapper directly inside a wrapper whose pointer is already anchored: the node would have to be
  an alias and define an anchor at once (`Error::custom` in `alloc_anchor_for`) -/
  | aliasNeedsAnchor
deriving DecidableEq, Repr

/-- `alloc_anchor_for`: `(id, is_new, state)`.  While an anchor is pending (we are directly inside
another wrapper, whose node has not been written yet) the pointer is registered under that id. -/
def allocAnchorFor (s : SerSt) (p : Ptr) : Except SerErr (Nat × Bool × SerSt) :=
  match s.pending with
  | some outer =>
    match s.anchors.lookup p with
    | some _ => .error .aliasNeedsAnchor
    | none => .ok (outer, true, { s with anchors := (p, outer) :: s.anchors })
  | none =>
    match s.anchors.lookup p with
    | some id => .ok (id, false, s)
    | none => .ok (s.next, true, { s with anchors := (p, s.next) :: s.anchors, next := s.next + 1 })

/-- `write_anchor_name` with a custom generator: `let idx = id as usize - 1; names.get(idx)`.
`none` = the subtraction underflows (a panic in debug builds); `some (idx, inRange)`. -/
def anchorNameIndex (s : SerSt) (id : Nat) : Option (Nat × Bool) :=
  if id = 0 then none else some (id - 1, decide (id - 1 < s.next - 1))

/-- the block-scalar path of `serialize_str`: the header cannot carry an anchor, so a pending anchor is
dropped and every pointer registered under it is forgotten
(`if let Some(id) = pending_anchor_id.take() { anchors.retain(|_, known| *known != id) }`): this and
every later occurrence of such a pointer is written in full. -/
def forgetPending (s : SerSt) : SerSt :=
  match s.pending with
  | none => s
  | some id => { s with pending := none, anchors := s.anchors.filter (fun e => e.2 != id) }

def lockCell (k : Kind) (p : Ptr) (held : List Ptr) : List Ptr := if k == .arcRec then p :: held else held

/-- the two `TupleSer` anchor arms after the pointer of a live allocation has been captured
(`rec` = serialization of the payload): field "ptr" decides alias or definition (`alloc_anchor_for`);
an alias is written at once; for a definition the anchor becomes pending and the value field is
serialized — `ArcRecursiveValue` / `ArcRecursivePayload` lock the cell's mutex only there, for the time
the payload is written. -/
def serPtr (rec : SerSt → Val → Except SerErr (Out × SerSt)) (s : SerSt) (k : Kind) (p : Ptr)
    (payload : Val) : Except SerErr (Out × SerSt) :=
  match allocAnchorFor s p with
  | .error e => .error e
  | .ok (id, false, s1) => .ok (.alias id, s1)
  | .ok (id, true, s1) =>
    if k == .arcRec && s.held.contains p then .error .deadlock
    else
    match rec { s1 with pending := some id, held := lockCell k p s1.held } payload with
    | .error e => .error e
    | .ok (o, s2) => .ok (o, { s2 with held := s.held })

/-- `Serialize` of a value into the `YamlSerializer`: the anchor-relevant part.
`fuel` bounds the nesting depth of the walk (heap cells are entered at most once each). -/
def serVal : Nat → Heap → SerSt → Val → Except SerErr (Out × SerSt)
  | 0, _, _, _ => .error .fuel
  | _ + 1, _, s, .leaf k =>
    if k.takesAnchor then .ok (.leaf (s.pending.getD 0) k, { s with pending := none })
    else .ok (.leaf 0 k, forgetPending s)
  | fuel + 1, H, s, .node isMap items =>
    match traverse (fun st x => serVal fuel H st x) { s with pending := none } items with
    | .error e => .error e
    | .ok (outs, s2) => .ok (.node (s.pending.getD 0) isMap outs, s2)
  | fuel + 1, H, s, .strong k _ p =>
    -- TupleKind::AnchorStrong: field 0 = ptr, field 1 = value
    match H.lookup p with
    | none => .error .deadStrong
    | some payload => serPtr (fun st x => serVal fuel H st x) s k p payload
  | fuel + 1, H, s, .weak k _ p =>
    -- TupleKind::AnchorWeak: field 0 = ptr, field 1 = present, field 2 = value
    match H.lookup p with
    | none => .ok (.leaf (s.pending.getD 0) .null, { s with pending := none })
    | some payload => serPtr (fun st x => serVal fuel H st x) s k p payload

def serialize (fuel : Nat) (H : Heap) (v : Val) : Except SerErr (Out × SerSt) := serVal fuel H {} v

/-- canonical token stream of a document (what the harness lexes from the YAML text) -/
inductive Tok where
  | anchor (id : Nat) | alias (id : Nat) | int (n : Nat) | word | null | block
  | key | dash | emptySeq | emptyMap
deriving DecidableEq, Repr

def LeafKind.tok : LeafKind → Tok
  | .int n => .int n | .word => .word | .null => .null | .block => .block

def anchorToks (a : Nat) : List Tok := if a = 0 then [] else [.anchor a]

mutual
def render : Out → List Tok
  | .leaf a k => anchorToks a ++ [k.tok]
  | .alias id => [.alias id]
  | .node a isMap [] => anchorToks a ++ [if isMap then .emptyMap else .emptySeq]
  | .node a isMap (x :: xs) => anchorToks a ++ renderItems isMap (x :: xs)
def renderItems (isMap : Bool) : List Out → List Tok
  | [] => []
  | x :: xs => (if isMap then Tok.key else Tok.dash) :: (render x ++ renderItems isMap xs)
end

/-! ## Deserializer side -/

/-- static type of a position, unfolded along the value: where the wrappers are -/
inductive Ty where
  /-- a plain scalar; `probe = true`: the harness' probe type (an `i64` that snapshots the anchor store);
  `probe = false`: a scalar position that receives its own scalar back (no scalar typing, see C05/C06) -/
  | leaf (probe : Bool)
  | node (items : List Ty)
  | strong (k : Kind) (tid : Nat) (inner : Ty)
  | weak (k : Kind) (tid : Nat)
deriving Repr, Inhabited

/-- the static type of a value (strong edges unfolded through the heap) -/
def tyOf : Nat → Heap → Val → Option Ty
  | 0, _, _ => none
  | _ + 1, _, .leaf _ => some (.leaf false)
  | fuel + 1, H, .node _ items => (items.mapM (fun x => tyOf fuel H x)).map .node
  | fuel + 1, H, .strong k tid p =>
    match H.lookup p with
    | none => none
    | some payload => (tyOf fuel H payload).map (.strong k tid)
  | _ + 1, _, .weak k tid _ => some (.weak k tid)

/-- rebuilt value; pointers are allocation numbers of the rebuilt heap -/
inductive RVal where
  | leaf (k : LeafKind)
  | node (isMap : Bool) (items : List RVal)
  | strong (k : Kind) (q : Ptr)
  | weak (k : Kind) (q : Ptr)
  /-- `Weak::new()`: a dangling weak -/
  | weakNull (k : Kind)
deriving Repr, Inhabited

inductive DeErr where
  /-- "weak … anchor must refer to an existing strong anchor via alias" (no anchor context of that kind) -/
  | weakNoAnchor
  /-- "… refers to unknown anchor; strong anchor must be defined before weak" -/
  | weakUnknown
  /-- "Recursive references require weak anchors / weak recursion types" (store) and
  `RecursiveReferencesRequireWeakTypes` (pump) -/
  | recNeedsWeak
  /-- pump: alias to an id with no recorded node -/
  | unknownAnchor
  /-- "anchor id … reused with incompatible … type" -/
  | typeReuse
  /-- any Serde shape error (scalar where a container is expected, …) -/
  | shape
  /-- an alias inside a recorded buffer (impossible: buffers hold expanded events) -/
  | internal
deriving DecidableEq, Repr

structure DeSt where
  /-- `AnchorState::stack`, head = innermost -/
  stack : List (Kind × Nat) := []
  /-- the four stores, keyed by kind: `(kind, id) ↦ (pointer, TypeId)`; first match = current entry -/
  store : List ((Kind × Nat) × (Ptr × Nat)) := []
  /-- allocation counter of the rebuilt heap -/
  nextPtr : Ptr := 1
  /-- rebuilt allocations; `none` = placeholder of a recursive wrapper not yet filled; first match = current -/
  heap : List (Ptr × Option RVal) := []
  /-- pump: `anchors` — id ↦ recorded (expanded) node -/
  defs : List (Nat × Out) := []
  /-- pump: ids of `rec_stack` (anchored containers still being recorded) -/
  opn : List Nat := []
  /-- snapshots taken by probe leaves: (stack, keys of the store) -/
  trace : List (List (Kind × Nat) × List (Kind × Nat)) := []
deriving Repr

/-- `current_anchor_id(kind)`: innermost context of that kind -/
def currentAnchorId (s : DeSt) (k : Kind) : Option Nat :=
  (s.stack.find? (fun e => e.1 == k)).map (·.2)

/-- `in_progress[(kind, id)]` — always the multiplicity of `(kind, id)` on `stack`: both are changed
together by `with_anchor_context` / `Guard::drop` (checked at run time through the probe hook) -/
def inProgressCount (s : DeSt) (k : Kind) (id : Nat) : Nat := s.stack.count (k, id)

/-- `anchor_reentrant` -/
def reentrant (s : DeSt) (k : Kind) (id : Nat) : Bool := decide (inProgressCount s k id > 1)

/-- `recursive_anchor_in_progress` -/
def recursiveAnchorInProgress (s : DeSt) (id : Nat) : Bool :=
  s.stack.contains (.rcRec, id) || s.stack.contains (.arcRec, id)

/-- `with_anchor_context(kind, own_context_id(anchor), …)`: every wrapper enters a context of its own;
a node without an anchor is entered under `NOT_ANCHORED` = 0 (`a = 0`) -/
def pushCtx (s : DeSt) (k : Kind) (a : Nat) : DeSt := { s with stack := (k, a) :: s.stack }

/-- `Guard::drop` -/
def popCtx (s : DeSt) (_a : Nat) : DeSt := { s with stack := s.stack.tail }

/-- `get_rc::<T>` / `get_arc` / `get_*_recursive`: `Err` when the `TypeId` differs -/
def getStored (s : DeSt) (k : Kind) (id tid : Nat) : Except DeErr (Option Ptr) :=
  match s.store.lookup (k, id) with
  | none => .ok none
  | some (q, t) => if t = tid then .ok (some q) else .error .typeReuse

/-- `store_*`: `HashMap::insert` (overwrites) -/
def storePtr (s : DeSt) (k : Kind) (id : Nat) (q : Ptr) (tid : Nat) : DeSt :=
  { s with store := ((k, id), (q, tid)) :: s.store }

/-- `Rc::new` / `Arc::new` -/
def alloc (s : DeSt) (c : Option RVal) : Ptr × DeSt :=
  (s.nextPtr, { s with nextPtr := s.nextPtr + 1, heap := (s.nextPtr, c) :: s.heap })

/-- `*rc.borrow_mut() = Some(value)` -/
def fill (s : DeSt) (q : Ptr) (v : RVal) : DeSt := { s with heap := (q, some v) :: s.heap }

def snapshot (s : DeSt) : List (Kind × Nat) × List (Kind × Nat) := (s.stack, s.store.map (·.1))

abbrev DeRes := Except DeErr (RVal × Out × DeSt)

def LeafKind.isInt : LeafKind → Bool
  | .int _ => true
  | _ => false

/-- the harness' probe type is an `i64`: it rejects every scalar that is not an integer -/
def probeRejects (probe : Bool) (k : LeafKind) : Bool := probe && !k.isInt

/-- the pump's alias arm, type-independent part: what node the alias delivers -/
def resolveAlias (s : DeSt) (id : Nat) : Except DeErr Out :=
  if s.opn.contains id then
    if recursiveAnchorInProgress s id then .ok (.leaf id .null) else .error .recNeedsWeak
  else
    match s.defs.lookup id with
    | none => .error .unknownAnchor
    | some sub => .ok sub

mutual
/-- `IgnoredAny` over events coming from the parser: nodes are recorded, aliases replayed, nothing typed -/
def skipLive : Out → DeSt → Except DeErr (Out × DeSt)
  | .leaf a k, s => .ok (.leaf a k, if a = 0 then s else { s with defs := (a, .leaf a k) :: s.defs })
  | .alias id, s =>
    match resolveAlias s id with
    | .error e => .error e
    | .ok sub => .ok (sub, s)
  | .node a isMap items, s =>
    let s1 := if a = 0 then s else { s with opn := a :: s.opn }
    match skipLiveList items s1 with
    | .error e => .error e
    | .ok (es, s2) =>
      let e := Out.node a isMap es
      .ok (e, if a = 0 then s2 else { s2 with opn := s2.opn.tail, defs := (a, e) :: s2.defs })
def skipLiveList : List Out → DeSt → Except DeErr (List Out × DeSt)
  | [], s => .ok ([], s)
  | x :: xs, s =>
    match skipLive x s with
    | .error e => .error e
    | .ok (e, s1) =>
      match skipLiveList xs s1 with
      | .error e => .error e
      | .ok (es, s2) => .ok (e :: es, s2)
end

mutual
/-- typed deserialization of one node.  `live = true`: the node comes from the parser (anchored nodes
are recorded, aliases are handed to `onAlias`); `live = false`: the node is a replayed buffer.
Returns the value, the expanded node (what the enclosing recording frames receive) and the state. -/
def deCore (onAlias : Ty → Nat → DeSt → DeRes) (live : Bool) : Ty → Out → DeSt → DeRes
  | .leaf probe, o, s =>
    match o with
    | .alias id => onAlias (.leaf probe) id s
    | .node .. => .error .shape
    | .leaf a k =>
      -- the probe type is an `i64`: anything but an integer is a Serde type error
      if probeRejects probe k then .error .shape else
      let s1 := if probe then { s with trace := snapshot s :: s.trace } else s
      let s2 := if live && a != 0 then { s1 with defs := (a, .leaf a k) :: s1.defs } else s1
      .ok (.leaf k, .leaf a k, s2)
  | .node tys, o, s =>
    match o with
    | .alias id => onAlias (.node tys) id s
    | .leaf .. => .error .shape
    | .node a isMap outs =>
      let s1 := if live && a != 0 then { s with opn := a :: s.opn } else s
      match deList onAlias live tys outs s1 with
      | .error e => .error e
      | .ok (vs, es, s2) =>
        let e := Out.node a isMap es
        let s3 := if live && a != 0 then { s2 with opn := s2.opn.tail, defs := (a, e) :: s2.defs } else s2
        .ok (.node isMap vs, e, s3)
  | .strong k tid inner, o, s =>
    match o with
    | .alias id => onAlias (.strong k tid inner) id s
    | o =>
      -- de.rs: `peek_anchor_id` + `with_anchor_context(own_context_id(..))`; anchors.rs:
      -- `visit_newtype_struct` — the context id `NOT_ANCHORED` means "this node has no anchor": the
      -- wrapper builds a fresh pointer that is not stored (it never uses an enclosing wrapper's id)
      let a := o.rootAnchor
      let s1 := pushCtx s k a
      match (if a = 0 then none else currentAnchorId s1 k) with
      | none =>
        match deCore onAlias live inner o s1 with
        | .error e => .error e
        | .ok (v, e, s2) =>
          let (q, s3) := alloc s2 (some v)
          .ok (.strong k q, e, popCtx s3 a)
      | some id =>
        match getStored s1 k id tid with
        | .error e => .error e
        | .ok (some q) =>
          match deCore onAlias live inner o s1 with
          | .error e => .error e
          | .ok (_, e, s2) => .ok (.strong k q, e, popCtx s2 a)
        | .ok none =>
          if reentrant s1 k id then .error .recNeedsWeak
          else if k.isRec then
            let (q, s2) := alloc s1 none
            match deCore onAlias live inner o (storePtr s2 k id q tid) with
            | .error e => .error e
            | .ok (v, e, s3) => .ok (.strong k q, e, popCtx (fill s3 q v) a)
          else
            match deCore onAlias live inner o s1 with
            | .error e => .error e
            | .ok (v, e, s2) =>
              let (q, s3) := alloc s2 (some v)
              .ok (.strong k q, e, popCtx (storePtr s3 k id q tid) a)
  | .weak k tid, o, s =>
    match o with
    | .alias id => onAlias (.weak k tid) id s
    | o =>
      let a := o.rootAnchor
      if a = 0 then
        -- de.rs: a weak wrapper, too, always gets a context of its own (`own_context_id`), `NOT_ANCHORED` when
        -- its node has no anchor, so it never sees the id of an enclosing wrapper.  anchors.rs: such a
        -- node is read as `Option<IgnoredAny>`: `null` is a dangling weak, anything else an error
        if o.isNull then .ok (.weakNull k, o, s)
        else
          match (if live then skipLive o (pushCtx s k 0) else .ok (o, s)) with
          | .error e => .error e
          | .ok _ => .error .weakNoAnchor
      else
      let s1 := pushCtx s k a
      match currentAnchorId s1 k with
      | none => .error .weakNoAnchor
      | some id =>
        match (if live then skipLive o s1 else .ok (o, s1)) with
        | .error e => .error e
        | .ok (e, s2) =>
          match getStored s2 k id tid with
          | .error e => .error e
          | .ok (some q) => .ok (.weak k q, e, popCtx s2 a)
          | .ok none =>
            .error (if k.isRec then .weakUnknown else if reentrant s2 k id then .recNeedsWeak else .weakUnknown)
def deList (onAlias : Ty → Nat → DeSt → DeRes) (live : Bool) :
    List Ty → List Out → DeSt → Except DeErr (List RVal × List Out × DeSt)
  | [], [], s => .ok ([], [], s)
  | [], _ :: _, _ => .error .shape
  | _ :: _, [], _ => .error .shape
  | t :: ts, o :: os, s =>
    match deCore onAlias live t o s with
    | .error e => .error e
    | .ok (v, e, s1) =>
      match deList onAlias live ts os s1 with
      | .error e => .error e
      | .ok (vs, es, s2) => .ok (v :: vs, e :: es, s2)
end

/-- an alias inside a recorded buffer: impossible, buffers hold expanded events -/
def noAlias : Ty → Nat → DeSt → DeRes := fun _ _ _ => .error .internal

/-- typed deserialization of a replayed buffer (buffers are alias-free) -/
def deE : Ty → Out → DeSt → DeRes := deCore noAlias false

/-- the pump's alias arm followed by the typed consumption of what it delivers -/
def onAliasLive (ty : Ty) (id : Nat) (s : DeSt) : DeRes :=
  match resolveAlias s id with
  | .error e => .error e
  | .ok sub => deE ty sub s

/-- typed deserialization of a document node -/
def de : Ty → Out → DeSt → DeRes := deCore onAliasLive true

/-- one document under `with_document_scope` (fresh `AnchorState`) -/
def deserialize (ty : Ty) (o : Out) : DeRes := de ty o {}

/-- serialize, then deserialize at the value's own type -/
inductive RtRes where
  | ok (v : RVal) (s : DeSt)
  | serErr (e : SerErr)
  | deErr (e : DeErr)
  | noType

def roundtrip (fuel : Nat) (H : Heap) (v : Val) : RtRes :=
  match serialize fuel H v with
  | .error e => .serErr e
  | .ok (o, _) =>
    match tyOf fuel H v with
    | none => .noType
    | some ty =>
      match deserialize ty o with
      | .error e => .deErr e
      | .ok (rv, _, s) => .ok rv s

/-- current content of a rebuilt allocation -/
def DeSt.cell (s : DeSt) (q : Ptr) : Option RVal := (s.heap.lookup q).bind id

end SaphyrVerif.Anchors
