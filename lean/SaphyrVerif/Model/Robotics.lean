import SaphyrVerif.Basic.Text
import SaphyrVerif.Gen.Tables
import SaphyrVerif.Model.F64
/-!
Model of `src/robotics.rs` (the recursive-descent expression evaluator behind
`Options::angle_conversions`) and of its call site `parse_scalars.rs::parse_yaml12_float`.

Shaped like the Rust code: the parser state is the cursor into the UTF-8 bytes of the scalar
(`pre` = bytes before `self.i`, most recent first; `rest` = bytes from `self.i` on), the `depth`
counter and the `sexagesimal_is_time` flag; `expr / term / unary / primary`, `enter / exit`,
`parse_number_or_special`, `try_parse_sexagesimal`, `read_uint_unders_to_f64/u32`,
`read_frac_part_unders`, `parse_ident_or_special`, `starts_ci` keep their names and branch order.

Loops are structural recursions over the remaining bytes; the `expr`/`term` loops and the recursion
through parentheses / `deg(` / `rad(` take fuel (`Res.fuel` = fuel exhausted; `Props/C19` proves it is
never returned).  Every operation of the Rust code that can panic is an explicit `Res.panic`:
`&self.s[a..b]` off a char boundary (identifier and the dead no-`buf` number slice; `starts_ci` compares
bytes since the fix bebcb49), `self.b[self.i - 1]`, `depth -= 1` (the harness builds with
overflow checks), `depth += 1`.

All floating point goes through `Model/F64.lean` (no `Float`).
-/
namespace SaphyrVerif.Robotics
open SaphyrVerif SaphyrVerif.F64

def MAX_EXPR_DEPTH : Nat := Gen.roboticsMaxExprDepth
def MAX_NUM_DIGITS : Nat := Gen.roboticsMaxNumDigits
def MAX_FRAC_DIGITS : Nat := Gen.roboticsMaxFracDigits

/-- tag class codes (declaration order of `SfTag`) -/
def TAG_TIMESTAMP : Nat := 7
def TAG_DEGREES : Nat := 11
def TAG_RADIANS : Nat := 12

abbrev F := binary64

/-- `core::f64::consts::PI` -/
def PI : Fl := .fin false 7074237752028440 (-51)
/-- `const DEG2RAD: f64 = PI / 180.0` -/
def DEG2RAD : Fl := div F PI (ofNat F 180)
def ONE : Fl := ofNat F 1
def TWO : Fl := ofNat F 2
def TEN : Fl := ofNat F 10
def SIXTY : Fl := ofNat F 60
def C3600 : Fl := ofNat F 3600
def U32MAX : Fl := ofNat F 4294967295

/-- One constructor per error message of robotics.rs (in order of appearance in the source). -/
inductive RErr where
  | trailing            -- "unexpected trailing characters in scalar"
  | ambiguousMix        -- "ambiguous mix of unitized values and Degrees tag: …"
  | tooDeep             -- "expression too deeply nested"
  | expectedRParen      -- "expected ')'"
  | expectedPrimary     -- "expected number, constant, function, or '('"
  | unexpectedEnd       -- "unexpected end of input"
  | underscoreNumber    -- "invalid underscore placement in number"
  | tooManyDigits       -- "too many digits in numeric literal"
  | underscoreFraction  -- "invalid underscore placement in fraction"
  | expectedExpMarker   -- "expected exponent marker"            (unreachable)
  | expectedExpSign     -- "expected sign after exponent marker" (unreachable)
  | underscoreExponent  -- "invalid underscore placement in exponent"
  | malformedExponent   -- "malformed exponent"
  | invalidFloat        -- "invalid float literal"
  | expectedLParenFn    -- "expected '(' after function name"
  | expectedRParenFn    -- "expected ')' after function argument"
  | unknownIdent        -- "unknown identifier"
  | minutesRange        -- "minutes out of range in sexagesimal literal"
  | secondsRange        -- "seconds out of range in sexagesimal literal"
  | tooManyDigitsSexa   -- "too many digits in sexagesimal literal"
  | underscoreIntField  -- "invalid underscore placement in integer field"
  | tooManyDigitsInt    -- "too many digits in integer field"
  | expectedDigits      -- "expected digits"
  | fieldTooLarge       -- "numeric field too large"
  | tooManyDigitsFrac   -- "too many digits in fraction"
  | expectedFracDigits  -- "expected digits after decimal point"
deriving DecidableEq, Repr

def RErr.code : RErr → Nat
  | .trailing => 1 | .ambiguousMix => 2 | .tooDeep => 3 | .expectedRParen => 4 | .expectedPrimary => 5
  | .unexpectedEnd => 6 | .underscoreNumber => 7 | .tooManyDigits => 8 | .underscoreFraction => 9
  | .expectedExpMarker => 10 | .expectedExpSign => 11 | .underscoreExponent => 12
  | .malformedExponent => 13 | .invalidFloat => 14 | .expectedLParenFn => 15 | .expectedRParenFn => 16
  | .unknownIdent => 17 | .minutesRange => 18 | .secondsRange => 19 | .tooManyDigitsSexa => 20
  | .underscoreIntField => 21 | .tooManyDigitsInt => 22 | .expectedDigits => 23 | .fieldTooLarge => 24
  | .tooManyDigitsFrac => 25 | .expectedFracDigits => 26

/-- Panic sites of robotics.rs. -/
inductive Site where
  | strSlice        -- `&self.s[a..b]` with `a` or `b` not on a char boundary (or out of range)
  | indexPrev       -- `self.b[self.i - 1]` (index out of bounds / `usize` underflow)
  | depthUnderflow  -- `self.depth -= 1` at 0 (debug_assert / overflow check)
  | depthOverflow   -- `self.depth += 1` at `u32::MAX`
  | cursorPastEnd   -- `self.i += 4` beyond the end followed by an access (cannot be represented)
deriving DecidableEq, Repr

def Site.name : Site → String
  | .strSlice => "str-slice" | .indexPrev => "index-prev" | .depthUnderflow => "depth-underflow"
  | .depthOverflow => "depth-overflow" | .cursorPastEnd => "cursor-past-end"

/-- Result of the byte-level helpers. -/
inductive HRes (α : Type) where
  | ok (a : α)
  | err (e : RErr)
  | panic (s : Site)
deriving Repr, DecidableEq

/-- Result of the parser functions.  `err e d`: the parser returned `Err(e)` while `self.depth = d`
(the depth is kept only because `exit()` also runs on the error path). -/
inductive Res (α : Type) where
  | ok (a : α)
  | err (e : RErr) (depth : Nat)
  | panic (s : Site)
  | fuel
deriving Repr, DecidableEq

def Res.bind {α β} (r : Res α) (k : α → Res β) : Res β :=
  match r with
  | .ok a => k a
  | .err e d => .err e d
  | .panic s => .panic s
  | .fuel => .fuel

def HRes.lift {α} (d : Nat) : HRes α → Res α
  | .ok a => .ok a
  | .err e => .err e d
  | .panic s => .panic s

structure St where
  pre : List Nat
  rest : List Nat
  depth : Nat
  sexTime : Bool
deriving Repr, DecidableEq

/-- Evaluator result: (value, used_unitized, saw_plain_outside). -/
abbrev Eval := Fl × Bool × Bool

def isWs (c : Nat) : Bool := c == 32 || c == 9 || c == 10 || c == 13
def isAlpha (c : Nat) : Bool := (65 ≤ c && c ≤ 90) || (97 ≤ c && c ≤ 122)
def isIdentStart (c : Nat) : Bool := isAlpha c || c == 95
def isIdentCont (c : Nat) : Bool := isAlpha c || isDigit c || c == 95
/-- UTF-8 continuation byte: an index pointing at one is not a char boundary. -/
def isCont (c : Nat) : Bool := 128 ≤ c && c < 192

/-- `s.is_char_boundary(i + k)` seen from the cursor: `k` bytes ahead must be the end or a
non-continuation byte (and `k ≤ rest.length`). -/
def boundaryAhead (rest : List Nat) (k : Nat) : Bool :=
  match rest.drop k with
  | [] => k ≤ rest.length
  | c :: _ => !isCont c

def skipWsL : List Nat → List Nat → List Nat × List Nat
  | pre, [] => (pre, [])
  | pre, c :: r => if isWs c then skipWsL (c :: pre) r else (pre, c :: r)

def St.skipWs (st : St) : St :=
  let pr := skipWsL st.pre st.rest
  { st with pre := pr.1, rest := pr.2 }

def St.peek (st : St) : Option Nat := st.rest.head?

/-- `bump` when a byte is known to be there. -/
def St.adv (st : St) (c : Nat) (r : List Nat) : St := { st with pre := c :: st.pre, rest := r }

def St.err {α} (st : St) (e : RErr) : Res α := .err e st.depth

/-- `enter` -/
def St.enter (st : St) : Res St :=
  if MAX_EXPR_DEPTH ≤ st.depth then st.err .tooDeep
  else if 4294967295 ≤ st.depth then .panic .depthOverflow
  else .ok { st with depth := st.depth + 1 }

/-- `exit` on a live state -/
def St.exit (st : St) : Res St :=
  if st.depth == 0 then .panic .depthUnderflow else .ok { st with depth := st.depth - 1 }

/-- `let r = self.expr(); self.exit(); r?` -/
def exitAfter {α} (r : Res (α × St)) : Res (α × St) :=
  match r with
  | .ok (a, st) => (st.exit).bind fun st' => .ok (a, st')
  | .err e d => if d == 0 then .panic .depthUnderflow else .err e (d - 1)
  | .panic s => .panic s
  | .fuel => .fuel

/-- `starts_ci(kw)` (`kw` in lower case): `end > len → false`, else the ASCII-case-insensitive
comparison of the BYTES `self.b[self.i..end]` with the keyword (no `str` slice, hence no panic). -/
def startsCi (rest : List Nat) (kw : List Nat) : Bool :=
  if rest.length < kw.length then false
  else (rest.take kw.length).map lowerByte == kw

/-- advance the cursor by `n` bytes (`self.i += n`) -/
def advN : Nat → List Nat → List Nat → HRes (List Nat × List Nat)
  | 0, pre, rest => .ok (pre, rest)
  | _ + 1, _, [] => .panic .cursorPastEnd
  | n + 1, pre, c :: r => advN n (c :: pre) r

/-- `prev_is_digit = self.i > start && self.b[self.i - 1].is_ascii_digit()` with `k = self.i - start`. -/
def prevIsDigit (pre : List Nat) (k : Nat) : HRes Bool :=
  if k == 0 then .ok false
  else match pre with
    | [] => .panic .indexPrev
    | p :: _ => .ok (isDigit p)

def nextIsDigit (r : List Nat) : Bool :=
  match r with
  | [] => false
  | n :: _ => isDigit n

/-- Result of one digit loop of `parse_number_or_special`. -/
structure NumSt where
  pre : List Nat
  rest : List Nat
  seen : Nat        -- digits_seen
  bufR : List Nat   -- buf, reversed
  hadDigit : Bool   -- had_digit / have_digit
deriving Repr, DecidableEq

/-- The three `while let Some(c) = self.peek()` digit loops (integer part, fraction, exponent digits):
digits are pushed to `buf`, an underscore must sit between two digits, `digits_seen` is capped.
`k = self.i - start` for the loop's own `start`. -/
def numLoop (eU : RErr) : List Nat → List Nat → Nat → Nat → List Nat → Bool → HRes NumSt
  | pre, [], _, seen, bufR, hv => .ok ⟨pre, [], seen, bufR, hv⟩
  | pre, c :: r, k, seen, bufR, hv =>
    if isDigit c then
      if MAX_NUM_DIGITS < seen + 1 then .err .tooManyDigits
      else numLoop eU (c :: pre) r (k + 1) (seen + 1) (c :: bufR) true
    else if c == 95 then
      match prevIsDigit pre k with
      | .ok p =>
        if !p || !nextIsDigit r then .err eU
        else if MAX_NUM_DIGITS < seen then .err .tooManyDigits
        else numLoop eU (c :: pre) r (k + 1) seen bufR hv
      | .err e => .err e
      | .panic s => .panic s
    else .ok ⟨pre, c :: r, seen, bufR, hv⟩

/-- look-ahead of `try_parse_sexagesimal`: (saw_digit, last_underscore, byte at `j`) -/
def sexaLook : List Nat → Bool → Bool → Bool × Bool × Option Nat
  | [], sd, lu => (sd, lu, none)
  | c :: r, sd, lu =>
    if isDigit c then sexaLook r true false
    else if c == 95 then
      (if !sd || lu then (sd, lu, some c) else sexaLook r sd true)
    else (sd, lu, some c)

/-- `read_uint_unders_to_f64`: (pre, rest, value, digit count) -/
def readUint : List Nat → List Nat → Fl → Nat → Bool → HRes (List Nat × List Nat × Fl × Nat)
  | pre, [], v, d, _ => if d == 0 then .err .expectedDigits else .ok (pre, [], v, d)
  | pre, c :: r, v, d, p =>
    if isDigit c then
      if MAX_NUM_DIGITS < d + 1 then .err .tooManyDigitsInt
      else readUint (c :: pre) r (add F (mul F v TEN) (ofNat F (c - 48))) (d + 1) true
    else if c == 95 then
      if !p || !nextIsDigit r then .err .underscoreIntField
      else if MAX_NUM_DIGITS < d then .err .tooManyDigitsInt
      else readUint (c :: pre) r v d false
    else if d == 0 then .err .expectedDigits else .ok (pre, c :: r, v, d)

/-- `read_uint_unders_to_u32` -/
def readU32 (pre rest : List Nat) : HRes (List Nat × List Nat × Nat × Nat) :=
  match readUint pre rest (zero F false) 0 false with
  | .ok (pre', rest', v, d) =>
    if gt v U32MAX then .err .fieldTooLarge else .ok (pre', rest', toU32 v, d)
  | .err e => .err e
  | .panic s => .panic s

/-- `read_frac_part_unders`: (pre, rest, num, scale, digit count); the caller divides. -/
def readFrac : List Nat → List Nat → Fl → Fl → Nat → Bool → HRes (List Nat × List Nat × Fl × Nat)
  | pre, [], num, sc, d, _ =>
    if d == 0 then .err .expectedFracDigits else .ok (pre, [], div F num sc, d)
  | pre, c :: r, num, sc, d, p =>
    if isDigit c then
      let num' := if d < MAX_FRAC_DIGITS then add F (mul F num TEN) (ofNat F (c - 48)) else num
      let sc' := if d < MAX_FRAC_DIGITS then mul F sc TEN else sc
      if MAX_NUM_DIGITS < d + 1 then .err .tooManyDigitsFrac
      else readFrac (c :: pre) r num' sc' (d + 1) true
    else if c == 95 then
      if !p || !nextIsDigit r then .err .underscoreFraction
      else if MAX_NUM_DIGITS < d then .err .tooManyDigitsFrac
      else readFrac (c :: pre) r num sc d false
    else if d == 0 then .err .expectedFracDigits else .ok (pre, c :: r, div F num sc, d)

/-- `try_parse_sexagesimal`: `ok none` = not a sexagesimal start (cursor unchanged). -/
def trySexagesimal (tag : Nat) (st : St) : Res (Option (Eval × St)) :=
  let look := sexaLook st.rest false false
  if !look.1 || look.2.1 then .ok none
  else if look.2.2 != some 58 then .ok none
  else
    (HRes.lift st.depth (readUint st.pre st.rest (zero F false) 0 false)).bind fun (pre1, rest1, degWhole, d1) =>
    match rest1 with
    | 58 :: rest1' =>
      (HRes.lift st.depth (readU32 (58 :: pre1) rest1')).bind fun (pre2, rest2, minsU, d2) =>
      if 59 < minsU then st.err .minutesRange
      else
        let mins := ofNat F minsU
        -- optional `:ss[.frac]`
        let tail : Res (List Nat × List Nat × Fl × Nat) :=
          match rest2 with
          | 58 :: rest2' =>
            (HRes.lift st.depth (readU32 (58 :: pre2) rest2')).bind fun (pre3, rest3, secsU, d3) =>
            if 59 < secsU then st.err .secondsRange
            else
              match rest3 with
              | 46 :: rest3' =>
                (HRes.lift st.depth (readFrac (46 :: pre3) rest3' (zero F false) ONE 0 false)).bind
                  fun (pre4, rest4, frac, df) =>
                    .ok (pre4, rest4, add F (ofNat F secsU) frac, d1 + d2 + d3 + df)
              | _ => .ok (pre3, rest3, ofNat F secsU, d1 + d2 + d3)
          | _ => .ok (pre2, rest2, zero F false, d1 + d2)
        tail.bind fun (preE, restE, secs, total) =>
          if MAX_NUM_DIGITS < total then st.err .tooManyDigitsSexa
          else
            let stE : St := { st with pre := preE, rest := restE }
            let degrees := add F (add F degWhole (div F mins SIXTY)) (div F secs C3600)
            let seconds := add F (add F (mul F degWhole C3600) (mul F mins SIXTY)) secs
            if st.sexTime then
              if tag == TAG_DEGREES || tag == TAG_RADIANS then
                .ok (some ((mul F degrees DEG2RAD, true, false), stE))
              else .ok (some ((seconds, true, false), stE))
            else if tag == TAG_TIMESTAMP then .ok (some ((seconds, true, false), stE))
            else .ok (some ((degrees, true, false), stE))
    | _ =>
      -- `self.i = save; return Ok(None)` (dead: the look-ahead saw ':')
      .ok none

/-- `e` [`+`|`-`]: consume the exponent marker `c` and an optional sign, pushing both to `buf`:
(pre, rest, buf reversed) -/
def expMarker (c : Nat) (pre r bufR : List Nat) : List Nat × List Nat × List Nat :=
  match r with
  | sg :: r2 => if sg == 43 || sg == 45 then (sg :: c :: pre, r2, sg :: c :: bufR) else (c :: pre, r, c :: bufR)
  | [] => (c :: pre, r, c :: bufR)

/-- the fraction of `parse_number_or_special`: `'.'` followed by the second digit loop -/
def numFrac (n1 : NumSt) : HRes NumSt :=
  match n1.rest with
  | 46 :: r => numLoop .underscoreFraction (46 :: n1.pre) r 0 n1.seen (46 :: n1.bufR) false
  | _ => .ok n1

/-- the exponent of `parse_number_or_special`: `e|E`, optional sign, third digit loop, at least one digit -/
def numExp (n2 : NumSt) : HRes NumSt :=
  match n2.rest with
  | c :: r =>
    if c == 101 || c == 69 then
      let em := expMarker c n2.pre r n2.bufR
      match numLoop .underscoreExponent em.1 em.2.1 0 n2.seen em.2.2 false with
      | .ok n3 => if !n3.hadDigit then .err .malformedExponent else .ok n3
      | .err e => .err e
      | .panic s => .panic s
    else .ok n2
  | [] => .ok n2

/-- `parse_number_or_special` -/
def parseNumberOrSpecial (tag : Nat) (st : St) : Res (Eval × St) :=
  if startsCi st.rest [46, 105, 110, 102] then
    (HRes.lift st.depth (advN 4 st.pre st.rest)).bind fun (p, r) =>
      .ok ((.inf false, false, true), { st with pre := p, rest := r })
  else
  if startsCi st.rest [46, 110, 97, 110] then
    (HRes.lift st.depth (advN 4 st.pre st.rest)).bind fun (p, r) =>
      .ok ((.nan, false, true), { st with pre := p, rest := r })
  else
  (trySexagesimal tag st).bind fun sx =>
  match sx with
  | some res => .ok res
  | none =>
    -- integer part, fraction, exponent
    (HRes.lift st.depth (numLoop .underscoreNumber st.pre st.rest 0 0 [] false)).bind fun n1 =>
    (HRes.lift st.depth (numFrac n1)).bind fun n2 =>
    (HRes.lift st.depth (numExp n2)).bind fun n3 =>
    let stE : St := { st with pre := n3.pre, rest := n3.rest }
    if n3.bufR.isEmpty then
      -- `&self.s[start..self.i]` (dead: `buf` is never empty here)
      let k := n3.pre.length - st.pre.length
      if !(boundaryAhead st.rest 0 && boundaryAhead n3.rest 0) then .panic .strSlice
      else match fromStr F (n3.pre.take k).reverse with
        | some v => .ok ((v, false, true), stE)
        | none => st.err .invalidFloat
    else
      match fromStr F n3.bufR.reverse with
      | some v => .ok ((v, false, true), stE)
      | none => st.err .invalidFloat

/-- identifier scan: (pre, rest, identifier bytes reversed) -/
def identLoop : List Nat → List Nat → List Nat → List Nat × List Nat × List Nat
  | pre, [], acc => (pre, [], acc)
  | pre, c :: r, acc => if isIdentCont c then identLoop (c :: pre) r (c :: acc) else (pre, c :: r, acc)

/-- `parse_ident_or_special`; `E` = the recursive `expr`. -/
def parseIdentOrSpecial (E : St → Res (Eval × St)) (st : St) : Res (Eval × St) :=
  let il := identLoop st.pre st.rest []
  -- `&self.s[start..self.i]`
  if !(boundaryAhead st.rest 0 && boundaryAhead il.2.1 0) then .panic .strSlice else
  let ident := il.2.2.reverse.map lowerByte
  let st1 : St := { st with pre := il.1, rest := il.2.1 }
  if ident == [112, 105] then .ok ((PI, false, true), st1)
  else if ident == [116, 97, 117] then .ok ((mul F TWO PI, false, true), st1)
  else if ident == [105, 110, 102] then .ok ((.inf false, false, true), st1)
  else if ident == [110, 97, 110] then .ok ((.nan, false, true), st1)
  else if ident == [100, 101, 103] || ident == [114, 97, 100] then
    let st2 := st1.skipWs
    match st2.rest with
    | 40 :: r =>
      let st3 := st2.adv 40 r
      let old := st3.sexTime
      (St.enter { st3 with sexTime := false }).bind fun st4 =>
      (exitAfter (E st4)).bind fun ((v, _, _), st5) =>
      let st6 := { st5 with sexTime := old }.skipWs
      match st6.rest with
      | 41 :: r' =>
        let st7 := st6.adv 41 r'
        if ident == [100, 101, 103] then .ok ((mul F v DEG2RAD, true, false), st7)
        else .ok ((v, true, false), st7)
      | c :: r' => (st6.adv c r').err .expectedRParenFn
      | [] => st6.err .expectedRParenFn
    | c :: r => (st2.adv c r).err .expectedLParenFn
    | [] => st2.err .expectedLParenFn
  else st1.err .unknownIdent

/-- `primary` -/
def primary (tag : Nat) (E : St → Res (Eval × St)) (st0 : St) : Res (Eval × St) :=
  let st := st0.skipWs
  match st.rest with
  | [] => st.err .unexpectedEnd
  | c :: r =>
    if c == 40 then
      (St.enter (st.adv c r)).bind fun st1 =>
      (exitAfter (E st1)).bind fun (ev, st2) =>
      let st3 := st2.skipWs
      match st3.rest with
      | 41 :: r' => .ok (ev, st3.adv 41 r')
      | c' :: r' => (st3.adv c' r').err .expectedRParen
      | [] => st3.err .expectedRParen
    else if isDigit c || c == 46 then parseNumberOrSpecial tag st
    else if isIdentStart c then parseIdentOrSpecial E st
    else st.err .expectedPrimary

/-- the sign loop of `unary` -/
def signLoop : List Nat → List Nat → Fl → List Nat × List Nat × Fl
  | pre, [], sign => (pre, [], sign)
  | pre, c :: r, sign =>
    if c == 43 then signLoop (c :: pre) r sign
    else if c == 45 then signLoop (c :: pre) r (neg sign)
    else (pre, c :: r, sign)

/-- `unary` -/
def unary (tag : Nat) (E : St → Res (Eval × St)) (st0 : St) : Res (Eval × St) :=
  let st := st0.skipWs
  let sl := signLoop st.pre st.rest ONE
  (primary tag E { st with pre := sl.1, rest := sl.2.1 }).bind fun ((v, uu, sp), st') =>
    .ok ((mul F sl.2.2 v, uu, sp), st')

/-- the `loop` of `term` (fuel `k` = bound on the number of iterations) -/
def termLoop (tag : Nat) (E : St → Res (Eval × St)) : Nat → Eval → St → Res (Eval × St)
  | 0, _, _ => .fuel
  | k + 1, (v, uu, sp), st0 =>
    let st := st0.skipWs
    match st.rest with
    | [] => .ok ((v, uu, sp), st)
    | c :: r =>
      if c == 42 then
        (unary tag E (st.adv c r)).bind fun ((rhs, u2, s2), st') =>
          termLoop tag E k (mul F v rhs, uu || u2, sp || s2) st'
      else if c == 47 then
        (unary tag E (st.adv c r)).bind fun ((rhs, u2, s2), st') =>
          termLoop tag E k (div F v rhs, uu || u2, sp || s2) st'
      else .ok ((v, uu, sp), st)

/-- `term` -/
def term (tag : Nat) (lf : Nat) (E : St → Res (Eval × St)) (st : St) : Res (Eval × St) :=
  (unary tag E st).bind fun (ev, st') => termLoop tag E lf ev st'

/-- the `loop` of `expr` -/
def exprLoop (tag : Nat) (lf : Nat) (E : St → Res (Eval × St)) : Nat → Eval → St → Res (Eval × St)
  | 0, _, _ => .fuel
  | k + 1, (v, uu, sp), st0 =>
    let st := st0.skipWs
    match st.rest with
    | [] => .ok ((v, uu, sp), st)
    | c :: r =>
      if c == 43 then
        (term tag lf E (st.adv c r)).bind fun ((rhs, u2, s2), st') =>
          exprLoop tag lf E k (add F v rhs, uu || u2, sp || s2) st'
      else if c == 45 then
        (term tag lf E (st.adv c r)).bind fun ((rhs, u2, s2), st') =>
          exprLoop tag lf E k (sub F v rhs, uu || u2, sp || s2) st'
      else .ok ((v, uu, sp), st)

/-- `expr` with recursion fuel `n` (nesting levels) and loop fuel `lf` (iterations per loop). -/
def expr (tag : Nat) (lf : Nat) : Nat → St → Res (Eval × St)
  | 0, _ => .fuel
  | n + 1, st =>
    (term tag lf (expr tag lf n) st).bind fun (ev, st') => exprLoop tag lf (expr tag lf n) lf ev st'

/-- `parse_yaml12_float_angle_converting::<f64>` on the UTF-8 bytes of the scalar.
Recursion fuel `MAX_EXPR_DEPTH + 1`, loop fuel `length + 1` (both proved sufficient). -/
def evalExpr (tag : Nat) (s : List Nat) : Res Fl :=
  let st0 : St := (St.skipWs { pre := [], rest := s, depth := 0, sexTime := true })
  (expr tag (s.length + 1) (MAX_EXPR_DEPTH + 1) st0).bind fun ((v, used, plain), st1) =>
  let st2 := st1.skipWs
  if !st2.rest.isEmpty then st2.err .trailing
  else if !used then
    .ok (if tag == TAG_DEGREES then mul F v DEG2RAD else v)
  else if tag == TAG_DEGREES && plain then st2.err .ambiguousMix
  else .ok v

/-! ## call site: `parse_scalars.rs::parse_yaml12_float` (feature `robotics`) -/

/-- UTF-8 bytes of a string. -/
def utf8 (cs : List Char) : List Nat :=
  cs.flatMap fun c =>
    let n := c.toNat
    if n < 0x80 then [n]
    else if n < 0x800 then [0xC0 + n / 64, 0x80 + n % 64]
    else if n < 0x10000 then [0xE0 + n / 4096, 0x80 + (n / 64) % 64, 0x80 + n % 64]
    else [0xF0 + n / 262144, 0x80 + (n / 4096) % 64, 0x80 + (n / 64) % 64, 0x80 + n % 64]

/-- Result of the call site: `ok v` | `invalid` (`Error::InvalidScalar`, option off) |
`hook e` (`Error::HookError`, option on) | `panic` | `fuel`. -/
inductive FRes where
  | ok (v : Fl)
  | invalid
  | hook (e : RErr)
  | panic (s : Site)
  | fuel
deriving Repr, DecidableEq

/-- The plain path: `.nan`/`.inf` forms, else `str::parse::<T>` of the trimmed text. -/
def parsePlain (f : Fmt) (s : List Char) : FRes :=
  let t := trim s
  let lower := lowerAscii t
  if lower == ".nan".toList || lower == "+.nan".toList || lower == "-.nan".toList then .ok .nan
  else if lower == ".inf".toList || lower == "+.inf".toList then .ok (.inf false)
  else if lower == "-.inf".toList then .ok (.inf true)
  else match fromStr f (utf8 t) with
    | some v => .ok v
    | none => .invalid

/-- `FromF64::from_f64`: identity for f64, `v as f32` for f32. -/
def fromF64 (f32 : Bool) (v : Fl) : Fl := if f32 then convert binary32 v else v

def fmtOf (f32 : Bool) : Fmt := if f32 then binary32 else binary64

/-- `parse_yaml12_float::<f64|f32>(s, _, tag, angle_conversions)` (since 78f916b): the plain reading is
computed first; with the option on it is returned as it is — parsed directly into the target width —
whenever it succeeded and the tag is not `!degrees`; otherwise the evaluator runs.  With the option off
the plain reading (or `InvalidScalar`) is the result. -/
def parseYaml12Float (f32 : Bool) (s : List Char) (tag : Nat) (angle : Bool) : FRes :=
  let plain := parsePlain (fmtOf f32) s
  if angle then
    let viaEvaluator : FRes :=
      match evalExpr tag (utf8 s) with
      | .ok v => .ok (fromF64 f32 v)
      | .err e _ => .hook e
      | .panic p => .panic p
      | .fuel => .fuel
    match plain with
    | .ok v => if tag != TAG_DEGREES then .ok v else viaEvaluator
    | _ => viaEvaluator
  else plain

end SaphyrVerif.Robotics
