import SaphyrVerif.Gen.Tables
import SaphyrVerif.Model.Budget
/-!
Model of `src/live_events.rs::LiveEvents` — the event pump: skips stream/document markers, records
anchored subtrees into every open recording frame, replays recorded buffers on aliases (one event
per `next_impl` call, each counted against the alias limits and the budget), keeps a one-event
look-ahead, resets per-document state.  Same state variables and branch order as the Rust code;
`&mut self` becomes a returned state.  The parser is external: its items are an input list.
-/
namespace SaphyrVerif.Pump
open SaphyrVerif SaphyrVerif.Scalars SaphyrVerif.Budget

/-- `SfTag` class code (None = 0 … Other = 13), `SfTag::from_optional_cow`. -/
def tagCode (t : Option (List Char)) : Nat :=
  match t with
  | none => 0
  | some s =>
    match Gen.tagLookupTable.find? (fun p => p.1.toList == s) with
    | some p => p.2
    | none => 13

/-- Logical event delivered to the deserializer (`de::Ev`, without the internal `Taken`). -/
inductive Ev where
  | scalar (value : List Char) (tag : Nat) (rawTag : Option (List Char)) (style : Style) (anchor : Nat) (loc : Loc)
  | seqStart (anchor : Nat) (tag : Nat) (rawTag : Option (List Char)) (loc : Loc)
  | seqEnd (loc : Loc)
  | mapStart (anchor : Nat) (loc : Loc)
  | mapEnd (loc : Loc)
deriving Repr, DecidableEq, Inhabited

def Ev.loc : Ev → Loc
  | .scalar _ _ _ _ _ l | .seqStart _ _ _ l | .seqEnd l | .mapStart _ l | .mapEnd l => l

/-- one item of the parser iterator: an event with the location of its span, or a scan error -/
inductive RawItem where
  | ev (e : Raw) (loc : Loc)
  | err (unknownAnchorMsg : Bool) (loc : Loc)
deriving Repr, DecidableEq, Inhabited

inductive PErr where
  | scan (loc : Loc)
  | unknownAnchor (loc : Loc)
  | budget (b : Breach) (loc : Loc)
  | foldedIndent (loc : Loc)
  | aliasExpansionLimit (id count max : Nat) (loc : Loc)
  | replayStackDepth (depth max : Nat) (loc : Loc)
  | recursiveRef (loc : Loc)
  | replayLimit (total max : Nat) (loc : Loc)
  | depthUnderflow (loc : Loc)
  | multipleDocuments (loc : Loc)
deriving Repr, DecidableEq

structure AliasLimits where
  maxTotalReplayedEvents : Nat
  maxReplayStackDepth : Nat
  maxAliasExpansionsPerAnchor : Nat
deriving Repr, DecidableEq

structure InjectFrame where
  anchorId : Nat
  idx : Nat
  refLoc : Loc
deriving Repr, DecidableEq

structure RecFrame where
  id : Nat
  depth : Nat
  buf : List Ev
deriving Repr, DecidableEq

structure Pump where
  producedAny : Bool := false
  synthesizedNull : Bool := false
  look : Option Ev := none
  /-- `inject`, head = top of the stack -/
  inject : List InjectFrame := []
  /-- `anchors`: id ↦ recorded buffer (first match wins; cleared at document boundaries) -/
  anchors : List (Nat × List Ev) := []
  /-- `rec_stack`, head = innermost (last pushed) frame -/
  recStack : List RecFrame := []
  budget : Option Enf := none
  lastLoc : Loc := 0
  limits : AliasLimits
  totalReplayed : Nat := 0
  /-- `per_anchor_expansions`: id ↦ count -/
  perAnchor : List (Nat × Nat) := []
  stopAtDocEnd : Bool := false
  seenDocEnd : Bool := false
  /-- `recursive_anchor_in_progress(id)` of the thread-local anchor store: ids currently being built by a
  recursive wrapper (empty unless the Rc/Arc recursion wrappers are in use) -/
  recursiveInProgress : List Nat := []
deriving Repr

def lookupAnchor (as : List (Nat × List Ev)) (id : Nat) : Option (List Ev) :=
  (as.find? (fun p => p.1 == id)).map (·.2)

def setAnchor (as : List (Nat × List Ev)) (id : Nat) (buf : List Ev) : List (Nat × List Ev) :=
  (id, buf) :: as

def lookupCount (cs : List (Nat × Nat)) (id : Nat) : Nat :=
  match cs.find? (fun p => p.1 == id) with
  | some p => p.2
  | none => 0

/-- `record`: push the event on every open frame (`skipTop` = the start event was already seeded into
the frame just pushed, which is the head) -/
def recordAll (fs : List RecFrame) (e : Ev) : List RecFrame :=
  fs.map fun f => { f with buf := f.buf ++ [e] }

def record (fs : List RecFrame) (e : Ev) (seededNewFrame : Bool) : List RecFrame :=
  if seededNewFrame then
    match fs with
    | [] => []
    | top :: rest => top :: recordAll rest e
  else recordAll fs e

def bumpDepthOnStart (fs : List RecFrame) : List RecFrame := fs.map fun f => { f with depth := f.depth + 1 }

/-- finalize frames whose depth reached 0 (only possible at the top) -/
def finalizeFrames (as : List (Nat × List Ev)) : List RecFrame → List (Nat × List Ev) × List RecFrame
  | [] => (as, [])
  | f :: fs => if f.depth == 0 then finalizeFrames (setAnchor as f.id f.buf) fs else (as, f :: fs)

/-- `bump_depth_on_end`; `none` = `InternalDepthUnderflow` -/
def bumpDepthOnEnd (as : List (Nat × List Ev)) (fs : List RecFrame) : Option (List (Nat × List Ev) × List RecFrame) :=
  if fs.any (fun f => f.depth == 0) then none
  else some (finalizeFrames as (fs.map fun f => { f with depth := f.depth - 1 }))

/-- `reset_document_state` -/
def Pump.resetDocumentState (p : Pump) : Pump :=
  { p with inject := [], recStack := [], anchors := [], perAnchor := [], totalReplayed := 0, seenDocEnd := false }

/-- the raw event re-synthesised for the budget from a replayed event (`observe_budget_for_replay`):
no anchor, no tag -/
def replayRaw : Ev → Raw
  | .scalar v _ _ st _ _ => .scalar v st 0 none
  | .seqStart .. => .seqStart 0 none
  | .seqEnd _ => .seqEnd
  | .mapStart .. => .mapStart 0 none
  | .mapEnd _ => .mapEnd

inductive Step where
  | event (e : Ev)
  | eof
  | error (e : PErr)
deriving Repr, DecidableEq

/-- The inject loop of `next_impl`: pops exhausted frames; serves one event from the top frame.
`none` = no live frame, fall through to the parser. -/
def serveInject (p : Pump) : List InjectFrame → Option Step × Pump
  | [] => (none, { p with inject := [] })
  | fr :: rest =>
    match lookupAnchor p.anchors fr.anchorId with
    | none => (some (.error (.unknownAnchor p.lastLoc)), { p with inject := fr :: rest })
    | some buf =>
      if fr.idx ≥ buf.length then serveInject p rest
      else
        match buf[fr.idx]? with
        | none => serveInject p rest
        | some ev =>
          let p := { p with inject := { fr with idx := fr.idx + 1 } :: rest }
          let total := p.totalReplayed + 1
          let p := { p with totalReplayed := total }
          if total > p.limits.maxTotalReplayedEvents then
            (some (.error (.replayLimit total p.limits.maxTotalReplayedEvents ev.loc)), p)
          else
            match p.budget with
            | none =>
              (some (.event ev),
                { p with recStack := recordAll p.recStack ev, lastLoc := ev.loc, producedAny := true })
            | some enf =>
              match enf.observe (replayRaw ev) with
              | .error b => (some (.error (.budget b ev.loc)), p)
              | .ok enf' =>
                (some (.event ev),
                  { p with budget := some enf', recStack := recordAll p.recStack ev, lastLoc := ev.loc,
                           producedAny := true })

/-- column 0 of the packed location `line * 2^20 + (col + 1)` -/
def locCol0 (l : Loc) : Bool := l % 1048576 == 1

/-- The parser loop of `next_impl` (structural recursion on the remaining parser items).  Returns the
step, the new state and the remaining parser items. -/
def parserLoop (p : Pump) : List RawItem → Step × Pump × List RawItem
  | [] =>
    if !p.producedAny then
      let ev := Ev.scalar [] 4 none .plain 0 p.lastLoc
      (.event ev, { p with producedAny := true, synthesizedNull := true }, [])
    else (.eof, p, [])
  | .err ua loc :: rest => (.error (if ua then .unknownAnchor loc else .scan loc), p, rest)
  | .ev raw loc :: rest =>
    -- budget first
    let ob : Except Breach (Option Enf) :=
      match p.budget with
      | none => .ok none
      | some enf =>
        match raw with
        | .alias _ => enf.observeAliasReplayed.map some
        | _ => (enf.observe raw).map some
    match ob with
    | .error b => (.error (.budget b loc), p, rest)
    | .ok bud =>
    let p := { p with budget := bud }
    match raw with
    | .scalar val style anchor tag =>
      if style == .folded && locCol0 loc && !(trim val).isEmpty then
        (.error (.foldedIndent loc), p, rest)
      else
        let ev := Ev.scalar val (tagCode tag) tag style anchor loc
        let p := { p with recStack := recordAll p.recStack ev }
        let p := if anchor != 0 then { p with anchors := setAnchor p.anchors anchor [ev] } else p
        (.event ev, { p with lastLoc := loc, producedAny := true }, rest)
    | .seqStart anchor tag =>
      let ev := Ev.seqStart anchor (tagCode tag) tag loc
      let fs := bumpDepthOnStart p.recStack
      let fs := if anchor != 0 then { id := anchor, depth := 1, buf := [ev] } :: fs else fs
      let fs := record fs ev (anchor != 0)
      (.event ev, { p with recStack := fs, lastLoc := loc, producedAny := true }, rest)
    | .seqEnd =>
      let ev := Ev.seqEnd loc
      let fs := recordAll p.recStack ev
      match bumpDepthOnEnd p.anchors fs with
      | none => (.error (.depthUnderflow loc), { p with recStack := fs }, rest)
      | some (as, fs) => (.event ev, { p with anchors := as, recStack := fs, lastLoc := loc, producedAny := true }, rest)
    | .mapStart anchor _ =>
      let ev := Ev.mapStart anchor loc
      let fs := bumpDepthOnStart p.recStack
      let fs := if anchor != 0 then { id := anchor, depth := 1, buf := [ev] } :: fs else fs
      let fs := record fs ev (anchor != 0)
      (.event ev, { p with recStack := fs, lastLoc := loc, producedAny := true }, rest)
    | .mapEnd =>
      let ev := Ev.mapEnd loc
      let fs := recordAll p.recStack ev
      match bumpDepthOnEnd p.anchors fs with
      | none => (.error (.depthUnderflow loc), { p with recStack := fs }, rest)
      | some (as, fs) => (.event ev, { p with anchors := as, recStack := fs, lastLoc := loc, producedAny := true }, rest)
    | .alias id =>
      let count := min (lookupCount p.perAnchor id + 1) USIZE_MAX
      let p := { p with perAnchor := (id, count) :: p.perAnchor }
      if count > p.limits.maxAliasExpansionsPerAnchor then
        (.error (.aliasExpansionLimit id count p.limits.maxAliasExpansionsPerAnchor loc), p, rest)
      else
        let nextDepth := p.inject.length + 1
        if nextDepth > p.limits.maxReplayStackDepth then
          (.error (.replayStackDepth nextDepth p.limits.maxReplayStackDepth loc), p, rest)
        else if p.recStack.any (fun f => f.id == id) then
          if p.recursiveInProgress.contains id then
            let ev := Ev.scalar [] 4 none .plain id loc
            (.event ev, { p with budget := p.budget.map Enf.aliasOccupiesPosition, recStack := recordAll p.recStack ev,
                                 lastLoc := loc, producedAny := true }, rest)
          else (.error (.recursiveRef loc), p, rest)
        else
          match lookupAnchor p.anchors id with
          | none => (.error (.unknownAnchor loc), p, rest)
          | some _ =>
            let p := { p with inject := { anchorId := id, idx := 0, refLoc := loc } :: p.inject }
            -- `return self.next_impl()`
            match serveInject p p.inject with
            | (some step, p') => (step, p', rest)
            | (none, p') => parserLoop p' rest
    | .docStart _ => parserLoop { p.resetDocumentState with lastLoc := loc } rest
    | .docEnd =>
      let p := { p.resetDocumentState with seenDocEnd := true, lastLoc := loc }
      if p.stopAtDocEnd then
        match rest with
        | .ev (.docStart _) loc2 :: rest' => (.error (.multipleDocuments loc2), p, rest')
        | _ :: rest' => (.eof, p, rest')
        | [] => (.eof, p, [])
      else parserLoop p rest
    | .streamStart => parserLoop { p with lastLoc := loc } rest
    | .streamEnd => parserLoop { p with lastLoc := loc } rest
    | .nothing => parserLoop p rest

/-- `next_impl` -/
def nextImpl (p : Pump) (input : List RawItem) : Step × Pump × List RawItem :=
  match serveInject p p.inject with
  | (some step, p') => (step, p', input)
  | (none, p') => parserLoop p' input

/-- `Events::next` (the I/O error cell is modelled separately, see Model/IoCell.lean) -/
def next (p : Pump) (input : List RawItem) : Step × Pump × List RawItem :=
  match p.look with
  | some ev => (.event ev, { p with look := none, lastLoc := ev.loc }, input)
  | none => nextImpl p input

/-- `Events::peek`: the step tells what `peek` returns (the event stays in `look`) -/
def peek (p : Pump) (input : List RawItem) : Step × Pump × List RawItem :=
  match p.look with
  | some ev => (.event ev, { p with lastLoc := ev.loc }, input)
  | none =>
    match nextImpl p input with
    | (.event ev, p', rest) => (.event ev, { p' with look := some ev, lastLoc := ev.loc }, rest)
    | other => other

/-- `reference_location` -/
def referenceLocation (p : Pump) : Loc :=
  match p.inject with
  | fr :: _ => fr.refLoc
  | [] => match p.look with
    | some ev => ev.loc
    | none => p.lastLoc

/-- `finish`: budget finalisation (ratio heuristic) located at `last_location` -/
def finish (p : Pump) : Option PErr × Option Report :=
  match p.budget with
  | none => (none, none)
  | some enf =>
    let (r, br) := enf.finalize
    (br.map (fun b => PErr.budget b p.lastLoc), some r)

/-- the budget part of the `DocumentStart` arm of `skip_to_next_document`: `budget.begin_document_at(&raw)` when a
budget is installed; `none` = it reported a breach -/
def skipBudget (budget : Option Enf) (raw : Raw) : Option (Option Enf) :=
  match budget with
  | none => some none
  | some enf =>
    match enf.beginDocumentAt raw with
    | .error _ => none
    | .ok enf' => some (some enf')

/-- `skip_to_next_document`: `true` = a new document was found -/
def skipLoop (p : Pump) : List RawItem → Bool × Pump × List RawItem
  | [] => (false, p, [])
  | .err _ _ :: rest => (false, p, rest)
  | .ev raw loc :: rest =>
    let p := { p with lastLoc := loc }
    match raw with
    | .docStart _ =>
      -- the skipped events bypassed the enforcer: `begin_document_at(&raw)`; a breach (only possible with
      -- `max_events = 0`) ends the recovery like a syntax error
      match skipBudget p.budget raw with
      | none => (false, p, rest)
      | some bud =>
        let p := { p with budget := bud }
        (true, { p.resetDocumentState with producedAny := false }, rest)
    | .docEnd => skipLoop { p.resetDocumentState with producedAny := false } rest
    | .streamEnd => (false, p, rest)
    | _ => skipLoop p rest

def skipToNextDocument (p : Pump) (input : List RawItem) : Bool × Pump × List RawItem :=
  skipLoop { p with look := none, inject := [], recStack := [] } input

/-- Drain as the hook does: `peek`, `reference_location`, `next`, until end or error; `fuel` bounds the
number of delivered events (the hook's `max_events`). -/
def drain (fuel : Nat) (p : Pump) (input : List RawItem) (acc : List (Ev × Loc)) :
    List (Ev × Loc) × Step × Pump × List RawItem :=
  match fuel with
  | 0 => (acc.reverse, .eof, p, input)
  | fuel + 1 =>
    match peek p input with
    | (.event _, p1, in1) =>
      let r := referenceLocation p1
      match next p1 in1 with
      | (.event ev, p2, in2) => drain fuel p2 in2 ((ev, r) :: acc)
      | (other, p2, in2) => (acc.reverse, other, p2, in2)
    | (other, p1, in1) => (acc.reverse, other, p1, in1)

end SaphyrVerif.Pump
