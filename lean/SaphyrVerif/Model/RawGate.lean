import SaphyrVerif.Model.Reader
/-!
Model of `src/buffered_input.rs::RawGate` (fix 2cd23fb): the adapter between the caller's reader and the
external decoder.  It sees the RAW bytes: it applies `max_reader_input_bytes` to them (at most `limit` bytes are
handed on, one more byte is taken from the reader to tell "exactly `limit` bytes" from "more"), and it reports
UTF-16 input (recognised by its byte-order mark) that ends inside a code unit or between the halves of a
surrogate pair as `UnexpectedEof` — the decoder would substitute U+FFFD.

The caller's reader is a schedule of read results (`Reader.Sched`, as for `ChunkedChars`); the consumer (the
decoder / `BufReader`) is the list of the buffer sizes of its `read` calls.  Import-free (core only).
-/
namespace SaphyrVerif.Reader

/-- `RawEncoding` -/
inductive RawEnc where
  /-- fewer than two bytes seen so far -/
  | undecided
  /-- no UTF-16 byte-order mark: nothing is tracked -/
  | notUtf16
  | utf16le
  | utf16be
deriving Repr, DecidableEq, Inhabited

/-- `RawGate` (`taken` is a ghost counter of every byte obtained from the inner reader, the probe byte
included; `first` is only meaningful while `pulled = 1` and the encoding is undecided) -/
structure Gate where
  inner : Sched
  limit : Option Nat := none
  /-- raw bytes handed on so far -/
  pulled : Nat := 0
  /-- the reader had a byte beyond the limit -/
  tripped : Bool := false
  encoding : RawEnc := .undecided
  first : Nat := 0
  /-- first byte of a UTF-16 code unit whose second byte has not arrived yet -/
  half : Option Nat := none
  /-- the last complete UTF-16 code unit was a high surrogate -/
  highPending : Bool := false
  taken : Nat := 0
deriving Repr, DecidableEq

/-- `RawGate::note`: account for one raw byte handed on -/
def Gate.note (g : Gate) (b : Nat) : Gate :=
  let g :=
    match g.encoding with
    | .undecided =>
      if g.pulled == 0 then { g with first := b }
      else
        { g with encoding :=
            if g.first == 0xFF && b == 0xFE then .utf16le
            else if g.first == 0xFE && b == 0xFF then .utf16be
            else .notUtf16 }
    | .notUtf16 => g
    | .utf16le =>
      match g.half with
      | none => { g with half := some b }
      | some a => { g with half := none, highPending := 0xD800 ≤ b * 256 + a && b * 256 + a ≤ 0xDBFF }
    | .utf16be =>
      match g.half with
      | none => { g with half := some b }
      | some a => { g with half := none, highPending := 0xD800 ≤ a * 256 + b && a * 256 + b ≤ 0xDBFF }
  { g with pulled := g.pulled + 1 }

/-- `for &b in &buf[..n] { self.note(b) }` -/
def Gate.noteAll (g : Gate) : List Nat → Gate
  | [] => g
  | b :: bs => (g.note b).noteAll bs

/-- the flag tested by `RawGate::at_end`: UTF-16 input with an incomplete code unit or a dangling high
surrogate -/
def Gate.insideChar (g : Gate) : Bool :=
  (g.encoding == .utf16le || g.encoding == .utf16be) && (g.half.isSome || g.highPending)

/-- `RawGate::at_end`: the reader reported end of input -/
def Gate.atEnd (g : Gate) : ReadRes := if g.insideChar then .err kUnexpectedEof else .ok []

/-- `let n = self.inner.read(&mut buf[..want])?; if n == 0 { return self.at_end() } … note … Ok(n)` -/
def Gate.plain (g : Gate) (want : Nat) : ReadRes × Gate :=
  match readCall want g.inner with
  | (.err k, s) => (.err k, { g with inner := s })
  | (.ok [], s) => ({ g with inner := s }.atEnd, { g with inner := s })
  | (.ok (b :: bs), s) =>
    (.ok (b :: bs), { g with inner := s, taken := g.taken + (bs.length + 1) }.noteAll (b :: bs))

/-- everything the limit allows has been handed on: probe one byte into a local buffer -/
def Gate.probe (g : Gate) : ReadRes × Gate :=
  match readCall 1 g.inner with
  | (.err k, s) => (.err k, { g with inner := s })
  | (.ok [], s) => ({ g with inner := s }.atEnd, { g with inner := s })
  | (.ok (_ :: bs), s) =>
    (.err kFileTooLarge, { g with inner := s, tripped := true, taken := g.taken + (bs.length + 1) })

/-- `impl Read for RawGate`: one `read(&mut buf[..n])` -/
def Gate.read (g : Gate) (n : Nat) : ReadRes × Gate :=
  if n == 0 then (.ok [], g)
  else
    match g.limit with
    | none => g.plain n
    | some limit =>
      if g.tripped then (.err kFileTooLarge, g)
      else
        let want := min n (limit - g.pulled)
        if want == 0 then g.probe else g.plain want

/-- the consumer's `read` calls (buffer sizes `reqs`) and their results -/
def Gate.run (g : Gate) : List Nat → List ReadRes × Gate
  | [] => ([], g)
  | n :: reqs =>
    let (r, g') := g.read n
    let (rs, g'') := Gate.run g' reqs
    (r :: rs, g'')

/-- the same calls made on the reader directly (no gate) -/
def readCalls : Sched → List Nat → List ReadRes × Sched
  | s, [] => ([], s)
  | s, n :: reqs =>
    let (r, s') := readCall n s
    let (rs, s'') := readCalls s' reqs
    (r :: rs, s'')

/-- bytes delivered by a list of read results -/
def outBytes : List ReadRes → List Nat
  | [] => []
  | .ok bs :: rs => bs ++ outBytes rs
  | .err _ :: rs => outBytes rs

/-- the results of a reader seen as the schedule of the reader behind it (what `ChunkedChars` is given when
nothing in between changes the bytes: the UTF-8 pass-through of the decoder) -/
def asSched : List ReadRes → Sched
  | [] => []
  | .ok bs :: rs => .data bs :: asSched rs
  | .err k :: rs => .fail k :: asSched rs

/-- a consumer that reads with buffers of `n` bytes until the first result that is not data, retrying
`Interrupted` (what the decoder's `fill` under `BufReader` amounts to); at most `fuel` calls.  Result: the
bytes received, how it ended (`none` = clean end of input) and the gate. -/
def Gate.drain (n : Nat) : Nat → Gate → List Nat × Option IoKind × Gate
  | 0, g => ([], none, g)
  | fuel + 1, g =>
    match g.read n with
    | (.ok [], g') => ([], none, g')
    | (.ok (b :: bs), g') =>
      let (rest, e, g'') := Gate.drain n fuel g'
      (b :: bs ++ rest, e, g'')
    | (.err k, g') =>
      if k == kInterrupted then Gate.drain n fuel g' else ([], some k, g')

end SaphyrVerif.Reader
