/-!
Decimal text → IEEE-754 bit pattern with correct rounding (round-half-even), in integer arithmetic.
This stands for Rust's `core::str::parse::<f64/f32>` (external: contract "correctly rounded"), used by the
C12 float differential to predict the parse-back bits of an emitted float text. Import-free.
-/
namespace SaphyrVerif.FloatDec

def isDigit (c : Char) : Bool := 48 ≤ c.toNat && c.toNat ≤ 57

def digitsVal (ds : List Char) : Nat := ds.foldl (fun a c => a * 10 + (c.toNat - 48)) 0

def stripSign (s : List Char) : Bool × List Char :=
  match s with
  | '-' :: t => (true, t)
  | '+' :: t => (false, t)
  | _ => (false, s)

/-- optional `.digits` -/
def splitFrac (r : List Char) : List Char × List Char :=
  match r with
  | '.' :: t => (t.takeWhile isDigit, t.dropWhile isDigit)
  | _ => ([], r)

/-- optional `(e|E)[+-]?digits`, nothing after it -/
def parseExp (r : List Char) : Option Int :=
  match r with
  | [] => some 0
  | c :: t =>
    if c == 'e' || c == 'E' then
      let (eneg, d) := stripSign t
      if d.isEmpty || !d.all isDigit then none
      else some (if eneg then - (Int.ofNat (digitsVal d)) else Int.ofNat (digitsVal d))
    else none

/-- `[+-]? digits [. digits] [(e|E) [+-]? digits]` with at least one mantissa digit:
(negative, mantissa, decimal exponent), value = mantissa · 10^exponent -/
def parseDec (s : List Char) : Option (Bool × Nat × Int) :=
  let (neg, r) := stripSign s
  let ip := r.takeWhile isDigit
  let (fp, r2) := splitFrac (r.dropWhile isDigit)
  if ip.isEmpty && fp.isEmpty then none else
  match parseExp r2 with
  | none => none
  | some e => some (neg, digitsVal (ip ++ fp), e - Int.ofNat fp.length)

/-- is num/den ≥ 2^e ? -/
def geP2 (num den : Nat) (e : Int) : Bool :=
  if e ≥ 0 then num ≥ den * 2 ^ e.toNat else num * 2 ^ (-e).toNat ≥ den

/-- round-half-even of a/b -/
def divRne (a b : Nat) : Nat :=
  let q := a / b
  let r := a % b
  if 2 * r < b then q else if 2 * r > b then q + 1 else (if q % 2 == 0 then q else q + 1)

/-- bits of the float nearest to num/den (> 0), `mant` explicit mantissa bits, `ebits` exponent bits -/
def roundPos (num den mant ebits : Nat) : Nat :=
  let bias : Int := 2 ^ (ebits - 1) - 1
  let emin : Int := 1 - bias
  let e0 : Int := Int.ofNat num.log2 - Int.ofNat den.log2
  let e : Int := if geP2 num den e0 then e0 else e0 - 1
  let e' : Int := if e < emin then emin else e
  let sh : Int := Int.ofNat mant - e'
  let q : Nat := if sh ≥ 0 then divRne (num * 2 ^ sh.toNat) den else divRne num (den * 2 ^ (-sh).toNat)
  let (q, e') := if q ≥ 2 ^ (mant + 1) then (q / 2, e' + 1) else (q, e')
  if q < 2 ^ mant then q   -- subnormal (or zero): biased exponent 0
  else
    let be : Int := e' + bias
    if be ≥ 2 ^ ebits - 1 then (2 ^ ebits - 1) * 2 ^ mant   -- overflow to infinity
    else be.toNat * 2 ^ mant + (q - 2 ^ mant)

/-- bit pattern of the correctly rounded value of a decimal text; `none` = not a decimal text -/
def decToBits (mant ebits : Nat) (s : List Char) : Option Nat :=
  match parseDec s with
  | none => none
  | some (neg, m, e) =>
    let sign := if neg then 2 ^ (mant + ebits) else 0
    if m == 0 then some sign
    else
      let (num, den) := if e ≥ 0 then (m * 10 ^ e.toNat, 1) else (m, 10 ^ (-e).toNat)
      some (sign + roundPos num den mant ebits)

def decToF64 := decToBits 52 11
def decToF32 := decToBits 23 8

end SaphyrVerif.FloatDec
