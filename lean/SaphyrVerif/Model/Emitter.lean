import SaphyrVerif.Basic.Text
import SaphyrVerif.Basic.Utf8
/-!
Model of the YAML emitter `src/ser.rs::YamlSerializer` (+ `SeqSer`, `MapSer`, `TupleSer`,
`TupleVariantSer`, `StructVariantSer` with `begin_variant` / `end_variant`, the wrapper interception of
`serialize_newtype_struct`, `KeyScalarSink`), `src/wrapping.rs` (`write_folded_block`, `first_line_leading_spaces`) and the entry
point `to_string_with_options` (`SerializerOptions::consistent`).

Shaped like the Rust code: the record `St` has the same layout flags as `YamlSerializer`, every
function below is the transcription of the Rust function named in its doc comment with the same
branch order; `&mut self` becomes a returned state, the output writer becomes the field `out`
(text appended at the end), the loops over elements / entries / fields become structural recursion
over the value tree.  The value is a Serde data-model tree `SVal`: each constructor stands for the
Serde calls `#[derive(Serialize)]` (or the wrapper's hand-written impl) issues.

Scalar *text* decisions (`is_plain_safe`, `is_plain_value_safe`, `write_quoted`, the key sink's
quoted arm) are parameters (`ScalarFns`) — they belong to C12; the layout theorems of C13/C20 only
assume their contract on a safe leaf class.  Not modelled: anchors (`pending_anchor_id` is always
`None`: `Rc`/`Arc` wrappers are C14), floats, chars, bytes (scalar leaves of C12).

Panics: none of the transcribed operations can panic (`in_flow -= 1` follows `+= 1`,
`v.len() - content.len()` is a suffix length, the slices of `write_folded_block` are at positions
`start ≤ ws_start` inside the line — see `foldedLine`).  Errors: `InvalidOptions` (indent step 0) and
`Unexpected("non-scalar key")` from `scalar_key_to_string(..)?` in flow mappings.
-/
namespace SaphyrVerif.Emit
open SaphyrVerif

/-- Serde data-model value: one constructor per `Serializer` entry point used by derived code. -/
inductive SVal where
  /-- `serialize_unit` (`()`, unit structs) -/
  | unit
  /-- `serialize_bool` -/
  | bool (b : Bool)
  /-- `serialize_i64` / `serialize_u64` / `serialize_i128` / `serialize_u128` (all print `{}`) -/
  | int (i : Int)
  /-- `serialize_str` -/
  | str (s : List Char)
  /-- `serialize_none` -/
  | none
  /-- `serialize_some(v)` -/
  | some (v : SVal)
  /-- `serialize_newtype_struct("W", v)` with an ordinary (non-reserved) name -/
  | newtypeStruct (v : SVal)
  /-- `serialize_seq(Some(n))`, `serialize_element`*, `end` -/
  | seq (items : List SVal)
  /-- `serialize_tuple(n)`, … (= `serialize_seq`) -/
  | tuple (items : List SVal)
  /-- `serialize_tuple_struct("TS", n)`, `serialize_field`*, `end` -/
  | tupleStruct (items : List SVal)
  /-- `serialize_map(if lenKnown then Some(n) else None)`, (`serialize_key`, `serialize_value`)*, `end`.
  A struct is `serialize_struct(_, n)` = `serialize_map(Some(n))` with `&'static str` keys:
  see `SVal.struct`. -/
  | map (lenKnown : Bool) (entries : List (SVal × SVal))
  /-- `serialize_unit_variant(enumName, _, variant)` -/
  | unitVariant (enumName variant : List Char)
  /-- `serialize_newtype_variant(_, _, variant, v)` -/
  | newtypeVariant (variant : List Char) (v : SVal)
  /-- `serialize_tuple_variant(_, _, variant, n)`, `serialize_field`*, `end` -/
  | tupleVariant (variant : List Char) (items : List SVal)
  /-- `serialize_struct_variant(_, _, variant, n)`, `serialize_field(name, v)`*, `end`; the field
  names are the keys, always `.str name` when built with `SVal.structVariantOf` -/
  | structVariant (variant : List Char) (fields : List (SVal × SVal))
  /-- `FlowSeq(v)`: `serialize_newtype_struct("__yaml_flow_seq", v)` -/
  | flowSeq (v : SVal)
  /-- `FlowMap(v)`: `serialize_newtype_struct("__yaml_flow_map", v)` -/
  | flowMap (v : SVal)
  /-- `Commented(v, c)`: `serialize_tuple_struct("__yaml_commented", 2)`, field `c`, field `v` -/
  | commented (v : SVal) (c : List Char)
  /-- `SpaceAfter(v)`: `serialize_newtype_struct("__yaml_space_after", v)` -/
  | spaceAfter (v : SVal)
  /-- `LitStr(s)` / `LitString(s)`: `serialize_newtype_struct("__yaml_lit_str", s)` -/
  | litStr (s : List Char)
  /-- `FoldStr(s)` / `FoldString(s)`: `serialize_newtype_struct("__yaml_fold_str", s)` -/
  | foldStr (s : List Char)
deriving Repr, Inhabited

/-- `#[derive(Serialize)] struct S { name: v, … }` -/
def SVal.struct (fields : List (List Char × SVal)) : SVal :=
  .map true (fields.map fun p => (.str p.1, p.2))

/-- `#[derive(Serialize)] enum E { V { name: v, … } }` -/
def SVal.structVariantOf (variant : List Char) (fields : List (List Char × SVal)) : SVal :=
  .structVariant variant (fields.map fun p => (.str p.1, p.2))

/-- `SerializerOptions` (without `anchor_generator`). -/
structure Opts where
  indentStep : Nat := 2
  minFoldChars : Nat := 32
  foldedWrapCol : Nat := 80
  taggedEnums : Bool := false
  emptyAsBraces : Bool := true
  compactListIndent : Bool := false
  preferBlockScalars : Bool := true
  quoteAll : Bool := false
  yaml12 : Bool := false
deriving Repr, DecidableEq, Inhabited

/-- The scalar-text functions of the crate the emitter calls (owned by C12). -/
structure ScalarFns where
  /-- `ser_quoting::is_plain_safe(s)` -/
  isPlainSafe : List Char → Bool
  /-- `ser_quoting::is_plain_value_safe(s, yaml_12, in_flow)` -/
  isPlainValueSafe : List Char → Bool → Bool → Bool
  /-- text written by `YamlSerializer::write_quoted(s)` (with the surrounding `"`) -/
  writeQuoted : List Char → List Char
  /-- text pushed by the quoted arm of `KeyScalarSink::serialize_str(s)` (with the surrounding `"`) -/
  keyQuoted : List Char → List Char
  /-- `ser_quoting::is_unsafe_plain_shape(s)` (trailing blank, leading U+FEFF, document-marker look-alike) -/
  isUnsafePlainShape : List Char → Bool

inductive EmitErr where
  | invalidOptions
  | nonScalarKey
deriving Repr, DecidableEq, Inhabited

inductive PendingFlow where
  | anySeq | anyMap
deriving Repr, DecidableEq, Inhabited

inductive StrStyle where
  | literal | folded
deriving Repr, DecidableEq, Inhabited

/-- The mutable fields of `YamlSerializer` (options are in `Opts`; anchors are not modelled). -/
structure St where
  out : List Char := []
  depth : Nat := 0
  atLineStart : Bool := true
  pendingFlow : Option PendingFlow := none
  inFlow : Nat := 0
  pendingStrStyle : Option StrStyle := none
  pendingStrFromAuto : Bool := false
  pendingInlineComment : Option (List Char) := none
  pendingInlineMap : Bool := false
  pendingSpaceAfterColon : Bool := false
  inlineMapAfterDash : Bool := false
  lastValueWasBlock : Bool := false
  afterDashDepth : Option Nat := none
  currentMapDepth : Option Nat := none
  docStarted : Bool := false
  /-- `indent_shift`: columns added to `indent_step * depth` (0 whenever `indent_step = 2`) -/
  indentShift : Int := 0
deriving Repr, DecidableEq, Inhabited

/-- `MAX_IMPLICIT_KEY_CHARS`: the longest text (in characters, quotes and escapes included) written as an
implicit key `key: value`; a longer scalar key / variant name is written as an explicit key `? key` -/
def maxImplicitKeyChars : Nat := 1024

/-! ### text helpers -/

def spaces (n : Nat) : List Char := List.replicate n ' '

/-- Rust `char::is_control` (general category Cc). -/
def isControl (c : Char) : Bool :=
  c.toNat ≤ 0x1F || (0x7F ≤ c.toNat && c.toNat ≤ 0x9F)

/-- `s.trim_end_matches('\n')` -/
def trimEndNl (s : List Char) : List Char := (s.reverse.dropWhile (· == '\n')).reverse

/-- `s.split('\n')` (never empty: `"".split('\n')` yields one empty piece) -/
def splitNl : List Char → List (List Char)
  | [] => [[]]
  | c :: cs =>
    match splitNl cs with
    | [] => [[]]
    | l :: ls => if c == '\n' then [] :: l :: ls else (c :: l) :: ls

/-- `wrapping::first_line_leading_spaces` -/
def firstLineLeadingSpaces (s : List Char) : Nat :=
  match (splitNl s).find? (fun l => !l.isEmpty) with
  | some l => (l.takeWhile (· == ' ')).length
  | none => 0

/-- `write!(out, "{}", v)` for the integer types -/
def intText (i : Int) : List Char := (toString i).toList

/-- the sanitising `TupleSer` of kind `Commented` does: every control character except TAB
(`char::is_control`, hence LF, CR, NUL, NEL, …), U+2028 and U+2029 become a space -/
def sanitizeComment (c : List Char) : List Char :=
  c.map fun ch => if (isControl ch && ch != '\t') || ch.toNat == 0x2028 || ch.toNat == 0x2029 then ' ' else ch

/-- `YamlSerializer::needs_double_quotes` -/
def needsDoubleQuotes (s : List Char) : Bool :=
  s.any fun c => c == '\'' || c == '\\' || isControl c

/-- text written by `YamlSerializer::write_single_quoted` -/
def singleQuoted (s : List Char) : List Char :=
  '\'' :: (s.flatMap fun c => if c == '\'' then ['\'', '\''] else [c]) ++ ['\'']

/-- text written by `YamlSerializer::write_plain_or_quoted` (names of enum variants with data, as mapping
keys): plain exactly where `KeyScalarSink` writes a string key plain -/
def plainOrQuoted (o : Opts) (f : ScalarFns) (s : List Char) : List Char :=
  if o.quoteAll then
    (if needsDoubleQuotes s then f.writeQuoted s else singleQuoted s)
  else if f.isPlainSafe s && f.isPlainValueSafe s o.yaml12 true && !f.isUnsafePlainShape s then s
  else f.writeQuoted s

/-- text written by `YamlSerializer::write_plain_or_quoted_value` -/
def plainOrQuotedValue (o : Opts) (f : ScalarFns) (inFlow : Bool) (s : List Char) : List Char :=
  if o.quoteAll then
    (if needsDoubleQuotes s then f.writeQuoted s else singleQuoted s)
  else if f.isPlainValueSafe s o.yaml12 inFlow && !f.isUnsafePlainShape s then s
  else f.writeQuoted s

/-- `KeyScalarSink::serialize_str` -/
def keyStrText (o : Opts) (f : ScalarFns) (s : List Char) : List Char :=
  if f.isPlainSafe s && f.isPlainValueSafe s o.yaml12 true && !f.isUnsafePlainShape s then s else f.keyQuoted s

/-- `scalar_key_to_string(key, yaml_12)`: `none` = `Err(Unexpected("non-scalar key"))`.
The key sink treats every newtype struct (hence `FlowSeq`, `FlowMap`, `SpaceAfter`, `LitStr`,
`FoldStr`) transparently; `Commented` is a tuple struct, i.e. a non-scalar key. -/
def keyText (o : Opts) (f : ScalarFns) : SVal → Option (List Char)
  | .unit => some "null".toList
  | .bool b => some (if b then "true".toList else "false".toList)
  | .int i => some (intText i)
  | .str s => some (keyStrText o f s)
  | .none => some "null".toList
  | .some v => keyText o f v
  | .newtypeStruct v => keyText o f v
  | .seq _ => none
  | .tuple _ => none
  | .tupleStruct _ => none
  | .map _ _ => none
  | .unitVariant _ variant => some (keyStrText o f variant)
  | .newtypeVariant _ _ => none
  | .tupleVariant _ _ => none
  | .structVariant _ _ => none
  | .flowSeq v => keyText o f v
  | .flowMap v => keyText o f v
  | .commented _ _ => none
  | .spaceAfter v => keyText o f v
  | .litStr s => some (keyStrText o f s)
  | .foldStr s => some (keyStrText o f s)

/-! ### `wrapping::write_folded_block` -/

/-- loop state of the per-line scan of `write_folded_block` (positions are character indices; the
Rust code uses byte indices of the same character boundaries) -/
structure FoldScan where
  acc : List Char := []
  start : Nat := 0
  col : Nat := 0
  lastSpaceRun : Option (Nat × Nat × Nat) := none
  inSpaceRun : Bool := false
  runStart : Nat := 0
  runLen : Nat := 0
  stopped : Bool := false

/-- one iteration of `for (i, ch) in line.char_indices()`; `stopped` = the `break` was taken -/
def foldStep (indentStr line : List Char) (wrapCol : Nat) (st : FoldScan) (i : Nat) (ch : Char) : FoldScan :=
  if st.stopped then st else
  let st := if st.inSpaceRun && ch != ' '
    then { st with lastSpaceRun := some (st.runStart, i, st.runLen), inSpaceRun := false, runLen := 0 }
    else st
  let st := if ch == ' ' then
      (if !st.inSpaceRun then { st with inSpaceRun := true, runStart := i, runLen := 1 }
       else { st with runLen := st.runLen + 1 })
    else st
  let st := { st with col := st.col + 1 }
  if st.col > wrapCol then
    match st.lastSpaceRun with
    | none => { st with stopped := true }
    | some (wsStart, wsEnd, wsLen) =>
      -- `&line[start..ws_start]`: runs are disjoint and ordered, so `start ≤ ws_start`
      let seg := (line.drop st.start).take (wsStart - st.start)
      { st with acc := st.acc ++ indentStr ++ seg ++ spaces (wsLen - 1) ++ ['\n'],
                start := wsEnd, col := 0, lastSpaceRun := none }
  else st

def foldScanLoop (indentStr line : List Char) (wrapCol : Nat) : FoldScan → Nat → List Char → FoldScan
  | st, _, [] => st
  | st, i, ch :: rest => foldScanLoop indentStr line wrapCol (foldStep indentStr line wrapCol st i ch) (i + 1) rest

/-- text emitted by `write_folded_block` for one source line -/
def foldedLine (indentStr : List Char) (wrapCol : Nat) (line : List Char) : List Char :=
  if line.isEmpty then indentStr ++ ['\n']
  else if line.head? == some ' ' then indentStr ++ line ++ ['\n']
  else
    let st := foldScanLoop indentStr line wrapCol {} 0 line
    st.acc ++ indentStr ++ line.drop st.start ++ ['\n']

/-- text emitted by `wrapping::write_folded_block(out, s, indent, indent_step, folded_wrap_col)` -/
def foldedBlock (s : List Char) (indent indentStep wrapCol : Nat) : List Char :=
  (splitNl s).flatMap (foldedLine (spaces (indentStep * indent)) wrapCol)

/-! ### `YamlSerializer` helpers -/

def St.write (s : St) (cs : List Char) : St := { s with out := s.out ++ cs }

/-- `newline` -/
def newline (s : St) : St := { s with out := s.out ++ ['\n'], atLineStart := true }

/-- `indent_cols(depth)`: `((indent_step * depth) as isize + indent_shift).max(0) as usize` -/
def indentCols (o : Opts) (s : St) (depth : Nat) : Nat := (((o.indentStep * depth : Nat) : Int) + s.indentShift).toNat

/-- `shift_for_inline_node`: `indent_shift += 2 - indent_step` (the caller keeps the previous value) -/
def shiftForInlineNode (o : Opts) (s : St) : St := { s with indentShift := s.indentShift + (2 - (o.indentStep : Int)) }

/-- `write_indent(depth)` (emits the `%YAML 1.2` + `---` prologue before the first token of the document) -/
def writeIndent (o : Opts) (s : St) (depth : Nat) : St :=
  if s.atLineStart then
    let s := if !s.docStarted then
        let s := { s with docStarted := true }
        if o.yaml12 then { s.write "%YAML 1.2\n---\n".toList with atLineStart := true } else s
      else s
    { s.write (spaces (indentCols o s depth)) with atLineStart := false }
  else s

/-- `write_space_if_pending` -/
def writeSpaceIfPending (s : St) : St :=
  let s := if s.pendingSpaceAfterColon then { s.write [' '] with pendingSpaceAfterColon := false } else s
  { s with lastValueWasBlock := false }

/-- `write_end_of_scalar` -/
def writeEndOfScalar (s : St) : St :=
  if s.inFlow == 0 then
    let s := match s.pendingInlineComment with
      | some c => { s.write (" # ".toList ++ c) with pendingInlineComment := none }
      | none => s
    newline s
  else s

/-- `if self.at_line_start { self.write_indent(self.depth)?; }` -/
def indentIfLineStart (o : Opts) (s : St) : St :=
  if s.atLineStart then writeIndent o s s.depth else s

/-- `serialize_bool` / `serialize_i64` / … / `serialize_none` / `serialize_unit`: a fixed token
(`serialize_none`/`serialize_unit` additionally clear `last_value_was_block`, which
`write_space_if_pending` already did) -/
def serToken (o : Opts) (tok : List Char) (s : St) : St :=
  let s := writeSpaceIfPending s
  let s := { s with lastValueWasBlock := false }
  let s := indentIfLineStart o s
  writeEndOfScalar (s.write tok)

/-- `out.write_str(indent_str); at_line_start = false; out.write_str(line); newline()` -/
def writeBodyLine (indentStr line : List Char) (s : St) : St :=
  newline { s with out := s.out ++ indentStr ++ line, atLineStart := false }

/-- the block-scalar arm of `serialize_str` for `StrStyle::Literal` after the header position is
reached: header, body lines -/
def literalBlock (o : Opts) (v : List Char) (needsIndicator : Bool) (bodyBase : Nat) (s : St) : St :=
  let content := trimEndNl v
  let trailingNl := v.length - content.length
  let indentN := indentCols o s bodyBase
  let s := s.write ['|']
  let s := if needsIndicator then s.write [Char.ofNat (48 + indentN)] else s
  let s := match trailingNl with
    | 0 => s.write ['-']
    | 1 => s
    | _ => s.write ['+']
  let s := newline s
  let indentStr := spaces (indentCols o s bodyBase)
  if content.isEmpty then
    -- only line breaks: one empty content line per line break
    (List.range trailingNl).foldl (fun s _ => writeBodyLine indentStr [] s) s
  else
    let s := (splitNl content).foldl (fun s line => writeBodyLine indentStr line s) s
    if trailingNl ≥ 2 then
      (List.range (trailingNl - 1)).foldl (fun s _ => writeBodyLine indentStr [] s) s
    else s

/-- the block-scalar arm of `serialize_str` for `StrStyle::Folded` -/
def foldedBlockScalar (o : Opts) (v : List Char) (needsIndicator : Bool) (bodyBase : Nat) (s : St) : St :=
  let indentN := indentCols o s bodyBase
  let s := s.write ['>']
  let s := if needsIndicator then s.write [Char.ofNat (48 + indentN)] else s
  let s := if s.pendingStrFromAuto then
      let content := trimEndNl v
      match v.length - content.length with
      | 0 => s.write ['-']
      | 1 => s
      | _ => s.write ['+']
    else s
  let s := newline s
  -- the indentation is handed over in columns (a step of 1)
  { s.write (foldedBlock v (indentCols o s bodyBase) 1 o.foldedWrapCol) with atLineStart := true }

/-- `serialize_str` -/
def serStr (o : Opts) (f : ScalarFns) (v : List Char) (s : St) : St :=
  -- auto-selection of a block style
  let s :=
    if s.pendingStrStyle.isNone && s.inFlow == 0 && !o.quoteAll then
      if v.contains '\n' then
        if o.preferBlockScalars then
          -- a literal block cannot carry CR / NUL / other controls, nor a content of line breaks only
          let blockOk := !(v.any fun c => isControl c && c != '\n' && c != '\t') && !(trimEndNl v).isEmpty
          if v.length > o.foldedWrapCol && blockOk then
            { s with pendingStrStyle := some .literal, pendingStrFromAuto := true }
          else
            let trimmed := trimEndNl v
            let normalized := trimmed.map fun c => if c == '\n' then ' ' else c
            if f.isPlainValueSafe normalized o.yaml12 false then
              { s with pendingStrStyle := some .literal, pendingStrFromAuto := true }
            else s
        else s
      else if o.preferBlockScalars then
        let needsQuoting := !f.isPlainValueSafe v o.yaml12 false
        if !needsQuoting && v.length > o.foldedWrapCol then
          { s with pendingStrStyle := some .folded, pendingStrFromAuto := true }
        else s
      else s
    else s
  match s.pendingStrStyle with
  | some style =>
    let s := { s with pendingStrStyle := none }
    let wasMapValue := s.pendingSpaceAfterColon
    let s := writeSpaceIfPending s
    let base := if wasMapValue then s.currentMapDepth.getD s.depth else s.afterDashDepth.getD s.depth
    let s := if s.atLineStart then writeIndent o s base else s
    let bodyBase := base + 1
    let indentN := indentCols o s bodyBase
    let contentTrimmed := trimEndNl v
    let needsIndicator := firstLineLeadingSpaces contentTrimmed > 0
    -- the indicator is counted from the parent node: written only where the parent is at column 0;
    -- a body that would not be deeper than an inline `- - ` is quoted as well
    let shallowInlineSeq := o.indentStep < 2 && !wasMapValue && base > 0
    -- a block scalar is written raw: content with CR / NUL / NEL / other controls is quoted, also for
    -- `LitStr` / `FoldStr`; inside a flow collection there are no block scalars
    let hasControls := v.any fun c => isControl c && c != '\n' && c != '\t'
    if (needsIndicator && (indentN > 9 || base > 0)) || shallowInlineSeq || hasControls || s.inFlow > 0 then
      let s := { s with pendingStrStyle := none, pendingStrFromAuto := false }
      let s := s.write (plainOrQuotedValue o f (s.inFlow > 0) v)
      writeEndOfScalar s
    else
      let s := match style with
        | .literal => literalBlock o v needsIndicator bodyBase s
        | .folded => foldedBlockScalar o v needsIndicator bodyBase s
      { s with pendingStrFromAuto := false }
  | none =>
    let s := writeSpaceIfPending s
    let s := indentIfLineStart o s
    if v == ['.'] || v == ['#'] || v == ['-'] then
      writeEndOfScalar (s.write ('\'' :: v ++ ['\'']))
    else
      writeEndOfScalar (s.write (plainOrQuotedValue o f (s.inFlow > 0) v))

/-- `serialize_tagged_scalar(enum_name, variant)` -/
def serTaggedScalar (o : Opts) (f : ScalarFns) (enumName variant : List Char) (s : St) : St :=
  let s := indentIfLineStart o s
  let s := s.write ("!!".toList ++ enumName ++ [' '] ++ plainOrQuotedValue o f (s.inFlow > 0) variant)
  writeEndOfScalar s

/-- `take_flow_for_seq` / `take_flow_for_map` (`want` = the hint that selects flow style) -/
def takeFlow (want : PendingFlow) (s : St) : Bool × St :=
  if s.inFlow > 0 then (true, s)
  else (s.pendingFlow == some want, { s with pendingFlow := none })

/-- fields of `SeqSer` -/
structure SeqSer where
  depth : Nat
  flow : Bool
  first : Bool := true
  restoreShift : Option Int := none
deriving Repr, DecidableEq

/-- `serialize_seq` (also `serialize_tuple`) -/
def serializeSeq (o : Opts) (s : St) : SeqSer × St :=
  let (flow, s) := takeFlow .anySeq s
  if flow then
    let s := writeSpaceIfPending s
    let s := indentIfLineStart o s
    let s := { s.write ['['] with atLineStart := false }
    ({ depth := s.depth, flow := true }, s)
  else
    let wasInlineValue := !s.atLineStart
    -- after a block sibling only the marker is consumed: the line break is left to the first element
    let s := if s.pendingSpaceAfterColon && s.lastValueWasBlock then { s with lastValueWasBlock := false } else s
    let inlineFirst := !s.atLineStart && s.afterDashDepth.isSome && !s.pendingSpaceAfterColon
    let s := if inlineFirst then { s with atLineStart := false } else s
    let base := if inlineFirst then s.afterDashDepth.getD s.depth
      else if wasInlineValue && s.currentMapDepth.isSome then s.currentMapDepth.getD s.depth
      else s.depth
    let depthNext := if inlineFirst then base + 1
      else if wasInlineValue then
        (if o.compactListIndent && s.currentMapDepth.isSome then base else base + 1)
      else base
    let s := { s with pendingInlineComment := none }
    if inlineFirst then ({ depth := depthNext, flow := false, restoreShift := some s.indentShift }, shiftForInlineNode o s)
    else ({ depth := depthNext, flow := false }, s)

/-- the part of block `SeqSer::serialize_element` before `v.serialize(..)` -/
def seqElemPrefix (o : Opts) (q : SeqSer) (s : St) : St :=
  let s := if q.first && s.pendingSpaceAfterColon then
      let s := { s with pendingSpaceAfterColon := false }
      if !s.atLineStart then newline s else s
    else s
  let s := if !q.first && s.inlineMapAfterDash then { s with inlineMapAfterDash := false } else s
  let s := if q.first && (!s.atLineStart || s.pendingInlineMap) then s else writeIndent o s q.depth
  let s := { s.write ['-', ' '] with atLineStart := false }
  let s := if q.first && s.inlineMapAfterDash then { s with inlineMapAfterDash := false } else s
  { s with afterDashDepth := some q.depth, pendingInlineMap := true }

/-- `if let Some(shift) = self.restore_shift.take() { self.ser.indent_shift = shift; }` -/
def restoreShift (r : Option Int) (s : St) : St :=
  match r with
  | some sh => { s with indentShift := sh }
  | none => s

/-- `SeqSer::finish` (`SeqSer::end`, `TupleSer::end` of kind `Normal`, `TupleVariantSer::end`) -/
def seqEnd (o : Opts) (q : SeqSer) (s : St) : St :=
  restoreShift q.restoreShift <|
  if q.flow then
    let s := s.write [']']
    if s.inFlow == 0 then newline s else s
  else if q.first then
    if o.emptyAsBraces then
      let s := if s.pendingSpaceAfterColon then { s.write [' '] with pendingSpaceAfterColon := false } else s
      let s := if s.atLineStart then writeIndent o s q.depth else s
      newline (s.write ['[', ']'])
    else newline s
  else
    { s with lastValueWasBlock := true, pendingInlineMap := false, afterDashDepth := none,
             inlineMapAfterDash := false }

/-- fields of `MapSer` -/
structure MapSer where
  depth : Nat
  flow : Bool
  first : Bool := true
  lastKeyComplex : Bool := false
  restoreShift : Option Int := none
  inlineValueStart : Bool := false
deriving Repr, DecidableEq

/-- `serialize_map(len)` (also `serialize_struct`): `len = none` = `None`, `some n` = `Some(n)` -/
def serializeMap (o : Opts) (len : Option Nat) (s : St) : MapSer × St :=
  let (flow, s) := takeFlow .anyMap s
  if flow then
    let s := writeSpaceIfPending s
    let s := indentIfLineStart o s
    let s := { s.write ['{'] with atLineStart := false }
    ({ depth := s.depth, flow := true }, s)
  else
    let inlineFirst := s.pendingInlineMap
    let wasInlineValue := s.pendingSpaceAfterColon
    let forced := wasInlineValue && s.lastValueWasBlock
    let s := if forced then
        let s := { s with pendingSpaceAfterColon := false }
        let s := if !s.atLineStart then newline s else s
        { s with lastValueWasBlock := false }
      else s
    let s := if inlineFirst then
        { s with pendingInlineMap := false, inlineMapAfterDash := true }
      else if wasInlineValue then
        let knownNonEmpty := match len with | some n => n > 0 | none => false
        if !o.emptyAsBraces || knownNonEmpty then
          let s := { s with pendingSpaceAfterColon := false }
          if !s.atLineStart then newline s else s
        else s
      else s
    let base := if inlineFirst then s.afterDashDepth.getD s.depth
      else if wasInlineValue && s.currentMapDepth.isSome then s.currentMapDepth.getD s.depth
      else s.depth
    let depthNext := if inlineFirst || wasInlineValue then base + 1 else base
    let ivs := wasInlineValue && o.emptyAsBraces && len.isNone && !inlineFirst && !forced
    if inlineFirst then
      ({ depth := depthNext, flow := false, restoreShift := some s.indentShift, inlineValueStart := ivs },
       shiftForInlineNode o s)
    else ({ depth := depthNext, flow := false, inlineValueStart := ivs }, s)

/-- `self.ser.write_indent(self.depth)` of `MapSer` (a mapping that started inline after a dash has
its following keys aligned under the first one by `indent_shift`) -/
def mapIndent (o : Opts) (m : MapSer) (s : St) : St := writeIndent o s m.depth

/-- block `MapSer::serialize_key` up to (not including) the `match scalar_key_to_string(..)` -/
def mapKeyPrefix (m : MapSer) (s : St) : MapSer × St :=
  let (m, s) :=
    if m.inlineValueStart then
      let s := if s.pendingSpaceAfterColon then { s with pendingSpaceAfterColon := false } else s
      let s := if !s.atLineStart then newline s else s
      ({ m with inlineValueStart := false }, s)
    else if !s.atLineStart then (m, writeSpaceIfPending s)
    else (m, s)
  (m, { s with afterDashDepth := none, pendingInlineMap := false })

/-- `MapSer::finish` (`MapSer::end`, `StructVariantSer::end`) -/
def mapEnd (o : Opts) (m : MapSer) (s : St) : St :=
  restoreShift m.restoreShift <|
  if m.flow then
    let s := s.write ['}']
    if s.inFlow == 0 then newline s else s
  else if m.first then
    if o.emptyAsBraces then
      let s := if s.pendingSpaceAfterColon then { s.write [' '] with pendingSpaceAfterColon := false } else s
      let s := if s.atLineStart then mapIndent o m s else s
      newline (s.write ['{', '}'])
    else newline s
  else { s with lastValueWasBlock := true }

/-- block `MapSer::serialize_key`, non-scalar key: `write_anchor_for_complex_node` (no anchor here),
`write_indent(depth)`, `? ` -/
def complexKeyMark (o : Opts) (m : MapSer) (s : St) : St :=
  { (writeIndent o s m.depth).write ['?', ' '] with atLineStart := false }

/-- … the state the key is serialized in (`s0` = `complexKeyMark ..`): the key node is laid out after
`? ` like a sequence item after `- ` -/
def complexKeyCtx (m : MapSer) (s0 : St) : St :=
  { s0 with pendingInlineMap := true, depth := m.depth, currentMapDepth := some m.depth, afterDashDepth := some m.depth }

/-- block `MapSer::serialize_value` with `last_key_complex` (`s` = the state after the key): `write_indent(depth)`,
`: `, the value node laid out like a sequence item after `- `, `current_map_depth` replaced by the depth of this
mapping -/
def explicitValueCtx (o : Opts) (m : MapSer) (s : St) : St :=
  let s := mapIndent o m s
  let s := s.write [':', ' ']
  { s with pendingSpaceAfterColon := false, pendingInlineMap := true, afterDashDepth := some m.depth,
           atLineStart := false, depth := m.depth, currentMapDepth := some m.depth }

/-- block `MapSer::serialize_key`, scalar key whose text is longer than `MAX_IMPLICIT_KEY_CHARS`:
`write_indent(depth)`, `? `, the text, line break; `last_value_was_block` cleared -/
def longKeyLine (o : Opts) (m : MapSer) (text : List Char) (s : St) : St :=
  let s := mapIndent o m s
  let s := s.write (['?', ' '] ++ text)
  let s := newline s
  { s with lastValueWasBlock := false }

/-- … after the key (`sk`): the saved `depth` / `current_map_depth` / `pending_inline_map` /
`inline_map_after_dash` / `after_dash_depth` of `s0` are restored, `last_value_was_block` cleared; then block
`MapSer::serialize_value` with `last_key_complex`: `write_indent(depth)`, `: `, the value node laid out
like a sequence item after `- `, `current_map_depth` replaced by the depth of this mapping -/
def complexValueCtx (o : Opts) (m : MapSer) (s0 sk : St) : St :=
  let s : St := { sk with depth := s0.depth, currentMapDepth := s0.currentMapDepth, pendingInlineMap := s0.pendingInlineMap,
                          inlineMapAfterDash := s0.inlineMapAfterDash, afterDashDepth := s0.afterDashDepth,
                          lastValueWasBlock := false }
  explicitValueCtx o m s

/-- … after the value (`sv`): `current_map_depth`, `pending_inline_map` and `depth` are put back -/
def complexEntryDone (s0 sv : St) : St :=
  { sv with currentMapDepth := s0.currentMapDepth, pendingInlineMap := s0.pendingInlineMap, depth := s0.depth }

/-- `VariantFrame` -/
structure VariantFrame where
  prevMapDepth : Option (Option Nat) := none
  restoreShift : Option Int := none
  flow : Bool := false
  /-- `restore_layout`: `(depth, pending_inline_map)` before an explicit key `? Variant` / `: payload` -/
  restoreLayout : Option (Nat × Bool) := none
deriving Repr, DecidableEq

/-- `begin_variant_explicit(key, was_map_value, anchored_key_depth = None)`: the variant name is too long for
an implicit key: `? Variant`, and on the next line under it `: `, the payload laid out like the value of a
composite key -/
def beginVariantExplicit (o : Opts) (key : List Char) (wasMapValue : Bool) (s : St) : VariantFrame × St :=
  let (rs, keyDepth, s) : Option Int × Nat × St :=
    if wasMapValue then
      let s := { s with pendingSpaceAfterColon := false }
      let s := if !s.atLineStart then newline s else s
      (none, s.currentMapDepth.getD s.depth + 1, s)
    else if s.atLineStart then (none, s.depth, s)
    else match s.afterDashDepth with
      | some d => (some s.indentShift, d + 1, shiftForInlineNode o s)
      | none => (none, s.depth, s)
  let s := writeIndent o s keyDepth
  let s := s.write (['?', ' '] ++ key)
  let s := newline s
  let s := writeIndent o s keyDepth
  let s := s.write [':', ' ']
  ({ prevMapDepth := some s.currentMapDepth, restoreShift := rs, restoreLayout := some (s.depth, s.pendingInlineMap) },
   { s with currentMapDepth := some keyDepth, pendingInlineMap := true, afterDashDepth := some keyDepth, depth := keyDepth })

/-- `begin_variant(variant)`: the key `Variant:` for the position the variant is in -/
def beginVariant (o : Opts) (f : ScalarFns) (variant : List Char) (s : St) : VariantFrame × St :=
  if s.inFlow > 0 then
    let s := writeSpaceIfPending s
    let s := s.write ('{' :: plainOrQuoted o f variant ++ [':'])
    ({ flow := true }, { s with pendingSpaceAfterColon := true, atLineStart := false })
  else if (plainOrQuoted o f variant).length > maxImplicitKeyChars then
    beginVariantExplicit o (plainOrQuoted o f variant) s.pendingSpaceAfterColon s
  else if s.pendingSpaceAfterColon then
    let s := { s with pendingSpaceAfterColon := false }
    let s := if !s.atLineStart then newline s else s
    let base := s.currentMapDepth.getD s.depth
    let s := writeIndent o s (base + 1)
    let s := s.write (plainOrQuoted o f variant ++ [':'])
    let s := { s with pendingSpaceAfterColon := true, atLineStart := false, pendingInlineMap := false }
    ({ prevMapDepth := some s.currentMapDepth }, { s with currentMapDepth := some (base + 1) })
  else
    let inlineAfterDash := !s.atLineStart && s.afterDashDepth.isSome
    let s := indentIfLineStart o s
    let s := s.write (plainOrQuoted o f variant ++ [':'])
    let s := { s with pendingSpaceAfterColon := true, atLineStart := false, pendingInlineMap := false }
    let (prev, s) := match s.afterDashDepth with
      | some d => (some s.currentMapDepth, { s with afterDashDepth := none, currentMapDepth := some (d + 1) })
      | none => (none, s)
    if inlineAfterDash then
      ({ prevMapDepth := prev, restoreShift := some s.indentShift }, shiftForInlineNode o s)
    else ({ prevMapDepth := prev }, s)

/-- `end_variant(frame)` -/
def endVariant (fr : VariantFrame) (s : St) : St :=
  let s := match fr.prevMapDepth with
    | some p => { s with currentMapDepth := p }
    | none => s
  let s := match fr.restoreLayout with
    | some (d, pim) => { s with depth := d, pendingInlineMap := pim }
    | none => s
  let s := restoreShift fr.restoreShift s
  if fr.flow then s.write ['}'] else s

/-! ### the serializer proper -/

mutual
/-- `value.serialize(&mut *ser)` -/
def ser (o : Opts) (f : ScalarFns) : SVal → St → Except EmitErr St
  | .unit, s => .ok (serToken o "null".toList s)
  | .none, s => .ok (serToken o "null".toList s)
  | .bool b, s => .ok (serToken o (if b then "true".toList else "false".toList) s)
  | .int i, s => .ok (serToken o (intText i) s)
  | .str v, s => .ok (serStr o f v s)
  | .some v, s => ser o f v s
  | .newtypeStruct v, s => ser o f v s
  -- `serialize_unit_variant`
  | .unitVariant enumName variant, s =>
    if o.taggedEnums then .ok (serTaggedScalar o f enumName variant (writeSpaceIfPending s))
    else .ok (serStr o f variant s)
  -- `serialize_newtype_struct` with the reserved names
  | .flowSeq v, s => ser o f v { s with pendingFlow := some .anySeq }
  | .flowMap v, s => ser o f v { s with pendingFlow := some .anyMap }
  | .litStr v, s => .ok (serStr o f v { s with pendingStrStyle := some .literal })
  | .foldStr v, s =>
    let isMultiline := v.contains '\n'
    if !isMultiline && (utf8Bytes v).length < o.minFoldChars then .ok (serStr o f v s)
    else .ok (serStr o f v { s with pendingStrStyle := some .folded })
  | .spaceAfter v, s =>
    match ser o f v s with
    | .error e => .error e
    | .ok s => .ok (if s.inFlow == 0 then newline s else s)
  -- `serialize_tuple_struct("__yaml_commented", 2)` + `TupleSer` of kind `Commented`
  | .commented v c, s =>
    if s.inFlow == 0 then
      let s := if !c.isEmpty then { s with pendingInlineComment := some (sanitizeComment c) } else s
      match ser o f v s with
      | .error e => .error e
      | .ok s => .ok { s with pendingInlineComment := none }
    else ser o f v s
  -- `serialize_newtype_variant`
  | .newtypeVariant variant v, s =>
    let (fr, s) := beginVariant o f variant s
    match ser o f v s with
    | .error e => .error e
    | .ok s => .ok (endVariant fr s)
  -- `serialize_seq` / `serialize_tuple`
  | .seq items, s =>
    let (q, s) := serializeSeq o s
    match serSeqElems o f q items s with
    | .error e => .error e
    | .ok (q, s) => .ok (seqEnd o q s)
  | .tuple items, s =>
    let (q, s) := serializeSeq o s
    match serSeqElems o f q items s with
    | .error e => .error e
    | .ok (q, s) => .ok (seqEnd o q s)
  -- `serialize_tuple_struct` (ordinary name) + `TupleSer` of kind `Normal`: `serialize_seq`, a
  -- `SeqSer` with `first: idx == 0` per field, `SeqSer::finish`
  | .tupleStruct items, s =>
    let (q, s) := serializeSeq o s
    match serSeqElems o f q items s with
    | .error e => .error e
    | .ok (q, s) => .ok (seqEnd o q s)
  -- `serialize_tuple_variant` + `TupleVariantSer`: `begin_variant`, `serialize_seq`, …, `end_variant`
  | .tupleVariant variant items, s =>
    let (fr, s) := beginVariant o f variant s
    let (q, s) := serializeSeq o s
    match serSeqElems o f q items s with
    | .error e => .error e
    | .ok (q, s) => .ok (endVariant fr (seqEnd o q s))
  -- `serialize_map` / `serialize_struct` + `MapSer`
  | .map lenKnown entries, s =>
    let (m, s) := serializeMap o (if lenKnown then some entries.length else none) s
    match serMapEntries o f m entries s with
    | .error e => .error e
    | .ok (m, s) => .ok (mapEnd o m s)
  -- `serialize_struct_variant` + `StructVariantSer`: `begin_variant`, `serialize_map(Some(n))`, …,
  -- `end_variant`
  | .structVariant variant fields, s =>
    let (fr, s) := beginVariant o f variant s
    let (m, s) := serializeMap o (some fields.length) s
    match serMapEntries o f m fields s with
    | .error e => .error e
    | .ok (m, s) => .ok (endVariant fr (mapEnd o m s))

/-- `SeqSer::serialize_element` for every element; returns the final `SeqSer` (its `first` flag) -/
def serSeqElems (o : Opts) (f : ScalarFns) (q : SeqSer) : List SVal → St → Except EmitErr (SeqSer × St)
  | [], s => .ok (q, s)
  | v :: rest, s =>
    if q.flow then
      let s := if !q.first then s.write [',', ' '] else s
      -- `with_in_flow`
      match ser o f v { s with inFlow := s.inFlow + 1 } with
      | .error e => .error e
      | .ok s => serSeqElems o f { q with first := false } rest { s with inFlow := s.inFlow - 1 }
    else
      match ser o f v (seqElemPrefix o q s) with
      | .error e => .error e
      | .ok s => serSeqElems o f { q with first := false } rest s

/-- `MapSer::serialize_key` + `MapSer::serialize_value` for every entry -/
def serMapEntries (o : Opts) (f : ScalarFns) (m : MapSer) :
    List (SVal × SVal) → St → Except EmitErr (MapSer × St)
  | [], s => .ok (m, s)
  | (k, v) :: rest, s =>
    if m.flow then
      let s := if !m.first then s.write [',', ' '] else s
      match keyText o f k with
      | none => .error .nonScalarKey
      | some text =>
        let s := { s.write (text ++ [':', ' ']) with atLineStart := false }
        let m := { m with lastKeyComplex := false }
        match ser o f v { s with inFlow := s.inFlow + 1 } with
        | .error e => .error e
        | .ok s => serMapEntries o f { m with first := false } rest { s with inFlow := s.inFlow - 1 }
    else
      let (m, s) := mapKeyPrefix m s
      match keyText o f k with
      | some text =>
        -- scalar key
        if text.length > maxImplicitKeyChars then
          -- too long for an implicit key: `? key`, then `MapSer::serialize_value` with `last_key_complex`
          let s0 := longKeyLine o m text s
          match ser o f v (explicitValueCtx o m s0) with
          | .error e => .error e
          | .ok sv =>
            serMapEntries o f { m with first := false, lastKeyComplex := false } rest (complexEntryDone s0 sv)
        else
        let s := mapIndent o m s
        let s := s.write (text ++ [':'])
        let s := { s with pendingSpaceAfterColon := true, atLineStart := false }
        let m := { m with lastKeyComplex := false }
        -- `serialize_value`
        let savedPim := s.pendingInlineMap
        let prev := s.currentMapDepth
        match ser o f v { s with currentMapDepth := some m.depth } with
        | .error e => .error e
        | .ok s =>
          serMapEntries o f { m with first := false } rest
            { s with currentMapDepth := prev, pendingInlineMap := savedPim }
      | none =>
        -- complex key: `? key`, then `MapSer::serialize_value` with `last_key_complex`
        let s0 := complexKeyMark o m s
        match ser o f k (complexKeyCtx m s0) with
        | .error e => .error e
        | .ok sk =>
          match ser o f v (complexValueCtx o m s0 sk) with
          | .error e => .error e
          | .ok sv =>
            serMapEntries o f { m with first := false, lastKeyComplex := false } rest (complexEntryDone s0 sv)
end

/-- `to_string_with_options(value, options)`: `SerializerOptions::consistent`, then
`value.serialize(&mut YamlSerializer::with_options(..))` -/
def emit (o : Opts) (f : ScalarFns) (v : SVal) : Except EmitErr (List Char) :=
  if o.indentStep == 0 then .error .invalidOptions
  else match ser o f v {} with
    | .error e => .error e
    | .ok s => .ok s.out

end SaphyrVerif.Emit
