/-!
IEEE-754 binary floating point (binary64 / binary32) WITHOUT Lean's opaque `Float`.

A value is `nan | inf sign | fin sign m e` with `fin s m e = (-1)^s · m · 2^e`.  Every operation is
"exact rational result, then one correct rounding (round-to-nearest, ties-to-even)", implemented with
integer arithmetic only (`Nat`/`Int`, `Nat.log2`, `/`, `%`).  NaN has a single representative
(payload and sign of NaN are not modelled; the differential canonicalises NaN bit patterns).

This file is import-free and executable; it is validated against the hardware by the `robotics`
differential (random bit patterns, boundary cases, subnormals) on every check run.
-/
namespace SaphyrVerif.F64

/-- A binary interchange format: `prec` significand bits (including the hidden bit), `ebits` exponent
field width, `emin` = exponent of the least significant bit of subnormals, `emax` = largest exponent
of the least significant bit of a finite number. -/
structure Fmt where
  prec : Nat
  ebits : Nat
  emin : Int
  emax : Int
deriving DecidableEq, Repr

def binary64 : Fmt := ⟨53, 11, -1074, 971⟩
def binary32 : Fmt := ⟨24, 8, -149, 104⟩

inductive Fl where
  | nan
  | inf (neg : Bool)
  | fin (neg : Bool) (m : Nat) (e : Int)
deriving DecidableEq, Repr, Inhabited

/-- `num/den · 2^e` as a fraction of naturals. -/
def scale (num den : Nat) (e : Int) : Nat × Nat :=
  if 0 ≤ e then (num * 2 ^ e.toNat, den) else (num, den * 2 ^ (-e).toNat)

/-- `⌊log2 (num/den)⌋` for `num, den > 0`. -/
def ilog2 (num den : Nat) : Int :=
  let k : Int := (num.log2 : Int) - (den.log2 : Int)   -- 2^(k-1) < num/den < 2^(k+1)
  let nd := scale num den (-k)
  if nd.2 ≤ nd.1 then k else k - 1

/-- `q + r/d` rounded to an integer, ties to even (`r < d`). -/
def roundEven (q r d : Nat) : Nat :=
  if 2 * r < d then q else if d < 2 * r then q + 1 else if q % 2 == 0 then q else q + 1

/-- Correct rounding (nearest, ties to even) of the exact rational `(-1)^neg · num/den` (`den > 0`)
to format `f`, with gradual underflow and overflow to infinity. -/
def round (f : Fmt) (neg : Bool) (num den : Nat) : Fl :=
  if num == 0 then .fin neg 0 f.emin else
  let e0 : Int := ilog2 num den - ((f.prec - 1 : Nat) : Int)
  let e : Int := if e0 < f.emin then f.emin else e0
  let nd := scale num den (-e)
  let m := roundEven (nd.1 / nd.2) (nd.1 % nd.2) nd.2
  let m' := if m == 2 ^ f.prec then 2 ^ (f.prec - 1) else m
  let e' := if m == 2 ^ f.prec then e + 1 else e
  if f.emax < e' then .inf neg else .fin neg m' e'

def zero (f : Fmt) (neg : Bool) : Fl := .fin neg 0 f.emin

/-- the exactly representable natural `n` (rounded if it is not representable) -/
def ofNat (f : Fmt) (n : Nat) : Fl := round f false n 1

def neg : Fl → Fl
  | .nan => .nan
  | .inf s => .inf (!s)
  | .fin s m e => .fin (!s) m e

def isNan : Fl → Bool
  | .nan => true
  | _ => false

def isFinite : Fl → Bool
  | .fin _ _ _ => true
  | _ => false

def sInt (neg : Bool) (m : Nat) : Int := if neg then - (m : Int) else (m : Int)

def add (f : Fmt) : Fl → Fl → Fl
  | .nan, _ => .nan
  | _, .nan => .nan
  | .inf a, .inf b => if a == b then .inf a else .nan
  | .inf a, .fin _ _ _ => .inf a
  | .fin _ _ _, .inf b => .inf b
  | .fin s1 m1 e1, .fin s2 m2 e2 =>
    let e : Int := if e1 ≤ e2 then e1 else e2
    let t : Int := sInt s1 (m1 * 2 ^ (e1 - e).toNat) + sInt s2 (m2 * 2 ^ (e2 - e).toNat)
    if t == 0 then .fin (s1 && s2) 0 f.emin
    else
      let nd := scale t.natAbs 1 e
      round f (decide (t < 0)) nd.1 nd.2

def sub (f : Fmt) (a b : Fl) : Fl := add f a (neg b)

def mul (f : Fmt) : Fl → Fl → Fl
  | .nan, _ => .nan
  | _, .nan => .nan
  | .inf a, .inf b => .inf (a != b)
  | .inf a, .fin s m _ => if m == 0 then .nan else .inf (a != s)
  | .fin s m _, .inf b => if m == 0 then .nan else .inf (s != b)
  | .fin s1 m1 e1, .fin s2 m2 e2 =>
    let nd := scale (m1 * m2) 1 (e1 + e2)
    round f (s1 != s2) nd.1 nd.2

def div (f : Fmt) : Fl → Fl → Fl
  | .nan, _ => .nan
  | _, .nan => .nan
  | .inf _, .inf _ => .nan
  | .inf a, .fin s _ _ => .inf (a != s)
  | .fin s _ _, .inf b => .fin (s != b) 0 f.emin
  | .fin s1 m1 e1, .fin s2 m2 e2 =>
    if m2 == 0 then (if m1 == 0 then .nan else .inf (s1 != s2))
    else
      let nd := scale m1 m2 (e1 - e2)
      round f (s1 != s2) nd.1 nd.2

/-- `f64 as f32` / any format change: one correct rounding of the exact value. -/
def convert (f : Fmt) : Fl → Fl
  | .nan => .nan
  | .inf s => .inf s
  | .fin s m e => let nd := scale m 1 e; round f s nd.1 nd.2

/-- `a > b` of IEEE (false when unordered). -/
def gt : Fl → Fl → Bool
  | .nan, _ => false
  | _, .nan => false
  | .inf a, .inf b => !a && b
  | .inf a, .fin _ _ _ => !a
  | .fin _ _ _, .inf b => b
  | .fin s1 m1 e1, .fin s2 m2 e2 =>
    let e : Int := if e1 ≤ e2 then e1 else e2
    decide (sInt s2 (m2 * 2 ^ (e2 - e).toNat) < sInt s1 (m1 * 2 ^ (e1 - e).toNat))

/-- Rust `f64 as u32` (saturating, NaN ↦ 0). -/
def toU32 : Fl → Nat
  | .nan => 0
  | .inf s => if s then 0 else 4294967295
  | .fin s m e =>
    if s then 0 else
      let v := if 0 ≤ e then m * 2 ^ e.toNat else m / 2 ^ (-e).toNat
      if 4294967295 < v then 4294967295 else v

/-! ## bit patterns -/

def width (f : Fmt) : Nat := f.ebits + f.prec

/-- Bit pattern of a value (NaN ↦ the canonical quiet NaN). Meaningful for well-formed values. -/
def toBits (f : Fmt) : Fl → Nat
  | .nan => (2 ^ f.ebits - 1) * 2 ^ (f.prec - 1) + 2 ^ (f.prec - 2)
  | .inf s => (if s then 2 ^ (width f - 1) else 0) + (2 ^ f.ebits - 1) * 2 ^ (f.prec - 1)
  | .fin s m e =>
    (if s then 2 ^ (width f - 1) else 0) +
      (if m < 2 ^ (f.prec - 1) then m
       else ((e - f.emin).toNat + 1) * 2 ^ (f.prec - 1) + (m - 2 ^ (f.prec - 1)))

def ofBits (f : Fmt) (bits : Nat) : Fl :=
  let s := decide (bits / 2 ^ (width f - 1) % 2 = 1)
  let ex := bits / 2 ^ (f.prec - 1) % 2 ^ f.ebits
  let frac := bits % 2 ^ (f.prec - 1)
  if ex == 2 ^ f.ebits - 1 then (if frac == 0 then .inf s else .nan)
  else if ex == 0 then .fin s frac f.emin
  else .fin s (2 ^ (f.prec - 1) + frac) (f.emin + (ex : Int) - 1)

/-- Well-formed (canonical) values of format `f`. -/
def WF (f : Fmt) : Fl → Prop
  | .nan => True
  | .inf _ => True
  | .fin _ m e => m < 2 ^ f.prec ∧ f.emin ≤ e ∧ e ≤ f.emax ∧ (2 ^ (f.prec - 1) ≤ m ∨ e = f.emin)

/-! ## decimal literals (the contract assumed of Rust's `str::parse::<f64/f32>`) -/

def isDigit (c : Nat) : Bool := 48 ≤ c && c ≤ 57

def digitsVal : List Nat → Nat → Nat
  | [], acc => acc
  | c :: cs, acc => digitsVal cs (acc * 10 + (c - 48))

/-- split a maximal run of ASCII digits off the front -/
def spanDigits : List Nat → List Nat × List Nat
  | [] => ([], [])
  | c :: cs => if isDigit c then let r := spanDigits cs; (c :: r.1, r.2) else ([], c :: cs)

/-- Correctly rounded value of `mant · 10^(exp10)`; `nd` = number of mantissa digits (used only to
saturate absurd exponents: beyond ±(nd + 400) the result is already decided — 0 or ∞ — so the
exponent is clamped, which keeps the big-number arithmetic bounded). -/
def decRound (f : Fmt) (neg : Bool) (mant : Nat) (nd : Nat) (exp10 : Int) : Fl :=
  let hi : Int := 400
  let lo : Int := - ((nd : Int) + 400)
  let x : Int := if hi < exp10 then hi else if exp10 < lo then lo else exp10
  if 0 ≤ x then round f neg (mant * 10 ^ x.toNat) 1 else round f neg mant (10 ^ (-x).toNat)

def lowerByte (c : Nat) : Nat := if 65 ≤ c && c ≤ 90 then c + 32 else c

/-- optional `'.' digits*` : (fraction digits, rest) -/
def spanFrac : List Nat → List Nat × List Nat
  | 46 :: r => spanDigits r
  | r => ([], r)

/-- optional sign of the exponent: (negative?, rest) -/
def expSign : List Nat → Bool × List Nat
  | 45 :: r => (true, r)
  | 43 :: r => (false, r)
  | r => (false, r)

/-- the exponent part `(e|E) [+-] digits+` up to the end of the text (absent = 0); `none` = malformed -/
def parseExp : List Nat → Option Int
  | [] => some 0
  | c :: r =>
    if c == 101 || c == 69 then
      let sr := expSign r
      let ed := spanDigits sr.2
      if ed.1.isEmpty || !ed.2.isEmpty then none
      else
        let ev : Int := (digitsVal ed.1 0 : Nat)
        some (if sr.1 then -ev else ev)
    else none

/-- `core::num::dec2flt::parse::parse_number` on the text after the sign:
`digits [ '.' digits ] [ (e|E) [+-] digits ]`, at least one mantissa digit, at least one exponent digit,
whole input consumed.  Result: (mantissa, number of mantissa digits, decimal exponent). -/
def parseDecimal (s : List Nat) : Option (Nat × Nat × Int) :=
  let a := spanDigits s
  let b := spanFrac a.2
  if a.1.length + b.1.length == 0 then none else
  match parseExp b.2 with
  | none => none
  | some x => some (digitsVal b.1 (digitsVal a.1 0), a.1.length + b.1.length, x - (b.1.length : Int))

/-- Rust `<f64|f32 as FromStr>::from_str` on the UTF-8 bytes of the text: optional sign, then
`inf` / `infinity` / `nan` (ASCII case-insensitive) or a decimal number; `none` = `ParseFloatError`. -/
def fromStr (f : Fmt) (s : List Nat) : Option Fl :=
  match s with
  | [] => none
  | c :: r =>
    let negative := c == 45
    let body := if c == 45 || c == 43 then r else s
    if body.isEmpty then none else
    match parseDecimal body with
    | some (mant, nd, x) => some (decRound f negative mant nd x)
    | none =>
      let l := body.map lowerByte
      if l == [110, 97, 110] then some .nan
      else if l == [105, 110, 102] || l == [105, 110, 102, 105, 110, 105, 116, 121] then some (.inf negative)
      else none

end SaphyrVerif.F64
