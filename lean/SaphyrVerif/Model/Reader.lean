import SaphyrVerif.Gen.Tables
/-!
Model of the reader glue: `src/buffered_input.rs::ChunkedChars` (bytes → chars, one code point per
`next`, byte cap, shared error cell) and `src/ring_reader.rs::RingReader` (pass-through reader with
a recent-bytes window and bounded read-ahead).

Bytes are `Nat` (< 256 on every real input).  The underlying `std::io::Read` is an environment, not
code of the crate: it is a *schedule* — the list of results its `read` calls will deliver: `data bs`
(the next bytes it has; a call asking for `n` bytes gets `min n bs.length` of them and the rest stays
at the head, so a schedule of `data` items is exactly a partition of the stream into read results) or
`fail k` (one failing call with `io::ErrorKind` code `k`).  `data []` is a call returning `Ok(0)`;
an exhausted schedule returns `Ok(0)` forever.  Import-free (core only) so the driver links.
-/
namespace SaphyrVerif.Reader

/-- `io::ErrorKind` codes, the same as `verif_hooks::reader::kind_code`. -/
abbrev IoKind := Nat
def kOther : IoKind := 0
def kUnexpectedEof : IoKind := 1
def kInterrupted : IoKind := 2
def kInvalidData : IoKind := 3
def kFileTooLarge : IoKind := 4

inductive RItem where
  | data (bs : List Nat)
  | fail (kind : IoKind)
deriving Repr, DecidableEq, Inhabited

abbrev Sched := List RItem

inductive ReadRes where
  | ok (bs : List Nat)
  | err (kind : IoKind)
deriving Repr, DecidableEq

/-- one `read(&mut buf[..n])` -/
def readCall (n : Nat) : Sched → ReadRes × Sched
  | [] => (.ok [], [])
  | .data bs :: rest =>
    if bs.length ≤ n then (.ok bs, rest) else (.ok (bs.take n), .data (bs.drop n) :: rest)
  | .fail k :: rest => (.err k, rest)

/-- all bytes a schedule will ever deliver -/
def flat : Sched → List Nat
  | [] => []
  | .data bs :: rest => bs ++ flat rest
  | .fail _ :: rest => flat rest

/-- a fault-free schedule of non-empty read results: a partition of the stream into `read` results -/
def chunked : Sched → Bool
  | [] => true
  | .data bs :: rest => !bs.isEmpty && chunked rest
  | .fail _ :: _ => false

/-! ## ChunkedChars -/

inductive Read1 where
  | byte (b : Nat)
  /-- `Ok(0)`: true end of input -/
  | eof
  | err (kind : IoKind)
deriving Repr, DecidableEq

/-- the first byte of a character:
`loop { match reader.read(&mut buf[..1]) { Ok(0) => return None, Ok(_) => break,
Err(e) if e.kind() == Interrupted => continue, Err(e) => { record; return None } } }`
(since fix 2f20266; before it `read_exact` made a reader's own `Err(UnexpectedEof)` look like `Ok(0)`). -/
def readFirst : Sched → Read1 × Sched
  | [] => (.eof, [])
  | .data [] :: rest => (.eof, rest)
  | .data [b] :: rest => (.byte b, rest)
  | .data (b :: b' :: bs) :: rest => (.byte b, .data (b' :: bs) :: rest)
  | .fail k :: rest => if k == kInterrupted then readFirst rest else (.err k, rest)

/-- number of bytes of the sequence announced by the leading byte (the bit tests of the Rust code) -/
def needed (first : Nat) : Option Nat :=
  if first < 0x80 then some 1
  else if first &&& 0xE0 == 0xC0 then some 2
  else if first &&& 0xF0 == 0xE0 then some 3
  else if first &&& 0xF8 == 0xF0 then some 4
  else none

inductive ContRes where
  /-- all continuation bytes arrived -/
  | done (got : List Nat)
  /-- `Ok(0)` inside the code point -/
  | eof (got : List Nat)
  /-- `Err(e)` inside the code point (not retried, even for `Interrupted`) -/
  | err (kind : IoKind) (got : List Nat)
deriving Repr, DecidableEq

/-- `while read < needed - 1 { reader.read(&mut buf[1 + read..needed]) … }`; `rem = needed - 1 - read`.
Every iteration that continues has received at least one byte, so `fuel = rem` iterations suffice
(structural recursion on the fuel; `contLoop` starts it with `fuel = rem`). -/
def contLoopF : (fuel rem : Nat) → (acc : List Nat) → Sched → ContRes × Sched
  | 0, _, acc, s => (.done acc, s)
  | fuel + 1, rem, acc, s =>
    if rem == 0 then (.done acc, s)
    else
      match readCall rem s with
      | (.err k, s') => (.err k acc, s')
      | (.ok [], s') => (.eof acc, s')
      | (.ok (b :: bs), s') => contLoopF fuel (rem - (bs.length + 1)) (acc ++ b :: bs) s'

def contLoop (rem : Nat) (acc : List Nat) (s : Sched) : ContRes × Sched := contLoopF rem rem acc s

def isCont (b : Nat) : Bool := 0x80 ≤ b && b ≤ 0xBF

/-- `std::str::from_utf8(&buf[..needed])` followed by `chars().next()` on a buffer whose length was
chosen from the leading byte: the validation table of `core::str::validations::run_utf8_validation`
(well-formed sequences of Unicode Table 3-7).  `none` = `Err(Utf8Error)`. -/
def decode1 : List Nat → Option Char
  | [b0] => if b0 < 0x80 then some (Char.ofNat b0) else none
  | [b0, b1] =>
    if 0xC2 ≤ b0 && b0 ≤ 0xDF && isCont b1 then some (Char.ofNat ((b0 - 0xC0) * 64 + (b1 - 0x80))) else none
  | [b0, b1, b2] =>
    let second :=
      (b0 == 0xE0 && 0xA0 ≤ b1 && b1 ≤ 0xBF) ||
      (0xE1 ≤ b0 && b0 ≤ 0xEC && isCont b1) ||
      (b0 == 0xED && 0x80 ≤ b1 && b1 ≤ 0x9F) ||
      (0xEE ≤ b0 && b0 ≤ 0xEF && isCont b1)
    if second && isCont b2 then some (Char.ofNat ((b0 - 0xE0) * 4096 + (b1 - 0x80) * 64 + (b2 - 0x80))) else none
  | [b0, b1, b2, b3] =>
    let second :=
      (b0 == 0xF0 && 0x90 ≤ b1 && b1 ≤ 0xBF) ||
      (0xF1 ≤ b0 && b0 ≤ 0xF3 && isCont b1) ||
      (b0 == 0xF4 && 0x80 ≤ b1 && b1 ≤ 0x8F)
    if second && isCont b2 && isCont b3 then
      some (Char.ofNat ((b0 - 0xF0) * 262144 + (b1 - 0x80) * 4096 + (b2 - 0x80) * 64 + (b3 - 0x80)))
    else none
  | _ => none

/-- `ChunkedChars` (the reader is its schedule; `cell` is the shared `Rc<RefCell<Option<Error>>>`,
reduced to the error kind; `pulled` is a ghost counter of the bytes obtained from the reader).
`total_bytes` is an unbounded `Nat`: the `saturating_add` on `usize` cannot saturate on a stream
shorter than 2^64 bytes. -/
structure CC where
  maxBytes : Option Nat := none
  totalBytes : Nat := 0
  reader : Sched
  cell : Option IoKind := none
  pulled : Nat := 0
  /-- `at_line_start`: true until the first character of the current line has been yielded -/
  atLineStart : Bool := true
  /-- `in_directive_line`: the current line began with `%` at column 0 -/
  inDirectiveLine : Bool := false
deriving Repr, DecidableEq

/-- `ChunkedChars::next_char` (the body of `next` before fix bfd6267): one code point from the reader, or
`None` on end of input, I/O error, malformed sequence or size cap.  Does not touch the line flags. -/
def nextChar (cc : CC) : Option Char × CC :=
  match readFirst cc.reader with
  | (.eof, r) => (none, { cc with reader := r })                          -- true EOF
  | (.err k, r) => (none, { cc with reader := r, cell := some k })
  | (.byte first, r) =>
    let cc := { cc with reader := r, pulled := cc.pulled + 1 }
    match needed first with
    | none => (none, { cc with cell := some kInvalidData })               -- invalid leading byte
    | some n =>
      match contLoop (n - 1) [] cc.reader with
      | (.eof got, r) =>
        (none, { cc with reader := r, pulled := cc.pulled + got.length, cell := some kUnexpectedEof })
      | (.err k got, r) =>
        (none, { cc with reader := r, pulled := cc.pulled + got.length, cell := some k })
      | (.done got, r) =>
        let cc := { cc with reader := r, pulled := cc.pulled + got.length }
        -- byte limit, checked before the bytes are validated
        let capped : Option CC :=
          match cc.maxBytes with
          | some limit =>
            if cc.totalBytes + n > limit then none else some { cc with totalBytes := cc.totalBytes + n }
          | none => some { cc with totalBytes := cc.totalBytes + n }
        match capped with
        | none => (none, { cc with cell := some kFileTooLarge })
        | some cc =>
          match decode1 (first :: got) with
          | some c => (some c, cc)
          | none => (none, { cc with cell := some kInvalidData })

/-- the bookkeeping `next` does for a yielded character: the first character of a line that is not a
U+FEFF decides whether the line is a directive line; `\n` / `\r` start a new line -/
def noteChar (cc : CC) (c : Char) : CC :=
  let cc := if cc.atLineStart && c != Char.ofNat 0xFEFF then
      { cc with inDirectiveLine := c == '%', atLineStart := false } else cc
  if c == '\n' || c == '\r' then { cc with atLineStart := true, inDirectiveLine := false } else cc

/-- `ChunkedChars::next` (fix bfd6267): when `next_char` reports the end (EOF, I/O error, size cap) inside a
line that began with `%`, ONE synthetic line break is yielded before `None` — the scanner would otherwise
never return on the NUL padding of `BufferedInput` inside a directive. -/
def next (cc : CC) : Option Char × CC :=
  match nextChar cc with
  | (some c, cc) => (some c, noteChar cc c)
  | (none, cc) =>
    if cc.inDirectiveLine then (some '\n', { cc with inDirectiveLine := false, atLineStart := true })
    else (none, cc)

/-- number of bytes a schedule still holds -/
def Sched.bytes (s : Sched) : Nat := (flat s).length

/-- characters produced up to the first `None` (what a consumer sees that stops at end of input) -/
def collect : Nat → CC → List Char × CC
  | 0, cc => ([], cc)
  | fuel + 1, cc =>
    match next cc with
    | (none, cc') => ([], cc')
    | (some c, cc') =>
      let (cs, cc'') := collect fuel cc'
      (c :: cs, cc'')

/-- every real character consumes at least one byte and every synthetic break needs a `%` consumed since
the previous one, so `2 * bytes + 2` calls reach the first `None` -/
def collectAll (cc : CC) : List Char × CC := collect (2 * Sched.bytes cc.reader + 2) cc

/-- the hook's driving loop (`verif_hooks::reader::chunked_chars_run`): call `next` until `maxNone`
calls returned `None` or `maxCalls` calls were made; the cell is taken after every call -/
def runSteps : (maxCalls : Nat) → (maxNone : Nat) → CC → List (Option Char × Option IoKind) × CC
  | 0, _, cc => ([], cc)
  | _, 0, cc => ([], cc)
  | calls + 1, nones + 1, cc =>
    let (ch, cc') := next cc
    let e := cc'.cell
    let cc' := { cc' with cell := none }
    let (rest, cc'') := runSteps calls (if ch.isNone then nones else nones + 1) cc'
    ((ch, e) :: rest, cc'')

/-! ## RingReader -/

/-- `FixedRingBuffer<N>::push_back`: overwrites the oldest element when full -/
def pushBackN (n : Nat) (l : List Nat) (b : Nat) : List Nat :=
  if l.length == n then l.drop 1 ++ [b] else l ++ [b]

structure Ring where
  /-- `RING_BUFFER_SIZE` -/
  cap : Nat := Gen.ringBufferSize
  /-- `MAX_READ_AHEAD` -/
  ahead : Nat := Gen.maxReadAhead
  inner : Sched
  /-- `ring` oldest → newest -/
  ring : List Nat := []
  ringStartOffset : Nat := 0
  ringStartLine : Nat := 1
  stash : List Nat := []
  returnedTotal : Nat := 0
  /-- ghost: every byte handed to the consumer by `read`, in order -/
  out : List Nat := []
  /-- ghost: every byte obtained from `inner`, in order -/
  pulledBytes : List Nat := []
deriving Repr, DecidableEq

/-- `push_ring_bytes` -/
def pushRingBytes (r : Ring) : List Nat → Nat → Ring
  | [], _ => r
  | b :: bs, off =>
    let r := if r.ring.isEmpty then { r with ringStartOffset := off } else r
    let r :=
      if r.ring.length == r.cap then
        match r.ring with
        | [] => { r with ringStartOffset := r.ringStartOffset + 1 }   -- `pop_front` of an empty ring (cap = 0)
        | e :: ring' =>
          { r with ring := ring', ringStartOffset := r.ringStartOffset + 1,
                   ringStartLine := if e == 0x0A then r.ringStartLine + 1 else r.ringStartLine }
      else r
    pushRingBytes { r with ring := pushBackN r.cap r.ring b } bs (off + 1)

/-- `Read for RingReader`: result and new state -/
def Ring.read (r : Ring) (n : Nat) : ReadRes × Ring :=
  if n == 0 then (.ok [], r)
  else if !r.stash.isEmpty then
    let got := r.stash.take n
    (.ok got, { r with stash := r.stash.drop n, returnedTotal := r.returnedTotal + got.length, out := r.out ++ got })
  else
    match readCall n r.inner with
    | (.err k, s) => (.err k, { r with inner := s })
    | (.ok [], s) => (.ok [], { r with inner := s })
    | (.ok chunk, s) =>
      let r := { r with inner := s, pulledBytes := r.pulledBytes ++ chunk }
      let r := pushRingBytes r chunk r.returnedTotal
      (.ok chunk, { r with returnedTotal := r.returnedTotal + chunk.length, out := r.out ++ chunk })

def SCRATCH : Nat := 8192

def stashAll (n : Nat) : List Nat → List Nat → List Nat
  | st, [] => st
  | st, b :: bs => stashAll n (pushBackN n st b) bs

/-- `read_ahead_at_most`; `some k` = the `?` on `inner.read` returned the error.  Every iteration that
continues has received at least one byte, so `fuel = remaining` iterations suffice. -/
def readAheadF : (fuel : Nat) → Ring → (remaining : Nat) → Option IoKind × Ring
  | 0, r, _ => (none, r)
  | fuel + 1, r, remaining =>
    if remaining == 0 then (none, r)
    else
      let want := min remaining SCRATCH
      match readCall want r.inner with
      | (.err k, s) => (some k, { r with inner := s })
      | (.ok [], s) => (none, { r with inner := s })
      | (.ok (b :: bs), s) =>
        let chunk := b :: bs
        let absStart := r.returnedTotal + r.stash.length
        let r := { r with inner := s, pulledBytes := r.pulledBytes ++ chunk, stash := stashAll r.ahead r.stash chunk }
        let r := pushRingBytes r chunk absStart
        readAheadF fuel r (remaining - chunk.length)

def readAheadAtMost (r : Ring) (remaining : Nat) : Option IoKind × Ring := readAheadF remaining r remaining

/-- `utf8_expected_len` -/
def utf8ExpectedLen (lead : Nat) : Option Nat :=
  if lead ≤ 0x7F then some 1
  else if 0xC2 ≤ lead && lead ≤ 0xDF then some 2
  else if 0xE0 ≤ lead && lead ≤ 0xEF then some 3
  else if 0xF0 ≤ lead && lead ≤ 0xF4 then some 4
  else none

def isUtf8Continuation (b : Nat) : Bool := b &&& 0xC0 == 0x80

/-- trailing continuation bytes counted by the inner `while i > 0 && cont < 3` loop, on the reversed
list: returns (`cont`, the reversed prefix `bytes[..i]`) -/
def countCont : Nat → List Nat → Nat × List Nat
  | 3, rev => (3, rev)
  | c, [] => (c, [])
  | c, b :: rev => if isUtf8Continuation b then countCont (c + 1) rev else (c, b :: rev)

/-- `trim_incomplete_utf8_tail` on the reversed byte list (fuel = length: every `continue` truncates) -/
def trimTailRev : Nat → List Nat → List Nat
  | 0, rev => rev
  | fuel + 1, rev =>
    match rev with
    | [] => []
    | _ =>
      match countCont 0 rev with
      | (_, []) => []                                   -- `i == 0`: clear
      | (cont, lead :: before) =>
        match utf8ExpectedLen lead with
        | none => rev
        | some expected =>
          if cont + 1 < expected then trimTailRev fuel before else rev

def trimIncompleteUtf8Tail (bs : List Nat) : List Nat := (trimTailRev bs.length bs.reverse).reverse

/-- leading continuation bytes dropped by `trim_to_utf8_boundaries_with_line` -/
def leadingCont : List Nat → Nat
  | [] => 0
  | b :: bs => if isUtf8Continuation b then leadingCont bs + 1 else 0

structure Snap where
  startOffset : Nat
  endOffset : Nat
  startLine : Nat
  bytes : List Nat
deriving Repr, DecidableEq

/-- `trim_to_utf8_boundaries_with_line` (a continuation byte is never `\n`, so the line is unchanged) -/
def trimSnapshot (startOffset startLine : Nat) (bytes : List Nat) : Nat × Nat × List Nat :=
  if bytes.isEmpty then (startOffset, startLine, bytes)
  else
    let cut := leadingCont bytes
    (startOffset + cut, startLine, trimIncompleteUtf8Tail (bytes.drop cut))

/-- `get_recent` -/
def Ring.getRecent (r : Ring) : Except IoKind Snap × Ring :=
  let canReadMore := r.ahead - r.stash.length
  let (e, r) := if canReadMore > 0 then readAheadAtMost r canReadMore else (none, r)
  match e with
  | some k => (.error k, r)
  | none =>
    let (so, sl, bytes) :=
      if r.ring.isEmpty then (r.returnedTotal, r.ringStartLine, [])
      else (r.ringStartOffset, r.ringStartLine, r.ring)
    let (so, sl, bytes) := if bytes.isEmpty then (so, sl, bytes) else trimSnapshot so sl bytes
    (.ok { startOffset := so, endOffset := so + bytes.length, startLine := sl, bytes := bytes }, r)

inductive RingOp where
  | read (n : Nat)
  | recent
deriving Repr, DecidableEq

inductive RingOut where
  | read (r : ReadRes)
  | recent (r : Except IoKind Snap)

def Ring.step (r : Ring) : RingOp → RingOut × Ring
  | .read n => let (o, r) := r.read n; (.read o, r)
  | .recent => let (o, r) := r.getRecent; (.recent o, r)

def Ring.run (r : Ring) : List RingOp → List (RingOut × Ring)
  | [] => []
  | op :: ops => let (o, r') := r.step op; (o, r') :: Ring.run r' ops

/-- state after a sequence of operations -/
def Ring.after (r : Ring) : List RingOp → Ring
  | [] => r
  | op :: ops => Ring.after (r.step op).2 ops

/-! ## Text normalisation of the entry points (byte-order mark) -/

def BOM : Char := Char.ofNat 0xFEFF

/-- `str::strip_prefix('\u{FEFF}').unwrap_or(input)` -/
def stripBom : List Char → List Char
  | c :: cs => if c == BOM then cs else c :: cs
  | [] => []

/-- text the scanner sees on the `from_str` / `from_slice` path: `LiveEvents::from_str` strips one BOM; the
entry points themselves no longer strip another one (fix aed36af) -/
def strPathText (t : List Char) : List Char := stripBom t

/-- `with_deserializer_from_str_with_options`: `LiveEvents::from_str` only (fix aed36af) -/
def closureStrPathText (t : List Char) : List Char := stripBom t

/-- text the scanner sees on the reader path: the external `DecodeReaderBytes` removes one BOM
(contract, exercised at run time); `ChunkedChars` removes nothing -/
def readerPathText (t : List Char) : List Char := stripBom t

end SaphyrVerif.Reader
