/-!
Model of `src/base64.rs::decode_base64_yaml` over bytes (`List Nat`, every element < 256).
Bit operations of the Rust code are written arithmetically (`a << 18 | b << 12 | c << 6 | d` is a sum
because the four sextets do not overlap; `x & 0x0F` is `x % 16`); the correspondence run checks this.
All failures are the same error value (`InvalidBinaryBase64`), modelled as `none`.
-/
namespace SaphyrVerif.Base64

def isAsciiWhitespaceByte (b : Nat) : Bool :=
  b == 32 || b == 9 || b == 10 || b == 12 || b == 13

/-- `decode_val`. -/
def decodeVal (b : Nat) : Option Nat :=
  if 65 ≤ b && b ≤ 90 then some (b - 65)
  else if 97 ≤ b && b ≤ 122 then some (b - 97 + 26)
  else if 48 ≤ b && b ≤ 57 then some (b - 48 + 52)
  else if b == 43 then some 62
  else if b == 47 then some 63
  else none

/-- number of trailing `=` of a 4-byte chunk (`chunk.iter().rev().take_while(..).count()`). -/
def padOf (a b c d : Nat) : Nat :=
  if d == 61 then (if c == 61 then (if b == 61 then (if a == 61 then 4 else 3) else 2) else 1) else 0

/-- body of the `for` loop for one chunk; `isLast` = `idx + 1 == total_chunks`. -/
def decodeChunk (a b c d : Nat) (isLast : Bool) : Option (List Nat) :=
  let pad := padOf a b c d
  if pad > 0 && !isLast then none else
  match decodeVal a with
  | none => none
  | some va =>
  match decodeVal b with
  | none => none
  | some vb =>
  let vc? : Option Nat := if c == 61 then (if pad < 2 then none else some 0) else decodeVal c
  match vc? with
  | none => none
  | some vc =>
  let vd? : Option Nat := if d == 61 then (if pad == 0 then none else some 0) else decodeVal d
  match vd? with
  | none => none
  | some vd =>
  if pad == 2 && vb % 16 != 0 then none
  else if pad == 1 && vc % 4 != 0 then none
  else
    let triple := va * 2 ^ 18 + vb * 2 ^ 12 + vc * 2 ^ 6 + vd
    let o1 := [(triple / 2 ^ 16) % 256]
    let o2 := if pad < 2 then o1 ++ [(triple / 2 ^ 8) % 256] else o1
    let o3 := if pad == 0 then o2 ++ [triple % 256] else o2
    if pad ≤ 2 then some o3 else none

/-- the loop over `chunks_exact(4)`, after the length check. -/
def decodeChunks : List Nat → Option (List Nat)
  | [] => some []
  | a :: b :: c :: d :: rest =>
    match decodeChunk a b c d rest.isEmpty with
    | none => none
    | some o =>
      match decodeChunks rest with
      | none => none
      | some r => some (o ++ r)
  | _ => none

/-- `decode_base64_yaml` on the UTF-8 bytes of the scalar. -/
def decode (s : List Nat) : Option (List Nat) :=
  decodeChunks (s.filter (fun b => !isAsciiWhitespaceByte b))

end SaphyrVerif.Base64
