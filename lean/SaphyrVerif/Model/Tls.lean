/-!
# The two thread-locals of serde-saphyr as explicit state (property C15)

Modelled code (read completely):

* `src/anchor_store.rs` — `thread_local! STATE : RefCell<AnchorState>` with `stack : Vec<(AnchorKind, usize)>`,
  the four pointer stores (`HashMap<usize, Rc/Arc<dyn Any>>`) and `in_progress : HashMap<(AnchorKind, usize), usize>`;
  `with_document_scope` (since fix b68ea91: `mem::take`s the state of the enclosing call out of the
  thread-local, runs the document on a default state, and a drop guard puts the saved state back — also on
  `?` and on unwinding), `with_anchor_context` (push + count, `Guard::drop` = pop + uncount),
  `current_*_anchor`, `*_reentrant`, `recursive_anchor_in_progress`, `get_*`, `store_*`. All maps are
  accessed by key only (never iterated), so an association list is a faithful representation.
* `src/de_error.rs` — `thread_local! MISSING_FIELD_FALLBACK : Cell<Option<Location>>`,
  `MissingFieldLocationGuard::{new, replace_location, drop}`, `maybe_attach_fallback_location`
  (used by the static constructors `invalid_type`, `invalid_value`, `unknown_variant`, `unknown_field`,
  `missing_field` of `impl serde::de::Error for Error`), `FallbackScopeGuard` (since fix 4aaf328: entered by
  `with_document_scope`; `replace(None)` on entry, the previous value restored on drop).
* guard sites in `src/de.rs`: `deserialize_map` (`_missing_field_guard`, scoped over the whole visit),
  `SA::next_element_seed` (scoped over one element), `MA::next_key_seed` (`fallback_guard : Option<Guard>`
  created lazily at the first delivered key, `replace_location` at later keys, dropped with the `MA`
  value — which the visitor owns: normally at the end of `visit_map`, on unwinding, or NEVER if the visitor
  leaks it with `mem::forget`); `MA::next_value_seed` (`_value_guard`, since the repair of
  `C16-static-error-at-map-value-reported-at-key`: scoped over reading ONE value, in both branches — value
  replayed from a pending entry / read live —, created after the look-ahead `peek` with the value's
  `reference_location`; when it is dropped the cell again holds the key location, so what Serde raises
  after the last entry, e.g. `missing_field`, is located as before);
  `deserialize_newtype_struct` (`with_anchor_context` for the `__yaml_*` names).
* wrapper visitors in `src/anchors.rs`: `RcAnchor`/`ArcAnchor` (look up, deserialize inner, reuse or allocate+store),
  `RcRecursive`/`ArcRecursive` (allocate+store BEFORE the inner value), the four weak forms (look up after
  consuming the node); `src/live_events.rs` consults `recursive_anchor_in_progress` for an alias to an anchor
  that is on its own recursion stack.
* entry points `src/lib.rs`, `src/de/with_deserializer.rs`: every document is deserialized inside
  `with_document_scope` and the thread-locals are touched nowhere else.

What a deserialization call does to the thread-locals is described by a program `Prog` (a tree of scopes,
guards, wrapper visitors, probe points, a failure point, nested top-level calls). `exec` interprets it.
`Prog` is in continuation form (`… body k` = run `body`, then continue with `k`) so that it is a plain
inductive type.

Exit paths: every state change of the Rust code is undone by a `Drop` impl, so `Ok`, `Err` (early return
through `?`) and a panicking visitor (unwinding) run the same restore actions in the same (reverse) order;
`andThen` applies the restore action `post` for every outcome and only then looks at the outcome.
-/
namespace SaphyrVerif.Tls

/-- packed location `line * 2^20 + column`; `0` = `Location::UNKNOWN` -/
abbrev Loc := Nat

/-- `AnchorKind` (also names the four stores) -/
inductive Kind where
  | rc | arc | rcRec | arcRec
deriving DecidableEq, Repr, Inhabited

def Kind.isRec : Kind → Bool
  | .rcRec | .arcRec => true
  | _ => false

abbrev Key := Kind × Nat

/-- `HashMap::get` -/
def lookup (m : List (Key × Nat)) (k : Key) : Option Nat :=
  match m with
  | [] => none
  | (k', v) :: rest => if k' = k then some v else lookup rest k

/-- `HashMap::remove` -/
def remove (m : List (Key × Nat)) (k : Key) : List (Key × Nat) :=
  m.filter (fun e => e.1 ≠ k)

/-- `HashMap::insert` -/
def insert (m : List (Key × Nat)) (k : Key) (v : Nat) : List (Key × Nat) :=
  (k, v) :: remove m k

/-- `AnchorState`; `stack` has its top at the head; `store` maps (kind of store, anchor id) to a pointer -/
structure Anchors where
  stack : List Key := []
  store : List (Key × Nat) := []
  inProgress : List (Key × Nat) := []
deriving DecidableEq, Repr, Inhabited

/-- `AnchorState::default()` -/
def Anchors.empty : Anchors := {}

/-- `with_anchor_context`: `stack.push((kind, id)); *in_progress.entry((kind, id)).or_insert(0) += 1` -/
def Anchors.push (a : Anchors) (k : Key) : Anchors :=
  { a with stack := k :: a.stack, inProgress := insert a.inProgress k ((lookup a.inProgress k).getD 0 + 1) }

/-- `Guard::drop`: `stack.pop()` (no-op on an empty stack); count decremented, entry removed at 1
(nothing if the entry is absent) -/
def Anchors.pop (a : Anchors) (k : Key) : Anchors :=
  { a with
    stack := a.stack.tail
    inProgress :=
      match lookup a.inProgress k with
      | none => a.inProgress
      | some c => if c > 1 then insert a.inProgress k (c - 1) else remove a.inProgress k }

/-- `current_anchor_id(kind)`: innermost stack entry of that kind -/
def Anchors.current (a : Anchors) (kind : Kind) : Option Nat :=
  (a.stack.find? (fun e => e.1 = kind)).map (·.2)

/-- `anchor_reentrant(kind, id)` -/
def Anchors.reentrant (a : Anchors) (k : Key) : Bool :=
  (lookup a.inProgress k).getD 0 > 1

/-- `recursive_anchor_in_progress(id)` -/
def Anchors.recInProgress (a : Anchors) (id : Nat) : Bool :=
  (lookup a.inProgress (.rcRec, id)).isSome || (lookup a.inProgress (.arcRec, id)).isSome

def Anchors.get (a : Anchors) (k : Key) : Option Nat := lookup a.store k

def Anchors.put (a : Anchors) (k : Key) (ptr : Nat) : Anchors := { a with store := insert a.store k ptr }

/-- outcome of a (sub-)deserialization -/
inductive Out where
  | ok
  | err (loc : Loc)
  | panic
deriving DecidableEq, Repr, Inhabited

/-- what user code (a probing `Deserialize` impl) can record -/
inductive Item where
  /-- the two thread-locals as seen at a probe point -/
  | obs (a : Anchors) (fallback : Option Loc)
  /-- a nested top-level call begins -/
  | nestBegin
  /-- … and ends with this outcome and these pointers handed to its wrapper fields -/
  | nestEnd (o : Out) (ptrs : List Nat)
deriving DecidableEq, Repr, Inhabited

/-- the thread-locals (`anchors`, `fallback`) and the data local to the running call -/
structure St where
  anchors : Anchors := {}
  fallback : Option Loc := none
  /-- allocation counter: pointer identities are only compared within one call -/
  next : Nat := 0
  /-- pointers handed to the wrapper fields, in completion order -/
  ptrs : List Nat := []
  trace : List Item := []
deriving DecidableEq, Repr, Inhabited

/-- the location `maybe_attach_fallback_location` attaches (`None` and `Some(UNKNOWN)` attach nothing) -/
def effLoc : Option Loc → Loc
  | some l => l
  | none => 0

/-- `fallback_guard : Option<MissingFieldLocationGuard>` of the innermost map access:
`none` = not created yet, `some prev` = created, will restore `prev` -/
abbrev Slot := Option (Option Loc)

inductive Prog where
  /-- nothing more to do at this level -/
  | done
  /-- user code looks at the thread-locals -/
  | probe (k : Prog)
  /-- `with_document_scope(body)`; `cont` = the caller goes on after an `Err` of this document
  (the `read*` iterators hand the error out as an item) -/
  | scope (cont : Bool) (body k : Prog)
  /-- `with_anchor_context(kind, anchor, body)` -/
  | ctx (kind : Kind) (anchor : Option Nat) (body k : Prog)
  /-- visitor of a strong wrapper (`RcAnchor`, `ArcAnchor`, `RcRecursive`, `ArcRecursive`); `body` = the inner value -/
  | strong (kind : Kind) (body k : Prog)
  /-- visitor of a weak wrapper (`RcWeakAnchor`, `ArcWeakAnchor`, `RcRecursion`, `ArcRecursion`); `body` = consuming the node -/
  | weak (kind : Kind) (body k : Prog)
  /-- scoped `MissingFieldLocationGuard::new(loc)` around `body` (`deserialize_map`, `SA::next_element_seed`,
  `MA::next_value_seed`) -/
  | guard (loc : Loc) (body k : Prog)
  /-- life of one map access `MA` (`body`); `leak` = the visitor `mem::forget`s it -/
  | ma (leak : Bool) (body k : Prog)
  /-- `MA::next_key_seed` is about to deliver a key located at `loc` -/
  | key (loc : Loc) (k : Prog)
  /-- a static Serde error constructor is called: the error carries the fallback location -/
  | serr
  /-- the deserializer fails with an error that has its own location -/
  | err (loc : Loc)
  /-- a visitor panics -/
  | panic
  /-- user code performs a complete nested top-level call (and catches its panic, if any) -/
  | nest (body k : Prog)
  /-- the event source meets an alias to anchor `id` that is on its own recursion stack -/
  | recAlias (id : Nat) (loc : Loc) (k : Prog)
deriving DecidableEq, Repr, Inhabited

/-- One mapping entry as `MA` runs it: `next_key_seed` delivers the key located at `kloc` (key guard: created
or updated in place), the visitor does `pre` (between its two calls; nothing for a derived struct — also what
`next_value_seed` does before it installs its guard: the look-ahead), then `next_value_seed` reads the value
(`body`) inside the scoped value guard at the value's use-site location `vloc`; `k` = the rest of the map access. -/
def Prog.entry (kloc : Loc) (pre : Prog → Prog) (vloc : Loc) (body k : Prog) : Prog :=
  .key kloc (pre (.guard vloc body k))

/-- Sequencing with RAII: `post` (the `Drop` impls of the construct) runs for EVERY outcome of the body;
the continuation runs only after `Ok`. The slot of the enclosing map
access is untouched by a body (`r.2.1`, the body's own slot, is discarded: a guard left in it is leaked). -/
def andThen (r : Out × Slot × St) (post : St → St) (s : Slot)
    (k : Slot → St → Out × Slot × St) : Out × Slot × St :=
  let st := post r.2.2
  match r.1 with
  | .ok => k s st
  | .err l => (.err l, s, st)
  | .panic => (.panic, s, st)

/-- End of `with_document_scope`: for EVERY outcome of the document the two guards put back the anchor state
and the fallback location that the enclosing call (if any) had on entry (`st`). After `Err` the `read*`
iterators (`cont`) hand the error out as an item (its half-built value is gone) and go on. -/
def scopeThen (r : Out × Slot × St) (st : St) (cont : Bool) (s : Slot)
    (k : Slot → St → Out × Slot × St) : Out × Slot × St :=
  let st1 := { r.2.2 with anchors := st.anchors, fallback := st.fallback }
  match r.1 with
  | .ok => k s st1
  | .err l => if cont then k s { st1 with ptrs := st.ptrs } else (.err l, s, st1)
  | .panic => (.panic, s, st1)

/-- end of a map access. The map access no longer OWNS a guard (fix: it points the cell at each key inside the
scope of the container's guard, which restores the outer value): dropping it — or leaking it — leaves the cell
as it is. (`leak` and the slot are kept in the program syntax; they no longer matter.) -/
def dropMa (_leak : Bool) (_s : Slot) (st : St) : St := st

def exec : Prog → Slot → St → Out × Slot × St
  | .done, s, st => (.ok, s, st)
  | .probe k, s, st => exec k s { st with trace := st.trace ++ [.obs st.anchors st.fallback] }
  | .scope cont body k, s, st =>
    -- saved = take(STATE); RestoreGuard(saved); FallbackScopeGuard::enter(); f(); drop(both)
    scopeThen (exec body none { st with anchors := .empty, fallback := none }) st cont s (exec k)
  | .ctx _ none body k, s, st =>
    andThen (exec body none st) id s (exec k)
  | .ctx kind (some id) body k, s, st =>
    andThen (exec body none { st with anchors := st.anchors.push (kind, id) })
      (fun st1 => { st1 with anchors := st1.anchors.pop (kind, id) }) s (exec k)
  | .strong kind body k, s, st =>
    match st.anchors.current kind with
    | none =>
      -- no anchor on the node: a fresh, unshared pointer
      andThen (exec body none st) (fun st1 => st1) s
        (fun s st1 => exec k s { st1 with next := st1.next + 1, ptrs := st1.ptrs ++ [st1.next] })
    | some id =>
      match st.anchors.get (kind, id) with
      | some p =>
        -- alias (or second visit): the inner value is deserialized and dropped, the stored pointer is reused
        andThen (exec body none st) (fun st1 => st1) s
          (fun s st1 => exec k s { st1 with ptrs := st1.ptrs ++ [p] })
      | none =>
        if st.anchors.reentrant (kind, id) then (.err 0, s, st)   -- Error::custom("Recursive references require …")
        else if kind.isRec then
          -- allocate and store first, then the inner value
          let p := st.next
          andThen (exec body none { st with next := p + 1, anchors := st.anchors.put (kind, id) p }) (fun st1 => st1) s
            (fun s st1 => exec k s { st1 with ptrs := st1.ptrs ++ [p] })
        else
          andThen (exec body none st) (fun st1 => st1) s
            (fun s st1 =>
              let p := st1.next
              exec k s { st1 with next := p + 1, ptrs := st1.ptrs ++ [p], anchors := st1.anchors.put (kind, id) p })
  | .weak kind body k, s, st =>
    match st.anchors.current kind with
    | none => (.err 0, s, st)   -- Error::custom("weak … must refer to an existing strong anchor via alias")
    | some id =>
      andThen (exec body none st) (fun st1 => st1) s
        (fun s st1 =>
          match st1.anchors.get (kind, id) with
          | some p => exec k s { st1 with ptrs := st1.ptrs ++ [p] }
          | none => (.err 0, s, st1))
  | .guard loc body k, s, st =>
    -- let prev = CELL.replace(Some(loc)); …; Drop: CELL.set(prev)
    andThen (exec body none { st with fallback := some loc }) (fun st1 => { st1 with fallback := st.fallback }) s (exec k)
  | .ma leak body k, s, st =>
    let r := exec body none st
    andThen r (dropMa leak r.2.1) s (exec k)
  | .key loc k, s, st =>
    match s with
    | some _ => exec k s { st with fallback := some loc }                    -- guard.replace_location(loc)
    | none => exec k (some st.fallback) { st with fallback := some loc }     -- fallback_guard = Some(Guard::new(loc))
  | .serr, s, st => (.err (effLoc st.fallback), s, st)
  | .err loc, s, st => (.err loc, s, st)
  | .panic, s, st => (.panic, s, st)
  | .nest body k, s, st =>
    -- the nested call has its own locals; the thread-locals are shared (its document scopes save/restore them)
    let r := exec body none { anchors := st.anchors, fallback := st.fallback }
    let st1 := r.2.2
    exec k s { st with anchors := st1.anchors, fallback := st1.fallback,
                       trace := st.trace ++ [.nestBegin] ++ st1.trace ++ [.nestEnd r.1 st1.ptrs] }
  | .recAlias id loc k, s, st =>
    if st.anchors.recInProgress id then exec k s st else (.err loc, s, st)   -- RecursiveReferencesRequireWeakTypes

/-- the thread-locals alone -/
structure Tls where
  anchors : Anchors := {}
  fallback : Option Loc := none
deriving DecidableEq, Repr, Inhabited

/-- state of a fresh thread -/
def Tls.init : Tls := {}

/-- what the caller of a top-level call gets to see -/
structure Result where
  out : Out
  ptrs : List Nat
  trace : List Item
deriving DecidableEq, Repr, Inhabited

/-- A top-level call as a function of (its arguments = the program, the thread-locals on entry). -/
def runCall (p : Prog) (t : Tls) : Result × Tls :=
  let r := exec p none { anchors := t.anchors, fallback := t.fallback }
  (⟨r.1, r.2.2.ptrs, r.2.2.trace⟩, ⟨r.2.2.anchors, r.2.2.fallback⟩)

/-- thread-locals after a history of completed top-level calls -/
def runHistory : List Prog → Tls → Tls
  | [], t => t
  | p :: rest, t => runHistory rest (runCall p t).2

/-- Every entry point deserializes each document inside `with_document_scope` and touches the
thread-locals nowhere else: a top-level call is a chain of scopes (for serialization: nothing at all).
A failed validation / trailing-content check after the last scope is a final `err`. -/
def isEntry : Prog → Bool
  | .done => true
  | .err _ => true
  | .scope _ _ k => isEntry k
  | _ => false

/-- Well-nestedness of the fallback guards as the code guarantees it: a key is only delivered by a map
access (`keyOk`), and a map access that is leaked sits under the container guard of `deserialize_map`
(whose body is therefore unconstrained; so is the body of a document scope, which restores the cell it
saved). -/
def tight : Bool → Prog → Bool
  | _, .done => true
  | ko, .probe k => tight ko k
  | ko, .scope _ _ k => tight ko k
  | ko, .ctx _ _ b k => tight false b && tight ko k
  | ko, .strong _ b k => tight false b && tight ko k
  | ko, .weak _ b k => tight false b && tight ko k
  | ko, .guard _ _ k => tight ko k
  | _, .ma _ _ _ => false   -- a map access does not restore the cell itself: it has to sit in a guard body (it does: `deserialize_map`)
  | ko, .key _ k => ko && tight ko k
  | _, .serr => true
  | _, .err _ => true
  | _, .panic => true
  | ko, .nest b k => tight false b && tight ko k
  | ko, .recAlias _ _ k => tight ko k

end SaphyrVerif.Tls
