import SaphyrVerif.Model.Pump
import SaphyrVerif.Model.Float
import SaphyrVerif.Model.Base64
import SaphyrVerif.Basic.Utf8
/-!
Model of `src/de.rs`: the typed streaming deserializer over an event cursor (`Events` trait with its
two implementations `LiveEvents` = the pump, and `ReplayEvents` = a recorded buffer), the key capture /
fingerprint / merge / duplicate-key machinery of the map access, sequences, tuples, options, units,
structs, all enum notations, and the Serde consumer side as run-time type descriptions `Ty`
(what `#[derive(Deserialize)]` code calls).  Shaped like the Rust code; recursion uses a fuel argument
(every recursive call spends one unit; `fuelFor` is always enough, see Props/C01).
-/
namespace SaphyrVerif.De
open SaphyrVerif SaphyrVerif.Scalars SaphyrVerif.Pump SaphyrVerif.Budget

/-! ## Errors -/

/-- error kind = name of the `Error` variant; `loc2` is the definition site of an `AliasError` -/
structure DErr where
  kind : String
  loc : Loc := 0
  loc2 : Loc := 0
deriving Repr, DecidableEq, Inhabited

def ofPErr : PErr → DErr
  | .scan l => ⟨"ExternalMessage", l, 0⟩
  | .unknownAnchor l => ⟨"UnknownAnchor", l, 0⟩
  | .budget _ l => ⟨"Budget", l, 0⟩
  | .foldedIndent l => ⟨"FoldedBlockScalarMustIndentContent", l, 0⟩
  | .aliasExpansionLimit _ _ _ l => ⟨"AliasExpansionLimitExceeded", l, 0⟩
  | .replayStackDepth _ _ l => ⟨"AliasReplayStackDepthExceeded", l, 0⟩
  | .recursiveRef l => ⟨"RecursiveReferencesRequireWeakTypes", l, 0⟩
  | .replayLimit _ _ l => ⟨"AliasReplayLimitExceeded", l, 0⟩
  | .depthUnderflow l => ⟨"InternalDepthUnderflow", l, 0⟩
  | .multipleDocuments l => ⟨"MultipleDocuments", l, 0⟩

/-! ## Cursor: the `Events` trait -/

inductive Cur where
  | live (p : Pump) (inp : List RawItem)
  | replay (buf : List Ev) (idx : Nat) (ref : Option Loc)
deriving Repr

/-- result of an operation on the cursor: the cursor is returned also on errors (the iterator
recovers from the state it is left in) -/
inductive R (α : Type) where
  | ok (a : α) (c : Cur)
  | err (e : DErr) (c : Cur)
deriving Repr

def Cur.next : Cur → R (Option Ev)
  | .live p inp =>
    match Pump.next p inp with
    | (.event e, p', r) => .ok (some e) (.live p' r)
    | (.eof, p', r) => .ok none (.live p' r)
    | (.error e, p', r) => .err (ofPErr e) (.live p' r)
  | .replay buf idx ref =>
    match buf[idx]? with
    | some e => .ok (some e) (.replay buf (idx + 1) ref)
    | none => .ok none (.replay buf idx ref)

def Cur.peek : Cur → R (Option Ev)
  | .live p inp =>
    match Pump.peek p inp with
    | (.event e, p', r) => .ok (some e) (.live p' r)
    | (.eof, p', r) => .ok none (.live p' r)
    | (.error e, p', r) => .err (ofPErr e) (.live p' r)
  | .replay buf idx ref => .ok buf[idx]? (.replay buf idx ref)

def Cur.lastLoc : Cur → Loc
  | .live p _ => p.lastLoc
  | .replay buf idx _ => match buf[idx - 1]? with
    | some e => e.loc
    | none => 0

def Cur.refLoc : Cur → Loc
  | .live p _ => Pump.referenceLocation p
  | .replay buf idx ref =>
    match ref with
    | some l => l
    | none => match buf[idx]? with
      | some e => e.loc
      | none => match buf[idx - 1]? with
        | some e => e.loc
        | none => 0

/-- `at_alias`: the node made visible by the last `peek` is written as an alias at this position — its first
event is the first event of a freshly injected anchor buffer (the frame is pushed by the pump that serves
that event).  Recorded buffers are already alias-expanded: `ReplayEvents` keeps the default `false`. -/
def Cur.atAlias : Cur → Bool
  | .live p _ => match p.inject with
    | fr :: _ => fr.idx == 1
    | [] => false
  | .replay .. => false

/-- use site kept for the replayed payload of a tag-selected variant: `Some(self.ev.reference_location())
.filter(|r| *r != node_location)` — the alias token when the tagged node is delivered by a replay -/
def tagUseSite (c : Cur) (l : Loc) : Option Loc := if c.refLoc != l then some c.refLoc else none

/-! ## Configuration, types, values -/

inductive DupPolicy where
  | error | firstWins | lastWins
deriving Repr, DecidableEq, Inhabited

structure Cfg where
  dup : DupPolicy := .error
  legacyOctal : Bool := false
  strictBooleans : Bool := false
  angleConversions : Bool := false
  ignoreBinaryTagForString : Bool := false
  noSchema : Bool := false
deriving Repr, DecidableEq, Inhabited

mutual
/-- run-time description of the Rust target type = the Serde calls its `Deserialize` impl makes -/
inductive Ty where
  | bool
  | int (signed : Bool) (w : Nat)
  | float (w : Nat)
  | char
  | string
  | unit
  | bytes
  | option (t : Ty)
  | seq (t : Ty)
  | tuple (ts : List Ty)
  | map (k v : Ty)
  | struct (fields : List (String × Ty)) (denyUnknown : Bool)
  | enum (name : String) (variants : List (String × VTy))
  | newtype (t : Ty)
  | any
inductive VTy where
  | unit
  | newtype (t : Ty)
  | tuple (ts : List Ty)
  | struct (fields : List (String × Ty))
end

inductive Val where
  | unit
  | bool (b : Bool)
  | int (i : Int)
  | float (w : Nat) (f : Float.FVal)
  | char (c : Char)
  | str (s : List Char)
  | bytes (bs : List Nat)
  | none
  | some (v : Val)
  | seq (vs : List Val)
  | map (es : List (Val × Val))
  | struct (fs : List (String × Val))
  | variant (name : String) (payload : Val)
deriving Repr, Inhabited

/-! ## Tags -/
def tagNone := 0
def tagNull := 4
def tagBinary := 8
def tagString := 9
def tagNonSpecific := 10
def tagOther := 13

/-- `merge_scalar_is_null`: a scalar merge value (or merge-sequence element) is YAML null when it is
tagged `!!null` or is plain null-like text, unless `!!str` / the non-specific tag `!` force a string -/
def mergeScalarIsNull (v : List Char) (st : Style) (tag : Nat) : Bool :=
  (tag == tagNull || scalarIsNullish v st) && tag != tagString && tag != tagNonSpecific

def canParseIntoString (t : Nat) : Bool := Gen.tagCanParseIntoString.getD t false

/-- `maybe_not_string` -/
def maybeNotString (s : List Char) (st : Style) : Bool :=
  st == .plain &&
    ((Float.parseYaml12Float 64 s).isSome || (parseIntSigned 128 false s).isSome ||
     (parseYaml11Bool s).isSome || scalarIsNullish s .plain)

/-- `simple_tagged_enum_name` -/
def simpleTaggedEnumName (rawTag : Option (List Char)) (tag : Nat) : Option (List Char) :=
  if tag != tagOther then none else
  match rawTag with
  | none => none
  | some raw =>
    let c1 := match stripPrefix? "!<".toList raw with
      | some inner => if inner.getLast? == some '>' then inner.dropLast else raw
      | none => raw
    let c2 := match stripPrefix? "tag:yaml.org,2002:".toList c1 with
      | some s => s
      | none => c1
    let c3 := c2.dropWhile (· == '!')
    if c3.isEmpty || c3.any (fun ch => ch == ':' || ch == '!') then none else some c3

/-! ## Key fingerprints and captured nodes -/

inductive FP where
  | scalar (v : List Char) (tag : Nat)
  | seq (items : List FP)
  | map (entries : List (FP × FP))
deriving Repr, Inhabited

mutual
def FP.beq : FP → FP → Bool
  | .scalar v t, .scalar v' t' => v == v' && t == t'
  | .seq a, .seq b => FP.beqL a b
  | .map a, .map b => FP.beqE a b
  | _, _ => false
def FP.beqL : List FP → List FP → Bool
  | [], [] => true
  | x :: xs, y :: ys => FP.beq x y && FP.beqL xs ys
  | _, _ => false
def FP.beqE : List (FP × FP) → List (FP × FP) → Bool
  | [], [] => true
  | (k, v) :: xs, (k', v') :: ys => FP.beq k k' && FP.beq v v' && FP.beqE xs ys
  | _, _ => false
end

instance : BEq FP := ⟨FP.beq⟩

/-- `KeyNode`: fingerprint, recorded events, start location -/
structure KeyNode where
  fp : FP
  events : List Ev
  loc : Loc
deriving Repr, Inhabited

/-- `PendingEntry` -/
structure PendingEntry where
  key : KeyNode
  value : KeyNode
  ref : Loc
deriving Repr, Inhabited

/-- `stringy_scalar_value` -/
def FP.stringy : FP → Option (List Char)
  | .scalar v t => if canParseIntoString t && t != tagBinary then some v else none
  | _ => none

def eofErr (c : Cur) : DErr := ⟨"Eof", c.lastLoc, 0⟩

/-- `is_merge_key` -/
def isMergeKey (n : KeyNode) : Bool :=
  match n.events with
  | [.scalar v tag _ st _ _] => st == .plain && tag == tagNone && v == ['<', '<']
  | _ => false

/-- nullish test on a fingerprint scalar used by the one-entry-map special case -/
def fpNullish (v : List Char) (tag : Nat) : Bool :=
  tag == tagNull || v.isEmpty || v == ['~'] || eqIgnoreAsciiCase v "null".toList

/-- inner loop of `skip_one_node_len` (`depth` is an `i32` in the Rust code) -/
def skipLenGo (isSeq : Bool) (i : Nat) : List Ev → Nat → Int → Option Nat
  | [], _, _ => none
  | e :: rest, j, depth =>
    match e with
    | .seqStart .. | .mapStart .. => skipLenGo isSeq i rest (j + 1) (depth + 1)
    | .seqEnd _ =>
      if isSeq && depth - 1 == 0 then some (j - i + 1) else skipLenGo isSeq i rest (j + 1) (depth - 1)
    | .mapEnd _ =>
      if !isSeq && depth - 1 == 0 then some (j - i + 1) else skipLenGo isSeq i rest (j + 1) (depth - 1)
    | .scalar .. => skipLenGo isSeq i rest (j + 1) depth

/-- `skip_one_node_len` -/
def skipOneNodeLen (events : List Ev) (i : Nat) : Option Nat :=
  match events[i]? with
  | some (Ev.scalar ..) => some 1
  | some (Ev.seqStart ..) => skipLenGo true i (events.drop (i + 1)) (i + 1) 1
  | some (Ev.mapStart ..) => skipLenGo false i (events.drop (i + 1)) (i + 1) 1
  | _ => none

/-- `one_entry_map_spans` -/
def oneEntryMapSpans (events : List Ev) : Option (Nat × Nat × Nat × Nat) :=
  if events.length < 4 then none else
  match events.head?, events.getLast? with
  | some (.mapStart ..), some (.mapEnd _) =>
    match skipOneNodeLen events 1 with
    | none => none
    | some kl =>
      let ke := 1 + kl
      match skipOneNodeLen events ke with
      | none => none
      | some vl =>
        let ve := ke + vl
        if ve != events.length - 1 then none else some (1, ke, ke, ve)
  | _, _ => none

/-! ## The deserializer -/

/-- state of the map access `MA` -/
structure MA where
  haveKey : Bool := false
  seen : List FP := []
  pending : List PendingEntry := []
  /-- `merge_stack`, head = top -/
  mergeStack : List (List PendingEntry) := []
  flushingMerges : Bool := false
  pendingValue : Option (List Ev × Loc) := none
deriving Repr, Inhabited

def MA.seenContains (m : MA) (fp : FP) : Bool := m.seen.any (· == fp)

/-- `attach_alias_locations_if_missing` -/
def attachAlias (e : DErr) (ref defined : Loc) : DErr :=
  -- an inner access already attached both locations: the enclosing accesses keep them
  if e.kind == "AliasError" then e
  else if ref != 0 && defined != 0 && ref != defined then ⟨"AliasError", ref, defined⟩
  else if e.loc != 0 || e.kind == "AliasError" then e
  else { e with loc := if ref != 0 then ref else defined }

/-- errors raised by the Serde consumer side (`de::Error::custom`, `invalid_length`, `missing_field`, …)
carry the thread-local fallback location, which the model does not track: location 0 -/
def serdeErr (kind : String) : DErr := ⟨kind, 0, 0⟩

/-- outcome of `next_key_seed` -/
inductive KeyStep where
  | done
  | key (k : Val) (fp : FP)
deriving Repr, Inhabited

/-- find a struct field / enum variant by name -/
def lookupField {α} (fs : List (String × α)) (name : List Char) : Option (Nat × α) :=
  let rec go (fs : List (String × α)) (i : Nat) : Option (Nat × α) :=
    match fs with
    | [] => none
    | (n, t) :: rest => if n.toList == name then some (i, t) else go rest (i + 1)
  go fs 0

/-- `enqueue_next_merge_batch` -/
def enqueueNextMergeBatch (m : MA) : Bool × MA :=
  let rec go (stack : List (List PendingEntry)) : Bool × List PendingEntry × List (List PendingEntry) :=
    match stack with
    | [] => (false, [], [])
    | b :: rest => if b.isEmpty then go rest else (true, b, rest)
  let (found, batch, rest) := go m.mergeStack
  (found, { m with pending := batch ++ m.pending, mergeStack := rest })

/-- scalar targets: everything that takes one scalar event (`deserialize_bool/iN/uN/fN/char`) -/
def deserScalarTyped : Cfg → Ty → Cur → R Val
  | cfg, ty, c =>
    -- `deserialize_char` pre-check
    let pre : Option (R Val) :=
      match ty with
      | .char =>
        match c.peek with
        | .err e c => some (.err e c)
        | .ok (some (.scalar v tag _ st _ l)) c =>
          if tag != tagString then
            if tag == tagNull || scalarIsNullish v st then
              match c.next with
              | .err e c => some (.err e c)
              | .ok _ c => some (.err ⟨"InvalidCharNull", l, 0⟩ c)
            else if cfg.noSchema && maybeNotString v st then
              match c.next with
              | .err e c => some (.err e c)
              | .ok _ c => some (.err ⟨"QuotingRequired", l, 0⟩ c)
            else none
          else none
        | .ok _ _ => none
      | _ => none
    match pre with
    | some r => r
    | none =>
    match c.next with
    | .err e c => .err e c
    | .ok none c => .err (eofErr c) c
    | .ok (some (.scalar s _ _ _ _ l)) c =>
      match ty with
      | .bool =>
        if cfg.strictBooleans then
          match parseStrictBool s with
          | some b => .ok (.bool b) c
          | none => .err ⟨"InvalidBooleanStrict", l, 0⟩ c
        else match parseYaml11Bool s with
          | some b => .ok (.bool b) c
          | none => .err ⟨"InvalidScalar", l, 0⟩ c
      | .int true w =>
        match parseIntSigned w cfg.legacyOctal s with
        | some v => .ok (.int v) c
        | none => .err ⟨"InvalidScalar", l, 0⟩ c
      | .int false w =>
        match parseIntUnsigned w cfg.legacyOctal s with
        | some v => .ok (.int (Int.ofNat v)) c
        | none => .err ⟨"InvalidScalar", l, 0⟩ c
      | .float w =>
        match Float.parseYaml12Float w s with
        | some f => .ok (.float w f) c
        | none => .err ⟨"InvalidScalar", l, 0⟩ c
      | .char =>
        match s with
        | [ch] => .ok (.char ch) c
        | _ => .err ⟨"InvalidCharNotSingleScalar", l, 0⟩ c
      | _ => .err ⟨"ModelMisuse", l, 0⟩ c
    | .ok (some other) c => .err ⟨"Unexpected", other.loc, 0⟩ c

/-- `take_string_scalar` -/
def takeStringScalar : Cfg → Cur → R (List Char)
  | cfg, c =>
    match c.next with
    | .err e c => .err e c
    | .ok none c => .err (eofErr c) c
    | .ok (some (.scalar v tag _ _ _ l)) c =>
      if tag == tagBinary && !cfg.ignoreBinaryTagForString then
        match Base64.decode (utf8Bytes v) with
        | none => .err ⟨"InvalidBinaryBase64", l, 0⟩ c
        | some data =>
          match utf8DecodeBytes data with
          | none => .err ⟨"BinaryNotUtf8", l, 0⟩ c
          | some text => .ok text c
      else if !canParseIntoString tag && tag != tagNonSpecific && !(cfg.ignoreBinaryTagForString && tag == tagBinary) then
        .err ⟨"TaggedScalarCannotDeserializeIntoString", l, 0⟩ c
      else .ok v c
    | .ok (some other) c => .err ⟨"Unexpected", other.loc, 0⟩ c

/-- `deserialize_string` -/
def deserString : Cfg → Cur → R Val
  | cfg, c =>
    match c.peek with
    | .err e c => .err e c
    | .ok (some (.scalar v tag _ st _ l)) c =>
      if (tag == tagNull || scalarIsNullish v st) && tag != tagString then
        match c.next with
        | .err e c => .err e c
        | .ok _ c => .err ⟨"NullIntoString", l, 0⟩ c
      else if cfg.noSchema && maybeNotString v st && tag != tagString then
        match c.next with
        | .err e c => .err e c
        | .ok _ c => .err ⟨"QuotingRequired", l, 0⟩ c
      else if tag == tagBinary && !cfg.ignoreBinaryTagForString then
        match takeStringScalar cfg c with
        | .err e c => .err e c
        | .ok s c => .ok (.str s) c
      else if !canParseIntoString tag && tag != tagNonSpecific && !(cfg.ignoreBinaryTagForString && tag == tagBinary) then
        .err ⟨"TaggedScalarCannotDeserializeIntoString", l, 0⟩ c
      else
        match c.next with
        | .err e c => .err e c
        | .ok _ c => .ok (.str v) c
    | .ok _ c =>
      match takeStringScalar cfg c with
      | .err e c => .err e c
      | .ok s c => .ok (.str s) c

/-- `deserialize_str` (identifiers, `&str`): end of input and a non-scalar event are rejected here; a
scalar is handed to `deserialize_string` (same null, `no_schema`, tag and `!!binary` handling as an
owned string). Whether the visitor gets a borrowed or an owned string is not modelled (both are the
same characters). -/
def deserStr : Cfg → Cur → R (List Char)
  | cfg, c =>
    match c.peek with
    | .err e c => .err e c
    | .ok none c => .err (eofErr c) c
    | .ok (some (.scalar ..)) c =>
      match deserString cfg c with
      | .err e c => .err e c
      | .ok (.str s) c => .ok s c
      -- `deserialize_string` only ever calls `visit_string` / `visit_borrowed_str`
      | .ok _ c => .err ⟨"ModelMisuse", 0, 0⟩ c
    | .ok (some other) c => .err ⟨"Unexpected", other.loc, 0⟩ c

/-- scalar branch of `deserialize_any` (the event is known to be a scalar) -/
def deserAnyScalar : Cfg → Cur → List Char → Nat → Style → Loc → R Val
  | cfg, c, v, tag, st, l =>
    if tag == tagNull then
      match c.next with
      | .err e c => .err e c
      | .ok _ c => .ok .unit c
    else if scalarIsNullish v st then
      match c.next with
      | .err e c => .err e c
      | .ok _ c => .ok .unit c
    else if !(st == .plain) || !canParseIntoString tag || tag == tagBinary || tag == tagString then
      if tag == tagBinary && !cfg.ignoreBinaryTagForString then
        match takeStringScalar cfg c with
        | .err e c => .err e c
        | .ok s c => .ok (.str s) c
      else if !canParseIntoString tag && tag != tagNonSpecific && !(cfg.ignoreBinaryTagForString && tag == tagBinary) then
        .err ⟨"TaggedScalarCannotDeserializeIntoString", l, 0⟩ c
      else
        match c.next with
        | .err e c => .err e c
        | .ok _ c => .ok (.str v) c
    else
      match c.next with
      | .err e c => .err e c
      | .ok _ c =>
        let b? := if cfg.strictBooleans then parseStrictBool v else parseYaml11Bool v
        match b? with
        | some b => .ok (.bool b) c
        | none =>
          let t := trim v
          let int? : Option Int :=
            if t.head? == some '-' && !leadingZeroDecimal t then parseIntSigned 64 cfg.legacyOctal t
            else match parseIntUnsigned 64 cfg.legacyOctal t with
              | some u => some (Int.ofNat u)
              | none => parseIntSigned 64 cfg.legacyOctal t
          match int? with
          | some i => .ok (.int i) c
          | none =>
            match Float.parseYaml12Float 64 v with
            | some f =>
              if f.isFinite 64 then .ok (.float 64 f) c
              else if f == .nan then .ok (.str ".nan".toList) c
              else if f.isNegative 64 then .ok (.str "-.inf".toList) c
              else .ok (.str ".inf".toList) c
            | none => .ok (.str v) c

/-- `ByteSeq`: elements come from `U8Deserializer`, so only integer-like targets accept them -/
def byteSeqVisit : (Ty ⊕ List Ty) → List Nat → Cur → R Val
  | shape, data, c =>
    let conv (t : Ty) (b : Nat) : Option Val :=
      match t with
      | .int _ _ => some (.int b)
      | .any => some (.int b)
      | _ => none
    match shape with
    | .inl t =>
      match data.mapM (conv t) with
      | some vs => .ok (.seq vs) c
      | none => .err (serdeErr "invalid_type") c
    | .inr ts =>
      if data.length < ts.length then .err (serdeErr "invalid_length") c
      else match (ts.zip data).mapM (fun p => conv p.1 p.2) with
        | some vs =>
          -- surplus bytes (`bytes.idx != bytes.data.len()` after `visit_seq`) are an error
          if data.length != ts.length then .err ⟨"Unexpected", c.lastLoc, 0⟩ c else .ok (.seq vs) c
        | none => .err (serdeErr "invalid_type") c

/-- missing fields: `Option` fields default to `None`, anything else is `missing_field` -/
def structFinish : List (String × Ty) → List (String × Val) → Cur → R Val
  | fields, got, c =>
    let rec fill (fs : List (String × Ty)) (acc : List (String × Val)) : Except DErr (List (String × Val)) :=
      match fs with
      | [] => .ok acc
      | (n, t) :: rest =>
        match got.find? (fun p => p.1 == n) with
        | some p => fill rest (acc ++ [p])
        | none =>
          match t with
          | .option _ => fill rest (acc ++ [(n, Val.none)])
          | _ => .error (serdeErr "missing_field")
    match fill fields [] with
    | .ok fs => .ok (.struct fs) c
    | .error e => .err e c

mutual

/-- `capture_node` -/
def capture : Nat → Cur → R KeyNode
  | 0, c => .err ⟨"OutOfFuel", 0, 0⟩ c
  | fuel + 1, c =>
    match c.next with
    | .err e c => .err e c
    | .ok none c => .err (eofErr c) c
    | .ok (some ev) c =>
      match ev with
      | .scalar v tag _ _ _ loc => .ok ⟨.scalar v tag, [ev], loc⟩ c
      | .seqStart _ _ _ loc =>
        match captureSeq fuel c [] [ev] with
        | .err e c => .err e c
        | .ok (fps, evs) c => .ok ⟨.seq fps, evs, loc⟩ c
      | .mapStart _ loc =>
        match captureMap fuel c [] [ev] with
        | .err e c => .err e c
        | .ok (fps, evs) c => .ok ⟨.map fps, evs, loc⟩ c
      | .seqEnd loc | .mapEnd loc => .err ⟨"UnexpectedContainerEndWhileReadingKeyNode", loc, 0⟩ c

def captureSeq : Nat → Cur → List FP → List Ev → R (List FP × List Ev)
  | 0, c, _, _ => .err ⟨"OutOfFuel", 0, 0⟩ c
  | fuel + 1, c, fps, evs =>
    match c.peek with
    | .err e c => .err e c
    | .ok none c => .err (eofErr c) c
    | .ok (some (.seqEnd l)) c =>
      match c.next with
      | .err e c => .err e c
      | .ok _ c => .ok (fps, evs ++ [.seqEnd l]) c
    | .ok (some _) c =>
      match capture fuel c with
      | .err e c => .err e c
      | .ok child c => captureSeq fuel c (fps ++ [child.fp]) (evs ++ child.events)

def captureMap : Nat → Cur → List (FP × FP) → List Ev → R (List (FP × FP) × List Ev)
  | 0, c, _, _ => .err ⟨"OutOfFuel", 0, 0⟩ c
  | fuel + 1, c, fps, evs =>
    match c.peek with
    | .err e c => .err e c
    | .ok none c => .err (eofErr c) c
    | .ok (some (.mapEnd l)) c =>
      match c.next with
      | .err e c => .err e c
      | .ok _ c => .ok (fps, evs ++ [.mapEnd l]) c
    | .ok (some _) c =>
      match capture fuel c with
      | .err e c => .err e c
      | .ok k c =>
        match capture fuel c with
        | .err e c => .err e c
        | .ok v c => captureMap fuel c (fps ++ [(k.fp, v.fp)]) (evs ++ k.events ++ v.events)

/-- `pending_entries_from_events` (over a fresh `ReplayEvents::with_reference`) -/
def pendingFromEvents : Nat → List Ev → Loc → Loc → Except DErr (List PendingEntry)
  | 0, _, _, _ => .error ⟨"OutOfFuel", 0, 0⟩
  | fuel + 1, events, location, ref =>
    let c := Cur.replay events 0 (some ref)
    match events.head? with
    | none => .error ⟨"Eof", location, 0⟩
    | some (.scalar v tag _ st _ l) =>
      if mergeScalarIsNull v st tag then .ok [] else .error ⟨"MergeValueNotMapOrSeqOfMaps", l, 0⟩
    | some (.mapStart ..) =>
      match collectEntriesFromMap fuel c ref with
      | .err e _ => .error e
      | .ok es _ => .ok es
    | some (.seqStart ..) =>
      match c.next with
      | .err e _ => .error e
      | .ok _ c =>
        match mergeSeqBatches fuel c [] with
        | .err e _ => .error e
        | .ok batches _ => .ok (batches.foldl (fun acc b => b ++ acc) [])   -- popped last to first
    | some other => .error ⟨"MergeValueNotMapOrSeqOfMaps", other.loc, 0⟩

/-- the element loop shared by both merge-sequence readers: collects the batches in order -/
def mergeSeqBatches : Nat → Cur → List (List PendingEntry) → R (List (List PendingEntry))
  | 0, c, _ => .err ⟨"OutOfFuel", 0, 0⟩ c
  | fuel + 1, c, batches =>
    match c.peek with
    | .err e c => .err e c
    | .ok none c => .err (eofErr c) c
    | .ok (some (.seqEnd _)) c =>
      match c.next with
      | .err e c => .err e c
      | .ok _ c => .ok batches c
    | .ok (some _) c =>
      let elemRef := c.refLoc
      match capture fuel c with
      | .err e c => .err e c
      | .ok element c =>
        match pendingFromEvents fuel element.events element.loc elemRef with
        | .error e => .err e c
        | .ok b => mergeSeqBatches fuel c (batches ++ [b])

/-- `pending_entries_from_live_events` -/
def pendingFromLive : Nat → Cur → Loc → R (List PendingEntry)
  | 0, c, _ => .err ⟨"OutOfFuel", 0, 0⟩ c
  | fuel + 1, c, mergeRef =>
    match c.peek with
    | .err e c => .err e c
    | .ok none c => .err (eofErr c) c
    | .ok (some (.scalar v tag _ st _ l)) c =>
      if mergeScalarIsNull v st tag then
        match c.next with
        | .err e c => .err e c
        | .ok _ c => .ok [] c
      else .err ⟨"MergeValueNotMapOrSeqOfMaps", l, 0⟩ c
    | .ok (some (.mapStart ..)) c =>
      match capture fuel c with
      | .err e c => .err e c
      | .ok node c =>
        match pendingFromEvents fuel node.events node.loc mergeRef with
        | .error e => .err e c
        | .ok es => .ok es c
    | .ok (some (.seqStart ..)) c =>
      match c.next with
      | .err e c => .err e c
      | .ok _ c =>
        match mergeSeqBatches fuel c [] with
        | .err e c => .err e c
        | .ok batches c => .ok (batches.foldl (fun acc b => b ++ acc) []) c
    | .ok (some other) c => .err ⟨"MergeValueNotMapOrSeqOfMaps", other.loc, 0⟩ c

/-- `collect_entries_from_map` -/
def collectEntriesFromMap : Nat → Cur → Loc → R (List PendingEntry)
  | 0, c, _ => .err ⟨"OutOfFuel", 0, 0⟩ c
  | fuel + 1, c, ref =>
    match c.next with
    | .err e c => .err e c
    | .ok (some (.mapStart ..)) c => collectLoop fuel c ref [] []
    | .ok _ c => .err ⟨"MergeValueNotMapOrSeqOfMaps", c.lastLoc, 0⟩ c

/-- the loop of `collect_entries_from_map`: own fields in order, nested merges popped last to first -/
def collectLoop : Nat → Cur → Loc → List PendingEntry → List (List PendingEntry) → R (List PendingEntry)
  | 0, c, _, _, _ => .err ⟨"OutOfFuel", 0, 0⟩ c
  | fuel + 1, c, ref, fields, merges =>
    match c.peek with
    | .err e c => .err e c
    | .ok none c => .err (eofErr c) c
    | .ok (some (.mapEnd _)) c =>
      match c.next with
      | .err e c => .err e c
      | .ok _ c => .ok (fields ++ merges.foldl (fun acc b => acc ++ b) []) c
    | .ok (some _) c =>
      match capture fuel c with
      | .err e c => .err e c
      | .ok key c =>
        if isMergeKey key then
          match c.peek with
          | .err e c => .err e c
          | .ok _ c =>
            let mref := c.refLoc
            match pendingFromLive fuel c mref with
            | .err e c => .err e c
            | .ok es c => collectLoop fuel c ref fields (es :: merges)   -- head = last pushed
        else
          match capture fuel c with
          | .err e c => .err e c
          | .ok value c => collectLoop fuel c ref (fields ++ [⟨key, value, ref⟩]) merges

/-- `skip_one_node` of the map access (FirstWins) -/
def skipOneNode : Nat → Cur → R Unit
  | 0, c => .err ⟨"OutOfFuel", 0, 0⟩ c
  | fuel + 1, c =>
    match c.next with
    | .err e c => .err e c
    | .ok none c => .err (eofErr c) c
    | .ok (some (.scalar ..)) c => .ok () c
    | .ok (some (.seqStart ..)) c | .ok (some (.mapStart ..)) c => skipDepth fuel c 1
    | .ok (some (.seqEnd l)) c | .ok (some (.mapEnd l)) c =>
      .err ⟨"UnexpectedContainerEndWhileSkippingNode", l, 0⟩ c

def skipDepth : Nat → Cur → Nat → R Unit
  | 0, c, _ => .err ⟨"OutOfFuel", 0, 0⟩ c
  | fuel + 1, c, depth =>
    if depth == 0 then .ok () c else
    match c.next with
    | .err e c => .err e c
    | .ok none c => .err (eofErr c) c
    | .ok (some (.seqStart ..)) c | .ok (some (.mapStart ..)) c => skipDepth fuel c (depth + 1)
    | .ok (some (.seqEnd _)) c | .ok (some (.mapEnd _)) c => skipDepth fuel c (depth - 1)
    | .ok (some (.scalar ..)) c => skipDepth fuel c depth

/-- the deserializer proper: `T::deserialize(YamlDeserializer { ev, cfg, in_key, key_empty_map_node })` -/
def deser : Nat → Cfg → Ty → (inKey kemn : Bool) → Cur → R Val
  | 0, _, _, _, _, c => .err ⟨"OutOfFuel", 0, 0⟩ c
  | fuel + 1, cfg, ty, inKey, kemn, c =>
    match ty with
    | .bool | .int .. | .float _ | .char => deserScalarTyped cfg ty c
    | .string => deserString cfg c
    | .newtype t => deser fuel cfg t inKey kemn c
    | .unit =>
      match c.peek with
      | .err e c => .err e c
      | .ok none c => .ok .unit c
      | .ok (some (.scalar v _ _ st _ l)) c =>
        if scalarIsNullish v st then
          match c.next with
          | .err e c => .err e c
          | .ok _ c => .ok .unit c
        else .err ⟨"UnexpectedValueForUnit", l, 0⟩ c
      | .ok (some (.mapEnd _)) c | .ok (some (.seqEnd _)) c => .ok .unit c
      | .ok (some other) c => .err ⟨"UnexpectedValueForUnit", other.loc, 0⟩ c
    | .option t =>
      if inKey && kemn then
        match c.next with
        | .err e c => .err e c
        | .ok none c => .err (eofErr c) c
        | .ok (some (.mapStart ..)) c =>
          match c.next with
          | .err e c => .err e c
          | .ok none c => .err (eofErr c) c
          | .ok (some (.mapEnd _)) c => .ok .none c
          | .ok (some other) c => .err ⟨"Unexpected", other.loc, 0⟩ c
        | .ok (some other) c => .err ⟨"Unexpected", other.loc, 0⟩ c
      else
        match c.peek with
        | .err e c => .err e c
        | .ok none c => .ok .none c
        | .ok (some (.scalar v tag _ st _ _)) c =>
          if tag == tagNull || scalarIsNullishForOption v st then
            match c.next with
            | .err e c => .err e c
            | .ok _ c => .ok .none c
          else
            match deser fuel cfg t inKey kemn c with
            | .err e c => .err e c
            | .ok v c => .ok (.some v) c
        | .ok (some (.mapEnd _)) c | .ok (some (.seqEnd _)) c => .ok .none c
        | .ok (some _) c =>
          match deser fuel cfg t inKey kemn c with
          | .err e c => .err e c
          | .ok v c => .ok (.some v) c
    | .bytes =>
      match c.peek with
      | .err e c => .err e c
      | .ok none c => .err (eofErr c) c
      | .ok (some (.scalar v tag _ _ _ l)) c =>
        if tag == tagBinary then
          match c.next with
          | .err e c => .err e c
          | .ok _ c =>
            match Base64.decode (utf8Bytes v) with
            | none => .err ⟨"InvalidBinaryBase64", l, 0⟩ c
            | some data => .ok (.bytes data) c
        else .err ⟨"BytesNotSupportedMissingBinaryTag", l, 0⟩ c
      | .ok (some (.seqStart ..)) c =>
        match c.next with
        | .err e c => .err e c
        | .ok _ c => bytesLoop fuel cfg c []
      | .ok (some other) c => .err ⟨"Unexpected", other.loc, 0⟩ c
    | .seq t => deserSeqLike fuel cfg (.inl t) c
    | .tuple ts => deserSeqLike fuel cfg (.inr ts) c
    | .map k v => deserMapLike fuel cfg (.inl (k, v)) c
    | .struct fields deny => deserMapLike fuel cfg (.inr (fields, deny)) c
    | .any =>
      match c.peek with
      | .err e c => .err e c
      | .ok none c => .ok .unit c
      | .ok (some (.scalar v tag _ st _ l)) c => deserAnyScalar cfg c v tag st l
      | .ok (some (.seqStart ..)) c => deserSeqLike fuel cfg (.inl .any) c
      | .ok (some (.mapStart ..)) c => deserMapLike fuel cfg (.inl (.any, .any)) c
      | .ok (some (.seqEnd l)) c => .err ⟨"UnexpectedSequenceEnd", l, 0⟩ c
      | .ok (some (.mapEnd l)) c => .err ⟨"UnexpectedMappingEnd", l, 0⟩ c
    | .enum name variants => deserEnum fuel cfg name variants c

/-- untagged branch of `deserialize_bytes`: a sequence of u8 -/
def bytesLoop : Nat → Cfg → Cur → List Nat → R Val
  | 0, _, c, _ => .err ⟨"OutOfFuel", 0, 0⟩ c
  | fuel + 1, cfg, c, acc =>
    match c.peek with
    | .err e c => .err e c
    | .ok none c => .err (eofErr c) c
    | .ok (some (.seqEnd _)) c =>
      match c.next with
      | .err e c => .err e c
      | .ok _ c => .ok (.bytes acc) c
    | .ok (some _) c =>
      match deserScalarTyped cfg (.int false 8) c with
      | .err e c => .err e c
      | .ok (.int i) c => bytesLoop fuel cfg c (acc ++ [i.toNat])
      | .ok _ c => .err ⟨"ModelMisuse", 0, 0⟩ c

/-- `deserialize_seq` with the consumer's `visit_seq`: `inl t` = `Vec<T>` (reads to the end),
`inr ts` = tuple (reads exactly `ts.length` elements, `invalid_length` when one is missing) -/
def deserSeqLike : Nat → Cfg → (Ty ⊕ List Ty) → Cur → R Val
  | 0, _, _, c => .err ⟨"OutOfFuel", 0, 0⟩ c
  | fuel + 1, cfg, shape, c =>
    match c.peek with
    | .err e c => .err e c
    | .ok pk c =>
      -- null-like scalar = empty sequence; `!!binary` scalar = byte sequence
      let special : Option (R Val) :=
        match pk with
        | some (.scalar v tag _ st _ l) =>
          if tag == tagNull || scalarIsNullish v st then
            match c.next with
            | .err e c => some (.err e c)
            | .ok _ c =>
              match shape with
              | .inl _ => some (.ok (.seq []) c)
              | .inr ts => if ts.isEmpty then some (.ok (.seq []) c) else some (.err (serdeErr "invalid_length") c)
          else if tag == tagBinary then
            match c.next with
            | .err e c => some (.err e c)
            | .ok _ c =>
              match Base64.decode (utf8Bytes v) with
              | none => some (.err ⟨"InvalidBinaryBase64", l, 0⟩ c)
              | some data => some (byteSeqVisit shape data c)
          else none
        | _ => none
      match special with
      | some r => r
      | none =>
        match c.next with
        | .err e c => .err e c
        | .ok none c => .err (eofErr c) c
        | .ok (some (.seqStart ..)) c =>
          let body : R (List Val) :=
            match shape with
            | .inl t => seqElems fuel cfg t c []
            | .inr ts => tupleElems fuel cfg ts c []
          match body with
          | .err e c => .err e c
          | .ok vs c =>
            -- `if let Some(Ev::SeqEnd) = self.ev.peek()? { next }`
            match c.peek with
            | .err e c => .err e c
            | .ok (some (.seqEnd _)) c =>
              match c.next with
              | .err e c => .err e c
              | .ok _ c => .ok (.seq vs) c
            | .ok _ c => .ok (.seq vs) c
        | .ok (some other) c => .err ⟨"Unexpected", other.loc, 0⟩ c

/-- `SA::next_element_seed` in a loop until it returns `None` (`Vec<T>` visitor) -/
def seqElems : Nat → Cfg → Ty → Cur → List Val → R (List Val)
  | 0, _, _, c, _ => .err ⟨"OutOfFuel", 0, 0⟩ c
  | fuel + 1, cfg, t, c, acc =>
    match c.peek with
    | .err e c => .err e c
    | .ok none c => .err (eofErr c) c
    | .ok (some (.seqEnd _)) c => .ok acc c
    | .ok (some ev) c =>
      let defined := ev.loc
      let ref := c.refLoc
      match deser fuel cfg t false false c with
      | .err e c => .err (attachAlias e ref defined) c
      | .ok v c => seqElems fuel cfg t c (acc ++ [v])

/-- tuple visitor: exactly one `next_element` per component -/
def tupleElems : Nat → Cfg → List Ty → Cur → List Val → R (List Val)
  | 0, _, _, c, _ => .err ⟨"OutOfFuel", 0, 0⟩ c
  | _ + 1, _, [], c, acc => .ok acc c
  | fuel + 1, cfg, t :: ts, c, acc =>
    match c.peek with
    | .err e c => .err e c
    | .ok none c => .err (eofErr c) c
    | .ok (some (.seqEnd _)) c => .err (serdeErr "invalid_length") c
    | .ok (some ev) c =>
      let defined := ev.loc
      let ref := c.refLoc
      match deser fuel cfg t false false c with
      | .err e c => .err (attachAlias e ref defined) c
      | .ok v c => tupleElems fuel cfg ts c (acc ++ [v])

/-- `deserialize_map` with the consumer's `visit_map`: `inl (k, v)` collects the delivered entries in
order; `inr (fields, deny)` is a derived struct visitor -/
def deserMapLike : Nat → Cfg → ((Ty × Ty) ⊕ (List (String × Ty) × Bool)) → Cur → R Val
  | 0, _, _, c => .err ⟨"OutOfFuel", 0, 0⟩ c
  | fuel + 1, cfg, shape, c =>
    match c.peek with
    | .err e c => .err e c
    | .ok pk c =>
      let isNull := match pk with
        | some (.scalar v tag _ st _ _) => tag == tagNull || scalarIsNullish v st
        | _ => false
      if isNull then
        match c.next with
        | .err e c => .err e c
        | .ok _ c =>
          match shape with
          | .inl _ => .ok (.map []) c
          | .inr (fields, _) => structFinish fields [] c
      else
        match c.next with
        | .err e c => .err e c
        | .ok none c => .err (eofErr c) c
        | .ok (some (.mapStart ..)) c =>
          match shape with
          | .inl (k, v) =>
            match mapEntries fuel cfg k v c {} [] with
            | .err e c => .err e c
            | .ok es c => .ok (.map es) c
          | .inr (fields, deny) =>
            match structEntries fuel cfg fields deny c {} [] with
            | .err e c => .err e c
            | .ok got c => structFinish fields got c
        | .ok (some other) c => .err ⟨"Unexpected", other.loc, 0⟩ c

/-- map visitor: `while let Some((k, v)) = map.next_entry()?` -/
def mapEntries : Nat → Cfg → Ty → Ty → Cur → MA → List (Val × Val) → R (List (Val × Val))
  | 0, _, _, _, c, _, _ => .err ⟨"OutOfFuel", 0, 0⟩ c
  | fuel + 1, cfg, kt, vt, c, m, acc =>
    match nextKey fuel cfg (.inl kt) c m with
    | .err e c => .err e c
    | .ok (.done, _) c => .ok acc c
    | .ok (.key k _, m) c =>
      match nextValue fuel cfg vt c m with
      | .err e c => .err e c
      | .ok (v, m) c => mapEntries fuel cfg kt vt c m (acc ++ [(k, v)])

/-- derived struct visitor: identifier keys, duplicate-field check, unknown fields ignored or rejected -/
def structEntries : Nat → Cfg → List (String × Ty) → Bool → Cur → MA → List (String × Val) → R (List (String × Val))
  | 0, _, _, _, c, _, _ => .err ⟨"OutOfFuel", 0, 0⟩ c
  | fuel + 1, cfg, fields, deny, c, m, acc =>
    match nextKey fuel cfg (.inr ()) c m with
    | .err e c => .err e c
    | .ok (.done, _) c => .ok acc c
    | .ok (.key (.str name) _, m) c =>
      match lookupField fields name with
      | some (_, t) =>
        let fname := String.ofList name
        if acc.any (fun p => p.1 == fname) then .err (serdeErr "duplicate_field") c
        else
          match nextValue fuel cfg t c m with
          | .err e c => .err e c
          | .ok (v, m) c => structEntries fuel cfg fields deny c m (acc ++ [(fname, v)])
      | none =>
        if deny then .err (serdeErr "unknown_field") c
        else
          -- `IgnoredAny` goes through `deserialize_ignored_any` = `deserialize_any`
          match nextValue fuel cfg .any c m with
          | .err e c => .err e c
          | .ok (_, m) c => structEntries fuel cfg fields deny c m acc
    | .ok (.key _ _, _) c => .err ⟨"ModelMisuse", 0, 0⟩ c

/-- `MA::next_key_seed`. `inl kt` = key seed of type `kt`; `inr ()` = field identifier. -/
def nextKey : Nat → Cfg → (Ty ⊕ Unit) → Cur → MA → R (KeyStep × MA)
  | 0, _, _, c, _ => .err ⟨"OutOfFuel", 0, 0⟩ c
  | fuel + 1, cfg, kseed, c, m =>
    match m.pending with
    | entry :: rest =>
      let m := { m with pending := rest }
      let fp := entry.key.fp
      let location := entry.key.loc
      let isDup := m.seenContains fp
      let skip : Option (Option DErr) :=   -- some none = continue; some (some e) = error; none = deliver
        if m.flushingMerges then (if isDup then some none else none)
        else match cfg.dup with
          | .error => if isDup then some (some ⟨"DuplicateMappingKey", location, 0⟩) else none
          | .firstWins => if isDup then some none else none
          | .lastWins => none
      match skip with
      | some (some e) => .err e c
      | some none => nextKey fuel cfg kseed c m
      | none =>
        -- explicit empty key captured as a one-entry mapping { null: V }
        let kemnDirect := match fp with | .map [] => true | _ => false
        let special : Option (List Ev × List Ev) :=
          match fp with
          | .map [(.scalar sv stag, _)] =>
            if !kemnDirect && fpNullish sv stag then
              match oneEntryMapSpans entry.key.events with
              | some (_, _, vs, ve) =>
                let inner := (entry.key.events.drop vs).take (ve - vs)
                let remaining := entry.key.events.take vs ++ entry.key.events.drop ve
                match remaining.head?, remaining.getLast? with
                | some s, some e => some ([s, e], inner)
                | _, _ => none
              | none => none
            else none
          | _ => none
        let (keyEvents, valueEvents, kemn) := match special with
          | some (ke, ve) => (ke, ve, true)
          | none => (entry.key.events, entry.value.events, kemnDirect)
        match deserKey fuel cfg kseed keyEvents kemn with
        | .error e => .err e c
        | .ok kv =>
          .ok (.key kv fp, { m with haveKey := true, pendingValue := some (valueEvents, entry.ref), seen := fp :: m.seen }) c
    | [] =>
      if m.flushingMerges then
        let (found, m) := enqueueNextMergeBatch m
        if found then nextKey fuel cfg kseed c m
        else .ok (.done, { m with flushingMerges := false }) c
      else
        match c.peek with
        | .err e c => .err e c
        | .ok none c => .err (eofErr c) c
        | .ok (some (.mapEnd _)) c =>
          match c.next with
          | .err e c => .err e c
          | .ok _ c =>
            if m.mergeStack.isEmpty then .ok (.done, m) c
            else
              let m := { m with flushingMerges := true }
              let (found, m) := enqueueNextMergeBatch m
              if found then nextKey fuel cfg kseed c m
              else .ok (.done, { m with flushingMerges := false }) c
        | .ok (some _) c =>
          -- `let key_is_alias = self.ev.at_alias()` before the capture: an alias key is captured from the
          -- anchor's buffer, its events carry the anchor's location (a flag only: stack frame size)
          let keyIsAlias := c.atAlias
          match capture fuel c with
          | .err e c => .err e c
          | .ok keyNode c =>
            if isMergeKey keyNode then
              match c.peek with
              | .err e c => .err e c
              | .ok _ c =>
                let mref := c.refLoc
                match pendingFromLive fuel c mref with
                | .err e c => .err e c
                | .ok entries c =>
                  let m := if entries.isEmpty then m else { m with mergeStack := entries :: m.mergeStack }
                  nextKey fuel cfg kseed c m
            else
              let fp := keyNode.fp
              let isDup := m.seenContains fp
              let act : Nat :=   -- 0 deliver, 1 error, 2 skip value
                match cfg.dup with
                | .error => if isDup then 1 else 0
                | .firstWins => if isDup then 2 else 0
                | .lastWins => 0
              -- the exhausted replay frame of an alias key stays until the next pump: `reference_location()` after the
              -- capture is still the alias token
              if act == 1 then .err ⟨"DuplicateMappingKey", if keyIsAlias then c.refLoc else keyNode.loc, 0⟩ c
              else if act == 2 then
                match skipOneNode fuel c with
                | .err e c => .err e c
                | .ok _ c => nextKey fuel cfg kseed c m
              else
                let kemnDirect := match fp with | .map [] => true | _ => false
                let oneEntryNullish := match fp with
                  | .map [(.scalar sv stag, _)] => fpNullish sv stag
                  | _ => false
                if oneEntryNullish then
                  match c.peek with
                  | .err e c => .err e c
                  | .ok _ c =>
                    let ref := c.refLoc
                    match capture fuel c with
                    | .err e c => .err e c
                    | .ok valueNode c =>
                      nextKey fuel cfg kseed c { m with pending := ⟨keyNode, valueNode, ref⟩ :: m.pending }
                else
                  match deserKey fuel cfg kseed keyNode.events kemnDirect with
                  | .error e => .err e c
                  | .ok kv => .ok (.key kv fp, { m with haveKey := true, pendingValue := none, seen := fp :: m.seen }) c

/-- `deserialize_recorded_key`: the key is deserialized from its own replay buffer with `in_key` -/
def deserKey : Nat → Cfg → (Ty ⊕ Unit) → List Ev → Bool → Except DErr Val
  | 0, _, _, _, _ => .error ⟨"OutOfFuel", 0, 0⟩
  | fuel + 1, cfg, kseed, events, kemn =>
    let c := Cur.replay events 0 none
    let location := c.refLoc
    let fix (e : DErr) : DErr := if e.loc == 0 && e.kind != "AliasError" then { e with loc := location } else e
    -- `expect_consumed`: the recorded key must be used up by the value built from it
    let consumed (c' : Cur) (v : Val) : Except DErr Val :=
      match c'.peek with
      | .ok (some ev) _ => .error ⟨"Unexpected", ev.loc, 0⟩
      | _ => .ok v
    match kseed with
    | .inl kt =>
      match deser fuel cfg kt true kemn c with
      | .err e _ => .error (fix e)
      | .ok v c' => consumed c' v
    | .inr () =>
      match deserStr cfg c with
      | .err e _ => .error (fix e)
      | .ok s c' => consumed c' (.str s)

/-- `MA::next_value_seed` -/
def nextValue : Nat → Cfg → Ty → Cur → MA → R (Val × MA)
  | 0, _, _, c, _ => .err ⟨"OutOfFuel", 0, 0⟩ c
  | fuel + 1, cfg, vt, c, m =>
    if !m.haveKey then .err ⟨"ValueRequestedBeforeKey", c.lastLoc, 0⟩ c else
    let m := { m with haveKey := false }
    match m.pendingValue with
    | some (events, ref) =>
      let m := { m with pendingValue := none }
      let rc := Cur.replay events 0 (some ref)
      let defined := match events[0]? with
        | some e => e.loc
        | none => 0
      match deser fuel cfg vt false false rc with
      | .err e _ => .err (attachAlias e ref defined) c
      | .ok v rc' =>
        -- `expect_consumed`: the recorded (merged / buffered) value must be used up
        match rc'.peek with
        | .ok (some ev) _ => .err ⟨"Unexpected", ev.loc, 0⟩ c
        | _ => .ok (v, m) c
    | none =>
      match c.peek with
      | .err e c => .err e c
      | .ok pk c =>
        let defined := match pk with
          | some e => e.loc
          | none => c.lastLoc
        let ref := c.refLoc
        match deser fuel cfg vt false false c with
        | .err e c => .err (attachAlias e ref defined) c
        | .ok v c => .ok (v, m) c

/-- `deserialize_enum` with a derived enum visitor -/
def deserEnum : Nat → Cfg → String → List (String × VTy) → Cur → R Val
  | 0, _, _, _, c => .err ⟨"OutOfFuel", 0, 0⟩ c
  | fuel + 1, cfg, name, variants, c =>
    match c.peek with
    | .err e c => .err e c
    | .ok none c => .err (eofErr c) c
    | .ok (some (.scalar v tag rawTag st anchor l)) c =>
      let tagged := simpleTaggedEnumName rawTag tag
      if cfg.noSchema && tag != tagString && maybeNotString v st then
        match c.next with
        | .err e c => .err e c
        | .ok _ c => .err ⟨"QuotingRequired", l, 0⟩ c
      else
        let taggedVariant := match tagged with
          | some tn => if (lookupField variants tn).isSome then some tn else none
          | none => none
        match taggedVariant with
        | some tn =>
          -- Mode::TaggedNewtype: payload replayed without the tag, as `!!str`; reached through an alias it
          -- keeps the alias token as use site (fix e5db46c)
          let c0 := c
          match c.next with
          | .err e c => .err e c
          | .ok _ c =>
            let rc := Cur.replay [.scalar v tagString none st anchor l] 0 (tagUseSite c0 l)
            match variantPayload fuel cfg variants tn l false true rc with
            | .err e _ => .err e c
            | .ok val _ => .ok val c
        | none =>
          match c.next with
          | .err e c => .err e c
          | .ok _ c =>
            match tagged with
            | some tn =>
              if String.ofList tn != name then .err ⟨"TaggedEnumMismatch", l, 0⟩ c
              else variantPayload fuel cfg variants v l false false c
            | none => variantPayload fuel cfg variants v l false false c
    | .ok (some (.mapStart ..)) c =>
      match c.next with
      | .err e c => .err e c
      | .ok _ c =>
        match c.next with
        | .err e c => .err e c
        | .ok none c => .err (eofErr c) c
        | .ok (some (.scalar v tag _ st _ l)) c =>
          if cfg.noSchema && tag != tagString && maybeNotString v st then .err ⟨"QuotingRequired", l, 0⟩ c
          else variantPayload fuel cfg variants v l true false c
        | .ok (some other) c => .err ⟨"ExpectedStringKeyForExternallyTaggedEnum", other.loc, 0⟩ c
    | .ok (some (.seqStart anchor tag rawTag l)) c =>
      match simpleTaggedEnumName rawTag tag with
      | some tn =>
        if (lookupField variants tn).isSome then
          let c0 := c
          match c.next with
          | .err e c => .err e c
          | .ok _ c =>
            match collectTaggedSeq fuel c 1 [.seqStart anchor tagNone none l] with
            | .err e c => .err e c
            | .ok evs c =>
              let rc := Cur.replay evs 0 (tagUseSite c0 l)
              match variantPayload fuel cfg variants tn l false true rc with
              | .err e _ => .err e c
              | .ok val _ => .ok val c
        else .err ⟨"ExternallyTaggedEnumExpectedScalarOrMapping", l, 0⟩ c
      | none => .err ⟨"ExternallyTaggedEnumExpectedScalarOrMapping", l, 0⟩ c
    | .ok (some (.seqEnd l)) c => .err ⟨"UnexpectedSequenceEnd", l, 0⟩ c
    | .ok (some (.mapEnd l)) c => .err ⟨"UnexpectedMappingEnd", l, 0⟩ c

/-- events of a tagged sequence up to its matching end -/
def collectTaggedSeq : Nat → Cur → Nat → List Ev → R (List Ev)
  | 0, c, _, _ => .err ⟨"OutOfFuel", 0, 0⟩ c
  | fuel + 1, c, depth, acc =>
    if depth == 0 then .ok acc c else
    match c.next with
    | .err e c => .err e c
    | .ok none c => .err (eofErr c) c
    | .ok (some ev) c =>
      match ev with
      | .seqStart .. | .mapStart .. => collectTaggedSeq fuel c (depth + 1) (acc ++ [ev])
      | .seqEnd _ | .mapEnd _ => collectTaggedSeq fuel c (depth - 1) (acc ++ [ev])
      | .scalar .. => collectTaggedSeq fuel c depth (acc ++ [ev])

/-- `variant_seed` (identify the variant by name) followed by the `VariantAccess` call the derived
visitor makes for that variant's kind; `mapMode` = `{ Variant: payload }` notation -/
def variantPayload : Nat → Cfg → List (String × VTy) → List Char → Loc → (mapMode tagged : Bool) → Cur → R Val
  | 0, _, _, _, _, _, _, c => .err ⟨"OutOfFuel", 0, 0⟩ c
  | fuel + 1, cfg, variants, vname, vloc, mapMode, tagged, c =>
    match lookupField variants vname with
    | none => .err ⟨"SerdeVariantId", vloc, 0⟩ c
    | some (_, vt) =>
      let name := String.ofList vname
      let expectMapEnd (c : Cur) (v : Val) : R Val :=
        if tagged then
          -- `expect_payload_consumed`: the replayed payload must be used up
          match c.peek with
          | .err e c => .err e c
          | .ok none c => .ok v c
          | .ok (some ev) c => .err ⟨"Unexpected", ev.loc, 0⟩ c
        else
        if !mapMode then .ok v c else
        match c.next with
        | .err e c => .err e c
        | .ok none c => .err (eofErr c) c
        | .ok (some (.mapEnd _)) c => .ok v c
        | .ok (some other) c => .err ⟨"ExpectedMappingEndAfterEnumVariantValue", other.loc, 0⟩ c
      match vt with
      | .unit =>
        if mapMode then
          match c.peek with
          | .err e c => .err e c
          | .ok none c => .err (eofErr c) c
          | .ok (some (.mapEnd _)) c =>
            match c.next with
            | .err e c => .err e c
            | .ok _ c => .ok (.variant name .unit) c
          | .ok (some (.scalar s _ _ st _ l)) c =>
            if scalarIsNullish s st then
              match c.next with
              | .err e c => .err e c
              | .ok _ c => expectMapEnd c (.variant name .unit)
            else .err ⟨"UnexpectedValueForUnitEnumVariant", l, 0⟩ c
          | .ok (some other) c => .err ⟨"UnexpectedValueForUnitEnumVariant", other.loc, 0⟩ c
        else .ok (.variant name .unit) c
      | .newtype t =>
        if !mapMode && !tagged then
          -- scalar form `Variant`: the payload is read from an empty replay source, never from the stream
          match deser fuel cfg t false false (Cur.replay [] 0 none) with
          | .err e _ => .err e c
          | .ok v _ => .ok (.variant name v) c
        else
        match c.peek with
        | .err e c => .err e c
        | .ok pk c =>
          let defined := match pk with
            | some e => e.loc
            | none => c.lastLoc
          let ref := c.refLoc
          match deser fuel cfg t false false c with
          | .err e c => .err (if tagged then e else attachAlias e ref defined) c
          | .ok v c => expectMapEnd c (.variant name v)
      | .tuple ts =>
        if !mapMode && !tagged then
          match deserSeqLike fuel cfg (.inr ts) (Cur.replay [] 0 none) with
          | .err e _ => .err e c
          | .ok v _ => .ok (.variant name v) c
        else
        match deserSeqLike fuel cfg (.inr ts) c with
        | .err e c => .err e c
        | .ok v c => expectMapEnd c (.variant name v)
      | .struct fields =>
        if !mapMode && !tagged then
          match deserMapLike fuel cfg (.inr (fields, false)) (Cur.replay [] 0 none) with
          | .err e _ => .err e c
          | .ok v _ => .ok (.variant name v) c
        else
        match deserMapLike fuel cfg (.inr (fields, false)) c with
        | .err e c => .err e c
        | .ok v c => expectMapEnd c (.variant name v)

end

end SaphyrVerif.De
