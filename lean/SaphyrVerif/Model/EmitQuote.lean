import SaphyrVerif.Model.Emitter
import SaphyrVerif.Model.Scalars
import SaphyrVerif.Model.Float
/-!
Concrete instance `implFns : ScalarFns` = transcription of `src/ser_quoting.rs`
(`is_numeric_looking`, `is_ambiguous`, `is_ambiguous_value`, `is_plain_safe`, `is_plain_value_safe`,
`contains_any_or_is_control`), `YamlSerializer::write_quoted` and the quoted arm of
`KeyScalarSink::serialize_str`.  Used only to *instantiate* the emitter model in the differential
run; the C13/C20 theorems quantify over every `ScalarFns` that satisfies the safe-leaf contract, so
they do not depend on this file (scalar quoting is property C12).
-/
namespace SaphyrVerif.Emit
open SaphyrVerif

def isDigit (c : Char) : Bool := '0' ≤ c && c ≤ '9'
def isDigitU (c : Char) : Bool := isDigit c || c == '_'
def isHexU (c : Char) : Bool := isDigit c || ('a' ≤ c && c ≤ 'f') || ('A' ≤ c && c ≤ 'F') || c == '_'
def isOctU (c : Char) : Bool := ('0' ≤ c && c ≤ '7') || c == '_'
def isBinU (c : Char) : Bool := c == '0' || c == '1' || c == '_'

/-- `[0-9][0-9_]*` -/
def isDigs : List Char → Bool
  | [] => false
  | c :: cs => isDigit c && cs.all isDigitU

/-- `[+-]?[0-9][0-9_]*` (what follows `[eE]`) -/
def isExpBody : List Char → Bool
  | '+' :: r => isDigs r
  | '-' :: r => isDigs r
  | r => isDigs r

def isE (c : Char) : Bool := c == 'e' || c == 'E'

/-- split at the first character satisfying `p`: (before, after-without-it) or `none` -/
def splitAtFirst (p : Char → Bool) : List Char → Option (List Char × List Char)
  | [] => none
  | c :: cs => if p c then some ([], cs) else (splitAtFirst p cs).map fun (a, b) => (c :: a, b)

/-- the regular expression of `is_numeric_looking`, as a recogniser -/
def isNumericLooking (s : List Char) : Bool :=
  let t := match s with
    | '+' :: r => r
    | '-' :: r => r
    | _ => s
  let radix := match t with
    | '0' :: 'x' :: r => !r.isEmpty && r.all isHexU
    | '0' :: 'o' :: r => !r.isEmpty && r.all isOctU
    | '0' :: 'b' :: r => !r.isEmpty && r.all isBinU
    | _ => false
  let decimal :=
    match splitAtFirst (· == '.') t with
    | some (l, r) =>
      -- mantissa part after the dot, optional exponent
      let (m, e) := match splitAtFirst isE r with
        | some (m, e) => (m, some e)
        | none => (r, none)
      let expOk := match e with | some e => isExpBody e | none => true
      if l.isEmpty then isDigs m && expOk
      else isDigs l && m.all isDigitU && expOk
    | none =>
      match splitAtFirst isE t with
      | some (l, e) => isDigs l && isExpBody e
      | none => isDigs t
  radix || decimal

/-- `is_special_inf_nan_ascii` -/
def isSpecialInfNan (s : List Char) : Bool :=
  let t := match s with
    | '+' :: r => r
    | '-' :: r => r
    | _ => s
  match t with
  | '.' :: a :: b :: c :: [] =>
    let w := [asciiLower a, asciiLower b, asciiLower c]
    -- `b | 0x20` on bytes: equal to ASCII lowering for letters; for the comparison with
    -- "nan"/"inf" only letters can match
    (a.toNat < 128 && b.toNat < 128 && c.toNat < 128) && (w == "nan".toList || w == "inf".toList)
  | _ => false

/-- `is_ambiguous` -/
def isAmbiguous (s : List Char) : Bool :=
  s.isEmpty || s == ['<', '<'] || s == ['~'] || eqIgnoreAsciiCase s "null".toList || eqIgnoreAsciiCase s "true".toList ||
  eqIgnoreAsciiCase s "false".toList || isSpecialInfNan s || isNumericLooking s ||
  -- whatever the crate's own schema-less reader would take for a number
  (Scalars.parseIntSigned 128 false s).isSome || (Scalars.parseIntUnsigned 128 false s).isSome ||
  (Float.parseYaml12Float 64 s).isSome

/-- `is_unsafe_plain_shape` -/
def isUnsafePlainShapeImpl (s : List Char) : Bool :=
  s.getLast? == some ' ' || s.head? == some (Char.ofNat 0xFEFF) ||
  ((s.take 3 == "---".toList || s.take 3 == "...".toList) &&
    (match s.drop 3 with
     | [] => true
     | c :: _ => c == ' ' || c == '\t'))

/-- `s.ends_with(" -")` -/
def endsWithSpaceDash (s : List Char) : Bool := s.reverse.take 2 == ['-', ' ']

/-- `is_ambiguous_value` -/
def isAmbiguousValue (s : List Char) (yaml12 : Bool) : Bool :=
  isAmbiguous s || (!yaml12 && (Scalars.parseYaml11Bool s).isSome) ||
  eqIgnoreAsciiCase s "nan".toList || eqIgnoreAsciiCase s "inf".toList ||
  eqIgnoreAsciiCase s "+inf".toList || eqIgnoreAsciiCase s "-inf".toList

/-- `contains_any_or_is_control` (with a non-empty `values` slice: any control character counts) -/
def containsAnyOrIsControl (s : List Char) (values : List Char) : Bool :=
  s.any fun x => values.contains x || isControl x

/-- the shared first-character test of `is_plain_safe` / `is_plain_value_safe` (after the
ambiguity test): `false` = not plain-safe -/
def firstCharOk (s : List Char) : Bool :=
  match s with
  | [] => false
  | c0 :: rest =>
    if c0.toNat < 128 && isAsciiWhitespace c0 then false
    else if c0 == '-' || c0 == '?' then
      match rest with
      | [] => false
      | c1 :: _ => !(c1.toNat < 128 && isAsciiWhitespace c1)
    else if c0 == ',' then false
    else !(":[]{}#&*!|>'\"%@`".toList.contains c0)

/-- `is_plain_safe` -/
def isPlainSafeImpl (s : List Char) : Bool :=
  if isAmbiguous s then false
  else if !firstCharOk s then false
  else !containsAnyOrIsControl s [':', '#']

/-- `", "`-free substring test `s.contains(": ")` -/
def containsColonSpace : List Char → Bool
  | ':' :: ' ' :: _ => true
  | _ :: cs => containsColonSpace cs
  | [] => false

/-- `is_plain_value_safe` -/
def isPlainValueSafeImpl (s : List Char) (yaml12 inFlow : Bool) : Bool :=
  if isAmbiguousValue s yaml12 then false
  else if inFlow && endsWithSpaceDash s then false
  else if !firstCharOk s then false
  else if containsColonSpace s || (trim s).getLast? == some ':' then false
  else if inFlow then !containsAnyOrIsControl s [',', '[', ']', '{', '}', '#']
  else !containsAnyOrIsControl s ['#']

def hexUpper (n : Nat) : Char := if n < 10 then Char.ofNat (48 + n) else Char.ofNat (55 + n)

/-- `{:02X}` -/
def hex2 (n : Nat) : List Char := [hexUpper (n / 16 % 16), hexUpper (n % 16)]
/-- `{:04X}` -/
def hex4 (n : Nat) : List Char := [hexUpper (n / 4096 % 16), hexUpper (n / 256 % 16), hexUpper (n / 16 % 16), hexUpper (n % 16)]

/-- one character of `write_quoted` -/
def quotedChar (c : Char) : List Char :=
  let n := c.toNat
  if c == '\\' then "\\\\".toList
  else if c == '"' then "\\\"".toList
  else if n == 0 then "\\0".toList
  else if n == 7 then "\\a".toList
  else if n == 8 then "\\b".toList
  else if n == 9 then "\\t".toList
  else if n == 10 then "\\n".toList
  else if n == 11 then "\\v".toList
  else if n == 12 then "\\f".toList
  else if n == 13 then "\\r".toList
  else if n == 0x1b then "\\e".toList
  else if n == 0xFEFF then "\\uFEFF".toList
  else if n == 0x85 then "\\N".toList
  else if n == 0x2028 then "\\L".toList
  else if n == 0x2029 then "\\P".toList
  else if n ≤ 0xFF && (isControl c || (0x7F ≤ n && n ≤ 0x9F)) then '\\' :: 'x' :: hex2 n
  else if n ≤ 0xFFFF && (isControl c || (0x7F ≤ n && n ≤ 0x9F)) then '\\' :: 'u' :: hex4 n
  else [c]

/-- `write_quoted` -/
def writeQuotedImpl (s : List Char) : List Char := '"' :: s.flatMap quotedChar ++ ['"']

/-- one character of the quoted arm of `KeyScalarSink::serialize_str` -/
def keyQuotedChar (c : Char) : List Char :=
  if c == '\\' then "\\\\".toList
  else if c == '"' then "\\\"".toList
  else if c == '\n' then "\\n".toList
  else if c == '\r' then "\\r".toList
  else if c == '\t' then "\\t".toList
  else if isControl c then '\\' :: 'u' :: hex4 c.toNat
  else [c]

def keyQuotedImpl (s : List Char) : List Char := '"' :: s.flatMap keyQuotedChar ++ ['"']

/-- the crate's own scalar-text functions -/
def implFns : ScalarFns where
  isPlainSafe := isPlainSafeImpl
  isPlainValueSafe := isPlainValueSafeImpl
  writeQuoted := writeQuotedImpl
  keyQuoted := keyQuotedImpl
  isUnsafePlainShape := isUnsafePlainShapeImpl

end SaphyrVerif.Emit
