import SaphyrVerif.Model.De
/-!
Entry-point protocols of `src/lib.rs` / `src/de/with_deserializer.rs` over the pump and the typed
deserializer: single document (value, then `peek` must see end of input; a scan error after a seen
document-end marker is ignored; then `finish`), `from_multiple*` (batch) and the streaming iterator
`read*` (per-document budget, recovery with `skip_to_next_document`).
-/
namespace SaphyrVerif.Entry
open SaphyrVerif SaphyrVerif.Scalars SaphyrVerif.Pump SaphyrVerif.Budget SaphyrVerif.De

/-- enough fuel for any run over `n` parser items (each recursive call consumes an event or descends
into the type; replayed events are bounded by the alias limits) — the driver uses a generous constant -/
def fuelFor (n : Nat) : Nat := 64 * n + 100000

def pumpOf : Cur → Option Pump
  | .live p _ => some p
  | .replay .. => none

/-- `finish()` on the live cursor -/
def finishCur (c : Cur) : Option DErr :=
  match c with
  | .live p _ => (Pump.finish p).1.map ofPErr
  | .replay .. => none

/-- `enforce_single_document_and_finish` -/
def enforceSingle (c : Cur) : Option DErr :=
  match c.peek with
  | .ok (some _) c => some ⟨"MultipleDocuments", c.lastLoc, 0⟩
  | .ok none c => finishCur c
  | .err e c =>
    let sde := match c with | .live p _ => p.seenDocEnd | _ => false
    -- only scanner errors (`is_trailing_garbage`) are ignored after a document end marker
    if sde && (e.kind == "ExternalMessage" || e.kind == "UnknownAnchor") then finishCur c else some e

/-- `from_str_with_options` / `with_deserializer_from_str_with_options` / `from_reader_with_options` -/
def fromSingle (cfg : Cfg) (ty : Ty) (p : Pump) (items : List RawItem) : Except DErr Val :=
  let c := Cur.live p items
  match deser (fuelFor items.length) cfg ty false false c with
  | .err e c =>
    let syn := match c with | .live p _ => p.synthesizedNull | _ => false
    if syn then .error ⟨"Eof", c.lastLoc, 0⟩ else .error e
  | .ok v c =>
    match enforceSingle c with
    | some e => .error e
    | none => .ok v

/-- `from_multiple_with_options`: loop over the event stream, skipping null-like root scalars -/
def multiLoop (cfg : Cfg) (ty : Ty) : Nat → Cur → List Val → Except DErr (List Val)
  | 0, _, _ => .error ⟨"OutOfFuel", 0, 0⟩
  | fuel + 1, c, acc =>
    match c.peek with
    | .err e _ => .error e
    | .ok none c =>
      match finishCur c with
      | some e => .error e
      | none => .ok acc
    | .ok (some (.seqEnd l)) _ => .error ⟨"UnexpectedSequenceEnd", l, 0⟩
    | .ok (some (.mapEnd l)) _ => .error ⟨"UnexpectedMappingEnd", l, 0⟩
    | .ok (some (.scalar v _ _ st _ _)) c =>
      if scalarIsNullish v st then
        match c.next with
        | .err e _ => .error e
        | .ok _ c => multiLoop cfg ty fuel c acc
      else
        match deser (fuelFor 100000) cfg ty false false c with
        | .err e _ => .error e
        | .ok v c => multiLoop cfg ty fuel c (acc ++ [v])
    | .ok (some _) c =>
      match deser (fuelFor 100000) cfg ty false false c with
      | .err e _ => .error e
      | .ok v c => multiLoop cfg ty fuel c (acc ++ [v])

def fromMultiple (cfg : Cfg) (ty : Ty) (p : Pump) (items : List RawItem) : Except DErr (List Val) :=
  multiLoop cfg ty (items.length + 10) (Cur.live p items) []

/-- items yielded by the streaming iterator `read_with_options` (`ReadIter::next` until `None`) -/
def iterLoop (cfg : Cfg) (ty : Ty) : Nat → Pump → List RawItem → List (Except DErr Val) → List (Except DErr Val)
  | 0, _, _, acc => acc
  | fuel + 1, p, inp, acc =>
    match Cur.peek (.live p inp) with
    | .err e _ => acc ++ [.error e]          -- finished := true
    | .ok none c =>
      match finishCur c with
      | some e => acc ++ [.error e]
      | none => acc
    | .ok (some ev) c =>
      let isNull := match ev with
        | .scalar v _ _ st _ _ => scalarIsNullish v st
        | _ => false
      let endErr : Option DErr := match ev with
        | .seqEnd l => some ⟨"UnexpectedSequenceEnd", l, 0⟩
        | .mapEnd l => some ⟨"UnexpectedMappingEnd", l, 0⟩
        | _ => none
      match endErr, c with
      | some e, .live p inp =>
        -- a container end where a document should start: error, then recover at the next document
        let (found, p, inp) := Pump.skipToNextDocument p inp
        if found then iterLoop cfg ty fuel p inp (acc ++ [.error e]) else acc ++ [.error e]
      | some _, _ => acc
      | none, _ =>
      if isNull then
        match c.next with
        | .ok _ (.live p inp) => iterLoop cfg ty fuel p inp acc
        | .err e _ => acc ++ [.error e]      -- finished := true (the error is no longer discarded)
        | _ => acc
      else
        match deser (fuelFor 100000) cfg ty false false c with
        | .ok v (.live p inp) => iterLoop cfg ty fuel p inp (acc ++ [.ok v])
        | .err e (.live p inp) =>
          let (found, p, inp) := Pump.skipToNextDocument p inp
          if found then iterLoop cfg ty fuel p inp (acc ++ [.error e]) else acc ++ [.error e]
        | _ => acc

def readIter (cfg : Cfg) (ty : Ty) (p : Pump) (items : List RawItem) : List (Except DErr Val) :=
  iterLoop cfg ty (items.length + 10) p items []

end SaphyrVerif.Entry
