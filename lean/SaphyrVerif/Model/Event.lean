import SaphyrVerif.Model.Scalars
/-!
Raw parser events (`saphyr_parser::Event`) as the models see them. The scanner is external: models
start at its event stream. Locations are opaque numbers (`0` = unknown).
-/
namespace SaphyrVerif
open SaphyrVerif.Scalars

abbrev Loc := Nat

/-- UTF-8 length of a character / string (Rust `str::len`). -/
def utf8LenChar (c : Char) : Nat :=
  let n := c.toNat
  if n < 0x80 then 1 else if n < 0x800 then 2 else if n < 0x10000 then 3 else 4

def utf8Len (s : List Char) : Nat := (s.map utf8LenChar).sum

/-- `saphyr_parser::Event`. `tag` is the raw tag text as `Tag::to_string` prints it. -/
inductive Raw where
  | streamStart
  | streamEnd
  | docStart (explicit : Bool)
  | docEnd
  | scalar (value : List Char) (style : Style) (anchor : Nat) (tag : Option (List Char))
  | seqStart (anchor : Nat) (tag : Option (List Char))
  | seqEnd
  | mapStart (anchor : Nat) (tag : Option (List Char))
  | mapEnd
  | alias (id : Nat)
  | nothing
deriving Repr, DecidableEq, Inhabited

end SaphyrVerif
