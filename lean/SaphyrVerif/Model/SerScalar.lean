import SaphyrVerif.Basic.Text
import SaphyrVerif.Model.Scalars
import SaphyrVerif.Model.Float
/-!
Model of the scalar *writer* of serde-saphyr (C12): `src/ser_quoting.rs` (plain-safety predicates,
the numeric-looking regex as an explicit recogniser), the helpers of `YamlSerializer` in `src/ser.rs`
(`write_quoted`, `write_single_quoted`, `needs_double_quotes`, `write_plain_or_quoted[_value]`,
`KeyScalarSink::serialize_str`, `serialize_str` with the automatic literal / folded selection, indentation
indicator and chomping), `src/wrapping.rs` (`first_line_leading_spaces`, `write_folded_block`) and
`src/zmij_format.rs` (`push_float_string`; zmij's digit string is an input).

Shaped like the Rust code: same branch order, same state variables. Strings are `List Char`; the Rust
code indexes *bytes* in a few places (`bytes[0]`, `bytes[1]`, byte length of `.nan`), these are noted
where the character-level reading is used. Import-free apart from `Basic.Text` / `Model.Scalars`.
-/
namespace SaphyrVerif.SerScalar
open SaphyrVerif SaphyrVerif.Scalars

/-- outcome of an emitter: `err` = the Rust function returns `Err`, `panic` = it would panic -/
inductive Res (α : Type) where
  | ok : α → Res α
  | err : Res α
  | panic : Res α
deriving DecidableEq, Repr

/-! ## character classes -/

/-- Rust `char::is_control` = general category Cc. -/
def isControl (c : Char) : Bool := c.toNat ≤ 0x1F || (0x7F ≤ c.toNat && c.toNat ≤ 0x9F)

def isDigit (c : Char) : Bool := 48 ≤ c.toNat && c.toNat ≤ 57
def isHexDigit (c : Char) : Bool :=
  isDigit c || (65 ≤ c.toNat && c.toNat ≤ 70) || (97 ≤ c.toNat && c.toNat ≤ 102)
def isOctDigit (c : Char) : Bool := 48 ≤ c.toNat && c.toNat ≤ 55
def isBinDigit (c : Char) : Bool := c == '0' || c == '1'
/-- `[0-9_]` -/
def isDU (c : Char) : Bool := isDigit c || c == '_'

/-! ## `is_numeric_looking`: the regex, as an explicit recogniser

```
^[+-]?(?: 0x[0-9A-Fa-f_]+ | 0o[0-7_]+ | 0b[01_]+
        | (?:[0-9][0-9_]*\.[0-9_]*|\.[0-9][0-9_]*)(?:[eE][+-]?[0-9][0-9_]*)?
        | [0-9][0-9_]*[eE][+-]?[0-9][0-9_]*
        | [0-9][0-9_]* )$
```
The classes `[0-9_]`, `.`, `[eE]`, `[+-]` are pairwise disjoint, so the greedy left-to-right reading below
accepts exactly the regex language (no backtracking can change the outcome). -/

/-- `[eE][+-]?[0-9][0-9_]*$` -/
def expTail (r : List Char) : Bool :=
  match r with
  | e :: r1 =>
    (e == 'e' || e == 'E') &&
      (let r2 := match r1 with
        | '+' :: t => t
        | '-' :: t => t
        | _ => r1
       match r2 with
       | d :: t => isDigit d && t.all isDU
       | [] => false)
  | [] => false

/-- the decimal alternatives, anchored at both ends -/
def decimalLooking (r : List Char) : Bool :=
  match r with
  | '.' :: d :: t =>
    isDigit d && (let rest := t.dropWhile isDU; rest.isEmpty || expTail rest)
  | d :: t =>
    isDigit d &&
      (match t.dropWhile isDU with
       | [] => true
       | '.' :: t2 => (let rest := t2.dropWhile isDU; rest.isEmpty || expTail rest)
       | rest => expTail rest)
  | [] => false

def radixLooking (r : List Char) : Bool :=
  match r with
  | '0' :: 'x' :: d => !d.isEmpty && d.all (fun c => isHexDigit c || c == '_')
  | '0' :: 'o' :: d => !d.isEmpty && d.all (fun c => isOctDigit c || c == '_')
  | '0' :: 'b' :: d => !d.isEmpty && d.all (fun c => isBinDigit c || c == '_')
  | _ => false

/-- `is_numeric_looking` -/
def isNumericLooking (s : List Char) : Bool :=
  let r := match s with
    | '+' :: t => t
    | '-' :: t => t
    | _ => s
  radixLooking r || decimalLooking r

/-! ## `is_ambiguous`, `is_ambiguous_value` -/

/-- `is_special_inf_nan_ascii`: optional sign, `.`, then exactly three bytes spelling nan / inf in any
ASCII case (`b | 0x20`; bytes ≥ 0x80 never match, so "three bytes" = "three ASCII characters"). -/
def isSpecialInfNan (s : List Char) : Bool :=
  let r := match s with
    | '+' :: t => t
    | '-' :: t => t
    | _ => s
  match r with
  | ['.', a, b, c] =>
    ((a == 'n' || a == 'N') && (b == 'a' || b == 'A') && (c == 'n' || c == 'N')) ||
    ((a == 'i' || a == 'I') && (b == 'n' || b == 'N') && (c == 'f' || c == 'F'))
  | _ => false

/-- the crate's own readers take the text for a number: `parse_int_signed::<i128>`,
`parse_int_unsigned::<u128>` or `parse_yaml12_float::<f64>` (all with the default options) accept it -/
def readsAsNumber (s : List Char) : Bool :=
  (parseIntSigned 128 false s).isSome || (parseIntUnsigned 128 false s).isSome ||
    (Float.parseYaml12Float 64 s).isSome

/-- `is_ambiguous` -/
def isAmbiguous (s : List Char) : Bool :=
  if s.isEmpty then true
  else if s == ['<', '<'] then true
  else if s == ['~'] || eqIgnoreAsciiCase s "null".toList || eqIgnoreAsciiCase s "true".toList
        || eqIgnoreAsciiCase s "false".toList then true
  else if isSpecialInfNan s then true
  else if isNumericLooking s then true
  else if readsAsNumber s then true
  else false

def startsWithBom (s : List Char) : Bool :=
  match s with
  | c :: _ => c.toNat == 0xFEFF
  | [] => false

/-- after `---` / `...`: the end, a space or a tab -/
def markerTail (r : List Char) : Bool :=
  match r with
  | [] => true
  | d :: _ => d == ' ' || d == '\t'

def docMarkerLike : List Char → Bool
  | a :: b :: c :: r =>
    ((a == '-' && b == '-' && c == '-') || (a == '.' && b == '.' && c == '.')) && markerTail r
  | _ => false

/-- `is_unsafe_plain_shape`: trailing blank, leading U+FEFF, `---` / `...` followed by the end, a space or
a tab (byte tests on ASCII bytes = character tests) -/
def isUnsafePlainShape (s : List Char) : Bool :=
  s.getLast? == some ' ' || startsWithBom s || docMarkerLike s

/-- `is_ambiguous_value` -/
def isAmbiguousValue (s : List Char) (yaml12 : Bool) : Bool :=
  if isAmbiguous s then true
  else if !yaml12 && (parseYaml11Bool s).isSome then true
  else eqIgnoreAsciiCase s "nan".toList || eqIgnoreAsciiCase s "inf".toList
    || eqIgnoreAsciiCase s "+inf".toList || eqIgnoreAsciiCase s "-inf".toList

/-! ## `is_plain_safe`, `is_plain_value_safe` -/

/-- the indicator list of the `match bytes[0]` in both predicates (after `-`, `?`, `,`) -/
def startIndicators : List Char :=
  [':', '[', ']', '{', '}', '#', '&', '*', '!', '|', '>', '\'', '"', '%', '@', '`']

/-- after a leading `-` / `?`: `bytes.len() == 1` or `bytes[1].is_ascii_whitespace()` -/
def secondRejects : List Char → Bool
  | [] => true
  | c1 :: _ => isAsciiWhitespace c1

/-- The common head test of `is_plain_safe` / `is_plain_value_safe` after the ambiguity test:
`true` = "return false". `bytes[0]` cannot panic: the empty string is ambiguous and returns earlier;
here the empty case is therefore unreachable and answered like the panic-free reading. -/
def headRejects (s : List Char) : Bool :=
  match s with
  | [] => true
  | c0 :: rest =>
    if isAsciiWhitespace c0 then true
    else if c0 == '-' || c0 == '?' then secondRejects rest
    else if c0 == ',' then true
    else startIndicators.contains c0

/-- `contains_any_or_is_control` (for a non-empty `values`) -/
def containsAnyOrIsControl (s : List Char) (values : List Char) : Bool :=
  s.any (fun x => values.any (fun v => x == v || isControl x))

/-- `is_plain_safe` -/
def isPlainSafe (s : List Char) : Bool :=
  if isAmbiguous s then false
  else if headRejects s then false
  else !containsAnyOrIsControl s [':', '#']

/-- `str::contains(": ")` -/
def containsColonSpace : List Char → Bool
  | [] => false
  | [_] => false
  | c :: d :: r => (c == ':' && d == ' ') || containsColonSpace (d :: r)

/-- `str::ends_with(':')` -/
def endsWithColon (s : List Char) : Bool := s.getLast? == some ':'

/-- `s.ends_with(" -")` -/
def endsWithBlankDash (s : List Char) : Bool := [' ', '-'].isSuffixOf s

/-- `is_plain_value_safe` -/
def isPlainValueSafe (s : List Char) (yaml12 inFlow : Bool) : Bool :=
  if isAmbiguousValue s yaml12 then false
  else if inFlow && endsWithBlankDash s then false
  else if headRejects s then false
  else if containsColonSpace s || endsWithColon (trim s) then false
  else if inFlow then !containsAnyOrIsControl s [',', '[', ']', '{', '}', '#']
  else !containsAnyOrIsControl s ['#']

/-! ## quoted writers -/

def hexUp (n : Nat) : Char := if n < 10 then Char.ofNat (48 + n) else Char.ofNat (55 + n)
/-- `{:02X}` for n ≤ 0xFF -/
def hex2 (n : Nat) : List Char := [hexUp (n / 16), hexUp (n % 16)]
/-- `{:04X}` for n ≤ 0xFFFF (wider values print more digits; only reached for n ≤ 0x9F) -/
def hex4 (n : Nat) : List Char := [hexUp (n / 4096 % 16), hexUp (n / 256 % 16), hexUp (n / 16 % 16), hexUp (n % 16)]

/-- one arm of the `match ch` in `write_quoted` -/
def dqEscape (c : Char) : List Char :=
  if c == '\\' then ['\\', '\\']
  else if c == '"' then ['\\', '"']
  else if c.toNat == 0 then ['\\', '0']
  else if c.toNat == 7 then ['\\', 'a']
  else if c.toNat == 8 then ['\\', 'b']
  else if c == '\t' then ['\\', 't']
  else if c == '\n' then ['\\', 'n']
  else if c.toNat == 0xB then ['\\', 'v']
  else if c.toNat == 0xC then ['\\', 'f']
  else if c == '\r' then ['\\', 'r']
  else if c.toNat == 0x1B then ['\\', 'e']
  else if c.toNat == 0xFEFF then "\\uFEFF".toList
  else if c.toNat == 0x85 then ['\\', 'N']
  else if c.toNat == 0x2028 then ['\\', 'L']
  else if c.toNat == 0x2029 then ['\\', 'P']
  else if c.toNat ≤ 0xFF && (isControl c || (0x7F ≤ c.toNat && c.toNat ≤ 0x9F)) then '\\' :: 'x' :: hex2 c.toNat
  else if c.toNat ≤ 0xFFFF && (isControl c || (0x7F ≤ c.toNat && c.toNat ≤ 0x9F)) then '\\' :: 'u' :: hex4 c.toNat
  else [c]

/-- `write_quoted` -/
def writeQuoted (s : List Char) : List Char := '"' :: (s.flatMap dqEscape ++ ['"'])

/-- `needs_double_quotes` -/
def needsDoubleQuotes (s : List Char) : Bool := s.any (fun c => c == '\'' || c == '\\' || isControl c)

/-- `write_single_quoted` -/
def writeSingleQuoted (s : List Char) : List Char :=
  '\'' :: (s.flatMap (fun c => if c == '\'' then ['\'', '\''] else [c]) ++ ['\''])

/-- one arm of the `match ch` in `KeyScalarSink::serialize_str` -/
def keyEscape (c : Char) : List Char :=
  if c == '\\' then ['\\', '\\']
  else if c == '"' then ['\\', '"']
  else if c == '\n' then ['\\', 'n']
  else if c == '\r' then ['\\', 'r']
  else if c == '\t' then ['\\', 't']
  else if isControl c then '\\' :: 'u' :: hex4 c.toNat
  else [c]

/-- `KeyScalarSink::serialize_str` (= `scalar_key_to_string` of a `&str`) -/
def keySinkStr (s : List Char) (yaml12 : Bool) : List Char :=
  if isPlainSafe s && isPlainValueSafe s yaml12 true && !isUnsafePlainShape s then s
  else '"' :: (s.flatMap keyEscape ++ ['"'])

/-- `write_plain_or_quoted` (the name of an enum variant with data, as a mapping key): plain exactly where
`KeyScalarSink::serialize_str` writes a key plain (fix cf4e1d9) -/
def writePlainOrQuoted (s : List Char) (quoteAll : Bool) (yaml12 : Bool := false) : List Char :=
  if quoteAll then (if needsDoubleQuotes s then writeQuoted s else writeSingleQuoted s)
  else if isPlainSafe s && isPlainValueSafe s yaml12 true && !isUnsafePlainShape s then s
  else writeQuoted s

/-- `write_plain_or_quoted_value` -/
def writePlainOrQuotedValue (s : List Char) (quoteAll yaml12 inFlow : Bool) : List Char :=
  if quoteAll then (if needsDoubleQuotes s then writeQuoted s else writeSingleQuoted s)
  else if isPlainValueSafe s yaml12 inFlow && !isUnsafePlainShape s then s
  else writeQuoted s

/-! ## `wrapping.rs` -/

/-- `str::split('\n')` -/
def splitNl (s : List Char) : List (List Char) :=
  let rec go : List Char → List Char → List (List Char)
    | [], cur => [cur.reverse]
    | c :: rest, cur => if c == '\n' then cur.reverse :: go rest [] else go rest (c :: cur)
  go s []

/-- `str::trim_end_matches('\n')` -/
def trimEndNl (s : List Char) : List Char := (s.reverse.dropWhile (· == '\n')).reverse

/-- `first_line_leading_spaces` -/
def firstLineLeadingSpaces (s : List Char) : Nat :=
  let rec go : List (List Char) → Nat
    | [] => 0
    | l :: ls => if !l.isEmpty then (l.takeWhile (· == ' ')).length else go ls
  go (splitNl s)

def spaces (n : Nat) : List Char := List.replicate n ' '

/-- Loop state of the wrapping scan of one line in `write_folded_block`. Indices are *character*
indices into the line (the Rust code uses byte indices that always fall on character boundaries). -/
structure FoldSt where
  out : List Char := []            -- text emitted so far for this line
  start : Nat := 0
  col : Nat := 0
  last : Option (Nat × Nat × Nat) := none   -- (ws_start, ws_end, ws_len)
  inRun : Bool := false
  runStart : Nat := 0
  runLen : Nat := 0
  broke : Bool := false            -- the `break` on "no space within the limit"
  panicked : Bool := false         -- a slice `line[a..b]` with `a > b`

/-- `&line[a..b]`; `none` = the slice expression panics -/
def slice? (line : List Char) (a b : Nat) : Option (List Char) :=
  if a ≤ b && b ≤ line.length then some ((line.drop a).take (b - a)) else none

/-- "Close an open space-run if needed" and "Track space-runs" of one loop iteration -/
def trackRun (st : FoldSt) (i : Nat) (ch : Char) : FoldSt :=
  let st := if st.inRun && ch != ' ' then { st with last := some (st.runStart, i, st.runLen), inRun := false, runLen := 0 } else st
  if ch == ' ' then
    (if !st.inRun then { st with inRun := true, runStart := i, runLen := 1 } else { st with runLen := st.runLen + 1 })
  else st

/-- `if col > folded_wrap_col { … }` of one loop iteration (after `col += 1`) -/
def breakStep (line indent : List Char) (wrap : Nat) (st : FoldSt) : FoldSt :=
  if st.col > wrap then
    match st.last with
    | none => { st with broke := true }
    | some (wsStart, wsEnd, wsLen) =>
      match slice? line st.start wsStart with
      | none => { st with panicked := true }
      | some seg =>
        { st with out := st.out ++ indent ++ seg ++ spaces (wsLen - 1) ++ ['\n'],
                  start := wsEnd, col := 0, last := none }
  else st

/-- one iteration of `for (i, ch) in line.char_indices()` -/
def foldStep (line indent : List Char) (wrap : Nat) (st : FoldSt) (i : Nat) (ch : Char) : FoldSt :=
  if st.broke || st.panicked then st else
  let st := trackRun st i ch
  breakStep line indent wrap { st with col := st.col + 1 }

def foldLoop (line indent : List Char) (wrap : Nat) : List Char → Nat → FoldSt → FoldSt
  | [], _, st => st
  | ch :: rest, i, st => foldLoop line indent wrap rest (i + 1) (foldStep line indent wrap st i ch)

/-- the body of `for line in s.split('\n')` in `write_folded_block` -/
def foldLine (line indent : List Char) (wrap : Nat) : Res (List Char) :=
  if line.isEmpty then .ok (indent ++ ['\n'])
  else if line.head? == some ' ' then .ok (indent ++ line ++ ['\n'])
  else
    let st := foldLoop line indent wrap line 0 {}
    if st.panicked then .panic
    else match slice? line st.start line.length with
      | none => .panic
      | some tail => .ok (st.out ++ indent ++ tail ++ ['\n'])

/-- `write_folded_block(out, s, indent, indent_step, folded_wrap_col)` -/
def writeFoldedBlock (s : List Char) (indent indentStep wrap : Nat) : Res (List Char) :=
  let ind := spaces (indentStep * indent)
  let rec go : List (List Char) → List Char → Res (List Char)
    | [], acc => .ok acc
    | l :: ls, acc =>
      match foldLine l ind wrap with
      | .ok t => go ls (acc ++ t)
      | .err => .err
      | .panic => .panic
  go (splitNl s) []

/-! ## `serialize_str` -/

structure Opts where
  indentStep : Nat := 2
  foldedWrap : Nat := 80
  preferBlock : Bool := true
  quoteAll : Bool := false
  yaml12 : Bool := false
  compactList : Bool := false
deriving Repr, DecidableEq

inductive StrStyle where
  | literal | folded
deriving DecidableEq, Repr

/-- The part of the serializer state that `serialize_str` reads. -/
structure Ctx where
  inFlow : Bool := false
  pendingSpace : Bool := false        -- pending_space_after_colon
  atLineStart : Bool := false
  docStarted : Bool := true
  depth : Nat := 0
  afterDash : Option Nat := none      -- after_dash_depth
  mapDepth : Option Nat := none       -- current_map_depth
  shift : Int := 0                    -- indent_shift (columns added to indent_step * depth)
deriving Repr

/-- `indent_cols(depth)` -/
def indentCols (o : Opts) (cx : Ctx) (depth : Nat) : Nat :=
  (((o.indentStep * depth : Nat) : Int) + cx.shift).toNat

/-- `write_indent(depth)` when `at_line_start` (emits the `%YAML 1.2` preamble on first use) -/
def writeIndent (o : Opts) (cx : Ctx) (depth : Nat) : List Char :=
  if cx.atLineStart then
    (if !cx.docStarted && o.yaml12 then "%YAML 1.2\n---\n".toList else []) ++ spaces (indentCols o cx depth)
  else []

/-- "a literal block cannot carry CR / NUL / other controls, nor a content of line breaks only" -/
def blockOk (v : List Char) : Bool :=
  !v.any (fun c => isControl c && c != '\n' && c != '\t') && !(trimEndNl v).isEmpty

/-- the automatic style selection at the top of `serialize_str` (no explicit LitStr/FoldStr pending) -/
def autoStyle (o : Opts) (inFlow : Bool) (v : List Char) : Option StrStyle :=
  if !inFlow && !o.quoteAll then
    if v.contains '\n' then
      if o.preferBlock then
        if v.length > o.foldedWrap && blockOk v then some .literal
        else
          let normalized := (trimEndNl v).map (fun c => if c == '\n' then ' ' else c)
          if isPlainValueSafe normalized o.yaml12 false then some .literal else none
      else none
    else if o.preferBlock then
      if isPlainValueSafe v o.yaml12 false && v.length > o.foldedWrap then some .folded else none
    else none
  else none

/-- chomping indicator from the number of trailing newlines -/
def chompInd (trailingNl : Nat) : List Char :=
  match trailingNl with
  | 0 => ['-']
  | 1 => []
  | _ => ['+']

/-- the quoted / plain tail of `serialize_str` (also the fallback when the indicator would exceed 9) -/
def scalarTail (o : Opts) (cx : Ctx) (v : List Char) : List Char :=
  (if v.length == 1 && (v == ['.'] || v == ['#'] || v == ['-']) then '\'' :: (v ++ ['\''])
   else writePlainOrQuotedValue v o.quoteAll o.yaml12 cx.inFlow)
  ++ (if cx.inFlow then [] else ['\n'])

/-- base depth of a block scalar: the mapping depth after `key:`, else the dash depth, else the depth -/
def blockBase (cx : Ctx) : Nat :=
  if cx.pendingSpace then cx.mapDepth.getD cx.depth else cx.afterDash.getD cx.depth

/-- column of the body of a block scalar: `indent_cols(base + 1)` -/
def blockCols (o : Opts) (cx : Ctx) : Nat := indentCols o cx (blockBase cx + 1)

/-- "the first non-empty content line has leading whitespace" -/
def needsInd (v : List Char) : Bool := firstLineLeadingSpaces (trimEndNl v) > 0

/-- the conditions under which a selected block style falls back to the quoted / plain writer: an
indentation indicator that would need two digits or would be counted from a nested parent, a body not
deeper than an inline `- - ` (indent_step 1), control characters other than `\n` / `\t`, flow context -/
def blockFallback (o : Opts) (cx : Ctx) (v : List Char) : Bool :=
  (needsInd v && (blockCols o cx > 9 || blockBase cx > 0)) ||
  (o.indentStep < 2 && !cx.pendingSpace && blockBase cx > 0) ||
  v.any (fun c => isControl c && c != '\n' && c != '\t') || cx.inFlow

/-- header text after `|` / `>`: optional indentation digit, chomping indicator -/
def blockHeaderTail (o : Opts) (cx : Ctx) (v : List Char) : List Char :=
  (if needsInd v then [Char.ofNat (48 + blockCols o cx)] else []) ++
    chompInd (v.length - (trimEndNl v).length)

/-- body of the literal style: the content lines, indented; extra empty lines for `keep` -/
def literalBody (n : Nat) (v : List Char) : List Char :=
  let content := trimEndNl v
  let trailingNl := v.length - content.length
  let indentStr := spaces n
  if content.isEmpty then
    -- only line breaks: one empty content line per line break
    (List.replicate trailingNl (indentStr ++ ['\n'])).flatten
  else
    (splitNl content).flatMap (fun line => indentStr ++ line ++ ['\n']) ++
      (if trailingNl ≥ 2 then (List.replicate (trailingNl - 1) (indentStr ++ ['\n'])).flatten else [])

/-- `serialize_str(v)` with no explicit block-style wrapper and no pending anchor / comment:
the text written from the current cursor position to the end of the scalar (including the newline in
block context). -/
def serializeStr (o : Opts) (cx : Ctx) (v : List Char) : Res (List Char) :=
  let sp : List Char := if cx.pendingSpace then [' '] else []
  match autoStyle o cx.inFlow v with
  | some style =>
    let ind0 := writeIndent o cx (blockBase cx)
    if blockFallback o cx v then
      -- fall back to quoting; `write_space_if_pending` already ran, the indent too
      .ok (sp ++ ind0 ++ (writePlainOrQuotedValue v o.quoteAll o.yaml12 cx.inFlow) ++ (if cx.inFlow then [] else ['\n']))
    else
      match style with
      | .literal =>
        .ok (sp ++ ind0 ++ ('|' :: (blockHeaderTail o cx v ++ '\n' :: literalBody (blockCols o cx) v)))
      | .folded =>
        -- `write_folded_block(out, s, indent_cols(body_base), 1, wrap)`
        match writeFoldedBlock v (blockCols o cx) 1 o.foldedWrap with
        | .ok body => .ok (sp ++ ind0 ++ ('>' :: (blockHeaderTail o cx v ++ '\n' :: body)))
        | .err => .err
        | .panic => .panic
  | none =>
    .ok (sp ++ writeIndent o cx cx.depth ++ scalarTail o cx v)

/-! ## the document shapes used by the differential (positions of a string) -/

/-- Positions of a string scalar `v` in a document (what the harness serializes):
0 root `v`; 1 `{"k": v}`; 2 `{v: 1}`; 3 `[v]`; 4 `FlowSeq([v])`; 5 `FlowMap({"k": v})`;
6 `FlowMap({v: 1})`; 7 enum newtype variant `V(v)`; 8 `{"a": {"k": v}}`; 9 `{"a": [v]}`; 10 `[[v]]`. -/
inductive Pos where
  | root | mapValue | mapKey | seqItem | flowSeq | flowMapValue | flowMapKey | variant
  | nestedMapValue | seqInMap | seqInSeq
deriving DecidableEq, Repr

def Pos.ofCode : Nat → Pos
  | 0 => .root | 1 => .mapValue | 2 => .mapKey | 3 => .seqItem | 4 => .flowSeq | 5 => .flowMapValue
  | 6 => .flowMapKey | 7 => .variant | 8 => .nestedMapValue | 9 => .seqInMap | _ => .seqInSeq

def preamble (o : Opts) : List Char := if o.yaml12 then "%YAML 1.2\n---\n".toList else []

/-- The serializer state in front of the scalar in each (value) position: what the collection
serializers of `ser.rs` establish for that shape (derived by reading `serialize_map`, `serialize_seq`,
`MapSer`, `SeqSer`, `begin_variant`, `shift_for_inline_node`; validated by the differential). -/
def posCtx (o : Opts) : Pos → Ctx
  | .root => { atLineStart := true, docStarted := false }
  | .mapValue => { pendingSpace := true, mapDepth := some 0 }
  | .seqItem => { afterDash := some 0 }
  | .flowSeq => { inFlow := true }
  | .flowMapValue => { inFlow := true }
  | .variant => { pendingSpace := true }
  | .nestedMapValue => { pendingSpace := true, mapDepth := some 1 }
  | .seqInMap => { afterDash := some (if o.compactList then 0 else 1), mapDepth := some 0 }
  -- the inner sequence starts on the line of the outer dash: `shift_for_inline_node`
  | .seqInSeq => { afterDash := some 1, shift := 2 - (o.indentStep : Int) }
  | .mapKey => {}
  | .flowMapKey => {}

/-- the text the collection serializers write between the preamble and the scalar -/
def posPre (o : Opts) : Pos → List Char
  | .root => []
  | .mapValue => ['k', ':']
  | .seqItem => ['-', ' ']
  | .flowSeq => ['[']
  | .flowMapValue => ['{', 'k', ':', ' ']
  -- `begin_variant`: the variant name goes through `write_plain_or_quoted`
  | .variant => writePlainOrQuoted ['V'] o.quoteAll ++ [':']
  | .nestedMapValue => ['a', ':', '\n'] ++ spaces o.indentStep ++ ['k', ':']
  | .seqInMap => ['a', ':', '\n'] ++ spaces (o.indentStep * (if o.compactList then 0 else 1)) ++ ['-', ' ']
  | .seqInSeq => ['-', ' ', '-', ' ']
  | .mapKey => []
  | .flowMapKey => ['{']

/-- … and after it -/
def posPost : Pos → List Char
  | .flowSeq => [']', '\n']
  | .flowMapValue => ['}', '\n']
  | .mapKey => [':', ' ', '1', '\n']
  | .flowMapKey => [':', ' ', '1', '}', '\n']
  | _ => []

/-- `to_string_with_options(shape(pos, v), o)` -/
def emitDoc (o : Opts) (p : Pos) (v : List Char) : Res (List Char) :=
  match p with
  -- at the root the `%YAML` preamble is written by the scalar's own `write_indent`
  | .root => serializeStr o (posCtx o .root) v
  | .mapKey => .ok (preamble o ++ posPre o p ++ keySinkStr v o.yaml12 ++ posPost p)
  | .flowMapKey => .ok (preamble o ++ posPre o p ++ keySinkStr v o.yaml12 ++ posPost p)
  | _ =>
    match serializeStr o (posCtx o p) v with
    | .ok t => .ok (preamble o ++ posPre o p ++ t ++ posPost p)
    | .err => .err
    | .panic => .panic

/-! ## non-string scalars -/

/-- decimal digits of a natural number (Rust `Display` for unsigned integers) -/
def natDigits (n : Nat) : List Char :=
  if n < 10 then [Char.ofNat (48 + n)] else natDigits (n / 10) ++ [Char.ofNat (48 + n % 10)]
termination_by n
decreasing_by omega

/-- Rust `Display` for signed integers (`serialize_i64` / `serialize_i128`, `write!("{}", v)`) -/
def showInt (v : Int) : List Char :=
  if v < 0 then '-' :: natDigits v.natAbs else natDigits v.natAbs

def showBool (b : Bool) : List Char := if b then "true".toList else "false".toList
/-- `serialize_unit` / `serialize_none` -/
def showUnit : List Char := "null".toList

/-- `if !matches!(s.as_bytes().get(exp_pos + 1), Some(b'+' | b'-')) { push('+') }` -/
def expSignInsert (after : List Char) : List Char :=
  match after with
  | '+' :: _ => []
  | '-' :: _ => []
  | _ => ['+']

/-- `push_float_string` / `write_float_string` on a finite value whose zmij rendering is `s`
(zmij is an external crate: its digit string is an input of the model). -/
def normalizeFloatText (s : List Char) : List Char :=
  let isE := fun (c : Char) => c == 'e'
  -- `s.find('e').or_else(|| s.find('E'))`
  let expPos : Option Nat :=
    match s.findIdx? isE with
    | some i => some i
    | none => s.findIdx? (fun c => c == 'E')
  match expPos with
  | some p =>
    let mant := s.take p
    let mant' := if !mant.contains '.' then mant ++ ['.', '0'] else mant
    let marker := (s.drop p).take 1
    let after := s.drop (p + 1)
    mant' ++ marker ++ expSignInsert after ++ after
  | none => if !s.contains '.' then s ++ ['.', '0'] else s

/-- float classes as the protocol sends them: 0 finite (with zmij text), 1 nan, 2 +inf, 3 -inf -/
def pushFloatString (cls : Nat) (zmij : List Char) : List Char :=
  match cls with
  | 1 => ".nan".toList
  | 2 => ".inf".toList
  | 3 => "-.inf".toList
  | _ => normalizeFloatText zmij

end SaphyrVerif.SerScalar
