import SaphyrVerif.Model.Event
/-!
Model of `src/budget.rs::BudgetEnforcer` (observe / finalize), shaped like the Rust code: same
counters, same order of checks, same container-state stack.  `usize` is 64-bit: the two
saturating operations of the code (`total_scalar_bytes.saturating_add`, the ratio product
`saturating_mul`) are modelled as saturating at `2^64-1`; the `+= 1` counters are unbounded `Nat`
(an overflow would need 2^64 observed events).

Per-document policy (`EnforcingPolicy::PerDocument`): a document is charged from its own `DocumentStart`
through its `DocumentEnd` — `observe` resets the per-document state BEFORE it counts a `DocumentStart`,
and does not count `StreamStart` / `StreamEnd` at all (`Enf.perDocPrologue`); the alias/anchor ratio is judged at every
`DocumentEnd` (`observe`), not by `finalize`.
-/
namespace SaphyrVerif.Budget
open SaphyrVerif SaphyrVerif.Scalars

def USIZE_MAX : Nat := 2 ^ 64 - 1
def satAdd (a b : Nat) : Nat := if a + b > USIZE_MAX then USIZE_MAX else a + b
def satMul (a b : Nat) : Nat := if a * b > USIZE_MAX then USIZE_MAX else a * b

structure Limits where
  maxEvents : Nat
  maxAliases : Nat
  maxAnchors : Nat
  maxDepth : Nat
  maxDocuments : Nat
  maxNodes : Nat
  maxTotalScalarBytes : Nat
  maxMergeKeys : Nat
  enforceRatio : Bool
  minAliases : Nat
  multiplier : Nat
deriving Repr, DecidableEq

structure Report where
  events : Nat := 0
  aliases : Nat := 0
  anchors : Nat := 0
  documents : Nat := 0
  nodes : Nat := 0
  maxDepth : Nat := 0
  totalScalarBytes : Nat := 0
  mergeKeys : Nat := 0
deriving Repr, DecidableEq

inductive Breach where
  | events (n : Nat)
  | aliases (n : Nat)
  | anchors (n : Nat)
  | depth (n : Nat)
  | documents (n : Nat)
  | nodes (n : Nat)
  | scalarBytes (n : Nat)
  | mergeKeys (n : Nat)
  | ratio (aliases anchors : Nat)
  | unbalanced
deriving Repr, DecidableEq

/-- `ContainerState` -/
inductive CState where
  | seq (fromMappingValue : Bool)
  | map (expectingKey fromMappingValue : Bool)
deriving Repr, DecidableEq

structure Enf where
  lim : Limits
  perDocument : Bool
  report : Report := {}
  depth : Nat := 0
  /-- `defined_anchors` (a hash set): kept duplicate-free -/
  defined : List Nat := []
  /-- `containers`, head = top of the stack -/
  containers : List CState := []
deriving Repr, DecidableEq

def Enf.new (lim : Limits) (perDocument : Bool) : Enf := { lim, perDocument }

/-- `Report::reset` keeps `documents`. -/
def Report.reset (r : Report) : Report := { documents := r.documents }

/-- `begin_document` -/
def Enf.beginDocument (e : Enf) : Enf :=
  if e.perDocument then { e with report := e.report.reset, defined := [], depth := 0, containers := [] } else e

def Enf.bumpNodes (e : Enf) : Except Breach Enf :=
  let r := { e.report with nodes := e.report.nodes + 1 }
  if r.nodes > e.lim.maxNodes then .error (.nodes r.nodes) else .ok { e with report := r }

def Enf.recordAnchor (e : Enf) (id : Nat) : Except Breach Enf :=
  if id != 0 && !e.defined.contains id then
    let d := id :: e.defined
    if d.length > e.lim.maxAnchors then .error (.anchors d.length)
    else .ok { e with defined := d, report := { e.report with anchors := d.length } }
  else .ok { e with report := { e.report with anchors := e.defined.length } }

/-- `finish_value` -/
def finishValue : List CState → List CState
  | .map _ fm :: rest => .map true fm :: rest
  | cs => cs

/-- `handle_scalar`; returns the new stack and whether a merge key was counted -/
def handleScalar (cs : List CState) (isMergeKey : Bool) : List CState × Bool :=
  match cs with
  | .map true fm :: rest => (.map false fm :: rest, isMergeKey)
  | .map false _ :: _ => (finishValue cs, false)
  | _ => (cs, false)

/-- `handle_alias` -/
def handleAlias (cs : List CState) : List CState :=
  match cs with
  | .map true fm :: rest => .map false fm :: rest
  | .map false _ :: _ => finishValue cs
  | _ => cs

/-- `entering_container`: new stack (key flag cleared) and `from_mapping_value` -/
def enteringContainer (cs : List CState) : List CState × Bool :=
  match cs with
  | .map true fm :: rest => (.map false fm :: rest, false)
  | .map false _ :: _ => (cs, true)
  | _ => (cs, false)

def Enf.bumpDepth (e : Enf) : Except Breach Enf :=
  let d := satAdd e.depth 1
  let md := if d > e.report.maxDepth then d else e.report.maxDepth
  if md > e.lim.maxDepth then .error (.depth md)
  else .ok { e with depth := d, report := { e.report with maxDepth := md } }

/-- `ratio_breach`: the alias/anchor ratio heuristic over the counters as they stand (`aliases`, the number of defined
anchors); the product saturates -/
def Enf.ratioBreach (e : Enf) : Option Breach :=
  let aliases := e.report.aliases
  let anchors := e.defined.length
  if e.lim.enforceRatio && aliases ≥ e.lim.minAliases &&
      (anchors == 0 || aliases > satMul e.lim.multiplier anchors)
  then some (.ratio aliases anchors) else none

/-- The per-document prologue of `observe` (the `if self.policy == PerDocument { match ev {…} }` block):
`DocumentStart` forgets the previous document BEFORE the event is counted, `StreamStart` / `StreamEnd`
return `Ok(())` at once (`none`: nothing is counted), every other event passes unchanged.  Under the
whole-input policy every event passes unchanged. -/
def Enf.perDocPrologue (e : Enf) (ev : Raw) : Option Enf :=
  if e.perDocument then
    match ev with
    | .docStart _ => some e.beginDocument
    | .streamStart | .streamEnd => none
    | _ => some e
  else some e

/-- the body of `observe` after the per-document prologue: count the event, then the `match ev` -/
def Enf.observeCounted (e0 : Enf) (ev : Raw) : Except Breach Enf :=
  let e := { e0 with report := { e0.report with events := e0.report.events + 1 } }
  if e.report.events > e.lim.maxEvents then .error (.events e.report.events) else
  match ev with
  | .scalar value style anchor tag =>
    match e.bumpNodes with
    | .error b => .error b
    | .ok e =>
      let tb := satAdd e.report.totalScalarBytes (utf8Len value)
      if tb > e.lim.maxTotalScalarBytes then .error (.scalarBytes tb) else
      let e := { e with report := { e.report with totalScalarBytes := tb } }
      match e.recordAnchor anchor with
      | .error b => .error b
      | .ok e =>
        let isMerge := tag.isNone && style == .plain && value == ['<', '<']
        let (cs, counted) := handleScalar e.containers isMerge
        if counted then
          let mk := e.report.mergeKeys + 1
          if mk > e.lim.maxMergeKeys then .error (.mergeKeys mk)
          else .ok { e with containers := cs, report := { e.report with mergeKeys := mk } }
        else .ok { e with containers := cs }
  | .mapStart anchor _ =>
    match e.bumpNodes with
    | .error b => .error b
    | .ok e =>
      match e.bumpDepth with
      | .error b => .error b
      | .ok e =>
        let (cs, fm) := enteringContainer e.containers
        ({ e with containers := .map true fm :: cs }).recordAnchor anchor
  | .seqStart anchor _ =>
    match e.bumpNodes with
    | .error b => .error b
    | .ok e =>
      match e.bumpDepth with
      | .error b => .error b
      | .ok e =>
        let (cs, fm) := enteringContainer e.containers
        ({ e with containers := .seq fm :: cs }).recordAnchor anchor
  | .mapEnd =>
    if e.depth == 0 then .error .unbalanced else
    match e.containers with
    | .map _ fm :: rest =>
      .ok { e with depth := e.depth - 1, containers := if fm then finishValue rest else rest }
    | _ => .error .unbalanced
  | .seqEnd =>
    if e.depth == 0 then .error .unbalanced else
    match e.containers with
    | .seq fm :: rest =>
      .ok { e with depth := e.depth - 1, containers := if fm then finishValue rest else rest }
    | _ => .error .unbalanced
  | .alias _ =>
    let a := e.report.aliases + 1
    if a > e.lim.maxAliases then .error (.aliases a)
    else .ok { e with report := { e.report with aliases := a }, containers := handleAlias e.containers }
  | .docStart _ =>
    if !e.perDocument then
      let d := e.report.documents + 1
      if d > e.lim.maxDocuments then .error (.documents d)
      else .ok { e with report := { e.report with documents := d } }
    else .ok e
  | .docEnd =>
    -- per-document policy: the alias/anchor ratio is judged when the document ends
    if e.perDocument then
      match e.ratioBreach with
      | some b => .error b
      | none => .ok e
    else .ok e
  | .nothing => .ok e
  | .streamStart => .ok e
  | .streamEnd => .ok e

/-- `BudgetEnforcer::observe` -/
def Enf.observe (e : Enf) (ev : Raw) : Except Breach Enf :=
  match e.perDocPrologue ev with
  | none => .ok e
  | some e0 => e0.observeCounted ev

/-- `begin_document_at`: a document begins at `ev` (its `DocumentStart`) after events that bypassed `observe` (the
recovery path of the streaming reader).  Per-document policy: the event is observed like any other `DocumentStart`;
whole-input policy: nothing is counted. -/
def Enf.beginDocumentAt (e : Enf) (ev : Raw) : Except Breach Enf :=
  if e.perDocument then e.observe ev else .ok e

/-- `observe_alias_to_be_replayed`: the event and the alias are counted, the key/value bookkeeping is left
to the replayed node -/
def Enf.observeAliasReplayed (e0 : Enf) : Except Breach Enf :=
  let e := { e0 with report := { e0.report with events := e0.report.events + 1 } }
  if e.report.events > e.lim.maxEvents then .error (.events e.report.events) else
  let a := e.report.aliases + 1
  if a > e.lim.maxAliases then .error (.aliases a)
  else .ok { e with report := { e.report with aliases := a } }

/-- `alias_occupies_position` -/
def Enf.aliasOccupiesPosition (e : Enf) : Enf := { e with containers := handleAlias e.containers }

/-- `finalize`: the report and the ratio breach, if any.  Under the per-document policy the ratio has been judged at
every `DocumentEnd` and is not judged again (the counters may belong to a document abandoned half-way). -/
def Enf.finalize (e : Enf) : Report × Option Breach :=
  let r := { e.report with anchors := e.defined.length }
  if !e.perDocument then (r, e.ratioBreach) else (r, none)

/-- Feed a whole event list; `inl (i, breach)` = `observe` failed at index `i`. -/
def runFrom (e : Enf) (i : Nat) : List Raw → Except (Nat × Breach) Enf
  | [] => .ok e
  | ev :: rest =>
    match e.observe ev with
    | .error b => .error (i, b)
    | .ok e' => runFrom e' (i + 1) rest

def run (lim : Limits) (perDocument : Bool) (evs : List Raw) : Except (Nat × Breach) Enf :=
  runFrom (Enf.new lim perDocument) 0 evs

end SaphyrVerif.Budget
