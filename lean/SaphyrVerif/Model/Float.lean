import SaphyrVerif.Basic.Text
/-!
Decimal text → IEEE-754 binary64 / binary32 bit patterns, without Lean's opaque `Float`:
the accepted grammar of Rust's `f64::from_str` and the correctly rounded (nearest, ties to even)
value of the exact decimal.  `core`'s parser is external; "correctly rounded" is its documented
contract and is exercised by the differential runs.  NaN is a single abstract value.
-/
namespace SaphyrVerif.Float
open SaphyrVerif

inductive FVal where
  | nan
  | bits (b : Nat)
deriving Repr, DecidableEq, Inhabited

def isDigit (c : Char) : Bool := 48 ≤ c.toNat && c.toNat ≤ 57

def digitsVal (ds : List Char) : Nat := ds.foldl (fun a c => a * 10 + (c.toNat - 48)) 0

/-- split leading decimal digits -/
def spanDigits (s : List Char) : List Char × List Char := (s.takeWhile isDigit, s.dropWhile isDigit)

/-- parsed decimal: mantissa digits as a number, decimal exponent, number of significant digits -/
structure Dec where
  mant : Nat
  exp10 : Int
deriving Repr

/-- optional exponent part `[eE][+-]?digits`; `none` = malformed -/
def parseExp (s : List Char) : Option Int :=
  match s with
  | [] => some 0
  | c :: r =>
    if c == 'e' || c == 'E' then
      let (neg, r) := match r with
        | '+' :: r' => (false, r')
        | '-' :: r' => (true, r')
        | _ => (false, r)
      let (ds, rest) := spanDigits r
      if ds.isEmpty || !rest.isEmpty then none
      else
        -- clamp very long exponents: anything beyond ±100000 saturates the result anyway
        let v := if ds.length > 7 then 10000000 else digitsVal ds
        some (if neg then - (Int.ofNat v) else Int.ofNat v)
    else none

/-- unsigned decimal `digits[.digits][exp]` / `.digits[exp]` -/
def parseDecimal (s : List Char) : Option Dec :=
  let (ip, r1) := spanDigits s
  let (fp, r2) := match r1 with
    | '.' :: r => spanDigits r
    | _ => ([], r1)
  let hadDot := match r1 with | '.' :: _ => true | _ => false
  if ip.isEmpty && fp.isEmpty then none
  else if !hadDot && ip.isEmpty then none
  else match parseExp r2 with
    | none => none
    | some e => some { mant := digitsVal (ip ++ fp), exp10 := e - Int.ofNat fp.length }

def natLog2 (n : Nat) : Nat := Nat.log2 n

/-- round `num / den` (both > 0) to a binary float with `mbits` explicit mantissa bits and exponent
range `emin ..= emax` (unbiased, of the leading bit). Returns the bit pattern without sign. -/
def roundRat (num den : Nat) (mbits : Nat) (emin emax : Int) (bias : Nat) : Nat :=
  -- k = floor(log2(num/den))
  let k0 : Int := Int.ofNat (natLog2 num) - Int.ofNat (natLog2 den)
  let ge (k : Int) : Bool :=  -- num/den ≥ 2^k
    if k ≥ 0 then num ≥ den * 2 ^ k.toNat else num * 2 ^ (-k).toNat ≥ den
  let k : Int := if ge k0 then (if ge (k0 + 1) then k0 + 1 else k0) else k0 - 1
  let e2 : Int := if k < emin then emin else k
  -- q = round(num/den * 2^(mbits - e2))
  let sh : Int := Int.ofNat mbits - e2
  let (n2, d2) := if sh ≥ 0 then (num * 2 ^ sh.toNat, den) else (num, den * 2 ^ (-sh).toNat)
  let q0 := n2 / d2
  let rem := n2 % d2
  let q := if 2 * rem > d2 then q0 + 1 else if 2 * rem == d2 then (if q0 % 2 == 1 then q0 + 1 else q0) else q0
  -- renormalise when rounding carried into the next binade
  let (q, e2) := if q ≥ 2 ^ (mbits + 1) then (q / 2, e2 + 1) else (q, e2)
  if e2 > emax then (2 * bias + 1) * 2 ^ mbits   -- infinity
  else if q < 2 ^ mbits then q                     -- subnormal (or zero)
  else ((e2 + Int.ofNat bias).toNat) * 2 ^ mbits + (q - 2 ^ mbits)

def countDigits (n : Nat) : Nat := (Nat.toDigits 10 n).length

/-- magnitude bits of the correctly rounded value of `mant * 10^exp10` -/
def decToBits (d : Dec) (mbits : Nat) (emin emax : Int) (bias : Nat) : Nat :=
  if d.mant == 0 then 0
  else
    let nd : Int := Int.ofNat (countDigits d.mant)
    if nd + d.exp10 > 400 then (2 * bias + 1) * 2 ^ mbits
    else if nd + d.exp10 < -400 then 0
    else if d.exp10 ≥ 0 then roundRat (d.mant * 10 ^ d.exp10.toNat) 1 mbits emin emax bias
    else roundRat d.mant (10 ^ (-d.exp10).toNat) mbits emin emax bias

def f64OfDec (d : Dec) : Nat := decToBits d 52 (-1022) 1023 1023
def f32OfDec (d : Dec) : Nat := decToBits d 23 (-126) 127 127

/-- Rust `<f64|f32 as FromStr>::from_str` (no trimming): `none` = parse error. `w` = 64 or 32. -/
def rustParseFloat (w : Nat) (s : List Char) : Option FVal :=
  let (neg, r) := match s with
    | '+' :: r => (false, r)
    | '-' :: r => (true, r)
    | _ => (false, s)
  let signBit := if neg then (if w == 64 then 2 ^ 63 else 2 ^ 31) else 0
  let low := lowerAscii r
  if low == "nan".toList then some .nan
  else if low == "inf".toList || low == "infinity".toList then
    some (.bits (signBit + (if w == 64 then 2047 * 2 ^ 52 else 255 * 2 ^ 23)))
  else match parseDecimal r with
    | none => none
    | some d => some (.bits (signBit + (if w == 64 then f64OfDec d else f32OfDec d)))

/-- `parse_yaml12_float` with `angle_conversions = false` -/
def parseYaml12Float (w : Nat) (s : List Char) : Option FVal :=
  let t := trim s
  let low := lowerAscii t
  if low == ".nan".toList || low == "+.nan".toList || low == "-.nan".toList then some .nan
  else if low == ".inf".toList || low == "+.inf".toList then some (.bits (if w == 64 then 2047 * 2 ^ 52 else 255 * 2 ^ 23))
  else if low == "-.inf".toList then some (.bits (if w == 64 then 2 ^ 63 + 2047 * 2 ^ 52 else 2 ^ 31 + 255 * 2 ^ 23))
  else rustParseFloat w t

def FVal.isFinite (w : Nat) : FVal → Bool
  | .nan => false
  | .bits b => if w == 64 then (b / 2 ^ 52) % 2048 != 2047 else (b / 2 ^ 23) % 256 != 255

def FVal.isNegative (w : Nat) : FVal → Bool
  | .nan => false
  | .bits b => if w == 64 then b ≥ 2 ^ 63 else b ≥ 2 ^ 31

end SaphyrVerif.Float
