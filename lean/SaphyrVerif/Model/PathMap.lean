import SaphyrVerif.Basic.Text
/-!
Model of `src/path_map.rs` (`PathKey`, `PathMap::insert`, `PathMap::search`, `find_unique_by`, the four
fuzzy segment comparisons) and of the `PathRecorder` blocks of `src/de.rs` / the validated entry-point
loops of `src/lib.rs`.

* A path is a list of segments (`Key name` / `Index name`, the name of an index being its decimal
  rendering, exactly as `PathSegment`).
* The `HashMap<PathKey, Locations>` is an association list whose keys are pairwise distinct
  (`KeysNodup`, kept by `insert`).  The *order* of the list stands for the hash iteration order, which
  is arbitrary in the implementation (`RandomState`): everything observable must be invariant under
  permutation of the list (proved in `Props/C18.lean`).
* `findUniqueLoop` is the `for (candidate, loc) in self.map.iter()` loop with its `found` variable and
  both early returns (`return None` on the second hit, `?` on a candidate without leaf).
* `record (.ignored _)` is `deserialize_ignored_any`: the entry just recorded for a value Serde discards
  is removed again (`PathMap::remove`) and nothing below it is recorded.
* The value type of the map is a parameter `α` (`Locations` in the code; the search never looks inside).

The only operations of this code that can panic are the index expressions of `tokenize_segment`; they
are transcribed with explicit bounds checks in `tokenizePieceIdx` (`none` = panic), which is proved equal
to the structural `tokenizePiece` used by `search` (`tokenize_no_index_panic`).  Nothing else on the
`search` / recorder path indexes, unwraps or subtracts, so `search` itself has no `panic` outcome.
-/
namespace SaphyrVerif.PathMap

inductive Kind where
  | key
  | index
  deriving DecidableEq, Repr

structure Seg where
  kind : Kind
  name : List Char
  deriving DecidableEq, Repr

abbrev Path := List Seg

abbrev Map (α : Type) := List (Path × α)

/-- `PathKey::leaf_string` -/
def leafString (p : Path) : Option (List Char) := p.getLast?.map (·.name)

/-- `HashMap::get` -/
def get {α} (m : Map α) (p : Path) : Option α := (m.find? (fun e => e.1 == p)).map (·.2)

/-- `HashMap::insert`: replaces the value of an existing key, otherwise adds an entry. -/
def insert {α} (m : Map α) (p : Path) (v : α) : Map α :=
  if m.any (fun e => e.1 == p) then m.map (fun e => if e.1 == p then (e.1, v) else e)
  else m ++ [(p, v)]

/-- `HashMap::remove` (`PathMap::remove`) -/
def remove {α} (m : Map α) (p : Path) : Map α := m.filter (fun e => !(e.1 == p))

/-- the map's keys are pairwise distinct (what a `HashMap` guarantees) -/
def KeysNodup {α} (m : Map α) : Prop := (m.map (·.1)).Nodup

/-! ### segment comparisons -/

/-- `strip_raw_identifier_prefix`: `s.strip_prefix("r#").unwrap_or(s)` -/
def stripRaw (s : List Char) : List Char :=
  match stripPrefix? ['r', '#'] s with
  | some r => r
  | none => s

def isAsciiLower (c : Char) : Bool := 'a'.toNat ≤ c.toNat && c.toNat ≤ 'z'.toNat
def isAsciiUpper (c : Char) : Bool := 'A'.toNat ≤ c.toNat && c.toNat ≤ 'Z'.toNat
def isAsciiDigit (c : Char) : Bool := '0'.toNat ≤ c.toNat && c.toNat ≤ '9'.toNat
def isAsciiAlnum (c : Char) : Bool := isAsciiLower c || isAsciiUpper c || isAsciiDigit c

/-- `collapse_non_alnum_ascii_lower` -/
def collapse (s : List Char) : List Char := (s.filter isAsciiAlnum).map asciiLower

inductive CharClass where
  | lower | upper | digit | other
  deriving DecidableEq, Repr

/-- `classify_ascii` (same branch order) -/
def classify (c : Char) : CharClass :=
  if isAsciiLower c then .lower
  else if isAsciiUpper c then .upper
  else if isAsciiDigit c then .digit
  else .other

/-- the `boundary` match of `tokenize_segment` -/
def boundary (prev curr : CharClass) (next : Option CharClass) : Bool :=
  match prev, curr with
  | .lower, .upper => true
  | .digit, .lower => true
  | .digit, .upper => true
  | .lower, .digit => true
  | .upper, .digit => true
  | .upper, .upper => next == some .lower
  | _, _ => false

/-- `s.split(|c| !c.is_ascii_alphanumeric()).filter(|p| !p.is_empty())`; `cur` is the piece being
    collected (reversed). -/
def splitPieces : List Char → List Char → List (List Char)
  | [], cur => if cur.isEmpty then [] else [cur.reverse]
  | c :: rest, cur =>
    if isAsciiAlnum c then splitPieces rest (c :: cur)
    else if cur.isEmpty then splitPieces rest []
    else cur.reverse :: splitPieces rest []

/-- the inner `for i in 1..chars.len()` loop over one piece plus the final push: `prev = chars[i-1]`,
    the remaining list starts at `chars[i]`, `cur` = `chars[start..i]` reversed (non-empty, because
    `start ≤ i-1`; the Rust guards `start < i` / `!tok.is_empty()` are kept as the `isEmpty` tests). -/
def pieceTokens : Char → List Char → List Char → List (List Char)
  | _, [], cur => if cur.isEmpty then [] else [lowerAscii cur.reverse]
  | prev, c :: rest, cur =>
    let next := rest.head?.map classify
    if boundary (classify prev) (classify c) next then
      (if cur.isEmpty then [] else [lowerAscii cur.reverse]) ++ pieceTokens c rest [c]
    else pieceTokens c rest (c :: cur)

def tokenizePiece : List Char → List (List Char)
  | [] => []
  | c :: rest => pieceTokens c rest [c]

/-- `tokenize_segment` -/
def tokenizeSegment (s : List Char) : List (List Char) :=
  (splitPieces s []).flatMap tokenizePiece

/-! #### index-faithful version of the inner loop (for the no-panic argument)

`tokenize_segment` is the only code on the `search` path that indexes (`chars[i - 1]`, `chars[i]`,
`chars[start..i]`, `chars[start..]`).  `tokenizePieceIdx` is written with the same state variables
(`i`, `start`, `tokens`) and every index operation as an `Option` (`none` = the Rust code would panic).
`Props/C18.lean` proves `tokenizePieceIdx cs = some (tokenizePiece cs)` for every `cs`. -/

/-- `chars[a..b]` with Rust's bounds check -/
def slice? (cs : List Char) (a b : Nat) : Option (List Char) :=
  if a ≤ b ∧ b ≤ cs.length then some ((cs.drop a).take (b - a)) else none

/-- `for i in 1..chars.len()`; `fuel` = remaining iterations; result = final `(start, tokens)` -/
def pieceLoopIdx (chars : List Char) :
    Nat → Nat → Nat → List (List Char) → Option (Nat × List (List Char))
  | 0, _, start, toks => some (start, toks)
  | fuel + 1, i, start, toks =>
    match chars[i - 1]?, chars[i]? with
    | some prev, some curr =>
      let next := chars[i + 1]?.map classify
      if boundary (classify prev) (classify curr) next then
        if start < i then
          match slice? chars start i with
          | none => none
          | some sl =>
            let tok := lowerAscii sl
            pieceLoopIdx chars fuel (i + 1) i (if tok.isEmpty then toks else toks ++ [tok])
        else pieceLoopIdx chars fuel (i + 1) i toks
      else pieceLoopIdx chars fuel (i + 1) start toks
    | _, _ => none

/-- the code after the loop: `if start < chars.len() { push(chars[start..]) }` -/
def pieceFinishIdx (chars : List Char) : Option (Nat × List (List Char)) → Option (List (List Char))
  | none => none
  | some (start, toks) =>
    if start < chars.length then
      match slice? chars start chars.length with
      | none => none
      | some sl =>
        let tok := lowerAscii sl
        some (if tok.isEmpty then toks else toks ++ [tok])
    else some toks

def tokenizePieceIdx (chars : List Char) : Option (List (List Char)) :=
  if chars.isEmpty then some []
  else pieceFinishIdx chars (pieceLoopIdx chars (chars.length - 1) 1 0 [])

/-- per-segment test of `segments_equal_case_insensitive` -/
def segEqCI (t c : Seg) : Bool :=
  t.kind == c.kind &&
    match t.kind with
    | .index => t.name == c.name
    | .key => eqIgnoreAsciiCase (stripRaw t.name) (stripRaw c.name)

/-- per-segment test of `segments_equal_tokenized_case_insensitive` -/
def segEqTok (t c : Seg) : Bool :=
  t.kind == c.kind &&
    match t.kind with
    | .index => t.name == c.name
    | .key => tokenizeSegment (stripRaw t.name) == tokenizeSegment (stripRaw c.name)

/-- per-segment test of `segments_equal_collapsed_case_insensitive` -/
def segEqCollapsed (t c : Seg) : Bool :=
  t.kind == c.kind &&
    match t.kind with
    | .index => t.name == c.name
    | .key => collapse (stripRaw t.name) == collapse (stripRaw c.name)

/-- per-segment test of `segments_equal_key_to_index_fallback` -/
def segEqKeyToIndex (t c : Seg) : Bool :=
  match t.kind, c.kind with
  | .index, .index => t.name == c.name
  | .key, .key => eqIgnoreAsciiCase (stripRaw t.name) (stripRaw c.name)
  | .key, .index => !t.name.isEmpty && !c.name.isEmpty
  | .index, .key => false

/-- `target.len() == candidate.len() && zip(..).all(f)` -/
def pathMatch (f : Seg → Seg → Bool) (t c : Path) : Bool :=
  t.length == c.length && (t.zip c).all (fun p => f p.1 p.2)

/-- the four fuzzy passes, in the order `search` tries them -/
def passes : List (Path → Path → Bool) :=
  [pathMatch segEqCI, pathMatch segEqTok, pathMatch segEqCollapsed, pathMatch segEqKeyToIndex]

/-! ### `find_unique_by` and `search` -/

/-- body of `for (candidate, loc) in self.map.iter()` with the `found` variable -/
def findUniqueLoop {α} (mt : Path → Path → Bool) (target : Path) :
    List (Path × α) → Option (α × List Char) → Option (α × List Char)
  | [], found => found
  | (cand, loc) :: rest, found =>
    if mt target cand then
      if found.isSome then none            -- `return None; // ambiguous`
      else
        match leafString cand with
        | none => none                     -- `candidate.leaf_string()?`
        | some leaf => findUniqueLoop mt target rest (some (loc, leaf))
    else findUniqueLoop mt target rest found

/-- `PathMap::find_unique_by` -/
def findUniqueBy {α} (m : Map α) (target : Path) (mt : Path → Path → Bool) : Option (α × List Char) :=
  if target.isEmpty then none else findUniqueLoop mt target m none

/-- `a.or_else(|| b)…` over the list of passes -/
def firstPass {α} (m : Map α) (target : Path) : List (Path → Path → Bool) → Option (α × List Char)
  | [] => none
  | f :: fs =>
    match findUniqueBy m target f with
    | some r => some r
    | none => firstPass m target fs

/-- `PathMap::search` -/
def search {α} (m : Map α) (p : Path) : Option (α × List Char) :=
  match get m p with
  | some loc =>
    match leafString p with
    | none => none                         -- `let leaf = path.leaf_string()?;`
    | some leaf => some (loc, leaf)
  | none => firstPass m p passes

/-- `PathKey::parent` -/
def parent : Path → Option Path
  | [] => none
  | p => some p.dropLast

/-- `search_locations_with_ancestor_fallback` (de_error.rs); fuel = path length -/
def searchAncestors {α} (m : Map α) : Nat → Path → Option α
  | 0, p => (search m p).map (·.1)
  | n + 1, p =>
    match search m p with
    | some r => some r.1
    | none =>
      match parent p with
      | none => none
      | some q => searchAncestors m n q

def searchWithAncestorFallback {α} (m : Map α) (p : Path) : Option α := searchAncestors m p.length p

/-! ### the path recorder (de.rs) over an abstract traversal

What the recorder does depends only on the *shape of the traversal* the Serde visitor drives:
which mapping entries / sequence elements it asks for, with which key text, and whether a
sub-deserialization fails.  `Visit` is that shape.  `Locs` stands for the `(reference_location,
defined_location)` pair computed by `next_value_seed` / `next_element_seed` before the recorder block. -/

inductive Visit (α : Type) where
  /-- a scalar (or any value whose deserialization does not enter `deserialize_map`/`_seq`);
      `ok = false`: the sub-deserialization returns `Err` -/
  | leaf (ok : Bool)
  /-- `deserialize_seq`: elements in order, each with the locations of its node -/
  | seq (items : List (α × Visit α))
  /-- `deserialize_map` (also structs): the container's own locations, then the entries the visitor
      pulls; `key = none` is a key that is not a string-like scalar (`stringy_scalar_value() = None`):
      its value is deserialized by a deserializer WITHOUT the recorder -/
  | map (container : α) (entries : List (Option (List Char) × α × Visit α))
  /-- `deserialize_ignored_any`: Serde asks for this value as `IgnoredAny` (the value of a key that is
      not a field of the target struct, a skipped element); `inner` is the untyped walk of the node
      (`deserialize_any`), which only matters for whether it succeeds -/
  | ignored (inner : Visit α)

/-- is the value handed to `IgnoredAny` -/
def Visit.isIgnored {α} : Visit α → Bool
  | .ignored _ => true
  | _ => false

/-- does the traversal succeed (independent of the recorder) -/
def Visit.succeeds {α} : Visit α → Bool
  | .leaf ok => ok
  | .seq items => succeedsItems items
  | .map _ entries => succeedsEntries entries
  | .ignored inner => inner.succeeds
where
  succeedsItems : List (α × Visit α) → Bool
    | [] => true
    | (_, v) :: rest => v.succeeds && succeedsItems rest
  succeedsEntries : List (Option (List Char) × α × Visit α) → Bool
    | [] => true
    | (_, _, v) :: rest => v.succeeds && succeedsEntries rest

structure Recorder (α : Type) where
  current : Path
  map : Map α

/-- decimal rendering used by `From<usize> for PathSegment` -/
def idxSeg (i : Nat) : Seg := ⟨.index, (toString i).toList⟩
def keySeg (s : List Char) : Seg := ⟨.key, s⟩

/-- the recorder block before a sub-deserialization: `now = prev.join(seg)`, `current = now`,
    `map.insert(now, locs)` -/
def Recorder.enter {α} (r : Recorder α) (s : Seg) (loc : α) : Recorder α :=
  { current := r.current ++ [s], map := insert r.map (r.current ++ [s]) loc }

mutual
/-- a `YamlDeserializer::new_with_path_recorder(..)` run over one node -/
def record {α} : Visit α → Recorder α → Bool × Recorder α
  | .leaf ok, r => (ok, r)
  | .seq items, r => recordItems items 0 r
  | .map c entries, r =>
    -- `recorder.map.insert(recorder.current.clone(), ..)` for the container itself
    recordEntries entries { r with map := insert r.map r.current c }
  | .ignored inner, r =>
    -- `if let Some(recorder) = self.garde.take() { recorder.map.remove(&recorder.current) }`, then
    -- `deserialize_any` on a deserializer without recorder
    (inner.succeeds, { r with map := remove r.map r.current })
/-- `SA::next_element_seed` called until the first error (Serde visitors stop at the first `Err`) -/
def recordItems {α} : List (α × Visit α) → Nat → Recorder α → Bool × Recorder α
  | [], _, r => (true, r)
  | (loc, v) :: rest, idx, r =>
    let prev := r.current                         -- `recorder.current.take()`
    let res := record v (r.enter (idxSeg idx) loc) -- `prev.clone().join(self.idx)`, insert, deserialize
    let r'' := { res.2 with current := prev }     -- `recorder.current = prev;` (before `return res`)
    if res.1 then recordItems rest (idx + 1) r'' else (false, r'')
/-- `MA::next_value_seed` called for the entries the visitor pulls, until the first error -/
def recordEntries {α} : List (Option (List Char) × α × Visit α) → Recorder α → Bool × Recorder α
  | [], r => (true, r)
  | (none, _, v) :: rest, r =>
    -- `pending_segment = None`: `YamlDeserializer::new(..)` — no recorder below this value
    if v.succeeds then recordEntries rest r else (false, r)
  | (some seg, loc, v) :: rest, r =>
    let prev := r.current
    let res := record v (r.enter (keySeg seg) loc)
    let r'' := { res.2 with current := prev }
    if res.1 then recordEntries rest r'' else (false, r'')
end

/-! ### validated entry-point loops (lib.rs) over abstract per-document outcomes -/

/-- what happens to one document of a stream -/
inductive Doc (V E R : Type) where
  /-- null-like scalar document: skipped by the multi / iterator loops -/
  | skip
  /-- `T::deserialize` fails with `e` -/
  | deErr (e : E)
  /-- deserializes to `v`; validation returns `report` (`none` = passes) -/
  | value (v : V) (report : Option R)

/-- result of a `from_multiple*` call -/
inductive Batch (V E R : Type) where
  | ok (values : List V)
  | err (e : E)
  /-- `Error::ValidationErrors { errors }` / `Error::ValidatorErrors { errors }` -/
  | invalid (reports : List R)

/-- `from_multiple_with_options` (the plain loop) -/
def multiPlain {V E R} : List (Doc V E R) → List V → Batch V E R
  | [], values => .ok values
  | .skip :: ds, values => multiPlain ds values
  | .deErr e :: _, _ => .err e
  | .value v _ :: ds, values => multiPlain ds (values ++ [v])

/-- `from_multiple_with_options_valid` / `_validate`: `values`, `validation_errors` are the two vectors -/
def multiValid {V E R} : List (Doc V E R) → List V → List R → Batch V E R
  | [], values, errs => if errs.isEmpty then .ok values else .invalid errs
  | .skip :: ds, values, errs => multiValid ds values errs
  | .deErr e :: _, _, _ => .err e
  | .value v none :: ds, values, errs => multiValid ds (values ++ [v]) errs
  | .value _ (some r) :: ds, values, errs => multiValid ds values (errs ++ [r])

/-- one item of the `read*` iterators -/
inductive Item (V E R : Type) where
  | ok (v : V)
  | err (e : E)
  | invalid (r : R)

/-- `read_with_options`: the items the iterator yields (`recover = false`: `skip_to_next_document`
    found no further document after a deserialization error, the iterator is finished) -/
def iterPlain {V E R} : List (Doc V E R × Bool) → List (Item V E R)
  | [] => []
  | (.skip, _) :: ds => iterPlain ds
  | (.deErr e, recover) :: ds => .err e :: (if recover then iterPlain ds else [])
  | (.value v _, _) :: ds => .ok v :: iterPlain ds

/-- `read_with_options_valid` / `_validate` -/
def iterValid {V E R} : List (Doc V E R × Bool) → List (Item V E R)
  | [] => []
  | (.skip, _) :: ds => iterValid ds
  | (.deErr e, recover) :: ds => .err e :: (if recover then iterValid ds else [])
  | (.value v none, _) :: ds => .ok v :: iterValid ds
  | (.value _ (some r), _) :: ds => .invalid r :: iterValid ds

/-! ### the validating loops with their recorder made explicit (document isolation)

The loops above abstract a document to its outcome. Here a document carries its traversal, and the
recorder object is a loop variable: `stale` is whatever recorder the previous iteration left behind.
The loop bodies of `from_multiple_with_options_valid` / `_validate` and of `ReadValidIter::next` /
`ReadValidateIter::next` start with `let mut recorder = PathRecorder::new();`, which shadows it. -/

/-- one document as the validating loops see it -/
inductive DocR (α V E P : Type) where
  | skip
  | deErr (e : E)
  /-- deserializes to `v` along the traversal `visit`; validation returns `report` (`none` = passes) -/
  | value (v : V) (visit : Visit α) (report : Option P)

/-- `PathRecorder::new()` -/
def Recorder.new {α} : Recorder α := { current := [], map := [] }

/-- `from_multiple_with_options_valid` / `_validate`; an error entry is `(report, locations)` -/
def multiValidRec {α V E P} :
    List (DocR α V E P) → Recorder α → List V → List (P × Map α) → Batch V E (P × Map α)
  | [], _, values, errs => if errs.isEmpty then .ok values else .invalid errs
  | .skip :: ds, stale, values, errs => multiValidRec ds stale values errs
  | .deErr e :: _, _, _, _ => .err e
  | .value v visit report :: ds, _, values, errs =>
    -- `let mut recorder = PathRecorder::new(); T::deserialize(new_with_path_recorder(.., &mut recorder))`
    let recorder := (record visit Recorder.new).2
    match report with
    | none => multiValidRec ds recorder (values ++ [v]) errs
    | some p => multiValidRec ds recorder values (errs ++ [(p, recorder.map)])   -- `locations: recorder.map`

/-- `read_with_options_valid` / `_validate`; an invalid item is `(report, locations)` -/
def iterValidRec {α V E P} : List (DocR α V E P × Bool) → Recorder α → List (Item V E (P × Map α))
  | [], _ => []
  | (.skip, _) :: ds, stale => iterValidRec ds stale
  | (.deErr e, recover) :: ds, stale => .err e :: (if recover then iterValidRec ds stale else [])
  | (.value v visit report, _) :: ds, _ =>
    let recorder := (record visit Recorder.new).2
    match report with
    | none => .ok v :: iterValidRec ds recorder
    | some p => .invalid (p, recorder.map) :: iterValidRec ds recorder

end SaphyrVerif.PathMap
