import SaphyrVerif.Lemmas.C03
import SaphyrVerif.Lemmas.C05_Any
/-!
Helper lemmas for C03 (typed level), part A — entry lists:
* the effective entry list is free of merge keys and is a fixed point of `effEntries` (every policy);
* what each policy does with repeated own keys;
* sub-node depth of the effective entries WITHOUT the key-shape side condition of the C05 lemmas, hence
  fuel independence of the untyped interpretation `interpAny` for all trees.
-/
namespace SaphyrVerif.Lemmas.C03T
open SaphyrVerif SaphyrVerif.Scalars SaphyrVerif.Pump SaphyrVerif.De SaphyrVerif.Spec
open SaphyrVerif.Lemmas.C04 (keys)
open SaphyrVerif.Lemmas.C05 (mapM_congr pairFn pairsFrom_eq_mapM listFrom_eq_mapM depthOf_pos depthOfL_mem depthOfE_mem)

/-! ### membership in `splitEntries` -/

theorem splitEntries_own_mem (es : List (ENode × ENode)) : ∀ e ∈ (splitEntries es).1, e ∈ es := by
  induction es with
  | nil => simp [splitEntries]
  | cons kv rest ih =>
    obtain ⟨k, v⟩ := kv
    rw [C03.splitEntries_cons]
    by_cases hk : isMergeKeyNode k = true
    · simp only [hk, if_true]
      intro e he
      exact List.mem_cons_of_mem _ (ih e he)
    · simp only [hk, Bool.false_eq_true, if_false, List.mem_cons]
      rintro e (rfl | he)
      · exact Or.inl rfl
      · exact Or.inr (ih e he)

theorem splitEntries_merge_mem (es : List (ENode × ENode)) :
    ∀ m ∈ (splitEntries es).2, ∃ k, (k, m) ∈ es ∧ isMergeKeyNode k = true := by
  induction es with
  | nil => simp [splitEntries]
  | cons kv rest ih =>
    obtain ⟨k, v⟩ := kv
    rw [C03.splitEntries_cons]
    by_cases hk : isMergeKeyNode k = true
    · simp only [hk, if_true, List.mem_cons]
      rintro m (rfl | hm)
      · exact ⟨k, Or.inl rfl, hk⟩
      · obtain ⟨k', h1, h2⟩ := ih m hm
        exact ⟨k', Or.inr h1, h2⟩
    · simp only [hk, Bool.false_eq_true, if_false]
      intro m hm
      obtain ⟨k', h1, h2⟩ := ih m hm
      exact ⟨k', List.mem_cons_of_mem _ h1, h2⟩

/-! ### the effective entries are an explicit mapping -/

/-- no effective entry is a merge entry — under every policy -/
theorem eff_no_merge (dup : DupPolicy) (entries es : List (ENode × ENode)) (h : effEntries dup entries = some es) :
    ∀ e ∈ es, isMergeKeyNode e.1 = false := by
  obtain ⟨ownKept, batches, h1, h2, rfl⟩ := (C03.effEntries_eq_some_iff dup entries es).1 h
  obtain ⟨hm1, -, -⟩ := C03.eff_merged_props ownKept _ batches h2
  have hsub := C04.applyPolicy_sublist dup _ [] ownKept h1
  intro e he
  rcases List.mem_append.1 he with he | he
  · exact C03.splitEntries_own_no_merge entries e (hsub.subset he)
  · exact hm1 e he

/-- the keys of the effective entries are pairwise different under `Error` and `FirstWins` -/
theorem eff_nodup (dup : DupPolicy) (entries es : List (ENode × ENode)) (h : effEntries dup entries = some es)
    (hdup : dup ≠ .lastWins) : (keys es).Nodup := by
  obtain ⟨ownKept, batches, h1, h2, rfl⟩ := (C03.effEntries_eq_some_iff dup entries es).1 h
  obtain ⟨-, hm2, hm3⟩ := C03.eff_merged_props ownKept _ batches h2
  obtain ⟨ho1, -⟩ := C04.applyPolicy_nodup_of_ne_lastWins dup hdup _ [] ownKept h1
  simp only [keys, List.map_append]
  refine List.nodup_append.2 ⟨ho1, hm2, ?_⟩
  intro a ha b hb hab
  obtain ⟨o, ho, rfl⟩ := List.mem_map.1 ha
  obtain ⟨m, hm, rfl⟩ := List.mem_map.1 hb
  exact hm3 m hm o ho hab.symm

/-- a list without merge keys whose own part the policy keeps entirely is its own effective entry list -/
theorem eff_of_no_merge (dup : DupPolicy) (es : List (ENode × ENode)) (hnm : ∀ e ∈ es, isMergeKeyNode e.1 = false)
    (hp : applyPolicy dup es [] = some es) : effEntries dup es = some es := by
  rw [C03.effEntries_eq_some_iff, C03.splitEntries_of_no_merge es hnm]
  exact ⟨es, [], hp, by simp, by simp [dropSeen]⟩

/-- idempotence: the effective entry list, read as a mapping of its own, has itself as effective entry
list — under the same policy, for all three policies -/
theorem eff_idem (dup : DupPolicy) (entries es : List (ENode × ENode)) (h : effEntries dup entries = some es) :
    effEntries dup es = some es := by
  apply eff_of_no_merge dup es (eff_no_merge dup entries es h)
  by_cases hd : dup = .lastWins
  · subst hd; exact C04.applyPolicy_lastWins es []
  · exact C04.applyPolicy_nodup dup es [] (eff_nodup dup entries es h hd) (by simp)

/-! ### what the policies do with the own entries -/

theorem dropSeen_cons (k v : ENode) (rest : List (ENode × ENode)) (seen : List FP) :
    dropSeen ((k, v) :: rest) seen =
      if seen.any (· == fpOf k) then dropSeen rest seen else (k, v) :: dropSeen rest (fpOf k :: seen) := by
  simp only [dropSeen]

/-- `FirstWins` on the own entries is "keep the first entry of every key" (= `dropSeen`) -/
theorem applyPolicy_firstWins_eq (own : List (ENode × ENode)) : ∀ seen,
    applyPolicy .firstWins own seen = some (dropSeen own seen) := by
  induction own with
  | nil => intro seen; rfl
  | cons e rest ih =>
    intro seen
    obtain ⟨k, v⟩ := e
    rw [dropSeen_cons]
    by_cases hk : seen.any (· == fpOf k) = true
    · simp [applyPolicy, hk, ih]
    · simp [applyPolicy, hk, ih]

/-- `Error` on the own entries: all of them, or an error when a key is repeated -/
theorem applyPolicy_error_eq (own r : List (ENode × ENode)) (h : applyPolicy .error own [] = some r) :
    r = own ∧ (keys own).Nodup := by
  have hnd : (keys own).Nodup := by
    apply Classical.byContradiction
    intro hc
    have := (C04.applyPolicy_error_none_iff own []).2 (fun hh => hc hh.1)
    rw [this] at h; cases h
  have := C04.applyPolicy_nodup .error own [] hnd (by simp)
  rw [this] at h
  exact ⟨(Option.some.inj h).symm, hnd⟩

/-! ### depth of the sub-nodes delivered by a merge value / a mapping (no side condition) -/

open SaphyrVerif.Lemmas.C05 in
mutual
theorem sourceEntries_depth : ∀ (n : ENode) (es : List (ENode × ENode)), sourceEntries n = some es →
    ∀ e ∈ es, depthOf e.1 < depthOf n ∧ depthOf e.2 < depthOf n
  | .scalar v tag rt st a l, es, h => by
    simp only [sourceEntries_scalar] at h
    split at h
    · cases h; simp
    · cases h
  | .map a l el entries, es, h => by
    simp only [sourceEntries_map] at h
    simpa using mapSourceEntries_depth entries es h
  | .seq a tag rt l el items, es, h => by
    simp only [sourceEntries_seq] at h
    simpa using seqSourceEntries_depth items es h
theorem mapSourceEntries_depth : ∀ (entries es : List (ENode × ENode)), mapSourceEntries entries = some es →
    ∀ e ∈ es, depthOf e.1 < depthOfE entries + 1 ∧ depthOf e.2 < depthOfE entries + 1
  | [], es, h => by simp at h; subst h; simp
  | (k, v) :: rest, es, h => by
    rw [mapSourceEntries_cons] at h
    split at h
    · cases hb : sourceEntries v with
      | none => simp [hb] at h
      | some b =>
        cases hr : mapSourceEntries rest with
        | none => simp [hb, hr] at h
        | some r =>
          simp only [hb, hr, Option.some.injEq] at h
          subst h
          intro e he
          rcases List.mem_append.1 he with he | he
          · have := mapSourceEntries_depth rest r hr e he
            simp only [depthOfE_cons]; omega
          · have := sourceEntries_depth v b hb e he
            simp only [depthOfE_cons]; omega
    · cases hr : mapSourceEntries rest with
      | none => simp [hr] at h
      | some r =>
        simp only [hr, Option.some.injEq] at h
        subst h
        intro e he
        rcases List.mem_cons.1 he with rfl | he
        · simp only [depthOfE_cons]; omega
        · have := mapSourceEntries_depth rest r hr e he
          simp only [depthOfE_cons]; omega
theorem seqSourceEntries_depth : ∀ (items : List ENode) (es : List (ENode × ENode)), seqSourceEntries items = some es →
    ∀ e ∈ es, depthOf e.1 < depthOfL items + 1 ∧ depthOf e.2 < depthOfL items + 1
  | [], es, h => by simp at h; subst h; simp
  | n :: ns, es, h => by
    rw [seqSourceEntries_cons] at h
    cases hb : sourceEntries n with
    | none => simp [hb] at h
    | some b =>
      cases hr : seqSourceEntries ns with
      | none => simp [hb, hr] at h
      | some r =>
        simp only [hb, hr, Option.some.injEq] at h
        subst h
        intro e he
        rcases List.mem_append.1 he with he | he
        · have := seqSourceEntries_depth ns r hr e he
          simp only [depthOfL_cons]; omega
        · have := sourceEntries_depth n b hb e he
          simp only [depthOfL_cons]; omega
end

/-- every node of the effective entries is a proper sub-node of the mapping -/
theorem effEntries_depth (dup : DupPolicy) (entries es : List (ENode × ENode)) (h : effEntries dup entries = some es) :
    ∀ e ∈ es, depthOf e.1 ≤ depthOfE entries ∧ depthOf e.2 ≤ depthOfE entries := by
  obtain ⟨ownKept, batches, h1, h2, rfl⟩ := (C03.effEntries_eq_some_iff dup entries es).1 h
  have hsub := C04.applyPolicy_sublist dup _ [] ownKept h1
  intro e he
  rcases List.mem_append.1 he with he | he
  · exact depthOfE_mem (splitEntries_own_mem entries e (hsub.subset he))
  · have he' := (C04.dropSeen_sublist batches.flatten _).subset he
    obtain ⟨b, hb', heb⟩ := List.mem_flatten.1 he'
    obtain ⟨n, hn, hnb⟩ := C03.mapM_option_mem sourceEntries _ batches h2 b hb'
    obtain ⟨k, hk, -⟩ := splitEntries_merge_mem entries n (List.mem_reverse.1 hn)
    have d1 := sourceEntries_depth n b hnb e heb
    have d2 := (depthOfE_mem hk).2
    simp only at d2
    omega

/-! ### the untyped interpretation does not depend on its fuel (all trees) -/

open SaphyrVerif.Lemmas.C05 in
theorem interpAny_fuel (cfg : Cfg) : ∀ (f g : Nat) (n : ENode), depthOf n ≤ f → depthOf n ≤ g →
    interpAny cfg f n = interpAny cfg g n := by
  intro f
  induction f with
  | zero => intro g n h; have := depthOf_pos n; omega
  | succ f ih =>
    intro g n hf hg
    cases g with
    | zero => have := depthOf_pos n; omega
    | succ g =>
      cases n with
      | scalar v tag rt st a l => rw [interpAny_succ_scalar, interpAny_succ_scalar]
      | seq a tag rt l el items =>
        rw [interpAny_succ_seq, interpAny_succ_seq]
        simp only [depthOf_seq] at hf hg
        congr 1
        apply mapM_congr
        intro x hx
        have := depthOfL_mem hx
        exact ih g x (by omega) (by omega)
      | map a l el entries =>
        rw [interpAny_succ_map, interpAny_succ_map]
        simp only [depthOf_map] at hf hg
        cases he : effEntries cfg.dup entries with
        | none => rfl
        | some es =>
          simp only []
          congr 1
          apply mapM_congr
          intro x hx
          obtain ⟨h1, h2⟩ := effEntries_depth cfg.dup entries es he x hx
          simp only [pairFn]
          rw [ih g x.1 (by omega) (by omega), ih g x.2 (by omega) (by omega)]

open SaphyrVerif.Lemmas.C05 in
/-- the untyped target on a sequence: the list of the untyped values of the items -/
theorem interp_any_seq (cfg : Cfg) (a tag : Nat) (rt : Option (List Char)) (l el : Loc) (items : List ENode) :
    interp cfg .any (.seq a tag rt l el items) = (listFrom (interp cfg .any) items).map .seq := by
  rw [interp_any, depthOf_seq, interpAny_succ_seq, listFrom_eq_mapM]
  congr 1
  apply mapM_congr
  intro x hx
  rw [interp_any]
  exact interpAny_fuel cfg _ _ x (depthOfL_mem hx) (Nat.le_refl _)

open SaphyrVerif.Lemmas.C05 in
/-- the untyped target on a mapping: the pairs of the untyped values of the effective entries -/
theorem interp_any_map (cfg : Cfg) (a : Nat) (l el : Loc) (entries : List (ENode × ENode)) :
    interp cfg .any (.map a l el entries) =
      match effEntries cfg.dup entries with
      | none => none
      | some es => (pairsFrom (interp cfg .any) (interp cfg .any) es).map .map := by
  rw [interp_any, depthOf_map, interpAny_succ_map]
  cases he : effEntries cfg.dup entries with
  | none => rfl
  | some es =>
    simp only [pairsFrom_eq_mapM]
    congr 1
    apply mapM_congr
    intro x hx
    obtain ⟨h1, h2⟩ := effEntries_depth cfg.dup entries es he x hx
    simp only [pairFn, interp_any]
    rw [interpAny_fuel cfg _ _ x.1 (by omega) (Nat.le_refl _), interpAny_fuel cfg _ _ x.2 (by omega) (Nat.le_refl _)]

end SaphyrVerif.Lemmas.C03T
