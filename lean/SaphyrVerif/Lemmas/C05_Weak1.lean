import SaphyrVerif.Lemmas.C05_Cursor
/-!
Weak cursor invariant, part 1: cursor step lemmas in terms of `buf[i]?`, the predicate `Stays` and its algebra,
scalar-level helpers.
-/
namespace SaphyrVerif.Lemmas.C05
open SaphyrVerif SaphyrVerif.Scalars SaphyrVerif.Pump SaphyrVerif.De SaphyrVerif.Spec

/-! ### cursor steps in terms of `buf[i]?` -/

theorem peek_replay (buf : List Ev) (i : Nat) (ref : Option Loc) :
    Cur.peek (.replay buf i ref) = .ok buf[i]? (.replay buf i ref) := rfl

theorem next_replay_some {buf : List Ev} {i : Nat} {e : Ev} (ref : Option Loc) (h : buf[i]? = some e) :
    Cur.next (.replay buf i ref) = .ok (some e) (.replay buf (i + 1) ref) := by
  simp [Cur.next, h]

theorem next_replay_none {buf : List Ev} {i : Nat} (ref : Option Loc) (h : buf[i]? = none) :
    Cur.next (.replay buf i ref) = .ok none (.replay buf i ref) := by
  simp [Cur.next, h]

theorem drop_of_getElem? {buf : List Ev} {i : Nat} {e : Ev} (h : buf[i]? = some e) :
    buf.drop i = e :: buf.drop (i + 1) := by
  obtain ⟨hlt, he⟩ := List.getElem?_eq_some_iff.mp h
  rw [List.drop_eq_getElem_cons hlt, he]

theorem depthAt_succ' {buf : List Ev} {i : Nat} {e : Ev} (h : buf[i]? = some e) :
    depthAt buf (i + 1) = depthAt buf i + Ev.delta e :=
  depthAt_succ (drop_of_getElem? h)

theorem Above.step' {buf : List Ev} {i : Nat} {e : Ev} {d : Int} (h : buf[i]? = some e)
    (h0 : d ≤ depthAt buf i) (h1 : d ≤ depthAt buf i + Ev.delta e) : Above buf i (i + 1) d :=
  Above.step (drop_of_getElem? h) h0 h1

/-! ### `Stays` -/

/-- the cursor `c'` is a replay cursor on the same buffer at an index `j ≥ i`, and between `i` and `j` the
nesting depth never dropped below `depthAt buf i - k` -/
def Stays (buf : List Ev) (ref : Option Loc) (i : Nat) (k : Int) (c' : Cur) : Prop :=
  ∃ j, c' = .replay buf j ref ∧ i ≤ j ∧ Above buf i j (depthAt buf i - k)

theorem Stays.nonneg {buf : List Ev} {ref : Option Loc} {i : Nat} {k : Int} {c' : Cur}
    (h : Stays buf ref i k c') : 0 ≤ k := by
  obtain ⟨j, -, hij, ha⟩ := h
  have := ha.left hij
  omega

theorem Stays.refl {buf : List Ev} {ref : Option Loc} {i : Nat} {k : Int} (hk : 0 ≤ k) :
    Stays buf ref i k (.replay buf i ref) :=
  ⟨i, rfl, Nat.le_refl _, Above.refl (by omega)⟩

theorem Stays.mono {buf : List Ev} {ref : Option Loc} {i : Nat} {k k' : Int} {c' : Cur}
    (h : Stays buf ref i k c') (hk : k ≤ k') : Stays buf ref i k' c' := by
  obtain ⟨j, hc, hij, ha⟩ := h
  exact ⟨j, hc, hij, ha.mono (by omega)⟩

/-- additive chaining -/
theorem Stays.trans {buf : List Ev} {ref : Option Loc} {i : Nat} {k k' k'' : Int} {c₁ c₂ : Cur}
    (h1 : Stays buf ref i k c₁) (h2 : ∀ j, c₁ = .replay buf j ref → Stays buf ref j k' c₂)
    (hk : k + k' ≤ k'') : Stays buf ref i k'' c₂ := by
  obtain ⟨j, hc, hij, ha⟩ := h1
  obtain ⟨j', hc', hjj', ha'⟩ := h2 j hc
  have hr := ha.right hij
  have hl := ha'.left hjj'
  exact ⟨j', hc', by omega, (ha.mono (by omega)).trans (ha'.mono (by omega))⟩

/-- one consumed event, then something else -/
theorem Stays.step {buf : List Ev} {ref : Option Loc} {i : Nat} {k k' : Int} {c' : Cur} {e : Ev}
    (he : buf[i]? = some e) (h : Stays buf ref (i + 1) k' c') (hk : k' - Ev.delta e ≤ k) (hk0 : 0 ≤ k) :
    Stays buf ref i k c' := by
  obtain ⟨j, hc, hij, ha⟩ := h
  have hd := depthAt_succ' he
  have hl := ha.left hij
  refine ⟨j, hc, by omega, ?_⟩
  exact (Above.step' he (by omega) (by omega)).trans (ha.mono (by omega))

/-- exactly one consumed event -/
theorem Stays.one {buf : List Ev} {ref : Option Loc} {i : Nat} {k : Int} {e : Ev}
    (he : buf[i]? = some e) (hk : - Ev.delta e ≤ k) (hk0 : 0 ≤ k) :
    Stays buf ref i k (.replay buf (i + 1) ref) :=
  Stays.step he (Stays.refl (k := 0) (Int.le_refl _)) (by omega) hk0

/-! ### tactics -/

set_option linter.unusedSimpArgs false

set_option hygiene false in
/-- case split on the event under the cursor and reduce `peek`/`next` in `h` -/
macro "weak_ev" : tactic => `(tactic|
  (rcases hb : buf[i]? with _ | (_ | _ | _ | _ | _) <;>
   first
   | simp only [peek_replay, next_replay_none ref hb, hb] at h
   | simp only [peek_replay, next_replay_some ref hb, hb] at h
   | skip))

set_option hygiene false in
/-- close a leaf: impossible equation, or cursor unmoved / moved by one event -/
macro "weak_leaf" : tactic => `(tactic|
  first
  | contradiction
  | (cases h
     first
     | exact Stays.refl (by omega)
     | exact Stays.one hb (by simp [Ev.delta]) (by omega)))

set_option hygiene false in
macro "weak_splits" : tactic => `(tactic| repeat' (first | weak_leaf | split at h))

variable {cfg : Cfg} {buf : List Ev} {i : Nat} {ref : Option Loc} {c' : Cur}

theorem takeStringScalar_weak {s : List Char}
    (h : takeStringScalar cfg (.replay buf i ref) = .ok s c') : Stays buf ref i 0 c' := by
  unfold takeStringScalar at h
  weak_ev <;> weak_splits

theorem deserString_weak {v : Val}
    (h : deserString cfg (.replay buf i ref) = .ok v c') : Stays buf ref i 0 c' := by
  unfold deserString at h
  weak_ev <;> weak_splits
  all_goals (cases h; exact takeStringScalar_weak (by assumption))

theorem deserStr_weak {s : List Char}
    (h : deserStr cfg (.replay buf i ref) = .ok s c') : Stays buf ref i 0 c' := by
  unfold deserStr at h
  weak_ev
  all_goals try contradiction
  split at h
  · contradiction
  · cases h; exact deserString_weak (by assumption)
  · contradiction

theorem deserAnyScalar_weak {v : Val} {s : List Char} {tag : Nat} {st : Style} {l : Loc}
    (hb : ∃ e, buf[i]? = some e ∧ Ev.delta e = 0)
    (h : deserAnyScalar cfg (.replay buf i ref) s tag st l = .ok v c') : Stays buf ref i 0 c' := by
  obtain ⟨e, hb, he⟩ := hb
  unfold deserAnyScalar at h
  simp only [next_replay_some ref hb] at h
  repeat' (first | contradiction | (cases h; exact Stays.one hb (by omega) (by omega)) | split at h)
  all_goals (cases h; exact takeStringScalar_weak (by assumption))

theorem deserScalarTyped_weak {v : Val} {ty : Ty}
    (h : deserScalarTyped cfg ty (.replay buf i ref) = .ok v c') : Stays buf ref i 0 c' := by
  unfold deserScalarTyped at h
  cases ty <;> weak_ev <;> weak_splits
  all_goals (rename_i heq; subst h; repeat' (first | cases heq | split at heq))

theorem byteSeqVisit_weak {v : Val} {shape : Ty ⊕ List Ty} {data : List Nat}
    (h : byteSeqVisit shape data (.replay buf i ref) = .ok v c') : c' = .replay buf i ref := by
  unfold byteSeqVisit at h
  dsimp only at h
  repeat' (first | contradiction | (cases h; rfl) | split at h)

theorem structFinish_weak {v : Val} {fields : List (String × Ty)} {got : List (String × Val)}
    (h : structFinish fields got (.replay buf i ref) = .ok v c') : c' = .replay buf i ref := by
  unfold structFinish at h
  repeat' (first | contradiction | (cases h; rfl) | split at h)

end SaphyrVerif.Lemmas.C05
