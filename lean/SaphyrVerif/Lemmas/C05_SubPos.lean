import SaphyrVerif.Spec.SubPos
import SaphyrVerif.Lemmas.C05_Main
/-!
Helper lemmas for C05, part 15: a failing sub-position makes every enclosing position fail
(`SubPos.interp_none`) — specification level, by induction on the derivation of `SubPos`.
-/
namespace SaphyrVerif.Lemmas.C05
open SaphyrVerif SaphyrVerif.Scalars SaphyrVerif.Pump SaphyrVerif.De SaphyrVerif.Spec

/-! ### one failing component makes the container fail -/

theorem listFrom_none_of_mem (f : NodeFn) {items : List ENode} {it : ENode} (hm : it ∈ items) (hf : f it = none) :
    listFrom f items = none := by
  induction items with
  | nil => cases hm
  | cons x xs ih =>
    rw [listFrom_cons]
    rcases List.mem_cons.mp hm with rfl | hm'
    · simp [hf]
    · rw [ih hm']
      cases f x <;> rfl

theorem tupleFrom_none_of_zip (cfg : Cfg) {ts : List Ty} {items : List ENode} {te : Ty} {it : ENode}
    (hm : (te, it) ∈ ts.zip items) (hf : interp cfg te it = none) : tupleFrom (interpFns cfg ts) items = none := by
  induction ts generalizing items with
  | nil => simp at hm
  | cons t ts ih =>
    cases items with
    | nil => simp at hm
    | cons x xs =>
      rw [interpFns_cons, tupleFrom_cons]
      simp only [List.zip_cons_cons, List.mem_cons, Prod.mk.injEq] at hm
      rcases hm with ⟨rfl, rfl⟩ | hm'
      · simp [hf]
      · rw [ih hm']
        cases interp cfg t x <;> rfl

theorem pairsFrom_none_of_mem (kf vf : NodeFn) {es : List (ENode × ENode)} {k v : ENode} (hm : (k, v) ∈ es)
    (hf : kf k = none ∨ vf v = none) : pairsFrom kf vf es = none := by
  induction es with
  | nil => cases hm
  | cons e es ih =>
    obtain ⟨k0, v0⟩ := e
    rw [pairsFrom_cons]
    rcases List.mem_cons.mp hm with h | hm'
    · cases h
      rcases hf with hf | hf
      · simp [hf]
      · rw [hf]
        cases kf k <;> rfl
    · rw [ih hm']
      cases kf k0 <;> cases vf v0 <;> rfl

/-- the field table and the field list are searched alike -/
theorem fieldFns_find (cfg : Cfg) {fields : List (String × Ty)} {name : List Char} {fname : String} {fty : Ty}
    (h : fields.find? (fun f => f.1.toList == name) = some (fname, fty)) :
    (fieldFns cfg fields).find? (fun f => f.1.toList == name) = some (fname, isOptionTy fty, interp cfg fty) := by
  induction fields with
  | nil => simp at h
  | cons f rest ih =>
    obtain ⟨n, t⟩ := f
    rw [fieldFns_cons]
    simp only [List.find?_cons] at h ⊢
    by_cases hn : (n.toList == name) = true
    · simp only [hn] at h ⊢
      cases h
      rfl
    · simp only [hn] at h ⊢
      exact ih h

theorem fieldEntriesFrom_none_of_mem (cfg : Cfg) (fs : FieldFns) (deny : Bool) {es : List (ENode × ENode)} {k v : ENode}
    {name : List Char} {fname : String} {o : Bool} {vf : NodeFn} (hm : (k, v) ∈ es) (hid : identOf cfg k = some name)
    (hfind : fs.find? (fun f => f.1.toList == name) = some (fname, o, vf)) (hf : vf v = none) :
    ∀ acc, fieldEntriesFrom cfg fs deny es acc = none := by
  induction es with
  | nil => cases hm
  | cons e es ih =>
    obtain ⟨k0, v0⟩ := e
    intro acc
    rw [fieldEntriesFrom_cons]
    rcases List.mem_cons.mp hm with h | hm'
    · cases h
      simp only [hid, hfind, hf]
      split <;> rfl
    · have ih' := ih hm'
      cases identOf cfg k0 with
      | none => rfl
      | some nm =>
        simp only []
        cases fs.find? (fun f => f.1.toList == nm) with
        | some q =>
          obtain ⟨qn, qo, qf⟩ := q
          simp only []
          split
          · rfl
          · cases qf v0 with
            | none => rfl
            | some val => exact ih' _
        | none =>
          simp only []
          split
          · rfl
          · cases interpAny cfg (depthOf v0) v0 with
            | none => rfl
            | some _ => exact ih' _

/-- the variant table and the variant list are searched alike -/
theorem variantFrom_of_find (cfg : Cfg) {variants : List (String × VTy)} {vname : List Char} {vn : String} {vty : VTy}
    (h : variants.find? (fun p => p.1.toList == vname) = some (vn, vty)) (p : Option ENode) (tg : Bool) :
    variantFrom cfg (variantFns cfg variants) vname p tg = variantSel cfg vn vty p tg := by
  induction variants with
  | nil => simp at h
  | cons q rest ih =>
    obtain ⟨n, vt⟩ := q
    rw [variantFns_cons]
    simp only [List.find?_cons] at h
    by_cases hn : (n.toList == vname) = true
    · simp only [hn] at h
      cases h
      rw [variantFrom_cons_eq cfg _ _ _ vname p tg (by simpa using hn)]
      cases vty <;> cases p <;> rfl
    · simp only [hn] at h
      rw [variantFrom_cons_ne cfg _ _ _ vname p tg (by simpa using hn)]
      exact ih h

/-- the payload position of a variant fails ⇒ the selected variant fails -/
theorem variantSel_none (cfg : Cfg) (vn : String) {vty : VTy} {pty : Ty} (hp : payloadTy vty = some pty) (p : ENode) (tg : Bool)
    (hf : interp cfg pty p = none) : variantSel cfg vn vty (some p) tg = none := by
  cases vty with
  | unit => simp [payloadTy] at hp
  | newtype t =>
    simp only [payloadTy, Option.some.injEq] at hp
    subst hp
    simp [variantSel, hf]
  | tuple ts =>
    simp only [payloadTy, Option.some.injEq] at hp
    subst hp
    rw [interp_tuple] at hf
    simp [variantSel, hf]
  | struct fs =>
    simp only [payloadTy, Option.some.injEq] at hp
    subst hp
    rw [interp] at hf
    simp [variantSel, hf]

theorem effEntries_nil (dup : DupPolicy) : effEntries dup [] = some [] := by
  cases dup <;> rfl

/-! ### the two facts about `SubPos` -/

/-- a position that contains a solid node is itself on a solid node -/
theorem subPos_solid {cfg : Cfg} {ty ty' : Ty} {n n' : ENode} (h : SubPos cfg ty n ty' n') (hs : solid n' = true) :
    solid n = true := by
  induction h with
  | here => exact hs
  | newtype _ ih => exact ih hs
  | option _ ih => exact ih hs
  | seqItem => rfl
  | tupleItem => rfl
  | @mapKey kt vt a l el entries es k v ty' n' he hm _ _ =>
    cases entries with
    | nil => rw [effEntries_nil] at he; cases he; cases hm
    | cons e r => rfl
  | @mapValue kt vt a l el entries es k v ty' n' he hm _ _ =>
    cases entries with
    | nil => rw [effEntries_nil] at he; cases he; cases hm
    | cons e r => rfl
  | @field fields deny a l el entries es k v name fname fty ty' n' he hm _ _ _ _ =>
    cases entries with
    | nil => rw [effEntries_nil] at he; cases he; cases hm
    | cons e r => rfl
  | variantMap => rfl
  | variantTagged => rfl

/-- (spec) a failing sub-position on a solid node makes the enclosing position fail -/
theorem subPos_interp_none {cfg : Cfg} {ty ty' : Ty} {n n' : ENode} (h : SubPos cfg ty n ty' n') (hs : Spec.solid n' = true)
    (hf : interp cfg ty' n' = none) : interp cfg ty n = none := by
  induction h with
  | here => exact hf
  | newtype _ ih => rw [interp]; exact ih hs hf
  | @option t n ty' n' hsub ih =>
    have hn := subPos_solid hsub hs
    have := ih hs hf
    cases n with
    | scalar => simp [Spec.solid] at hn
    | seq => rw [interp]; simp [this]
    | map => rw [interp]; simp [this]
  | seqItem hm _ ih =>
    rw [interp_seq_seq, listFrom_none_of_mem _ hm (ih hs hf)]; rfl
  | tupleItem hm _ ih =>
    rw [interp_tuple]
    simp only [tupleNode]
    rw [tupleFrom_none_of_zip cfg hm (ih hs hf)]; rfl
  | @mapKey kt vt a l el entries es k v ty' n' he hm hsub ih =>
    have hk := subPos_solid hsub hs
    have hkf : keyFn cfg kt k = none := by
      have := ih hs hf
      cases k with
      | scalar => simp [Spec.solid] at hk
      | seq => simp only [keyFn]; split <;> simp_all
      | map ka kl kel kes =>
        cases kes with
        | nil => simp [Spec.solid] at hk
        | cons e r => simp only [keyFn]; split <;> simp_all
    rw [interp_map_map, he]
    simp only [Option.bind_some]
    rw [pairsFrom_none_of_mem _ _ hm (Or.inl hkf)]; rfl
  | @mapValue kt vt a l el entries es k v ty' n' he hm hsub ih =>
    rw [interp_map_map, he]
    simp only [Option.bind_some]
    rw [pairsFrom_none_of_mem _ _ hm (Or.inr (ih hs hf))]; rfl
  | @field fields deny a l el entries es k v name fname fty ty' n' he hm hid hfind hsub ih =>
    rw [interp, structNode_map, he]
    simp only [Option.bind_some]
    rw [fieldEntriesFrom_none_of_mem cfg _ deny hm hid (fieldFns_find cfg hfind) (ih hs hf)]; rfl
  | @variantMap name variants a l el kv ktag krt kst ka kl payload vn vty pty ty' n' hfind hp hsub ih =>
    rw [interp, enumFrom_map_scalarKey]
    simp only [List.isEmpty_nil, if_true]
    split
    · rfl
    · rw [variantFrom_of_find cfg hfind]
      exact variantSel_none cfg vn hp payload false (ih hs hf)
  | @variantTagged name variants a tag rt l el items tn vn vty pty ty' n' htn hfind hp hsub ih =>
    rw [interp]
    simp only [enumFrom, htn]
    split
    · rw [variantFrom_of_find cfg hfind]
      exact variantSel_none cfg vn hp _ true (ih hs hf)
    · rfl

#print axioms subPos_interp_none

end SaphyrVerif.Lemmas.C05
