import SaphyrVerif.Lemmas.CurSimDe
/-!
Cursor simulation, part 2f: enums (`deserEnum`, `variantPayload`).  The tagged notations deserialize the
payload from a private replay buffer that is the same on both sides.
-/
namespace SaphyrVerif.Lemmas.CurSim
open SaphyrVerif SaphyrVerif.Scalars SaphyrVerif.Pump SaphyrVerif.De

set_option linter.unusedSimpArgs false
set_option linter.unusedVariables false

open Lean Elab Tactic Meta in
/-- the payload of a tag-selected variant is read from a private replay buffer whose reference location
(`tagUseSite`) differs between the two sides: transport the outcome of the left call (newest equation) to
the `variantPayload` call over a replay cursor found on the right side of the goal, by `Sim.replay`. -/
elab "sim_fwd_payload" : tactic => withMainContext do
  let some (n, isOk, h) ← newestCallEq | throwError "sim_fwd_payload: no call"
  unless n == ``De.variantPayload do throwError "sim_fwd_payload: not a payload call"
  let tgt := (← instantiateMVars (← getMainTarget)).cleanupAnnotations
  unless tgt.isAppOfArity ``RV 5 do throwError "sim_fwd_payload: goal"
  let rhs := tgt.getArg! 4
  let some t' := rhs.find? (fun e => e.isAppOfArity ``De.variantPayload 8 && (e.getArg! 7).isAppOf ``De.Cur.replay)
    | throwError "sim_fwd_payload: no payload call on the right"
  let t'stx ← Term.exprToSyntax t'
  let prf ← `((SimA.variantPayload ‹SimA _› _ _ _ _ _ _ (Sim.replay _ _ _ _) : RV Eq _ $t'stx))
  if isOk then evalTactic (← `(tactic| fwdk_eq $h, $prf))
  else evalTactic (← `(tactic| fwde $h, $prf))

macro "sim_loop_e" : tactic =>
  `(tactic| repeat' (first | sim_leaf | sim_step | sim_simp | (split <;> try (first | sim_fwd | sim_fwd_payload)) | pfe_absurd | sim_tail))

theorem deserEnum_simStep {fuel : Nat} (ih : SimA fuel) :
    ∀ cfg name variants {c c'}, Sim c c' →
      RV Eq (De.deserEnum (fuel + 1) cfg name variants c) (De.deserEnum (fuel + 1) cfg name variants c') := by
  intro cfg name variants c c' hs
  rw [De.deserEnum, De.deserEnum]
  sim_loop_e

theorem variantPayload_simStep {fuel : Nat} (ih : SimA fuel) :
    ∀ cfg variants vname vloc mapMode tagged {c c'}, Sim c c' →
      RV Eq (De.variantPayload (fuel + 1) cfg variants vname vloc mapMode tagged c)
        (De.variantPayload (fuel + 1) cfg variants vname vloc mapMode tagged c') := by
  intro cfg variants vname vloc mapMode tagged c c' hs
  rw [De.variantPayload, De.variantPayload]
  cases lookupField variants vname with
  | none => exact RV.err
  | some p =>
    obtain ⟨i, vt⟩ := p
    cases vt
    case unit => cases mapMode <;> cases tagged <;> simp only [] <;> sim_loop
    case newtype => cases mapMode <;> cases tagged <;> simp only [] <;> sim_loop
    case tuple => cases mapMode <;> cases tagged <;> simp only [] <;> sim_loop
    case struct => cases mapMode <;> cases tagged <;> simp only [] <;> sim_loop

end SaphyrVerif.Lemmas.CurSim
