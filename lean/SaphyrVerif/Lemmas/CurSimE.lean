import SaphyrVerif.Lemmas.CurSimDe
import SaphyrVerif.Lemmas.CurSimPayload
/-!
Cursor simulation, part 2f: enums (`deserEnum`, `variantPayload`).  The tagged notations deserialize the
payload from a private replay buffer that is the same on both sides.
-/
namespace SaphyrVerif.Lemmas.CurSim
open SaphyrVerif SaphyrVerif.Scalars SaphyrVerif.Pump SaphyrVerif.De

set_option linter.unusedSimpArgs false
set_option linter.unusedVariables false

macro "sim_loop_e" : tactic =>
  `(tactic| repeat' (first | sim_leaf | sim_step | sim_simp | (split <;> try (first | sim_fwd | sim_fwd_payload)) | pfe_absurd | sim_tail))

theorem deserEnum_simStep {fuel : Nat} (ih : SimA fuel) :
    ∀ cfg name variants {c c'}, Sim c c' →
      RV Eq (De.deserEnum (fuel + 1) cfg name variants c) (De.deserEnum (fuel + 1) cfg name variants c') := by
  intro cfg name variants c c' hs
  rw [De.deserEnum, De.deserEnum]
  sim_loop_e

theorem variantPayload_simStep {fuel : Nat} (ih : SimA fuel) :
    ∀ cfg variants vname vloc mapMode tagged {c c'}, Sim c c' →
      RV Eq (De.variantPayload (fuel + 1) cfg variants vname vloc mapMode tagged c)
        (De.variantPayload (fuel + 1) cfg variants vname vloc mapMode tagged c') := by
  intro cfg variants vname vloc mapMode tagged c c' hs
  rw [De.variantPayload, De.variantPayload]
  cases lookupField variants vname with
  | none => exact RV.err
  | some p =>
    obtain ⟨i, vt⟩ := p
    cases vt
    case unit => cases mapMode <;> cases tagged <;> simp only [] <;> sim_loop
    case newtype => cases mapMode <;> cases tagged <;> simp only [] <;> sim_loop
    case tuple => cases mapMode <;> cases tagged <;> simp only [] <;> sim_loop
    case struct => cases mapMode <;> cases tagged <;> simp only [] <;> sim_loop

end SaphyrVerif.Lemmas.CurSim
