import SaphyrVerif.Lemmas.C11_Typed2FailDoc
/-!
Typed multi-document theorems (C11), continued — part 11: EVERY document that has no expansion from the empty
anchor table — an alias to an anchor that is not defined in this document (at the root or nested anywhere), a
recursive reference — makes the pump without an enforcer fail INSIDE the document (`failRun_of_no_expansion`),
whatever the alias limits are.  The node lemma of C02 (`pump_node`) says that the run stops with an error; that
no call of that run reads beyond the items of the document is shown with a sentinel: in front of a scan-error
item every call that does not report THAT error has left the item unread.
-/
namespace SaphyrVerif.Lemmas.C11B
open SaphyrVerif SaphyrVerif.Scalars SaphyrVerif.Pump SaphyrVerif.De SaphyrVerif.Spec SaphyrVerif.Budget
open SaphyrVerif.Lemmas.C02 (Steps Stops Good)
open SaphyrVerif.Lemmas.C11 (Doc Boundary)

set_option linter.unusedSimpArgs false

/-- the sentinel: a scan error at location `l0` -/
abbrev sentinel (l0 : Loc) : RawItem := .err false l0

/-- the parser loop in front of the sentinel: it reports the sentinel's error, or leaves the sentinel unread -/
theorem parserLoop_sentinel (l0 : Loc) : ∀ (A : List RawItem) (p : Pump) (s : Step) (p' : Pump) (rest : List RawItem),
    p.stopAtDocEnd = false → parserLoop p (A ++ [sentinel l0]) = (s, p', rest) →
    s = .error (.scan l0) ∨ ∃ A', rest = A' ++ [sentinel l0] := by
  intro A
  induction A with
  | nil =>
    intro p s p' rest _ h
    simp only [List.nil_append, parserLoop, Bool.false_eq_true, ↓reduceIte, Prod.mk.injEq] at h
    exact .inl h.1.symm
  | cons it A ih =>
    intro p s p' rest hs h
    cases it with
    | err ua l =>
      simp only [List.cons_append, parserLoop] at h
      cases h
      exact .inr ⟨A, rfl⟩
    | ev raw loc =>
      simp only [List.cons_append, parserLoop, Pump.resetDocumentState, hs, Bool.false_eq_true, ↓reduceIte] at h
      repeat' (split at h)
      all_goals first
        | (cases h; exact .inr ⟨A, rfl⟩)
        | exact ih _ _ _ _ (by simp [Pump.resetDocumentState]) h
        | (have hsv := ‹serveInject _ _ = (none, _)›
           exact ih _ _ _ _ (by rw [serveInject_sade hsv]) h)

theorem nextImpl_sentinel (l0 : Loc) (A : List RawItem) (p : Pump) (s : Step) (p' : Pump) (rest : List RawItem)
    (hs : p.stopAtDocEnd = false) (h : nextImpl p (A ++ [sentinel l0]) = (s, p', rest)) :
    s = .error (.scan l0) ∨ ∃ A', rest = A' ++ [sentinel l0] := by
  unfold nextImpl at h
  rcases hsv : serveInject p p.inject with ⟨_ | step, p1⟩
  · rw [hsv] at h
    exact parserLoop_sentinel l0 A p1 s p' rest (by rw [serveInject_sade hsv, hs]) h
  · rw [hsv] at h
    simp only [Prod.mk.injEq] at h
    exact .inr ⟨A, h.2.2.symm⟩

/-- a run that stops with an error other than the sentinel's has not read the sentinel -/
theorem failRun_of_stops (l0 : Loc) {p : Pump} {inp : List RawItem} {es : List Ev} {p1 : Pump} {inp1 : List RawItem}
    (hsteps : Steps p inp es p1 inp1) :
    ∀ (A : List RawItem), inp = A ++ [sentinel l0] → p.stopAtDocEnd = false →
      ∀ (err : PErr) (p' : Pump) (inp2 : List RawItem), nextImpl p1 inp1 = (.error err, p', inp2) → err ≠ .scan l0 →
      FailRun [sentinel l0] p (A ++ [sentinel l0]) es := by
  induction hsteps with
  | refl p inp =>
    intro A hin hs err p' inp2 hn hne
    subst hin
    rcases nextImpl_sentinel l0 A p _ p' inp2 hs hn with h | ⟨A', rfl⟩
    · simp only [Step.error.injEq] at h
      exact absurd h hne
    · exact FailRun.err hn
  | @cons p inp e p1 inp1 es p2 inp2 hn _ ih =>
    intro A hin hs err p' inp3 hn2 hne
    subst hin
    rcases nextImpl_sentinel l0 A p _ p1 inp1 hs hn with h | ⟨A', rfl⟩
    · cases h
    · have hs1 : p1.stopAtDocEnd = false := by
        have := (Lemmas.C11T.nextImpl_fixed p (A ++ [sentinel l0])).2.2
        rw [hn] at this
        rw [this, hs]
      exact FailRun.ev hn (ih A' rfl hs1 err p' inp3 hn2 hne)

/-- every document without an expansion (from the empty anchor table) makes the pump fail inside it -/
theorem failRun_of_no_expansion (L : AliasLimits) (t : LNode) (ls : Loc) (e : ExpErr)
    (hexp : expand [] [] t = .error e) :
    ∃ es, FailRun [.ev .docEnd 0] (canonStart L none ls) (itemsOf t ++ [.ev .docEnd 0]) es := by
  have hb : Boundary L (canonStart L none ls) := ⟨rfl, rfl, rfl, rfl, rfl, rfl, rfl, rfl, rfl⟩
  have hnode := Lemmas.C02.pump_node t (canonStart L none ls) hb.good [sentinel 0]
  rw [hb.anc, hb.rs] at hnode
  change Lemmas.C02.Outcome _ _ _ _ _ (expand [] [] t) at hnode
  rw [hexp] at hnode
  have hstops : ∃ es err p', Stops (canonStart L none ls) (itemsOf t ++ [sentinel 0]) es err p' ∧ err ≠ .scan 0 := by
    rcases hnode with ⟨es, p', hs⟩ | ⟨es, err, p', hs, hlim, -, -⟩ | ⟨-, es, l, p', hs⟩
    · refine ⟨es, _, p', hs, ?_⟩
      cases e <;> simp [Lemmas.C02.errOf]
    · refine ⟨es, err, p', hs, ?_⟩
      intro h
      subst h
      simp [Lemmas.C02.isLimit] at hlim
    · exact ⟨es, _, p', hs, by simp⟩
  obtain ⟨es, err, p', ⟨p1, inp1, inp2, hsteps, hn⟩, hne⟩ := hstops
  have hfr := failRun_of_stops 0 hsteps (itemsOf t) rfl rfl err p' inp2 hn hne
  exact ⟨es, failRun_swap (by simp) rfl hfr⟩

end SaphyrVerif.Lemmas.C11B
