import SaphyrVerif.Lemmas.C11_Measure
/-!
Helper lemmas for C11, part 4: the progress order on cursors.  `Le c c'` = `c'` is reachable from `c`
without increasing the measure (and is of the same kind: live / replay); `Lt` = strictly decreasing.
-/
namespace SaphyrVerif.Lemmas.C11
open SaphyrVerif SaphyrVerif.Scalars SaphyrVerif.Pump SaphyrVerif.De

theorem next_measure (p : Pump) (inp : List RawItem) :
    (Pump.next p inp).2.2.length < inp.length ∨
      ((Pump.next p inp).2.2.length = inp.length ∧
        pumpB (Pump.next p inp).2.1 + evt (Pump.next p inp).1 ≤ pumpB p) := by
  unfold Pump.next
  split
  · rename_i ev hl
    right
    refine ⟨rfl, ?_⟩
    simp [pumpB, lookBit, prodBit, evt, hl]
    omega
  · exact (nextImpl_measure p inp).2

theorem peek_measure (p : Pump) (inp : List RawItem) :
    (Pump.peek p inp).2.2.length < inp.length ∨
      ((Pump.peek p inp).2.2.length = inp.length ∧ pumpB (Pump.peek p inp).2.1 ≤ pumpB p) := by
  unfold Pump.peek
  split
  · rename_i ev hl
    right
    refine ⟨rfl, ?_⟩
    simp [pumpB, lookBit, prodBit, hl]
  · rename_i hl
    obtain ⟨h1, h2⟩ := nextImpl_measure p inp
    split
    · rename_i ev p' rest hn
      rw [hn] at h1 h2
      simp only at h1 h2 ⊢
      rcases h2 with h2 | ⟨h2, h3⟩
      · exact Or.inl h2
      · right
        refine ⟨h2, ?_⟩
        rw [hl] at h1
        simp [pumpB, lookBit, prodBit, evt, h1] at h3 ⊢
        omega
    · rcases h2 with h2 | ⟨h2, h3⟩
      · exact Or.inl h2
      · exact Or.inr ⟨h2, by omega⟩

/-- kind of the cursor: 1 = live, 0 = replay -/
def curK : Cur → Nat
  | .live .. => 1
  | .replay .. => 0

/-- remaining parser items -/
def curA : Cur → Nat
  | .live _ inp => inp.length
  | .replay .. => 0

def curB : Cur → Nat
  | .live p _ => pumpB p
  | .replay .. => 0

def Le (c c' : Cur) : Prop :=
  curK c' = curK c ∧ (curA c' < curA c ∨ (curA c' = curA c ∧ curB c' ≤ curB c))

def Lt (c c' : Cur) : Prop :=
  curK c' = curK c ∧ (curA c' < curA c ∨ (curA c' = curA c ∧ curB c' < curB c))

theorem Le.refl (c : Cur) : Le c c := ⟨rfl, Or.inr ⟨rfl, Nat.le_refl _⟩⟩

theorem Le.trans {a b c : Cur} (h1 : Le a b) (h2 : Le b c) : Le a c := by
  unfold Le at *; omega

theorem Lt.le {a b : Cur} (h : Lt a b) : Le a b := by unfold Le Lt at *; omega

theorem Lt.trans_le {a b c : Cur} (h1 : Lt a b) (h2 : Le b c) : Lt a c := by
  unfold Le Lt at *; omega

theorem Le.trans_lt {a b c : Cur} (h1 : Le a b) (h2 : Lt b c) : Lt a c := by
  unfold Le Lt at *; omega

/-- the cursor of a result -/
def rcur {α : Type} : R α → Cur
  | .ok _ c => c
  | .err _ c => c

@[simp] theorem rcur_ok {α : Type} (a : α) (c : Cur) : rcur (R.ok a c) = c := rfl
@[simp] theorem rcur_err {α : Type} (e : DErr) (c : Cur) : rcur (R.err e c : R α) = c := rfl

theorem next_le (c : Cur) : Le c (rcur c.next) := by
  cases c with
  | live p inp =>
    have h := next_measure p inp
    simp only [Cur.next]
    rcases hn : Pump.next p inp with ⟨s, p', r⟩
    rw [hn] at h
    cases s <;> refine ⟨rfl, ?_⟩ <;> simp only [rcur, curA, curB] <;> simp only [evt] at h <;> omega
  | replay buf idx ref =>
    simp only [Cur.next]
    split <;> simp [rcur, Le, curK, curA, curB]

theorem next_lt {c c' : Cur} {e : Ev} (h : c.next = .ok (some e) c') (hk : curK c = 1) : Lt c c' := by
  cases c with
  | live p inp =>
    have hm := next_measure p inp
    simp only [Cur.next] at h
    rcases hn : Pump.next p inp with ⟨s, p', r⟩
    rw [hn] at h hm
    cases s with
    | event e' =>
      simp only [R.ok.injEq] at h
      obtain ⟨_, rfl⟩ := h
      refine ⟨rfl, ?_⟩
      simp only [curA, curB, evt] at hm ⊢
      omega
    | eof => simp at h
    | error e' => simp at h
  | replay buf idx ref => simp [curK] at hk

theorem peek_le (c : Cur) : Le c (rcur c.peek) := by
  cases c with
  | live p inp =>
    have h := peek_measure p inp
    simp only [Cur.peek]
    rcases hn : Pump.peek p inp with ⟨s, p', r⟩
    rw [hn] at h
    cases s <;> refine ⟨rfl, ?_⟩ <;> simp only [rcur, curA, curB] <;> simp only at h <;> omega
  | replay buf idx ref => simp [Cur.peek, rcur, Le, curK, curA, curB]

/-- the look-ahead of a live cursor -/
def curLook : Cur → Option Ev
  | .live p _ => p.look
  | .replay .. => none

theorem peek_of_look {c : Cur} {ev : Ev} (h : curLook c = some ev) :
    ∃ c', c.peek = .ok (some ev) c' ∧ c'.peek = .ok (some ev) c' ∧ curLook c' = some ev ∧ Le c c' := by
  cases c with
  | live p inp =>
    simp only [curLook] at h
    refine ⟨.live { p with lastLoc := ev.loc } inp, by simp [Cur.peek, Pump.peek, h],
      by simp [Cur.peek, Pump.peek, h], h, ?_⟩
    simp [Le, curK, curA, curB, pumpB, lookBit, prodBit]
  | replay buf idx ref => simp [curLook] at h

theorem next_of_look {c : Cur} {ev : Ev} (h : curLook c = some ev) :
    ∃ c', c.next = .ok (some ev) c' ∧ Lt c c' := by
  cases c with
  | live p inp =>
    simp only [curLook] at h
    have hn : Cur.next (.live p inp) = .ok (some ev) (.live { p with look := none, lastLoc := ev.loc } inp) := by
      simp [Cur.next, Pump.next, h]
    exact ⟨_, hn, next_lt hn rfl⟩
  | replay buf idx ref => simp [curLook] at h

end SaphyrVerif.Lemmas.C11
