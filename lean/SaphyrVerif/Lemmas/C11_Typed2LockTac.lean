import SaphyrVerif.Lemmas.C11_Typed2LockRel
/-!
Lock-step simulation (twin of `Lemmas/E2EBudget*.lean`, see `Lemmas/C11_Typed2LockRel.lean`), part 3: proof automation for the pass over the typed
deserializer (the twin of `Lemmas/CurSimTac.lean` / `CurSimDe.lean` for the relation `LR`), the statement `LA`
for all functions of the mutual block at one fuel value, and the lemmas for the non-recursive leaves.
-/
namespace SaphyrVerif.Lemmas.Lock
open SaphyrVerif SaphyrVerif.Scalars SaphyrVerif.Pump SaphyrVerif.De
open SaphyrVerif.Lemmas.CurSim (newestCallEq)

set_option linter.unusedSimpArgs false
set_option linter.unusedVariables false

open Lean Elab Tactic Meta in
/-- advance the cursor and its twin `σ c`: for a hypothesis `P.Inv c` such that `c.next` (or
`c.peek`) occurs in the goal, distinguish the two outcomes of the primitive (same answer / same error) and rewrite both calls; if some `match` on the call distinguishes the delivered event, distinguish the
event kinds so that both sides take the same branch -/
elab "lk_step" : tactic => withMainContext do
  let tgt ← instantiateMVars (← getMainTarget)
  let env ← getEnv
  for ldecl in (← getLCtx) do
    if ldecl.isImplementationDetail then continue
    let ty ← instantiateMVars ldecl.type
    if ty.isAppOfArity ``LP.Inv 2 then
      let c := ty.getArg! 1
      for (op, lem) in [(``SaphyrVerif.De.Cur.next, ``Closed.next_cases), (``SaphyrVerif.De.Cur.peek, ``Closed.peek_cases)] do
        let t := mkApp (mkConst op) c
        if (tgt.find? (· == t)).isSome then
          let inspected := (tgt.find? fun e =>
            match e.getAppFn with
            | .const n _ =>
              match Lean.Meta.getMatcherInfoCore? env n with
              | some info =>
                let args := e.getAppArgs
                let pos := info.getFirstDiscrPos
                pos < args.size && args[pos]! == t && info.altNumParams != #[2, 2]
              | none => false
            | _ => false).isSome
          let direct := (tgt.find? fun e =>
            match e.getAppFn with
            | .const n _ =>
              match Lean.Meta.getMatcherInfoCore? env n with
              | some info =>
                let args := e.getAppArgs
                let pos := info.getFirstDiscrPos
                pos < args.size && args[pos]! == t
              | none => false
            | _ => false).isSome
          let hstx ← Term.exprToSyntax ldecl.toExpr
          if inspected || !direct then
            evalTactic (← `(tactic| (
              have hx := $(mkIdent lem) ‹Closed _› $hstx
              rcases hx with ⟨o, _, h1, h2, _⟩ | ⟨_, _, h1, h2, _⟩ <;>
                (rw [h1, h2]
                 clear h1 h2
                 try (rcases o with _ | (_ | _ | _ | _ | _))))))
          else
            evalTactic (← `(tactic| (
              have hx := $(mkIdent lem) ‹Closed _› $hstx
              rcases hx with ⟨_, _, h1, h2, _⟩ | ⟨_, _, h1, h2, _⟩ <;>
                (rw [h1, h2]
                 clear h1 h2))))
          return
  throwError "lk_step: no cursor operation to advance"


/-- transport a successful call on the left side (`h : f … c = .ok a d`, produced by `split`) to the
right side; `prf` is the `LR` fact for that call -/
macro "lkfwd_ok " h:term ", " prf:term : tactic =>
  `(tactic| (
    have hx := LR.fwd_ok $h $prf
    obtain ⟨h2, _⟩ := hx
    rw [h2]
    clear h2))

/-- both sides have failed alike: the error invariant of the cursor is among the hypotheses, or follows from its
invariant -/
macro "lk_err" : tactic =>
  `(tactic| first
    | with_reducible exact LR.err (by assumption)
    | with_reducible exact LR.err (LP.inv_err _ _ (by assumption)))

/-- transport a failed call: the right side fails alike -/
macro "lkfwd_err " h:term ", " prf:term : tactic =>
  `(tactic| (
    have hx := LR.fwd_err $h $prf
    obtain ⟨h2, _⟩ := hx
    rw [h2]
    clear h2))

/-- both sides failed alike, or both succeeded with the same value and the invariant holds -/
macro "lkleaf_close" : tactic =>
  `(tactic| first
    | lk_err
    | with_reducible exact LR.ok (by assumption))

macro "lk_simp0" : tactic =>
  `(tactic| simp only [*, ↓reduceIte, Bool.false_eq_true, LP.σ_lastLoc, LP.σ_refLoc, LP.σ_atAlias, LP.σ_eofErr, LP.σ_replay])

theorem takeStringScalar_lk {P : LP} (hcl : Closed P) (cfg : Cfg) {c : Cur} (hi : P.Inv c) :
    LR P (takeStringScalar cfg c) (takeStringScalar cfg (P.σ c)) := by
  unfold takeStringScalar
  repeat' (first | lkleaf_close | lk_step | lk_simp0 | split)

open Lean Elab Tactic Meta in
elab "lkleaf_fwd" : tactic => do
  let some (n, isOk, h) ← newestCallEq | throwError "lkleaf_fwd: no call"
  unless n == ``SaphyrVerif.De.takeStringScalar do throwError "lkleaf_fwd: no rule"
  if isOk then evalTactic (← `(tactic| lkfwd_ok $h, (takeStringScalar_lk ‹Closed _› _ (by assumption))))
  else evalTactic (← `(tactic| lkfwd_err $h, (takeStringScalar_lk ‹Closed _› _ (by assumption))))

macro "lkleaf_loop" : tactic =>
  `(tactic| repeat' (first | lkleaf_close | lk_step | lk_simp0 | (split <;> try lkleaf_fwd)))

theorem deserString_lk {P : LP} (hcl : Closed P) (cfg : Cfg) {c : Cur} (hi : P.Inv c) :
    LR P (deserString cfg c) (deserString cfg (P.σ c)) := by
  unfold deserString
  lkleaf_loop

open Lean Elab Tactic Meta in
elab "lkleaf_fwd2" : tactic => do
  let some (n, isOk, h) ← newestCallEq | throwError "lkleaf_fwd: no call"
  unless n == ``SaphyrVerif.De.deserString do throwError "lkleaf_fwd: no rule"
  if isOk then evalTactic (← `(tactic| lkfwd_ok $h, (deserString_lk ‹Closed _› _ (by assumption))))
  else evalTactic (← `(tactic| lkfwd_err $h, (deserString_lk ‹Closed _› _ (by assumption))))

theorem deserStr_lk {P : LP} (hcl : Closed P) (cfg : Cfg) {c : Cur} (hi : P.Inv c) :
    LR P (deserStr cfg c) (deserStr cfg (P.σ c)) := by
  unfold deserStr
  repeat' (first | lkleaf_close | lk_step | lk_simp0 | (split <;> try lkleaf_fwd2))

theorem deserAnyScalar_lk {P : LP} (hcl : Closed P) (cfg : Cfg) (v : List Char) (tag : Nat) (st : Style) (l : Loc)
    {c : Cur} (hi : P.Inv c) : LR P (deserAnyScalar cfg c v tag st l) (deserAnyScalar cfg (P.σ c) v tag st l) := by
  unfold deserAnyScalar
  lkleaf_loop

theorem byteSeqVisit_lk {P : LP} (hcl : Closed P) (shape : Ty ⊕ List Ty) (data : List Nat) {c : Cur} (hi : P.Inv c) :
    LR P (byteSeqVisit shape data c) (byteSeqVisit shape data (P.σ c)) := by
  unfold byteSeqVisit
  lkleaf_loop

theorem structFinish_lk {P : LP} (hcl : Closed P) (fields : List (String × Ty)) (got : List (String × Val)) {c : Cur}
    (hi : P.Inv c) : LR P (structFinish fields got c) (structFinish fields got (P.σ c)) := by
  unfold structFinish
  lkleaf_loop

theorem deserScalarTyped_lk {P : LP} (hcl : Closed P) (cfg : Cfg) (ty : Ty) {c : Cur} (hi : P.Inv c) :
    LR P (deserScalarTyped cfg ty c) (deserScalarTyped cfg ty (P.σ c)) := by
  cases ty
  case char =>
    unfold deserScalarTyped
    rcases hcl.peek_cases hi with ⟨o1, d1, hp, hp', hi1⟩ | ⟨e, d, hp, hp', hi1⟩
    · simp only [hp, hp']
      rcases o1 with _ | (⟨v, tag, rt, st, a, l⟩ | _ | _ | _ | _)
      case some.scalar =>
        by_cases h1 : (tag != tagString) = true
        · by_cases h2 : (tag == tagNull || scalarIsNullish v st) = true
          · simp only [h1, h2, ↓reduceIte, Bool.false_eq_true]
            lkleaf_loop
          · by_cases h3 : (cfg.noSchema && maybeNotString v st) = true
            · simp only [h1, h2, h3, ↓reduceIte, Bool.false_eq_true]
              lkleaf_loop
            · simp only [h1, h2, h3, ↓reduceIte, Bool.false_eq_true]
              lkleaf_loop
        · simp only [h1, ↓reduceIte, Bool.false_eq_true]
          lkleaf_loop
      all_goals
        simp only []
        lkleaf_loop
    · simp only [hp, hp']
      lkleaf_loop
  all_goals
    unfold deserScalarTyped
    lkleaf_loop

end SaphyrVerif.Lemmas.Lock
