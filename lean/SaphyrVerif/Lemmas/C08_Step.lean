import SaphyrVerif.Lemmas.C02_Misc
/-!
Helper lemmas for C08, part 1: one call of `next_impl` that delivers an event is a sequence of
non-delivering "skip" steps (markers, document boundaries, an alias whose buffer is empty, the initial
clearing of an exhausted replay stack) followed by exactly one delivering step.  The decomposition is
proved once (by functional induction on `parserLoop`); the counting theorems are case analyses on it.
-/
namespace SaphyrVerif.Lemmas.C08
open SaphyrVerif SaphyrVerif.Scalars SaphyrVerif.Pump SaphyrVerif.Budget SaphyrVerif.Spec

/-- budget update of the parser loop on one raw item -/
def obs (b : Option Enf) (raw : Raw) : Except Breach (Option Enf) :=
  match b with
  | none => .ok none
  | some enf =>
    match raw with
    | .alias _ => enf.observeAliasReplayed.map some
    | _ => (enf.observe raw).map some

/-- budget part of a replayed delivery -/
def ReplayBud (b : Option Enf) (e : Ev) (b' : Option Enf) : Prop :=
  match b with
  | none => b' = none
  | some enf => ∃ enf', enf.observe (replayRaw e) = .ok enf' ∧ b' = some enf'

/-- result of the inject loop, uniformly -/
def ServeOut (p : Pump) : Option Step → Pump → Prop
  | none, p' => p' = { p with inject := [] }
  | some (.event e), p' => ∃ inj bud,
      p' = { p with inject := inj, totalReplayed := p.totalReplayed + 1, budget := bud,
                    recStack := recordAll p.recStack e, lastLoc := e.loc, producedAny := true } ∧
      p.totalReplayed + 1 ≤ p.limits.maxTotalReplayedEvents ∧ ReplayBud p.budget e bud
  | some .eof, _ => False
  | some (.error er), _ => ∀ d m l, er ≠ .replayStackDepth d m l

theorem serveInject_out (p : Pump) (fs : List InjectFrame) :
    ServeOut p (serveInject p fs).1 (serveInject p fs).2 := by
  induction fs with
  | nil => simp [serveInject, ServeOut]
  | cons fr rest ih =>
    simp only [serveInject]
    repeat' split
    all_goals first
      | exact ih
      | (simp only [ServeOut]; intros; simp; done)
      | (simp only [ServeOut]
         refine ⟨_, _, rfl, by simp_all, ?_⟩
         simp_all [ReplayBud])

theorem serveInject_cases (p : Pump) (fs : List InjectFrame) {r : Option Step} {p' : Pump}
    (h : serveInject p fs = (r, p')) : ServeOut p r p' := by
  have := serveInject_out p fs
  rw [h] at this; exact this

/-- the per-anchor expansion count an alias to `id` gets -/
def newCount (p : Pump) (id : Nat) : Nat := min (lookupCount p.perAnchor id + 1) USIZE_MAX

/-- one non-delivering step -/
inductive Skip1 : Pump → Pump → Prop
  | clear (p : Pump) : Skip1 p { p with inject := [] }
  | docStart (p : Pump) (x : Bool) (loc : Loc) (bud : Option Enf) (hb : obs p.budget (.docStart x) = .ok bud) :
      Skip1 p { ({ p with budget := bud } : Pump).resetDocumentState with lastLoc := loc }
  | docEnd (p : Pump) (loc : Loc) (bud : Option Enf) (hb : obs p.budget .docEnd = .ok bud) :
      Skip1 p { ({ p with budget := bud } : Pump).resetDocumentState with seenDocEnd := true, lastLoc := loc }
  | marker (p : Pump) (raw : Raw) (loc : Loc) (bud : Option Enf)
      (hraw : raw = .streamStart ∨ raw = .streamEnd ∨ raw = .nothing) (hb : obs p.budget raw = .ok bud) :
      Skip1 p { p with budget := bud, lastLoc := loc }
  | alias (p : Pump) (id : Nat) (bud : Option Enf) (hb : obs p.budget (.alias id) = .ok bud)
      (hc : newCount p id ≤ p.limits.maxAliasExpansionsPerAnchor) :
      Skip1 p { p with budget := bud, perAnchor := (id, newCount p id) :: p.perAnchor, inject := [] }

inductive Skips : Pump → Pump → Prop
  | refl (p : Pump) : Skips p p
  | step {p q r : Pump} : Skip1 p q → Skips q r → Skips p r

/-- the frame stack after a container start -/
def startFrames (fs : List RecFrame) (anchor : Nat) (ev : Ev) : List RecFrame :=
  record (if anchor != 0 then { id := anchor, depth := 1, buf := [ev] } :: bumpDepthOnStart fs else bumpDepthOnStart fs)
    ev (anchor != 0)

/-- the delivering step (other than the synthesized null of an empty stream) -/
inductive Deliver : Pump → Ev → Pump → Prop
  | scalar (q : Pump) (val : List Char) (style : Style) (anchor : Nat) (tag : Option (List Char)) (loc : Loc)
      (bud : Option Enf) (hb : obs q.budget (.scalar val style anchor tag) = .ok bud) :
      Deliver q (.scalar val (tagCode tag) tag style anchor loc)
        { q with budget := bud
                 recStack := recordAll q.recStack (.scalar val (tagCode tag) tag style anchor loc)
                 anchors := if anchor != 0 then
                     setAnchor q.anchors anchor [.scalar val (tagCode tag) tag style anchor loc] else q.anchors
                 lastLoc := loc, producedAny := true }
  | seqStart (q : Pump) (anchor : Nat) (tag : Option (List Char)) (loc : Loc)
      (bud : Option Enf) (hb : obs q.budget (.seqStart anchor tag) = .ok bud) :
      Deliver q (.seqStart anchor (tagCode tag) tag loc)
        { q with budget := bud, recStack := startFrames q.recStack anchor (.seqStart anchor (tagCode tag) tag loc)
                 lastLoc := loc, producedAny := true }
  | mapStart (q : Pump) (anchor : Nat) (tag : Option (List Char)) (loc : Loc)
      (bud : Option Enf) (hb : obs q.budget (.mapStart anchor tag) = .ok bud) :
      Deliver q (.mapStart anchor loc)
        { q with budget := bud, recStack := startFrames q.recStack anchor (.mapStart anchor loc)
                 lastLoc := loc, producedAny := true }
  | seqEnd (q : Pump) (loc : Loc) (bud : Option Enf) (as : List (Nat × List Ev)) (fs : List RecFrame)
      (hb : obs q.budget .seqEnd = .ok bud)
      (hd : bumpDepthOnEnd q.anchors (recordAll q.recStack (.seqEnd loc)) = some (as, fs)) :
      Deliver q (.seqEnd loc) { q with budget := bud, anchors := as, recStack := fs, lastLoc := loc, producedAny := true }
  | mapEnd (q : Pump) (loc : Loc) (bud : Option Enf) (as : List (Nat × List Ev)) (fs : List RecFrame)
      (hb : obs q.budget .mapEnd = .ok bud)
      (hd : bumpDepthOnEnd q.anchors (recordAll q.recStack (.mapEnd loc)) = some (as, fs)) :
      Deliver q (.mapEnd loc) { q with budget := bud, anchors := as, recStack := fs, lastLoc := loc, producedAny := true }
  | placeholder (q : Pump) (id : Nat) (loc : Loc) (bud : Option Enf) (hb : obs q.budget (.alias id) = .ok bud)
      (hc : newCount q id ≤ q.limits.maxAliasExpansionsPerAnchor)
      (hrec : q.recursiveInProgress.contains id = true) :
      Deliver q (.scalar [] 4 none .plain id loc)
        { q with budget := bud.map Enf.aliasOccupiesPosition, perAnchor := (id, newCount q id) :: q.perAnchor
                 recStack := recordAll q.recStack (.scalar [] 4 none .plain id loc), lastLoc := loc, producedAny := true }
  | replay (q : Pump) (id : Nat) (bud bud' : Option Enf) (inj : List InjectFrame) (ev : Ev)
      (hb : obs q.budget (.alias id) = .ok bud)
      (hc : newCount q id ≤ q.limits.maxAliasExpansionsPerAnchor)
      (htot : q.totalReplayed + 1 ≤ q.limits.maxTotalReplayedEvents) (hrb : ReplayBud bud ev bud') :
      Deliver q ev
        { q with budget := bud', perAnchor := (id, newCount q id) :: q.perAnchor, inject := inj
                 totalReplayed := q.totalReplayed + 1, recStack := recordAll q.recStack ev, lastLoc := ev.loc
                 producedAny := true }
  | replay0 (q : Pump) (bud' : Option Enf) (inj : List InjectFrame) (ev : Ev)
      (htot : q.totalReplayed + 1 ≤ q.limits.maxTotalReplayedEvents) (hrb : ReplayBud q.budget ev bud') :
      Deliver q ev
        { q with budget := bud', inject := inj, totalReplayed := q.totalReplayed + 1
                 recStack := recordAll q.recStack ev, lastLoc := ev.loc, producedAny := true }

/-- the synthesized null of an empty stream: delivered without any observation -/
def IsNull (q : Pump) (e : Ev) (p' : Pump) (rest : List RawItem) : Prop :=
  q.producedAny = false ∧ rest = [] ∧ e = .scalar [] 4 none .plain 0 q.lastLoc ∧
    p' = { q with producedAny := true, synthesizedNull := true }

theorem Skips.one {p q : Pump} (h : Skip1 p q) : Skips p q := .step h (.refl q)

theorem parserLoop_event (p : Pump) (inp : List RawItem) (e : Ev) (p' : Pump) (rest : List RawItem)
    (h : parserLoop p inp = (.event e, p', rest)) :
    ∃ q, Skips p q ∧ (IsNull q e p' rest ∨ Deliver q e p') := by
  fun_induction parserLoop p inp
  all_goals try (simp at h; done)
  case case1 p hpa ev =>
    simp only [Prod.mk.injEq, Step.event.injEq] at h
    obtain ⟨rfl, rfl, rfl⟩ := h
    exact ⟨p, .refl p, .inl ⟨by simpa using hpa, rfl, rfl, rfl⟩⟩
  case case6 p loc rest' bud p1 val style anchor tag hf ev p2 p3 ob hob =>
    simp only [Prod.mk.injEq, Step.event.injEq] at h
    obtain ⟨rfl, rfl, rfl⟩ := h
    refine ⟨p, .refl p, .inr ?_⟩
    have := Deliver.scalar p val style anchor tag loc bud hob
    by_cases ha : (anchor != 0) = true
    · simpa +zetaDelta [ha] using this
    · simpa +zetaDelta [ha] using this
  case case7 p loc rest' bud p1 anchor tag ev fs2 fs1 fs ob hob =>
    simp only [Prod.mk.injEq, Step.event.injEq] at h
    obtain ⟨rfl, rfl, rfl⟩ := h
    exact ⟨p, .refl p, .inr (Deliver.seqStart p anchor tag loc bud hob)⟩
  case case9 p loc rest' bud p1 ev fs1 as fs hd ob hob =>
    simp only [Prod.mk.injEq, Step.event.injEq] at h
    obtain ⟨rfl, rfl, rfl⟩ := h
    exact ⟨p, .refl p, .inr (Deliver.seqEnd p loc bud as fs hob hd)⟩
  case case10 p loc rest' bud p1 anchor tag ev fs2 fs1 fs ob hob =>
    simp only [Prod.mk.injEq, Step.event.injEq] at h
    obtain ⟨rfl, rfl, rfl⟩ := h
    exact ⟨p, .refl p, .inr (Deliver.mapStart p anchor tag loc bud hob)⟩
  case case12 p loc rest' bud p1 ev fs1 as fs hd ob hob =>
    simp only [Prod.mk.injEq, Step.event.injEq] at h
    obtain ⟨rfl, rfl, rfl⟩ := h
    exact ⟨p, .refl p, .inr (Deliver.mapEnd p loc bud as fs hob hd)⟩
  case case15 p loc rest' bud p1 id count p2 hc nd hd hany hrec ev ob hob =>
    simp only [Prod.mk.injEq, Step.event.injEq] at h
    obtain ⟨rfl, rfl, rfl⟩ := h
    exact ⟨p, .refl p, .inr (Deliver.placeholder p id loc bud hob (Nat.le_of_not_gt hc) hrec)⟩
  case case18 p loc rest' bud p1 id count p2 hc nd hd hany buf hbuf p3 step q hs ob hob =>
    simp only [Prod.mk.injEq] at h
    obtain ⟨rfl, rfl, rfl⟩ := h
    obtain ⟨inj, bud', rfl, htot, hrb⟩ := serveInject_cases _ _ hs
    exact ⟨p, .refl p, .inr (Deliver.replay p id bud bud' inj e hob (Nat.le_of_not_gt hc) htot hrb)⟩
  case case19 p loc rest' bud p1 id count p2 hc nd hd hany buf hbuf p3 q hs ob hob ih =>
    obtain ⟨r, hsk, hfin⟩ := ih h
    have hq : q = _ := serveInject_cases _ _ hs
    subst hq
    exact ⟨r, .step (Skip1.alias p id bud hob (Nat.le_of_not_gt hc)) hsk, hfin⟩
  case case20 p loc rest' bud p1 x ob hob ih =>
    obtain ⟨r, hsk, hfin⟩ := ih h
    exact ⟨r, .step (Skip1.docStart p x loc bud hob) hsk, hfin⟩
  case case24 p loc rest' bud p1 p2 hstop ob hob ih =>
    obtain ⟨r, hsk, hfin⟩ := ih h
    exact ⟨r, .step (Skip1.docEnd p loc bud hob) hsk, hfin⟩
  case case25 p loc rest' bud p1 ob hob ih =>
    obtain ⟨r, hsk, hfin⟩ := ih h
    exact ⟨r, .step (Skip1.marker p .streamStart loc bud (.inl rfl) hob) hsk, hfin⟩
  case case26 p loc rest' bud p1 ob hob ih =>
    obtain ⟨r, hsk, hfin⟩ := ih h
    exact ⟨r, .step (Skip1.marker p .streamEnd loc bud (.inr (.inl rfl)) hob) hsk, hfin⟩
  case case27 p loc rest' bud p1 ob hob ih =>
    obtain ⟨r, hsk, hfin⟩ := ih h
    exact ⟨r, .step (Skip1.marker p .nothing p.lastLoc bud (.inr (.inr rfl)) hob) hsk, hfin⟩

theorem Skip1.inject_nil {p q : Pump} (h : Skip1 p q) (hp : p.inject = []) : q.inject = [] := by
  cases h <;> simp [Pump.resetDocumentState, hp]

theorem Skips.inject_nil {p q : Pump} (h : Skips p q) (hp : p.inject = []) : q.inject = [] := by
  induction h with
  | refl => exact hp
  | step h1 _ ih => exact ih (h1.inject_nil hp)

/-- decomposition of a delivering `next_impl` call: skips, then one delivering step (a synthesized null is
only delivered with an empty replay stack and ends the input) -/
theorem nextImpl_event (p : Pump) (inp : List RawItem) (e : Ev) (p' : Pump) (rest : List RawItem)
    (h : nextImpl p inp = (.event e, p', rest)) :
    ∃ q, Skips p q ∧ ((IsNull q e p' rest ∧ q.inject = []) ∨ Deliver q e p') := by
  unfold nextImpl at h
  rcases hs : serveInject p p.inject with ⟨_ | step, p1⟩
  · rw [hs] at h
    have hp1 : p1 = _ := serveInject_cases _ _ hs
    subst hp1
    obtain ⟨q, hsk, hfin⟩ := parserLoop_event _ _ _ _ _ h
    refine ⟨q, .step (Skip1.clear p) hsk, ?_⟩
    rcases hfin with hn | hd
    · exact .inl ⟨hn, hsk.inject_nil rfl⟩
    · exact .inr hd
  · rw [hs] at h
    simp only [Prod.mk.injEq] at h
    obtain ⟨rfl, rfl, rfl⟩ := h
    obtain ⟨inj, bud', rfl, htot, hrb⟩ := serveInject_cases _ _ hs
    exact ⟨p, .refl p, .inr (Deliver.replay0 p bud' inj e htot hrb)⟩

end SaphyrVerif.Lemmas.C08
