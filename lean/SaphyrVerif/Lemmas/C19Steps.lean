import SaphyrVerif.Model.Robotics
/-!
C19, "no unbounded work, no unbounded recursion": an INSTRUMENTED COPY of the evaluator model
(`Model/Robotics.lean`).  Every function of the copy has the text of the model function and returns, next
to the model's result (`val`), two counters:

* `steps`  — one step per function call, one per iteration of every loop (white-space skip, sign loop,
  digit loops, identifier scan, sexagesimal look-ahead, field readers, the `loop`s of `expr`/`term`),
  four per `starts_ci`, six for the keyword comparisons of an identifier, and the length of `buf` for the
  final `f64::from_str`;
* `frames` — the depth of the call tree below (and including) the function: a call adds one frame,
  a sequence takes the maximum.

`Lemmas/C19StepsErase.lean` proves that `val` is the model's result; `Lemmas/C19StepsBound.lean` proves
`steps ≤ c · length + c'` and `frames ≤ 5 · (MAX_EXPR_DEPTH + 1) + c''`.
-/
namespace SaphyrVerif.Lemmas.C19S
open SaphyrVerif SaphyrVerif.F64 SaphyrVerif.Robotics

/-- a result with its cost -/
structure T (α : Type) where
  val : α
  steps : Nat
  frames : Nat

namespace T
variable {α β : Type}

/-- a loop (no call): value and iterations -/
def ofLoop (x : α × Nat) : T α := ⟨x.1, x.2, 0⟩
def ret (a : α) : T α := ⟨a, 0, 0⟩
def tick (n : Nat) (x : T α) : T α := ⟨x.val, x.steps + n, x.frames⟩
/-- a function call: one step, one stack frame -/
def call (x : T α) : T α := ⟨x.val, x.steps + 1, x.frames + 1⟩

/-- `?`-sequencing: steps add up, frames take the maximum -/
def bind (x : T (Res α)) (k : α → T (Res β)) : T (Res β) :=
  match x.val with
  | .ok a => ⟨(k a).val, x.steps + (k a).steps, max x.frames (k a).frames⟩
  | .err e d => ⟨.err e d, x.steps, x.frames⟩
  | .panic s => ⟨.panic s, x.steps, x.frames⟩
  | .fuel => ⟨.fuel, x.steps, x.frames⟩

/-- `HRes.lift` -/
def lift (d : Nat) (x : T (HRes α)) : T (Res α) := ⟨HRes.lift d x.val, x.steps, x.frames⟩

end T

/-! ## loops (value, iterations) -/

def skipWsLS : List Nat → List Nat → (List Nat × List Nat) × Nat
  | pre, [] => ((pre, []), 1)
  | pre, c :: r =>
    if isWs c then let x := skipWsLS (c :: pre) r; (x.1, x.2 + 1) else ((pre, c :: r), 1)

/-- `skip_ws` (inlined: no frame) -/
def skipWsT (st : St) : T St :=
  let x := skipWsLS st.pre st.rest
  ⟨{ st with pre := x.1.1, rest := x.1.2 }, x.2, 0⟩

def signLoopS : List Nat → List Nat → Fl → (List Nat × List Nat × Fl) × Nat
  | pre, [], sign => ((pre, [], sign), 1)
  | pre, c :: r, sign =>
    if c == 43 then let x := signLoopS (c :: pre) r sign; (x.1, x.2 + 1)
    else if c == 45 then let x := signLoopS (c :: pre) r (neg sign); (x.1, x.2 + 1)
    else ((pre, c :: r, sign), 1)

def identLoopS : List Nat → List Nat → List Nat → (List Nat × List Nat × List Nat) × Nat
  | pre, [], acc => ((pre, [], acc), 1)
  | pre, c :: r, acc =>
    if isIdentCont c then let x := identLoopS (c :: pre) r (c :: acc); (x.1, x.2 + 1)
    else ((pre, c :: r, acc), 1)

def numLoopS (eU : RErr) : List Nat → List Nat → Nat → Nat → List Nat → Bool → HRes NumSt × Nat
  | pre, [], _, seen, bufR, hv => (.ok ⟨pre, [], seen, bufR, hv⟩, 1)
  | pre, c :: r, k, seen, bufR, hv =>
    if isDigit c then
      if MAX_NUM_DIGITS < seen + 1 then (.err .tooManyDigits, 1)
      else let x := numLoopS eU (c :: pre) r (k + 1) (seen + 1) (c :: bufR) true; (x.1, x.2 + 1)
    else if c == 95 then
      match prevIsDigit pre k with
      | .ok p =>
        if !p || !nextIsDigit r then (.err eU, 1)
        else if MAX_NUM_DIGITS < seen then (.err .tooManyDigits, 1)
        else let x := numLoopS eU (c :: pre) r (k + 1) seen bufR hv; (x.1, x.2 + 1)
      | .err e => (.err e, 1)
      | .panic s => (.panic s, 1)
    else (.ok ⟨pre, c :: r, seen, bufR, hv⟩, 1)

def sexaLookS : List Nat → Bool → Bool → (Bool × Bool × Option Nat) × Nat
  | [], sd, lu => ((sd, lu, none), 1)
  | c :: r, sd, lu =>
    if isDigit c then let x := sexaLookS r true false; (x.1, x.2 + 1)
    else if c == 95 then
      (if !sd || lu then ((sd, lu, some c), 1) else let x := sexaLookS r sd true; (x.1, x.2 + 1))
    else ((sd, lu, some c), 1)

def readUintS : List Nat → List Nat → Fl → Nat → Bool → HRes (List Nat × List Nat × Fl × Nat) × Nat
  | pre, [], v, d, _ => (if d == 0 then .err .expectedDigits else .ok (pre, [], v, d), 1)
  | pre, c :: r, v, d, p =>
    if isDigit c then
      if MAX_NUM_DIGITS < d + 1 then (.err .tooManyDigitsInt, 1)
      else let x := readUintS (c :: pre) r (add F (mul F v TEN) (ofNat F (c - 48))) (d + 1) true; (x.1, x.2 + 1)
    else if c == 95 then
      if !p || !nextIsDigit r then (.err .underscoreIntField, 1)
      else if MAX_NUM_DIGITS < d then (.err .tooManyDigitsInt, 1)
      else let x := readUintS (c :: pre) r v d false; (x.1, x.2 + 1)
    else (if d == 0 then .err .expectedDigits else .ok (pre, c :: r, v, d), 1)

def readFracS : List Nat → List Nat → Fl → Fl → Nat → Bool → HRes (List Nat × List Nat × Fl × Nat) × Nat
  | pre, [], num, sc, d, _ =>
    (if d == 0 then .err .expectedFracDigits else .ok (pre, [], div F num sc, d), 1)
  | pre, c :: r, num, sc, d, p =>
    if isDigit c then
      let num' := if d < MAX_FRAC_DIGITS then add F (mul F num TEN) (ofNat F (c - 48)) else num
      let sc' := if d < MAX_FRAC_DIGITS then mul F sc TEN else sc
      if MAX_NUM_DIGITS < d + 1 then (.err .tooManyDigitsFrac, 1)
      else let x := readFracS (c :: pre) r num' sc' (d + 1) true; (x.1, x.2 + 1)
    else if c == 95 then
      if !p || !nextIsDigit r then (.err .underscoreFraction, 1)
      else if MAX_NUM_DIGITS < d then (.err .tooManyDigitsFrac, 1)
      else let x := readFracS (c :: pre) r num sc d false; (x.1, x.2 + 1)
    else (if d == 0 then .err .expectedFracDigits else .ok (pre, c :: r, div F num sc, d), 1)

/-! ## functions -/

/-- `read_uint_unders_to_f64` -/
def readUintT (pre rest : List Nat) : T (HRes (List Nat × List Nat × Fl × Nat)) :=
  T.call (T.ofLoop (readUintS pre rest (zero F false) 0 false))

/-- `read_uint_unders_to_u32` (calls `read_uint_unders_to_f64`) -/
def readU32T (pre rest : List Nat) : T (HRes (List Nat × List Nat × Nat × Nat)) :=
  T.call <|
  let x := readUintT pre rest
  ⟨(match x.val with
    | .ok (pre', rest', v, d) =>
      if gt v U32MAX then .err .fieldTooLarge else .ok (pre', rest', toU32 v, d)
    | .err e => .err e
    | .panic s => .panic s), x.steps, x.frames⟩

/-- `read_frac_part_unders` -/
def readFracT (pre rest : List Nat) : T (HRes (List Nat × List Nat × Fl × Nat)) :=
  T.call (T.ofLoop (readFracS pre rest (zero F false) ONE 0 false))

/-- `try_parse_sexagesimal` -/
def trySexagesimalT (tag : Nat) (st : St) : T (Res (Option (Eval × St))) :=
  T.call <|
  let lk := sexaLookS st.rest false false
  let look := lk.1
  T.tick lk.2 <|
  if !look.1 || look.2.1 then T.ret (.ok none)
  else if look.2.2 != some 58 then T.ret (.ok none)
  else
    (T.lift st.depth (readUintT st.pre st.rest)).bind fun (pre1, rest1, degWhole, d1) =>
    match rest1 with
    | 58 :: rest1' =>
      (T.lift st.depth (readU32T (58 :: pre1) rest1')).bind fun (pre2, rest2, minsU, d2) =>
      if 59 < minsU then T.ret (st.err .minutesRange)
      else
        let mins := ofNat F minsU
        let tail : T (Res (List Nat × List Nat × Fl × Nat)) :=
          match rest2 with
          | 58 :: rest2' =>
            (T.lift st.depth (readU32T (58 :: pre2) rest2')).bind fun (pre3, rest3, secsU, d3) =>
            if 59 < secsU then T.ret (st.err .secondsRange)
            else
              match rest3 with
              | 46 :: rest3' =>
                (T.lift st.depth (readFracT (46 :: pre3) rest3')).bind
                  fun (pre4, rest4, frac, df) =>
                    T.ret (.ok (pre4, rest4, add F (ofNat F secsU) frac, d1 + d2 + d3 + df))
              | _ => T.ret (.ok (pre3, rest3, ofNat F secsU, d1 + d2 + d3))
          | _ => T.ret (.ok (pre2, rest2, zero F false, d1 + d2))
        tail.bind fun (preE, restE, secs, total) =>
          if MAX_NUM_DIGITS < total then T.ret (st.err .tooManyDigitsSexa)
          else
            let stE : St := { st with pre := preE, rest := restE }
            let degrees := add F (add F degWhole (div F mins SIXTY)) (div F secs C3600)
            let seconds := add F (add F (mul F degWhole C3600) (mul F mins SIXTY)) secs
            if st.sexTime then
              if tag == TAG_DEGREES || tag == TAG_RADIANS then
                T.ret (.ok (some ((mul F degrees DEG2RAD, true, false), stE)))
              else T.ret (.ok (some ((seconds, true, false), stE)))
            else if tag == TAG_TIMESTAMP then T.ret (.ok (some ((seconds, true, false), stE)))
            else T.ret (.ok (some ((degrees, true, false), stE)))
    | _ => T.ret (.ok none)

/-- the fraction of `parse_number_or_special` (inline) -/
def numFracS (n1 : NumSt) : HRes NumSt × Nat :=
  match n1.rest with
  | 46 :: r => numLoopS .underscoreFraction (46 :: n1.pre) r 0 n1.seen (46 :: n1.bufR) false
  | _ => (.ok n1, 0)

/-- the exponent of `parse_number_or_special` (inline) -/
def numExpS (n2 : NumSt) : HRes NumSt × Nat :=
  match n2.rest with
  | c :: r =>
    if c == 101 || c == 69 then
      let em := expMarker c n2.pre r n2.bufR
      let x := numLoopS .underscoreExponent em.1 em.2.1 0 n2.seen em.2.2 false
      (match x.1 with
       | .ok n3 => if !n3.hadDigit then .err .malformedExponent else .ok n3
       | .err e => .err e
       | .panic s => .panic s, x.2 + 1)
    else (.ok n2, 0)
  | [] => (.ok n2, 0)

/-- `parse_number_or_special` -/
def parseNumberOrSpecialT (tag : Nat) (st : St) : T (Res (Eval × St)) :=
  T.call <| T.tick 4 <|
  if startsCi st.rest [46, 105, 110, 102] then
    (T.lift st.depth (T.ret (advN 4 st.pre st.rest))).bind fun (p, r) =>
      T.ret (.ok ((.inf false, false, true), { st with pre := p, rest := r }))
  else
  T.tick 4 <|
  if startsCi st.rest [46, 110, 97, 110] then
    (T.lift st.depth (T.ret (advN 4 st.pre st.rest))).bind fun (p, r) =>
      T.ret (.ok ((.nan, false, true), { st with pre := p, rest := r }))
  else
  (trySexagesimalT tag st).bind fun sx =>
  match sx with
  | some res => T.ret (.ok res)
  | none =>
    (T.lift st.depth (T.ofLoop (numLoopS .underscoreNumber st.pre st.rest 0 0 [] false))).bind fun n1 =>
    (T.lift st.depth (T.ofLoop (numFracS n1))).bind fun n2 =>
    (T.lift st.depth (T.ofLoop (numExpS n2))).bind fun n3 =>
    let stE : St := { st with pre := n3.pre, rest := n3.rest }
    if n3.bufR.isEmpty then
      let k := n3.pre.length - st.pre.length
      if !(boundaryAhead st.rest 0 && boundaryAhead n3.rest 0) then T.ret (.panic .strSlice)
      else T.call <| T.tick k <| match fromStr F (n3.pre.take k).reverse with
        | some v => T.ret (.ok ((v, false, true), stE))
        | none => T.ret (st.err .invalidFloat)
    else
      -- `f64::from_str(buf)`: one call, linear in `buf`
      T.call <| T.tick n3.bufR.length <| match fromStr F n3.bufR.reverse with
      | some v => T.ret (.ok ((v, false, true), stE))
      | none => T.ret (st.err .invalidFloat)

/-- `let r = self.expr(); self.exit(); r?` -/
def exitAfterT {α} (r : T (Res (α × St))) : T (Res (α × St)) := ⟨exitAfter r.val, r.steps + 1, r.frames⟩

/-- `parse_ident_or_special`; `E` = the recursive `expr` -/
def parseIdentOrSpecialT (E : St → T (Res (Eval × St))) (st : St) : T (Res (Eval × St)) :=
  T.call <|
  let ilx := identLoopS st.pre st.rest []
  let il := ilx.1
  -- the scan, the slice, six keyword comparisons
  T.tick (ilx.2 + 6) <|
  if !(boundaryAhead st.rest 0 && boundaryAhead il.2.1 0) then T.ret (.panic .strSlice) else
  let ident := il.2.2.reverse.map lowerByte
  let st1 : St := { st with pre := il.1, rest := il.2.1 }
  if ident == [112, 105] then T.ret (.ok ((PI, false, true), st1))
  else if ident == [116, 97, 117] then T.ret (.ok ((mul F TWO PI, false, true), st1))
  else if ident == [105, 110, 102] then T.ret (.ok ((.inf false, false, true), st1))
  else if ident == [110, 97, 110] then T.ret (.ok ((.nan, false, true), st1))
  else if ident == [100, 101, 103] || ident == [114, 97, 100] then
    let sw2 := skipWsT st1
    let st2 := sw2.val
    T.tick (sw2.steps + 1) <|
    match st2.rest with
    | 40 :: r =>
      let st3 := st2.adv 40 r
      let old := st3.sexTime
      (T.tick 1 (T.ret (St.enter { st3 with sexTime := false }))).bind fun st4 =>
      (exitAfterT (E st4)).bind fun ((v, _, _), st5) =>
      let sw6 := skipWsT { st5 with sexTime := old }
      let st6 := sw6.val
      T.tick (sw6.steps + 1) <|
      match st6.rest with
      | 41 :: r' =>
        let st7 := st6.adv 41 r'
        if ident == [100, 101, 103] then T.ret (.ok ((mul F v DEG2RAD, true, false), st7))
        else T.ret (.ok ((v, true, false), st7))
      | c :: r' => T.ret ((st6.adv c r').err .expectedRParenFn)
      | [] => T.ret (st6.err .expectedRParenFn)
    | c :: r => T.ret ((st2.adv c r).err .expectedLParenFn)
    | [] => T.ret (st2.err .expectedLParenFn)
  else T.ret (st1.err .unknownIdent)

/-- `primary` -/
def primaryT (tag : Nat) (E : St → T (Res (Eval × St))) (st0 : St) : T (Res (Eval × St)) :=
  T.call <|
  let sw := skipWsT st0
  let st := sw.val
  T.tick (sw.steps + 1) <|
  match st.rest with
  | [] => T.ret (st.err .unexpectedEnd)
  | c :: r =>
    if c == 40 then
      (T.tick 1 (T.ret (St.enter (st.adv c r)))).bind fun st1 =>
      (exitAfterT (E st1)).bind fun (ev, st2) =>
      let sw3 := skipWsT st2
      let st3 := sw3.val
      T.tick (sw3.steps + 1) <|
      match st3.rest with
      | 41 :: r' => T.ret (.ok (ev, st3.adv 41 r'))
      | c' :: r' => T.ret ((st3.adv c' r').err .expectedRParen)
      | [] => T.ret (st3.err .expectedRParen)
    else if isDigit c || c == 46 then parseNumberOrSpecialT tag st
    else if isIdentStart c then parseIdentOrSpecialT E st
    else T.ret (st.err .expectedPrimary)

/-- `unary` -/
def unaryT (tag : Nat) (E : St → T (Res (Eval × St))) (st0 : St) : T (Res (Eval × St)) :=
  T.call <|
  let sw := skipWsT st0
  let st := sw.val
  let slx := signLoopS st.pre st.rest ONE
  let sl := slx.1
  T.tick (sw.steps + slx.2) <|
  (primaryT tag E { st with pre := sl.1, rest := sl.2.1 }).bind fun ((v, uu, sp), st') =>
    T.ret (.ok ((mul F sl.2.2 v, uu, sp), st'))

/-- the `loop` of `term`: one step per iteration -/
def termLoopT (tag : Nat) (E : St → T (Res (Eval × St))) : Nat → Eval → St → T (Res (Eval × St))
  | 0, _, _ => T.ret .fuel
  | k + 1, (v, uu, sp), st0 =>
    let sw := skipWsT st0
    let st := sw.val
    T.tick (sw.steps + 1) <|
    match st.rest with
    | [] => T.ret (.ok ((v, uu, sp), st))
    | c :: r =>
      if c == 42 then
        (unaryT tag E (st.adv c r)).bind fun ((rhs, u2, s2), st') =>
          termLoopT tag E k (mul F v rhs, uu || u2, sp || s2) st'
      else if c == 47 then
        (unaryT tag E (st.adv c r)).bind fun ((rhs, u2, s2), st') =>
          termLoopT tag E k (div F v rhs, uu || u2, sp || s2) st'
      else T.ret (.ok ((v, uu, sp), st))

/-- `term` -/
def termT (tag : Nat) (lf : Nat) (E : St → T (Res (Eval × St))) (st : St) : T (Res (Eval × St)) :=
  T.call <| (unaryT tag E st).bind fun (ev, st') => termLoopT tag E lf ev st'

/-- the `loop` of `expr` -/
def exprLoopT (tag : Nat) (lf : Nat) (E : St → T (Res (Eval × St))) : Nat → Eval → St → T (Res (Eval × St))
  | 0, _, _ => T.ret .fuel
  | k + 1, (v, uu, sp), st0 =>
    let sw := skipWsT st0
    let st := sw.val
    T.tick (sw.steps + 1) <|
    match st.rest with
    | [] => T.ret (.ok ((v, uu, sp), st))
    | c :: r =>
      if c == 43 then
        (termT tag lf E (st.adv c r)).bind fun ((rhs, u2, s2), st') =>
          exprLoopT tag lf E k (add F v rhs, uu || u2, sp || s2) st'
      else if c == 45 then
        (termT tag lf E (st.adv c r)).bind fun ((rhs, u2, s2), st') =>
          exprLoopT tag lf E k (sub F v rhs, uu || u2, sp || s2) st'
      else T.ret (.ok ((v, uu, sp), st))

/-- `expr` -/
def exprT (tag : Nat) (lf : Nat) : Nat → St → T (Res (Eval × St))
  | 0, _ => T.ret .fuel
  | n + 1, st =>
    T.call <| (termT tag lf (exprT tag lf n) st).bind fun (ev, st') => exprLoopT tag lf (exprT tag lf n) lf ev st'

/-- `parse_yaml12_float_angle_converting::<f64>` -/
def evalExprT (tag : Nat) (s : List Nat) : T (Res Fl) :=
  T.call <|
  let sw0 := skipWsT { pre := [], rest := s, depth := 0, sexTime := true }
  T.tick sw0.steps <|
  (exprT tag (s.length + 1) (MAX_EXPR_DEPTH + 1) sw0.val).bind fun ((v, used, plain), st1) =>
  let sw2 := skipWsT st1
  let st2 := sw2.val
  T.tick sw2.steps <|
  if !st2.rest.isEmpty then T.ret (st2.err .trailing)
  else if !used then
    T.ret (.ok (if tag == TAG_DEGREES then mul F v DEG2RAD else v))
  else if tag == TAG_DEGREES && plain then T.ret (st2.err .ambiguousMix)
  else T.ret (.ok v)

end SaphyrVerif.Lemmas.C19S
