import SaphyrVerif.Lemmas.C05_NextKey
import SaphyrVerif.Lemmas.C05_Mono
/-!
Helper lemmas for C05, part 10: the map access delivers the effective entries — `nextKey` follows
`nextStep`, `nextValue` reads the value of the delivered entry.
-/
namespace SaphyrVerif.Lemmas.C05
open SaphyrVerif SaphyrVerif.Scalars SaphyrVerif.Pump SaphyrVerif.De SaphyrVerif.Spec

/-- context of one map access: buffer, reference location, index of the `MapStart`, index after the `MapEnd` -/
structure MCtx where
  buf : List Ev
  ref : Option Loc
  i0 : Nat
  iEnd : Nat

/-- the model state while the own entries `rem` are being read at index `i` -/
def LiveRel (X : MCtx) (i : Nat) (rem q : List (ENode × ENode)) (seen : List FP) (m : MA) : Prop :=
  X.i0 < i ∧ (∃ el rest, X.buf.drop i = eflattenE rem ++ .mapEnd el :: rest) ∧
  X.iEnd = i + (eflattenE rem).length + 1 ∧
  m.pending = [] ∧ m.flushingMerges = false ∧ PRel m.mergeStack.flatten q ∧ m.seen = seen

/-- the model state while the merged entries `q` are being flushed -/
def FlushRel (q : List (ENode × ENode)) (seen : List FP) (m : MA) : Prop :=
  m.flushingMerges = true ∧ PRel (m.pending ++ m.mergeStack.flatten) q ∧ m.seen = seen

/-- abstract state versus model state and cursor, before a key -/
def Rel (X : MCtx) : ASt → List FP → MA → Cur → Prop
  | .live rem q, seen, m, c => ∃ i, c = .replay X.buf i X.ref ∧ LiveRel X i rem q seen m
  | .flush q, seen, m, c => c = .replay X.buf X.iEnd X.ref ∧ FlushRel q seen m

/-- … and after the key of the entry with value `v` has been delivered -/
def RelV (X : MCtx) (v : ENode) : ASt → List FP → MA → Cur → Prop
  | .live rem q, seen, m, c =>
    m.haveKey = true ∧ m.pendingValue = none ∧ ∃ i, c = .replay X.buf i X.ref ∧ X.i0 < i ∧
      (∃ el rest, X.buf.drop i = eflatten v ++ (eflattenE rem ++ .mapEnd el :: rest)) ∧
      X.iEnd = i + (eflatten v).length + (eflattenE rem).length + 1 ∧
      m.pending = [] ∧ m.flushingMerges = false ∧ PRel m.mergeStack.flatten q ∧ m.seen = seen
  | .flush q, seen, m, c =>
    m.haveKey = true ∧ (∃ r, m.pendingValue = some (eflatten v, r)) ∧ c = .replay X.buf X.iEnd X.ref ∧
      FlushRel q seen m

/-- a key position: the recorded key is deserialized as `kfn` prescribes -/
def KeyRef (cfg : Cfg) (kseed : Ty ⊕ Unit) (kfn : ENode → Option Val) (k : ENode) : Prop :=
  ∃ n, ∀ fuel, n ≤ fuel →
    match kfn k with
    | some kv => deserKey fuel cfg kseed (eflatten k) (kemnOf (fpOf k)) = .ok kv
    | none => IsErrE (deserKey fuel cfg kseed (eflatten k) (kemnOf (fpOf k)))

/-- what `nextKey` does, by the next step of the specification -/
def NKOut (X : MCtx) (cfg : Cfg) (kseed : Ty ⊕ Unit) (kfn : ENode → Option Val) (seen : List FP) (m : MA) (c : Cur) :
    Step → Prop
  | .fail => ∃ n, ∀ fuel, n ≤ fuel → IsErr (nextKey fuel cfg kseed c m)
  | .done => ∃ n m', ∀ fuel, n ≤ fuel → nextKey fuel cfg kseed c m = .ok (.done, m') (.replay X.buf X.iEnd X.ref)
  | .deliver k v st' =>
    match kfn k with
    | none => ∃ n, ∀ fuel, n ≤ fuel → IsErr (nextKey fuel cfg kseed c m)
    | some kv => ∃ n m' c', RelV X v st' (fpOf k :: seen) m' c' ∧
        ∀ fuel, n ≤ fuel → nextKey fuel cfg kseed c m = .ok (.key kv (fpOf k), m') c'

/-- transfer along a skip step `nextKey (fuel + 1) c m = nextKey fuel c₂ m₂` -/
theorem NKOut.of_step {X : MCtx} {cfg : Cfg} {kseed : Ty ⊕ Unit} {kfn : ENode → Option Val} {seen : List FP}
    {m m2 : MA} {c c2 : Cur} {s : Step} (n0 : Nat)
    (hstep : ∀ fuel, n0 ≤ fuel → nextKey (fuel + 1) cfg kseed c m = nextKey fuel cfg kseed c2 m2)
    (h : NKOut X cfg kseed kfn seen m2 c2 s) : NKOut X cfg kseed kfn seen m c s := by
  have key : ∀ {P : R (KeyStep × MA) → Prop} (n : Nat), (∀ fuel, n ≤ fuel → P (nextKey fuel cfg kseed c2 m2)) →
      ∀ fuel, max n n0 + 1 ≤ fuel → P (nextKey fuel cfg kseed c m) := by
    intro P n hP fuel hf
    obtain ⟨fuel, rfl⟩ : ∃ f, fuel = f + 1 := ⟨fuel - 1, by omega⟩
    rw [hstep fuel (by omega)]
    exact hP fuel (by omega)
  cases s with
  | fail =>
    obtain ⟨n, hn⟩ := h
    exact ⟨_, key n hn⟩
  | done =>
    obtain ⟨n, m', hn⟩ := h
    exact ⟨_, m', key (P := fun x => x = _) n hn⟩
  | deliver k v st' =>
    simp only [NKOut] at h ⊢
    cases hk : kfn k with
    | none =>
      simp only [hk] at h ⊢
      obtain ⟨n, hn⟩ := h
      exact ⟨_, key n hn⟩
    | some kv =>
      simp only [hk] at h ⊢
      obtain ⟨n, m', c', hr, hn⟩ := h
      exact ⟨_, m', c', hr, key (P := fun x => x = _) n hn⟩

theorem entProj_eq {p : PendingEntry} {e : ENode × ENode} (h : entProj p = nodeProj e) :
    p.key.fp = fpOf e.1 ∧ p.key.events = eflatten e.1 ∧ p.value.fp = fpOf e.2 ∧ p.value.events = eflatten e.2 := by
  simp only [entProj, nodeProj, Prod.mk.injEq] at h
  exact h

/-- flushing: `nextKey` follows `flushStep` -/
theorem nextKey_flush (X : MCtx) (cfg : Cfg) (kseed : Ty ⊕ Unit) (kfn : ENode → Option Val) (d : Nat)
    (hK : ∀ e, EntOK d e → KeyRef cfg kseed kfn e.1) (seen : List FP) :
    ∀ (q : List (ENode × ENode)) (m : MA), AllOK d q → FlushRel q seen m →
      NKOut X cfg kseed kfn seen m (.replay X.buf X.iEnd X.ref) (flushStep q seen) := by
  intro q
  induction q with
  | nil =>
    intro m _ ⟨hfl, hq, hs⟩
    have hnil := hq.nil_right
    have hp : m.pending = [] := (List.append_eq_nil_iff.mp hnil).1
    have hst : m.mergeStack.flatten = [] := (List.append_eq_nil_iff.mp hnil).2
    simp only [flushStep, NKOut]
    rcases nextKey_flush_empty (c := .replay X.buf X.iEnd X.ref) 0 cfg kseed m hp hfl with ⟨-, m', -⟩ | ⟨m2, -, h2, h3, -, -⟩
    · -- the resulting state does not depend on the fuel
      have : ∀ fuel, ∃ m', nextKey (fuel + 1) cfg kseed (.replay X.buf X.iEnd X.ref) m = .ok (.done, m') (.replay X.buf X.iEnd X.ref) ∧
          m' = { (enqueueNextMergeBatch m).2 with flushingMerges := false } := by
        intro fuel
        rw [nextKey]
        simp only [hp, hfl, if_true, enqueueNextMergeBatch]
        rcases enqueue_go_spec m.mergeStack with ⟨h1, h2⟩ | ⟨b, rest, h2, h3, h4⟩
        · simp only [h2]; exact ⟨_, rfl, rfl⟩
        · rw [hst] at h4; simp at h4; exact absurd h4.1 h3
      refine ⟨1, { (enqueueNextMergeBatch m).2 with flushingMerges := false }, fun fuel hf => ?_⟩
      obtain ⟨fuel, rfl⟩ : ∃ f, fuel = f + 1 := ⟨fuel - 1, by omega⟩
      obtain ⟨m', h1, h2⟩ := this fuel
      rw [h1, h2]
    · rw [hst] at h3
      simp at h3
      exact absurd h3.1 h2
  | cons e q ih =>
    obtain ⟨k, v⟩ := e
    intro m hok hrel
    -- states with a pending entry
    have hne : ∀ m : MA, m.pending ≠ [] → FlushRel ((k, v) :: q) seen m →
        NKOut X cfg kseed kfn seen m (.replay X.buf X.iEnd X.ref) (flushStep ((k, v) :: q) seen) := by
      intro m hpne ⟨hfl, hq, hs⟩
      obtain ⟨p, ps', hpp, hproj, hrest⟩ := hq.cons_right
      cases hmp : m.pending with
      | nil => exact absurd hmp hpne
      | cons p0 ps =>
        rw [hmp] at hpp
        simp only [List.cons_append, List.cons.injEq] at hpp
        obtain ⟨rfl, rfl⟩ := hpp
        obtain ⟨hfp, hev, -, hvev⟩ := entProj_eq hproj
        simp only [flushStep]
        by_cases hd : seen.any (· == fpOf k) = true
        · simp only [hd, if_true]
          have hstep := fun fuel (_ : 0 ≤ fuel) =>
            nextKey_flush_dup (c := .replay X.buf X.iEnd X.ref) fuel cfg kseed m p0 ps hmp hfl (by rw [hs, hfp]; exact hd)
          exact NKOut.of_step 0 hstep (ih _ hok.tail ⟨hfl, hrest, hs⟩)
        · simp only [hd, if_false, Bool.false_eq_true, NKOut]
          have hd' : m.seen.any (· == p0.key.fp) = false := by rw [hs, hfp]; simpa using hd
          have hshape : FPShape p0.key.fp := by rw [hfp]; exact fpShape_of_key hok.head.2.2.2.2
          obtain ⟨n, hn⟩ := hK (k, v) hok.head
          cases hk : kfn k with
          | none =>
            refine ⟨n + 1, fun fuel hf => ?_⟩
            obtain ⟨fuel, rfl⟩ : ∃ f, fuel = f + 1 := ⟨fuel - 1, by omega⟩
            have := hn fuel (by omega)
            simp only [hk] at this
            obtain ⟨er, he⟩ := this
            rw [nextKey_flush_deliver fuel cfg kseed m p0 ps hmp hfl hd' hshape, hev, hfp, he]
            simp
          | some kv =>
            refine ⟨n + 1,
              { m with pending := ps, haveKey := true, pendingValue := some (p0.value.events, p0.ref), seen := (fpOf k :: m.seen) },
              .replay X.buf X.iEnd X.ref, ?_, fun fuel hf => ?_⟩
            · exact ⟨rfl, ⟨p0.ref, by simp [hvev]⟩, rfl, hfl, hrest, by simp [hs]⟩
            · obtain ⟨fuel, rfl⟩ : ∃ f, fuel = f + 1 := ⟨fuel - 1, by omega⟩
              have := hn fuel (by omega)
              simp only [hk] at this
              rw [nextKey_flush_deliver fuel cfg kseed m p0 ps hmp hfl hd' hshape, hev, hfp, this]
    cases hmp : m.pending with
    | cons p0 ps => exact hne m (by simp [hmp]) hrel
    | nil =>
      obtain ⟨hfl, hq, hs⟩ := hrel
      rcases nextKey_flush_empty (c := .replay X.buf X.iEnd X.ref) 0 cfg kseed m hmp hfl with ⟨h1, -⟩ | ⟨_, -, -, -, -, -⟩
      · rw [hmp, h1] at hq; simp [PRel] at hq
      · -- the state after enqueueing does not depend on the fuel
        have hm2 : ∃ m2 : MA, (∀ fuel, nextKey (fuel + 1) cfg kseed (.replay X.buf X.iEnd X.ref) m =
            nextKey fuel cfg kseed (.replay X.buf X.iEnd X.ref) m2) ∧ m2.pending ≠ [] ∧
            m2.pending ++ m2.mergeStack.flatten = m.mergeStack.flatten ∧ m2.flushingMerges = true ∧ m2.seen = m.seen := by
          rcases enqueue_go_spec m.mergeStack with ⟨h1, h2⟩ | ⟨b, rest, h2, h3, h4⟩
          · rw [hmp, h1] at hq; simp [PRel] at hq
          · refine ⟨{ m with pending := b ++ m.pending, mergeStack := rest }, fun fuel => ?_, by simp [hmp, h3],
              by simp [hmp, h4], hfl, rfl⟩
            rw [nextKey]
            simp only [hmp, hfl, if_true, enqueueNextMergeBatch, h2]
        obtain ⟨m2, hstep, h3, h4, h5, h6⟩ := hm2
        refine NKOut.of_step 0 (fun fuel _ => hstep fuel) (hne m2 h3 ⟨h5, ?_, by rw [h6, hs]⟩)
        rw [h4]; simpa [hmp] using hq

/-- reading own entries: `nextKey` follows `liveStep` -/
theorem nextKey_live (X : MCtx) (cfg : Cfg) (kseed : Ty ⊕ Unit) (kfn : ENode → Option Val) (d : Nat)
    (hK : ∀ e, EntOK d e → KeyRef cfg kseed kfn e.1) (seen : List FP) :
    ∀ (rem q : List (ENode × ENode)) (m : MA) (i : Nat), AllOK d rem → AllOK d q → LiveRel X i rem q seen m →
      NKOut X cfg kseed kfn seen m (.replay X.buf i X.ref) (liveStep cfg.dup rem q seen) := by
  intro rem
  induction rem with
  | nil =>
    intro q m i _ hq ⟨hi0, ⟨el, rest, hdrop⟩, hend, hp, hfl, hst, hs⟩
    simp only [eflattenE_nil, List.nil_append] at hdrop
    simp only [eflattenE_nil, List.length_nil, Nat.add_zero] at hend
    simp only [liveStep]
    by_cases hms : m.mergeStack = []
    · have hq0 : q = [] := by rw [hms] at hst; exact hst.nil_left
      subst hq0
      simp only [flushStep, NKOut]
      refine ⟨1, m, fun fuel hf => ?_⟩
      obtain ⟨fuel, rfl⟩ : ∃ f, fuel = f + 1 := ⟨fuel - 1, by omega⟩
      rw [nextKey_end_empty X.ref fuel cfg kseed m hdrop hp hfl hms, hend]
    · have hflush := nextKey_flush X cfg kseed kfn d hK seen q { m with flushingMerges := true } hq
        ⟨rfl, by simpa [hp] using hst, hs⟩
      have hstep : ∀ fuel, nextKey (fuel + 1) cfg kseed (.replay X.buf i X.ref) m =
          nextKey (fuel + 1) cfg kseed (.replay X.buf X.iEnd X.ref) { m with flushingMerges := true } := by
        intro fuel
        rw [nextKey_end_flush X.ref fuel cfg kseed m hdrop hp hfl hms, hend]
      -- transfer (same fuel on both sides)
      have key : ∀ {P : R (KeyStep × MA) → Prop} (n : Nat),
          (∀ fuel, n ≤ fuel → P (nextKey fuel cfg kseed (.replay X.buf X.iEnd X.ref) { m with flushingMerges := true })) →
          ∀ fuel, n + 1 ≤ fuel → P (nextKey fuel cfg kseed (.replay X.buf i X.ref) m) := by
        intro P n hP fuel hf
        obtain ⟨fuel, rfl⟩ : ∃ f, fuel = f + 1 := ⟨fuel - 1, by omega⟩
        rw [hstep fuel]
        exact hP (fuel + 1) (by omega)
      cases hfs : flushStep q seen with
      | fail =>
        rw [hfs] at hflush
        obtain ⟨n, hn⟩ := hflush
        exact ⟨_, key n hn⟩
      | done =>
        rw [hfs] at hflush
        obtain ⟨n, m', hn⟩ := hflush
        exact ⟨_, m', key (P := fun x => x = _) n hn⟩
      | deliver k v st' =>
        rw [hfs] at hflush
        simp only [NKOut] at hflush ⊢
        cases hk : kfn k with
        | none =>
          simp only [hk] at hflush ⊢
          obtain ⟨n, hn⟩ := hflush
          exact ⟨_, key n hn⟩
        | some kv =>
          simp only [hk] at hflush ⊢
          obtain ⟨n, m', c', hr, hn⟩ := hflush
          exact ⟨_, m', c', hr, key (P := fun x => x = _) n hn⟩
  | cons e rest ih =>
    obtain ⟨k, v⟩ := e
    intro q m i hr hq ⟨hi0, ⟨el, rest', hdrop⟩, hend, hp, hfl, hst, hs⟩
    simp only [eflattenE_cons, List.append_assoc] at hdrop
    simp only [eflattenE_cons, List.length_append] at hend
    obtain ⟨ncap, hcap⟩ := capture_drop X.ref hdrop
    have hdropv := drop_add_of_drop hdrop
    have hdropr := drop_add_of_drop hdropv
    obtain ⟨e0, tl0, hk0, hopen, -⟩ := eflatten_cons k
    have hpk : X.buf.drop i = e0 :: (tl0 ++ (eflatten v ++ (eflattenE rest ++ .mapEnd el :: rest'))) := by
      rw [hdrop, hk0]; rfl
    have hent := hr.head
    simp only [liveStep]
    by_cases hm : isMergeKeyNode k = true
    · simp only [hm, if_true]
      obtain ⟨npl, hpl⟩ := pendingFromLive_spec v X.ref (Cur.replay X.buf (i + (eflatten k).length) X.ref).refLoc hdropv
      cases hb : sourceEntries v with
      | none =>
        simp only [hb] at hpl ⊢
        refine ⟨max ncap npl + 1, fun fuel hf => ?_⟩
        obtain ⟨fuel, rfl⟩ : ∃ f, fuel = f + 1 := ⟨fuel - 1, by omega⟩
        rw [nextKey_live_merge X.ref fuel cfg kseed m k hpk hopen hp hfl (hcap fuel (by omega)) hm]
        obtain ⟨er, c, he⟩ := hpl fuel (by omega)
        simp [he]
      | some b =>
        simp only [hb] at hpl ⊢
        -- the recorded entries do not depend on the fuel (take those at `npl`)
        obtain ⟨ps, hps, hrel⟩ := hpl npl (Nat.le_refl _)
        have hps' : ∀ fuel, npl ≤ fuel → pendingFromLive fuel (.replay X.buf (i + (eflatten k).length) X.ref)
            (Cur.replay X.buf (i + (eflatten k).length) X.ref).refLoc =
            .ok ps (.replay X.buf (i + (eflatten k).length + (eflatten v).length) X.ref) := by
          intro fuel hf
          obtain ⟨ps', hps', -⟩ := hpl fuel hf
          have := pendingFromLive_mono_le hf hps
          rw [hps'] at this
          rw [hps']; injection this with h1 h2; rw [h1]
        let m2 : MA := if ps.isEmpty then m else { m with mergeStack := ps :: m.mergeStack }
        have hrel2 : LiveRel X (i + (eflatten k).length + (eflatten v).length) rest (b ++ q) seen m2 := by
          refine ⟨by omega, ⟨el, rest', hdropr⟩, by omega, ?_, ?_, ?_, ?_⟩
          · simp only [m2]; split <;> simp [hp]
          · simp only [m2]; split <;> simp [hfl]
          · simp only [m2]
            split
            · rename_i hemp
              have : ps = [] := by simpa using hemp
              subst this
              rw [hrel.nil_left]; simpa using hst
            · simpa using PRel.append hrel hst
          · simp only [m2]; split <;> simp [hs]
        have hstep : ∀ fuel, max ncap npl ≤ fuel → nextKey (fuel + 1) cfg kseed (.replay X.buf i X.ref) m =
            nextKey fuel cfg kseed (.replay X.buf (i + (eflatten k).length + (eflatten v).length) X.ref) m2 := by
          intro fuel hf
          rw [nextKey_live_merge X.ref fuel cfg kseed m k hpk hopen hp hfl (hcap fuel (by omega)) hm,
            hps' fuel (by omega)]
        exact NKOut.of_step _ hstep (ih (b ++ q) m2 _ hr.tail (AllOK.append (allOK_source hent hb) hq) hrel2)
    · have hm' : isMergeKeyNode k = false := by simpa using hm
      simp only [hm', Bool.false_eq_true, if_false]
      have hshape : FPShape (fpOf k) := fpShape_of_key hent.2.2.2.2
      have hrelv : ∀ m' : MA, m' = { m with haveKey := true, pendingValue := none, seen := (fpOf k :: m.seen) } →
          RelV X v (.live rest q) (fpOf k :: seen) m' (.replay X.buf (i + (eflatten k).length) X.ref) := by
        intro m' hm'
        subst hm'
        exact ⟨rfl, rfl, _, rfl, by omega, ⟨el, rest', hdropv⟩, by omega, hp, hfl, hst, by simp [hs]⟩
      -- delivery of this entry
      have hdeliver : (cfg.dup = .lastWins ∨ m.seen.any (· == fpOf k) = false) →
          NKOut X cfg kseed kfn seen m (.replay X.buf i X.ref) (.deliver k v (.live rest q)) := by
        intro hdel
        obtain ⟨n, hn⟩ := hK (k, v) hent
        simp only [NKOut]
        cases hk : kfn k with
        | none =>
          refine ⟨max ncap n + 1, fun fuel hf => ?_⟩
          obtain ⟨fuel, rfl⟩ : ∃ f, fuel = f + 1 := ⟨fuel - 1, by omega⟩
          have := hn fuel (by omega)
          simp only [hk] at this
          obtain ⟨er, he⟩ := this
          rw [nextKey_live_deliver X.ref fuel cfg kseed m k hpk hopen hp hfl (hcap fuel (by omega)) hm' hdel hshape, he]
          simp
        | some kv =>
          refine ⟨max ncap n + 1, _, _, hrelv _ rfl, fun fuel hf => ?_⟩
          obtain ⟨fuel, rfl⟩ : ∃ f, fuel = f + 1 := ⟨fuel - 1, by omega⟩
          have := hn fuel (by omega)
          simp only [hk] at this
          rw [nextKey_live_deliver X.ref fuel cfg kseed m k hpk hopen hp hfl (hcap fuel (by omega)) hm' hdel hshape, this]
      by_cases hd : seen.any (· == fpOf k) = true
      · have hd' : m.seen.any (· == fpOf k) = true := by rw [hs]; exact hd
        cases hpol : cfg.dup with
        | error =>
          simp only [hd, if_true, NKOut]
          refine ⟨ncap + 1, fun fuel hf => ?_⟩
          obtain ⟨fuel, rfl⟩ : ∃ f, fuel = f + 1 := ⟨fuel - 1, by omega⟩
          exact nextKey_live_dup_error X.ref fuel cfg kseed m k hpk hopen hp hfl (hcap fuel (by omega)) hm' hpol hd'
        | firstWins =>
          simp only [hd, if_true]
          obtain ⟨nsk, hsk⟩ := skip_drop X.ref hdropv
          have hstep : ∀ fuel, max ncap nsk ≤ fuel → nextKey (fuel + 1) cfg kseed (.replay X.buf i X.ref) m =
              nextKey fuel cfg kseed (.replay X.buf (i + (eflatten k).length + (eflatten v).length) X.ref) m := by
            intro fuel hf
            rw [nextKey_live_dup_first X.ref fuel cfg kseed m k hpk hopen hp hfl (hcap fuel (by omega)) hm' hpol hd',
              hsk fuel (by omega)]
          have := ih q m _ hr.tail hq ⟨by omega, ⟨el, rest', hdropr⟩, by omega, hp, hfl, hst, hs⟩
          rw [hpol] at this
          exact NKOut.of_step _ hstep this
        | lastWins =>
          simp only []
          exact hdeliver (Or.inl hpol)
      · have hd' : m.seen.any (· == fpOf k) = false := by rw [hs]; simpa using hd
        have := hdeliver (Or.inr hd')
        cases hpol : cfg.dup <;> simp only [hd, Bool.false_eq_true, if_false] <;> exact this

/-- `nextKey` follows `nextStep` -/
theorem nextKey_spec (X : MCtx) (cfg : Cfg) (kseed : Ty ⊕ Unit) (kfn : ENode → Option Val) (d : Nat)
    (hK : ∀ e, EntOK d e → KeyRef cfg kseed kfn e.1) (seen : List FP) (st : ASt) (m : MA) (c : Cur)
    (hok : st.OK d) (hrel : Rel X st seen m c) : NKOut X cfg kseed kfn seen m c (nextStep cfg.dup st seen) := by
  cases st with
  | live rem q =>
    obtain ⟨i, rfl, hl⟩ := hrel
    exact nextKey_live X cfg kseed kfn d hK seen rem q m i hok.1 hok.2 hl
  | flush q =>
    obtain ⟨rfl, hf⟩ := hrel
    exact nextKey_flush X cfg kseed kfn d hK seen q m hok hf

end SaphyrVerif.Lemmas.C05
