import SaphyrVerif.Lemmas.C11_TypedLeaf
import SaphyrVerif.Lemmas.CurSimMain
/-!
Typed multi-document theorems (C11), part 4: the frame statement for all functions of the mutual block of
`Model/De.lean` at one fuel value, and the automation that proves the induction step.

Preconditions: the functions that read one node (`capture`, `deser`, `deserSeqLike`, …) need the replay
cursor strictly inside the frame; the loops that run inside an open container (`seqElems`, `captureSeq`,
`collectLoop`, …) need nesting depth `≥ 1` relative to the start of the frame; `skipDepth` /
`collectTaggedSeq` need at least their own depth counter; the map access only touches the cursor while it
is not flushing merged entries (`nextKey`) / has no buffered value (`nextValue`).
-/
namespace SaphyrVerif.Lemmas.Frame
open SaphyrVerif SaphyrVerif.Scalars SaphyrVerif.Pump SaphyrVerif.De
open SaphyrVerif.Lemmas.C05 (Ev.delta)
open SaphyrVerif.Lemmas.CurSim (PL PLL MRel KM VM EV)

set_option linter.unusedSimpArgs false
set_option linter.unusedVariables false

structure FrA (K : Ctx) (fuel : Nat) : Prop where
  capture : ∀ {c c'}, FSim K c c' → pos c < K.buf.length → RF K Eq (De.capture fuel c) (De.capture fuel c')
  captureSeq : ∀ fps evs {c c'}, FSim K c c' → 1 ≤ dep K c →
    RF K Eq (De.captureSeq fuel c fps evs) (De.captureSeq fuel c' fps evs)
  captureMap : ∀ fps evs {c c'}, FSim K c c' → 1 ≤ dep K c →
    RF K Eq (De.captureMap fuel c fps evs) (De.captureMap fuel c' fps evs)
  mergeSeqBatches : ∀ {b b' c c'}, FSim K c c' → 1 ≤ dep K c → PLL b b' →
    RF K PLL (De.mergeSeqBatches fuel c b) (De.mergeSeqBatches fuel c' b')
  pendingFromLive : ∀ r r' {c c'}, FSim K c c' → pos c < K.buf.length →
    RF K PL (De.pendingFromLive fuel c r) (De.pendingFromLive fuel c' r')
  collectEntriesFromMap : ∀ r r' {c c'}, FSim K c c' → pos c < K.buf.length →
    RF K PL (De.collectEntriesFromMap fuel c r) (De.collectEntriesFromMap fuel c' r')
  collectLoop : ∀ r r' {f f' m m' c c'}, FSim K c c' → 1 ≤ dep K c → PL f f' → PLL m m' →
    RF K PL (De.collectLoop fuel c r f m) (De.collectLoop fuel c' r' f' m')
  skipOneNode : ∀ {c c'}, FSim K c c' → pos c < K.buf.length → RF K Eq (De.skipOneNode fuel c) (De.skipOneNode fuel c')
  skipDepth : ∀ (depth : Nat) {c c'}, FSim K c c' → (depth : Int) ≤ dep K c →
    RF K Eq (De.skipDepth fuel c depth) (De.skipDepth fuel c' depth)
  deser : ∀ cfg ty ik km {c c'}, FSim K c c' → pos c < K.buf.length →
    RF K Eq (De.deser fuel cfg ty ik km c) (De.deser fuel cfg ty ik km c')
  bytesLoop : ∀ cfg acc {c c'}, FSim K c c' → 1 ≤ dep K c →
    RF K Eq (De.bytesLoop fuel cfg c acc) (De.bytesLoop fuel cfg c' acc)
  deserSeqLike : ∀ cfg shape {c c'}, FSim K c c' → pos c < K.buf.length →
    RF K Eq (De.deserSeqLike fuel cfg shape c) (De.deserSeqLike fuel cfg shape c')
  seqElems : ∀ cfg t acc {c c'}, FSim K c c' → 1 ≤ dep K c →
    RF K Eq (De.seqElems fuel cfg t c acc) (De.seqElems fuel cfg t c' acc)
  tupleElems : ∀ cfg ts acc {c c'}, FSim K c c' → 1 ≤ dep K c →
    RF K Eq (De.tupleElems fuel cfg ts c acc) (De.tupleElems fuel cfg ts c' acc)
  deserMapLike : ∀ cfg shape {c c'}, FSim K c c' → pos c < K.buf.length →
    RF K Eq (De.deserMapLike fuel cfg shape c) (De.deserMapLike fuel cfg shape c')
  mapEntries : ∀ cfg kt vt acc {c c' m m'}, FSim K c c' → (m.flushingMerges = false → 1 ≤ dep K c) → MRel m m' →
    RF K Eq (De.mapEntries fuel cfg kt vt c m acc) (De.mapEntries fuel cfg kt vt c' m' acc)
  structEntries : ∀ cfg fields deny acc {c c' m m'}, FSim K c c' → (m.flushingMerges = false → 1 ≤ dep K c) →
    MRel m m' →
    RF K Eq (De.structEntries fuel cfg fields deny c m acc) (De.structEntries fuel cfg fields deny c' m' acc)
  nextKey : ∀ cfg ks {c c' m m'}, FSim K c c' → (m.flushingMerges = false → 1 ≤ dep K c) → MRel m m' →
    RF K KM (De.nextKey fuel cfg ks c m) (De.nextKey fuel cfg ks c' m')
  nextValue : ∀ cfg vt {c c' m m'}, FSim K c c' → (m.pendingValue.isSome = false → 1 ≤ dep K c) → MRel m m' →
    RF K VM (De.nextValue fuel cfg vt c m) (De.nextValue fuel cfg vt c' m')
  deserEnum : ∀ cfg name variants {c c'}, FSim K c c' → pos c < K.buf.length →
    RF K Eq (De.deserEnum fuel cfg name variants c) (De.deserEnum fuel cfg name variants c')
  collectTaggedSeq : ∀ (depth : Nat) acc {c c'}, FSim K c c' → (depth : Int) ≤ dep K c →
    RF K Eq (De.collectTaggedSeq fuel c depth acc) (De.collectTaggedSeq fuel c' depth acc)
  variantPayload : ∀ cfg variants vname vloc mapMode {c c'}, FSim K c c' → (mapMode = true → 1 ≤ dep K c) →
    RF K Eq (De.variantPayload fuel cfg variants vname vloc mapMode false c)
      (De.variantPayload fuel cfg variants vname vloc mapMode false c')

/-- the merge value is read with the reference location of the cursor it is read from -/
theorem FrA.pendingFromLive_ref {K : Ctx} {fuel : Nat} (ih : FrA K fuel) {c c' : Cur} (hs : FSim K c c')
    (hin : pos c < K.buf.length) :
    RF K PL (De.pendingFromLive fuel c c.refLoc) (De.pendingFromLive fuel c' c'.refLoc) :=
  ih.pendingFromLive _ _ hs hin

/-! ### automation -/

open Lean Elab Tactic Meta in
/-- the newest `FSim K c c'` hypothesis such that `c'` occurs in the goal (and `c` in `needle`, if given),
as a term -/
def pickFSim (needle : Option Expr) : TacticM Term := withMainContext do
  let tgt ← instantiateMVars (← getMainTarget)
  let decls := (← getLCtx).decls.toList.reverse.filterMap id
  for ldecl in decls do
    if ldecl.isImplementationDetail then continue
    let ty ← instantiateMVars ldecl.type
    if ty.isAppOfArity ``FSim 3 then
      let c := ty.getArg! 1
      let c' := ty.getArg! 2
      if (tgt.find? (· == c')).isSome then
        match needle with
        | some nd => if (nd.find? (· == c)).isSome then return ← Term.exprToSyntax ldecl.toExpr
        | none => return ← Term.exprToSyntax ldecl.toExpr
  throwError "no suitable FSim hypothesis"

open Lean Elab Tactic Meta in
/-- the type of the newest call equation -/
def newestCallEqType (depth : Nat := 6) : TacticM (Option Expr) := withMainContext do
  let decls := (← getLCtx).decls.toList.reverse.filterMap id
  for ldecl in decls.take depth do
    if ldecl.isImplementationDetail then continue
    let ty ← instantiateMVars ldecl.type
    if let some (_, lhs, rhs) := ty.eq? then
      if rhs.isAppOf ``SaphyrVerif.De.R.ok || rhs.isAppOf ``SaphyrVerif.De.R.err then
        if let .const _ _ := lhs.getAppFn then return some lhs
  return none

open Lean Elab Tactic Meta in
/-- transport the outcome of the call in the newest equation produced by `split` to the other side, and
record how far the call moved on the replay side -/
elab "fr_fwd_main" : tactic => do
  let some (n, isOk, h) ← CurSim.newestCallEq | throwError "fr_fwd: no call"
  let hs ← pickFSim (← newestCallEqType)
  -- (kind, frame fact, weak constant k, weak lemma)
  let ins ← `(by fr_inside $hs)
  let ar ← `(by fr_arith)
  let (kind, prf, k, w) ← (match n with
    | ``De.capture => do
      return (0, ← `(FrA.capture ‹FrA _ _› $hs $ins), ← `((0 : Int)), ← `(fun h => Lemmas.C05.capture_weak h))
    | ``De.captureSeq => do
      return (0, ← `(FrA.captureSeq ‹FrA _ _› _ _ $hs $ar), ← `((1 : Int)),
        ← `(fun h => (Lemmas.C05.weakCap _).captureSeq h))
    | ``De.captureMap => do
      return (0, ← `(FrA.captureMap ‹FrA _ _› _ _ $hs $ar), ← `((1 : Int)),
        ← `(fun h => (Lemmas.C05.weakCap _).captureMap h))
    | ``De.mergeSeqBatches => do
      return (1, ← `(FrA.mergeSeqBatches ‹FrA _ _› $hs $ar (by pl_tac)), ← `((1 : Int)),
        ← `(fun h => Lemmas.C05.mergeSeqBatches_weak _ h))
    | ``De.pendingFromLive => do
      return (3, ← `(FrA.pendingFromLive_ref ‹FrA _ _› $hs $ins), ← `((0 : Int)),
        ← `(fun h => Lemmas.C05.pendingFromLive_weak h))
    | ``De.skipOneNode => do
      return (0, ← `(FrA.skipOneNode ‹FrA _ _› $hs $ins), ← `((0 : Int)),
        ← `(fun h => Lemmas.C05.skipOneNode_weak h))
    | ``De.deser => do
      return (0, ← `(FrA.deser ‹FrA _ _› _ _ _ _ $hs $ins), ← `((0 : Int)), ← `(fun h => Lemmas.C05.deser_weak h))
    | ``De.bytesLoop => do
      return (0, ← `(FrA.bytesLoop ‹FrA _ _› _ _ $hs $ar), ← `((1 : Int)), ← `(fun h => Lemmas.C05.bytesLoop_weak h))
    | ``De.deserSeqLike => do
      return (0, ← `(FrA.deserSeqLike ‹FrA _ _› _ _ $hs $ins), ← `((0 : Int)),
        ← `(fun h => Lemmas.C05.deserSeqLike_weak h))
    | ``De.seqElems => do
      return (0, ← `(FrA.seqElems ‹FrA _ _› _ _ _ $hs $ar), ← `((0 : Int)), ← `(fun h => Lemmas.C05.seqElems_weak h))
    | ``De.tupleElems => do
      return (0, ← `(FrA.tupleElems ‹FrA _ _› _ _ _ $hs $ar), ← `((0 : Int)),
        ← `(fun h => Lemmas.C05.tupleElems_weak h))
    | ``De.deserMapLike => do
      return (0, ← `(FrA.deserMapLike ‹FrA _ _› _ _ $hs $ins), ← `((0 : Int)),
        ← `(fun h => Lemmas.C05.deserMapLike_weak h))
    | ``De.deserEnum => do
      return (0, ← `(FrA.deserEnum ‹FrA _ _› _ _ _ $hs $ins), ← `((0 : Int)),
        ← `(fun h => Lemmas.C05.deserEnum_weak h))
    | ``De.mapEntries => do
      return (0, ← `(FrA.mapEntries ‹FrA _ _› _ _ _ _ $hs (by intro _; fr_arith)
          (by first | assumption | exact CurSim.MRel.refl _)), ← `((1 : Int)),
        ← `(fun h => Lemmas.C05.mapEntries_weak h))
    | ``De.structEntries => do
      return (0, ← `(FrA.structEntries ‹FrA _ _› _ _ _ _ $hs (by intro _; fr_arith)
          (by first | assumption | exact CurSim.MRel.refl _)), ← `((1 : Int)),
        ← `(fun h => Lemmas.C05.structEntries_weak h))
    | ``De.collectTaggedSeq => do
      return (0, ← `(FrA.collectTaggedSeq ‹FrA _ _› _ _ $hs $ar), ← `(_), ← `(fun h => Lemmas.C05.collectTaggedSeq_weak _ h))
    | ``De.takeStringScalar => do
      return (0, ← `(takeStringScalar_fr _ $hs $ins), ← `((0 : Int)), ← `(fun h => Lemmas.C05.takeStringScalar_weak h))
    | ``De.deserScalarTyped => do
      return (0, ← `(deserScalarTyped_fr _ _ $hs $ins), ← `((0 : Int)),
        ← `(fun h => Lemmas.C05.deserScalarTyped_weak h))
    | ``De.deserString => do
      return (0, ← `(deserString_fr _ $hs $ins), ← `((0 : Int)), ← `(fun h => Lemmas.C05.deserString_weak h))
    | ``De.deserStr => do
      return (0, ← `(deserStr_fr _ $hs $ins), ← `((0 : Int)), ← `(fun h => Lemmas.C05.deserStr_weak h))
    | _ => throwError "fr_fwd: no rule for {n}" : TacticM (Nat × Term × Term × Term))
  if !isOk then evalTactic (← `(tactic| ffwde $h, $prf))
  else
    if kind == 0 then evalTactic (← `(tactic| (fr_moved $hs, $h, $k, $w; ffwdk_eq $h, $prf)))
    else if kind == 1 then evalTactic (← `(tactic| (fr_moved $hs, $h, $k, $w; ffwdk_rel $h, $prf)))
    else
      evalTactic (← `(tactic| (
        fr_moved $hs, $h, $k, $w
        ffwdk_rel $h, $prf
        have hie := (CurSim.PL.isEmpty ‹PL _ _›).symm)))

/-- … or, for a call on a private replay buffer (recorded key / value, tagged enum payload), by the cursor
simulation of `Lemmas/CurSim*.lean` -/
macro "fr_fwd" : tactic => `(tactic| first | fr_fwd_main | sim_fwd)

open Lean Elab Tactic Meta in
/-- the head symbols of the two sides of a goal `RF K rel lhs rhs` -/
def goalHeadsF : TacticM (Option (Name × Name)) := withMainContext do
  let tgt := (← instantiateMVars (← getMainTarget)).cleanupAnnotations
  if tgt.isAppOfArity ``RF 6 then
    let l := (tgt.getArg! 4).cleanupAnnotations
    let r := (tgt.getArg! 5).cleanupAnnotations
    match l.getAppFn, r.getAppFn with
    | .const a _, .const b _ => return some (a, b)
    | _, _ => return none
  return none

open Lean Elab Tactic Meta in
/-- close a leaf: both sides failed, or both succeeded with related values -/
elab "fr_leaf" : tactic => do
  let some (a, b) ← goalHeadsF | throwError "fr_leaf: not a leaf"
  if a == ``R.err && b == ``R.err then evalTactic (← `(tactic| exact RF.err (by assumption)))
  else if a == ``R.ok && b == ``R.ok then
    evalTactic (← `(tactic| (refine RF.ok ?_ (by assumption) <;> sim_side)))
  else throwError "fr_leaf: not a leaf"

/-- side goal "the cursor is only touched while not flushing": `m.flushingMerges = false → 1 ≤ dep K c` -/
macro "fr_fl" : tactic =>
  `(tactic| (intro hfl; first
    | fr_arith
    | (cases hfl; done)
    | (simp only [Lemmas.C05.enqueue_flushing] at hfl; cases hfl; done)))

open Lean Elab Tactic Meta in
/-- close a tail call by the induction hypothesis (or by a leaf lemma) -/
elab "fr_tail" : tactic => do
  let some (a, b) ← goalHeadsF | throwError "fr_tail: not a call"
  unless a == b do throwError "fr_tail: different heads"
  let tgt := (← instantiateMVars (← getMainTarget)).cleanupAnnotations
  let hs ← pickFSim (some (tgt.getArg! 4))
  let ins ← `(by fr_inside $hs)
  let ar ← `(by fr_arith)
  let tac ← (match a with
    | ``De.capture => `(tactic| exact FrA.capture ‹FrA _ _› $hs $ins)
    | ``De.captureSeq => `(tactic| exact FrA.captureSeq ‹FrA _ _› _ _ $hs $ar)
    | ``De.captureMap => `(tactic| exact FrA.captureMap ‹FrA _ _› _ _ $hs $ar)
    | ``De.skipOneNode => `(tactic| exact FrA.skipOneNode ‹FrA _ _› $hs $ins)
    | ``De.skipDepth => `(tactic| exact FrA.skipDepth ‹FrA _ _› _ $hs $ar)
    | ``De.deser => `(tactic| exact FrA.deser ‹FrA _ _› _ _ _ _ $hs $ins)
    | ``De.bytesLoop => `(tactic| exact FrA.bytesLoop ‹FrA _ _› _ _ $hs $ar)
    | ``De.deserSeqLike => `(tactic| exact FrA.deserSeqLike ‹FrA _ _› _ _ $hs $ins)
    | ``De.seqElems => `(tactic| exact FrA.seqElems ‹FrA _ _› _ _ _ $hs $ar)
    | ``De.tupleElems => `(tactic| exact FrA.tupleElems ‹FrA _ _› _ _ _ $hs $ar)
    | ``De.deserMapLike => `(tactic| exact FrA.deserMapLike ‹FrA _ _› _ _ $hs $ins)
    | ``De.deserEnum => `(tactic| exact FrA.deserEnum ‹FrA _ _› _ _ _ $hs $ins)
    | ``De.collectTaggedSeq => `(tactic| exact FrA.collectTaggedSeq ‹FrA _ _› _ _ $hs $ar)
    | ``De.variantPayload => `(tactic| exact FrA.variantPayload ‹FrA _ _› _ _ _ _ _ $hs (by intro hmm; first | fr_arith | (cases hmm; done)))
    | ``De.pendingFromLive => `(tactic| exact FrA.pendingFromLive ‹FrA _ _› _ _ $hs $ins)
    | ``De.collectEntriesFromMap => `(tactic| exact FrA.collectEntriesFromMap ‹FrA _ _› _ _ $hs $ins)
    | ``De.mergeSeqBatches => `(tactic| (refine FrA.mergeSeqBatches ‹FrA _ _› $hs $ar ?_ <;> sim_side))
    | ``De.collectLoop => `(tactic| (refine FrA.collectLoop ‹FrA _ _› _ _ $hs $ar ?_ ?_ <;> sim_side))
    | ``De.nextKey => `(tactic| (refine FrA.nextKey ‹FrA _ _› _ _ $hs ?_ ?_ <;> first | fr_fl | sim_side))
    | ``De.deserScalarTyped => `(tactic| exact deserScalarTyped_fr _ _ $hs $ins)
    | ``De.deserString => `(tactic| exact deserString_fr _ $hs $ins)
    | ``De.deserAnyScalar => `(tactic| exact deserAnyScalar_fr _ _ _ _ _ $hs $ins)
    | ``De.byteSeqVisit => `(tactic| exact byteSeqVisit_fr _ _ $hs)
    | ``De.structFinish => `(tactic| exact structFinish_fr _ _ $hs)
    | _ => throwError "fr_tail: no rule for {a}" : TacticM (TSyntax `tactic))
  evalTactic tac

macro "fr_simp" : tactic =>
  `(tactic| simp only [*, ↓reduceIte, Bool.false_eq_true, CurSim.act1_eq1, CurSim.act1_eq2, CurSim.act2_eq1,
      CurSim.act2_eq2, CurSim.act0_eq1, CurSim.act0_eq2, decide_eq_true_eq, CurSim.seenContains_mk])

macro "fr_loop" : tactic =>
  `(tactic| repeat' (first | fr_leaf | fr_step | sim_step | fr_simp | (split <;> try fr_fwd) | pfe_absurd | fr_tail))

end SaphyrVerif.Lemmas.Frame
