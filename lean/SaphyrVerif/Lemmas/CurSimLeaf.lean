import SaphyrVerif.Lemmas.CurSimTac
/-!
Cursor simulation, part 2a: the proof automation (step both cursors, transport the outcome of a call from
the left side to the right side) and the simulation lemmas for the non-recursive leaves of the typed
deserializer (`deserScalarTyped`, `takeStringScalar`, `deserString`, `deserStr`, `deserAnyScalar`,
`byteSeqVisit`, `structFinish`).
-/
namespace SaphyrVerif.Lemmas.CurSim
open SaphyrVerif SaphyrVerif.Scalars SaphyrVerif.Pump SaphyrVerif.De

set_option linter.unusedSimpArgs false
set_option linter.unusedVariables false

/-- both sides failed, or both succeeded with the same value and related cursors (syntactic check only) -/
macro "leaf_close" : tactic =>
  `(tactic| first
    | with_reducible exact RV.err
    | with_reducible exact RV.ok rfl (by assumption))

theorem takeStringScalar_sim (cfg : Cfg) {c c' : Cur} (hs : Sim c c') :
    RV Eq (takeStringScalar cfg c) (takeStringScalar cfg c') := by
  unfold takeStringScalar
  repeat' (first | leaf_close | sim_step | simp only [*, ↓reduceIte, Bool.false_eq_true] | split)

open Lean Elab Tactic Meta in
elab "leaf_fwd" : tactic => do
  let some (n, isOk, h) ← newestCallEq | throwError "leaf_fwd: no call"
  unless n == ``SaphyrVerif.De.takeStringScalar do throwError "leaf_fwd: no rule"
  if isOk then evalTactic (← `(tactic| fwdk_eq $h, (takeStringScalar_sim _ ‹Sim _ _›)))
  else evalTactic (← `(tactic| fwde $h, (takeStringScalar_sim _ ‹Sim _ _›)))

macro "leaf_loop" : tactic =>
  `(tactic| repeat' (first | leaf_close | sim_step | simp only [*, ↓reduceIte, Bool.false_eq_true] | (split <;> try leaf_fwd)))

theorem deserScalarTyped_sim (cfg : Cfg) (ty : Ty) {c c' : Cur} (hs : Sim c c') :
    RV Eq (deserScalarTyped cfg ty c) (deserScalarTyped cfg ty c') := by
  -- `deserialize_char` peeks and then takes the event from the SAME cursor
  obtain ⟨o2, d2, d2', hn, hn', hs2⟩ := hs.next
  obtain ⟨o1, d1, d1', hp, hp', hs1⟩ := hs.peek
  cases ty
  case char =>
    unfold deserScalarTyped
    simp only [hp, hp', hn, hn']
    rcases o1 with _ | (⟨v, tag, rt, st, a, l⟩ | _ | _ | _ | _)
    case some.scalar =>
      by_cases h1 : (tag != tagString) = true
      · by_cases h2 : (tag == tagNull || scalarIsNullish v st) = true
        · simp only [h1, h2, ↓reduceIte, Bool.false_eq_true]
          leaf_loop
        · by_cases h3 : (cfg.noSchema && maybeNotString v st) = true
          · simp only [h1, h2, h3, ↓reduceIte, Bool.false_eq_true]
            leaf_loop
          · simp only [h1, h2, h3, ↓reduceIte, Bool.false_eq_true]
            rcases o2 with _ | (_ | _ | _ | _ | _) <;> leaf_loop
      · simp only [h1, ↓reduceIte, Bool.false_eq_true]
        rcases o2 with _ | (_ | _ | _ | _ | _) <;> leaf_loop
    all_goals
      simp only []
      rcases o2 with _ | (_ | _ | _ | _ | _) <;> leaf_loop
  all_goals
    unfold deserScalarTyped
    simp only [hn, hn']
    rcases o2 with _ | (_ | _ | _ | _ | _) <;> leaf_loop

theorem deserString_sim (cfg : Cfg) {c c' : Cur} (hs : Sim c c') :
    RV Eq (deserString cfg c) (deserString cfg c') := by
  unfold deserString
  leaf_loop

open Lean Elab Tactic Meta in
elab "leaf_fwd2" : tactic => do
  let some (n, isOk, h) ← newestCallEq | throwError "leaf_fwd: no call"
  unless n == ``SaphyrVerif.De.deserString do throwError "leaf_fwd: no rule"
  if isOk then evalTactic (← `(tactic| fwdk_eq $h, (deserString_sim _ ‹Sim _ _›)))
  else evalTactic (← `(tactic| fwde $h, (deserString_sim _ ‹Sim _ _›)))

theorem deserStr_sim (cfg : Cfg) {c c' : Cur} (hs : Sim c c') :
    RV Eq (deserStr cfg c) (deserStr cfg c') := by
  unfold deserStr
  repeat' (first | leaf_close | sim_step | simp only [*, ↓reduceIte, Bool.false_eq_true] | (split <;> try leaf_fwd2))

theorem deserAnyScalar_sim (cfg : Cfg) (v : List Char) (tag : Nat) (st : Style) (l : Loc) {c c' : Cur}
    (hs : Sim c c') : RV Eq (deserAnyScalar cfg c v tag st l) (deserAnyScalar cfg c' v tag st l) := by
  unfold deserAnyScalar
  leaf_loop

theorem byteSeqVisit_sim (shape : Ty ⊕ List Ty) (data : List Nat) {c c' : Cur} (hs : Sim c c') :
    RV Eq (byteSeqVisit shape data c) (byteSeqVisit shape data c') := by
  unfold byteSeqVisit
  leaf_loop

theorem structFinish_sim (fields : List (String × Ty)) (got : List (String × Val)) {c c' : Cur} (hs : Sim c c') :
    RV Eq (structFinish fields got c) (structFinish fields got c') := by
  unfold structFinish
  leaf_loop

end SaphyrVerif.Lemmas.CurSim
