import SaphyrVerif.Spec.Robotics
import SaphyrVerif.Lemmas.C19Total
import SaphyrVerif.Lemmas.C19Float
/-!
C19: ordinary decimal float literals (`Spec.Robotics.PlainLit`) through both paths of
`parse_yaml12_float`: the plain path (`str::parse`) and the robotics evaluator give the correctly rounded
exact decimal value `PlainLit.value`.
-/
set_option linter.unusedSimpArgs false
namespace SaphyrVerif.Lemmas.C19L
open SaphyrVerif SaphyrVerif.F64 SaphyrVerif.Robotics SaphyrVerif.Spec.Robotics SaphyrVerif.Lemmas.C19

def Digits (ds : List Nat) : Prop := ∀ c ∈ ds, isDigit c = true

/-- the bytes after a digit run do not continue it -/
def Stops (rest : List Nat) : Prop := ∀ c r, rest = c :: r → isDigit c = false ∧ c ≠ 95

theorem Digits.tail {d : Nat} {ds : List Nat} (h : Digits (d :: ds)) : Digits ds :=
  fun c hc => h c (List.mem_cons_of_mem _ hc)

theorem spanDigits_append (ds rest : List Nat) (hd : Digits ds) (hs : Stops rest) :
    spanDigits (ds ++ rest) = (ds, rest) := by
  induction ds with
  | nil =>
    cases rest with
    | nil => rfl
    | cons c r =>
      have := (hs c r rfl).1
      simp [spanDigits, this]
  | cons d ds ih =>
    have hdd : isDigit d = true := hd d (List.mem_cons_self)
    simp only [List.cons_append, spanDigits, hdd, ↓reduceIte, ih hd.tail]

theorem digitsVal_append (a b : List Nat) (acc : Nat) : digitsVal (a ++ b) acc = digitsVal b (digitsVal a acc) := by
  induction a generalizing acc with
  | nil => rfl
  | cons c r ih => simp only [List.cons_append, digitsVal, ih]

theorem numLoop_digits (eU : RErr) (ds rest pre : List Nat) (k seen : Nat) (bufR : List Nat) (hv : Bool)
    (hd : Digits ds) (hs : Stops rest) (hcap : seen + ds.length ≤ MAX_NUM_DIGITS) :
    numLoop eU pre (ds ++ rest) k seen bufR hv =
      .ok ⟨ds.reverse ++ pre, rest, seen + ds.length, ds.reverse ++ bufR, hv || !ds.isEmpty⟩ := by
  induction ds generalizing pre k seen bufR hv with
  | nil =>
    cases rest with
    | nil => simp [numLoop]
    | cons c r =>
      obtain ⟨h1, h2⟩ := hs c r rfl
      have h2' : (c == 95) = false := by simpa using h2
      simp [numLoop, h1, h2']
  | cons d ds ih =>
    have hdd : isDigit d = true := hd d (List.mem_cons_self)
    have hlen : seen + 1 + ds.length ≤ MAX_NUM_DIGITS := by simp only [List.length_cons] at hcap; omega
    have hnot : ¬ MAX_NUM_DIGITS < seen + 1 := by omega
    simp only [List.cons_append, numLoop, hdd, ↓reduceIte, hnot]
    rw [ih (d :: pre) (k + 1) (seen + 1) (d :: bufR) true hd.tail hlen]
    simp only [List.reverse_cons, List.append_assoc, List.singleton_append, List.length_cons, Bool.true_or,
      List.isEmpty_cons, Bool.not_false, Bool.or_true]
    congr 2
    omega

theorem sexaLook_digits (ds rest : List Nat) (sd lu : Bool) (hd : Digits ds) (hs : Stops rest) :
    sexaLook (ds ++ rest) sd lu = (sd || !ds.isEmpty, (if ds.isEmpty then lu else false), rest.head?) := by
  induction ds generalizing sd lu with
  | nil =>
    cases rest with
    | nil => simp [sexaLook]
    | cons c r =>
      obtain ⟨h1, h2⟩ := hs c r rfl
      have h2' : (c == 95) = false := by simpa using h2
      simp [sexaLook, h1, h2']
  | cons d ds ih =>
    have hdd : isDigit d = true := hd d (List.mem_cons_self)
    simp only [List.cons_append, sexaLook, hdd, ↓reduceIte]
    rw [ih true false hd.tail]
    cases ds <;> simp


/-! ## the pieces of a literal -/

theorem stops_nil : Stops [] := by intro c r h; cases h

theorem stops_exp (l : PlainLit) : Stops l.expBytes := by
  unfold PlainLit.expBytes
  split
  · exact stops_nil
  · rename_i up sg ds _
    intro c r h
    cases h
    cases up <;> simp [isDigit]

theorem stops_frac_exp (l : PlainLit) : Stops (l.fracBytes ++ l.expBytes) := by
  unfold PlainLit.fracBytes
  split
  · simpa using stops_exp l
  · intro c r h
    cases h
    simp [isDigit]

theorem exp_head (l : PlainLit) : l.expBytes = [] ∨ ∃ c r, l.expBytes = c :: r ∧ (c = 69 ∨ c = 101) := by
  unfold PlainLit.expBytes
  split
  · exact Or.inl rfl
  · rename_i up sg ds _
    exact Or.inr ⟨_, _, rfl, by cases up <;> simp⟩

theorem fracDigits_eq (l : PlainLit) : l.fracBytes = [] ∧ l.fracDigits = [] ∨ l.fracBytes = 46 :: l.fracDigits := by
  unfold PlainLit.fracBytes PlainLit.fracDigits
  cases l.frac <;> simp

theorem spanFrac_lit (l : PlainLit) (hwf : l.WF) :
    spanFrac (l.fracBytes ++ l.expBytes) = (l.fracDigits, l.expBytes) := by
  rcases fracDigits_eq l with ⟨h1, h2⟩ | h
  · rw [h1, h2, List.nil_append]
    rcases exp_head l with he | ⟨c, r, he, hc⟩
    · rw [he]; rfl
    · rw [he]
      rcases hc with hc | hc <;> (subst hc; rfl)
  · rw [h]
    simp only [List.cons_append, spanFrac]
    exact spanDigits_append _ _ hwf.fp (stops_exp l)

theorem expSign_lit (sg : Option Bool) (ds : List Nat) (hd : Digits ds) (hne : ds ≠ []) :
    expSign (signBytes sg ++ ds) = (sg == some true, ds) := by
  cases sg with
  | none =>
    cases ds with
    | nil => exact absurd rfl hne
    | cons d r =>
      have hdd : isDigit d = true := hd d (List.mem_cons_self)
      simp only [signBytes, List.nil_append]
      unfold expSign
      split
      · rename_i heq; cases heq; simp [isDigit] at hdd
      · rename_i heq; cases heq; simp [isDigit] at hdd
      · rfl
  | some b => cases b <;> rfl

theorem parseExp_lit (l : PlainLit) (hwf : l.WF) : parseExp l.expBytes = some l.expVal := by
  unfold PlainLit.expBytes PlainLit.expVal
  cases he : l.exp with
  | none => rfl
  | some t =>
    obtain ⟨up, sg, ds⟩ := t
    have hds : l.expDigits = ds := by simp [PlainLit.expDigits, he]
    have hd : Digits ds := by rw [← hds]; exact hwf.ed
    have hne : ds ≠ [] := by rw [← hds]; exact hwf.expNonempty (by simp [he])
    simp only [parseExp]
    have hc : ((if up = true then 69 else 101) == 101 || (if up = true then 69 else 101) == 69) = true := by
      cases up <;> rfl
    rw [if_pos hc, expSign_lit sg ds hd hne]
    simp only []
    have hsp : spanDigits ds = (ds, []) := by
      have := spanDigits_append ds [] hd stops_nil
      simpa using this
    rw [hsp]
    have : ds.isEmpty = false := by cases ds <;> simp_all
    simp [this]

theorem parseDecimal_body (l : PlainLit) (hwf : l.WF) :
    parseDecimal l.body = some (digitsVal (l.ip ++ l.fracDigits) 0, l.ip.length + l.fracDigits.length,
      l.expVal - (l.fracDigits.length : Int)) := by
  unfold parseDecimal PlainLit.body
  simp only [List.append_assoc]
  rw [spanDigits_append l.ip _ hwf.ip (stops_frac_exp l)]
  simp only [spanFrac_lit l hwf, parseExp_lit l hwf]
  have : (l.ip.length + l.fracDigits.length == 0) = false := by simpa using hwf.mant
  simp [this, digitsVal_append]

/-- first byte of the body: a digit, or '.' followed by a digit -/
theorem body_head (l : PlainLit) (hwf : l.WF) :
    ∃ c r, l.body = c :: r ∧ (isDigit c = true ∨ (c = 46 ∧ ∃ d r', r = d :: r' ∧ isDigit d = true)) := by
  unfold PlainLit.body
  cases hip : l.ip with
  | cons d r =>
    refine ⟨d, r ++ (l.fracBytes ++ l.expBytes), by simp, Or.inl ?_⟩
    exact hwf.ip d (by rw [hip]; exact List.mem_cons_self)
  | nil =>
    have hm := hwf.mant
    rw [hip] at hm
    simp only [List.length_nil, Nat.zero_add] at hm
    rcases fracDigits_eq l with ⟨_, h2⟩ | h
    · rw [h2] at hm; exact absurd rfl hm
    · cases hfd : l.fracDigits with
      | nil => rw [hfd] at hm; exact absurd rfl hm
      | cons d r' =>
        refine ⟨46, d :: r' ++ l.expBytes, by simp [h, hfd], Or.inr ⟨rfl, d, r' ++ l.expBytes, rfl, ?_⟩⟩
        exact hwf.fp d (by rw [hfd]; exact List.mem_cons_self)

/-- (T) Rust `str::parse` on the literal = its exact decimal value, correctly rounded. -/
theorem fromStr_lit (f : Fmt) (l : PlainLit) (hwf : l.WF) : fromStr f l.render = some (l.value f) := by
  obtain ⟨c, r, hb, hc⟩ := body_head l hwf
  have hc45 : (c == 45) = false ∧ (c == 43) = false := by
    rcases hc with h | ⟨h, _⟩
    · simp only [isDigit, Bool.and_eq_true, decide_eq_true_eq] at h
      constructor <;> (simp only [beq_eq_false_iff_ne, ne_eq]; omega)
    · subst h; exact ⟨rfl, rfl⟩
  unfold PlainLit.render PlainLit.value
  cases hs : l.sign with
  | none =>
    simp only [signBytes, List.nil_append]
    rw [hb]
    simp only [fromStr, hc45.1, hc45.2, Bool.or_self, Bool.false_eq_true, ↓reduceIte, List.isEmpty_cons]
    rw [← hb, parseDecimal_body l hwf]
    rfl
  | some b =>
    cases b
    · simp only [signBytes, List.cons_append, List.nil_append, fromStr]
      rw [hb]
      have e1 : ((43 : Nat) == 45 || (43 : Nat) == 43) = true := rfl
      simp only [e1, List.isEmpty_cons, Bool.false_eq_true, ↓reduceIte]
      rw [← hb, parseDecimal_body l hwf]
      rfl
    · simp only [signBytes, List.cons_append, List.nil_append, fromStr]
      rw [hb]
      have e1 : ((45 : Nat) == 45 || (45 : Nat) == 43) = true := rfl
      simp only [e1, List.isEmpty_cons, Bool.false_eq_true, ↓reduceIte]
      rw [← hb, parseDecimal_body l hwf]
      rfl


/-! ## the plain path -/

/-- bytes that occur in a literal -/
def allowed (n : Nat) : Bool := isDigit n || n == 43 || n == 45 || n == 46 || n == 69 || n == 101

theorem allowed_lt (n : Nat) (h : allowed n = true) : n < 128 := by
  simp only [allowed, isDigit, Bool.or_eq_true, Bool.and_eq_true, decide_eq_true_eq, beq_iff_eq] at h
  omega

theorem allowed_facts : ∀ n, n < 128 → allowed n = true →
    isWhitespace (Char.ofNat n) = false ∧ asciiLower (Char.ofNat n) ≠ 'n' ∧ asciiLower (Char.ofNat n) ≠ 'i' ∧
      (Char.ofNat n).toNat = n ∧ isWs n = false := by
  decide

theorem allowed_signBytes (sg : Option Bool) : ∀ c ∈ signBytes sg, allowed c = true := by
  cases sg with
  | none => intro c hc; cases hc
  | some b => cases b <;> (intro c hc; simp [signBytes] at hc; subst hc; rfl)

theorem allowed_digits {ds : List Nat} (h : Digits ds) : ∀ c ∈ ds, allowed c = true := by
  intro c hc; simp [allowed, h c hc]

theorem allowed_render (l : PlainLit) (hwf : l.WF) : ∀ c ∈ l.render, allowed c = true := by
  intro c hc
  simp only [PlainLit.render, PlainLit.body, List.mem_append] at hc
  rcases hc with h | (h | h) | h
  · exact allowed_signBytes _ c h
  · exact allowed_digits hwf.ip c h
  · rcases fracDigits_eq l with ⟨h1, _⟩ | h1
    · rw [h1] at h; cases h
    · rw [h1] at h
      cases h with
      | head => rfl
      | tail _ h => exact allowed_digits hwf.fp c h
  · unfold PlainLit.expBytes at h
    cases he : l.exp with
    | none => rw [he] at h; cases h
    | some t =>
      obtain ⟨up, sg, ds⟩ := t
      rw [he] at h
      have hds : l.expDigits = ds := by simp [PlainLit.expDigits, he]
      simp only [List.mem_cons, List.mem_append] at h
      rcases h with h | h | h
      · subst h; cases up <;> rfl
      · exact allowed_signBytes _ c h
      · exact allowed_digits (by rw [← hds]; exact hwf.ed) c h

theorem dropWhile_none {α} (p : α → Bool) (s : List α) (h : ∀ c ∈ s, p c = false) : s.dropWhile p = s := by
  cases s with
  | nil => rfl
  | cons c r => simp [List.dropWhile, h c (List.mem_cons_self)]

theorem trim_none (s : List Char) (h : ∀ c ∈ s, isWhitespace c = false) : trim s = s := by
  unfold trim trimStart trimEnd
  rw [dropWhile_none _ s h, dropWhile_none _ s.reverse (by intro c hc; exact h c (List.mem_reverse.mp hc))]
  exact List.reverse_reverse s

theorem utf8_chars (bs : List Nat) (h : ∀ c ∈ bs, allowed c = true) : utf8 (bs.map Char.ofNat) = bs := by
  induction bs with
  | nil => rfl
  | cons b r ih =>
    have hb := h b (List.mem_cons_self)
    have hf := allowed_facts b (allowed_lt b hb) hb
    have hlt := allowed_lt b hb
    simp only [utf8, List.map_cons, List.flatMap_cons] at ih ⊢
    rw [ih (fun c hc => h c (List.mem_cons_of_mem _ hc))]
    rw [hf.2.2.2.1]
    have : b < 0x80 := hlt
    simp [this]

theorem lower_not_mem (bs : List Nat) (h : ∀ c ∈ bs, allowed c = true) :
    'n' ∉ lowerAscii (bs.map Char.ofNat) ∧ 'i' ∉ lowerAscii (bs.map Char.ofNat) := by
  unfold lowerAscii
  constructor
  · intro hm
    simp only [List.map_map, List.mem_map, Function.comp] at hm
    obtain ⟨b, hb, hbe⟩ := hm
    exact (allowed_facts b (allowed_lt b (h b hb)) (h b hb)).2.1 hbe
  · intro hm
    simp only [List.map_map, List.mem_map, Function.comp] at hm
    obtain ⟨b, hb, hbe⟩ := hm
    exact (allowed_facts b (allowed_lt b (h b hb)) (h b hb)).2.2.1 hbe

/-- (T) the plain path on an ordinary literal: its exact value, correctly rounded (any target width). -/
theorem parsePlain_lit (f : Fmt) (l : PlainLit) (hwf : l.WF) :
    parsePlain f (l.render.map Char.ofNat) = .ok (l.value f) := by
  have hall := allowed_render l hwf
  have hws : ∀ c ∈ l.render.map Char.ofNat, isWhitespace c = false := by
    intro c hc
    obtain ⟨b, hb, rfl⟩ := List.mem_map.mp hc
    exact (allowed_facts b (allowed_lt b (hall b hb)) (hall b hb)).1
  obtain ⟨hn, hi⟩ := lower_not_mem l.render hall
  unfold parsePlain
  simp only []
  rw [trim_none _ hws]
  have e1 : (lowerAscii (l.render.map Char.ofNat) == ".nan".toList) = false := by
    rw [beq_eq_false_iff_ne]; intro h; rw [h] at hn; exact hn (by decide)
  have e2 : (lowerAscii (l.render.map Char.ofNat) == "+.nan".toList) = false := by
    rw [beq_eq_false_iff_ne]; intro h; rw [h] at hn; exact hn (by decide)
  have e3 : (lowerAscii (l.render.map Char.ofNat) == "-.nan".toList) = false := by
    rw [beq_eq_false_iff_ne]; intro h; rw [h] at hn; exact hn (by decide)
  have e4 : (lowerAscii (l.render.map Char.ofNat) == ".inf".toList) = false := by
    rw [beq_eq_false_iff_ne]; intro h; rw [h] at hi; exact hi (by decide)
  have e5 : (lowerAscii (l.render.map Char.ofNat) == "+.inf".toList) = false := by
    rw [beq_eq_false_iff_ne]; intro h; rw [h] at hi; exact hi (by decide)
  have e6 : (lowerAscii (l.render.map Char.ofNat) == "-.inf".toList) = false := by
    rw [beq_eq_false_iff_ne]; intro h; rw [h] at hi; exact hi (by decide)
  simp only [e1, e2, e3, e4, e5, e6, Bool.or_self, Bool.false_eq_true, ↓reduceIte]
  rw [utf8_chars _ hall, fromStr_lit f l hwf]


/-! ## the evaluator on a literal -/

theorem skipWsL_noop (pre rest : List Nat) (h : ∀ c r, rest = c :: r → isWs c = false) :
    skipWsL pre rest = (pre, rest) := by
  cases rest with
  | nil => rfl
  | cons c r => simp [skipWsL, h c r rfl]

theorem skipWs_noop (st : St) (h : ∀ c r, st.rest = c :: r → isWs c = false) : st.skipWs = st := by
  unfold St.skipWs
  rw [skipWsL_noop _ _ h]

theorem noCont_of_allowed {bs : List Nat} (h : ∀ c ∈ bs, allowed c = true) : NoCont bs :=
  NoCont.of_ascii (fun c hc => allowed_lt c (h c hc))

theorem lowerByte_digit (c : Nat) (h : isDigit c = true) : lowerByte c = c := by
  simp only [isDigit, Bool.and_eq_true, decide_eq_true_eq] at h
  unfold lowerByte
  have : ¬ (65 ≤ c ∧ c ≤ 90) := by omega
  simp [this]

/-- a text starting with a digit, or with '.' and a digit, does not start with `.inf` / `.nan` -/
theorem startsCi_head (rest kw : List Nat) (hkw : kw.length = 4)
    (h0 : kw.head? = some 46) (h1 : ∀ d, isDigit d = true → (kw.drop 1).head? ≠ some d)
    (hh : ∃ c r, rest = c :: r ∧ (isDigit c = true ∨ (c = 46 ∧ ∃ d r', r = d :: r' ∧ isDigit d = true))) :
    startsCi rest kw = false := by
  unfold startsCi
  split
  · rfl
  · rename_i hlen
    rw [beq_eq_false_iff_ne]
    obtain ⟨c, r, hb, hc⟩ := hh
    rw [hb, hkw]
    match kw, hkw, h0, h1 with
    | [k0, k1, k2, k3], _, h0, h1 =>
      simp only [List.head?_cons, Option.some.injEq] at h0
      subst h0
      rcases hc with hd | ⟨h46, d, r', hr, hd⟩
      · intro heq
        simp only [List.take_succ_cons, List.map_cons, List.cons.injEq] at heq
        have := heq.1
        rw [lowerByte_digit c hd] at this
        subst this
        simp [isDigit] at hd
      · subst h46 hr
        intro heq
        simp only [List.take_succ_cons, List.map_cons, List.cons.injEq] at heq
        have := heq.2.1
        rw [lowerByte_digit d hd] at this
        exact h1 d hd (by simp [this])

theorem startsCi_lit (l : PlainLit) (hwf : l.WF) (kw : List Nat) (hkw : kw.length = 4)
    (h0 : kw.head? = some 46) (h1 : ∀ d, isDigit d = true → (kw.drop 1).head? ≠ some d) :
    startsCi l.body kw = false :=
  startsCi_head l.body kw hkw h0 h1 (body_head l hwf)

theorem tail_head_ne_colon (l : PlainLit) : ((l.fracBytes ++ l.expBytes).head? != some 58) = true := by
  rcases fracDigits_eq l with ⟨h1, _⟩ | h1
  · rw [h1, List.nil_append]
    rcases exp_head l with he | ⟨c, r, he, hc⟩
    · rw [he]; rfl
    · rw [he]; rcases hc with hc | hc <;> (subst hc; rfl)
  · rw [h1]; rfl

theorem trySexagesimal_lit (tag : Nat) (l : PlainLit) (hwf : l.WF) (pre : List Nat) (d : Nat) (tm : Bool) :
    trySexagesimal tag ⟨pre, l.body, d, tm⟩ = .ok none := by
  unfold trySexagesimal
  simp only []
  have hb : l.body = l.ip ++ (l.fracBytes ++ l.expBytes) := by simp [PlainLit.body]
  rw [hb, sexaLook_digits l.ip _ false false hwf.ip (stops_frac_exp l)]
  simp only [Bool.false_or, ite_self]
  by_cases hip : l.ip.isEmpty = true
  · simp [hip]
  · have : l.ip.isEmpty = false := by simpa using hip
    simp only [this, Bool.not_false, Bool.not_true, Bool.or_self, Bool.false_eq_true, ↓reduceIte]
    rw [if_pos (tail_head_ne_colon l)]

theorem numFrac_lit (l : PlainLit) (hwf : l.WF) (n1 : NumSt) (h : n1.rest = l.fracBytes ++ l.expBytes)
    (hcap : n1.seen + l.fracDigits.length ≤ MAX_NUM_DIGITS) :
    ∃ n2, numFrac n1 = .ok n2 ∧ n2.rest = l.expBytes ∧ n2.seen = n1.seen + l.fracDigits.length ∧
      n2.bufR = l.fracBytes.reverse ++ n1.bufR := by
  rcases fracDigits_eq l with ⟨h1, h2⟩ | h1
  · rw [h1, List.nil_append] at h
    refine ⟨n1, ?_, h, by rw [h2]; rfl, by rw [h1]; rfl⟩
    unfold numFrac
    rcases exp_head l with he | ⟨c, r, he, hc⟩
    · rw [h, he]
    · rw [h, he]
      rcases hc with hc | hc <;> (subst hc; rfl)
  · rw [h1] at h
    unfold numFrac
    rw [h]
    simp only [List.cons_append]
    rw [numLoop_digits _ l.fracDigits l.expBytes _ 0 n1.seen _ false hwf.fp (stops_exp l) hcap]
    exact ⟨_, rfl, rfl, rfl, by rw [h1]; simp⟩

theorem numExp_lit (l : PlainLit) (hwf : l.WF) (n2 : NumSt) (h : n2.rest = l.expBytes)
    (hcap : n2.seen + l.expDigits.length ≤ MAX_NUM_DIGITS) :
    ∃ n3, numExp n2 = .ok n3 ∧ n3.rest = [] ∧ n3.bufR = l.expBytes.reverse ++ n2.bufR := by
  unfold PlainLit.expBytes at h ⊢
  cases he : l.exp with
  | none =>
    rw [he] at h
    exact ⟨n2, by unfold numExp; rw [h], h, rfl⟩
  | some t =>
    obtain ⟨up, sg, ds⟩ := t
    rw [he] at h
    have hds : l.expDigits = ds := by simp [PlainLit.expDigits, he]
    have hd : Digits ds := by rw [← hds]; exact hwf.ed
    have hne : ds ≠ [] := by rw [← hds]; exact hwf.expNonempty (by simp [he])
    rw [hds] at hcap
    unfold numExp
    rw [h]
    have hc : ((if up = true then 69 else 101) == 101 || (if up = true then 69 else 101) == 69) = true := by
      cases up <;> rfl
    simp only [hc, ↓reduceIte]
    -- the marker and the optional sign
    have hem : (expMarker (if up = true then 69 else 101) n2.pre (signBytes sg ++ ds) n2.bufR).2 =
        (ds, (signBytes sg).reverse ++ (if up = true then 69 else 101) :: n2.bufR) := by
      cases sg with
      | none =>
        cases ds with
        | nil => exact absurd rfl hne
        | cons d r =>
          have hdd : isDigit d = true := hd d (List.mem_cons_self)
          have h1 : (d == 43 || d == 45) = false := by
            simp only [isDigit, Bool.and_eq_true, decide_eq_true_eq] at hdd
            simp only [Bool.or_eq_false_iff, beq_eq_false_iff_ne, ne_eq]
            omega
          simp [expMarker, signBytes, h1]
      | some b => cases b <;> simp [expMarker, signBytes]
    generalize expMarker (if up = true then 69 else 101) n2.pre (signBytes sg ++ ds) n2.bufR = em at hem ⊢
    obtain ⟨p', r', b'⟩ := em
    simp only [Prod.mk.injEq] at hem
    obtain ⟨hr', hb'⟩ := hem
    simp only [hr', hb']
    have := numLoop_digits RErr.underscoreExponent ds [] p' 0 n2.seen
      ((signBytes sg).reverse ++ (if up = true then 69 else 101) :: n2.bufR) false hd stops_nil hcap
    rw [List.append_nil] at this
    rw [this]
    have hemp : ds.isEmpty = false := by cases ds <;> simp_all
    simp only [hemp, Bool.not_false, Bool.or_true, Bool.not_true, Bool.false_eq_true, ↓reduceIte]
    refine ⟨_, rfl, rfl, ?_⟩
    simp [he]

/-- the literal without its sign -/
def unsigned (l : PlainLit) : PlainLit := { l with sign := none }

theorem unsigned_render (l : PlainLit) : (unsigned l).render = l.body := by
  simp [unsigned, PlainLit.render, PlainLit.body, signBytes, PlainLit.fracBytes, PlainLit.expBytes]

theorem unsigned_wf (l : PlainLit) (hwf : l.WF) : (unsigned l).WF :=
  ⟨hwf.ip, hwf.fp, hwf.ed, hwf.mant, hwf.expNonempty⟩

theorem parseNumberOrSpecial_lit (tag : Nat) (l : PlainLit) (hwf : l.WF) (hcap : l.digitCount ≤ MAX_NUM_DIGITS)
    (pre : List Nat) (d : Nat) (tm : Bool) :
    ∃ pre', parseNumberOrSpecial tag ⟨pre, l.body, d, tm⟩ =
      .ok (((unsigned l).value binary64, false, true), ⟨pre', [], d, tm⟩) := by
  unfold PlainLit.digitCount at hcap
  unfold parseNumberOrSpecial
  simp only []
  rw [startsCi_lit l hwf [46, 105, 110, 102] rfl rfl (by intro d hd h; cases h; simp [isDigit] at hd)]
  rw [startsCi_lit l hwf [46, 110, 97, 110] rfl rfl (by intro d hd h; cases h; simp [isDigit] at hd)]
  simp only [Bool.false_eq_true, ↓reduceIte]
  rw [trySexagesimal_lit tag l hwf]
  simp only [Res.bind]
  have hb : l.body = l.ip ++ (l.fracBytes ++ l.expBytes) := by simp [PlainLit.body]
  rw [hb, numLoop_digits _ l.ip _ pre 0 0 [] false hwf.ip (stops_frac_exp l) (by omega)]
  simp only [HRes.lift, Res.bind]
  obtain ⟨n2, hn2, h2r, h2s, h2b⟩ := numFrac_lit l hwf
    ⟨l.ip.reverse ++ pre, l.fracBytes ++ l.expBytes, 0 + l.ip.length, l.ip.reverse ++ [], false || !l.ip.isEmpty⟩ rfl
    (by simp only []; omega)
  rw [hn2]
  simp only [HRes.lift, Res.bind]
  obtain ⟨n3, hn3, h3r, h3b⟩ := numExp_lit l hwf n2 h2r (by rw [h2s]; simp only []; omega)
  rw [hn3]
  simp only [HRes.lift, Res.bind]
  have hbuf : n3.bufR.reverse = l.body := by
    rw [h3b, h2b]; simp [PlainLit.body]
  have hne : n3.bufR.isEmpty = false := by
    obtain ⟨c, r, hbd, _⟩ := body_head l hwf
    cases hbr : n3.bufR with
    | nil => rw [hbr] at hbuf; rw [← hbuf] at hbd; cases hbd
    | cons _ _ => rfl
  simp only [hne, Bool.false_eq_true, ↓reduceIte]
  rw [hbuf, ← unsigned_render l, fromStr_lit binary64 (unsigned l) (unsigned_wf l hwf)]
  exact ⟨n3.pre, by rw [h3r]⟩


theorem body_head_allowed (l : PlainLit) (hwf : l.WF) :
    ∃ c r, l.body = c :: r ∧ (isDigit c = true ∨ c = 46) ∧ isWs c = false := by
  obtain ⟨c, r, hb, hc⟩ := body_head l hwf
  have hall : allowed c = true := allowed_render l hwf c (by simp [PlainLit.render, hb])
  refine ⟨c, r, hb, ?_, (allowed_facts c (allowed_lt c hall) hall).2.2.2.2⟩
  rcases hc with h | ⟨h, _⟩
  · exact Or.inl h
  · exact Or.inr h

theorem primary_lit (tag : Nat) (E : St → Res (Eval × St)) (l : PlainLit) (hwf : l.WF)
    (hcap : l.digitCount ≤ MAX_NUM_DIGITS) (pre : List Nat) (d : Nat) (tm : Bool) :
    ∃ pre', primary tag E ⟨pre, l.body, d, tm⟩ =
      .ok (((unsigned l).value binary64, false, true), ⟨pre', [], d, tm⟩) := by
  obtain ⟨c, r, hb, hc, hw⟩ := body_head_allowed l hwf
  unfold primary
  simp only []
  rw [skipWs_noop _ (by intro c' r' h; simp only [] at h; rw [hb] at h; cases h; exact hw)]
  simp only []
  have hc40 : (c == 40) = false := by
    rcases hc with h | h
    · simp only [isDigit, Bool.and_eq_true, decide_eq_true_eq] at h
      simp only [beq_eq_false_iff_ne, ne_eq]; omega
    · subst h; rfl
  have hcd : (isDigit c || c == 46) = true := by
    rcases hc with h | h
    · simp [h]
    · subst h; rfl
  rw [hb]
  simp only [hc40, Bool.false_eq_true, ↓reduceIte, hcd]
  rw [← hb]
  exact parseNumberOrSpecial_lit tag l hwf hcap pre d tm

/-- `1.0` or `-1.0` according to the sign of the literal -/
def signFactor : Option Bool → Fl
  | some true => neg ONE
  | _ => ONE

theorem signLoop_lit (l : PlainLit) (hwf : l.WF) (pre : List Nat) :
    ∃ pre', signLoop pre l.render ONE = (pre', l.body, signFactor l.sign) := by
  obtain ⟨c, r, hb, hc, _⟩ := body_head_allowed l hwf
  have hc43 : (c == 43) = false ∧ (c == 45) = false := by
    rcases hc with h | h
    · simp only [isDigit, Bool.and_eq_true, decide_eq_true_eq] at h
      constructor <;> (simp only [beq_eq_false_iff_ne, ne_eq]; omega)
    · subst h; exact ⟨rfl, rfl⟩
  have base : ∀ p s, signLoop p l.body s = (p, l.body, s) := by
    intro p s
    rw [hb]
    simp [signLoop, hc43.1, hc43.2]
  unfold PlainLit.render
  cases hs : l.sign with
  | none => exact ⟨pre, by simpa [signBytes, signFactor] using base pre ONE⟩
  | some b =>
    cases b
    · refine ⟨43 :: pre, ?_⟩
      simp only [signBytes, List.cons_append, List.nil_append, signLoop, beq_self_eq_true, ↓reduceIte, signFactor]
      exact base _ _
    · refine ⟨45 :: pre, ?_⟩
      have e : ((45 : Nat) == 43) = false := rfl
      simp only [signBytes, List.cons_append, List.nil_append, signLoop, e, Bool.false_eq_true, ↓reduceIte,
        beq_self_eq_true, signFactor]
      exact base _ _

theorem render_head_ws (l : PlainLit) (hwf : l.WF) : ∀ c r, l.render = c :: r → isWs c = false := by
  intro c r h
  have hall : allowed c = true := allowed_render l hwf c (by rw [h]; exact List.mem_cons_self)
  exact (allowed_facts c (allowed_lt c hall) hall).2.2.2.2

theorem unary_lit (tag : Nat) (E : St → Res (Eval × St)) (l : PlainLit) (hwf : l.WF)
    (hcap : l.digitCount ≤ MAX_NUM_DIGITS) (pre : List Nat) (d : Nat) (tm : Bool) :
    ∃ pre', unary tag E ⟨pre, l.render, d, tm⟩ =
      .ok ((mul F (signFactor l.sign) ((unsigned l).value binary64), false, true), ⟨pre', [], d, tm⟩) := by
  unfold unary
  simp only []
  rw [skipWs_noop _ (by intro c r h; exact render_head_ws l hwf c r h)]
  simp only []
  obtain ⟨p1, hsl⟩ := signLoop_lit l hwf pre
  rw [hsl]
  simp only []
  obtain ⟨p2, hp⟩ := primary_lit tag E l hwf hcap p1 d tm
  rw [hp]
  exact ⟨p2, rfl⟩

theorem termLoop_nil (tag : Nat) (E : St → Res (Eval × St)) (k : Nat) (ev : Eval) (pre : List Nat) (d : Nat) (tm : Bool) :
    termLoop tag E (k + 1) ev ⟨pre, [], d, tm⟩ = .ok (ev, ⟨pre, [], d, tm⟩) := by
  obtain ⟨v, uu, sp⟩ := ev
  simp [termLoop, St.skipWs, skipWsL]

theorem exprLoop_nil (tag lf : Nat) (E : St → Res (Eval × St)) (k : Nat) (ev : Eval) (pre : List Nat) (d : Nat) (tm : Bool) :
    exprLoop tag lf E (k + 1) ev ⟨pre, [], d, tm⟩ = .ok (ev, ⟨pre, [], d, tm⟩) := by
  obtain ⟨v, uu, sp⟩ := ev
  simp [exprLoop, St.skipWs, skipWsL]

theorem expr_lit (tag lf n : Nat) (l : PlainLit) (hwf : l.WF)
    (hcap : l.digitCount ≤ MAX_NUM_DIGITS) (pre : List Nat) (d : Nat) (tm : Bool) :
    ∃ pre', expr tag (lf + 1) (n + 1) ⟨pre, l.render, d, tm⟩ =
      .ok ((mul F (signFactor l.sign) ((unsigned l).value binary64), false, true), ⟨pre', [], d, tm⟩) := by
  unfold expr term
  obtain ⟨p1, hu⟩ := unary_lit tag (expr tag (lf + 1) n) l hwf hcap pre d tm
  rw [hu]
  simp only [Res.bind, termLoop_nil, exprLoop_nil]
  exact ⟨p1, rfl⟩

theorem neg_ite (c : Prop) [Decidable c] (a b : Fl) : neg (if c then a else b) = if c then neg a else neg b := by
  split <;> rfl
theorem neg_fin (s : Bool) (m : Nat) (e : Int) : neg (.fin s m e) = .fin (!s) m e := rfl
theorem neg_inf (s : Bool) : neg (.inf s) = .inf (!s) := rfl

theorem neg_round (f : Fmt) (num den : Nat) : neg (round f false num den) = round f true num den := by
  unfold round
  simp only [neg_ite, neg_fin, neg_inf, Bool.not_false]

/-- `decRound` is one `round` of a fraction with non-zero denominator -/
theorem decRound_eq (f : Fmt) (mant nd : Nat) (x : Int) :
    ∃ a b, b ≠ 0 ∧ ∀ s, decRound f s mant nd x = round f s a b := by
  unfold decRound
  simp only []
  generalize (if (400 : Int) < x then (400 : Int) else if x < -((nd : Int) + 400) then -((nd : Int) + 400) else x) = y
  by_cases hy : 0 ≤ y
  · exact ⟨_, 1, by omega, fun s => by rw [if_pos hy]⟩
  · exact ⟨mant, 10 ^ (-y).toNat, Nat.ne_of_gt (Nat.pow_pos (by omega)), fun s => by rw [if_neg hy]⟩

theorem neg_decRound (f : Fmt) (mant nd : Nat) (x : Int) : neg (decRound f false mant nd x) = decRound f true mant nd x := by
  obtain ⟨a, b, _, h⟩ := decRound_eq f mant nd x
  rw [h false, h true, neg_round]

theorem decRound_wf64 (ng : Bool) (mant nd : Nat) (x : Int) : WF binary64 (decRound binary64 ng mant nd x) := by
  obtain ⟨a, b, hb, h⟩ := decRound_eq binary64 mant nd x
  rw [h ng]
  exact C19F.round_wf binary64 C19F.prec64 C19F.range64 _ _ _ hb

theorem signed_value (l : PlainLit) :
    mul F (signFactor l.sign) ((unsigned l).value binary64) = l.value binary64 := by
  have hwf := decRound_wf64 false (digitsVal (l.ip ++ l.fracDigits) 0) (l.ip.length + l.fracDigits.length)
    (l.expVal - (l.fracDigits.length : Int))
  have hu : (unsigned l).value binary64 = decRound binary64 false (digitsVal (l.ip ++ l.fracDigits) 0)
      (l.ip.length + l.fracDigits.length) (l.expVal - (l.fracDigits.length : Int)) := rfl
  rw [hu]
  unfold PlainLit.value
  cases hs : l.sign with
  | none => exact C19F.mul_one _ hwf
  | some b =>
    cases b
    · exact C19F.mul_one _ hwf
    · simp only [signFactor]
      rw [show ONE = ofNat binary64 1 from rfl, C19F.mul_neg_one _ hwf, neg_decRound]
      rfl

/-- (T) the evaluator on an ordinary literal: its exact value, correctly rounded — converted to radians
(one multiplication by `DEG2RAD`) under the `!degrees` tag. -/
theorem evalExpr_lit_any (tag : Nat) (l : PlainLit) (hwf : l.WF) (hcap : l.digitCount ≤ MAX_NUM_DIGITS) :
    evalExpr tag l.render =
      .ok (if tag == TAG_DEGREES then mul F (l.value binary64) DEG2RAD else l.value binary64) := by
  unfold evalExpr
  simp only []
  rw [skipWs_noop _ (by intro c r h; exact render_head_ws l hwf c r h)]
  obtain ⟨p1, he⟩ := expr_lit tag l.render.length MAX_EXPR_DEPTH l hwf hcap [] 0 true
  rw [he]
  simp [Res.bind, St.skipWs, skipWsL, signed_value]

theorem evalExpr_lit (tag : Nat) (htag : tag ≠ TAG_DEGREES) (l : PlainLit) (hwf : l.WF)
    (hcap : l.digitCount ≤ MAX_NUM_DIGITS) :
    evalExpr tag l.render = .ok (l.value binary64) := by
  rw [evalExpr_lit_any tag l hwf hcap]
  have ht : (tag == TAG_DEGREES) = false := by simpa using htag
  simp [ht]

end SaphyrVerif.Lemmas.C19L
