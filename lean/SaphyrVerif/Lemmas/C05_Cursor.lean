import SaphyrVerif.Spec.Interp
/-!
Helper lemmas for C05, part 1: the replay cursor on a buffer described by what is left at the cursor
(`buf.drop i = x :: tl`), error outcomes, nesting balance of event lists and of tree flattenings.
-/
namespace SaphyrVerif.Lemmas.C05
open SaphyrVerif SaphyrVerif.Scalars SaphyrVerif.Pump SaphyrVerif.De SaphyrVerif.Spec

/-! ### outcomes -/

/-- the result is some error -/
def IsErr {α : Type} (x : R α) : Prop := ∃ e c, x = .err e c

@[simp] theorem isErr_err {α : Type} (e : DErr) (c : Cur) : IsErr (R.err e c : R α) := ⟨e, c, rfl⟩
@[simp] theorem not_isErr_ok {α : Type} (a : α) (c : Cur) : ¬ IsErr (R.ok a c : R α) := by
  rintro ⟨e, c', h⟩; cases h

/-- the result of an `Except`-valued helper is some error -/
def IsErrE {α : Type} (x : Except DErr α) : Prop := ∃ e, x = .error e
@[simp] theorem isErrE_error {α : Type} (e : DErr) : IsErrE (Except.error e : Except DErr α) := ⟨e, rfl⟩
@[simp] theorem not_isErrE_ok {α : Type} (a : α) : ¬ IsErrE (Except.ok a : Except DErr α) := by
  rintro ⟨e, h⟩; cases h

/-- the result is exactly `.ok a c` when a value is expected, and some error otherwise -/
def Expect {α : Type} (x : R α) (exp : Option α) (c : Cur) : Prop :=
  match exp with
  | some a => x = .ok a c
  | none => IsErr x

@[simp] theorem expect_some {α : Type} (x : R α) (a : α) (c : Cur) : Expect x (some a) c ↔ x = .ok a c := Iff.rfl
@[simp] theorem expect_none {α : Type} (x : R α) (c : Cur) : Expect x none c ↔ IsErr x := Iff.rfl

theorem Expect.ok {α : Type} {x : R α} {exp : Option α} {c : Cur} (h : Expect x exp c) {a : α} (he : exp = some a) :
    x = .ok a c := by subst he; exact h
theorem Expect.err {α : Type} {x : R α} {exp : Option α} {c : Cur} (h : Expect x exp c) (he : exp = none) :
    IsErr x := by subst he; exact h

/-! ### lists: what is left at an index -/

theorem getElem?_of_drop {α : Type} {buf : List α} {i : Nat} {x : α} {tl : List α} (h : buf.drop i = x :: tl) :
    buf[i]? = some x := by
  have : (buf.drop i)[0]? = some x := by rw [h]; rfl
  simpa using this

theorem drop_succ_of_drop {α : Type} {buf : List α} {i : Nat} {x : α} {tl : List α} (h : buf.drop i = x :: tl) :
    buf.drop (i + 1) = tl := by
  have : (buf.drop i).drop 1 = tl := by rw [h]; rfl
  simpa [List.drop_drop] using this

theorem drop_add_of_drop {α : Type} {buf : List α} {i : Nat} {a r : List α} (h : buf.drop i = a ++ r) :
    buf.drop (i + a.length) = r := by
  have : (buf.drop i).drop a.length = r := by rw [h]; simp
  simpa [List.drop_drop] using this

theorem getElem?_of_drop_nil {α : Type} {buf : List α} {i : Nat} (h : buf.drop i = []) : buf[i]? = none := by
  have := List.drop_eq_nil_iff.mp h
  simp [this]

theorem lt_length_of_drop {α : Type} {buf : List α} {i : Nat} {x : α} {tl : List α} (h : buf.drop i = x :: tl) :
    i < buf.length := by
  have := getElem?_of_drop h
  exact (List.getElem?_eq_some_iff.mp this).1

/-- a buffer described by its rest at `i` is `take i ++ rest` -/
theorem eq_take_append_of_drop {α : Type} {buf : List α} {i : Nat} {r : List α} (h : buf.drop i = r) :
    buf = buf.take i ++ r := by
  rw [← h]; simp

/-! ### the replay cursor -/

theorem next_cons {buf : List Ev} {i : Nat} {x : Ev} {tl : List Ev} (ref : Option Loc) (h : buf.drop i = x :: tl) :
    Cur.next (.replay buf i ref) = .ok (some x) (.replay buf (i + 1) ref) := by
  simp [Cur.next, getElem?_of_drop h]

theorem peek_cons {buf : List Ev} {i : Nat} {x : Ev} {tl : List Ev} (ref : Option Loc) (h : buf.drop i = x :: tl) :
    Cur.peek (.replay buf i ref) = .ok (some x) (.replay buf i ref) := by
  simp [Cur.peek, getElem?_of_drop h]

theorem next_nil {buf : List Ev} {i : Nat} (ref : Option Loc) (h : buf.drop i = []) :
    Cur.next (.replay buf i ref) = .ok none (.replay buf i ref) := by
  simp [Cur.next, getElem?_of_drop_nil h]

theorem peek_nil {buf : List Ev} {i : Nat} (ref : Option Loc) (h : buf.drop i = []) :
    Cur.peek (.replay buf i ref) = .ok none (.replay buf i ref) := by
  simp [Cur.peek, getElem?_of_drop_nil h]

/-! ### first event of a flattened node -/

/-- an event that opens a node (not a container end) -/
def Ev.isOpen : Ev → Bool
  | .seqEnd _ | .mapEnd _ => false
  | _ => true

theorem eflatten_cons (t : ENode) : ∃ e tl, eflatten t = e :: tl ∧ Ev.isOpen e = true ∧ e.loc = t.loc := by
  cases t <;> simp [eflatten, Ev.isOpen, Ev.loc, ENode.loc]

theorem eflatten_length_pos (t : ENode) : 0 < (eflatten t).length := by
  obtain ⟨e, tl, h, -⟩ := eflatten_cons t
  simp [h]

@[simp] theorem eflattenL_nil : eflattenL [] = [] := by simp [eflattenL]
@[simp] theorem eflattenL_cons (n : ENode) (ns : List ENode) : eflattenL (n :: ns) = eflatten n ++ eflattenL ns := by
  simp [eflattenL]
@[simp] theorem eflattenE_nil : eflattenE [] = [] := by simp [eflattenE]
@[simp] theorem eflattenE_cons (k v : ENode) (es : List (ENode × ENode)) :
    eflattenE ((k, v) :: es) = eflatten k ++ eflatten v ++ eflattenE es := by
  simp [eflattenE]

/-! ### nesting balance -/

/-- contribution of one event to the nesting depth -/
def Ev.delta : Ev → Int
  | .seqStart .. | .mapStart .. => 1
  | .seqEnd _ | .mapEnd _ => -1
  | .scalar .. => 0

/-- number of container starts minus number of container ends -/
def bal : List Ev → Int
  | [] => 0
  | e :: es => Ev.delta e + bal es

@[simp] theorem bal_nil : bal [] = 0 := rfl
@[simp] theorem bal_cons (e : Ev) (es : List Ev) : bal (e :: es) = Ev.delta e + bal es := rfl
@[simp] theorem bal_append (a b : List Ev) : bal (a ++ b) = bal a + bal b := by
  induction a with
  | nil => simp
  | cons e a ih => simp [ih]; omega

/-- every prefix has balance at least `d` -/
def Floor (d : Int) (s : List Ev) : Prop := ∀ k, d ≤ bal (s.take k)

theorem Floor.nil {d : Int} (h : d ≤ 0) : Floor d [] := by intro k; simpa using h

theorem Floor.cons {d : Int} {e : Ev} {s : List Ev} (h0 : d ≤ 0) (h : Floor (d - Ev.delta e) s) : Floor d (e :: s) := by
  intro k
  cases k with
  | zero => simpa using h0
  | succ k => have := h k; simp; omega

theorem Floor.append {d d' : Int} {a b : List Ev} (ha : Floor d a) (hb : Floor d' b) (h : d ≤ bal a + d') :
    Floor d (a ++ b) := by
  intro k
  rw [List.take_append]
  have h1 := ha k
  have h2 := hb (k - a.length)
  by_cases hk : k ≤ a.length
  · have : k - a.length = 0 := by omega
    simp [this]; exact h1
  · have : a.take k = a := List.take_of_length_le (by omega)
    simp [this]; omega

theorem Floor.mono {d d' : Int} {s : List Ev} (h : Floor d s) (hd : d' ≤ d) : Floor d' s := fun k => by
  have := h k; omega

theorem Floor.bal_le {d : Int} {s : List Ev} (h : Floor d s) : d ≤ bal s := by
  have := h s.length; simpa using this

mutual
/-- a flattened node is balanced and never dips below its start -/
theorem eflatten_bal : ∀ t : ENode, bal (eflatten t) = 0 ∧ Floor 0 (eflatten t)
  | .scalar .. => by
    simp only [eflatten]
    refine ⟨by simp [Ev.delta], ?_⟩
    exact Floor.cons (by omega) (Floor.nil (by simp [Ev.delta]))
  | .seq _ _ _ _ _ items => by
    have ih := eflattenL_bal items
    simp only [eflatten]
    refine ⟨by simp [Ev.delta, ih.1], ?_⟩
    refine Floor.cons (by omega) ?_
    refine Floor.append (d' := -1) (ih.2.mono (by simp [Ev.delta])) ?_ (by simp [Ev.delta, ih.1])
    exact Floor.cons (by omega) (Floor.nil (by simp [Ev.delta]))
  | .map _ _ _ entries => by
    have ih := eflattenE_bal entries
    simp only [eflatten]
    refine ⟨by simp [Ev.delta, ih.1], ?_⟩
    refine Floor.cons (by omega) ?_
    refine Floor.append (d' := -1) (ih.2.mono (by simp [Ev.delta])) ?_ (by simp [Ev.delta, ih.1])
    exact Floor.cons (by omega) (Floor.nil (by simp [Ev.delta]))
theorem eflattenL_bal : ∀ ts : List ENode, bal (eflattenL ts) = 0 ∧ Floor 0 (eflattenL ts)
  | [] => by simp [Floor.nil]
  | t :: ts => by
    have h1 := eflatten_bal t
    have h2 := eflattenL_bal ts
    simp only [eflattenL_cons]
    exact ⟨by simp [h1.1, h2.1], Floor.append h1.2 h2.2 (by simp [h1.1])⟩
theorem eflattenE_bal : ∀ es : List (ENode × ENode), bal (eflattenE es) = 0 ∧ Floor 0 (eflattenE es)
  | [] => by simp [Floor.nil]
  | (k, v) :: es => by
    have h1 := eflatten_bal k
    have h2 := eflatten_bal v
    have h3 := eflattenE_bal es
    simp only [eflattenE_cons]
    exact ⟨by simp [h1.1, h2.1, h3.1],
      Floor.append (Floor.append h1.2 h2.2 (by simp [h1.1])) h3.2 (by simp [h1.1, h2.1])⟩
end

/-! ### nesting depth at a buffer position -/

/-- nesting depth before position `p` -/
def depthAt (buf : List Ev) (p : Nat) : Int := bal (buf.take p)

/-- every position between `i` and `j` (both included) has depth at least `d` -/
def Above (buf : List Ev) (i j : Nat) (d : Int) : Prop := ∀ p, i ≤ p → p ≤ j → d ≤ depthAt buf p

theorem Above.refl {buf : List Ev} {i : Nat} {d : Int} (h : d ≤ depthAt buf i) : Above buf i i d := by
  intro p h1 h2
  have : p = i := by omega
  subst this; exact h

theorem Above.trans {buf : List Ev} {i j k : Nat} {d : Int} (h1 : Above buf i j d) (h2 : Above buf j k d) :
    Above buf i k d := by
  intro p hp1 hp2
  by_cases h : p ≤ j
  · exact h1 p hp1 h
  · exact h2 p (by omega) hp2

theorem Above.mono {buf : List Ev} {i j : Nat} {d d' : Int} (h : Above buf i j d) (hd : d' ≤ d) : Above buf i j d' :=
  fun p h1 h2 => by have := h p h1 h2; omega

theorem Above.left {buf : List Ev} {i j : Nat} {d : Int} (h : Above buf i j d) (hij : i ≤ j) : d ≤ depthAt buf i :=
  h i (Nat.le_refl _) hij

theorem Above.right {buf : List Ev} {i j : Nat} {d : Int} (h : Above buf i j d) (hij : i ≤ j) : d ≤ depthAt buf j :=
  h j hij (Nat.le_refl _)

theorem depthAt_succ {buf : List Ev} {i : Nat} {x : Ev} {tl : List Ev} (h : buf.drop i = x :: tl) :
    depthAt buf (i + 1) = depthAt buf i + Ev.delta x := by
  have hx := getElem?_of_drop h
  have hlt := lt_length_of_drop h
  unfold depthAt
  rw [List.take_add_one, hx]
  simp

theorem depthAt_of_drop_nil {buf : List Ev} {i : Nat} (h : buf.drop i = []) (p : Nat) (hp : i ≤ p) :
    depthAt buf p = depthAt buf i := by
  have hl := List.drop_eq_nil_iff.mp h
  unfold depthAt
  rw [List.take_of_length_le (by omega), List.take_of_length_le hl]

/-- one `next` on the cursor -/
theorem Above.step {buf : List Ev} {i : Nat} {x : Ev} {tl : List Ev} {d : Int} (h : buf.drop i = x :: tl)
    (h0 : d ≤ depthAt buf i) (h1 : d ≤ depthAt buf i + Ev.delta x) : Above buf i (i + 1) d := by
  intro p hp1 hp2
  by_cases hp : p = i
  · subst hp; exact h0
  · have : p = i + 1 := by omega
    subst this; rw [depthAt_succ h]; exact h1

theorem depthAt_add {buf : List Ev} {i : Nat} {a r : List Ev} (h : buf.drop i = a ++ r) (k : Nat) (hk : k ≤ a.length) :
    depthAt buf (i + k) = depthAt buf i + bal (a.take k) := by
  unfold depthAt
  have hb := eq_take_append_of_drop h
  rcases Nat.lt_or_ge buf.length i with hlt | hi
  · have : buf.drop i = [] := List.drop_eq_nil_iff.mpr (by omega)
    rw [this] at h
    have : a = [] := by
      cases a with
      | nil => rfl
      | cons x a => simp at h
    subst this
    have hk0 : k = 0 := by simpa using hk
    subst hk0
    simp
  have hlen : (buf.take i).length = i := by simp [List.length_take]; omega
  conv => lhs; rw [hb]
  rw [List.take_append, hlen]
  have h1 : (buf.take i).take (i + k) = buf.take i := by
    rw [List.take_take]; congr 1; omega
  rw [h1, bal_append]
  have h2 : i + k - i = k := by omega
  rw [h2, List.take_append]
  have h3 : k - a.length = 0 := by omega
  simp [h3]

/-- a position at which a whole node (or any balanced, never-dipping segment) lies: the segment keeps the depth
at or above the start, and ends at the start depth -/
theorem Above.of_floor {buf : List Ev} {i : Nat} {a r : List Ev} (h : buf.drop i = a ++ r) (hf : Floor 0 a) :
    Above buf i (i + a.length) (depthAt buf i) := by
  intro p hp1 hp2
  have : p = i + (p - i) := by omega
  rw [this, depthAt_add h (p - i) (by omega)]
  have := hf (p - i)
  omega

theorem depthAt_node {buf : List Ev} {i : Nat} {a r : List Ev} (h : buf.drop i = a ++ r) (hb : bal a = 0) :
    depthAt buf (i + a.length) = depthAt buf i := by
  rw [depthAt_add h a.length (Nat.le_refl _)]
  simp [hb]

/-! ### strictly inside a node -/

/-- a proper non-empty prefix of a container's events has positive balance -/
theorem eflatten_prefix_pos (t : ENode) (k : Nat) (h0 : 0 < k) (hk : k < (eflatten t).length) :
    1 ≤ bal ((eflatten t).take k) := by
  obtain ⟨k, rfl⟩ : ∃ k', k = k' + 1 := ⟨k - 1, by omega⟩
  cases t with
  | scalar v tag rt st a l => simp [eflatten] at hk
  | seq a tag rt l el items =>
    simp only [eflatten, List.length_cons, List.length_append, List.length_nil] at hk
    simp only [eflatten, List.take_succ_cons, bal_cons, Ev.delta]
    have : (eflattenL items ++ [Ev.seqEnd el]).take k = (eflattenL items).take k := by
      rw [List.take_append]; simp; omega
    rw [this]
    have := (eflattenL_bal items).2 k
    omega
  | map a l el es =>
    simp only [eflatten, List.length_cons, List.length_append, List.length_nil] at hk
    simp only [eflatten, List.take_succ_cons, bal_cons, Ev.delta]
    have : (eflattenE es ++ [Ev.mapEnd el]).take k = (eflattenE es).take k := by
      rw [List.take_append]; simp; omega
    rw [this]
    have := (eflattenE_bal es).2 k
    omega

/-- positions strictly inside a node are deeper than its start -/
theorem depthAt_inside {buf : List Ev} {i : Nat} {t : ENode} {rest : List Ev} (h : buf.drop i = eflatten t ++ rest)
    {j : Nat} (h1 : i < j) (h2 : j < i + (eflatten t).length) : depthAt buf i + 1 ≤ depthAt buf j := by
  have : j = i + (j - i) := by omega
  rw [this, depthAt_add h (j - i) (by omega)]
  have := eflatten_prefix_pos t (j - i) (by omega) (by omega)
  omega

/-- a walk that stays at or above depth `d` cannot reach a later position of smaller depth -/
theorem Above.lt_of_depth {buf : List Ev} {j j' q : Nat} {d : Int} (h : Above buf j j' d) (hq : j ≤ q)
    (hd : depthAt buf q < d) : j' < q := by
  rcases Nat.lt_or_ge j' q with h1 | h1
  · exact h1
  · have := h q hq h1; omega

/-! ### outcomes of node-level calls -/

/-- outcome of a call started at index `i` of `buf` on a node of `L` events: exactly the expected value with the
cursor just after the node; or, when no value is expected, an error or — only if `df` (the target type contains a
tuple) — a stop strictly inside the node -/
def NodeOut {α : Type} (buf : List Ev) (ref : Option Loc) (i L : Nat) (df : Bool) (exp : Option α) (x : R α) : Prop :=
  match exp with
  | some v => x = .ok v (.replay buf (i + L) ref)
  | none => IsErr x ∨ (df = true ∧ ∃ v j, x = .ok v (.replay buf j ref) ∧ i < j ∧ j < i + L)

theorem NodeOut.mono {α : Type} {buf : List Ev} {ref : Option Loc} {i L : Nat} {df df' : Bool} {exp : Option α} {x : R α}
    (h : NodeOut buf ref i L df exp x) (hd : df = true → df' = true) : NodeOut buf ref i L df' exp x := by
  cases exp with
  | some v => exact h
  | none =>
    rcases h with h | ⟨h1, h2⟩
    · exact Or.inl h
    · exact Or.inr ⟨hd h1, h2⟩

/-- refinement of one position: on any buffer that has the events of `t` at the cursor, with enough fuel,
`deser` into `ty` behaves as `interp cfg ty t` prescribes -/
def Ref (df : Bool) (cfg : Cfg) (ty : Ty) (t : ENode) : Prop :=
  ∀ (buf : List Ev) (i : Nat) (ref : Option Loc) (rest : List Ev), buf.drop i = eflatten t ++ rest →
    ∃ n, ∀ fuel, n ≤ fuel →
      NodeOut buf ref i (eflatten t).length df (interp cfg ty t) (deser fuel cfg ty false false (.replay buf i ref))

theorem Ref.mono {df df' : Bool} {cfg : Cfg} {ty : Ty} {t : ENode} (h : Ref df cfg ty t) (hd : df = true → df' = true) :
    Ref df' cfg ty t := by
  intro buf i ref rest hb
  obtain ⟨n, hn⟩ := h buf i ref rest hb
  exact ⟨n, fun fuel hf => (hn fuel hf).mono hd⟩

end SaphyrVerif.Lemmas.C05
