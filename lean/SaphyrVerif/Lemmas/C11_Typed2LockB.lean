import SaphyrVerif.Lemmas.C11_Typed2LockDe
/-!
Lock-step simulation (twin of `Lemmas/E2EBudget*.lean`, see `Lemmas/C11_Typed2LockRel.lean`), part 5b: the merge machinery (`mergeSeqBatches`,
`pendingFromLive`, `collectEntriesFromMap`, `collectLoop`).  The reference locations handed down are the SAME
on both sides (`σ` keeps `reference_location`), so are the collected entries.
-/
namespace SaphyrVerif.Lemmas.Lock
open SaphyrVerif SaphyrVerif.Scalars SaphyrVerif.Pump SaphyrVerif.De

set_option linter.unusedSimpArgs false
set_option linter.unusedVariables false

variable {P : LP} (hcl : Closed P)
include hcl

theorem mergeSeqBatches_lkStep {fuel : Nat} (ih : LA P fuel) :
    ∀ b {c}, P.Inv c → LR P (De.mergeSeqBatches (fuel + 1) c b) (De.mergeSeqBatches (fuel + 1) (P.σ c) b) := by
  intro b c hi
  rw [De.mergeSeqBatches, De.mergeSeqBatches]
  lk_loop

theorem pendingFromLive_lkStep {fuel : Nat} (ih : LA P fuel) :
    ∀ r {c}, P.Inv c → LR P (De.pendingFromLive (fuel + 1) c r) (De.pendingFromLive (fuel + 1) (P.σ c) r) := by
  intro r c hi
  rw [De.pendingFromLive, De.pendingFromLive]
  lk_loop

theorem collectEntriesFromMap_lkStep {fuel : Nat} (ih : LA P fuel) :
    ∀ r {c}, P.Inv c →
      LR P (De.collectEntriesFromMap (fuel + 1) c r) (De.collectEntriesFromMap (fuel + 1) (P.σ c) r) := by
  intro r c hi
  rw [De.collectEntriesFromMap, De.collectEntriesFromMap]
  lk_loop

theorem collectLoop_lkStep {fuel : Nat} (ih : LA P fuel) :
    ∀ r f m {c}, P.Inv c → LR P (De.collectLoop (fuel + 1) c r f m) (De.collectLoop (fuel + 1) (P.σ c) r f m) := by
  intro r f m c hi
  rw [De.collectLoop, De.collectLoop]
  lk_loop

end SaphyrVerif.Lemmas.Lock
