import SaphyrVerif.Lemmas.C11_Typed2FailIter
/-!
Typed multi-document theorems (C11), continued — part 9: ONE failing document of a stream, from a document
boundary.  `iter_fail_docB`: if the pump alone, from the canonical start state, fails inside the document
(`FailRun`, e.g. established by the executable check `failCheck`), then the iterator in ANY stream, from ANY
document boundary (whatever the earlier documents were, with or without the per-document enforcer), makes on this
document exactly the rounds `soloRounds` computes on the document on its own, and yields exactly these items; it
then is finished, or — after an error item — recovers at the next document.
-/
namespace SaphyrVerif.Lemmas.C11B
open SaphyrVerif SaphyrVerif.Scalars SaphyrVerif.Pump SaphyrVerif.De SaphyrVerif.Spec SaphyrVerif.Budget SaphyrVerif.Entry
open SaphyrVerif.Lemmas.C11 (Doc)
open SaphyrVerif.Lemmas.C11T (J skipNeutral Item evIsNull peek_congr iterLoop_congr itemsOf_neutral nextImpl_suffix
  nextImpl_look nextImpl_event_lastLoc suffix_split)

theorem canon_sade (L : AliasLimits) (ob : Option Limits) (ls : Loc) : (canonStart L ob ls).stopAtDocEnd = false := rfl
theorem canon_look (L : AliasLimits) (ob : Option Limits) (ls : Loc) : (canonStart L ob ls).look = none := rfl

theorem canon_startB (L : AliasLimits) (ob : Option Limits) (ls : Loc)
    (hmax : ∀ lim, ob = some lim → 1 ≤ lim.maxEvents) : StartB L ob ls (canonStart L ob ls) :=
  ⟨hmax, rfl, rfl, rfl, rfl, rfl, rfl, rfl, rfl, rfl, rfl, rfl, rfl⟩

/-- inversion of a failing run -/
theorem FailRun.inv {X : List RawItem} {p : Pump} {A : List RawItem} {es : List Ev} (h : FailRun X p (A ++ X) es) :
    (∃ er p' A', nextImpl p (A ++ X) = (.error er, p', A' ++ X)) ∨
    (∃ e es' p' A', es = e :: es' ∧ nextImpl p (A ++ X) = (.event e, p', A' ++ X) ∧ FailRun X p' (A' ++ X) es') := by
  generalize hinp : A ++ X = inp at h
  cases h with
  | @err _ A0 er p' A' hn =>
    have hA : A = A0 := List.append_cancel_right hinp
    subst hA
    exact .inl ⟨er, p', A', hn⟩
  | @ev _ A0 e p' A' es' hn hr =>
    have hA : A = A0 := List.append_cancel_right hinp
    subst hA
    exact .inr ⟨e, es', p', A', rfl, hn, hr⟩

/-- the iterator at a start state in front of a failing document -/
theorem iter_fail_start {L : AliasLimits} {ob : Option Limits} (t : LNode) (ls le : Loc) (M X0 Y0 : List RawItem)
    (hM : M ≠ []) {es : List Ev}
    (hfail : FailRun M (canonStart L ob ls) (itemsOf t ++ M) es)
    (cfg : Cfg) (ty : Ty) (N : Nat) (r : Rounds)
    (hsolo : soloRounds cfg ty N (canonStart L ob ls) (itemsOf t ++ .ev .docEnd le :: Y0) = some r)
    {q1 : Pump} (hq1 : StartB L ob ls q1) :
    FailDesc L ob (.ev .docEnd le :: X0) cfg ty
      (fun m acc => iterLoop cfg ty (m + r.2.2) q1 (itemsOf t ++ .ev .docEnd le :: X0) acc) r := by
  have hXne : (RawItem.ev .docEnd le :: X0) ≠ [] := by simp
  have hYne : (RawItem.ev .docEnd le :: Y0) ≠ [] := by simp
  cases N with
  | zero => simp [soloRounds] at hsolo
  | succ n =>
    simp only [soloRounds] at hsolo
    have hq1eq := start_eq_canon hq1
    generalize q1.producedAny = a at hq1eq
    generalize q1.synthesizedNull = b at hq1eq
    have hst1 : StatB L ob q1 := hq1.statB
    have hJ1 : J (.ev .docEnd le :: X0) (itemsOf t ++ .ev .docEnd le :: X0) := ⟨itemsOf t, rfl, itemsOf_neutral t⟩
    rcases hfail.inv with ⟨er, p', A', hnC⟩ | ⟨e, es', p1, A', -, hnC, hrest⟩
    ·
      -- the solo side
      have hnS := nextImpl_swap M (.ev .docEnd le :: Y0) hM _ _ _ _ A' (canon_sade L ob ls) hnC
      have hpkS : Cur.peek (.live (canonStart L ob ls) (itemsOf t ++ .ev .docEnd le :: Y0)) =
          .err (ofPErr er) (.live p' (A' ++ .ev .docEnd le :: Y0)) := by
        simp [Cur.peek, Pump.peek, canon_look, hnS]
      rw [hpkS] at hsolo
      simp only [Option.some.injEq] at hsolo
      subst hsolo
      -- the stream side
      have hnL0 := nextImpl_flags a b M hM _ _ _ _ A' (canon_sade L ob ls) hnC
      rw [← hq1eq] at hnL0
      have hnL := nextImpl_swap M (.ev .docEnd le :: X0) hM _ _ _ _ A' hq1.sade hnL0
      refine failDesc_fin (fun m acc => ?_)
      show iterLoop cfg ty (m + 1) q1 _ acc = _
      simp [iterLoop, Cur.peek, Pump.peek, hq1.look, hnL]
    ·
      have hpa1 := nextImpl_event_produced hnC
      have hl1 : p1.look = none := by
        have := nextImpl_look (canonStart L ob ls) (itemsOf t ++ M)
        rw [hnC] at this
        exact this
      have hloc1 := nextImpl_event_lastLoc hnC
      have hs1 : p1.stopAtDocEnd = false := by
        have := (Lemmas.C11T.nextImpl_fixed (canonStart L ob ls) (itemsOf t ++ M)).2.2
        rw [hnC] at this
        exact this
      -- the solo side
      have hnS := nextImpl_swap M (.ev .docEnd le :: Y0) hM _ _ _ _ A' (canon_sade L ob ls) hnC
      have hpkS : Cur.peek (.live (canonStart L ob ls) (itemsOf t ++ .ev .docEnd le :: Y0)) =
          .ok (some e) (.live { p1 with look := some e, lastLoc := e.loc } (A' ++ .ev .docEnd le :: Y0)) := by
        simp [Cur.peek, Pump.peek, canon_look, hnS]
      rw [hpkS] at hsolo
      -- the stream side
      have hnL0 := nextImpl_flags a b M hM _ _ _ _ A' (canon_sade L ob ls) hnC
      rw [← hq1eq] at hnL0
      have hnL := nextImpl_swap M (.ev .docEnd le :: X0) hM _ _ _ _ A' hq1.sade hnL0
      simp only [adjFlags] at hnL
      rw [← withFlags_eq_syn hpa1 b] at hnL
      have hpkL : Cur.peek (.live q1 (itemsOf t ++ .ev .docEnd le :: X0)) =
          .ok (some e) (.live { (withFlags p1 true b) with look := some e, lastLoc := e.loc }
            (A' ++ .ev .docEnd le :: X0)) := by
        simp [Cur.peek, Pump.peek, hq1.look, hnL]
      -- the invariant of the stream cursor after the first `peek`
      have hst' : StatB L ob (withFlags p1 true b) := by
        have := nextImpl_statB hst1 (itemsOf t ++ .ev .docEnd le :: X0)
        rw [hnL] at this
        exact this
      have hJ' : J (.ev .docEnd le :: X0) (A' ++ .ev .docEnd le :: X0) := by
        have hsuf := nextImpl_suffix q1 (itemsOf t ++ .ev .docEnd le :: X0)
        rw [hnL] at hsuf
        exact hJ1.step hsuf (List.suffix_append _ _)
      have hrestX : FailRun (.ev .docEnd le :: X0) (withFlags p1 true b) (A' ++ .ev .docEnd le :: X0) es' :=
        failRun_flags hXne hs1 (failRun_swap hM hs1 hrest) true b
      have hI : FailInv L ob (.ev .docEnd le :: X0)
          (.live { (withFlags p1 true b) with look := some e, lastLoc := e.loc } (A' ++ .ev .docEnd le :: X0)) := by
        refine ⟨_, _, es', rfl, ⟨hst'.bud, hst'.rip, hst'.lim, hst'.sade⟩, hJ', rfl,
          .inr ⟨e, withFlags p1 true b, hl1, hloc1, ?_, hrestX⟩⟩
        cases p1
        simp_all [withFlags]
      have hσ : swapCur (.ev .docEnd le :: X0) (.ev .docEnd le :: Y0) p1.synthesizedNull
          (.live { (withFlags p1 true b) with look := some e, lastLoc := e.loc } (A' ++ .ev .docEnd le :: X0)) =
          .live { p1 with look := some e, lastLoc := e.loc } (A' ++ .ev .docEnd le :: Y0) := by
        simp only [swapCur, swapSuf_append]
        congr 1
        cases p1
        simp_all [withFlags]
      rw [← hσ] at hsolo
      exact tail_lock (.ev .docEnd le :: Y0) p1.synthesizedNull hXne cfg ty n
        (iter_lock (.ev .docEnd le :: Y0) p1.synthesizedNull hXne cfg ty n) hI r hsolo hpkL

/-- what the iterator does with a failing document of a stream: the items `r.1` of the rounds of the document on its
own; then it is finished (`r.2.1 = false`: the failure was met by its own `peek`; or the stream ends here), or it
stands — with a freshly reset per-document state — at the next document -/
def FailDocSpec (L : AliasLimits) (ob : Option Limits) (cfg : Cfg) (ty : Ty) (X0 : List RawItem)
    (F : Nat → List Item → List Item) (r : Rounds) : Prop :=
  (r.2.1 = false → ∀ m acc, F m acc = acc ++ r.1) ∧
  (r.2.1 = true →
    (∀ l1, X0 = [.ev .streamEnd l1] → ∀ m acc, F m acc = acc ++ r.1) ∧
    (∀ ex2 ls2 Z, X0 = .ev (.docStart ex2) ls2 :: Z → ∃ q4, StartB L ob ls2 q4 ∧ q4.producedAny = false ∧
      ∀ m acc, F m acc = iterLoop cfg ty m q4 Z (acc ++ r.1)))

/-- the iterator at a document boundary in front of a failing document -/
theorem iter_fail_docB {L : AliasLimits} {ob : Option Limits} (t : LNode) (ex : Bool) (ls le : Loc)
    (M X0 Y0 : List RawItem) (hM : M ≠ []) {es : List Ev}
    (hfail : FailRun M (canonStart L ob ls) (itemsOf t ++ M) es)
    (cfg : Cfg) (ty : Ty) (N : Nat) (r : Rounds)
    (hsolo : soloRounds cfg ty N (canonStart L ob ls) (itemsOf t ++ .ev .docEnd le :: Y0) = some r)
    {q : Pump} (hq : BoundaryB L ob q) (hl : q.look = none) :
    FailDocSpec L ob cfg ty X0
      (fun m acc => iterLoop cfg ty (m + r.2.2) q (.ev (.docStart ex) ls :: (itemsOf t ++ .ev .docEnd le :: X0)) acc) r := by
  obtain ⟨hq1, -⟩ := startB_start hq hl ls
  have hpk : Cur.peek (.live q (.ev (.docStart ex) ls :: (itemsOf t ++ .ev .docEnd le :: X0))) =
      Cur.peek (.live (startB ob q ls) (itemsOf t ++ .ev .docEnd le :: X0)) :=
    peek_congr hl hq1.look (step_docStartB hq ex ls _)
  obtain ⟨h1, h2⟩ := iter_fail_start t ls le M X0 Y0 hM hfail cfg ty N r hsolo hq1
  constructor
  · intro hf m acc
    exact (iterLoop_congr cfg ty hpk _ acc).trans (h1 hf m acc)
  · intro ht
    obtain ⟨q3, inq3, hst3, hJ3, heq⟩ := h2 ht
    obtain ⟨hfin, hnext⟩ := skip_from_docB hst3 hJ3
    constructor
    · intro l1 hX m acc
      have hf := hfin l1 hX
      show iterLoop cfg ty (m + r.2.2) q _ acc = _
      rw [iterLoop_congr cfg ty hpk]
      refine (heq m acc).trans ?_
      rcases hsk : skipToNextDocument q3 inq3 with ⟨found, p4, inp4⟩
      rw [hsk] at hf
      simp only at hf
      subst hf
      simp
    · intro ex2 ls2 Z hX
      obtain ⟨q4, hsk, hs4, hp4⟩ := hnext ex2 ls2 Z hX
      refine ⟨q4, hs4, hp4, fun m acc => ?_⟩
      show iterLoop cfg ty (m + r.2.2) q _ acc = _
      rw [iterLoop_congr cfg ty hpk]
      refine (heq m acc).trans ?_
      simp [hsk]

/-! ### an executable check: the pump alone fails inside the document -/

/-- run the pump: it must report an error within `fuel` events, and no call may read an item of `M` -/
def runFail (M : List RawItem) : Nat → Pump → List RawItem → Bool
  | 0, _, _ => false
  | fuel + 1, p, inp =>
    match nextImpl p inp with
    | (.error _, _, rest) => decide (M <:+ rest)
    | (.event _, p', rest) => decide (M <:+ rest) && runFail M fuel p' rest
    | _ => false

theorem runFail_sound (M : List RawItem) : ∀ (fuel : Nat) (p : Pump) (A : List RawItem),
    runFail M fuel p (A ++ M) = true → ∃ es, FailRun M p (A ++ M) es := by
  intro fuel
  induction fuel with
  | zero => intro p A h; simp [runFail] at h
  | succ n ih =>
    intro p A h
    simp only [runFail] at h
    rcases hn : nextImpl p (A ++ M) with ⟨s, p', rest⟩
    rw [hn] at h
    cases s with
    | error er =>
      simp only [decide_eq_true_eq] at h
      obtain ⟨A', rfl⟩ := h
      exact ⟨[], FailRun.err hn⟩
    | event e =>
      simp only [Bool.and_eq_true, decide_eq_true_eq] at h
      obtain ⟨⟨A', rfl⟩, h2⟩ := h
      obtain ⟨es, hes⟩ := ih p' A' h2
      exact ⟨e :: es, FailRun.ev hn hes⟩
    | eof => simp at h

/-- the pump with the optional per-document enforcer `ob`, from the canonical start state of the document, fails
before the end of the document -/
def failCheck (L : AliasLimits) (ob : Option Limits) (d : Doc) : Bool :=
  runFail [.ev .docEnd 0] ((itemsOf d.1).length * 64 + 64) (canonStart L ob d.2.2.1) (itemsOf d.1 ++ [.ev .docEnd 0])

theorem failRun_of_check {L : AliasLimits} {ob : Option Limits} {d : Doc} (h : failCheck L ob d = true) :
    ∃ es, FailRun [.ev .docEnd 0] (canonStart L ob d.2.2.1) (itemsOf d.1 ++ [.ev .docEnd 0]) es :=
  runFail_sound _ _ _ _ h

end SaphyrVerif.Lemmas.C11B
