import SaphyrVerif.Lemmas.C13_Safe
import SaphyrVerif.Lemmas.C13_Impl
/-!
C13 / C12 composition, part 3: the contracts for the crate's own scalar-text functions (`implFns`) on
ARBITRARY strings.  Tokens: whatever `serialize_str` (without block style), `KeyScalarSink::serialize_str`,
`write_plain_or_quoted` write (`genToks`).  Class of strings (`implPred`): every string for which
`serialize_str` does not select a block style automatically (any string under `quote_all`; otherwise no
line break and not longer than `folded_wrap_chars` when plain), every key, every variant name, unit variants
under `tagged_enums` (`!!Enum variant`, the enum name an ASCII identifier) — minus,
under `yaml_12`, the YAML 1.1 boolean words the option leaves plain (they read back as booleans: the
known residue, `yaml12_bool_word_counterexample`).
-/
set_option linter.unusedSimpArgs false
set_option linter.unusedVariables false
namespace SaphyrVerif.Emit
open SaphyrVerif

variable {o : Opts} {f : ScalarFns}

/-- the tokens the emitter writes for strings, whatever the scalar-text functions are -/
def genToks (o : Opts) (f : ScalarFns) : Toks :=
  Toks.ofStr (strTok o f) (keyStrText o f) (plainOrQuoted o f)
    (fun e n => if o.taggedEnums then '!' :: '!' :: e ++ ' ' :: plainOrQuotedValue o f false n else strTok o f n)

/-- a YAML 1.1 boolean word that `yaml_12` leaves plain in value position -/
def boolRisk (o : Opts) (s : List Char) : Bool := o.yaml12 && !o.quoteAll && isBoolWord s

/-- the strings of the composition theorem -/
def implPred (o : Opts) : LeafPred where
  str := fun s => !autoBlock o implFns s && !boolRisk o s
  key := fun s => !(o.yaml12 && isBoolWord s)
  name := fun s => !boolRisk o s
  unit := fun e n =>
    if o.taggedEnums then tagNameOk e && !boolRisk o n else !autoBlock o implFns n && !boolRisk o n

/-- the write contract holds by construction (for any scalar-text functions) -/
theorem gen_write (ho : FragOpts o) {P : LeafPred} (hs : ∀ s, P.str s = true → autoBlock o f s = false)
    (hu : ∀ e n, P.unit e n = true → o.taggedEnums = false → autoBlock o f n = false) :
    WriteContract o f P (genToks o f) :=
  WriteContract.ofTok ho (Toks.ofStr_isTok _ _ _ _)
  (fun s h st h1 h2 => serStr_token h1 h2 (hs s h))
  (fun e n h st h1 h2 => by
    cases ht : o.taggedEnums
    · rw [ser]
      simp only [ht, Bool.false_eq_true, if_false, genToks, Toks.ofStr_unit]
      rw [serStr_token h1 h2 (hu e n h ht)]
    · rw [ser_unit_tagged ht e n h2]
      simp [genToks, ht])
  (fun s _ => rfl)
  (fun n _ => rfl)

theorem impl_write (ho : FragOpts o) : WriteContract o implFns (implPred o) (genToks o implFns) :=
  gen_write ho (fun s h => by simp only [implPred, Bool.and_eq_true, Bool.not_eq_true'] at h; exact h.1)
    (fun e n h ht => by simp only [implPred, ht, Bool.false_eq_true, if_false, Bool.and_eq_true, Bool.not_eq_true'] at h; exact h.1)

/-! ### the read contract -/

theorem punct_tok {s : List Char} (h : (s == ['.'] || s == ['#'] || s == ['-']) = true) :
    ScalarTok ('\'' :: s ++ ['\'']) (.str s) := by
  simp only [Bool.or_eq_true, beq_iff_eq] at h
  rcases h with (rfl | rfl) | rfl
  · exact singleQuoted_scalarTok (s := ['.']) (by decide)
  · exact singleQuoted_scalarTok (s := ['#']) (by decide)
  · exact singleQuoted_scalarTok (s := ['-']) (by decide)

/-- whatever `write_plain_or_quoted_value` writes in block context is a scalar token for the string —
unless `yaml_12` leaves a boolean word plain -/
theorem pqv_scalarTok (s : List Char) (hb : boolRisk o s = false) :
    ScalarTok (plainOrQuotedValue o implFns false s) (.str s) := by
  unfold plainOrQuotedValue
  cases hq : o.quoteAll
  · simp only [Bool.false_eq_true, if_false]
    by_cases hp : (implFns.isPlainValueSafe s o.yaml12 false && !implFns.isUnsafePlainShape s) = true
    · rw [if_pos hp]
      simp only [Bool.and_eq_true, Bool.not_eq_true'] at hp
      refine (impl_plainVal hp.1 hp.2 (fun hy => ?_)).scalarTok
      simpa [boolRisk, hy, hq] using hb
    · rw [if_neg hp]; exact writeQuoted_scalarTok s
  · simp only [if_true]
    by_cases hd : needsDoubleQuotes s = true
    · rw [if_pos hd]; exact writeQuoted_scalarTok s
    · rw [if_neg hd]; exact singleQuoted_scalarTok (by simpa using hd)

/-- … and may follow a tag -/
theorem pqv_coreTok (s : List Char) (hb : boolRisk o s = false) :
    CoreTok (plainOrQuotedValue o implFns false s) (.str s) := by
  unfold plainOrQuotedValue
  cases hq : o.quoteAll
  · simp only [Bool.false_eq_true, if_false]
    by_cases hp : (implFns.isPlainValueSafe s o.yaml12 false && !implFns.isUnsafePlainShape s) = true
    · rw [if_pos hp]
      simp only [Bool.and_eq_true, Bool.not_eq_true'] at hp
      refine (impl_plainVal hp.1 hp.2 (fun hy => ?_)).coreTok
      simpa [boolRisk, hy, hq] using hb
    · rw [if_neg hp]; exact quoted_coreTok_dq (dq_body quotedChar_ok s)
  · simp only [if_true]
    by_cases hd : needsDoubleQuotes s = true
    · rw [if_pos hd]; exact quoted_coreTok_dq (dq_body quotedChar_ok s)
    · rw [if_neg hd]; exact singleQuoted_coreTok (by simpa using hd)

theorem strTok_scalarTok (s : List Char) (hb : boolRisk o s = false) : ScalarTok (strTok o implFns s) (.str s) := by
  unfold strTok
  by_cases hp : (s == ['.'] || s == ['#'] || s == ['-']) = true
  · rw [if_pos hp]; exact punct_tok hp
  · rw [if_neg hp]; exact pqv_scalarTok s hb

theorem keyStrText_keyTok (s : List Char) (hb : (o.yaml12 && isBoolWord s) = false) : KeyTok (keyStrText o implFns s) s := by
  unfold keyStrText
  by_cases hp : (implFns.isPlainSafe s && implFns.isPlainValueSafe s o.yaml12 true && !implFns.isUnsafePlainShape s) = true
  · rw [if_pos hp]
    simp only [Bool.and_eq_true, Bool.not_eq_true'] at hp
    refine (impl_plainKey hp.1.1 hp.1.2 hp.2 (fun hy => ?_)).keyTok
    simpa [hy] using hb
  · rw [if_neg hp]; exact keyQuoted_keyTok s

theorem plainOrQuoted_keyTok (s : List Char) (hb : boolRisk o s = false) : KeyTok (plainOrQuoted o implFns s) s := by
  unfold plainOrQuoted
  cases hq : o.quoteAll
  · simp only [Bool.false_eq_true, if_false]
    by_cases hp : (implFns.isPlainSafe s && implFns.isPlainValueSafe s o.yaml12 true && !implFns.isUnsafePlainShape s) = true
    · rw [if_pos hp]
      simp only [Bool.and_eq_true, Bool.not_eq_true'] at hp
      refine (impl_plainKey hp.1.1 hp.1.2 hp.2 (fun hy => ?_)).keyTok
      simpa [boolRisk, hy, hq] using hb
    · rw [if_neg hp]; exact writeQuoted_keyTok s
  · simp only [if_true]
    by_cases hd : needsDoubleQuotes s = true
    · rw [if_pos hd]; exact writeQuoted_keyTok s
    · rw [if_neg hd]; exact singleQuoted_keyTok (by simpa using hd)

/-- the reference reader takes the tokens of the crate's own scalar-text functions for the strings they
were written for -/
theorem impl_read (o : Opts) (k : Nat) : ReadContract (implPred o) (genToks o implFns) k :=
  ReadContract.ofTok (Toks.ofStr_isTok _ _ _ _)
  (fun s h => by
    simp only [implPred, Bool.and_eq_true, Bool.not_eq_true'] at h
    exact strTok_scalarTok s h.2)
  (fun e n h => by
    cases ht : o.taggedEnums
    · simp only [implPred, ht, Bool.false_eq_true, if_false, Bool.and_eq_true, Bool.not_eq_true'] at h
      simp only [genToks, ht, Bool.false_eq_true, if_false, Toks.ofStr_unit]
      exact strTok_scalarTok n h.2
    · simp only [implPred, ht, if_true, Bool.and_eq_true, Bool.not_eq_true'] at h
      simp only [genToks, ht, if_true, Toks.ofStr_unit]
      exact tagged_scalarTok h.1 (pqv_coreTok n h.2))
  (fun s h => by
    simp only [implPred, Bool.not_eq_true'] at h
    exact keyStrText_keyTok s h)
  (fun n h => by
    simp only [implPred, Bool.not_eq_true'] at h
    exact plainOrQuoted_keyTok n h)
  k

/-! ### a simpler class: single-line strings below the folding threshold -/

theorem keyOk_mono {P Q : LeafPred} (hk : ∀ s, P.key s = true → Q.key s = true) {k : SVal} (h : keyOk P k = true) :
    keyOk Q k = true := by
  obtain ⟨kt, rfl, hkt⟩ := keyOk_iff h
  simpa [keyOk, keyOf] using hk kt hkt

mutual
/-- the fragment is monotone in the class of strings -/
theorem inFragP_mono {P Q : LeafPred} (hs : ∀ s, P.str s = true → Q.str s = true) (hk : ∀ s, P.key s = true → Q.key s = true)
    (hn : ∀ s, P.name s = true → Q.name s = true) (hu : ∀ e n, P.unit e n = true → Q.unit e n = true) :
    ∀ (v : SVal), inFragP P v = true → inFragP Q v = true
  | .unit, _ => rfl
  | .none, _ => rfl
  | .bool _, _ => rfl
  | .int _, _ => rfl
  | .str s, h => by simp only [inFragP] at h ⊢; exact hs s h
  | .unitVariant e n, h => by simp only [inFragP] at h ⊢; exact hu e n h
  | .some v, h => by simp only [inFragP] at h ⊢; exact inFragP_mono hs hk hn hu v h
  | .newtypeStruct v, h => by simp only [inFragP] at h ⊢; exact inFragP_mono hs hk hn hu v h
  | .seq xs, h => by simp only [inFragP] at h ⊢; exact inFragListP_mono hs hk hn hu xs h
  | .tuple xs, h => by simp only [inFragP] at h ⊢; exact inFragListP_mono hs hk hn hu xs h
  | .tupleStruct xs, h => by simp only [inFragP] at h ⊢; exact inFragListP_mono hs hk hn hu xs h
  | .map _ es, h => by
    simp only [inFragP, Bool.and_eq_true] at h ⊢
    exact ⟨inFragEntriesP_mono hs hk hn hu es h.1, h.2⟩
  | .newtypeVariant n v, h => by
    simp only [inFragP, Bool.and_eq_true] at h ⊢
    exact ⟨hn n h.1, inFragP_mono hs hk hn hu v h.2⟩
  | .tupleVariant n xs, h => by
    simp only [inFragP, Bool.and_eq_true] at h ⊢
    exact ⟨hn n h.1, inFragListP_mono hs hk hn hu xs h.2⟩
  | .structVariant n fs, h => by
    simp only [inFragP, Bool.and_eq_true] at h ⊢
    exact ⟨hn n h.1, inFragEntriesP_mono hs hk hn hu fs h.2.1, h.2.2⟩
  | .flowSeq _, h => by simp [inFragP] at h
  | .flowMap _, h => by simp [inFragP] at h
  | .commented _ _, h => by simp [inFragP] at h
  | .spaceAfter _, h => by simp [inFragP] at h
  | .litStr _, h => by simp [inFragP] at h
  | .foldStr _, h => by simp [inFragP] at h
theorem inFragListP_mono {P Q : LeafPred} (hs : ∀ s, P.str s = true → Q.str s = true) (hk : ∀ s, P.key s = true → Q.key s = true)
    (hn : ∀ s, P.name s = true → Q.name s = true) (hu : ∀ e n, P.unit e n = true → Q.unit e n = true) :
    ∀ (xs : List SVal), inFragListP P xs = true → inFragListP Q xs = true
  | [], _ => rfl
  | x :: xs, h => by
    simp only [inFragListP, Bool.and_eq_true] at h ⊢
    exact ⟨inFragP_mono hs hk hn hu x h.1, inFragListP_mono hs hk hn hu xs h.2⟩
theorem inFragEntriesP_mono {P Q : LeafPred} (hs : ∀ s, P.str s = true → Q.str s = true) (hk : ∀ s, P.key s = true → Q.key s = true)
    (hn : ∀ s, P.name s = true → Q.name s = true) (hu : ∀ e n, P.unit e n = true → Q.unit e n = true) :
    ∀ (es : List (SVal × SVal)), inFragEntriesP P es = true → inFragEntriesP Q es = true
  | [], _ => rfl
  | (k, v) :: es, h => by
    simp only [inFragEntriesP, Bool.and_eq_true, Bool.or_eq_true] at h ⊢
    refine ⟨⟨?_, inFragP_mono hs hk hn hu v h.1.2⟩, inFragEntriesP_mono hs hk hn hu es h.2⟩
    rcases h.1.1 with h1 | h1
    · exact Or.inl (keyOk_mono hk h1)
    · exact Or.inr ⟨h1.1, inFragP_mono hs hk hn hu k h1.2⟩
end

/-- a string without line break that is not longer than `folded_wrap_chars` gets no block style -/
theorem autoBlock_line {s : List Char} (hnl : s.contains '\n' = false) (hl : s.length ≤ o.foldedWrapCol) :
    autoBlock o f s = false := by
  have hlen : ¬ (o.foldedWrapCol < s.length) := by omega
  have hnm : '\n' ∉ s := by simpa using hnl
  simp [autoBlock, hnm, hlen]

/-- ANY string without line breaks, not longer than `folded_wrap_chars` (as a leaf / unit variant name), ANY
string as a key or as the name of a variant with data; minus the boolean words `yaml_12` leaves plain; enum
names that are ASCII identifiers under `tagged_enums` -/
def lineStrPred (o : Opts) : LeafPred where
  str := fun s => !s.contains '\n' && decide (s.length ≤ o.foldedWrapCol) && !boolRisk o s
  key := fun s => !(o.yaml12 && isBoolWord s)
  name := fun s => !boolRisk o s
  unit := fun e n => (!o.taggedEnums || tagNameOk e) && (!n.contains '\n' && decide (n.length ≤ o.foldedWrapCol) && !boolRisk o n)

theorem lineStr_impl {v : SVal} (h : inFragP (lineStrPred o) v = true) : inFragP (implPred o) v = true := by
  refine inFragP_mono (P := lineStrPred o) (Q := implPred o) ?_ (fun _ h => h) (fun _ h => h) ?_ v h
  · intro s hs
    simp only [lineStrPred, Bool.and_eq_true, Bool.not_eq_true', decide_eq_true_eq] at hs
    simp [implPred, autoBlock_line hs.1.1 hs.1.2, hs.2]
  · intro e n hs
    simp only [lineStrPred, Bool.and_eq_true, Bool.or_eq_true, Bool.not_eq_true', decide_eq_true_eq] at hs
    cases ht : o.taggedEnums
    · simp [implPred, ht, autoBlock_line hs.2.1.1 hs.2.1.2, hs.2.2]
    · have := hs.1
      simp only [ht, Bool.true_eq_false, false_or] at this
      simp [implPred, ht, this, hs.2.2]

end SaphyrVerif.Emit
