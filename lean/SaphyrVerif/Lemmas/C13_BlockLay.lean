import SaphyrVerif.Lemmas.C13_Compose
import SaphyrVerif.Lemmas.C20_Lit
/-!
C13 / C12 composition, block scalars, part 1: the LAYOUT of a string leaf that `serialize_str` writes as a
block scalar (`|` literal for strings with line breaks, `>` folded for long single-line strings), position by
position, and the texts `blkToks` of ALL strings: plain / quoted token, or header + body lines.

For a leaf whose parent (the key of `key:`, the `- ` / `? ` / `: ` indicator) stands at column `c`
(`StrPos.val c` / `StrPos.item c`; the root has no parent) and `indent_step = k`:

* the body stands at column `N = c + k` (`k` at the root): `bodyCol`;
* header: `|` or `>`, the indentation indicator (the digit `N`) when the first non-empty line starts with a
  blank, the chomping indicator (`-` no trailing line break, nothing for one, `+` for more);
* literal body: one line per content line, written after `N` blanks (a blank content line keeps its blanks);
  the lines beyond the first trailing line break as empty lines;
* folded body: the lines `write_folded_block` writes;
* the emitter gives the block style up (`blockFallback`) and writes `write_plain_or_quoted_value` where the
  indicator would be needed under a parent that is not at column 0 or would exceed 9, in an inline sequence
  under `indent_step 1` (`- - |`), and for control characters other than LF / TAB.
-/
namespace SaphyrVerif.Emit
open SaphyrVerif

/-- the line of the body of a block scalar for the content line `x`, written after `N` blanks: the leading
blanks of `x` count as indentation -/
def bodyLineAt (N : Nat) (x : List Char) : Line := ⟨N + (x.takeWhile (· == ' ')).length, x.dropWhile (· == ' ')⟩

/-- the lines of a text that ends with a line break (the text `write_folded_block` writes) -/
def textLines (t : List Char) : List Line := ((splitNl t).dropLast).map mkLine

/-- `needs_indicator`: the first non-empty content line starts with a blank -/
def needsInd (s : List Char) : Bool := decide (firstLineLeadingSpaces (trimEndNl s) > 0)

/-- `has_controls`: a control character other than LF / TAB -/
def hasCtl (s : List Char) : Bool := s.any fun c => isControl c && c != '\n' && c != '\t'

/-- number of trailing line breaks -/
def trailNl (s : List Char) : Nat := s.length - (trimEndNl s).length

/-- the indentation indicator of a block scalar header -/
def indChars (ni : Bool) (N : Nat) : List Char := if ni then [Char.ofNat (48 + N)] else []

/-- the column of the body of a block scalar -/
def bodyCol (k : Nat) : StrPos → Nat
  | .val c => c + k
  | .item c => c + k
  | .root => k

/-- the column of the parent node (0 at the root) -/
def parentCol : StrPos → Nat
  | .val c => c
  | .item c => c
  | .root => 0

/-- does `serialize_str` give the block style up in this position (and write a plain / quoted scalar)?
`needs_indicator && (indent_n > 9 || base > 0) || shallow_inline_seq || has_controls`, with `base > 0` ⟺ the
parent is not at column 0 -/
def blockFallback (k : Nat) (pos : StrPos) (s : List Char) : Bool :=
  (needsInd s && (decide (bodyCol k pos > 9) || decide (parentCol pos > 0))) ||
  (match pos with
   | .item c => decide (k < 2) && decide (c > 0)
   | _ => false) ||
  hasCtl s

/-- header of a block scalar: `|` / `>`, indentation indicator, chomping indicator -/
def blockHdr (ind : Char) (N : Nat) (s : List Char) : List Char :=
  ind :: (indChars (needsInd s) N ++ chompChars (trailNl s))

/-- a literal block scalar with the body at column `N`: header, body lines -/
def litLeaf (N : Nat) (s : List Char) : List Char × List Line :=
  (blockHdr '|' N s, (litLines s).map (bodyLineAt N))

/-- a folded block scalar with the body at column `N`: header, the lines `write_folded_block` writes -/
def foldLeaf (N wrap : Nat) (s : List Char) : List Char × List Line :=
  (blockHdr '>' N s, textLines (foldedBlock s N 1 wrap))

/-- what `serialize_str` writes for ANY string in a position: the text on the line of the leaf and the lines
after it -/
def blkStr (o : Opts) (f : ScalarFns) (k : Nat) (pos : StrPos) (s : List Char) : List Char × List Line :=
  if autoBlock o f s then
    if blockFallback k pos s then (plainOrQuotedValue o f false s, [])
    else if s.contains '\n' then litLeaf (bodyCol k pos) s
    else foldLeaf (bodyCol k pos) o.foldedWrapCol s
  else (strTok o f s, [])

/-- what `serialize_unit_variant` writes: under `tagged_enums` the token `!!Enum variant`, otherwise whatever
`serialize_str` writes for the variant name in this position -/
def blkUnit (o : Opts) (f : ScalarFns) (k : Nat) (pos : StrPos) (e n : List Char) : List Char × List Line :=
  if o.taggedEnums then ('!' :: '!' :: e ++ ' ' :: plainOrQuotedValue o f false n, []) else blkStr o f k pos n

/-- the texts the emitter writes for strings, block scalars included -/
def blkToks (o : Opts) (f : ScalarFns) : Toks :=
  ⟨blkStr o f, keyStrText o f, plainOrQuoted o f, blkUnit o f⟩

/-- the strings of the composition theorem with block scalars: EVERY string as a leaf, as a mapping key, as the
name of a variant with data, as the name of a unit variant — except, under `yaml_12`, the YAML 1.1 boolean words the
option leaves plain; under `tagged_enums` the enum name of a unit variant must be able to stand in a tag -/
def allStrPred (o : Opts) : LeafPred where
  str := fun s => !boolRisk o s
  key := (implPred o).key
  name := (implPred o).name
  unit := fun e n => (!o.taggedEnums || tagNameOk e) && !boolRisk o n

/-! ### the layout at work -/

example : blkStr { foldedWrapCol := 3 } implFns 2 (.val 0) "a\nb\n".toList =
    ("|".toList, [⟨2, "a".toList⟩, ⟨2, "b".toList⟩]) := by decide +kernel
example : blkStr { foldedWrapCol := 3 } implFns 2 (.val 4) " a\n\n  b\n\n\n".toList =
    ("\" a\\n\\n  b\\n\\n\\n\"".toList, []) := by decide +kernel
example : blkStr { foldedWrapCol := 3 } implFns 3 (.item 0) " a\n\n  b\n\n\n".toList =
    ("|3+".toList, [⟨4, "a".toList⟩, ⟨3, []⟩, ⟨5, "b".toList⟩, ⟨3, []⟩, ⟨3, []⟩]) := by decide +kernel
example : blkStr { foldedWrapCol := 3 } implFns 1 (.item 2) "a\nb".toList = ("\"a\\nb\"".toList, []) := by decide +kernel
example : blkStr { foldedWrapCol := 4 } implFns 2 .root "aa bb  cc ".toList =
    (">-".toList, [⟨2, "aa".toList⟩, ⟨2, "bb ".toList⟩, ⟨2, "cc ".toList⟩]) := by decide +kernel

end SaphyrVerif.Emit
