import SaphyrVerif.Model.IoCell
import SaphyrVerif.Lemmas.C09
/-! Helper lemmas for C10: the bookkeeping of the error cell, the writer adapter, the byte cap. -/
namespace SaphyrVerif.Lemmas.C10
open SaphyrVerif SaphyrVerif.Scalars SaphyrVerif.Pump SaphyrVerif.Reader SaphyrVerif.IoCell SaphyrVerif.Lemmas.C09

/-! ### the cell -/

theorem fire_fields (s : Src) : s.fire.pump = s.pump ∧ s.fire.input = s.input ∧ s.fire.total = s.total := by
  unfold Src.fire
  simp only []
  split <;> simp

/-- firing never empties the cell, and whenever it raises `everSet` the cell is set -/
theorem fire_cell (s : Src) :
    (s.cell.isSome = true → s.fire.cell.isSome = true) ∧
    (s.fire.everSet = true → s.everSet = true ∨ s.fire.cell.isSome = true) ∧
    (s.everSet = true → s.fire.everSet = true) := by
  unfold Src.fire
  simp only []
  split
  · simp; exact fun h => Or.inl h
  · simp

/-- `K d s`: if the cell was ever set, it is still set (nobody has taken it) — or `d` -/
def K (d : Bool) (s : Src) : Prop := s.everSet = true → s.cell.isSome = true ∨ d = true

/-- an observation point that does not return `Err` leaves `K` intact: a pending error cannot slip by -/
theorem doOp_K {d : Bool} {s s' : Src} {o : COp} {r : R} (hk : K d s) (h : s.doOp o = (r, s')) (hr : r.isErr = false) :
    K d s' := by
  cases o with
  | next =>
    simp only [Src.doOp, Src.next] at h
    cases hc : s.cell with
    | some k => simp [hc] at h; rw [← h.1] at hr; simp [R.isErr] at hr
    | none =>
      simp only [hc] at h
      have h2 := congrArg Prod.snd h
      simp only at h2
      subst h2
      intro hev
      rcases (fire_cell _).2.1 hev with h1 | h1
      · have := hk h1
        simp [hc] at this
        exact Or.inr this
      · exact Or.inl h1
  | peek =>
    simp only [Src.doOp, Src.peek] at h
    cases hc : s.cell with
    | some k => simp [hc] at h; rw [← h.1] at hr; simp [R.isErr] at hr
    | none =>
      simp only [hc] at h
      have h2 := congrArg Prod.snd h
      simp only at h2
      subst h2
      intro hev
      rcases (fire_cell _).2.1 hev with h1 | h1
      · have := hk h1
        simp [hc] at this
        exact Or.inr this
      · exact Or.inl h1

/-- with an empty cell an observation point keeps `K` whatever it returns -/
theorem doOp_K_none {d : Bool} {s : Src} (o : COp) (hc : s.cell = none) (hk : K d s) : K d (s.doOp o).2 := by
  cases o with
  | next =>
    simp only [Src.doOp, Src.next, hc]
    intro hev
    rcases (fire_cell _).2.1 hev with h1 | h1
    · have := hk h1
      simp [hc] at this
      exact Or.inr this
    · exact Or.inl h1
  | peek =>
    simp only [Src.doOp, Src.peek, hc]
    intro hev
    rcases (fire_cell _).2.1 hev with h1 | h1
    · have := hk h1
      simp [hc] at this
      exact Or.inr this
    · exact Or.inl h1

/-- with a pending error an observation point returns it -/
theorem doOp_some {s : Src} (o : COp) {k : IoKind} (hc : s.cell = some k) :
    s.doOp o = (.err (.io k), { s with cell := none }) := by
  cases o <;> simp [Src.doOp, Src.next, Src.peek, hc]

theorem finishTail_surfaces {s : Src} (hk : K false s) :
    (finishTail s).2.everSet = true → (finishTail s).1 ≠ .ok := by
  unfold finishTail Src.finish
  cases hc : s.cell with
  | some k => simp
  | none =>
    simp only []
    cases hf : (Pump.finish s.pump).1 with
    | some e => simp
    | none =>
      simp
      cases h : s.everSet with
      | false => rfl
      | true =>
        have := hk h
        simp [hc] at this

/-- the consumer phase: if it ends with `Ok(value)` no error is pending unseen (`K`) -/
theorem runClient_K (c : Client) : ∀ (fuel : Nat) (hist : List Ev) (s s1 : Src) (d : Bool),
    K d s → runClient c fuel hist s = (none, s1) → K d s1 := by
  intro fuel
  induction fuel with
  | zero => intro hist s s1 d _ h; simp [runClient] at h
  | succ fuel ih =>
    intro hist s s1 d hk h
    simp only [runClient] at h
    split at h
    · simp at h; subst h; exact hk
    · simp at h
    · rename_i o _
      cases hop : s.doOp o with
      | mk r s' =>
        rw [hop] at h
        cases r with
        | event e =>
          simp only at h
          exact ih (e :: hist) s' s1 d (doOp_K hk hop (by simp [R.isErr])) h
        | none => simp at h
        | err e => simp at h

/-- what one `ReadIter::next` call guarantees: it yields an `Err` item, or no error is pending unseen -/
def Good : Option Item × Iter → Prop
  | (some (.err _), _) => True
  | (some .ok, it') => it'.finished = false ∧ K false it'.src
  | (none, it') => K false it'.src ∧ it'.src.cell = none

theorem iterNext_spec (c : Client) : ∀ (fuel : Nat) (it : Iter), it.finished = false → K false it.src →
    Good (iterNext c fuel it) := by
  intro fuel
  induction fuel with
  | zero => intro it _ _; simp [iterNext, Good]
  | succ fuel ih =>
    intro it hf hk
    simp only [iterNext, hf]
    cases hc : it.src.cell with
    | some k =>
      have hp : it.src.peek = (.err (.io k), { it.src with cell := none }) := doOp_some .peek hc
      simp [hp, Good]
    | none =>
      have hk2 : K false it.src.peek.2 := doOp_K_none .peek hc hk
      cases hpk : it.src.peek with
      | mk r s =>
        rw [hpk] at hk2
        cases r with
        | event ev =>
          simp only [Bool.false_eq_true, if_false]
          by_cases hnull : isNullishScalar ev = true
          · -- null-like document: consumed with `next`; an error there is returned
            simp only [hnull, if_true]
            cases hn : s.next with
            | mk r2 s' =>
              cases r2 with
              | err e => simp [Good]
              | event e2 =>
                simp only []
                exact ih _ rfl (doOp_K (o := .next) hk2 hn (by simp [R.isErr]))
              | none =>
                simp only []
                exact ih _ rfl (doOp_K (o := .next) hk2 hn (by simp [R.isErr]))
          · simp only [hnull, if_false]
            by_cases hend : isContainerEnd ev = true
            · simp [hend, Good]
            · simp only [hend, if_false]
              cases hrc : runClient c fuel [] s with
              | mk res s' =>
                cases res with
                | none =>
                  simp only [Good]
                  exact ⟨rfl, runClient_K c fuel [] s s' _ hk2 hrc⟩
                | some e => simp [Good]
        | none =>
          simp only [Bool.false_eq_true, if_false]
          unfold Src.finish
          cases hc2 : s.cell with
          | some k => simp [Good]
          | none =>
            simp only []
            cases hfin : (Pump.finish s.pump).1 with
            | some e => simp [Good]
            | none =>
              simp only [Option.map_none, Good]
              refine ⟨?_, trivial⟩
              intro h
              have := hk2 h
              simpa [hc2] using this
        | err e => simp [Good]

/-! ### writer adapter -/

/-- `write_all` hands the target a prefix of the buffer (all of it when it succeeds) and never touches
`last_err` -/
theorem writeAll_spec (fuel : Nat) (buf : List Nat) (w : W) :
    (writeAll fuel buf w).2.lastErr = w.lastErr ∧
    ∃ took rest, buf = took ++ rest ∧ (writeAll fuel buf w).2.written = w.written ++ took ∧
      ((writeAll fuel buf w).1 = none → rest = []) := by
  fun_induction writeAll fuel buf w
  case case1 buf w => exact ⟨rfl, buf, [], by simp, rfl, fun _ => rfl⟩
  case case2 fuel buf w hb =>
    have : buf = [] := by simpa using hb
    exact ⟨rfl, [], [], by simp [this], by simp, fun _ => rfl⟩
  case case3 fuel buf w hb hs => exact ⟨rfl, buf, [], by simp, rfl, fun _ => rfl⟩
  case case4 fuel buf w hb k rest hs hk ih =>
    obtain ⟨h1, took, r, h2, h3, h4⟩ := ih
    exact ⟨h1, took, r, h2, h3, h4⟩
  case case5 fuel buf w hb k rest hs hk =>
    exact ⟨rfl, [], buf, by simp, by simp, fun h => by simp at h⟩
  case case6 fuel buf w hb n rest hs hz =>
    exact ⟨rfl, [], buf, by simp, by simp, fun h => by simp at h⟩
  case case7 fuel buf w hb n rest hs hz ih =>
    obtain ⟨h1, took, r, h2, h3, h4⟩ := ih
    refine ⟨h1, buf.take n ++ took, r, ?_, ?_, h4⟩
    · rw [List.append_assoc, ← h2, List.take_append_drop]
    · rw [h3]; simp

theorem writeStr_false {chunk : List Nat} {w w' : W} (h : writeStr chunk w = (false, w')) :
    w'.written = w.written ++ chunk ∧ w'.lastErr = w.lastErr := by
  unfold writeStr at h
  obtain ⟨h1, took, rest, h2, h3, h4⟩ := writeAll_spec (w.sched.length + 1) chunk w
  cases hr : writeAll (w.sched.length + 1) chunk w with
  | mk e w1 =>
    rw [hr] at h h1 h3 h4
    cases e with
    | none =>
      simp only [Prod.mk.injEq, true_and] at h
      subst h
      have := h4 rfl
      subst this
      simp only [List.append_nil] at h2
      subst h2
      exact ⟨h3, h1⟩
    | some k => simp at h

theorem writeStr_true {chunk : List Nat} {w w' : W} (h : writeStr chunk w = (true, w')) :
    (∃ took rest, chunk = took ++ rest ∧ w'.written = w.written ++ took) ∧ w'.lastErr.isSome = true := by
  unfold writeStr at h
  obtain ⟨h1, took, rest, h2, h3, h4⟩ := writeAll_spec (w.sched.length + 1) chunk w
  cases hr : writeAll (w.sched.length + 1) chunk w with
  | mk e w1 =>
    rw [hr] at h h1 h3 h4
    cases e with
    | none => simp at h
    | some k =>
      simp only [Prod.mk.injEq, true_and] at h
      subst h
      exact ⟨⟨took, rest, h2, h3⟩, rfl⟩

theorem emitChunks_spec : ∀ (chunks : List (List Nat)) (w w' : W) (f : Bool), emitChunks chunks w = (f, w') →
    (f = false → w'.written = w.written ++ chunks.flatten ∧ w'.lastErr = w.lastErr) ∧
    (f = true → (∃ rest, w.written ++ chunks.flatten = w'.written ++ rest) ∧ w'.lastErr.isSome = true) := by
  intro chunks
  induction chunks with
  | nil =>
    intro w w' f h
    simp only [emitChunks, Prod.mk.injEq] at h
    obtain ⟨rfl, rfl⟩ := h
    simp
  | cons c cs ih =>
    intro w w' f h
    simp only [emitChunks] at h
    cases hw : writeStr c w with
    | mk f1 w1 =>
      rw [hw] at h
      cases f1 with
      | true =>
        simp only [Prod.mk.injEq] at h
        obtain ⟨rfl, rfl⟩ := h
        obtain ⟨⟨took, rest, h1, h2⟩, h3⟩ := writeStr_true hw
        refine ⟨fun h => by simp at h, fun _ => ⟨⟨rest ++ cs.flatten, ?_⟩, h3⟩⟩
        simp [h2, h1]
      | false =>
        simp only at h
        obtain ⟨h1, h2⟩ := writeStr_false hw
        have := ih w1 w' f h
        constructor
        · intro hf
          obtain ⟨a, b⟩ := this.1 hf
          exact ⟨by rw [a, h1]; simp, by rw [b, h2]⟩
        · intro hf
          obtain ⟨⟨rest, a⟩, b⟩ := this.2 hf
          exact ⟨⟨rest, by rw [← a, h1]; simp⟩, b⟩

/-! ### byte cap of `ChunkedChars` -/

theorem needed_le {b n : Nat} (h : needed b = some n) : 1 ≤ n ∧ n ≤ 4 := by
  unfold needed at h
  split at h
  · cases h; omega
  · split at h
    · cases h; omega
    · split at h
      · cases h; omega
      · split at h
        · cases h; omega
        · cases h

theorem readCall_len {n : Nat} {s s' : Sched} {bs : List Nat} (h : readCall n s = (.ok bs, s')) : bs.length ≤ n := by
  cases s with
  | nil => simp [readCall] at h; rw [h.1]; simp
  | cons it rest =>
    cases it with
    | fail k => simp [readCall] at h
    | data d =>
      simp only [readCall] at h
      split at h
      · simp at h; rw [← h.1]; assumption
      · simp at h; rw [← h.1]; simp; omega

/-- bytes obtained by the continuation loop: exactly `rem` more when it completes, at most `rem` otherwise -/
theorem contLoopF_got : ∀ (fuel rem : Nat) (acc : List Nat) (s : Sched), rem ≤ fuel →
    match (contLoopF fuel rem acc s).1 with
    | .done got => got.length = acc.length + rem
    | .eof got => got.length ≤ acc.length + rem
    | .err _ got => got.length ≤ acc.length + rem := by
  intro fuel
  induction fuel with
  | zero =>
    intro rem acc s h
    have : rem = 0 := by omega
    subst this
    simp [contLoopF]
  | succ fuel ih =>
    intro rem acc s h
    simp only [contLoopF]
    by_cases h0 : (rem == 0) = true
    · have : rem = 0 := by simpa using h0
      simp [this]
    · simp only [h0]
      cases hr : readCall rem s with
      | mk r s' =>
        cases r with
        | err k => simp
        | ok bs =>
          cases bs with
          | nil => simp
          | cons b bs =>
            simp only []
            have hl := readCall_len hr
            simp at hl
            have := ih (rem - (bs.length + 1)) (acc ++ b :: bs) s' (by omega)
            cases hres : contLoopF fuel (rem - (bs.length + 1)) (acc ++ b :: bs) s' with
            | mk res s2 =>
              rw [hres] at this
              cases res <;> simp at this ⊢ <;> omega

/-- one `next` call: a produced character accounts for exactly its bytes in `pulled` and `total_bytes`
and respects the cap; a `None` pulls at most 4 bytes -/
theorem next_pull (cc : CC) :
    (Reader.nextChar cc).2.maxBytes = cc.maxBytes ∧
    (∀ c, (Reader.nextChar cc).1 = some c →
      ∃ n, n ≤ 4 ∧ (Reader.nextChar cc).2.pulled = cc.pulled + n ∧ (Reader.nextChar cc).2.totalBytes = cc.totalBytes + n ∧
        (∀ cap, cc.maxBytes = some cap → (Reader.nextChar cc).2.totalBytes ≤ cap)) ∧
    ((Reader.nextChar cc).1 = none → (Reader.nextChar cc).2.pulled ≤ cc.pulled + 4) := by
  unfold Reader.nextChar
  cases h1 : readFirst cc.reader with
  | mk r1 s1 =>
    cases r1 with
    | eof => simp
    | err k => simp
    | byte first =>
      simp only []
      cases hn : needed first with
      | none => simp
      | some n =>
        simp only []
        obtain ⟨hn1, hn4⟩ := needed_le hn
        have hg := contLoopF_got (n - 1) (n - 1) [] s1 (Nat.le_refl _)
        unfold contLoop
        cases hc : contLoopF (n - 1) (n - 1) [] s1 with
        | mk r2 s2 =>
          rw [hc] at hg
          cases r2 with
          | eof got => simp at hg ⊢; omega
          | err k got => simp at hg ⊢; omega
          | done got =>
            simp at hg
            simp only []
            cases hm : cc.maxBytes with
            | none =>
              simp only []
              cases hd : decode1 (first :: got) with
              | none => simp [hm]; omega
              | some c =>
                simp
                omega
            | some limit =>
              simp only []
              by_cases hlim : cc.totalBytes + n > limit
              · simp [hlim, hm]; omega
              · simp only [hlim, if_false]
                cases hd : decode1 (first :: got) with
                | none => simp [hm]; omega
                | some c =>
                  simp
                  exact ⟨n, hn4, by omega, rfl, by omega⟩

/-! ### inputs no larger than the cap -/

/-- `total_bytes` never runs ahead of the bytes pulled, and pulled + still-to-come is constant -/
def CapInv (L : Nat) (cc : CC) : Prop := cc.totalBytes ≤ cc.pulled ∧ cc.pulled + (flat cc.reader).length = L

/-- with at most `cap` bytes in the whole stream the cap branch of `next` is never taken: the call behaves
as without a cap -/
theorem next_cap_free (cc : CC) (cap L : Nat) (hi : CapInv L cc) (hL : L ≤ cap) (hm : cc.maxBytes = some cap) :
    (Reader.nextChar cc).1 = (Reader.nextChar { cc with maxBytes := none }).1 ∧
    (Reader.nextChar cc).2 = { (Reader.nextChar { cc with maxBytes := none }).2 with maxBytes := some cap } ∧
    CapInv L (Reader.nextChar cc).2 := by
  obtain ⟨mb, tb, rd, cell, pulled⟩ := cc
  simp only at hm
  subst hm
  obtain ⟨hi1, hi2⟩ := hi
  simp only at hi1 hi2
  have hfl := readFirst_flat rd
  unfold Reader.nextChar
  simp only []
  cases h1 : readFirst rd with
  | mk r1 s1 =>
    rw [h1] at hfl
    cases r1 with
    | eof =>
      have hflx : flat s1 = flat rd := by
        have := readFirst_flat_err rd (by rw [h1]; simp)
        rw [h1] at this; exact this
      simp [CapInv, hflx, hi1, hi2]
    | err k =>
      have hflx : flat s1 = flat rd := by
        have := readFirst_flat_err rd (by rw [h1]; simp)
        rw [h1] at this; exact this
      simp [CapInv, hflx, hi1, hi2]
    | byte first =>
      have hfl1 := hfl first rfl
      simp only [] at hfl1 ⊢
      have hlen1 : (flat rd).length = (flat s1).length + 1 := by rw [hfl1]; simp
      cases hn : needed first with
      | none =>
        simp [CapInv]
        omega
      | some n =>
        simp only []
        obtain ⟨hn1, hn4⟩ := needed_le hn
        have hg := contLoopF_got (n - 1) (n - 1) [] s1 (Nat.le_refl _)
        obtain ⟨x, hx1, hx2⟩ := contLoopF_flat (n - 1) (n - 1) [] s1
        unfold contLoop
        cases hc : contLoopF (n - 1) (n - 1) [] s1 with
        | mk r2 s2 =>
          rw [hc] at hg hx1 hx2
          cases r2 with
          | eof got =>
            simp [contGot] at hx1 hx2 ⊢
            subst hx1
            have : (flat s1).length = got.length + (flat s2).length := by rw [hx2]; simp
            simp [CapInv]
            omega
          | err k got =>
            simp [contGot] at hx1 hx2 ⊢
            subst hx1
            have : (flat s1).length = got.length + (flat s2).length := by rw [hx2]; simp
            simp [CapInv]
            omega
          | done got =>
            simp [contGot] at hx1 hx2 hg ⊢
            subst hx1
            have hl2 : (flat s1).length = got.length + (flat s2).length := by rw [hx2]; simp
            have hnb : ¬ (tb + n > cap) := by omega
            simp only [hnb, if_false]
            cases hd : decode1 (first :: got) with
            | none => simp [CapInv]; omega
            | some c => simp [CapInv]; omega

/-! ### the same at the level of `next` (with the synthetic line break of fix bfd6267) -/

theorem noteChar_with_maxBytes (x : CC) (m : Option Nat) (c : Char) :
    noteChar { x with maxBytes := m } c = { noteChar x c with maxBytes := m } := by
  unfold noteChar
  by_cases h1 : (x.atLineStart && c != Char.ofNat 0xFEFF) = true <;>
    by_cases h2 : (c == '\n' || c == '\r') = true <;> simp [h1, h2]

/-- one `next` call: the cap setting is kept, at most one code point is pulled, `total_bytes` stays under the cap -/
theorem next_pull' (cc : CC) :
    (Reader.next cc).2.maxBytes = cc.maxBytes ∧ (Reader.next cc).2.pulled ≤ cc.pulled + 4 ∧
    (∀ cap, cc.maxBytes = some cap → cc.totalBytes ≤ cap → (Reader.next cc).2.totalBytes ≤ cap) := by
  obtain ⟨h1, h2, h3⟩ := next_pull cc
  unfold Reader.next
  cases hn : nextChar cc with
  | mk r cc' =>
    rw [hn] at h1 h2 h3
    cases r with
    | some c =>
      obtain ⟨n, n4, a, b, d⟩ := h2 c rfl
      simp only at a b d h1 ⊢
      refine ⟨by simpa using h1, by simp; omega, fun cap hm _ => by simpa using d cap hm⟩
    | none =>
      have hp := h3 rfl
      -- a `None` of `next_char` never raises `total_bytes` above the cap
      have ht : ∀ cap, cc.maxBytes = some cap → cc.totalBytes ≤ cap → cc'.totalBytes ≤ cap := by
        intro cap hm hle
        have := congrArg Prod.snd hn
        simp only at this
        rw [← this]
        unfold nextChar
        cases hr : readFirst cc.reader with
        | mk r1 s1 =>
          cases r1 with
          | eof => simpa using hle
          | err k => simpa using hle
          | byte first =>
            simp only []
            cases hnd : needed first with
            | none => simpa using hle
            | some m =>
              simp only []
              cases hc : contLoop (m - 1) [] s1 with
              | mk r2 s2 =>
                cases r2 with
                | eof got => simpa using hle
                | err k got => simpa using hle
                | done got =>
                  simp only [hm]
                  by_cases hl : cc.totalBytes + m > cap
                  · simp [hl]; exact hle
                  · simp only [hl, if_false]
                    cases hd : decode1 (first :: got) <;> simp <;> omega
      simp only at h1 hp ⊢
      split
      · exact ⟨h1, hp, ht⟩
      · exact ⟨h1, hp, ht⟩

/-- how often `next_char` gave up (`None`) during a run of `next` -/
def giveUps : Nat → CC → Nat
  | 0, _ => 0
  | fuel + 1, cc =>
    match nextChar cc with
    | (some c, cc') => giveUps fuel (noteChar cc' c)
    | (none, cc') => if cc'.inDirectiveLine then 1 + giveUps fuel { cc' with inDirectiveLine := false, atLineStart := true } else 1

/-- every byte pulled is accounted in `total_bytes` or belongs to one of the at most 4-byte sequences on which
`next_char` gave up -/
theorem pull_invariant : ∀ (fuel : Nat) (cc : CC),
    (collect fuel cc).2.pulled + cc.totalBytes ≤ cc.pulled + (collect fuel cc).2.totalBytes + 4 * giveUps fuel cc := by
  intro fuel
  induction fuel with
  | zero => intro cc; simp [collect, giveUps]
  | succ fuel ih =>
    intro cc
    obtain ⟨_, h2, h3⟩ := next_pull cc
    simp only [collect, giveUps, Reader.next]
    cases hn : nextChar cc with
    | mk r cc' =>
      rw [hn] at h2 h3
      cases r with
      | some c =>
        obtain ⟨n, _, a, b, _⟩ := h2 c rfl
        have := ih (noteChar cc' c)
        simp only at a b this ⊢
        simp at this
        omega
      | none =>
        have hp := h3 rfl
        -- `total_bytes` never decreases
        have hmono : cc.totalBytes ≤ cc'.totalBytes := by
          have := congrArg Prod.snd hn
          simp only at this
          rw [← this]
          unfold nextChar
          cases hr : readFirst cc.reader with
          | mk r1 s1 =>
            cases r1 with
            | eof => simp
            | err k => simp
            | byte first =>
              simp only []
              cases hnd : needed first with
              | none => simp
              | some m =>
                simp only []
                cases hc : contLoop (m - 1) [] s1 with
                | mk r2 s2 =>
                  cases r2 with
                  | eof got => simp
                  | err k got => simp
                  | done got =>
                    simp only []
                    cases hmb : cc.maxBytes with
                    | none => simp only []; cases hd : decode1 (first :: got) <;> simp
                    | some lim =>
                      simp only []
                      by_cases hl : cc.totalBytes + m > lim
                      · simp [hl]
                      · simp only [hl, if_false]; cases hd : decode1 (first :: got) <;> simp
        simp only at hp ⊢
        by_cases hd : cc'.inDirectiveLine = true
        · simp only [hd, if_true]
          have := ih { cc' with inDirectiveLine := false, atLineStart := true }
          simp only at this ⊢
          omega
        · simp only [hd, Bool.false_eq_true, if_false]
          omega

/-- with at most `cap` bytes in the whole stream `next` behaves as without a cap -/
theorem next_cap_free' (cc : CC) (cap L : Nat) (hi : CapInv L cc) (hL : L ≤ cap) (hm : cc.maxBytes = some cap) :
    (Reader.next cc).1 = (Reader.next { cc with maxBytes := none }).1 ∧
    (Reader.next cc).2 = { (Reader.next { cc with maxBytes := none }).2 with maxBytes := some cap } ∧
    CapInv L (Reader.next cc).2 := by
  obtain ⟨h1, h2, h3⟩ := next_cap_free cc cap L hi hL hm
  unfold Reader.next
  cases hn : nextChar cc with
  | mk r cc' =>
    cases hn0 : nextChar { cc with maxBytes := none } with
    | mk r0 cc0' =>
      rw [hn, hn0] at h1 h2
      rw [hn] at h3
      simp only at h1 h2 h3
      subst h1
      subst h2
      cases r with
      | some c =>
        simp only []
        refine ⟨trivial, ?_, ?_⟩
        · rw [noteChar_with_maxBytes]
        · unfold CapInv at h3 ⊢
          simpa using h3
      | none =>
        simp only []
        by_cases hd : cc0'.inDirectiveLine = true
        · simp [hd]
          unfold CapInv at h3 ⊢
          simpa using h3
        · simp [hd]
          exact h3

end SaphyrVerif.Lemmas.C10
