import SaphyrVerif.Lemmas.C11_TypedFam
/-!
Typed multi-document theorems (C11), part 5d: the frame step for the map access (`nextKey`, `nextValue`)
and the two entry loops.  The cursor is only touched while the access is not flushing merged entries and no
recorded value is pending; the position facts come from `Lemmas.C05.nextKey_post` / `nextValue_weak'`.
-/
namespace SaphyrVerif.Lemmas.Frame
open SaphyrVerif SaphyrVerif.Scalars SaphyrVerif.Pump SaphyrVerif.De
open SaphyrVerif.Lemmas.C05 (Ev.delta Stays Above NKPost)
open SaphyrVerif.Lemmas.CurSim (PL PLL MRel KM VM EV)

set_option linter.unusedSimpArgs false
set_option linter.unusedVariables false

variable {K : Ctx}

/-- where `nextKey` leaves the replay cursor when it delivers a key -/
theorem nextKey_moved {fuel : Nat} {cfg : Cfg} {ks : Ty ⊕ Unit} {c c' d : Cur} {m m1 : MA} {k : Val} {fp : FP}
    (hs : FSim K c c') (h : nextKey fuel cfg ks c m = .ok (.key k fp, m1) d)
    (hpre : m.flushingMerges = false → 1 ≤ dep K c) :
    (m1.pendingValue.isSome = false → 1 ≤ dep K d) ∧ (m1.flushingMerges = false → 1 ≤ dep K d) := by
  have h' := h
  rw [hs.eq] at h'
  obtain ⟨j, hd, hij, hA, hB⟩ := Lemmas.C05.nextKey_post fuel h'
  subst hd
  cases hfl : m.flushingMerges with
  | true =>
    obtain ⟨-, hx⟩ := hA hfl
    rcases hx with hx | ⟨h1, h2⟩
    · cases hx
    · exact ⟨fun h => (by rw [h2] at h; cases h), fun h => (by rw [h1] at h; cases h)⟩
  | false =>
    rcases hB hfl with ⟨-, ha⟩ | ⟨-, hx⟩
    · have := ha.right hij
      have h1 := hpre hfl
      have : 1 ≤ dep K (.replay K.buf j K.ref) := by
        show 1 ≤ Lemmas.C05.depthAt K.buf j
        unfold dep at h1
        omega
      exact ⟨fun _ => this, fun _ => this⟩
    · rcases hx with hx | ⟨h1, h2⟩
      · cases hx
      · exact ⟨fun h => (by rw [h2] at h; cases h), fun h => (by rw [h1] at h; cases h)⟩

/-- where `nextValue` leaves the replay cursor -/
theorem nextValue_moved {fuel : Nat} {cfg : Cfg} {vt : Ty} {c c' d : Cur} {m m2 : MA} {v : Val}
    (hs : FSim K c c') (h : nextValue fuel cfg vt c m = .ok (v, m2) d)
    (hfl : m.flushingMerges = false → 1 ≤ dep K c) :
    m2.flushingMerges = false → 1 ≤ dep K d := by
  have h' := h
  rw [hs.eq] at h'
  obtain ⟨⟨j, hd, hij, ha⟩, hm, -⟩ := Lemmas.C05.nextValue_weak' h'
  subst hd
  intro h2
  have h1 := hfl (hm ▸ h2)
  have := ha.right hij
  show 1 ≤ Lemmas.C05.depthAt K.buf j
  unfold dep at h1
  omega

theorem mapEntries_frStep {fuel : Nat} (ih : FrA K fuel) :
    ∀ cfg kt vt acc {c c' m m'}, FSim K c c' → (m.flushingMerges = false → 1 ≤ dep K c) → MRel m m' →
      RF K Eq (De.mapEntries (fuel + 1) cfg kt vt c m acc) (De.mapEntries (fuel + 1) cfg kt vt c' m' acc) := by
  intro cfg kt vt acc c c' m m' hs hpre hm
  rw [De.mapEntries, De.mapEntries]
  have hk := ih.nextKey cfg (.inl kt) hs hpre hm
  cases hL : nextKey fuel cfg (.inl kt) c m with
  | err e d =>
    obtain ⟨e', d', hR, hs'⟩ := hk.fwd_err hL
    rw [hR]
    exact RF.err hs'
  | ok r d =>
    obtain ⟨step, m1⟩ := r
    obtain ⟨⟨step', m1'⟩, d', hR, ⟨hst, hm1⟩, hs1⟩ := hk.fwd_ok hL
    simp only at hst hm1
    subst hst
    rw [hR]
    cases step with
    | done => exact RF.ok rfl hs1
    | key k fp =>
      simp only []
      obtain ⟨hmv1, hmv2⟩ := nextKey_moved hs hL hpre
      have hv := ih.nextValue cfg vt hs1 hmv1 hm1
      cases hL2 : nextValue fuel cfg vt d m1 with
      | err e d2 =>
        obtain ⟨e', d2', hR2, hs2⟩ := hv.fwd_err hL2
        rw [hR2]
        exact RF.err hs2
      | ok r2 d2 =>
        obtain ⟨v, m2⟩ := r2
        obtain ⟨⟨v', m2'⟩, d2', hR2, ⟨hv1, hm2⟩, hs2⟩ := hv.fwd_ok hL2
        simp only at hv1 hm2
        subst hv1
        rw [hR2]
        exact ih.mapEntries cfg kt vt _ hs2 (nextValue_moved hs1 hL2 hmv2) hm2

theorem structEntries_frStep {fuel : Nat} (ih : FrA K fuel) :
    ∀ cfg fields deny acc {c c' m m'}, FSim K c c' → (m.flushingMerges = false → 1 ≤ dep K c) → MRel m m' →
      RF K Eq (De.structEntries (fuel + 1) cfg fields deny c m acc)
        (De.structEntries (fuel + 1) cfg fields deny c' m' acc) := by
  intro cfg fields deny acc c c' m m' hs hpre hm
  rw [De.structEntries, De.structEntries]
  have hk := ih.nextKey cfg (.inr ()) hs hpre hm
  cases hL : nextKey fuel cfg (.inr ()) c m with
  | err e d =>
    obtain ⟨e', d', hR, hs'⟩ := hk.fwd_err hL
    rw [hR]
    exact RF.err hs'
  | ok r d =>
    obtain ⟨step, m1⟩ := r
    obtain ⟨⟨step', m1'⟩, d', hR, ⟨hst, hm1⟩, hs1⟩ := hk.fwd_ok hL
    simp only at hst hm1
    subst hst
    rw [hR]
    cases step with
    | done => exact RF.ok rfl hs1
    | key k fp =>
      obtain ⟨hmv1, hmv2⟩ := nextKey_moved hs hL hpre
      -- the value (of the field's type, or ignored), then the rest of the loop
      have hval : ∀ (t : Ty) (F : Val → List (String × Val)),
          RF K Eq
            (match nextValue fuel cfg t d m1 with
              | .err e c => .err e c
              | .ok (v, m) c => De.structEntries fuel cfg fields deny c m (F v))
            (match nextValue fuel cfg t d' m1' with
              | .err e c => .err e c
              | .ok (v, m) c => De.structEntries fuel cfg fields deny c m (F v)) := by
        intro t F
        have hv := ih.nextValue cfg t hs1 hmv1 hm1
        cases hL2 : nextValue fuel cfg t d m1 with
        | err e d2 =>
          obtain ⟨e', d2', hR2, hs2⟩ := hv.fwd_err hL2
          rw [hR2]
          exact RF.err hs2
        | ok r2 d2 =>
          obtain ⟨v, m2⟩ := r2
          obtain ⟨⟨v', m2'⟩, d2', hR2, ⟨hv1, hm2⟩, hs2⟩ := hv.fwd_ok hL2
          simp only at hv1 hm2
          subst hv1
          rw [hR2]
          exact ih.structEntries cfg fields deny _ hs2 (nextValue_moved hs1 hL2 hmv2) hm2
      cases k with
      | str name =>
        simp only []
        cases hlf : lookupField fields name with
        | some p =>
          obtain ⟨i, t⟩ := p
          simp only []
          split
          · exact RF.err hs1
          · exact hval t (fun v => acc ++ [(String.ofList name, v)])
        | none =>
          simp only []
          split
          · exact RF.err hs1
          · exact hval .any (fun _ => acc)
      | _ => exact RF.err hs1


theorem nextValue_frStep {fuel : Nat} (ih : FrA K fuel) :
    ∀ cfg vt {c c' m m'}, FSim K c c' → (m.pendingValue.isSome = false → 1 ≤ dep K c) → MRel m m' →
      RF K VM (De.nextValue (fuel + 1) cfg vt c m) (De.nextValue (fuel + 1) cfg vt c' m') := by
  intro cfg vt c c' m m' hs hpre hm
  have ihS := CurSim.simA fuel
  obtain ⟨hk, seen, pend, ms, fl, pv⟩ := m
  obtain ⟨hk', seen', pend', ms', fl', pv'⟩ := m'
  simp only [MRel, CurSim.er, CurSim.MAe.mk.injEq] at hm
  obtain ⟨rfl, rfl, hp, hms, rfl, hpv⟩ := hm
  rw [De.nextValue, De.nextValue]
  cases hk
  · exact RF.err hs
  · rcases pv with _ | ⟨evs, ref⟩ <;> rcases pv' with _ | ⟨evs', ref'⟩ <;> simp at hpv
    · have hd : 1 ≤ dep K c := hpre rfl
      simp only [Bool.not_true, Bool.false_eq_true, ↓reduceIte]
      fr_loop
    · subst hpv
      have hrc := CurSim.Sim.replay evs 0 (some ref) (some ref')
      simp only [Bool.not_true, Bool.false_eq_true, ↓reduceIte]
      fr_loop


/-- nothing pending, merges being flushed: the cursor is not touched -/
theorem nextKey_flush_fr {fuel : Nat} (ih : FrA K fuel) (cfg : Cfg) (ks : Ty ⊕ Unit) {c c' : Cur} (hs : FSim K c c')
    (hk : Bool) (seen : List FP) {ms ms' : List (List PendingEntry)} {pv pv' : Option (List Ev × Loc)}
    (hms : PLL ms ms') (hpv : pv.map (·.1) = pv'.map (·.1)) :
    RF K KM (De.nextKey (fuel + 1) cfg ks c ⟨hk, seen, [], ms, true, pv⟩)
      (De.nextKey (fuel + 1) cfg ks c' ⟨hk, seen, [], ms', true, pv'⟩) := by
  have ihS := CurSim.simA fuel
  obtain ⟨hA1, hA2⟩ := CurSim.enq_rel (CurSim.MRel.mk' (hk := hk) (seen := seen) (fl := true) (PL.refl []) hms hpv)
  replace hA1 := hA1.symm
  rw [De.nextKey, De.nextKey]
  simp only [↓reduceIte]
  fr_loop

/-- nothing pending, reading the mapping -/
theorem nextKey_live_fr {fuel : Nat} (ih : FrA K fuel) (cfg : Cfg) (ks : Ty ⊕ Unit) {c c' : Cur} (hs : FSim K c c')
    (hd : 1 ≤ dep K c)
    (hk : Bool) (seen : List FP) {ms ms' : List (List PendingEntry)} {pv pv' : Option (List Ev × Loc)}
    (hms : PLL ms ms') (hpv : pv.map (·.1) = pv'.map (·.1)) :
    RF K KM (De.nextKey (fuel + 1) cfg ks c ⟨hk, seen, [], ms, false, pv⟩)
      (De.nextKey (fuel + 1) cfg ks c' ⟨hk, seen, [], ms', false, pv'⟩) := by
  have ihS := CurSim.simA fuel
  obtain ⟨hA1, hA2⟩ := CurSim.enq_rel (CurSim.MRel.mk' (hk := hk) (seen := seen) (fl := true) (PL.refl []) hms hpv)
  replace hA1 := hA1.symm
  have hie : ms'.isEmpty = ms.isEmpty := (CurSim.PLL.isEmpty hms).symm
  rw [De.nextKey, De.nextKey]
  simp only [Bool.false_eq_true, ↓reduceIte]
  fr_loop

/-- a pending entry (own field buffered for a one-entry-null key, or a merged entry): the cursor is not touched -/
theorem nextKey_pending_fr {fuel : Nat} (ih : FrA K fuel) (cfg : Cfg) (ks : Ty ⊕ Unit) {c c' : Cur} (hs : FSim K c c')
    (hk : Bool) (seen : List FP) (k v : KeyNode) (r r' : Loc) {rest rest' : List PendingEntry}
    {ms ms' : List (List PendingEntry)} (fl : Bool) (hpre : fl = false → 1 ≤ dep K c)
    {pv pv' : Option (List Ev × Loc)}
    (hrest : PL rest rest') (hms : PLL ms ms') (hpv : pv.map (·.1) = pv'.map (·.1)) :
    RF K KM (De.nextKey (fuel + 1) cfg ks c ⟨hk, seen, ⟨k, v, r⟩ :: rest, ms, fl, pv⟩)
      (De.nextKey (fuel + 1) cfg ks c' ⟨hk, seen, ⟨k, v, r'⟩ :: rest', ms', fl, pv'⟩) := by
  have ihS := CurSim.simA fuel
  rw [De.nextKey, De.nextKey]
  simp only []
  fr_loop

theorem nextKey_frStep {fuel : Nat} (ih : FrA K fuel) :
    ∀ cfg ks {c c' m m'}, FSim K c c' → (m.flushingMerges = false → 1 ≤ dep K c) → MRel m m' →
      RF K KM (De.nextKey (fuel + 1) cfg ks c m) (De.nextKey (fuel + 1) cfg ks c' m') := by
  intro cfg ks c c' m m' hs hpre hm
  obtain ⟨hk, seen, pend, ms, fl, pv⟩ := m
  obtain ⟨hk', seen', pend', ms', fl', pv'⟩ := m'
  simp only [MRel, CurSim.er, CurSim.MAe.mk.injEq] at hm
  obtain ⟨rfl, rfl, hp, hms, rfl, hpv⟩ := hm
  have hp' : PL pend pend' := hp
  rcases pend with _ | ⟨entry, rest⟩
  · rw [hp'.nil_left]
    cases fl
    · exact nextKey_live_fr ih cfg ks hs (hpre rfl) hk seen hms hpv
    · exact nextKey_flush_fr ih cfg ks hs hk seen hms hpv
  · obtain ⟨r', rest', rfl, hrest⟩ := hp'.cons_left
    obtain ⟨k, v, r⟩ := entry
    exact nextKey_pending_fr ih cfg ks hs hk seen k v r r' fl hpre hrest hms hpv

end SaphyrVerif.Lemmas.Frame
