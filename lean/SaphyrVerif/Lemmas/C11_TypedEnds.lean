import SaphyrVerif.Lemmas.C11_TypedAdv
import SaphyrVerif.Lemmas.C11_TypedPump
/-!
Typed multi-document theorems (C11), part 13: a successful run of the batch loop has pulled the event source
to its end without meeting an error — so `from_multiple` can only succeed on a stream the pump delivers
completely.
-/
namespace SaphyrVerif.Lemmas.C11T
open SaphyrVerif SaphyrVerif.Scalars SaphyrVerif.Pump SaphyrVerif.De SaphyrVerif.Spec SaphyrVerif.Entry
open SaphyrVerif.Lemmas.C02 (Steps Ends)

/-- the pump of a live cursor without its look-ahead slot: an event in the slot has been taken from the parser
already, `last_location` then is its location -/
def under (p : Pump) : Pump :=
  match p.look with
  | some e => { p with look := none, lastLoc := e.loc }
  | none => p

/-- the pump under the live cursor runs to the end of its input without an error -/
def EndsC (c : Cur) : Prop := ∃ p inp, c = .live p inp ∧ ∃ es pf, Ends (under p) inp es pf

theorem under_of_look_none {p : Pump} (h : p.look = none) : under p = p := by simp [under, h]

theorem endsC_of_peek_eof {p : Pump} {inp : List RawItem} {c1 : Cur} (h : Cur.peek (.live p inp) = .ok none c1) :
    EndsC (.live p inp) := by
  simp only [Cur.peek, Pump.peek] at h
  cases hl : p.look with
  | some e => rw [hl] at h; simp at h
  | none =>
    rw [hl] at h
    rcases hn : nextImpl p inp with ⟨s, p', rest⟩
    rw [hn] at h
    cases s with
    | event e => simp at h
    | error e => simp at h
    | eof => exact ⟨p, inp, rfl, [], p', by rw [under_of_look_none hl]; exact ⟨p, inp, rest, Steps.refl _ _, hn⟩⟩

/-- one successful `peek` back -/
theorem endsC_peek_back {c c1 : Cur} {o : Option Ev} (h : c.peek = .ok o c1) (h1 : EndsC c1) : EndsC c := by
  cases c with
  | replay buf idx ref =>
    obtain ⟨p, inp, hc, -⟩ := h1
    simp only [Cur.peek, R.ok.injEq] at h
    rw [← h.2] at hc
    cases hc
  | live p inp =>
    obtain ⟨p1, inp1, hc1, es, pf, hends⟩ := h1
    simp only [Cur.peek, Pump.peek] at h
    cases hl : p.look with
    | some e =>
      rw [hl] at h
      simp only [R.ok.injEq] at h
      obtain ⟨-, rfl⟩ := h
      cases hc1
      refine ⟨p, inp, rfl, es, pf, ?_⟩
      simp only [under, hl] at hends ⊢
      exact hends
    | none =>
      rw [hl] at h
      rcases hn : nextImpl p inp with ⟨s, p', rest⟩
      rw [hn] at h
      cases s with
      | error e => simp at h
      | eof => exact ⟨p, inp, rfl, [], p', by rw [under_of_look_none hl]; exact ⟨p, inp, rest, Steps.refl _ _, hn⟩⟩
      | event e =>
        have hl' : p'.look = none := by
          have := nextImpl_look p inp
          rw [hn] at this
          rw [← hl]; exact this
        have hloc := nextImpl_event_lastLoc hn
        have hu : under { p' with look := some e, lastLoc := e.loc } = p' := by
          simp only [under]
          exact pump_eta_look hl' hloc
        simp only [R.ok.injEq] at h
        obtain ⟨-, rfl⟩ := h
        cases hc1
        rw [hu] at hends
        obtain ⟨q, inq, inq2, hs, hf⟩ := hends
        exact ⟨p, inp, rfl, e :: es, pf, by rw [under_of_look_none hl]; exact ⟨q, inq, inq2, Steps.cons hn hs, hf⟩⟩

/-- one successful `next` back -/
theorem endsC_next_back {c c1 : Cur} {o : Option Ev} (h : c.next = .ok o c1) (h1 : EndsC c1) : EndsC c := by
  cases c with
  | replay buf idx ref =>
    obtain ⟨p, inp, hc, -⟩ := h1
    simp only [Cur.next] at h
    split at h <;> (simp only [R.ok.injEq] at h; rw [← h.2] at hc; cases hc)
  | live p inp =>
    obtain ⟨p1, inp1, hc1, es, pf, hends⟩ := h1
    simp only [Cur.next, Pump.next] at h
    cases hl : p.look with
    | some e =>
      rw [hl] at h
      simp only [R.ok.injEq] at h
      obtain ⟨-, rfl⟩ := h
      cases hc1
      refine ⟨p, inp, rfl, es, pf, ?_⟩
      simp only [under, hl] at hends ⊢
      exact hends
    | none =>
      rw [hl] at h
      rcases hn : nextImpl p inp with ⟨s, p', rest⟩
      rw [hn] at h
      cases s with
      | error e => simp at h
      | eof => exact ⟨p, inp, rfl, [], p', by rw [under_of_look_none hl]; exact ⟨p, inp, rest, Steps.refl _ _, hn⟩⟩
      | event e =>
        have hl' : p'.look = none := by
          have := nextImpl_look p inp
          rw [hn] at this
          rw [← hl]; exact this
        have hu := under_of_look_none hl'
        simp only [R.ok.injEq] at h
        obtain ⟨-, rfl⟩ := h
        cases hc1
        rw [hu] at hends
        obtain ⟨q, inq, inq2, hs, hf⟩ := hends
        exact ⟨p, inp, rfl, e :: es, pf, by rw [under_of_look_none hl]; exact ⟨q, inq, inq2, Steps.cons hn hs, hf⟩⟩

theorem endsC_back {c c' : Cur} (h : Adv c c') (h1 : EndsC c') : EndsC c := by
  induction h with
  | refl => exact h1
  | peek hp _ ih => exact endsC_peek_back hp (ih h1)
  | next hn _ ih => exact endsC_next_back hn (ih h1)

/-- a successful run of the batch loop has pulled the pump to the end of its input without an error -/
theorem multi_ok_ends (cfg : Cfg) (ty : Ty) : ∀ (fuel : Nat) (c : Cur) (acc vs : List Val),
    multiLoop cfg ty fuel c acc = .ok vs → (∃ p inp, c = .live p inp) → EndsC c := by
  intro fuel
  induction fuel with
  | zero => intro c acc vs h; simp [multiLoop] at h
  | succ n ih =>
    intro c acc vs h hlive
    have hlive_peek : ∀ o c1, c.peek = .ok o c1 → ∃ p inp, c1 = .live p inp := by
      intro o c1 hp
      obtain ⟨p, inp, rfl⟩ := hlive
      simp only [Cur.peek] at hp
      split at hp <;> simp only [R.ok.injEq, reduceCtorEq] at hp <;> exact ⟨_, _, hp.2.symm⟩
    simp only [multiLoop] at h
    have hdes : ∀ c1, (∃ p inp, c1 = .live p inp) →
        (match deser (fuelFor 100000) cfg ty false false c1 with
          | .err e _ => Except.error e
          | .ok v c => multiLoop cfg ty n c (acc ++ [v])) = .ok vs → EndsC c1 := by
      intro c1 hl1 hd
      cases hr : deser (fuelFor 100000) cfg ty false false c1 with
      | err e c2 => rw [hr] at hd; cases hd
      | ok v c2 =>
        rw [hr] at hd
        have hadv : Adv c1 c2 := by
          have := (allAdv (fuelFor 100000)).deser cfg ty false false c1
          rw [hr] at this
          exact this
        have hl2 : ∃ p inp, c2 = .live p inp := by
          clear hd hr
          induction hadv with
          | refl => exact hl1
          | @peek a b _ o hp _ ih =>
            apply ih
            obtain ⟨p, inp, rfl⟩ := hl1
            simp only [Cur.peek] at hp
            split at hp <;> simp only [R.ok.injEq, reduceCtorEq] at hp <;> exact ⟨_, _, hp.2.symm⟩
          | @next a b _ o hn _ ih =>
            apply ih
            obtain ⟨p, inp, rfl⟩ := hl1
            simp only [Cur.next] at hn
            split at hn <;> simp only [R.ok.injEq, reduceCtorEq] at hn <;> exact ⟨_, _, hn.2.symm⟩
        exact endsC_back hadv (ih c2 _ vs hd hl2)
    cases hp : c.peek with
    | err e c1 => rw [hp] at h; cases h
    | ok o c1 =>
      rw [hp] at h
      have hl1 := hlive_peek o c1 hp
      cases o with
      | none =>
        obtain ⟨p, inp, rfl⟩ := hlive
        exact endsC_of_peek_eof hp
      | some ev =>
        apply endsC_peek_back hp
        cases ev with
        | scalar v tg rt st a l =>
          simp only [] at h
          by_cases hn : scalarIsNullish v st = true
          · simp only [hn, if_true] at h
            cases hnx : c1.next with
            | err e c2 => rw [hnx] at h; cases h
            | ok o2 c2 =>
              rw [hnx] at h
              have hl2 : ∃ p inp, c2 = .live p inp := by
                obtain ⟨p, inp, rfl⟩ := hl1
                simp only [Cur.next] at hnx
                split at hnx <;> simp only [R.ok.injEq, reduceCtorEq] at hnx <;> exact ⟨_, _, hnx.2.symm⟩
              exact endsC_next_back hnx (ih c2 acc vs h hl2)
          · simp only [hn, if_false, Bool.false_eq_true] at h
            exact hdes c1 hl1 h
        | seqStart a tg rt l => exact hdes c1 hl1 h
        | mapStart a l => exact hdes c1 hl1 h
        | seqEnd l => cases h
        | mapEnd l => cases h

end SaphyrVerif.Lemmas.C11T
