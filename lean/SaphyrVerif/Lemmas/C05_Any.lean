import SaphyrVerif.Lemmas.C05_Stream
/-!
Helper lemmas for C05, part 4: the untyped target `interpAny` does not depend on its fuel, and is the typed
interpretation with element / key / value type `.any`; list helpers of the specification as `mapM`.
-/
namespace SaphyrVerif.Lemmas.C05
open SaphyrVerif SaphyrVerif.Scalars SaphyrVerif.Pump SaphyrVerif.De SaphyrVerif.Spec

theorem mapM_congr {α β : Type} {f g : α → Option β} {l : List α} (h : ∀ x ∈ l, f x = g x) : l.mapM f = l.mapM g := by
  induction l with
  | nil => rfl
  | cons x l ih =>
    simp only [List.mapM_cons]
    rw [h x (List.mem_cons_self ..), ih (fun y hy => h y (List.mem_cons_of_mem _ hy))]

theorem listFrom_eq_mapM (f : NodeFn) (l : List ENode) : listFrom f l = l.mapM f := by
  induction l with
  | nil => rfl
  | cons x l ih =>
    simp only [listFrom, List.mapM_cons, ih]
    cases f x <;> cases l.mapM f <;> rfl

/-- one entry of a typed mapping -/
def pairFn (kf vf : NodeFn) (e : ENode × ENode) : Option (Val × Val) :=
  match kf e.1, vf e.2 with
  | some a, some b => some (a, b)
  | _, _ => none

theorem pairsFrom_eq_mapM (kf vf : NodeFn) (l : List (ENode × ENode)) : pairsFrom kf vf l = l.mapM (pairFn kf vf) := by
  induction l with
  | nil => rfl
  | cons x l ih =>
    obtain ⟨k, v⟩ := x
    simp only [pairsFrom, List.mapM_cons, ih, pairFn]
    cases kf k <;> cases vf v <;> cases l.mapM (pairFn kf vf) <;> rfl

theorem pairsFrom_cons (kf vf : NodeFn) (k v : ENode) (es : List (ENode × ENode)) :
    pairsFrom kf vf ((k, v) :: es) =
      match kf k, vf v, pairsFrom kf vf es with
      | some a, some b, some r => some ((a, b) :: r)
      | _, _, _ => none := by
  simp only [pairsFrom]; rfl

/-! ### admissibility of the effective entries -/

theorem dropSeen_ok {d : Nat} {q : List (ENode × ENode)} (hq : AllOK d q) (seen : List FP) : AllOK d (dropSeen q seen) := by
  induction q generalizing seen with
  | nil => simpa [dropSeen] using AllOK.nil d
  | cons e q ih =>
    obtain ⟨k, v⟩ := e
    simp only [dropSeen]
    split
    · exact ih hq.tail _
    · exact AllOK.cons hq.head (ih hq.tail _)

theorem remLive_ok {dup : DupPolicy} {d : Nat} {rem q : List (ENode × ENode)} {seen : List FP}
    {es : List (ENode × ENode)} (hr : AllOK d rem) (hq : AllOK d q) (h : remLive dup rem q seen = some es) :
    AllOK d es := by
  induction rem generalizing q seen es with
  | nil =>
    simp only [remLive, Option.some.injEq] at h
    subst h; exact dropSeen_ok hq _
  | cons e rest ih =>
    obtain ⟨k, v⟩ := e
    have hcons : ∀ {seen' : List FP} {es : List (ENode × ENode)},
        (remLive dup rest q seen').map ((k, v) :: ·) = some es → AllOK d es := by
      intro seen' es h
      cases hr' : remLive dup rest q seen' with
      | none => simp [hr'] at h
      | some r =>
        simp only [hr', Option.map_some, Option.some.injEq] at h
        subst h
        exact AllOK.cons hr.head (ih hr.tail hq hr')
    simp only [remLive] at h
    split at h
    · split at h
      · cases h
      · rename_i b hb
        exact ih hr.tail (AllOK.append (allOK_source hr.head hb) hq) h
    · split at h
      · split at h
        · cases h
        · exact hcons h
      · split at h
        · exact ih hr.tail hq h
        · exact hcons h
      · exact hcons h

theorem effEntries_ok {dup : DupPolicy} {entries es : List (ENode × ENode)} (hk : kfreeE entries = true)
    (h : effEntries dup entries = some es) : AllOK (depthOfE entries + 1) es := by
  rw [← remaining_init] at h
  exact remLive_ok (allOK_of_kfreeE hk) (AllOK.nil _) h

/-! ### `interpAny` -/

theorem interpAny_succ_scalar (cfg : Cfg) (f : Nat) (v : List Char) (tag : Nat) (rt : Option (List Char)) (st : Style)
    (a : Nat) (l : Loc) : interpAny cfg (f + 1) (.scalar v tag rt st a l) = anyScalar cfg v tag st := by
  simp only [interpAny]

theorem interpAny_succ_seq (cfg : Cfg) (f : Nat) (a tag : Nat) (rt : Option (List Char)) (l el : Loc) (items : List ENode) :
    interpAny cfg (f + 1) (.seq a tag rt l el items) = (items.mapM (interpAny cfg f)).map .seq := by
  simp only [interpAny]

theorem interpAny_succ_map (cfg : Cfg) (f : Nat) (a : Nat) (l el : Loc) (entries : List (ENode × ENode)) :
    interpAny cfg (f + 1) (.map a l el entries) =
      match effEntries cfg.dup entries with
      | none => none
      | some es => (es.mapM (pairFn (interpAny cfg f) (interpAny cfg f))).map .map := by
  simp only [interpAny]
  cases effEntries cfg.dup entries <;> rfl

theorem interpAny_fuel (cfg : Cfg) : ∀ (f g : Nat) (n : ENode), kfree n = true → depthOf n ≤ f → depthOf n ≤ g →
    interpAny cfg f n = interpAny cfg g n := by
  intro f
  induction f with
  | zero => intro g n _ h; have := depthOf_pos n; omega
  | succ f ih =>
    intro g n hk hf hg
    cases g with
    | zero => have := depthOf_pos n; omega
    | succ g =>
      cases n with
      | scalar v tag rt st a l => rw [interpAny_succ_scalar, interpAny_succ_scalar]
      | seq a tag rt l el items =>
        rw [interpAny_succ_seq, interpAny_succ_seq]
        simp only [depthOf_seq] at hf hg
        simp only [kfree_seq] at hk
        congr 1
        apply mapM_congr
        intro x hx
        have := depthOfL_mem hx
        exact ih g x (kfreeL_mem hk hx) (by omega) (by omega)
      | map a l el entries =>
        rw [interpAny_succ_map, interpAny_succ_map]
        simp only [depthOf_map] at hf hg
        simp only [kfree_map] at hk
        cases he : effEntries cfg.dup entries with
        | none => rfl
        | some es =>
          simp only []
          congr 1
          apply mapM_congr
          intro x hx
          obtain ⟨h1, h2, h3, h4, -⟩ := effEntries_ok hk he x hx
          simp only [pairFn]
          rw [ih g x.1 h3 (by omega) (by omega), ih g x.2 h4 (by omega) (by omega)]

theorem interp_any (cfg : Cfg) (n : ENode) : interp cfg .any n = interpAny cfg (depthOf n) n := by
  rw [interp]

theorem interp_any_scalar (cfg : Cfg) (v : List Char) (tag : Nat) (rt : Option (List Char)) (st : Style) (a : Nat) (l : Loc) :
    interp cfg .any (.scalar v tag rt st a l) = anyScalar cfg v tag st := by
  rw [interp_any, depthOf_scalar, interpAny_succ_scalar]

theorem interp_any_seq (cfg : Cfg) (a tag : Nat) (rt : Option (List Char)) (l el : Loc) (items : List ENode)
    (hk : kfreeL items = true) :
    interp cfg .any (.seq a tag rt l el items) = (listFrom (interp cfg .any) items).map .seq := by
  rw [interp_any, depthOf_seq, interpAny_succ_seq, listFrom_eq_mapM]
  congr 1
  apply mapM_congr
  intro x hx
  rw [interp_any]
  exact interpAny_fuel cfg _ _ x (kfreeL_mem hk hx) (depthOfL_mem hx) (Nat.le_refl _)

theorem interp_any_map (cfg : Cfg) (a : Nat) (l el : Loc) (entries : List (ENode × ENode)) (hk : kfreeE entries = true) :
    interp cfg .any (.map a l el entries) =
      match effEntries cfg.dup entries with
      | none => none
      | some es => (pairsFrom (interp cfg .any) (interp cfg .any) es).map .map := by
  rw [interp_any, depthOf_map, interpAny_succ_map]
  cases he : effEntries cfg.dup entries with
  | none => rfl
  | some es =>
    simp only [pairsFrom_eq_mapM]
    congr 1
    apply mapM_congr
    intro x hx
    obtain ⟨h1, h2, h3, h4, -⟩ := effEntries_ok hk he x hx
    simp only [pairFn, interp_any]
    rw [interpAny_fuel cfg _ _ x.1 h3 (by omega) (Nat.le_refl _), interpAny_fuel cfg _ _ x.2 h4 (by omega) (Nat.le_refl _)]

end SaphyrVerif.Lemmas.C05
