import SaphyrVerif.Lemmas.C11_Typed2LockDe
/-!
Lock-step simulation (twin of `Lemmas/E2EBudget*.lean`, see `Lemmas/C11_Typed2LockRel.lean`), part 5a: the cursor-only loops.
-/
namespace SaphyrVerif.Lemmas.Lock
open SaphyrVerif SaphyrVerif.Scalars SaphyrVerif.Pump SaphyrVerif.De

set_option linter.unusedSimpArgs false
set_option linter.unusedVariables false

variable {P : LP} (hcl : Closed P)
include hcl

theorem capture_lkStep {fuel : Nat} (ih : LA P fuel) :
    ∀ {c}, P.Inv c → LR P (De.capture (fuel + 1) c) (De.capture (fuel + 1) (P.σ c)) := by
  intro c hi
  rw [De.capture, De.capture]
  lk_loop

theorem captureSeq_lkStep {fuel : Nat} (ih : LA P fuel) :
    ∀ fps evs {c}, P.Inv c → LR P (De.captureSeq (fuel + 1) c fps evs) (De.captureSeq (fuel + 1) (P.σ c) fps evs) := by
  intro fps evs c hi
  rw [De.captureSeq, De.captureSeq]
  lk_loop

theorem captureMap_lkStep {fuel : Nat} (ih : LA P fuel) :
    ∀ fps evs {c}, P.Inv c → LR P (De.captureMap (fuel + 1) c fps evs) (De.captureMap (fuel + 1) (P.σ c) fps evs) := by
  intro fps evs c hi
  rw [De.captureMap, De.captureMap]
  lk_loop

theorem skipOneNode_lkStep {fuel : Nat} (ih : LA P fuel) :
    ∀ {c}, P.Inv c → LR P (De.skipOneNode (fuel + 1) c) (De.skipOneNode (fuel + 1) (P.σ c)) := by
  intro c hi
  rw [De.skipOneNode, De.skipOneNode]
  lk_loop

theorem skipDepth_lkStep {fuel : Nat} (ih : LA P fuel) :
    ∀ depth {c}, P.Inv c → LR P (De.skipDepth (fuel + 1) c depth) (De.skipDepth (fuel + 1) (P.σ c) depth) := by
  intro depth c hi
  rw [De.skipDepth, De.skipDepth]
  lk_loop

theorem collectTaggedSeq_lkStep {fuel : Nat} (ih : LA P fuel) :
    ∀ depth acc {c}, P.Inv c →
      LR P (De.collectTaggedSeq (fuel + 1) c depth acc) (De.collectTaggedSeq (fuel + 1) (P.σ c) depth acc) := by
  intro depth acc c hi
  rw [De.collectTaggedSeq, De.collectTaggedSeq]
  lk_loop

theorem bytesLoop_lkStep {fuel : Nat} (ih : LA P fuel) :
    ∀ cfg acc {c}, P.Inv c → LR P (De.bytesLoop (fuel + 1) cfg c acc) (De.bytesLoop (fuel + 1) cfg (P.σ c) acc) := by
  intro cfg acc c hi
  rw [De.bytesLoop, De.bytesLoop]
  lk_loop

theorem seqElems_lkStep {fuel : Nat} (ih : LA P fuel) :
    ∀ cfg t acc {c}, P.Inv c → LR P (De.seqElems (fuel + 1) cfg t c acc) (De.seqElems (fuel + 1) cfg t (P.σ c) acc) := by
  intro cfg t acc c hi
  rw [De.seqElems, De.seqElems]
  lk_loop

theorem tupleElems_lkStep {fuel : Nat} (ih : LA P fuel) :
    ∀ cfg ts acc {c}, P.Inv c →
      LR P (De.tupleElems (fuel + 1) cfg ts c acc) (De.tupleElems (fuel + 1) cfg ts (P.σ c) acc) := by
  intro cfg ts acc c hi
  cases ts <;> rw [De.tupleElems, De.tupleElems]
  all_goals lk_loop

end SaphyrVerif.Lemmas.Lock
