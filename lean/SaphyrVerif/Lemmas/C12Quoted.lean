import SaphyrVerif.Model.SerScalar
import SaphyrVerif.Spec.ScalarRead
/-!
Helper lemmas for C12: the quoted writers (`write_quoted`, the key sink's escaper, `write_single_quoted`)
are inverted by the quoted readers of `Spec/ScalarRead.lean`, character by character.
-/
namespace SaphyrVerif.Lemmas.C12
open SaphyrVerif SaphyrVerif.SerScalar SaphyrVerif.Spec.Read
theorem char_of_toNat {c : Char} {n : Nat} (h : c.toNat = n) : c = Char.ofNat n := by
  rw [← h, Char.ofNat_toNat]

theorem hexVal_hexUp : ∀ d, d < 16 → hexVal? (hexUp d) = some d := by decide

theorem dq_simple (e c : Char) (rest acc : List Char) (h : simpleEscape e = some c) :
    dqRun .norm ('\\' :: e :: rest) acc = dqRun .norm rest (c :: acc) := by
  simp [dqRun, h]

theorem dq_raw (c : Char) (rest acc : List Char) (h1 : c ≠ '"') (h2 : c ≠ '\\') (h3 : isBreak c = false) (h4 : isNul c = false) :
    dqRun .norm (c :: rest) acc = dqRun .norm rest (c :: acc) := by
  simp [dqRun, h1, h2, h3, h4]

theorem dq_hex2 (a b : Char) (x y : Nat) (c : Char) (rest acc : List Char)
    (ha : hexVal? a = some x) (hb : hexVal? b = some y) (hc : charOfCode? (x * 16 + y) = some c) :
    dqRun .norm ('\\' :: 'x' :: a :: b :: rest) acc = dqRun .norm rest (c :: acc) := by
  simp [dqRun, simpleEscape, ha, hb, hc]

theorem dq_hex4 (a b c d : Char) (w x y z : Nat) (ch : Char) (rest acc : List Char)
    (ha : hexVal? a = some w) (hb : hexVal? b = some x) (hc : hexVal? c = some y) (hd : hexVal? d = some z)
    (hch : charOfCode? (((w * 16 + x) * 16 + y) * 16 + z) = some ch) :
    dqRun .norm ('\\' :: 'u' :: a :: b :: c :: d :: rest) acc = dqRun .norm rest (ch :: acc) := by
  simp [dqRun, simpleEscape, ha, hb, hc, hd, hch]

theorem charOfCode_small (c : Char) (h : c.toNat ≤ 0xFF) : charOfCode? c.toNat = some c := by
  unfold charOfCode?
  have : c.toNat < 0xD800 := by omega
  rw [if_pos]
  · rw [Char.ofNat_toNat]
  · rw [Bool.or_eq_true]; exact Or.inl (decide_eq_true this)

theorem dq_char (c : Char) (rest acc : List Char) :
    dqRun .norm (dqEscape c ++ rest) acc = dqRun .norm rest (c :: acc) := by
  unfold dqEscape
  by_cases h0 : (c == '\\') = true
  · rw [if_pos h0]; have := eq_of_beq h0; subst this; exact dq_simple _ _ _ _ (by decide)
  rw [if_neg h0]
  by_cases h1 : (c == '"') = true
  · rw [if_pos h1]; have := eq_of_beq h1; subst this; exact dq_simple _ _ _ _ (by decide)
  rw [if_neg h1]
  by_cases h2 : (c.toNat == 0) = true
  · rw [if_pos h2]; have := char_of_toNat (eq_of_beq h2); subst this; exact dq_simple _ _ _ _ (by decide)
  rw [if_neg h2]
  by_cases h3 : (c.toNat == 7) = true
  · rw [if_pos h3]; have := char_of_toNat (eq_of_beq h3); subst this; exact dq_simple _ _ _ _ (by decide)
  rw [if_neg h3]
  by_cases h4 : (c.toNat == 8) = true
  · rw [if_pos h4]; have := char_of_toNat (eq_of_beq h4); subst this; exact dq_simple _ _ _ _ (by decide)
  rw [if_neg h4]
  by_cases h5 : (c == '\t') = true
  · rw [if_pos h5]; have := eq_of_beq h5; subst this; exact dq_simple _ _ _ _ (by decide)
  rw [if_neg h5]
  by_cases h6 : (c == '\n') = true
  · rw [if_pos h6]; have := eq_of_beq h6; subst this; exact dq_simple _ _ _ _ (by decide)
  rw [if_neg h6]
  by_cases h7 : (c.toNat == 0xB) = true
  · rw [if_pos h7]; have := char_of_toNat (eq_of_beq h7); subst this; exact dq_simple _ _ _ _ (by decide)
  rw [if_neg h7]
  by_cases h8 : (c.toNat == 0xC) = true
  · rw [if_pos h8]; have := char_of_toNat (eq_of_beq h8); subst this; exact dq_simple _ _ _ _ (by decide)
  rw [if_neg h8]
  by_cases h9 : (c == '\r') = true
  · rw [if_pos h9]; have := eq_of_beq h9; subst this; exact dq_simple _ _ _ _ (by decide)
  rw [if_neg h9]
  by_cases h10 : (c.toNat == 0x1B) = true
  · rw [if_pos h10]; have := char_of_toNat (eq_of_beq h10); subst this; exact dq_simple _ _ _ _ (by decide)
  rw [if_neg h10]
  by_cases h11 : (c.toNat == 0xFEFF) = true
  · rw [if_pos h11]; have := char_of_toNat (eq_of_beq h11); subst this
    exact dq_hex4 'F' 'E' 'F' 'F' 15 14 15 15 _ _ _ (by decide) (by decide) (by decide) (by decide) (by decide)
  rw [if_neg h11]
  by_cases h12 : (c.toNat == 0x85) = true
  · rw [if_pos h12]; have := char_of_toNat (eq_of_beq h12); subst this; exact dq_simple _ _ _ _ (by decide)
  rw [if_neg h12]
  by_cases h13 : (c.toNat == 0x2028) = true
  · rw [if_pos h13]; have := char_of_toNat (eq_of_beq h13); subst this; exact dq_simple _ _ _ _ (by decide)
  rw [if_neg h13]
  by_cases h14 : (c.toNat == 0x2029) = true
  · rw [if_pos h14]; have := char_of_toNat (eq_of_beq h14); subst this; exact dq_simple _ _ _ _ (by decide)
  rw [if_neg h14]
  by_cases h15 : (decide (c.toNat ≤ 0xFF) && (isControl c || (decide (0x7F ≤ c.toNat) && decide (c.toNat ≤ 0x9F)))) = true
  · rw [if_pos h15]
    simp only [Bool.and_eq_true, decide_eq_true_eq] at h15
    have hle : c.toNat ≤ 0xFF := h15.1
    have hd1 : c.toNat / 16 < 16 := by omega
    have hd2 : c.toNat % 16 < 16 := by omega
    have hv : c.toNat / 16 * 16 + c.toNat % 16 = c.toNat := by omega
    show dqRun .norm ('\\' :: 'x' :: (hex2 c.toNat ++ rest)) acc = _
    unfold hex2
    exact dq_hex2 _ _ _ _ c rest acc (hexVal_hexUp _ hd1) (hexVal_hexUp _ hd2) (by rw [hv]; exact charOfCode_small c hle)
  rw [if_neg h15]
  by_cases h16 : (decide (c.toNat ≤ 0xFFFF) && (isControl c || (decide (0x7F ≤ c.toNat) && decide (c.toNat ≤ 0x9F)))) = true
  · exfalso
    simp only [Bool.and_eq_true, decide_eq_true_eq, isControl, Bool.or_eq_true] at h16 h15
    omega
  rw [if_neg h16]
  apply dq_raw
  · intro e; subst e; simp at h1
  · intro e; subst e; simp at h0
  · simp only [isBreak, Bool.or_eq_false_iff]; exact ⟨by simpa using h6, by simpa using h9⟩
  · simp only [isNul]; simpa using h2

/-- the whole double-quoted body -/
theorem dq_body (s : List Char) (acc : List Char) :
    dqRun .norm (s.flatMap dqEscape ++ ['"']) acc = some (acc.reverse ++ s, []) := by
  induction s generalizing acc with
  | nil => simp [dqRun]
  | cons c s ih =>
    rw [List.flatMap_cons, List.append_assoc, dq_char, ih]
    simp

/-! ### key sink escaper -/

theorem charOfCode_hex4 (c : Char) (h : c.toNat ≤ 0x9F) :
    charOfCode? (((c.toNat / 4096 % 16 * 16 + c.toNat / 256 % 16) * 16 + c.toNat / 16 % 16) * 16 + c.toNat % 16) = some c := by
  have e : ((c.toNat / 4096 % 16 * 16 + c.toNat / 256 % 16) * 16 + c.toNat / 16 % 16) * 16 + c.toNat % 16 = c.toNat := by omega
  rw [e]
  exact charOfCode_small c (by omega)

theorem key_char (c : Char) (rest acc : List Char) :
    dqRun .norm (keyEscape c ++ rest) acc = dqRun .norm rest (c :: acc) := by
  unfold keyEscape
  by_cases h0 : (c == '\\') = true
  · rw [if_pos h0]; have := eq_of_beq h0; subst this; exact dq_simple _ _ _ _ (by decide)
  rw [if_neg h0]
  by_cases h1 : (c == '"') = true
  · rw [if_pos h1]; have := eq_of_beq h1; subst this; exact dq_simple _ _ _ _ (by decide)
  rw [if_neg h1]
  by_cases h2 : (c == '\n') = true
  · rw [if_pos h2]; have := eq_of_beq h2; subst this; exact dq_simple _ _ _ _ (by decide)
  rw [if_neg h2]
  by_cases h3 : (c == '\r') = true
  · rw [if_pos h3]; have := eq_of_beq h3; subst this; exact dq_simple _ _ _ _ (by decide)
  rw [if_neg h3]
  by_cases h4 : (c == '\t') = true
  · rw [if_pos h4]; have := eq_of_beq h4; subst this; exact dq_simple _ _ _ _ (by decide)
  rw [if_neg h4]
  by_cases h5 : isControl c = true
  · rw [if_pos h5]
    have hle : c.toNat ≤ 0x9F := by
      simp only [isControl, Bool.or_eq_true, Bool.and_eq_true, decide_eq_true_eq] at h5
      omega
    show dqRun .norm ('\\' :: 'u' :: (hex4 c.toNat ++ rest)) acc = _
    unfold hex4
    exact dq_hex4 _ _ _ _ _ _ _ _ c rest acc (hexVal_hexUp _ (by omega)) (hexVal_hexUp _ (by omega))
      (hexVal_hexUp _ (by omega)) (hexVal_hexUp _ (by omega)) (charOfCode_hex4 c hle)
  rw [if_neg h5]
  apply dq_raw
  · intro e; subst e; simp at h1
  · intro e; subst e; simp at h0
  · simp only [isBreak, Bool.or_eq_false_iff]; exact ⟨by simpa using h2, by simpa using h3⟩
  · simp only [isNul]
    simp only [isControl, Bool.or_eq_true, Bool.and_eq_true, decide_eq_true_eq, not_or, not_and] at h5
    have : c.toNat ≠ 0 := by omega
    simpa using this

theorem key_body (s : List Char) (acc : List Char) :
    dqRun .norm (s.flatMap keyEscape ++ ['"']) acc = some (acc.reverse ++ s, []) := by
  induction s generalizing acc with
  | nil => simp [dqRun]
  | cons c s ih =>
    rw [List.flatMap_cons, List.append_assoc, key_char, ih]
    simp

/-! ### single quotes -/

def sqEsc (c : Char) : List Char := if c == '\'' then ['\'', '\''] else [c]

theorem sq_char (c : Char) (rest acc : List Char) (hb : isBreak c = false) (hn : isNul c = false) :
    sqRun false (sqEsc c ++ rest) acc = sqRun false rest (c :: acc) := by
  unfold sqEsc
  by_cases h : (c == '\'') = true
  · rw [if_pos h]; have := eq_of_beq h; subst this
    simp [sqRun]
  · rw [if_neg h]
    simp [sqRun, h, hb, hn]

theorem sq_body (s : List Char) (acc : List Char) (h : ∀ c ∈ s, isBreak c = false ∧ isNul c = false) :
    sqRun false (s.flatMap sqEsc ++ ['\'']) acc = some (acc.reverse ++ s, []) := by
  induction s generalizing acc with
  | nil => simp [sqRun]
  | cons c s ih =>
    have hc := h c (by simp)
    rw [List.flatMap_cons, List.append_assoc, sq_char c _ _ hc.1 hc.2, ih]
    · simp
    · intro d hd; exact h d (by simp [hd])

end SaphyrVerif.Lemmas.C12
