import SaphyrVerif.Spec.EmitReader
/-!
C13 proof machinery, part 1: the proved FRAGMENT of the value grammar and a flag-free structural
LAYOUT function (`layRoot`) describing the lines the emitter produces for it.  `Lemmas/C13_Emit.lean`
proves that the emitter state machine produces exactly this layout (the emitter invariant);
`Lemmas/C13_Read.lean` proves that the reference reader maps the layout back to `erase v`.

Fragment: null (unit / none), booleans, integers, safe strings, options, ordinary newtype structs,
block sequences, tuples and tuple structs, block mappings / structs whose keys are safe strings or
composite (sequences, mappings, variants with data of the fragment, written `? key` / `: value`) and
pairwise different, unit, newtype, tuple and struct variants, nested arbitrarily.  Options: every `indent_step ≥ 1`, `compact_list_indent` on or off,
`empty_as_braces`, no `quote_all`, no `yaml_12`, no `tagged_enums`.
-/
namespace SaphyrVerif.Emit
open SaphyrVerif

def isLowerAlpha (c : Char) : Bool := 'a' ≤ c && c ≤ 'z'
def isLowerAlnum (c : Char) : Bool := isLowerAlpha c || ('0' ≤ c && c ≤ '9')

/-- words the untyped reader resolves to null / booleans, and the float words the emitter quotes -/
def reservedWords : List (List Char) :=
  ["null".toList, "true".toList, "false".toList, "y".toList, "n".toList, "yes".toList, "no".toList,
   "on".toList, "off".toList, "nan".toList, "inf".toList]

/-- the SAFE leaf class: `[a-z][a-z0-9]*` minus the reserved words -/
def isSafeStr (s : List Char) : Bool :=
  match s with
  | [] => false
  | c :: cs => isLowerAlpha c && cs.all isLowerAlnum && !reservedWords.contains s

/-- what C13 / C20 assume about the scalar-text functions (proved for the real ones by C12):
safe strings are plain-safe in every position -/
structure SafeContract (f : ScalarFns) : Prop where
  plain : ∀ s, isSafeStr s = true → f.isPlainSafe s = true
  value : ∀ s y fl, isSafeStr s = true → f.isPlainValueSafe s y fl = true
  shape : ∀ s, isSafeStr s = true → f.isUnsafePlainShape s = false

/-- the option vectors of the proved fragment -/
structure FragOpts (o : Opts) : Prop where
  indent : o.indentStep ≥ 1
  braces : o.emptyAsBraces = true
  quoteAll : o.quoteAll = false
  yaml12 : o.yaml12 = false
  tagged : o.taggedEnums = false

/-- the scalar token of a fragment leaf -/
def leafTok : SVal → Option (List Char)
  | .unit => some "null".toList
  | .none => some "null".toList
  | .bool b => some (if b then "true".toList else "false".toList)
  | .int i => some (intText i)
  | .str s => some s
  | .unitVariant _ n => some n
  | _ => none

def keyOf : SVal → Option (List Char)
  | .str k => some k
  | _ => none

/-- a safe string key -/
def isSafeKey (k : SVal) : Bool :=
  match keyOf k with
  | some kt => isSafeStr kt
  | none => false

theorem isSafeKey_iff {k : SVal} (h : isSafeKey k = true) : ∃ kt, k = .str kt ∧ isSafeStr kt = true := by
  cases k <;> simp [isSafeKey, keyOf] at h
  exact ⟨_, rfl, h⟩

/-- the non-scalar keys of the fragment (written as explicit keys `? key`) -/
def isComplexKey : SVal → Bool
  | .seq _ => true
  | .tuple _ => true
  | .tupleStruct _ => true
  | .map _ _ => true
  | .newtypeVariant _ _ => true
  | .tupleVariant _ _ => true
  | .structVariant _ _ => true
  | .some v => isComplexKey v
  | .newtypeStruct v => isComplexKey v
  | _ => false

mutual
/-- the proved fragment (`w` = `folded_wrap_chars`: longer strings are auto-folded) -/
def inFrag (w : Nat) : SVal → Bool
  | .unit => true
  | .none => true
  | .bool _ => true
  | .int _ => true
  | .str s => isSafeStr s && s.length ≤ w
  | .unitVariant _ n => isSafeStr n && n.length ≤ w
  | .some v => inFrag w v
  | .newtypeStruct v => inFrag w v
  | .seq xs => inFragList w xs
  | .tuple xs => inFragList w xs
  | .tupleStruct xs => inFragList w xs
  | .map _ es => inFragEntries w es && !hasDupKey (eraseEntries es)
  | .newtypeVariant n v => isSafeStr n && inFrag w v
  | .tupleVariant n xs => isSafeStr n && inFragList w xs
  | .structVariant n fs => isSafeStr n && (inFragEntries w fs && !hasDupKey (eraseEntries fs))
  | _ => false
def inFragList (w : Nat) : List SVal → Bool
  | [] => true
  | v :: vs => inFrag w v && inFragList w vs
def inFragEntries (w : Nat) : List (SVal × SVal) → Bool
  | [] => true
  | (k, v) :: es => (isSafeKey k || (isComplexKey k && inFrag w k)) && inFrag w v && inFragEntries w es
/-- key texts (only meaningful for string keys) -/
def keysOf : List (SVal × SVal) → List (List Char)
  | [] => []
  | (k, _) :: es => (match k with | .str s => s | _ => []) :: keysOf es
end

/-! ### layout

Positions are COLUMNS: `k` is `indent_step`; the keys of a mapping / the dashes of a sequence stand at a
column `c`; a collection after `key:` goes to the following lines at column `c + k`, the first entry
of a collection after `- ` stays on the dash line, i.e. at column `c + 2`, and so do its other entries. -/

/-- a sequence right after `key:`: empty = ` []` on the line of the key, otherwise the item lines
(given as `items`) -/
def seqValOf (isEmpty : Bool) (items : List Line) : List Char × List Line × Bool :=
  if isEmpty then (" []".toList, [], false) else ([], items, true)

/-- a mapping right after `key:`: empty = ` {}` on the line of the key (on its own line at column `c`
after a block sibling), otherwise the entry lines (given as `entries`) -/
def mapValOf (c : Nat) (lvb : Bool) (isEmpty : Bool) (entries : List Line) : List Char × List Line × Bool :=
  if isEmpty then (if lvb then ([], [⟨c, "{}".toList⟩], false) else (" {}".toList, [], false))
  else ([], entries, true)

/-- `Variant:` right after `key:`: on the next line at column `c`; `r` = the layout of the payload after
`Variant:` -/
def variantVal (c : Nat) (n : List Char) (r : List Char × List Line × Bool) : List Char × List Line × Bool :=
  ([], ⟨c, n ++ [':'] ++ r.1⟩ :: r.2.1, r.2.2)

/-- `Variant:` right after `- `: on the dash line -/
def variantItem (n : List Char) (r : List Char × List Line × Bool) : List Char × List Line × Bool :=
  (n ++ [':'] ++ r.1, r.2.1, r.2.2)

/-- the column of the dashes of a sequence right after `key:` (keys at column `c`): one step deeper,
or — `compact_list_indent` inside a mapping (`current_map_depth` set) — the column of the keys -/
def seqCol (k : Nat) (cp inMap : Bool) (c : Nat) : Nat := if cp && inMap then c else c + k

mutual
/-- value right after `key:` of a mapping whose keys are at column `c`; `cp` = `compact_list_indent`,
`inMap` = `current_map_depth` is set (always, except for the payload of a variant at the root);
`lvb` = the incoming `last_value_was_block`.  Result: rest of the key line, the following lines,
outgoing `lvb`. -/
def layVal (k : Nat) (cp inMap : Bool) (c : Nat) (lvb : Bool) : SVal → List Char × List Line × Bool
  | .some v => layVal k cp inMap c lvb v
  | .newtypeStruct v => layVal k cp inMap c lvb v
  | .seq xs => seqValOf xs.isEmpty (layItems k cp (seqCol k cp inMap c) false xs).1
  | .tuple xs => seqValOf xs.isEmpty (layItems k cp (seqCol k cp inMap c) false xs).1
  | .tupleStruct xs => seqValOf xs.isEmpty (layItems k cp (seqCol k cp inMap c) false xs).1
  | .map _ es => mapValOf (c + k) lvb es.isEmpty (layEntries k cp (c + k) false es).1
  | .newtypeVariant n v => variantVal (c + k) n (layVal k cp true (c + k) lvb v)
  | .tupleVariant n xs => variantVal (c + k) n (seqValOf xs.isEmpty (layItems k cp (seqCol k cp true (c + k)) false xs).1)
  | .structVariant n fs => variantVal (c + k) n (mapValOf (c + k + k) lvb fs.isEmpty (layEntries k cp (c + k + k) false fs).1)
  | .unit => (' ' :: "null".toList, [], false)
  | .none => (' ' :: "null".toList, [], false)
  | .bool b => (' ' :: (if b then "true".toList else "false".toList), [], false)
  | .int i => (' ' :: intText i, [], false)
  | .str s => (' ' :: s, [], false)
  | .unitVariant _ n => (' ' :: n, [], false)
  | _ => ([], [], lvb)
/-- value right after `- ` of a sequence whose dashes are at column `c` -/
def layItem (k : Nat) (cp : Bool) (c : Nat) (lvb : Bool) : SVal → List Char × List Line × Bool
  | .some v => layItem k cp c lvb v
  | .newtypeStruct v => layItem k cp c lvb v
  | .seq xs => laySeqItem k cp c lvb xs
  | .tuple xs => laySeqItem k cp c lvb xs
  | .tupleStruct xs => laySeqItem k cp c lvb xs
  | .map _ es => layMapItem k cp c lvb es
  | .newtypeVariant n v => variantItem n (layVal k cp true (c + 2) lvb v)
  | .tupleVariant n xs => variantItem n (seqValOf xs.isEmpty (layItems k cp (seqCol k cp true (c + 2)) false xs).1)
  | .structVariant n fs => variantItem n (mapValOf (c + 2 + k) lvb fs.isEmpty (layEntries k cp (c + 2 + k) false fs).1)
  | .unit => ("null".toList, [], false)
  | .none => ("null".toList, [], false)
  | .bool b => ((if b then "true".toList else "false".toList), [], false)
  | .int i => (intText i, [], false)
  | .str s => (s, [], false)
  | .unitVariant _ n => (n, [], false)
  | _ => ([], [], lvb)
/-- a sequence right after `- ` (at column `c`): its first item stays on the line, all its dashes at `c + 2` -/
def laySeqItem (k : Nat) (cp : Bool) (c : Nat) (lvb : Bool) : List SVal → List Char × List Line × Bool
  | [] => ("[]".toList, [], lvb)
  | x :: xs =>
    let r := layItem k cp (c + 2) lvb x
    let r2 := layItems k cp (c + 2) r.2.2 xs
    (['-', ' '] ++ r.1, r.2.1 ++ r2.1, true)
/-- a mapping right after `- ` (at column `c`): first key inline (the key prefix resets `lvb`), all its keys at `c + 2` -/
def layMapItem (k : Nat) (cp : Bool) (c : Nat) (lvb : Bool) : List (SVal × SVal) → List Char × List Line × Bool
  | [] => ("{}".toList, [], lvb)
  | (key, v) :: rest =>
    match keyOf key with
    | some kt =>
      let r := layVal k cp true (c + 2) false v
      let r2 := layEntries k cp (c + 2) r.2.2 rest
      (kt ++ [':'] ++ r.1, r.2.1 ++ r2.1, true)
    | none =>
      -- a composite first key: `- ? key`, then `: value` under the `?`
      let rk := layItem k cp (c + 2) false key
      let rv := layItem k cp (c + 2) false v
      let r2 := layEntries k cp (c + 2) rv.2.2 rest
      (['?', ' '] ++ rk.1, rk.2.1 ++ ⟨c + 2, [':', ' '] ++ rv.1⟩ :: rv.2.1 ++ r2.1, true)
/-- the items of a block sequence whose dashes are at column `c`, each starting its own line -/
def layItems (k : Nat) (cp : Bool) (c : Nat) (lvb : Bool) : List SVal → List Line × Bool
  | [] => ([], lvb)
  | x :: xs =>
    let r := layItem k cp c lvb x
    let r2 := layItems k cp c r.2.2 xs
    (⟨c, ['-', ' '] ++ r.1⟩ :: r.2.1 ++ r2.1, r2.2)
/-- the entries of a block mapping whose keys are at column `c`, each starting its own line -/
def layEntries (k : Nat) (cp : Bool) (c : Nat) (lvb : Bool) : List (SVal × SVal) → List Line × Bool
  | [] => ([], lvb)
  | (key, v) :: es =>
    match keyOf key with
    | some kt =>
      let r := layVal k cp true c lvb v
      let r2 := layEntries k cp c r.2.2 es
      (⟨c, kt ++ [':'] ++ r.1⟩ :: r.2.1 ++ r2.1, r2.2)
    | none =>
      -- a composite key: `? key` and `: value`, each laid out like a sequence item after its dash
      let rk := layItem k cp c lvb key
      let rv := layItem k cp c false v
      let r2 := layEntries k cp c rv.2.2 es
      (⟨c, ['?', ' '] ++ rk.1⟩ :: rk.2.1 ++ ⟨c, [':', ' '] ++ rv.1⟩ :: rv.2.1 ++ r2.1, r2.2)
end

/-- the document of a root value (`k` = `indent_step`, `cp` = `compact_list_indent`) -/
def layRoot (k : Nat) (cp : Bool) : SVal → List Line
  | .some v => layRoot k cp v
  | .newtypeStruct v => layRoot k cp v
  | .seq xs => if xs.isEmpty then [⟨0, "[]".toList⟩] else (layItems k cp 0 false xs).1
  | .tuple xs => if xs.isEmpty then [⟨0, "[]".toList⟩] else (layItems k cp 0 false xs).1
  | .tupleStruct xs => if xs.isEmpty then [⟨0, "[]".toList⟩] else (layItems k cp 0 false xs).1
  | .map _ es => if es.isEmpty then [⟨0, "{}".toList⟩] else (layEntries k cp 0 false es).1
  | .newtypeVariant n v =>
    let r := layVal k cp false 0 false v
    ⟨0, n ++ [':'] ++ r.1⟩ :: r.2.1
  | .tupleVariant n xs =>
    let r := seqValOf xs.isEmpty (layItems k cp k false xs).1
    ⟨0, n ++ [':'] ++ r.1⟩ :: r.2.1
  | .structVariant n fs =>
    let r := mapValOf k false fs.isEmpty (layEntries k cp k false fs).1
    ⟨0, n ++ [':'] ++ r.1⟩ :: r.2.1
  | v => match leafTok v with
    | some tok => [⟨0, tok⟩]
    | none => []

/-- text of a list of lines -/
def renderLines : List Line → List Char
  | [] => []
  | l :: ls => spaces l.indent ++ l.text ++ ['\n'] ++ renderLines ls

end SaphyrVerif.Emit
