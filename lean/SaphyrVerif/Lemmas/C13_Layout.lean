import SaphyrVerif.Spec.EmitReader
/-!
C13 proof machinery, part 1: the proved FRAGMENT of the value grammar and a flag-free structural
LAYOUT function (`layRoot`) describing the lines the emitter produces for it.  `Lemmas/C13_Emit.lean`
proves that the emitter state machine produces exactly this layout (the emitter invariant);
`Lemmas/C13_Read.lean` proves that the reference reader maps the layout back to `erase v`.

Fragment: null (unit / none), booleans, integers, safe strings, options, ordinary newtype structs,
block sequences and tuples, block mappings / structs with distinct safe string keys, unit variants
and newtype variants, nested arbitrarily.  Options: `indent_step = 2`, `empty_as_braces`, no
`compact_list_indent`, no `quote_all`, no `yaml_12`, no `tagged_enums`.
-/
namespace SaphyrVerif.Emit
open SaphyrVerif

def isLowerAlpha (c : Char) : Bool := 'a' ≤ c && c ≤ 'z'
def isLowerAlnum (c : Char) : Bool := isLowerAlpha c || ('0' ≤ c && c ≤ '9')

/-- words the untyped reader resolves to null / booleans, and the float words the emitter quotes -/
def reservedWords : List (List Char) :=
  ["null".toList, "true".toList, "false".toList, "y".toList, "n".toList, "yes".toList, "no".toList,
   "on".toList, "off".toList, "nan".toList, "inf".toList]

/-- the SAFE leaf class: `[a-z][a-z0-9]*` minus the reserved words -/
def isSafeStr (s : List Char) : Bool :=
  match s with
  | [] => false
  | c :: cs => isLowerAlpha c && cs.all isLowerAlnum && !reservedWords.contains s

/-- what C13 / C20 assume about the scalar-text functions (proved for the real ones by C12):
safe strings are plain-safe in every position -/
structure SafeContract (f : ScalarFns) : Prop where
  plain : ∀ s, isSafeStr s = true → f.isPlainSafe s = true
  value : ∀ s y fl, isSafeStr s = true → f.isPlainValueSafe s y fl = true
  shape : ∀ s, isSafeStr s = true → f.isUnsafePlainShape s = false

/-- the option vectors of the proved fragment -/
structure FragOpts (o : Opts) : Prop where
  indent : o.indentStep = 2
  braces : o.emptyAsBraces = true
  compact : o.compactListIndent = false
  quoteAll : o.quoteAll = false
  yaml12 : o.yaml12 = false
  tagged : o.taggedEnums = false

/-- the scalar token of a fragment leaf -/
def leafTok : SVal → Option (List Char)
  | .unit => some "null".toList
  | .none => some "null".toList
  | .bool b => some (if b then "true".toList else "false".toList)
  | .int i => some (intText i)
  | .str s => some s
  | .unitVariant _ n => some n
  | _ => none

def keyOf : SVal → Option (List Char)
  | .str k => some k
  | _ => none

mutual
/-- the proved fragment (`w` = `folded_wrap_chars`: longer strings are auto-folded) -/
def inFrag (w : Nat) : SVal → Bool
  | .unit => true
  | .none => true
  | .bool _ => true
  | .int _ => true
  | .str s => isSafeStr s && s.length ≤ w
  | .unitVariant _ n => isSafeStr n && n.length ≤ w
  | .some v => inFrag w v
  | .newtypeStruct v => inFrag w v
  | .seq xs => inFragList w xs
  | .tuple xs => inFragList w xs
  | .map _ es => inFragEntries w es && (keysOf es).Nodup
  | .newtypeVariant n v => isSafeStr n && inFrag w v
  | _ => false
def inFragList (w : Nat) : List SVal → Bool
  | [] => true
  | v :: vs => inFrag w v && inFragList w vs
def inFragEntries (w : Nat) : List (SVal × SVal) → Bool
  | [] => true
  | (k, v) :: es => (match k with | .str s => isSafeStr s | _ => false) && inFrag w v && inFragEntries w es
/-- key texts (only meaningful for string keys) -/
def keysOf : List (SVal × SVal) → List (List Char)
  | [] => []
  | (k, _) :: es => (match k with | .str s => s | _ => []) :: keysOf es
end

/-! ### layout -/

def col (depth : Nat) : Nat := 2 * depth

/-- a sequence right after `key:` (mapping keys at depth `m`): empty = `[]` inline (on its own
line after a block sibling), otherwise the item lines (given as `items`) -/
def seqValOf (m : Nat) (lvb : Bool) (isEmpty : Bool) (items : List Line) : List Char × List Line × Bool :=
  if isEmpty then (if lvb then ([], [⟨col (m + 1), "[]".toList⟩], false) else (" []".toList, [], false))
  else ([], items, true)

mutual
/-- value right after `key:` of a mapping whose keys are at depth `m`; `lvb` = the incoming
`last_value_was_block`.  Result: rest of the key line, the following lines, outgoing `lvb`. -/
def layVal (m : Nat) (lvb : Bool) : SVal → List Char × List Line × Bool
  | .some v => layVal m lvb v
  | .newtypeStruct v => layVal m lvb v
  | .seq xs => seqValOf m lvb xs.isEmpty (layItems (m + 1) false xs).1
  | .tuple xs => seqValOf m lvb xs.isEmpty (layItems (m + 1) false xs).1
  | .map _ es =>
    if es.isEmpty then (if lvb then ([], [⟨col (m + 1), "{}".toList⟩], false) else (" {}".toList, [], false))
    else ([], (layEntries (m + 1) false es).1, true)
  | .newtypeVariant n v =>
    let r := layVal (m + 1) lvb v
    ([], ⟨col (m + 1), n ++ [':'] ++ r.1⟩ :: r.2.1, r.2.2)
  | .unit => (' ' :: "null".toList, [], false)
  | .none => (' ' :: "null".toList, [], false)
  | .bool b => (' ' :: (if b then "true".toList else "false".toList), [], false)
  | .int i => (' ' :: intText i, [], false)
  | .str s => (' ' :: s, [], false)
  | .unitVariant _ n => (' ' :: n, [], false)
  | _ => ([], [], lvb)
/-- value right after `- ` of a sequence whose dashes are at depth `d` -/
def layItem (d : Nat) (lvb : Bool) : SVal → List Char × List Line × Bool
  | .some v => layItem d lvb v
  | .newtypeStruct v => layItem d lvb v
  | .seq xs => laySeqItem d lvb xs
  | .tuple xs => laySeqItem d lvb xs
  | .map _ es => layMapItem d lvb es
  | .newtypeVariant n v =>
    let r := layVal (d + 1) lvb v
    (n ++ [':'] ++ r.1, r.2.1, r.2.2)
  | .unit => ("null".toList, [], false)
  | .none => ("null".toList, [], false)
  | .bool b => ((if b then "true".toList else "false".toList), [], false)
  | .int i => (intText i, [], false)
  | .str s => (s, [], false)
  | .unitVariant _ n => (n, [], false)
  | _ => ([], [], lvb)
/-- a sequence right after `- `: its first item stays on the line -/
def laySeqItem (d : Nat) (lvb : Bool) : List SVal → List Char × List Line × Bool
  | [] => ("[]".toList, [], lvb)
  | x :: xs =>
    let r := layItem (d + 1) lvb x
    let r2 := layItems (d + 1) r.2.2 xs
    (['-', ' '] ++ r.1, r.2.1 ++ r2.1, true)
/-- a mapping right after `- `: first key inline (the key prefix resets `lvb`), the others aligned -/
def layMapItem (d : Nat) (lvb : Bool) : List (SVal × SVal) → List Char × List Line × Bool
  | [] => ("{}".toList, [], lvb)
  | (k, v) :: rest =>
    let r := layVal (d + 1) false v
    let r2 := layEntries (d + 1) r.2.2 rest
    ((keyOf k).getD [] ++ [':'] ++ r.1, r.2.1 ++ r2.1, true)
/-- the items of a block sequence at depth `d`, each starting its own line -/
def layItems (d : Nat) (lvb : Bool) : List SVal → List Line × Bool
  | [] => ([], lvb)
  | x :: xs =>
    let r := layItem d lvb x
    let r2 := layItems d r.2.2 xs
    (⟨col d, ['-', ' '] ++ r.1⟩ :: r.2.1 ++ r2.1, r2.2)
/-- the entries of a block mapping at depth `m`, each starting its own line -/
def layEntries (m : Nat) (lvb : Bool) : List (SVal × SVal) → List Line × Bool
  | [] => ([], lvb)
  | (k, v) :: es =>
    let r := layVal m lvb v
    let r2 := layEntries m r.2.2 es
    (⟨col m, (keyOf k).getD [] ++ [':'] ++ r.1⟩ :: r.2.1 ++ r2.1, r2.2)
end

/-- the document of a root value -/
def layRoot : SVal → List Line
  | .some v => layRoot v
  | .newtypeStruct v => layRoot v
  | .seq xs => if xs.isEmpty then [⟨0, "[]".toList⟩] else (layItems 0 false xs).1
  | .tuple xs => if xs.isEmpty then [⟨0, "[]".toList⟩] else (layItems 0 false xs).1
  | .map _ es => if es.isEmpty then [⟨0, "{}".toList⟩] else (layEntries 0 false es).1
  | .newtypeVariant n v =>
    let r := layVal 0 false v
    ⟨0, n ++ [':'] ++ r.1⟩ :: r.2.1
  | v => match leafTok v with
    | some tok => [⟨0, tok⟩]
    | none => []

/-- text of a list of lines -/
def renderLines : List Line → List Char
  | [] => []
  | l :: ls => spaces l.indent ++ l.text ++ ['\n'] ++ renderLines ls

end SaphyrVerif.Emit
