import SaphyrVerif.Spec.EmitReader
/-!
C13 proof machinery, part 1: the proved FRAGMENT of the value grammar (`inFragP P`: over a class `P` of
strings) and a flag-free structural LAYOUT function (`layRoot T`: over texts `T` that give what is
written for a string leaf in a position — a token, or the header and the body lines of a block scalar — / for a
string key / variant name / unit variant) describing the lines the emitter produces for it.  `Lemmas/C13_Emit.lean` proves that the emitter state machine produces exactly this layout
(the emitter invariant) whenever the scalar-text functions satisfy the write contract for `P` and `T`;
`Lemmas/C13_Read.lean` proves that the reference reader maps the layout back to `erase v` whenever the tokens
satisfy the read contract.  Instances: the SAFE class (`Lemmas/C13_Safe.lean`, any scalar-text functions with
`SafeContract`) and arbitrary strings for the crate's own functions (`Lemmas/C13_Compose.lean`).

Fragment: null (unit / none), booleans, integers, strings of the class, options, ordinary newtype structs,
block sequences, tuples and tuple structs, block mappings / structs whose keys are strings of the class or
composite (sequences, mappings, variants with data of the fragment, written `? key` / `: value`) and
pairwise different, unit, newtype, tuple and struct variants, nested arbitrarily; a string key / variant name whose
text is longer than 1024 characters (`fitsImplicit`) is laid out as an explicit key too.  Options: every
`indent_step ≥ 1`, `compact_list_indent` on or off, `empty_as_braces`; `yaml_12` (the prologue), `quote_all`
and `tagged_enums` (the tokens) on or off.
-/
namespace SaphyrVerif.Emit
open SaphyrVerif

def isLowerAlpha (c : Char) : Bool := 'a' ≤ c && c ≤ 'z'
def isLowerAlnum (c : Char) : Bool := isLowerAlpha c || ('0' ≤ c && c ≤ '9')

/-- words the untyped reader resolves to null / booleans, and the float words the emitter quotes -/
def reservedWords : List (List Char) :=
  ["null".toList, "true".toList, "false".toList, "y".toList, "n".toList, "yes".toList, "no".toList,
   "on".toList, "off".toList, "nan".toList, "inf".toList]

/-- the SAFE leaf class: `[a-z][a-z0-9]*` minus the reserved words -/
def isSafeStr (s : List Char) : Bool :=
  match s with
  | [] => false
  | c :: cs => isLowerAlpha c && cs.all isLowerAlnum && !reservedWords.contains s

/-- what C13 / C20 assume about the scalar-text functions (proved for the real ones by C12):
safe strings are plain-safe in every position -/
structure SafeContract (f : ScalarFns) : Prop where
  plain : ∀ s, isSafeStr s = true → f.isPlainSafe s = true
  value : ∀ s y fl, isSafeStr s = true → f.isPlainValueSafe s y fl = true
  shape : ∀ s, isSafeStr s = true → f.isUnsafePlainShape s = false

/-- the option vectors of the proved fragment: every `indent_step ≥ 1`, `empty_as_braces`; `yaml_12`,
`quote_all`, `tagged_enums`, `compact_list_indent`, `min_fold_chars`, `folded_wrap_chars`,
`prefer_block_scalars` arbitrary -/
structure FragOpts (o : Opts) : Prop where
  indent : o.indentStep ≥ 1
  braces : o.emptyAsBraces = true

/-- the option vectors of the C20 flow / literal fragments: the scalar-style options off -/
structure PlainOpts (o : Opts) : Prop extends FragOpts o where
  quoteAll : o.quoteAll = false
  tagged : o.taggedEnums = false

/-- where a string leaf stands: right after `key:` of a mapping whose keys are at column `c`, right after `- ` /
`? ` / `: ` of an entry whose indicator is at column `c`, or at the root of the document -/
inductive StrPos where
  | val (c : Nat)
  | item (c : Nat)
  | root
deriving Repr, DecidableEq

/-- the least indentation a node in this position may have (parent column + 1; 0 at the root) -/
def StrPos.minIndent : StrPos → Nat
  | .val c => c + 1
  | .item c => c + 1
  | .root => 0

/-- the scalar texts of a layout: what is written for a string leaf — the text on the line of the leaf and
the lines that follow it (none for a plain / quoted token; the body lines of a block scalar), given
`indent_step` and the position —, for a string key, for the name of a variant with data (the key of
`Variant: payload`), for a unit variant in value position (enum name, variant name; like a string leaf: text on
the line, following lines) -/
structure Toks where
  strAt : Nat → StrPos → List Char → List Char × List Line
  key : List Char → List Char
  name : List Char → List Char
  unitAt : Nat → StrPos → List Char → List Char → List Char × List Line

/-- the tokens when every string leaf and every unit variant is ONE token, the same in every position -/
def Toks.ofStr (str key name : List Char → List Char) (unit : List Char → List Char → List Char) : Toks :=
  ⟨fun _ _ s => (str s, []), key, name, fun _ _ e n => (unit e n, [])⟩

/-- the text on the line of a string leaf at the root (for tokens made with `Toks.ofStr`: the token) -/
def Toks.str (T : Toks) (s : List Char) : List Char := (T.strAt 2 .root s).1

/-- the text on the line of a unit variant at the root (for tokens made with `Toks.ofStr`: the token) -/
def Toks.unit (T : Toks) (e n : List Char) : List Char := (T.unitAt 2 .root e n).1

/-- every string leaf and every unit variant is one token (no block scalars) -/
def Toks.IsTok (T : Toks) : Prop :=
  (∀ k pos s, T.strAt k pos s = (T.str s, [])) ∧ (∀ k pos e n, T.unitAt k pos e n = (T.unit e n, []))

theorem Toks.ofStr_isTok (str key name : List Char → List Char) (unit : List Char → List Char → List Char) :
    (Toks.ofStr str key name unit).IsTok := ⟨fun _ _ _ => rfl, fun _ _ _ _ => rfl⟩

@[simp] theorem Toks.ofStr_str (str key name : List Char → List Char) (unit : List Char → List Char → List Char) (s : List Char) :
    (Toks.ofStr str key name unit).str s = str s := rfl
@[simp] theorem Toks.ofStr_strAt (str key name : List Char → List Char) (unit : List Char → List Char → List Char) (k : Nat)
    (pos : StrPos) (s : List Char) : (Toks.ofStr str key name unit).strAt k pos s = (str s, []) := rfl
@[simp] theorem Toks.ofStr_key (str key name : List Char → List Char) (unit : List Char → List Char → List Char) :
    (Toks.ofStr str key name unit).key = key := rfl
@[simp] theorem Toks.ofStr_name (str key name : List Char → List Char) (unit : List Char → List Char → List Char) :
    (Toks.ofStr str key name unit).name = name := rfl
@[simp] theorem Toks.ofStr_unit (str key name : List Char → List Char) (unit : List Char → List Char → List Char) (e n : List Char) :
    (Toks.ofStr str key name unit).unit e n = unit e n := rfl
@[simp] theorem Toks.ofStr_unitAt (str key name : List Char → List Char) (unit : List Char → List Char → List Char) (k : Nat)
    (pos : StrPos) (e n : List Char) : (Toks.ofStr str key name unit).unitAt k pos e n = (unit e n, []) := rfl

/-- every string is written as itself -/
def plainToks : Toks := Toks.ofStr (fun s => s) (fun s => s) (fun s => s) (fun _ n => n)

/-- the classes of strings a fragment admits as string leaves, as string keys, as names of variants
with data, as (enum name, variant name) of unit variants -/
structure LeafPred where
  str : List Char → Bool
  key : List Char → Bool
  name : List Char → Bool
  unit : List Char → List Char → Bool

/-- characters a line of the dialect can carry: no line break (LF, CR), no NUL -/
def lineChar (c : Char) : Bool := c != '\n' && c != '\r' && c != Char.ofNat 0

/-- characters of an (ASCII) Rust identifier -/
def isIdentChar (c : Char) : Bool :=
  ('a' ≤ c && c ≤ 'z') || ('A' ≤ c && c ≤ 'Z') || ('0' ≤ c && c ≤ '9') || c == '_'

/-- an enum name that can stand in a tag (`tagged_enums` writes `!!Enum variant` with the enum name as it
is): a non-empty ASCII identifier -/
def tagNameOk (e : List Char) : Bool := !e.isEmpty && e.all isIdentChar

/-- the SAFE class everywhere (strings longer than `folded_wrap_chars` are auto-folded: not in the class);
under `tagged_enums` the enum name of a unit variant must be able to stand in a tag -/
def safePred (o : Opts) : LeafPred :=
  ⟨fun s => isSafeStr s && s.length ≤ o.foldedWrapCol, isSafeStr, isSafeStr,
   fun e n => isSafeStr n && n.length ≤ o.foldedWrapCol && (!o.taggedEnums || tagNameOk e)⟩

/-- the scalar token of a fragment leaf other than a string / a unit variant -/
def leafTok (T : Toks) : SVal → Option (List Char)
  | .unit => some "null".toList
  | .none => some "null".toList
  | .bool b => some (if b then "true".toList else "false".toList)
  | .int i => some (intText i)
  | _ => none

def keyOf : SVal → Option (List Char)
  | .str k => some k
  | _ => none

/-- a string key of the class -/
def keyOk (P : LeafPred) (k : SVal) : Bool :=
  match keyOf k with
  | some kt => P.key kt
  | none => false

theorem keyOk_iff {P : LeafPred} {k : SVal} (h : keyOk P k = true) : ∃ kt, k = .str kt ∧ P.key kt = true := by
  cases k <;> simp [keyOk, keyOf] at h
  exact ⟨_, rfl, h⟩

/-- the non-scalar keys of the fragment (written as explicit keys `? key`) -/
def isComplexKey : SVal → Bool
  | .seq _ => true
  | .tuple _ => true
  | .tupleStruct _ => true
  | .map _ _ => true
  | .newtypeVariant _ _ => true
  | .tupleVariant _ _ => true
  | .structVariant _ _ => true
  | .some v => isComplexKey v
  | .newtypeStruct v => isComplexKey v
  | _ => false

mutual
/-- the proved fragment over a class `P` of strings -/
def inFragP (P : LeafPred) : SVal → Bool
  | .unit => true
  | .none => true
  | .bool _ => true
  | .int _ => true
  | .str s => P.str s
  | .unitVariant e n => P.unit e n
  | .some v => inFragP P v
  | .newtypeStruct v => inFragP P v
  | .seq xs => inFragListP P xs
  | .tuple xs => inFragListP P xs
  | .tupleStruct xs => inFragListP P xs
  | .map _ es => inFragEntriesP P es && !hasDupKey (eraseEntries es)
  | .newtypeVariant n v => P.name n && inFragP P v
  | .tupleVariant n xs => P.name n && inFragListP P xs
  | .structVariant n fs => P.name n && (inFragEntriesP P fs && !hasDupKey (eraseEntries fs))
  | _ => false
def inFragListP (P : LeafPred) : List SVal → Bool
  | [] => true
  | v :: vs => inFragP P v && inFragListP P vs
def inFragEntriesP (P : LeafPred) : List (SVal × SVal) → Bool
  | [] => true
  | (k, v) :: es => (keyOk P k || (isComplexKey k && inFragP P k)) && inFragP P v && inFragEntriesP P es
end

/-- the fragment with SAFE strings (for the option vector `o`: `folded_wrap_chars`, `tagged_enums`) -/
abbrev inFrag (o : Opts) (v : SVal) : Bool := inFragP (safePred o) v
abbrev inFragList (o : Opts) (xs : List SVal) : Bool := inFragListP (safePred o) xs
abbrev inFragEntries (o : Opts) (es : List (SVal × SVal)) : Bool := inFragEntriesP (safePred o) es

/-- key texts (only meaningful for string keys) -/
def keysOf : List (SVal × SVal) → List (List Char)
  | [] => []
  | (k, _) :: es => (match k with | .str s => s | _ => []) :: keysOf es

/-! ### layout

Positions are COLUMNS: `k` is `indent_step`; the keys of a mapping / the dashes of a sequence stand at a
column `c`; a collection after `key:` goes to the following lines at column `c + k`, the first entry
of a collection after `- ` stays on the dash line, i.e. at column `c + 2`, and so do its other entries. -/

/-- a sequence right after `key:`: empty = ` []` on the line of the key, otherwise the item lines
(given as `items`) -/
def seqValOf (isEmpty : Bool) (items : List Line) : List Char × List Line × Bool :=
  if isEmpty then (" []".toList, [], false) else ([], items, true)

/-- a mapping right after `key:`: empty = ` {}` on the line of the key (on its own line at column `c`
after a block sibling), otherwise the entry lines (given as `entries`) -/
def mapValOf (c : Nat) (lvb : Bool) (isEmpty : Bool) (entries : List Line) : List Char × List Line × Bool :=
  if isEmpty then (if lvb then ([], [⟨c, "{}".toList⟩], false) else (" {}".toList, [], false))
  else ([], entries, true)

/-- is the text of a key short enough for an implicit key `key:` (at most 1024 characters)?  A longer scalar key /
variant name is written as an explicit key: `? key`, and `: value` on the next line. -/
def fitsImplicit (t : List Char) : Bool := decide (t.length ≤ 1024)

/-- `Variant:` right after `key:`: on the next line at column `c`; `r` = the layout of the payload after
`Variant:`.  A name too long for an implicit key: `? Variant` at column `c` and `: payload` under it; `ri` = the
layout of the payload after `: ` (like a sequence item after a dash at column `c`). -/
def variantVal (c : Nat) (n : List Char) (r ri : List Char × List Line × Bool) : List Char × List Line × Bool :=
  if fitsImplicit n then ([], ⟨c, n ++ [':'] ++ r.1⟩ :: r.2.1, r.2.2)
  else ([], ⟨c, ['?', ' '] ++ n⟩ :: ⟨c, [':', ' '] ++ ri.1⟩ :: ri.2.1, ri.2.2)

/-- `Variant:` right after `- ` (dash at column `c`): on the dash line.  A name too long for an implicit key:
`? Variant` on the dash line, `: payload` under the `?` (column `c + 2`); `ri` = the layout of the payload after `: ` -/
def variantItem (c : Nat) (n : List Char) (r ri : List Char × List Line × Bool) : List Char × List Line × Bool :=
  if fitsImplicit n then (n ++ [':'] ++ r.1, r.2.1, r.2.2)
  else (['?', ' '] ++ n, ⟨c + 2, [':', ' '] ++ ri.1⟩ :: ri.2.1, ri.2.2)

/-- `Variant:` at the root -/
def variantRoot (n : List Char) (r ri : List Char × List Line × Bool) : List Line :=
  if fitsImplicit n then ⟨0, n ++ [':'] ++ r.1⟩ :: r.2.1
  else ⟨0, ['?', ' '] ++ n⟩ :: ⟨0, [':', ' '] ++ ri.1⟩ :: ri.2.1

/-- the column of the dashes of a sequence right after `key:` (keys at column `c`): one step deeper,
or — `compact_list_indent` inside a mapping (`current_map_depth` set) — the column of the keys -/
def seqCol (k : Nat) (cp inMap : Bool) (c : Nat) : Nat := if cp && inMap then c else c + k

mutual
/-- value right after `key:` of a mapping whose keys are at column `c`; `cp` = `compact_list_indent`,
`inMap` = `current_map_depth` is set (always, except for the payload of a variant at the root);
`lvb` = the incoming `last_value_was_block`.  Result: rest of the key line, the following lines,
outgoing `lvb`. -/
def layVal (T : Toks) (k : Nat) (cp inMap : Bool) (c : Nat) (lvb : Bool) : SVal → List Char × List Line × Bool
  | .some v => layVal T k cp inMap c lvb v
  | .newtypeStruct v => layVal T k cp inMap c lvb v
  | .seq xs => seqValOf xs.isEmpty (layItems T k cp (seqCol k cp inMap c) false xs).1
  | .tuple xs => seqValOf xs.isEmpty (layItems T k cp (seqCol k cp inMap c) false xs).1
  | .tupleStruct xs => seqValOf xs.isEmpty (layItems T k cp (seqCol k cp inMap c) false xs).1
  | .map _ es => mapValOf (c + k) lvb es.isEmpty (layEntries T k cp (c + k) false es).1
  | .newtypeVariant n v => variantVal (c + k) (T.name n) (layVal T k cp true (c + k) lvb v) (layItem T k cp (c + k) lvb v)
  | .tupleVariant n xs => variantVal (c + k) (T.name n) (seqValOf xs.isEmpty (layItems T k cp (seqCol k cp true (c + k)) false xs).1)
      (laySeqItem T k cp (c + k) lvb xs)
  | .structVariant n fs => variantVal (c + k) (T.name n) (mapValOf (c + k + k) lvb fs.isEmpty (layEntries T k cp (c + k + k) false fs).1)
      (layMapItem T k cp (c + k) lvb fs)
  | .unit => (' ' :: "null".toList, [], false)
  | .none => (' ' :: "null".toList, [], false)
  | .bool b => (' ' :: (if b then "true".toList else "false".toList), [], false)
  | .int i => (' ' :: intText i, [], false)
  | .str s => (' ' :: (T.strAt k (.val c) s).1, (T.strAt k (.val c) s).2, false)
  | .unitVariant e n => (' ' :: (T.unitAt k (.val c) e n).1, (T.unitAt k (.val c) e n).2, false)
  | _ => ([], [], lvb)
/-- value right after `- ` of a sequence whose dashes are at column `c` -/
def layItem (T : Toks) (k : Nat) (cp : Bool) (c : Nat) (lvb : Bool) : SVal → List Char × List Line × Bool
  | .some v => layItem T k cp c lvb v
  | .newtypeStruct v => layItem T k cp c lvb v
  | .seq xs => laySeqItem T k cp c lvb xs
  | .tuple xs => laySeqItem T k cp c lvb xs
  | .tupleStruct xs => laySeqItem T k cp c lvb xs
  | .map _ es => layMapItem T k cp c lvb es
  | .newtypeVariant n v => variantItem c (T.name n) (layVal T k cp true (c + 2) lvb v) (layItem T k cp (c + 2) lvb v)
  | .tupleVariant n xs => variantItem c (T.name n) (seqValOf xs.isEmpty (layItems T k cp (seqCol k cp true (c + 2)) false xs).1)
      (laySeqItem T k cp (c + 2) lvb xs)
  | .structVariant n fs => variantItem c (T.name n) (mapValOf (c + 2 + k) lvb fs.isEmpty (layEntries T k cp (c + 2 + k) false fs).1)
      (layMapItem T k cp (c + 2) lvb fs)
  | .unit => ("null".toList, [], false)
  | .none => ("null".toList, [], false)
  | .bool b => ((if b then "true".toList else "false".toList), [], false)
  | .int i => (intText i, [], false)
  | .str s => ((T.strAt k (.item c) s).1, (T.strAt k (.item c) s).2, false)
  | .unitVariant e n => ((T.unitAt k (.item c) e n).1, (T.unitAt k (.item c) e n).2, false)
  | _ => ([], [], lvb)
/-- a sequence right after `- ` (at column `c`): its first item stays on the line, all its dashes at `c + 2` -/
def laySeqItem (T : Toks) (k : Nat) (cp : Bool) (c : Nat) (lvb : Bool) : List SVal → List Char × List Line × Bool
  | [] => ("[]".toList, [], lvb)
  | x :: xs =>
    let r := layItem T k cp (c + 2) lvb x
    let r2 := layItems T k cp (c + 2) r.2.2 xs
    (['-', ' '] ++ r.1, r.2.1 ++ r2.1, true)
/-- a mapping right after `- ` (at column `c`): first key inline (the key prefix resets `lvb`), all its keys at `c + 2` -/
def layMapItem (T : Toks) (k : Nat) (cp : Bool) (c : Nat) (lvb : Bool) : List (SVal × SVal) → List Char × List Line × Bool
  | [] => ("{}".toList, [], lvb)
  | (key, v) :: rest =>
    match keyOf key with
    | some kt =>
      if fitsImplicit (T.key kt) then
        let r := layVal T k cp true (c + 2) false v
        let r2 := layEntries T k cp (c + 2) r.2.2 rest
        (T.key kt ++ [':'] ++ r.1, r.2.1 ++ r2.1, true)
      else
        -- a first key too long for an implicit key: `- ? key`, then `: value` under the `?`
        let rv := layItem T k cp (c + 2) false v
        let r2 := layEntries T k cp (c + 2) rv.2.2 rest
        (['?', ' '] ++ T.key kt, ⟨c + 2, [':', ' '] ++ rv.1⟩ :: rv.2.1 ++ r2.1, true)
    | none =>
      -- a composite first key: `- ? key`, then `: value` under the `?`
      let rk := layItem T k cp (c + 2) false key
      let rv := layItem T k cp (c + 2) false v
      let r2 := layEntries T k cp (c + 2) rv.2.2 rest
      (['?', ' '] ++ rk.1, rk.2.1 ++ ⟨c + 2, [':', ' '] ++ rv.1⟩ :: rv.2.1 ++ r2.1, true)
/-- the items of a block sequence whose dashes are at column `c`, each starting its own line -/
def layItems (T : Toks) (k : Nat) (cp : Bool) (c : Nat) (lvb : Bool) : List SVal → List Line × Bool
  | [] => ([], lvb)
  | x :: xs =>
    let r := layItem T k cp c lvb x
    let r2 := layItems T k cp c r.2.2 xs
    (⟨c, ['-', ' '] ++ r.1⟩ :: r.2.1 ++ r2.1, r2.2)
/-- the entries of a block mapping whose keys are at column `c`, each starting its own line -/
def layEntries (T : Toks) (k : Nat) (cp : Bool) (c : Nat) (lvb : Bool) : List (SVal × SVal) → List Line × Bool
  | [] => ([], lvb)
  | (key, v) :: es =>
    match keyOf key with
    | some kt =>
      if fitsImplicit (T.key kt) then
        let r := layVal T k cp true c lvb v
        let r2 := layEntries T k cp c r.2.2 es
        (⟨c, T.key kt ++ [':'] ++ r.1⟩ :: r.2.1 ++ r2.1, r2.2)
      else
        -- a key too long for an implicit key: `? key` and `: value`, the value laid out like a sequence item
        let rv := layItem T k cp c false v
        let r2 := layEntries T k cp c rv.2.2 es
        (⟨c, ['?', ' '] ++ T.key kt⟩ :: ⟨c, [':', ' '] ++ rv.1⟩ :: rv.2.1 ++ r2.1, r2.2)
    | none =>
      -- a composite key: `? key` and `: value`, each laid out like a sequence item after its dash
      let rk := layItem T k cp c lvb key
      let rv := layItem T k cp c false v
      let r2 := layEntries T k cp c rv.2.2 es
      (⟨c, ['?', ' '] ++ rk.1⟩ :: rk.2.1 ++ ⟨c, [':', ' '] ++ rv.1⟩ :: rv.2.1 ++ r2.1, r2.2)
end

/-- the document of a root value (`k` = `indent_step`, `cp` = `compact_list_indent`) -/
def layRoot (T : Toks) (k : Nat) (cp : Bool) : SVal → List Line
  | .some v => layRoot T k cp v
  | .newtypeStruct v => layRoot T k cp v
  | .seq xs => if xs.isEmpty then [⟨0, "[]".toList⟩] else (layItems T k cp 0 false xs).1
  | .tuple xs => if xs.isEmpty then [⟨0, "[]".toList⟩] else (layItems T k cp 0 false xs).1
  | .tupleStruct xs => if xs.isEmpty then [⟨0, "[]".toList⟩] else (layItems T k cp 0 false xs).1
  | .map _ es => if es.isEmpty then [⟨0, "{}".toList⟩] else (layEntries T k cp 0 false es).1
  | .newtypeVariant n v => variantRoot (T.name n) (layVal T k cp false 0 false v) (layItem T k cp 0 false v)
  | .tupleVariant n xs =>
    variantRoot (T.name n) (seqValOf xs.isEmpty (layItems T k cp k false xs).1) (laySeqItem T k cp 0 false xs)
  | .structVariant n fs =>
    variantRoot (T.name n) (mapValOf k false fs.isEmpty (layEntries T k cp k false fs).1) (layMapItem T k cp 0 false fs)
  | .str s => ⟨0, (T.strAt k .root s).1⟩ :: (T.strAt k .root s).2
  | .unitVariant e n => ⟨0, (T.unitAt k .root e n).1⟩ :: (T.unitAt k .root e n).2
  | v => match leafTok T v with
    | some tok => [⟨0, tok⟩]
    | none => []

/-- the text `write_indent` puts before the first token of the document under `yaml_12` -/
def prologueText : List Char :=
  ['%', 'Y', 'A', 'M', 'L', ' ', '1', '.', '2', '\n', '-', '-', '-', '\n']

theorem prologueText_eq : "%YAML 1.2\n---\n".toList = prologueText := by decide

/-- the prologue of a document: the `%YAML 1.2` directive and the document start marker under
`yaml_12`, nothing otherwise -/
def prologue (o : Opts) : List Char := if o.yaml12 then prologueText else []

/-- the directive line `%YAML 1.2` -/
def directiveLine : Line := ⟨0, ['%', 'Y', 'A', 'M', 'L', ' ', '1', '.', '2']⟩
/-- the document start marker line `---` -/
def startLine : Line := ⟨0, ['-', '-', '-']⟩

/-- the lines of the prologue -/
def prologueLines (o : Opts) : List Line := if o.yaml12 then [directiveLine, startLine] else []

/-- text of a list of lines -/
def renderLines : List Line → List Char
  | [] => []
  | l :: ls => spaces l.indent ++ l.text ++ ['\n'] ++ renderLines ls

end SaphyrVerif.Emit
