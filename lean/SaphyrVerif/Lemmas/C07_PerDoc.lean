import SaphyrVerif.Lemmas.C07
import SaphyrVerif.Model.Pump
/-!
Helper lemmas for the per-document half of C07: the counters of the per-document enforcer over the events of
ONE document are the independent counts of that document (Spec/BudgetSpec.lean, `usageDoc`).

Plan: inside a document (after its `DocumentStart`) no event is a `DocumentStart` or stream framing, and on such
"plain" events the check-free successor `next` does not look at the policy flag; so the counters of the
per-document run are those of a whole-input run started from the state with `events = 1`, for which the counting
lemmas of Lemmas/C07.lean apply.
-/
namespace SaphyrVerif.Lemmas.C07
open SaphyrVerif SaphyrVerif.Scalars SaphyrVerif.Budget SaphyrVerif.Spec

/-- an event that is neither `DocumentStart` nor stream framing -/
def plainEv (ev : Raw) : Bool := !isDocStart ev && !isStreamFrame ev

/-- the same state under the other policy flag -/
def setPd (e : Enf) (pd : Bool) : Enf := { e with perDocument := pd }

@[simp] theorem setPd_report (e : Enf) (pd : Bool) : (setPd e pd).report = e.report := rfl
@[simp] theorem setPd_defined (e : Enf) (pd : Bool) : (setPd e pd).defined = e.defined := rfl
@[simp] theorem setPd_depth (e : Enf) (pd : Bool) : (setPd e pd).depth = e.depth := rfl
@[simp] theorem setPd_containers (e : Enf) (pd : Bool) : (setPd e pd).containers = e.containers := rfl
@[simp] theorem setPd_lim (e : Enf) (pd : Bool) : (setPd e pd).lim = e.lim := rfl
@[simp] theorem setPd_pd (e : Enf) (pd : Bool) : (setPd e pd).perDocument = pd := rfl

theorem plainEv_iff {ev : Raw} : plainEv ev = true ↔ isDocStart ev = false ∧ isStreamFrame ev = false := by
  simp [plainEv]

theorem cstep_plain {ev : Raw} (h : plainEv ev = true) (pd pd' : Bool) (cs : List CState) :
    cstep pd cs ev = cstep pd' cs ev := by
  cases ev <;> first | rfl | (simp [plainEv, isDocStart] at h)

theorem next_plain {ev : Raw} (h : plainEv ev = true) (e : Enf) (pd : Bool) :
    next (setPd e pd) ev = setPd (next e ev) pd := by
  obtain ⟨h1, h2⟩ := plainEv_iff.1 h
  simp only [next, setPd, h1, h2, Bool.and_false, Bool.false_eq_true, if_false]
  rw [cstep_plain h pd e.perDocument]

theorem nextAll_plain {evs : List Raw} (h : evs.all plainEv = true) (e : Enf) (pd : Bool) :
    nextAll (setPd e pd) evs = setPd (nextAll e evs) pd := by
  induction evs generalizing e with
  | nil => rfl
  | cons x xs ih =>
    simp only [List.all_cons, Bool.and_eq_true] at h
    simp only [nextAll]
    rw [next_plain h.1, ih h.2]

mutual
theorem flatten_plain (t : Node) : (flatten t).all plainEv = true := by
  match t with
  | .scalar v st a tag => rfl
  | .alias id => rfl
  | .seq a tag items =>
    simp only [flatten, List.all_cons, List.all_append, flattenL_plain items]; rfl
  | .map a tag entries =>
    simp only [flatten, List.all_cons, List.all_append, flattenE_plain entries]; rfl
theorem flattenL_plain (ts : List Node) : (flattenL ts).all plainEv = true := by
  match ts with
  | [] => rfl
  | t :: ts => simp only [flattenL, List.all_append, flatten_plain t, flattenL_plain ts]; rfl
theorem flattenE_plain (es : List (Node × Node)) : (flattenE es).all plainEv = true := by
  match es with
  | [] => rfl
  | (k, v) :: es =>
    simp only [flattenE, List.all_append, flatten_plain k, flatten_plain v, flattenE_plain es]; rfl
end

/-- the events of a document after its `DocumentStart` -/
def docBody (d : Node) : List Raw := flatten d ++ [.docEnd]

theorem flattenDoc_eq (d : Node) : flattenDoc d = .docStart false :: docBody d := rfl

theorem docBody_plain (d : Node) : (docBody d).all plainEv = true := by
  simp only [docBody, List.all_append, flatten_plain d]; rfl

/-- the whole-input twin of the state right after a `DocumentStart` -/
def docStartStateF (lim : Limits) : Enf := { lim, perDocument := false, report := { events := 1 } }

theorem docStartState_eq (lim : Limits) : docStartState lim 0 = setPd (docStartStateF lim) true := rfl

/-- a document on its own: the `DocumentStart` (one event), then the body from the reset state -/
theorem docRun_eq (lim : Limits) (d : Node) :
    docRun lim d =
      if 1 > lim.maxEvents then .error (0, .events 1) else runFrom (docStartState lim 0) 1 (docBody d) := by
  have hobs : (Enf.new lim true).observe (.docStart false) =
      if 1 > lim.maxEvents then .error (.events 1) else .ok (docStartState lim 0) :=
    observe_docStart_pd false rfl
  unfold docRun
  rw [flattenDoc_eq]
  simp only [runFrom, hobs]
  by_cases h : 1 > lim.maxEvents
  · rw [if_pos h, if_pos h]
  · rw [if_neg h, if_neg h]

/-! ## the counters of the per-document state inside a document -/

section doc
variable (lim : Limits) (evs : List Raw) (hp : evs.all plainEv = true)
include hp

theorem doc_state : nextAll (docStartState lim 0) evs = setPd (nextAll (docStartStateF lim) evs) true := by
  rw [docStartState_eq, nextAll_plain hp]

omit hp in
theorem doc_lim : (nextAll (docStartState lim 0) evs).lim = lim := by simp [docStartState]

theorem doc_events : (nextAll (docStartState lim 0) evs).report.events = 1 + evs.length := by
  rw [doc_state lim evs hp, setPd_report, nextAll_events (by rfl)]; rfl

theorem doc_nodes : (nextAll (docStartState lim 0) evs).report.nodes = nNodes evs := by
  rw [doc_state lim evs hp, setPd_report, nextAll_nodes (by rfl)]; simp [docStartStateF]

theorem doc_aliases : (nextAll (docStartState lim 0) evs).report.aliases = nAliases evs := by
  rw [doc_state lim evs hp, setPd_report, nextAll_aliases (by rfl)]; simp [docStartStateF]

theorem doc_defined : (nextAll (docStartState lim 0) evs).defined = defAfter [] evs := by
  rw [doc_state lim evs hp, setPd_defined, nextAll_defined (by rfl)]; rfl

theorem doc_tsb : (nextAll (docStartState lim 0) evs).report.totalScalarBytes = min (scalarBytes evs) USIZE_MAX := by
  rw [doc_state lim evs hp, setPd_report, nextAll_tsb (by rfl) _ (by simp [docStartStateF])]; simp [docStartStateF]

theorem doc_mergeKeys : (nextAll (docStartState lim 0) evs).report.mergeKeys = mkAll false [] evs := by
  rw [doc_state lim evs hp, setPd_report, nextAll_mergeKeys (by rfl)]; simp [docStartStateF]

theorem doc_containers : (nextAll (docStartState lim 0) evs).containers = cstepAll false [] evs := by
  rw [doc_state lim evs hp, setPd_containers, nextAll_containers]; rfl

theorem doc_depth (hlen : evs.length < 2 ^ 64) :
    (nextAll (docStartState lim 0) evs).depth = depthAfter 0 evs ∧
    (nextAll (docStartState lim 0) evs).report.maxDepth = maxDepthFrom 0 0 evs := by
  rw [doc_state lim evs hp, setPd_report, setPd_depth]
  have := nextAll_depth (e := docStartStateF lim) rfl evs (Nat.le_refl _) (by simpa [docStartStateF] using hlen)
  exact ⟨this.1, this.2.1⟩

end doc

theorem doc_documents (lim : Limits) (evs : List Raw) : (nextAll (docStartState lim 0) evs).report.documents = 0 := by
  rw [nextAll_documents_pd (by rfl)]; rfl

/-! ## the independent counts of `flattenDoc d` in terms of its body -/

theorem nNodes_doc (d : Node) : nNodes (flattenDoc d) = nNodes (docBody d) := by
  rw [flattenDoc_eq, nNodes_cons]; simp [isNodeEv, b2n]

theorem nAliases_doc (d : Node) : nAliases (flattenDoc d) = nAliases (docBody d) := by
  rw [flattenDoc_eq, nAliases_cons]; simp [isAliasEv, b2n]

theorem nAnchors_doc (d : Node) : nAnchors (flattenDoc d) = (defAfter [] (docBody d)).length := by
  rw [nAnchors_eq, flattenDoc_eq]; simp [defAfter, anchorOf]

theorem scalarBytes_doc (d : Node) : scalarBytes (flattenDoc d) = scalarBytes (docBody d) := by
  rw [flattenDoc_eq, scalarBytes_cons]; simp [scalarBytesOf]

theorem maxDepth_doc (d : Node) : maxDepth (flattenDoc d) = maxDepthFrom 0 0 (docBody d) := by
  rw [flattenDoc_eq]; simp [maxDepth, maxDepthFrom, depthStep]

theorem nEvents_doc (d : Node) : nEvents (flattenDoc d) = 1 + (docBody d).length := by
  rw [flattenDoc_eq]; simp [nEvents]; omega

/-- ghost summary of the body of a document (either policy): empty stack at the end, the merge keys of the tree,
well bracketed -/
theorem G_docBody (pd : Bool) (d : Node) : G pd [] (docBody d) = ([], mergeKeys d, true) := by
  simp only [docBody, G_append, G_cons, G_nil, G_node pd d]
  simp [handleAlias, isKeyTop, b2n, mkOf, wf, cstep]

/-! ## the recovery path of the pump (`skip_to_next_document`) -/

/-- `skipLoop` does not touch the budget before the `DocumentStart` it stops at; there it hands the budget to
`begin_document_at` -/
theorem skipLoop_budget (p p' : Pump.Pump) (inp rest : List Pump.RawItem)
    (h : Pump.skipLoop p inp = (true, p', rest)) :
    ∃ b, Pump.skipBudget p.budget (.docStart b) = some p'.budget := by
  induction inp generalizing p with
  | nil => simp [Pump.skipLoop] at h
  | cons it tl ih =>
    cases it with
    | err ua l => simp [Pump.skipLoop] at h
    | ev raw loc =>
      cases raw with
      | docStart b =>
        simp only [Pump.skipLoop] at h
        split at h
        · simp at h
        · rename_i bud hb
          simp only [Prod.mk.injEq, true_and] at h
          obtain ⟨rfl, -⟩ := h
          exact ⟨b, hb⟩
      | streamEnd => simp [Pump.skipLoop] at h
      | docEnd => simp only [Pump.skipLoop] at h; (have := ih _ h; exact this)
      | streamStart => simp only [Pump.skipLoop] at h; (have := ih _ h; exact this)
      | scalar v st a t => simp only [Pump.skipLoop] at h; (have := ih _ h; exact this)
      | seqStart a t => simp only [Pump.skipLoop] at h; (have := ih _ h; exact this)
      | seqEnd => simp only [Pump.skipLoop] at h; (have := ih _ h; exact this)
      | mapStart a t => simp only [Pump.skipLoop] at h; (have := ih _ h; exact this)
      | mapEnd => simp only [Pump.skipLoop] at h; (have := ih _ h; exact this)
      | alias id => simp only [Pump.skipLoop] at h; (have := ih _ h; exact this)
      | nothing => simp only [Pump.skipLoop] at h; (have := ih _ h; exact this)

theorem skipBudget_some_pd {enf e' : Enf} {b : Bool} (hpd : enf.perDocument = true)
    (h : Pump.skipBudget (some enf) (.docStart b) = some (some e')) : enf.observe (.docStart b) = .ok e' := by
  simp only [Pump.skipBudget, Enf.beginDocumentAt, hpd, if_true] at h
  split at h
  · cases h
  · rename_i e1 h1
    injection h with h; injection h with h; subst h; exact h1

end SaphyrVerif.Lemmas.C07
