import SaphyrVerif.Lemmas.C07
import SaphyrVerif.Model.Pump
/-!
Helper lemmas for the per-document half of C07: the counters of the per-document enforcer over the events of
ONE document are the independent counts of that document (Spec/BudgetSpec.lean, `usageDoc`).

Plan: inside a document (after its `DocumentStart`) no event is a `DocumentStart` or stream framing, and on such
"plain" events the check-free successor `next` does not look at the policy flag; so the counters of the
per-document run are those of a whole-input run started from the state with `events = 1`, for which the counting
lemmas of Lemmas/C07.lean apply.
-/
namespace SaphyrVerif.Lemmas.C07
open SaphyrVerif SaphyrVerif.Scalars SaphyrVerif.Budget SaphyrVerif.Spec

/-- an event that is neither `DocumentStart` nor stream framing -/
def plainEv (ev : Raw) : Bool := !isDocStart ev && !isStreamFrame ev

/-- the same state under the other policy flag -/
def setPd (e : Enf) (pd : Bool) : Enf := { e with perDocument := pd }

@[simp] theorem setPd_report (e : Enf) (pd : Bool) : (setPd e pd).report = e.report := rfl
@[simp] theorem setPd_defined (e : Enf) (pd : Bool) : (setPd e pd).defined = e.defined := rfl
@[simp] theorem setPd_depth (e : Enf) (pd : Bool) : (setPd e pd).depth = e.depth := rfl
@[simp] theorem setPd_containers (e : Enf) (pd : Bool) : (setPd e pd).containers = e.containers := rfl
@[simp] theorem setPd_lim (e : Enf) (pd : Bool) : (setPd e pd).lim = e.lim := rfl
@[simp] theorem setPd_pd (e : Enf) (pd : Bool) : (setPd e pd).perDocument = pd := rfl

theorem plainEv_iff {ev : Raw} : plainEv ev = true ↔ isDocStart ev = false ∧ isStreamFrame ev = false := by
  simp [plainEv]

theorem cstep_plain {ev : Raw} (h : plainEv ev = true) (pd pd' : Bool) (cs : List CState) :
    cstep pd cs ev = cstep pd' cs ev := by
  cases ev <;> first | rfl | (simp [plainEv, isDocStart] at h)

theorem next_plain {ev : Raw} (h : plainEv ev = true) (e : Enf) (pd : Bool) :
    next (setPd e pd) ev = setPd (next e ev) pd := by
  obtain ⟨h1, h2⟩ := plainEv_iff.1 h
  simp only [next, setPd, h1, h2, Bool.and_false, Bool.false_eq_true, if_false]
  rw [cstep_plain h pd e.perDocument]

theorem nextAll_plain {evs : List Raw} (h : evs.all plainEv = true) (e : Enf) (pd : Bool) :
    nextAll (setPd e pd) evs = setPd (nextAll e evs) pd := by
  induction evs generalizing e with
  | nil => rfl
  | cons x xs ih =>
    simp only [List.all_cons, Bool.and_eq_true] at h
    simp only [nextAll]
    rw [next_plain h.1, ih h.2]

mutual
theorem flatten_plain (t : Node) : (flatten t).all plainEv = true := by
  match t with
  | .scalar v st a tag => rfl
  | .alias id => rfl
  | .seq a tag items =>
    simp only [flatten, List.all_cons, List.all_append, flattenL_plain items]; rfl
  | .map a tag entries =>
    simp only [flatten, List.all_cons, List.all_append, flattenE_plain entries]; rfl
theorem flattenL_plain (ts : List Node) : (flattenL ts).all plainEv = true := by
  match ts with
  | [] => rfl
  | t :: ts => simp only [flattenL, List.all_append, flatten_plain t, flattenL_plain ts]; rfl
theorem flattenE_plain (es : List (Node × Node)) : (flattenE es).all plainEv = true := by
  match es with
  | [] => rfl
  | (k, v) :: es =>
    simp only [flattenE, List.all_append, flatten_plain k, flatten_plain v, flattenE_plain es]; rfl
end

/-- the events of a document after its `DocumentStart` -/
def docBody (d : Node) : List Raw := flatten d ++ [.docEnd]

theorem flattenDoc_eq (d : Node) : flattenDoc d = .docStart false :: docBody d := rfl

theorem docBody_plain (d : Node) : (docBody d).all plainEv = true := by
  simp only [docBody, List.all_append, flatten_plain d]; rfl

/-- the whole-input twin of the state right after a `DocumentStart` -/
def docStartStateF (lim : Limits) : Enf := { lim, perDocument := false, report := { events := 1 } }

theorem docStartState_eq (lim : Limits) : docStartState lim 0 = setPd (docStartStateF lim) true := rfl

/-- a document on its own: the `DocumentStart` (one event), then the body from the reset state -/
theorem docRun_eq (lim : Limits) (d : Node) :
    docRun lim d =
      if 1 > lim.maxEvents then .error (0, .events 1) else runFrom (docStartState lim 0) 1 (docBody d) := by
  have hobs : (Enf.new lim true).observe (.docStart false) =
      if 1 > lim.maxEvents then .error (.events 1) else .ok (docStartState lim 0) :=
    observe_docStart_pd false rfl
  unfold docRun
  rw [flattenDoc_eq]
  simp only [runFrom, hobs]
  by_cases h : 1 > lim.maxEvents
  · rw [if_pos h, if_pos h]
  · rw [if_neg h, if_neg h]

/-! ## the counters of the per-document state inside a document -/

section doc
variable (lim : Limits) (evs : List Raw) (hp : evs.all plainEv = true)
include hp

theorem doc_state : nextAll (docStartState lim 0) evs = setPd (nextAll (docStartStateF lim) evs) true := by
  rw [docStartState_eq, nextAll_plain hp]

omit hp in
theorem doc_lim : (nextAll (docStartState lim 0) evs).lim = lim := by simp [docStartState]

theorem doc_events : (nextAll (docStartState lim 0) evs).report.events = 1 + evs.length := by
  rw [doc_state lim evs hp, setPd_report, nextAll_events (by rfl)]; rfl

theorem doc_nodes : (nextAll (docStartState lim 0) evs).report.nodes = nNodes evs := by
  rw [doc_state lim evs hp, setPd_report, nextAll_nodes (by rfl)]; simp [docStartStateF]

theorem doc_aliases : (nextAll (docStartState lim 0) evs).report.aliases = nAliases evs := by
  rw [doc_state lim evs hp, setPd_report, nextAll_aliases (by rfl)]; simp [docStartStateF]

theorem doc_defined : (nextAll (docStartState lim 0) evs).defined = defAfter [] evs := by
  rw [doc_state lim evs hp, setPd_defined, nextAll_defined (by rfl)]; rfl

theorem doc_tsb : (nextAll (docStartState lim 0) evs).report.totalScalarBytes = min (scalarBytes evs) USIZE_MAX := by
  rw [doc_state lim evs hp, setPd_report, nextAll_tsb (by rfl) _ (by simp [docStartStateF])]; simp [docStartStateF]

theorem doc_mergeKeys : (nextAll (docStartState lim 0) evs).report.mergeKeys = mkAll false [] evs := by
  rw [doc_state lim evs hp, setPd_report, nextAll_mergeKeys (by rfl)]; simp [docStartStateF]

theorem doc_containers : (nextAll (docStartState lim 0) evs).containers = cstepAll false [] evs := by
  rw [doc_state lim evs hp, setPd_containers, nextAll_containers]; rfl

theorem doc_depth (hlen : evs.length < 2 ^ 64) :
    (nextAll (docStartState lim 0) evs).depth = depthAfter 0 evs ∧
    (nextAll (docStartState lim 0) evs).report.maxDepth = maxDepthFrom 0 0 evs := by
  rw [doc_state lim evs hp, setPd_report, setPd_depth]
  have := nextAll_depth (e := docStartStateF lim) rfl evs (Nat.le_refl _) (by simpa [docStartStateF] using hlen)
  exact ⟨this.1, this.2.1⟩

end doc

theorem doc_documents (lim : Limits) (evs : List Raw) : (nextAll (docStartState lim 0) evs).report.documents = 0 := by
  rw [nextAll_documents_pd (by rfl)]; rfl

/-! ## the independent counts of `flattenDoc d` in terms of its body -/

theorem nNodes_doc (d : Node) : nNodes (flattenDoc d) = nNodes (docBody d) := by
  rw [flattenDoc_eq, nNodes_cons]; simp [isNodeEv, b2n]

theorem nAliases_doc (d : Node) : nAliases (flattenDoc d) = nAliases (docBody d) := by
  rw [flattenDoc_eq, nAliases_cons]; simp [isAliasEv, b2n]

theorem nAnchors_doc (d : Node) : nAnchors (flattenDoc d) = (defAfter [] (docBody d)).length := by
  rw [nAnchors_eq, flattenDoc_eq]; simp [defAfter, anchorOf]

theorem scalarBytes_doc (d : Node) : scalarBytes (flattenDoc d) = scalarBytes (docBody d) := by
  rw [flattenDoc_eq, scalarBytes_cons]; simp [scalarBytesOf]

theorem maxDepth_doc (d : Node) : maxDepth (flattenDoc d) = maxDepthFrom 0 0 (docBody d) := by
  rw [flattenDoc_eq]; simp [maxDepth, maxDepthFrom, depthStep]

theorem nEvents_doc (d : Node) : nEvents (flattenDoc d) = 1 + (docBody d).length := by
  rw [flattenDoc_eq]; simp [nEvents]; omega

/-- ghost summary of the body of a document (either policy): empty stack at the end, the merge keys of the tree,
well bracketed -/
theorem G_docBody (pd : Bool) (d : Node) : G pd [] (docBody d) = ([], mergeKeys d, true) := by
  simp only [docBody, G_append, G_cons, G_nil, G_node pd d]
  simp [handleAlias, isKeyTop, b2n, mkOf, wf, cstep]

/-! ## the alias/anchor ratio, judged at `DocumentEnd` under the per-document policy -/

def isDocEnd : Raw → Bool
  | .docEnd => true
  | _ => false

mutual
theorem flatten_noDocEnd (t : Node) : (flatten t).all (fun ev => !isDocEnd ev) = true := by
  match t with
  | .scalar v st a tag => rfl
  | .alias id => rfl
  | .seq a tag items =>
    simp only [flatten, List.all_cons, List.all_append, flattenL_noDocEnd items]; rfl
  | .map a tag entries =>
    simp only [flatten, List.all_cons, List.all_append, flattenE_noDocEnd entries]; rfl
theorem flattenL_noDocEnd (ts : List Node) : (flattenL ts).all (fun ev => !isDocEnd ev) = true := by
  match ts with
  | [] => rfl
  | t :: ts => simp only [flattenL, List.all_append, flatten_noDocEnd t, flattenL_noDocEnd ts]; rfl
theorem flattenE_noDocEnd (es : List (Node × Node)) : (flattenE es).all (fun ev => !isDocEnd ev) = true := by
  match es with
  | [] => rfl
  | (k, v) :: es =>
    simp only [flattenE, List.all_append, flatten_noDocEnd k, flatten_noDocEnd v, flattenE_noDocEnd es]; rfl
end

/-- the only `DocumentEnd` of `xs ++ [DocumentEnd]` is the last event -/
theorem split_at_docEnd {xs pre post : List Raw} (hx : xs.all (fun ev => !isDocEnd ev) = true)
    (h : xs ++ [.docEnd] = pre ++ .docEnd :: post) : pre = xs ∧ post = [] := by
  induction xs generalizing pre with
  | nil =>
    cases pre with
    | nil => simp at h; exact ⟨rfl, h⟩
    | cons p ps =>
      simp only [List.nil_append, List.cons_append, List.cons.injEq] at h
      have := congrArg List.length h.2
      simp at this
  | cons x xs ih =>
    simp only [List.all_cons, Bool.and_eq_true] at hx
    cases pre with
    | nil =>
      simp only [List.cons_append, List.nil_append, List.cons.injEq] at h
      rw [h.1] at hx
      simp [isDocEnd] at hx
    | cons p ps =>
      simp only [List.cons_append, List.cons.injEq] at h
      obtain ⟨rfl, h2⟩ := h
      obtain ⟨rfl, rfl⟩ := ih hx.2 h2
      exact ⟨rfl, rfl⟩

/-- the ratio heuristic of the model is the mathematical one of the Spec (the saturating product cannot change the
comparison when the alias count is a `usize`) -/
theorem ratioBreach_eq (e : Enf) (ha : e.report.aliases ≤ USIZE_MAX) :
    e.ratioBreach =
      if ratioOk e.lim { e.report with anchors := e.defined.length } = true then none
      else some (.ratio e.report.aliases e.defined.length) := by
  have hdec : decide (e.report.aliases > satMul e.lim.multiplier e.defined.length) =
      decide (e.report.aliases > e.lim.multiplier * e.defined.length) :=
    decide_eq_decide.mpr (gt_satMul e.lim.multiplier e.defined.length ha)
  have hr : ratioOk e.lim { e.report with anchors := e.defined.length } =
      !(e.lim.enforceRatio && decide (e.report.aliases ≥ e.lim.minAliases) &&
        (e.defined.length == 0 || decide (e.report.aliases > e.lim.multiplier * e.defined.length))) := rfl
  simp only [Enf.ratioBreach, hdec]
  by_cases hc : (e.lim.enforceRatio && decide (e.report.aliases ≥ e.lim.minAliases) &&
    (e.defined.length == 0 || decide (e.report.aliases > e.lim.multiplier * e.defined.length))) = true
  · have hf : ratioOk e.lim { e.report with anchors := e.defined.length } = false := by rw [hr, hc]; rfl
    rw [if_pos hc, hf]; rfl
  · have hc' := Bool.eq_false_iff.mpr hc
    have hf : ratioOk e.lim { e.report with anchors := e.defined.length } = true := by rw [hr, hc']; rfl
    rw [if_neg hc, hf]; rfl

/-- `ratioOk` only reads the alias and anchor counts -/
theorem ratioOk_congr (lim : Limits) (r r' : Report) (h1 : r.aliases = r'.aliases) (h2 : r.anchors = r'.anchors) :
    ratioOk lim r = ratioOk lim r' := by
  simp only [ratioOk, h1, h2]

/-- `DocumentEnd` only moves the event counter: the ratio heuristic sees the same numbers before and after -/
theorem ratioBreach_next_docEnd (e : Enf) : (next e .docEnd).ratioBreach = e.ratioBreach := by
  simp [next, Enf.ratioBreach, isDocStart, isStreamFrame, isAliasEv, anchorOf, b2n]

theorem within_next_docEnd {e : Enf} (hw : Within e) (hev : e.report.events + 1 ≤ e.lim.maxEvents) :
    Within (next e .docEnd) := by
  simp only [Within] at hw
  simp [Within, next, isDocStart, isStreamFrame, isAliasEv, isNodeEv, isStart, anchorOf, mkOf, b2n]
  omega

/-- the state at the `DocumentEnd` of a document read from the fresh per-document state (all checks aside): its
report is the independent count of the document's own events -/
theorem docFinal_report (lim : Limits) (d : Node) (hlen : (flattenDoc d).length < 2 ^ 64) :
    (nextAll (docStartState lim 0) (docBody d)).finalize.1 = usageDoc d := by
  have hp := docBody_plain d
  have hl : (docBody d).length < 2 ^ 64 := by
    rw [flattenDoc_eq] at hlen; simp only [List.length_cons] at hlen; omega
  obtain ⟨-, hmd⟩ := doc_depth lim _ hp hl
  have hmk : mkAll false [] (docBody d) = mergeKeys d := congrArg (·.2.1) (G_docBody false d)
  rw [finalize_fst]
  simp only [usageDoc]
  rw [doc_events lim _ hp, doc_aliases lim _ hp, doc_defined lim _ hp, doc_documents, doc_nodes lim _ hp, hmd,
    doc_tsb lim _ hp, doc_mergeKeys lim _ hp, hmk,
    nEvents_doc, nAliases_doc, nAnchors_doc, nNodes_doc, maxDepth_doc, scalarBytes_doc]

theorem within_of_docFinal (lim : Limits) (d : Node) (hlen : (flattenDoc d).length < 2 ^ 64)
    (hw : Within (nextAll (docStartState lim 0) (docBody d))) : within lim (usageDoc d) = true := by
  rw [← docFinal_report lim d hlen, finalize_fst]
  simp only [Within, doc_lim] at hw
  rw [within_iff]
  dsimp only
  omega

theorem docFinal_aliases_le (lim : Limits) (d : Node) (hlen : (flattenDoc d).length < 2 ^ 64) :
    (nextAll (docStartState lim 0) (docBody d)).report.aliases ≤ USIZE_MAX := by
  rw [doc_aliases lim _ (docBody_plain d)]
  have h1 := nAliases_le_length (docBody d)
  have hU : USIZE_MAX = 2 ^ 64 - 1 := rfl
  rw [flattenDoc_eq] at hlen; simp only [List.length_cons] at hlen; omega

/-- the ratio verdict on the state at the `DocumentEnd` of a document, in Spec terms -/
theorem docFinal_ratio (lim : Limits) (d : Node) (hlen : (flattenDoc d).length < 2 ^ 64) :
    (nextAll (docStartState lim 0) (docBody d)).ratioBreach =
      if ratioOk lim (usageDoc d) = true then none
      else some (.ratio (usageDoc d).aliases (usageDoc d).anchors) := by
  have hF := docFinal_report lim d hlen
  rw [finalize_fst] at hF
  rw [ratioBreach_eq _ (docFinal_aliases_le lim d hlen), doc_lim, hF]
  have h1 : (nextAll (docStartState lim 0) (docBody d)).report.aliases = (usageDoc d).aliases := by
    rw [← hF]
  have h2 : (nextAll (docStartState lim 0) (docBody d)).defined.length = (usageDoc d).anchors := by
    rw [← hF]
  rw [h1, h2]

theorem docBody_eq (d : Node) : docBody d = flatten d ++ [.docEnd] := rfl

/-- a `DocumentEnd` accepted under the per-document policy: the ratio check was silent (on the state before as on
the state after: the event only moves the event counter) -/
theorem observe_docEnd_ok_pd {e e' : Enf} (hpd : e.perDocument = true) (h : e.observe .docEnd = .ok e') :
    e.ratioBreach = none ∧ e'.ratioBreach = none := by
  have hn : e' = next e .docEnd := (observe_ok h).1
  rw [observe_plain e rfl rfl] at h
  simp only [Enf.observeCounted, hpd, if_true] at h
  split at h
  · cases h
  · split at h
    · cases h
    · rename_i hr
      refine ⟨hr, ?_⟩
      rw [hn]
      have : (next e .docEnd).ratioBreach = e.ratioBreach := by
        simp [next, Enf.ratioBreach, isDocStart, isStreamFrame, isAliasEv, anchorOf, b2n]
      rw [this]; exact hr

/-! ## the recovery path of the pump (`skip_to_next_document`) -/

/-- `skipLoop` does not touch the budget before the `DocumentStart` it stops at; there it hands the budget to
`begin_document_at` -/
theorem skipLoop_budget (p p' : Pump.Pump) (inp rest : List Pump.RawItem)
    (h : Pump.skipLoop p inp = (true, p', rest)) :
    ∃ b, Pump.skipBudget p.budget (.docStart b) = some p'.budget := by
  induction inp generalizing p with
  | nil => simp [Pump.skipLoop] at h
  | cons it tl ih =>
    cases it with
    | err ua l => simp [Pump.skipLoop] at h
    | ev raw loc =>
      cases raw with
      | docStart b =>
        simp only [Pump.skipLoop] at h
        split at h
        · simp at h
        · rename_i bud hb
          simp only [Prod.mk.injEq, true_and] at h
          obtain ⟨rfl, -⟩ := h
          exact ⟨b, hb⟩
      | streamEnd => simp [Pump.skipLoop] at h
      | docEnd => simp only [Pump.skipLoop] at h; (have := ih _ h; exact this)
      | streamStart => simp only [Pump.skipLoop] at h; (have := ih _ h; exact this)
      | scalar v st a t => simp only [Pump.skipLoop] at h; (have := ih _ h; exact this)
      | seqStart a t => simp only [Pump.skipLoop] at h; (have := ih _ h; exact this)
      | seqEnd => simp only [Pump.skipLoop] at h; (have := ih _ h; exact this)
      | mapStart a t => simp only [Pump.skipLoop] at h; (have := ih _ h; exact this)
      | mapEnd => simp only [Pump.skipLoop] at h; (have := ih _ h; exact this)
      | alias id => simp only [Pump.skipLoop] at h; (have := ih _ h; exact this)
      | nothing => simp only [Pump.skipLoop] at h; (have := ih _ h; exact this)

theorem skipBudget_some_pd {enf e' : Enf} {b : Bool} (hpd : enf.perDocument = true)
    (h : Pump.skipBudget (some enf) (.docStart b) = some (some e')) : enf.observe (.docStart b) = .ok e' := by
  simp only [Pump.skipBudget, Enf.beginDocumentAt, hpd, if_true] at h
  split at h
  · cases h
  · rename_i e1 h1
    injection h with h; injection h with h; subst h; exact h1

end SaphyrVerif.Lemmas.C07
