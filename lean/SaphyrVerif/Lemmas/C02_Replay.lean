import SaphyrVerif.Lemmas.C02_Frames
/-!
Helper lemmas for C02, part 3: serving a replay buffer one event per `nextImpl` call, and the alias
item of the parser loop.
-/
namespace SaphyrVerif.Lemmas.C02
open SaphyrVerif SaphyrVerif.Scalars SaphyrVerif.Pump SaphyrVerif.Spec SaphyrVerif.Budget

/-- the three alias-limit errors (same as `Props.C02.isLimitErr`) -/
def isLimit : PErr → Bool
  | .aliasExpansionLimit .. | .replayStackDepth .. | .replayLimit .. => true
  | _ => false

/-- state after serving `ev` from the top inject frame -/
def served (p : Pump) (fr : InjectFrame) (rest0 : List InjectFrame) (ev : Ev) : Pump :=
  { p with budget := none, inject := { fr with idx := fr.idx + 1 } :: rest0, totalReplayed := p.totalReplayed + 1,
           recStack := recordAll p.recStack ev, lastLoc := ev.loc, producedAny := true }

theorem nextImpl_live_ok {p : Pump} {fr : InjectFrame} {rest0 : List InjectFrame} {buf : List Ev}
    (hi : p.inject = fr :: rest0) (hl : lookupAnchor p.anchors fr.anchorId = some buf)
    (hlt : fr.idx < buf.length) (hb : p.budget = none)
    (hmax : p.totalReplayed + 1 ≤ p.limits.maxTotalReplayedEvents) (inp : List RawItem) :
    nextImpl p inp = (.event buf[fr.idx], served p fr rest0 buf[fr.idx], inp) := by
  have h1 : ¬ (fr.idx ≥ buf.length) := by omega
  have h2 : buf[fr.idx]? = some buf[fr.idx] := List.getElem?_eq_getElem hlt
  have h3 : ¬ (p.totalReplayed + 1 > p.limits.maxTotalReplayedEvents) := by omega
  simp only [nextImpl, hi, serveInject, hl, h1, if_false, h2, h3, hb]
  rfl

theorem nextImpl_live_limit {p : Pump} {fr : InjectFrame} {rest0 : List InjectFrame} {buf : List Ev}
    (hi : p.inject = fr :: rest0) (hl : lookupAnchor p.anchors fr.anchorId = some buf)
    (hlt : fr.idx < buf.length)
    (hmax : p.limits.maxTotalReplayedEvents < p.totalReplayed + 1) (inp : List RawItem) :
    ∃ p', nextImpl p inp = (.error (.replayLimit (p.totalReplayed + 1) p.limits.maxTotalReplayedEvents
      buf[fr.idx].loc), p', inp) := by
  have h1 : ¬ (fr.idx ≥ buf.length) := by omega
  have h2 : buf[fr.idx]? = some buf[fr.idx] := List.getElem?_eq_getElem hlt
  have h3 : (p.totalReplayed + 1 > p.limits.maxTotalReplayedEvents) := by omega
  simp only [nextImpl, hi, serveInject, hl, h1, if_false, h2, h3, if_true]
  exact ⟨_, rfl⟩

/-- what a replay of `es` (`n` events) changes -/
structure Replayed (p p' : Pump) (es : List Ev) (n : Nat) : Prop where
  bud : p'.budget = none
  rip : p'.recursiveInProgress = p.recursiveInProgress
  lim : p'.limits = p.limits
  sade : p'.stopAtDocEnd = p.stopAtDocEnd
  anchors : p'.anchors = p.anchors
  per : p'.perAnchor = p.perAnchor
  frames : p'.recStack = recordL p.recStack es
  tot : p'.totalReplayed = p.totalReplayed + n
  prod : p.producedAny = true ∨ 0 < n → p'.producedAny = true

/-- `replay_steps`: from a state whose top inject frame is `(id, i)`, the next `buf.length - i` calls
deliver `buf.drop i`, or the total-replay limit stops the run after a prefix. -/
theorem replay_steps (n : Nat) : ∀ (p : Pump) (fr : InjectFrame) (rest0 : List InjectFrame) (buf : List Ev)
    (inp : List RawItem), p.inject = fr :: rest0 → lookupAnchor p.anchors fr.anchorId = some buf →
    fr.idx + n = buf.length → p.budget = none →
    (∃ p', Steps p inp (buf.drop fr.idx) p' inp ∧ Replayed p p' (buf.drop fr.idx) n ∧
        p'.inject = { fr with idx := buf.length } :: rest0) ∨
    (p.limits.maxTotalReplayedEvents < p.totalReplayed + n ∧
      ∃ es err p', Stops p inp es err p' ∧ isLimit err = true ∧ es <+: buf.drop fr.idx) := by
  induction n with
  | zero =>
    intro p fr rest0 buf inp hi hl hn hb
    left
    have hd : buf.drop fr.idx = [] := List.drop_eq_nil_of_le (by omega)
    refine ⟨p, ?_, ?_, ?_⟩
    · rw [hd]; exact Steps.refl _ _
    · rw [hd]; constructor <;> simp [hb]
    · rw [hi]; cases fr; simp at hn ⊢; omega
  | succ n ih =>
    intro p fr rest0 buf inp hi hl hn hb
    have hlt : fr.idx < buf.length := by omega
    have hd : buf.drop fr.idx = buf[fr.idx] :: buf.drop (fr.idx + 1) := List.drop_eq_getElem_cons hlt
    by_cases hmax : p.totalReplayed + 1 ≤ p.limits.maxTotalReplayedEvents
    · have hstep := nextImpl_live_ok hi hl hlt hb hmax inp
      have := ih (served p fr rest0 buf[fr.idx]) { fr with idx := fr.idx + 1 } rest0 buf inp rfl hl
        (by simp; omega) rfl
      rcases this with ⟨p', hs, hr, hinj⟩ | ⟨hex, es, err, p', hs, hlim, hpre⟩
      · left
        refine ⟨p', ?_, ?_, hinj⟩
        · rw [hd]; exact Steps.cons hstep hs
        · rw [hd]
          constructor
          · exact hr.bud
          · exact hr.rip
          · exact hr.lim
          · exact hr.sade
          · exact hr.anchors
          · exact hr.per
          · rw [hr.frames]; simp [served, recordAll_eq]
          · rw [hr.tot]; simp [served]; omega
          · intro _; exact hr.prod (Or.inl rfl)
      · right
        refine ⟨?_, buf[fr.idx] :: es, err, p', ?_, hlim, ?_⟩
        · simp [served] at hex; omega
        · exact Stops.after (Steps.one hstep) hs
        · rw [hd]; exact (List.prefix_cons_inj _).mpr hpre
    · right
      obtain ⟨p', hstep⟩ := nextImpl_live_limit hi hl hlt (by omega) inp
      refine ⟨by omega, [], _, p', Stops.now hstep, rfl, List.nil_prefix⟩

/-- the net effect of a node (list of nodes, list of entries) on the state -/
structure Post (p p' : Pump) (r : Exp) (ac : Nat → Nat) : Prop where
  good : Good p'
  anchors : p'.anchors = r.tab
  frames : p'.recStack = recordL p.recStack r.evs
  tot : p'.totalReplayed = p.totalReplayed + r.replayed
  cnt : ∀ id, lookupCount p'.perAnchor id ≤ lookupCount p.perAnchor id + ac id
  lim : p'.limits = p.limits
  sade : p'.stopAtDocEnd = p.stopAtDocEnd
  prod : p.producedAny = true ∨ r.evs ≠ [] → p'.producedAny = true

/-- state after the alias item passed all checks and pushed its inject frame -/
def aliasPushed (p : Pump) (id : Nat) (loc : Loc) : Pump :=
  { p with budget := none,
           perAnchor := (id, min (lookupCount p.perAnchor id + 1) USIZE_MAX) :: p.perAnchor,
           inject := [{ anchorId := id, idx := 0, refLoc := loc }] }

def aliasCnt (p : Pump) (id : Nat) : Nat := min (lookupCount p.perAnchor id + 1) USIZE_MAX

theorem alias_limit1 {p : Pump} (hg : Good p) (id : Nat) (loc : Loc) (rest : List RawItem)
    (h1 : p.limits.maxAliasExpansionsPerAnchor < aliasCnt p id) :
    ∃ p', nextImpl p (.ev (.alias id) loc :: rest) =
      (.error (.aliasExpansionLimit id (aliasCnt p id) p.limits.maxAliasExpansionsPerAnchor loc), p', rest) := by
  rw [nextImpl_good hg]
  have hb : (clr p).budget = none := hg.bud
  have h1' : min (lookupCount (clr p).perAnchor id + 1) USIZE_MAX > (clr p).limits.maxAliasExpansionsPerAnchor := h1
  simp only [parserLoop, hb, h1', if_true]
  exact ⟨_, rfl⟩

theorem alias_limit2 {p : Pump} (hg : Good p) (id : Nat) (loc : Loc) (rest : List RawItem)
    (h1 : aliasCnt p id ≤ p.limits.maxAliasExpansionsPerAnchor)
    (h2 : p.limits.maxReplayStackDepth < 1) :
    ∃ p', nextImpl p (.ev (.alias id) loc :: rest) =
      (.error (.replayStackDepth 1 p.limits.maxReplayStackDepth loc), p', rest) := by
  rw [nextImpl_good hg]
  have hb : (clr p).budget = none := hg.bud
  have h1' : ¬ (min (lookupCount (clr p).perAnchor id + 1) USIZE_MAX > (clr p).limits.maxAliasExpansionsPerAnchor) :=
    Nat.not_lt.mpr h1
  have h2' : ([] : List InjectFrame).length + 1 > p.limits.maxReplayStackDepth := by
    show 0 + 1 > p.limits.maxReplayStackDepth
    omega
  simp only [parserLoop, hb, h1', if_false]
  simp only [clr, h2', if_true]
  exact ⟨_, rfl⟩

theorem alias_recursive {p : Pump} (hg : Good p) (id : Nat) (loc : Loc) (rest : List RawItem)
    (h1 : aliasCnt p id ≤ p.limits.maxAliasExpansionsPerAnchor)
    (h2 : 1 ≤ p.limits.maxReplayStackDepth)
    (h3 : (p.recStack.map (·.id)).contains id = true) :
    ∃ p', nextImpl p (.ev (.alias id) loc :: rest) = (.error (.recursiveRef loc), p', rest) := by
  rw [nextImpl_good hg]
  have hb : (clr p).budget = none := hg.bud
  have h1' : ¬ (min (lookupCount (clr p).perAnchor id + 1) USIZE_MAX > (clr p).limits.maxAliasExpansionsPerAnchor) :=
    Nat.not_lt.mpr h1
  have h2' : ¬ (([] : List InjectFrame).length + 1 > p.limits.maxReplayStackDepth) := by
    show ¬ (0 + 1 > p.limits.maxReplayStackDepth)
    omega
  have h3' : p.recStack.any (fun f => f.id == id) = true := by rw [any_id_iff]; exact h3
  have h4 : p.recursiveInProgress.contains id = false := by rw [hg.rip]; rfl
  simp only [parserLoop, hb, h1', if_false]
  simp only [clr, h2', if_false, h3', if_true, h4, Bool.false_eq_true]
  exact ⟨_, rfl⟩

theorem alias_unknown {p : Pump} (hg : Good p) (id : Nat) (loc : Loc) (rest : List RawItem)
    (h1 : aliasCnt p id ≤ p.limits.maxAliasExpansionsPerAnchor)
    (h2 : 1 ≤ p.limits.maxReplayStackDepth)
    (h3 : (p.recStack.map (·.id)).contains id = false)
    (h5 : lookupAnchor p.anchors id = none) :
    ∃ p', nextImpl p (.ev (.alias id) loc :: rest) = (.error (.unknownAnchor loc), p', rest) := by
  rw [nextImpl_good hg]
  have hb : (clr p).budget = none := hg.bud
  have h1' : ¬ (min (lookupCount (clr p).perAnchor id + 1) USIZE_MAX > (clr p).limits.maxAliasExpansionsPerAnchor) :=
    Nat.not_lt.mpr h1
  have h2' : ¬ (([] : List InjectFrame).length + 1 > p.limits.maxReplayStackDepth) := by
    show ¬ (0 + 1 > p.limits.maxReplayStackDepth)
    omega
  have h3' : p.recStack.any (fun f => f.id == id) = false := by rw [any_id_iff]; exact h3
  simp only [parserLoop, hb, h1', if_false]
  simp only [clr, h2', if_false, h3', Bool.false_eq_true, h5]
  exact ⟨_, rfl⟩

theorem alias_push {p : Pump} (hg : Good p) (id : Nat) (loc : Loc) (rest : List RawItem)
    (h1 : aliasCnt p id ≤ p.limits.maxAliasExpansionsPerAnchor)
    (h2 : 1 ≤ p.limits.maxReplayStackDepth)
    (h3 : (p.recStack.map (·.id)).contains id = false)
    {buf : List Ev} (h5 : lookupAnchor p.anchors id = some buf) :
    nextImpl p (.ev (.alias id) loc :: rest) = nextImpl (aliasPushed p id loc) rest := by
  rw [nextImpl_good hg]
  have hb : (clr p).budget = none := hg.bud
  have h1' : ¬ (min (lookupCount (clr p).perAnchor id + 1) USIZE_MAX > (clr p).limits.maxAliasExpansionsPerAnchor) :=
    Nat.not_lt.mpr h1
  have h2' : ¬ (([] : List InjectFrame).length + 1 > p.limits.maxReplayStackDepth) := by
    show ¬ (0 + 1 > p.limits.maxReplayStackDepth)
    omega
  have h3' : p.recStack.any (fun f => f.id == id) = false := by rw [any_id_iff]; exact h3
  simp only [parserLoop, hb, h1', if_false]
  simp only [clr, h2', if_false, h3', Bool.false_eq_true, h5]
  rfl

theorem lookupCount_cons (id c : Nat) (l : List (Nat × Nat)) (id' : Nat) :
    lookupCount ((id, c) :: l) id' = if id == id' then c else lookupCount l id' := by
  simp only [lookupCount, List.find?_cons]
  cases h : id == id' <;> simp

/-- an alias whose checks pass: the buffer is replayed, or the total limit stops the run -/
theorem alias_replay {p : Pump} (hg : Good p) (id : Nat) (loc : Loc) (rest : List RawItem)
    (h1 : aliasCnt p id ≤ p.limits.maxAliasExpansionsPerAnchor)
    (h2 : 1 ≤ p.limits.maxReplayStackDepth)
    (h3 : (p.recStack.map (·.id)).contains id = false)
    {buf : List Ev} (h5 : lookupAnchor p.anchors id = some buf) :
    (∃ p', Steps p (.ev (.alias id) loc :: rest) buf p' rest ∧
        Post p p' ⟨buf, p.anchors, buf.length⟩ (fun i => if id == i then 1 else 0)) ∨
    (p.limits.maxTotalReplayedEvents < p.totalReplayed + buf.length ∧
      ∃ es err p', Stops p (.ev (.alias id) loc :: rest) es err p' ∧ isLimit err = true ∧ es <+: buf) := by
  have heq := alias_push hg id loc rest h1 h2 h3 h5
  have hne : buf ≠ [] := lookupAnchor_ne hg.ne h5
  have := replay_steps buf.length (aliasPushed p id loc) { anchorId := id, idx := 0, refLoc := loc } [] buf rest
    rfl h5 (by simp) rfl
  simp only [List.drop_zero] at this
  rcases this with ⟨p', hs, hr, hinj⟩ | ⟨hex, es, err, p', hs, hlim, hpre⟩
  · left
    refine ⟨p', Steps.of_eq heq hs hne, ?_⟩
    have hanch : p'.anchors = p.anchors := hr.anchors
    constructor
    · constructor
      · exact hr.bud
      · rw [hr.rip]; exact hg.rip
      · intro fr hfr
        rw [hinj] at hfr
        simp only [List.mem_singleton] at hfr
        subst hfr
        exact ⟨buf, by rw [hanch]; exact h5, Nat.le_refl _⟩
      · rw [hr.frames]; exact DepthPos_recordL _ hg.dep
      · rw [hanch]; exact hg.ne
    · exact hanch
    · exact hr.frames
    · exact hr.tot
    · intro i
      rw [hr.per]
      show lookupCount ((id, min (lookupCount p.perAnchor id + 1) USIZE_MAX) :: p.perAnchor) i ≤ _
      rw [lookupCount_cons]
      by_cases hi : id = i
      · subst hi; simp; omega
      · have : (id == i) = false := by simp [hi]
        simp [this]
    · exact hr.lim
    · exact hr.sade
    · intro _
      exact hr.prod (Or.inr (List.length_pos_iff.mpr hne))
  · right
    exact ⟨hex, es, err, p', Stops.of_eq heq hs, hlim, hpre⟩

end SaphyrVerif.Lemmas.C02
