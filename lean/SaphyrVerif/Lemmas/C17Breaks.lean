import SaphyrVerif.Lemmas.C17Crop
/-!
Helper lemmas for C17, part 12: `normalize_line_breaks` (`normBreaks`, fix of finding
`C17-lone-cr-line-break`) — it keeps lengths, byte offsets and the byte-order mark, is idempotent, and
the `\n`-separated lines of its result (with the `\r` of a CRLF pair stripped) are exactly the lines of
the text under the YAML line-break rule (`Spec.Snippet.yamlLines`).
-/
namespace SaphyrVerif.Lemmas.C17
open SaphyrVerif SaphyrVerif.Snippet
open SaphyrVerif.Spec.Snippet (takeRows dropRows row visibleLine yamlLines yamlLine)

theorem normBreaks_cons (c : Char) (cs : List Char) :
    normBreaks (c :: cs) = (if c = '\r' ∧ cs.head? ≠ some '\n' then '\n' else c) :: normBreaks cs := rfl

@[simp] theorem normBreaks_nil : normBreaks [] = [] := rfl

theorem normBreaks_length (s : List Char) : (normBreaks s).length = s.length := by
  induction s with
  | nil => rfl
  | cons c cs ih => rw [normBreaks_cons, List.length_cons, List.length_cons, ih]

theorem normBreaks_blen (s : List Char) : blen (normBreaks s) = blen s := by
  induction s with
  | nil => rfl
  | cons c cs ih =>
    rw [normBreaks_cons, blen_cons, blen_cons, ih]
    split
    · rename_i h; rw [h.1]; rfl
    · rfl

theorem normBreaks_eq_nil (s : List Char) : normBreaks s = [] ↔ s = [] := by
  cases s with
  | nil => simp
  | cons c cs => simp [normBreaks_cons]

theorem normBreaks_isEmpty (s : List Char) : (normBreaks s).isEmpty = s.isEmpty := by
  cases s <;> rfl

/-- the first character of the normalised text is a line feed exactly when the text starts with a
line feed or with a lone carriage return -/
theorem normBreaks_head_nl (s : List Char) :
    (normBreaks s).head? = some '\n' ↔
      (s.head? = some '\n' ∨ (s.head? = some '\r' ∧ (s.drop 1).head? ≠ some '\n')) := by
  cases s with
  | nil => simp
  | cons c cs =>
    rw [normBreaks_cons]
    simp only [List.head?_cons, Option.some.injEq, List.drop_one, List.tail_cons]
    by_cases h : c = '\r' ∧ cs.head? ≠ some '\n'
    · rw [if_pos h]; simp [h.1, h.2]
    · rw [if_neg h]
      constructor
      · intro hc; exact .inl hc
      · rintro (hc | ⟨hc, hn⟩)
        · exact hc
        · exact absurd ⟨hc, hn⟩ h

/-- the byte-order mark is neither CR nor LF: stripping it and normalising commute -/
theorem normBreaks_stripBom (t : List Char) : normBreaks (stripBom t) = stripBom (normBreaks t) := by
  cases t with
  | nil => rfl
  | cons c cs =>
    rw [normBreaks_cons]
    by_cases hb : c.toNat = 0xFEFF
    · have hne : ¬ (c = '\r' ∧ cs.head? ≠ some '\n') := by
        intro h; rw [h.1] at hb; revert hb; decide
      rw [if_neg hne]
      simp only [stripBom, hb, if_true]
    · have h2 : ¬ (if c = '\r' ∧ cs.head? ≠ some '\n' then '\n' else c).toNat = 0xFEFF := by
        split
        · decide
        · exact hb
      simp only [stripBom, hb, h2, if_false]
      rw [normBreaks_cons]

/-- in a normalised text every carriage return is followed by a line feed -/
theorem normBreaks_idem (s : List Char) : normBreaks (normBreaks s) = normBreaks s := by
  induction s with
  | nil => rfl
  | cons c cs ih =>
    rw [normBreaks_cons, normBreaks_cons, ih]
    congr 1
    by_cases h : c = '\r' ∧ cs.head? ≠ some '\n'
    · rw [if_pos h]
      rw [if_neg (by intro h2; exact absurd h2.1 (by decide))]
    · rw [if_neg h]
      by_cases hc : c = '\r'
      · have hh : cs.head? = some '\n' := by
          by_cases hq : cs.head? = some '\n'
          · exact hq
          · exact absurd ⟨hc, hq⟩ h
        have : (normBreaks cs).head? = some '\n' := (normBreaks_head_nl cs).mpr (.inl hh)
        rw [if_neg (by intro h2; exact h2.2 this)]
      · rw [if_neg (fun h2 => hc h2.1)]

/-! ### the `\n`-separated lines of a text -/

/-- the pieces of a text between line feeds (`split('\n')`) -/
def rawLines : List Char → List (List Char)
  | [] => [[]]
  | c :: cs =>
    if c = '\n' then [] :: rawLines cs
    else match rawLines cs with
      | l :: ls => (c :: l) :: ls
      | [] => [[c]]

theorem rawLines_ne_nil (s : List Char) : rawLines s ≠ [] := by
  induction s with
  | nil => simp [rawLines]
  | cons c cs ih =>
    unfold rawLines
    split
    · simp
    · split <;> simp

theorem rawLines_cons_nl (cs : List Char) : rawLines ('\n' :: cs) = [] :: rawLines cs := by
  simp [rawLines]

theorem rawLines_cons_other (c : Char) (cs : List Char) (h : c ≠ '\n') :
    ∃ l ls, rawLines cs = l :: ls ∧ rawLines (c :: cs) = (c :: l) :: ls := by
  cases hq : rawLines cs with
  | nil => exact absurd hq (rawLines_ne_nil cs)
  | cons l ls =>
    refine ⟨l, ls, rfl, ?_⟩
    conv => lhs; unfold rawLines
    rw [if_neg h, hq]

theorem rawLines_length (s : List Char) : (rawLines s).length = s.count '\n' + 1 := by
  induction s with
  | nil => rfl
  | cons c cs ih =>
    by_cases h : c = '\n'
    · subst h
      rw [rawLines_cons_nl, List.length_cons, ih, List.count_cons_self]
    · obtain ⟨l, ls, h1, h2⟩ := rawLines_cons_other c cs h
      rw [h2, List.length_cons, ← List.length_cons (a := l), ← h1, ih, List.count_cons_of_ne h]

theorem yamlLines_ne_nil (s : List Char) : yamlLines s ≠ [] := by
  induction s with
  | nil => simp [yamlLines]
  | cons c cs ih =>
    unfold yamlLines
    split
    · simp
    · split
      · split
        · exact ih
        · simp
      · split <;> simp

theorem stripCr_cons_of_ne (c : Char) (l : List Char) (h : c ≠ '\r') :
    Spec.Snippet.stripCr (c :: l) = c :: Spec.Snippet.stripCr l := by
  unfold Spec.Snippet.stripCr
  cases l with
  | nil =>
    have : ¬ ([c] : List Char).getLast? = some '\r' := by simp [h]
    rw [if_neg this]
    simp
  | cons d ds =>
    have e : (c :: d :: ds).getLast? = (d :: ds).getLast? := by simp [List.getLast?_cons_cons]
    rw [e]
    split
    · simp
    · rfl

/-- (the key fact of the repair) the lines the `\n`-based helpers see in the normalised text — the
pieces between line feeds, without the CR of a CRLF pair — are the lines of the original text under
the YAML rule (LF, CRLF, lone CR) -/
theorem yamlLines_eq (s : List Char) :
    yamlLines s = (rawLines (normBreaks s)).map Spec.Snippet.stripCr := by
  induction s with
  | nil => rfl
  | cons c cs ih =>
    rw [normBreaks_cons]
    by_cases hnl : c = '\n'
    · subst hnl
      rw [if_neg (by intro h; exact absurd h.1 (by decide)), rawLines_cons_nl, List.map_cons, ← ih]
      conv => lhs; unfold yamlLines
      rw [if_pos rfl]
      rfl
    · by_cases hcr : c = '\r'
      · subst hcr
        by_cases hh : cs.head? = some '\n'
        · -- CRLF
          rw [if_neg (by intro h; exact h.2 hh)]
          conv => lhs; unfold yamlLines
          rw [if_neg (by decide), if_pos rfl, if_pos hh, ih]
          obtain ⟨l, ls, h1, h2⟩ := rawLines_cons_other '\r' (normBreaks cs) (by decide)
          rw [h2, h1, List.map_cons, List.map_cons]
          congr 1
          -- the first raw line of the rest is empty: the rest starts with a line feed
          have hl : l = [] := by
            cases cs with
            | nil => simp at hh
            | cons d ds =>
              simp only [List.head?_cons, Option.some.injEq] at hh
              subst hh
              rw [normBreaks_cons, if_neg (by intro h; exact absurd h.1 (by decide)), rawLines_cons_nl] at h1
              simp only [List.cons.injEq] at h1
              exact h1.1.symm
          subst hl
          rfl
        · -- lone CR
          rw [if_pos ⟨rfl, hh⟩, rawLines_cons_nl, List.map_cons, ← ih]
          conv => lhs; unfold yamlLines
          rw [if_neg (by decide), if_pos rfl, if_neg hh]
          rfl
      · rw [if_neg (fun h => hcr h.1)]
        obtain ⟨l, ls, h1, h2⟩ := rawLines_cons_other c (normBreaks cs) hnl
        rw [h2, List.map_cons, stripCr_cons_of_ne c l hcr]
        conv => lhs; unfold yamlLines
        rw [if_neg hnl, if_neg hcr, ih, h1, List.map_cons]

theorem stripNl_cons_of_ne (c : Char) (l : List Char) (h : c ≠ '\n') :
    Spec.Snippet.stripNl (c :: l) = c :: Spec.Snippet.stripNl l := by
  unfold Spec.Snippet.stripNl
  cases l with
  | nil =>
    have : ¬ ([c] : List Char).getLast? = some '\n' := by simp [h]
    rw [if_neg this]
    simp
  | cons d ds =>
    have e : (c :: d :: ds).getLast? = (d :: ds).getLast? := by simp [List.getLast?_cons_cons]
    rw [e]
    split
    · simp
    · rfl

/-- raw line number `k` (0-based) is row `k + 1` without its line feed -/
theorem rawLines_get (s : List Char) (k : Nat) (hk : k ≤ s.count '\n') :
    (rawLines s)[k]? = some (Spec.Snippet.stripNl (takeRows 1 (dropRows k s))) := by
  induction s generalizing k with
  | nil =>
    have : k = 0 := by simpa using hk
    subst this
    rfl
  | cons c cs ih =>
    by_cases h : c = '\n'
    · subst h
      rw [rawLines_cons_nl]
      cases k with
      | zero =>
        simp [takeRows, dropRows, Spec.Snippet.stripNl]
      | succ k =>
        rw [List.count_cons_self] at hk
        simp only [List.getElem?_cons_succ]
        rw [ih k (by omega)]
        simp [dropRows]
    · obtain ⟨l, ls, h1, h2⟩ := rawLines_cons_other c cs h
      rw [List.count_cons_of_ne h] at hk
      rw [h2]
      cases k with
      | zero =>
        have := ih 0 (by omega)
        rw [h1] at this
        simp only [List.getElem?_cons_zero, Option.some.injEq] at this
        simp only [List.getElem?_cons_zero, Option.some.injEq]
        have e1 : dropRows 0 (c :: cs) = c :: cs := by simp [dropRows]
        have e2 : dropRows 0 cs = cs := by cases cs <;> simp [dropRows]
        have e3 : takeRows 1 (c :: cs) = c :: takeRows 1 cs := by simp [takeRows, h]
        rw [e1, e3, stripNl_cons_of_ne c _ h, this, e2]
      | succ k =>
        have := ih (k + 1) hk
        rw [h1] at this
        simp only [List.getElem?_cons_succ] at this ⊢
        rw [this]
        simp [dropRows, h]

/-- the lines of a text under the YAML rule are the visible lines (row without `\n` / `\r\n`) of the
normalised text, and there are as many of them as the normalised text has rows -/
theorem yamlLines_length (s : List Char) : (yamlLines s).length = (normBreaks s).count '\n' + 1 := by
  rw [yamlLines_eq, List.length_map, rawLines_length]

theorem yamlLine_eq_visible (s : List Char) (k : Nat) (h1 : 1 ≤ k) (h2 : k ≤ (normBreaks s).count '\n' + 1) :
    yamlLine s k = some (visibleLine (normBreaks s) k) := by
  unfold yamlLine
  rw [if_neg (by omega), yamlLines_eq, List.getElem?_map, rawLines_get _ (k - 1) (by omega)]
  rfl

/-- a row number is a line of the text under the YAML rule exactly when it is a row of the normalised
text -/
theorem yamlLine_some_iff (s : List Char) (k : Nat) (l : List Char) :
    yamlLine s k = some l ↔ (1 ≤ k ∧ k ≤ (normBreaks s).count '\n' + 1 ∧ l = visibleLine (normBreaks s) k) := by
  constructor
  · intro h
    unfold yamlLine at h
    by_cases hk : k = 0
    · rw [if_pos hk] at h; cases h
    · rw [if_neg hk] at h
      have hlt : k - 1 < (yamlLines s).length := by
        by_cases hq : k - 1 < (yamlLines s).length
        · exact hq
        · rw [List.getElem?_eq_none (by omega)] at h; cases h
      rw [yamlLines_length] at hlt
      have := yamlLine_eq_visible s k (by omega) (by omega)
      unfold yamlLine at this
      rw [if_neg hk, h] at this
      exact ⟨by omega, by omega, by simpa using this⟩
  · rintro ⟨h1, h2, rfl⟩
    exact yamlLine_eq_visible s k h1 h2

/-! ### equations of `yamlLines` -/

theorem yamlLines_cons_nl (cs : List Char) : yamlLines ('\n' :: cs) = [] :: yamlLines cs := by
  conv => lhs; unfold yamlLines
  rw [if_pos rfl]

theorem yamlLines_cons_crlf (cs : List Char) (h : cs.head? = some '\n') :
    yamlLines ('\r' :: cs) = yamlLines cs := by
  conv => lhs; unfold yamlLines
  rw [if_neg (by decide), if_pos rfl, if_pos h]

theorem yamlLines_cons_cr (cs : List Char) (h : cs.head? ≠ some '\n') :
    yamlLines ('\r' :: cs) = [] :: yamlLines cs := by
  conv => lhs; unfold yamlLines
  rw [if_neg (by decide), if_pos rfl, if_neg h]

theorem yamlLines_cons_other (c : Char) (cs : List Char) (h1 : c ≠ '\n') (h2 : c ≠ '\r') :
    ∃ l ls, yamlLines cs = l :: ls ∧ yamlLines (c :: cs) = (c :: l) :: ls := by
  cases hq : yamlLines cs with
  | nil => exact absurd hq (yamlLines_ne_nil cs)
  | cons l ls =>
    refine ⟨l, ls, rfl, ?_⟩
    conv => lhs; unfold yamlLines
    rw [if_neg h1, if_neg h2, hq]

/-! ### lines ended inside a piece of text, given the character that follows it -/

/-- number of lines (YAML rule) that end within `P` when the character after `P` is `next`: a CR at
the very end of `P` ends a line unless `next` is a line feed -/
def breaksCtx : List Char → Option Char → Nat
  | [], _ => 0
  | c :: cs, next =>
    (if c = '\n' ∨ (c = '\r' ∧ (cs.head?.or next) ≠ some '\n') then 1 else 0) + breaksCtx cs next

theorem breaksCtx_cons (c : Char) (cs : List Char) (next : Option Char) :
    breaksCtx (c :: cs) next =
      (if c = '\n' ∨ (c = '\r' ∧ (cs.head?.or next) ≠ some '\n') then 1 else 0) + breaksCtx cs next := rfl

theorem breaksCtx_append (A B : List Char) (next : Option Char) :
    breaksCtx (A ++ B) next = breaksCtx A (B.head?.or next) + breaksCtx B next := by
  induction A with
  | nil => simp [breaksCtx]
  | cons c cs ih =>
    rw [List.cons_append, breaksCtx_cons, breaksCtx_cons, ih]
    have e : (cs ++ B).head?.or next = cs.head?.or (B.head?.or next) := by
      cases cs with
      | nil => simp
      | cons d ds => simp
    rw [e]; omega

/-- a piece without CR and LF ends no line -/
theorem breaksCtx_no_break (x : List Char) (next : Option Char) (h : ∀ c ∈ x, c ≠ '\n' ∧ c ≠ '\r') :
    breaksCtx x next = 0 := by
  induction x with
  | nil => rfl
  | cons c cs ih =>
    rw [breaksCtx_cons, ih (fun d hd => h d (List.mem_cons_of_mem _ hd))]
    have := h c (List.mem_cons_self ..)
    rw [if_neg (by intro hc; rcases hc with hc | hc; exact this.1 hc; exact this.2 hc.1)]

/-- the lines of `P` under the YAML rule: one more than the lines ended within `P` — a CR at the very end
of `P` being a line break of `P` on its own, whatever follows -/
theorem breaksCtx_yamlLines (P : List Char) (next : Option Char) :
    breaksCtx P next + 1 + (if P.getLast? = some '\r' ∧ next = some '\n' then 1 else 0) = (yamlLines P).length := by
  induction P with
  | nil => simp [breaksCtx, yamlLines]
  | cons c cs ih =>
    rw [breaksCtx_cons]
    have hlast : cs ≠ [] → (c :: cs).getLast? = cs.getLast? := by
      intro hne
      cases cs with
      | nil => exact absurd rfl hne
      | cons d ds => simp [List.getLast?_cons_cons]
    by_cases hcs : cs = []
    · subst hcs
      simp only [List.head?_nil, Option.none_or, breaksCtx, List.getLast?_singleton, Option.some.injEq]
      by_cases h1 : c = '\n'
      · subst h1; simp [yamlLines]
      · by_cases h2 : c = '\r'
        · subst h2
          rw [yamlLines_cons_cr [] (by simp)]
          by_cases hn : next = some '\n'
          · simp [hn, yamlLines]
          · simp [hn, yamlLines]
        · obtain ⟨l, ls, e1, e2⟩ := yamlLines_cons_other c [] h1 h2
          rw [e2]
          simp only [yamlLines, List.cons.injEq] at e1
          rw [← e1.2]
          simp [h1, h2]
    · rw [hlast hcs]
      have hor : cs.head?.or next = cs.head? := by
        cases cs with
        | nil => exact absurd rfl hcs
        | cons d ds => simp
      rw [hor]
      by_cases h1 : c = '\n'
      · subst h1
        rw [yamlLines_cons_nl, List.length_cons, ← ih]
        simp; omega
      · by_cases h2 : c = '\r'
        · subst h2
          by_cases hh : cs.head? = some '\n'
          · rw [yamlLines_cons_crlf cs hh, ← ih]
            simp [hh]
          · rw [yamlLines_cons_cr cs hh, List.length_cons, ← ih]
            simp [hh]; omega
        · obtain ⟨l, ls, e1, e2⟩ := yamlLines_cons_other c cs h1 h2
          rw [e2, List.length_cons, ← List.length_cons (a := l), ← e1, ← ih]
          simp [h1, h2]

/-! ### the lines of a text that is cut at a line break -/

/-- `P` is empty or ends with a complete line break, given the text `R` that follows it (a CRLF pair is
not split between `P` and `R`): `R` begins at the beginning of a line -/
def EndsLine (P R : List Char) : Prop :=
  P = [] ∨ P.getLast? = some '\n' ∨ (P.getLast? = some '\r' ∧ R.head? ≠ some '\n')

theorem getLast?_cons_of_ne_nil (c : Char) (cs : List Char) (h : cs ≠ []) : (c :: cs).getLast? = cs.getLast? := by
  cases cs with
  | nil => exact absurd rfl h
  | cons d ds => simp [List.getLast?_cons_cons]

theorem rawLines_append (A B : List Char) (h : A = [] ∨ A.getLast? = some '\n') :
    rawLines (A ++ B) = (rawLines A).dropLast ++ rawLines B := by
  induction A with
  | nil => simp [rawLines]
  | cons c cs ih =>
    have hlast : (c :: cs).getLast? = some '\n' := by
      rcases h with h | h
      · cases h
      · exact h
    by_cases hcs : cs = []
    · subst hcs
      simp only [List.getLast?_singleton, Option.some.injEq] at hlast
      subst hlast
      simp [rawLines]
    · rw [getLast?_cons_of_ne_nil c cs hcs] at hlast
      have ih' := ih (.inr hlast)
      have hlen : 2 ≤ (rawLines cs).length := by
        rw [rawLines_length]
        have : 1 ≤ cs.count '\n' := List.count_pos_iff.mpr (List.mem_of_getLast? hlast)
        omega
      by_cases hc : c = '\n'
      · subst hc
        rw [List.cons_append, rawLines_cons_nl, rawLines_cons_nl, ih']
        cases hq : rawLines cs with
        | nil => rw [hq] at hlen; simp at hlen
        | cons l ls => simp [List.dropLast_cons_cons]
      · obtain ⟨l, ls, e1, e2⟩ := rawLines_cons_other c cs hc
        obtain ⟨l2, ls2, f1, f2⟩ := rawLines_cons_other c (cs ++ B) hc
        rw [List.cons_append, f2, e2]
        rw [ih', e1] at f1
        cases ls with
        | nil => rw [e1] at hlen; simp at hlen
        | cons m ms =>
          simp only [List.dropLast_cons_cons, List.cons_append, List.cons.injEq] at f1
          obtain ⟨rfl, rfl⟩ := f1
          simp [List.dropLast_cons_cons]

theorem normBreaks_append (P R : List Char) (h : EndsLine P R) :
    normBreaks (P ++ R) = normBreaks P ++ normBreaks R := by
  induction P with
  | nil => rfl
  | cons c cs ih =>
    by_cases hcs : cs = []
    · subst hcs
      rcases h with h | h | h
      · cases h
      · simp only [List.getLast?_singleton, Option.some.injEq] at h
        subst h
        simp [normBreaks_cons]
      · simp only [List.getLast?_singleton, Option.some.injEq] at h
        obtain ⟨rfl, h2⟩ := h
        simp [normBreaks_cons, h2]
    · have h' : EndsLine cs R := by
        rcases h with h | h | h
        · cases h
        · right; left; rw [← getLast?_cons_of_ne_nil c cs hcs]; exact h
        · right; right; rw [← getLast?_cons_of_ne_nil c cs hcs]; exact h
      rw [List.cons_append, normBreaks_cons, normBreaks_cons, ih h', List.cons_append]
      have hh : (cs ++ R).head? = cs.head? := by
        cases cs with
        | nil => exact absurd rfl hcs
        | cons d ds => rfl
      rw [hh]

/-- the normalised form of a piece that ends with a line break ends with a line feed -/
theorem normBreaks_getLast (P R : List Char) (h : EndsLine P R) :
    normBreaks P = [] ∨ (normBreaks P).getLast? = some '\n' := by
  induction P with
  | nil => exact .inl rfl
  | cons c cs ih =>
    right
    by_cases hcs : cs = []
    · subst hcs
      rcases h with h | h | h
      · cases h
      · simp only [List.getLast?_singleton, Option.some.injEq] at h
        subst h
        simp [normBreaks_cons]
      · simp only [List.getLast?_singleton, Option.some.injEq] at h
        obtain ⟨rfl, _⟩ := h
        simp [normBreaks_cons]
    · have h' : EndsLine cs R := by
        rcases h with h | h | h
        · cases h
        · right; left; rw [← getLast?_cons_of_ne_nil c cs hcs]; exact h
        · right; right; rw [← getLast?_cons_of_ne_nil c cs hcs]; exact h
      rw [normBreaks_cons]
      have hne : normBreaks cs ≠ [] := fun h0 => hcs ((normBreaks_eq_nil cs).mp h0)
      rw [getLast?_cons_of_ne_nil _ _ hne]
      rcases ih h' with h0 | h0
      · exact absurd h0 hne
      · exact h0

/-- (cutting at a line break) when `P` ends with a complete line break, the lines of `P ++ R` under the YAML
rule are the complete lines of `P` followed by the lines of `R`: line `j` of `R` is line
`(number of lines of P) − 1 + j` of the whole text -/
theorem yamlLines_append (P R : List Char) (h : EndsLine P R) :
    yamlLines (P ++ R) = (yamlLines P).dropLast ++ yamlLines R := by
  rw [yamlLines_eq, yamlLines_eq, yamlLines_eq, normBreaks_append P R h,
    rawLines_append _ _ (normBreaks_getLast P R h), List.map_append, List.map_dropLast]

theorem yamlLine_append (P R : List Char) (h : EndsLine P R) (j : Nat) (hj : 1 ≤ j) :
    yamlLine (P ++ R) ((yamlLines P).length - 1 + j) = yamlLine R j := by
  unfold yamlLine
  have hpos : 0 < (yamlLines P).length := List.length_pos_iff.mpr (yamlLines_ne_nil P)
  rw [if_neg (by omega), if_neg (by omega), yamlLines_append P R h,
    List.getElem?_append_right (by rw [List.length_dropLast]; omega), List.length_dropLast]
  congr 1
  omega

end SaphyrVerif.Lemmas.C17
