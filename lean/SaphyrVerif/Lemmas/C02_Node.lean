import SaphyrVerif.Lemmas.C02_Replay
/-!
Helper lemmas for C02, part 4: the compositional node lemma.  `Outcome` is the complete case analysis
of what iterating `nextImpl` over the items of a node does from a `Good` state.
-/
namespace SaphyrVerif.Lemmas.C02
open SaphyrVerif SaphyrVerif.Scalars SaphyrVerif.Pump SaphyrVerif.Spec SaphyrVerif.Budget

mutual
/-- no folded scalar at column 0 with non-blank text (such a scalar is rejected by the parser loop with
`foldedIndent`, a syntax-level error independent of anchors and aliases) -/
def noFoldedIndent : LNode → Bool
  | .scalar v st _ _ loc => !(st == .folded && locCol0 loc && !(trim v).isEmpty)
  | .alias .. => true
  | .seq _ _ _ _ items => noFoldedIndentL items
  | .map _ _ _ _ entries => noFoldedIndentE entries
def noFoldedIndentL : List LNode → Bool
  | [] => true
  | n :: ns => noFoldedIndent n && noFoldedIndentL ns
def noFoldedIndentE : List (LNode × LNode) → Bool
  | [] => true
  | (k, v) :: es => noFoldedIndent k && noFoldedIndent v && noFoldedIndentE es
end

/-- the pump error the specification error corresponds to -/
def errOf : ExpErr → PErr
  | .unknown l => .unknownAnchor l
  | .recursive l => .recursiveRef l

/-- some alias limit is too small for `rep` further replayed events / `ac id` further aliases of `id` -/
def Exceeds (p : Pump) (rep : Nat) (ac : Nat → Nat) : Prop :=
  p.limits.maxReplayStackDepth < 1 ∨ p.limits.maxTotalReplayedEvents < p.totalReplayed + rep ∨
  ∃ id, p.limits.maxAliasExpansionsPerAnchor < lookupCount p.perAnchor id + ac id

/-- the run stops with an alias-limit error (after delivering events `es` with `P es`, and `X` explains
the limit) or with `foldedIndent` (only when `fo = false`) -/
def Bad (p : Pump) (inp : List RawItem) (P : List Ev → Prop) (X : Prop) (fo : Bool) : Prop :=
  (∃ es err p', Stops p inp es err p' ∧ isLimit err = true ∧ P es ∧ X) ∨
  (fo = false ∧ ∃ es l p', Stops p inp es (.foldedIndent l) p')

theorem Bad.mono {p inp P X fo P' X' fo'} (h : Bad p inp P X fo) (hP : ∀ es, P es → P' es) (hX : X → X')
    (hfo : fo = false → fo' = false) : Bad p inp P' X' fo' := by
  rcases h with ⟨es, err, p', hs, hl, hp, hx⟩ | ⟨hf, es, l, p', hs⟩
  · exact Or.inl ⟨es, err, p', hs, hl, hP es hp, hX hx⟩
  · exact Or.inr ⟨hfo hf, es, l, p', hs⟩

theorem Bad.after {p inp es1 p1 inp1 P X fo P' X' fo'} (hs1 : Steps p inp es1 p1 inp1)
    (h : Bad p1 inp1 P X fo) (hP : ∀ es, P es → P' (es1 ++ es)) (hX : X → X')
    (hfo : fo = false → fo' = false) : Bad p inp P' X' fo' := by
  rcases h with ⟨es, err, p', hs, hl, hp, hx⟩ | ⟨hf, es, l, p', hs⟩
  · exact Or.inl ⟨es1 ++ es, err, p', Stops.after hs1 hs, hl, hP es hp, hX hx⟩
  · exact Or.inr ⟨hfo hf, es1 ++ es, l, p', Stops.after hs1 hs⟩

theorem Bad.of_eq {p inp q inq P X fo} (h : nextImpl p inp = nextImpl q inq) (hb : Bad q inq P X fo) :
    Bad p inp P X fo := by
  rcases hb with ⟨es, err, p', hs, hl, hp, hx⟩ | ⟨hf, es, l, p', hs⟩
  · exact Or.inl ⟨es, err, p', Stops.of_eq h hs, hl, hp, hx⟩
  · exact Or.inr ⟨hf, es, l, p', Stops.of_eq h hs⟩

/-- complete case analysis of a run over the items of a node, by the result of the specification -/
def Outcome (p : Pump) (inp rest : List RawItem) (ac : Nat → Nat) (fo : Bool) : Except ExpErr Exp → Prop
  | .ok r => (∃ p', Steps p inp r.evs p' rest ∧ Post p p' r ac) ∨
      Bad p inp (· <+: r.evs) (Exceeds p r.replayed ac) fo
  | .error e => (∃ es p', Stops p inp es (errOf e) p') ∨ Bad p inp (fun _ => True) True fo

theorem Post.trans {p p1 p2 : Pump} {r1 r2 : Exp} {ac1 ac2 : Nat → Nat} (h1 : Post p p1 r1 ac1)
    (h2 : Post p1 p2 r2 ac2) :
    Post p p2 ⟨r1.evs ++ r2.evs, r2.tab, r1.replayed + r2.replayed⟩ (fun i => ac1 i + ac2 i) := by
  constructor
  · exact h2.good
  · exact h2.anchors
  · rw [h2.frames, h1.frames]; simp
  · rw [h2.tot, h1.tot]; simp; omega
  · intro i
    have a := h1.cnt i
    have b := h2.cnt i
    omega
  · rw [h2.lim, h1.lim]
  · rw [h2.sade, h1.sade]
  · intro h
    by_cases he : r1.evs = []
    · rcases h with h | h
      · exact h2.prod (Or.inl (h1.prod (Or.inl h)))
      · refine h2.prod (Or.inr ?_)
        intro h2e
        exact h (by simp [he, h2e])
    · exact h2.prod (Or.inl (h1.prod (Or.inr he)))

theorem Exceeds.left {p : Pump} {rep1 : Nat} {ac1 : Nat → Nat} (h : Exceeds p rep1 ac1) (rep2 : Nat)
    (ac2 : Nat → Nat) : Exceeds p (rep1 + rep2) (fun i => ac1 i + ac2 i) := by
  rcases h with h | h | ⟨id, h⟩
  · exact Or.inl h
  · exact Or.inr (Or.inl (by omega))
  · exact Or.inr (Or.inr ⟨id, by show _ < _ + (ac1 id + ac2 id); omega⟩)

theorem Exceeds.after {p p1 : Pump} {r1 : Exp} {ac1 : Nat → Nat} (hp : Post p p1 r1 ac1) {rep2 : Nat}
    {ac2 : Nat → Nat} (h : Exceeds p1 rep2 ac2) :
    Exceeds p (r1.replayed + rep2) (fun i => ac1 i + ac2 i) := by
  rcases h with h | h | ⟨id, h⟩
  · exact Or.inl (by rw [← hp.lim]; exact h)
  · refine Or.inr (Or.inl ?_)
    rw [hp.lim, hp.tot] at h
    omega
  · refine Or.inr (Or.inr ⟨id, ?_⟩)
    have := hp.cnt id
    rw [hp.lim] at h
    show _ < _ + (ac1 id + ac2 id)
    omega

/-- sequential composition of the results of the specification -/
def bind2 (res1 : Except ExpErr Exp) (res2 : Tab → Except ExpErr Exp) : Except ExpErr Exp :=
  match res1 with
  | .error e => .error e
  | .ok r1 =>
    match res2 r1.tab with
    | .error e => .error e
    | .ok r2 => .ok ⟨r1.evs ++ r2.evs, r2.tab, r1.replayed + r2.replayed⟩

/-- sequential composition of two runs -/
theorem Outcome.comp {p : Pump} {A B rest : List RawItem} {ac1 ac2 : Nat → Nat} {fo1 fo2 : Bool}
    {res1 : Except ExpErr Exp}
    (h1 : Outcome p (A ++ (B ++ rest)) (B ++ rest) ac1 fo1 res1)
    (res2 : Tab → Except ExpErr Exp)
    (h2 : ∀ p1 r1, Good p1 → res1 = .ok r1 → p1.anchors = r1.tab →
      p1.recStack = recordL p.recStack r1.evs → Outcome p1 (B ++ rest) rest ac2 fo2 (res2 r1.tab)) :
    Outcome p (A ++ B ++ rest) rest (fun i => ac1 i + ac2 i) (fo1 && fo2) (bind2 res1 res2) := by
  rw [List.append_assoc]
  have hfo1 : fo1 = false → (fo1 && fo2) = false := by intro h; simp [h]
  have hfo2 : fo2 = false → (fo1 && fo2) = false := by intro h; simp [h]
  cases res1 with
  | error e =>
    simp only [bind2, Outcome] at h1 ⊢
    rcases h1 with h | h
    · exact Or.inl h
    · exact Or.inr (h.mono (fun _ h => h) id hfo1)
  | ok r1 =>
    simp only [Outcome] at h1
    rcases h1 with ⟨p1, hs1, hpost1⟩ | hb
    · have h2' := h2 p1 r1 hpost1.good rfl hpost1.anchors hpost1.frames
      simp only [bind2]
      cases hr2 : res2 r1.tab with
      | error e =>
        rw [hr2] at h2'
        simp only [Outcome] at h2' ⊢
        rcases h2' with ⟨es, p', hs⟩ | hb
        · exact Or.inl ⟨_, p', Stops.after hs1 hs⟩
        · exact Or.inr (Bad.after hs1 hb (fun _ h => h) id hfo2)
      | ok r2 =>
        rw [hr2] at h2'
        simp only [Outcome] at h2' ⊢
        rcases h2' with ⟨p2, hs2, hpost2⟩ | hb
        · exact Or.inl ⟨p2, hs1.trans hs2, hpost1.trans hpost2⟩
        · refine Or.inr (Bad.after hs1 hb ?_ (fun hx => Exceeds.after hpost1 hx) hfo2)
          intro es hes
          exact (List.prefix_append_right_inj _).mpr hes
    · simp only [bind2]
      cases hr2 : res2 r1.tab with
      | error e =>
        simp only [Outcome]
        exact Or.inr (hb.mono (fun _ _ => trivial) (fun _ => trivial) hfo1)
      | ok r2 =>
        simp only [Outcome]
        refine Or.inr (hb.mono ?_ (fun hx => hx.left _ _) hfo1)
        intro es hes
        exact hes.trans (List.prefix_append _ _)

/-- an immediate limit error fits every result of the specification -/
theorem Outcome.of_limit {p : Pump} {inp rest : List RawItem} {ac : Nat → Nat} {fo : Bool}
    {res : Except ExpErr Exp} {err : PErr} {p' : Pump} (hs : Stops p inp [] err p')
    (hl : isLimit err = true) (hx : ∀ r, res = .ok r → Exceeds p r.replayed ac) :
    Outcome p inp rest ac fo res := by
  cases res with
  | error e => exact Or.inr (Or.inl ⟨[], err, p', hs, hl, trivial, trivial⟩)
  | ok r => exact Or.inr (Or.inl ⟨[], err, p', hs, hl, List.nil_prefix, hx r rfl⟩)

theorem node_scalar {p : Pump} (hg : Good p) (v : List Char) (st : Style) (a : Nat) (tag : Option (List Char))
    (loc : Loc) (rest : List RawItem) :
    Outcome p (.ev (.scalar v st a tag) loc :: rest) rest (fun _ => 0)
      (!(st == .folded && locCol0 loc && !(trim v).isEmpty))
      (.ok ⟨[scalarEv v st a tag loc],
        if a != 0 then setAnchor p.anchors a [scalarEv v st a tag loc] else p.anchors, 0⟩) := by
  cases hf : foldedBad v st loc with
  | false =>
    obtain ⟨p1, hn, hpl, ha, hr⟩ := step_scalar hg v st a tag loc rest hf
    refine Or.inl ⟨p1, Steps.one hn, ?_⟩
    have hne : TabNe p1.anchors := by
      rw [ha]
      split
      · exact TabNe_set hg.ne a (by simp)
      · exact hg.ne
    have hd : DepthPos p1.recStack := by rw [hr]; exact DepthPos_recordL _ hg.dep
    constructor
    · exact Good_of_plain hg hpl hd hne
    · exact ha
    · exact hr
    · exact hpl.tot
    · intro i; rw [hpl.per]; simp
    · exact hpl.lim
    · exact hpl.sade
    · intro _; exact hpl.prod
  | true =>
    obtain ⟨p1, hn⟩ := step_scalar_bad hg v st a tag loc rest hf
    unfold foldedBad at hf
    refine Or.inr (Or.inr ⟨by simp [hf], [], loc, p1, Stops.now hn⟩)

theorem node_alias {p : Pump} (hg : Good p) (id : Nat) (loc : Loc) (rest : List RawItem) :
    Outcome p (.ev (.alias id) loc :: rest) rest (fun i => if id == i then 1 else 0) true
      (expand p.anchors (p.recStack.map (·.id)) (.alias id loc)) := by
  by_cases h1 : aliasCnt p id ≤ p.limits.maxAliasExpansionsPerAnchor
  · by_cases h2 : 1 ≤ p.limits.maxReplayStackDepth
    · cases h3 : (p.recStack.map (·.id)).contains id with
      | true =>
        obtain ⟨p', hn⟩ := alias_recursive hg id loc rest h1 h2 h3
        simp only [expand, h3, if_true]
        exact Or.inl ⟨[], p', Stops.now hn⟩
      | false =>
        cases h5 : lookupAnchor p.anchors id with
        | none =>
          obtain ⟨p', hn⟩ := alias_unknown hg id loc rest h1 h2 h3 h5
          simp only [expand, h3, h5, Bool.false_eq_true, if_false]
          exact Or.inl ⟨[], p', Stops.now hn⟩
        | some buf =>
          simp only [expand, h3, h5, Bool.false_eq_true, if_false]
          rcases alias_replay hg id loc rest h1 h2 h3 h5 with ⟨p', hs, hpost⟩ | ⟨hex, es, err, p', hs, hl, hpre⟩
          · exact Or.inl ⟨p', hs, hpost⟩
          · exact Or.inr (Or.inl ⟨es, err, p', hs, hl, hpre, Or.inr (Or.inl hex)⟩)
    · obtain ⟨p', hn⟩ := alias_limit2 hg id loc rest h1 (by omega)
      exact Outcome.of_limit (Stops.now hn) rfl (fun _ _ => Or.inl (by omega))
  · obtain ⟨p', hn⟩ := alias_limit1 hg id loc rest (by omega)
    refine Outcome.of_limit (Stops.now hn) rfl (fun _ _ => Or.inr (Or.inr ⟨id, ?_⟩))
    unfold aliasCnt at h1
    simp
    omega

/-- the result of the specification for a container, from the result for its children -/
def wrap (a : Nat) (ev eend : Ev) (res : Except ExpErr Exp) : Except ExpErr Exp :=
  match res with
  | .error e => .error e
  | .ok r =>
    .ok ⟨ev :: (r.evs ++ [eend]), if a != 0 then setAnchor r.tab a (ev :: (r.evs ++ [eend])) else r.tab, r.replayed⟩

theorem DepthPos_startFrames {R : List RecFrame} (a : Nat) (ev : Ev) : DepthPos (startFrames R a ev) := by
  unfold startFrames
  split
  · exact DepthPos_cons (by simp) (DepthPos_recordL _ (DepthPos_bump R))
  · exact DepthPos_recordL _ (DepthPos_bump R)

theorem ids_startFrames (R : List RecFrame) (a : Nat) (ev : Ev) :
    (startFrames R a ev).map (·.id) = if a != 0 then a :: R.map (·.id) else R.map (·.id) := by
  unfold startFrames
  split <;> simp

/-- a container: start event, children, end event -/
theorem node_container {p : Pump} (hg : Good p) (a : Nat) (ev eend : Ev) (sItem eItem : RawItem)
    (inner rest : List RawItem) (ac : Nat → Nat) (fo : Bool) (res : Except ExpErr Exp)
    (hstart : ∀ rest', ∃ p1, nextImpl p (sItem :: rest') = (.event ev, p1, rest') ∧ Plain p p1 ∧
      p1.anchors = p.anchors ∧ p1.recStack = startFrames p.recStack a ev)
    (hend : ∀ p2, Good p2 → ∀ rest', ∃ p3, nextImpl p2 (eItem :: rest') = (.event eend, p3, rest') ∧
      Plain p2 p3 ∧ (p3.anchors, p3.recStack) = finalizeFrames p2.anchors (decAll (recordL p2.recStack [eend])))
    (hin : ∀ p1, Good p1 → p1.anchors = p.anchors → p1.recStack = startFrames p.recStack a ev →
      Outcome p1 (inner ++ eItem :: rest) (eItem :: rest) ac fo res) :
    Outcome p (sItem :: (inner ++ [eItem]) ++ rest) rest ac fo (wrap a ev eend res) := by
  have hinp : sItem :: (inner ++ [eItem]) ++ rest = sItem :: (inner ++ eItem :: rest) := by simp
  rw [hinp]
  obtain ⟨p1, hn1, hpl1, ha1, hr1⟩ := hstart (inner ++ eItem :: rest)
  have hg1 : Good p1 :=
    Good_of_plain hg hpl1 (by rw [hr1]; exact DepthPos_startFrames a ev) (by rw [ha1]; exact hg.ne)
  have hin' := hin p1 hg1 ha1 hr1
  have hex : ∀ rep, Exceeds p1 rep ac → Exceeds p rep ac := by
    intro rep h
    unfold Exceeds at h ⊢
    rw [hpl1.lim, hpl1.tot, hpl1.per] at h
    exact h
  cases res with
  | error e =>
    simp only [wrap, Outcome] at hin' ⊢
    rcases hin' with ⟨es, p', hs⟩ | hb
    · exact Or.inl ⟨_, p', Stops.after (Steps.one hn1) hs⟩
    · exact Or.inr (Bad.after (Steps.one hn1) hb (fun _ h => h) id id)
  | ok r =>
    simp only [wrap, Outcome] at hin' ⊢
    rcases hin' with ⟨p2, hs2, hpost2⟩ | hb
    · left
      obtain ⟨p3, hn3, hpl3, hfin⟩ := hend p2 hpost2.good rest
      rw [hpost2.anchors, hpost2.frames, hr1, finalize_container _ _ hg.dep] at hfin
      have ha3 : p3.anchors = (if a != 0 then setAnchor r.tab a (ev :: (r.evs ++ [eend])) else r.tab) :=
        congrArg Prod.fst hfin
      have hr3 : p3.recStack = recordL p.recStack (ev :: (r.evs ++ [eend])) := congrArg Prod.snd hfin
      have hne2 : TabNe r.tab := by rw [← hpost2.anchors]; exact hpost2.good.ne
      refine ⟨p3, Steps.cons hn1 (hs2.snoc hn3), ?_⟩
      constructor
      · refine Good_of_plain hpost2.good hpl3 (by rw [hr3]; exact DepthPos_recordL _ hg.dep) ?_
        rw [ha3]
        split
        · exact TabNe_set hne2 a (by simp)
        · exact hne2
      · exact ha3
      · exact hr3
      · rw [hpl3.tot, hpost2.tot, hpl1.tot]
      · intro i
        have := hpost2.cnt i
        rw [hpl3.per]
        rw [hpl1.per] at this
        exact this
      · rw [hpl3.lim, hpost2.lim, hpl1.lim]
      · rw [hpl3.sade, hpost2.sade, hpl1.sade]
      · intro _; exact hpl3.prod
    · refine Or.inr (Bad.after (Steps.one hn1) hb ?_ (hex _) id)
      intro es hes
      show ev :: es <+: ev :: (r.evs ++ [eend])
      exact (List.prefix_cons_inj _).mpr (hes.trans (List.prefix_append _ _))

end SaphyrVerif.Lemmas.C02
