import SaphyrVerif.Lemmas.C16
/-! C16: `mark_line_and_column` — the end-of-stream mark is put back on the last line, marks that are
positions of the text are left alone. -/
namespace SaphyrVerif.Lemmas.C16
open SaphyrVerif SaphyrVerif.Locs

theorem prefixOfByte_append (pre suf : List Char) : prefixOfByte (pre ++ suf) (utf8Len pre) = some pre := by
  induction pre with
  | nil => cases suf <;> simp [utf8Len_nil, prefixOfByte]
  | cons c pre ih =>
    have hc := utf8LenChar_pos c
    obtain ⟨b, hb⟩ : ∃ b, utf8Len (c :: pre) = b + 1 := ⟨utf8LenChar c + utf8Len pre - 1, by rw [utf8Len_cons]; omega⟩
    rw [hb, List.cons_append, prefixOfByte]
    rw [utf8Len_cons] at hb
    have h1 : utf8LenChar c ≤ b + 1 := by omega
    have h2 : b + 1 - utf8LenChar c = utf8Len pre := by omega
    simp [h1, h2, ih]

theorem takeWhile_all (p : Char → Bool) (l : List Char) (h : ∀ x ∈ l, p x = true) : l.takeWhile p = l := by
  induction l with
  | nil => rfl
  | cons a l ih =>
    simp only [List.takeWhile_cons, h a (by simp), if_true]
    rw [ih (fun x hx => h x (by simp [hx]))]

theorem takeWhile_snoc (p : Char → Bool) (l : List Char) (c : Char) :
    (l ++ [c]).takeWhile p = if l.all p then l ++ (if p c then [c] else []) else l.takeWhile p := by
  induction l with
  | nil => by_cases h : p c <;> simp [List.takeWhile, h]
  | cons a l ih =>
    by_cases ha : p a
    · simp only [List.cons_append, List.takeWhile_cons, ha, if_true, ih, List.all_cons, Bool.true_and]
      by_cases hl : l.all p = true <;> simp [hl]
    · simp [List.takeWhile_cons, ha]

theorem charsAfterLastBreak_cons (c : Char) (rest : List Char) :
    charsAfterLastBreak (c :: rest) =
      if rest.any isBreak then charsAfterLastBreak rest
      else if isBreak c then rest.length else rest.length + 1 := by
  unfold charsAfterLastBreak
  rw [List.reverse_cons, takeWhile_snoc]
  by_cases h : rest.any isBreak = true
  · have : (rest.reverse.all fun c => !isBreak c) = false := by
      rw [List.all_reverse]
      simp only [List.any_eq_true] at h
      obtain ⟨x, hx, hb⟩ := h
      simp only [List.all_eq_false]
      exact ⟨x, hx, by simp [hb]⟩
    simp [h, this]
  · have hall : (rest.reverse.all fun c => !isBreak c) = true := by
      rw [List.all_reverse]
      simp only [List.any_eq_true, not_exists, not_and] at h
      simp only [List.all_eq_true]
      intro x hx
      have := h x hx
      simpa using this
    simp only [h, Bool.false_eq_true, if_false, hall, if_true]
    by_cases hc : isBreak c = true <;> simp [hc]

/-- the column after walking a whole text -/
theorem walk_col_end (p : Pos) (text : List Char) :
    (walk p text text.length).col =
      if text.any isBreak then charsAfterLastBreak text else p.col + text.length := by
  induction text generalizing p with
  | nil => simp [walk]
  | cons c rest ih =>
    simp only [List.length_cons, walk, ih, charsAfterLastBreak_cons, List.any_cons]
    by_cases hr : rest.any isBreak = true
    · simp [hr]
    · simp only [hr, Bool.false_eq_true, if_false, Bool.or_false]
      unfold Pos.step
      by_cases h1 : (c == '\r' && rest.head? == some '\n') = true
      · -- impossible: the LF would be a break of `rest`
        exfalso
        apply hr
        simp only [Bool.and_eq_true, beq_iff_eq] at h1
        cases rest with
        | nil => simp at h1
        | cons d r =>
          simp only [List.head?_cons, Option.some.injEq] at h1
          simp [h1.2, isBreak]
      · by_cases hc : isBreak c = true
        · simp [h1, hc]
        · simp only [h1, hc, Bool.false_eq_true, if_false]
          omega

theorem endsWithBreak_iff (text : List Char) (hne : text ≠ []) :
    endsWithBreak text = true ↔ (text.any isBreak = true ∧ charsAfterLastBreak text = 0) := by
  obtain ⟨pre, c, rfl⟩ : ∃ pre c, text = pre ++ [c] := ⟨text.dropLast, text.getLast hne, (List.dropLast_concat_getLast hne).symm⟩
  unfold endsWithBreak charsAfterLastBreak
  simp only [List.getLast?_append, List.getLast?_singleton, Option.some_or, List.reverse_append,
    List.reverse_singleton, List.singleton_append, List.takeWhile_cons]
  by_cases hc : isBreak c = true
  · simp [hc]
  · simp [hc]

/-- (the model of) `mark_line_and_column` on the scanner's end-of-stream mark: line and 1-based column of
the END of the text, for every text -/
theorem markLineCol_streamEnd (text : List Char) :
    markLineCol (streamEndMark text).toMark (some text) =
      ((posOf text text.length).line, (posOf text text.length).col + 1) := by
  have hcol := walk_col_end Pos.start text
  have hline := (posOf_bounds text text.length).1
  have hbyte : (posOf text text.length).byte = utf8Len text := by rw [posOf_byte]; simp
  have hpre : prefixOfByte text (utf8Len text) = some text := by
    have := prefixOfByte_append text []
    simpa using this
  change (posOf text text.length).col = _ at hcol
  simp only [Pos.start, Nat.zero_add] at hcol
  by_cases hne : text = []
  · subst hne; decide
  have hpos : 0 < utf8Len text := by
    cases text with
    | nil => exact absurd rfl hne
    | cons c r => rw [utf8Len_cons]; have := utf8LenChar_pos c; omega
  have hlen : 0 < text.length := List.length_pos_iff.mpr hne
  have hew := endsWithBreak_iff text hne
  by_cases h0 : (posOf text text.length).col = 0
  · -- the mark already is the position of the end: after a line break
    have hend : endsWithBreak text = true := by
      rw [hew]
      by_cases ha : text.any isBreak = true
      · rw [ha] at hcol; simp only [if_true] at hcol; exact ⟨ha, by omega⟩
      · simp only [ha, Bool.false_eq_true, if_false] at hcol; omega
    unfold streamEndMark
    simp only [h0, bne_self_eq_false, Bool.false_eq_true, if_false, markLineCol, Pos.toMark, hbyte, hpre, hend]
    by_cases hl : (posOf text text.length).line > 1 <;> simp [hl, hpos, h0]
  · have hend : endsWithBreak text = false := by
      cases he : endsWithBreak text with
      | false => rfl
      | true =>
        exfalso
        obtain ⟨ha, hz⟩ := hew.mp he
        rw [ha] at hcol; simp only [if_true] at hcol; omega
    have hcount : charsAfterLastBreak text = (posOf text text.length).col := by
      by_cases ha : text.any isBreak = true
      · rw [ha] at hcol; simp only [if_true] at hcol; omega
      · simp only [ha, Bool.false_eq_true, if_false] at hcol
        rw [hcol]
        unfold charsAfterLastBreak
        have : (text.reverse.takeWhile fun c => !isBreak c) = text.reverse := by
          apply takeWhile_all
          intro x hx
          simp only [List.any_eq_true, not_exists, not_and] at ha
          have := ha x (List.mem_reverse.mp hx)
          simpa using this
        rw [this]; simp
    unfold streamEndMark
    have hb : ((posOf text text.length).col != 0) = true := by simp [h0]
    simp only [hb, if_true, markLineCol, Pos.toMark, hbyte, hpre, hend, hcount]
    have hl : (posOf text text.length).line + 1 > 1 := by omega
    simp [hl, hpos]

/-- a column-0 position inside the text (not its start) directly follows a line break -/
theorem col_zero_after_break (text : List Char) (i : Nat) (hi : i < text.length)
    (h0 : (posOf text (i + 1)).col = 0) : isBreak text[i] = true := by
  rw [posOf_succ text i hi] at h0
  unfold Pos.step at h0
  split at h0
  · exact absurd h0 (Nat.succ_ne_zero _)
  · split at h0
    · assumption
    · exact absurd h0 (Nat.succ_ne_zero _)

/-- the normalisation does nothing unless the character in front of a column-0 mark is not a break -/
theorem markLineCol_plain (m : Mark) (text : List Char)
    (h : m.col = 0 → ∀ b, m.byte = some b → b > 0 → ∃ pre, prefixOfByte text b = some pre ∧ endsWithBreak pre = true) :
    markLineCol m (some text) = (m.line, m.col + 1) := by
  unfold markLineCol
  split
  · rename_i hc
    simp only [Bool.and_eq_true, beq_iff_eq] at hc
    cases hb : m.byte with
    | none => rfl
    | some b =>
      simp only
      split
      · rename_i hpos
        obtain ⟨pre, hp, he⟩ := h hc.1 b hb hpos
        simp [hp, he]
      · rfl
  · rfl

/-- `mark_line_and_column` leaves a mark that is a position of the text alone -/
theorem markLineCol_of_posOf (text : List Char) (i : Nat) (hi : i ≤ text.length) :
    markLineCol (posOf text i).toMark (some text) = ((posOf text i).line, (posOf text i).col + 1) := by
  apply markLineCol_plain
  intro hc b hb hpos
  simp only [Pos.toMark, Option.some.injEq] at hb hc
  subst hb
  refine ⟨text.take i, ?_, ?_⟩
  · rw [posOf_byte]
    have := prefixOfByte_append (text.take i) (text.drop i)
    rwa [List.take_append_drop] at this
  · cases i with
    | zero => simp [posOf_byte, utf8Len_nil] at hpos
    | succ j =>
      have hj : j < text.length := by omega
      have hbr := col_zero_after_break text j hj hc
      have hlast : (text.take (j + 1)).getLast? = some text[j] := by
        rw [List.getLast?_eq_getElem?, List.length_take, Nat.min_eq_left hi, Nat.add_sub_cancel,
          List.getElem?_take_of_lt (Nat.lt_succ_self j), List.getElem?_eq_getElem hj]
      simp [endsWithBreak, hlast, hbr]

end SaphyrVerif.Lemmas.C16
