import SaphyrVerif.Lemmas.E2EBudgetMain
import SaphyrVerif.Lemmas.E2EBudgetRun
/-!
End-to-end composition with the budget enforcer, part 11: the entry-point protocol (`finish()`, the
end-of-document check `enforce_single_document_and_finish`) with and without the enforcer.
-/
namespace SaphyrVerif.Lemmas.E2EBudget
set_option linter.unusedSimpArgs false
open SaphyrVerif SaphyrVerif.Scalars SaphyrVerif.Pump SaphyrVerif.Budget SaphyrVerif.De

theorem finishCur_strip (d : Cur) : Entry.finishCur (strip d) = none := by
  cases d <;> simp [strip, Entry.finishCur, Pump.finish]

theorem finishCur_budget {d : Cur} {e : DErr} (h : Entry.finishCur d = some e) : e.kind = "Budget" := by
  cases d with
  | replay => simp [Entry.finishCur] at h
  | live p inp =>
    simp only [Entry.finishCur, Pump.finish] at h
    cases hb : p.budget with
    | none => simp [hb] at h
    | some enf =>
      simp only [hb] at h
      cases hf : enf.finalize.2 with
      | none => simp [hf] at h
      | some b =>
        simp [hf] at h
        subst h
        rfl

theorem seenDocEnd_strip (d : Cur) :
    (match strip d with | .live p _ => p.seenDocEnd | _ => false) = (match d with | .live p _ => p.seenDocEnd | _ => false) := by
  cases d <;> rfl

theorem synthesizedNull_strip (d : Cur) :
    (match strip d with | .live p _ => p.synthesizedNull | _ => false) =
      (match d with | .live p _ => p.synthesizedNull | _ => false) := by
  cases d <;> rfl

theorem budgetish_not_garbage {e : DErr} (h : budgetish e) :
    (e.kind == "ExternalMessage" || e.kind == "UnknownAnchor") = false := by
  rcases h with h | h <;> rw [h] <;> decide

/-- the end-of-document check with and without the enforcer: the same answer, or a budget error -/
theorem enforceSingle_br {d : Cur} (hi : P1.Inv d) :
    Entry.enforceSingle d = Entry.enforceSingle (strip d) ∨ ∃ e, Entry.enforceSingle d = some e ∧ budgetish e := by
  unfold Entry.enforceSingle
  rcases closed_P1.peek_cases hi with ⟨o, d', hp, hp', hi'⟩ | ⟨e, d', hp, hp'⟩ | ⟨e, d', hp, -, hb, -⟩
  · rw [hp, hp']
    cases o with
    | some ev => left; simp
    | none =>
      simp only [finishCur_strip]
      cases hf : Entry.finishCur d' with
      | none => left; rfl
      | some e => right; exact ⟨e, rfl, .inl (finishCur_budget hf)⟩
  · rw [hp, hp']
    cases d' with
    | replay b i r => left; rfl
    | live q inq =>
      simp only [strip, finishCur_strip]
      have hfs : Entry.finishCur (.live (stripP q) inq) = none := finishCur_strip (.live q inq)
      rw [hfs]
      by_cases hc : (q.seenDocEnd && (e.kind == "ExternalMessage" || e.kind == "UnknownAnchor")) = true
      · simp only [hc, ↓reduceIte]
        cases hf : Entry.finishCur (.live q inq) with
        | none => left; rfl
        | some e' => right; exact ⟨_, rfl, .inl (finishCur_budget hf)⟩
      · simp only [hc, ↓reduceIte]
        left; trivial
  · rw [hp]
    simp only [budgetish_not_garbage hb, Bool.and_false, Bool.false_eq_true, ↓reduceIte]
    exact .inr ⟨e, rfl, hb⟩

/-- the entry point with and without the enforcer: same value outcome, or a budget error -/
theorem fromSingle_rejects (cfg : Cfg) (ty : Ty) (p : Pump) (items : List RawItem)
    (hs : p.synthesizedNull = false) :
    (Entry.fromSingle cfg ty p items).toOption = (Entry.fromSingle cfg ty (stripP p) items).toOption ∨
      ∃ e, Entry.fromSingle cfg ty p items = .error e ∧ budgetish e := by
  have hJ : P1.Inv (.live p items) := fun h => by rw [hs] at h; cases h
  have h := (bA closed_P1 (Entry.fuelFor items.length)).deser cfg ty false false hJ
  unfold Entry.fromSingle
  simp only []
  revert h
  generalize deser _ cfg ty false false (.live p items) = x
  generalize hy : deser _ cfg ty false false (.live (stripP p) items) = y
  intro h
  have hy' : deser (Entry.fuelFor items.length) cfg ty false false (strip (.live p items)) = y := hy
  rw [hy'] at h
  cases h with
  | ok hi =>
    rename_i a d
    simp only []
    rcases enforceSingle_br hi with he | ⟨e, he, hb⟩
    · rw [he]; exact .inl rfl
    · rw [he]; exact .inr ⟨e, rfl, hb⟩
  | err =>
    rename_i e d
    left
    cases d with
    | replay b i r => rfl
    | live q inq =>
      simp only [strip]
      by_cases hq : q.synthesizedNull = true <;> simp [hq, Except.toOption]
  | breach hab hb hns =>
    rename_i e d
    right
    cases d with
    | replay b i r => exact ⟨e, rfl, hb⟩
    | live q inq =>
      have : q.synthesizedNull = false := hns
      simp only [this]
      exact ⟨e, rfl, hb⟩

/-- with a breach-free pump the entry point cannot see the enforcer -/
theorem fromSingle_transparent_of_brun (cfg : Cfg) (ty : Ty) (p : Pump) (items : List RawItem) (es : List Ev)
    (hl : p.look = none) (hr : BRun p items es) :
    Entry.fromSingle cfg ty p items = Entry.fromSingle cfg ty (stripP p) items := by
  have hI : P2.Inv (.live p items) := ⟨es, .inl ⟨hl, hr⟩⟩
  have h := (bA closed_P2 (Entry.fuelFor items.length)).deser cfg ty false false hI
  unfold Entry.fromSingle
  simp only []
  revert h
  generalize deser _ cfg ty false false (.live p items) = x
  generalize hy : deser _ cfg ty false false (.live (stripP p) items) = y
  intro h
  have hy' : deser (Entry.fuelFor items.length) cfg ty false false (strip (.live p items)) = y := hy
  rw [hy'] at h
  cases h with
  | ok hi =>
    rename_i a d
    simp only []
    obtain ⟨⟨o, d', h1, h2, -, hfin⟩, -⟩ := inv2_step hi
    simp only [Entry.enforceSingle, h1, h2]
    cases o with
    | some ev => simp
    | none => simp [hfin rfl, finishCur_strip]
  | err =>
    rename_i e d
    cases d with
    | replay b i r => rfl
    | live q inq =>
      simp only [strip]
      by_cases hq : q.synthesizedNull = true <;> simp [hq, Cur.lastLoc]
  | breach hab hb hns => exact absurd hab id


end SaphyrVerif.Lemmas.E2EBudget
