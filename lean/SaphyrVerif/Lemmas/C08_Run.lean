import SaphyrVerif.Lemmas.C08_Budget
/-!
Helper lemmas for C08, part 5: the nesting error, and whole runs of `pumpAll`.
-/
namespace SaphyrVerif.Lemmas.C08
open SaphyrVerif SaphyrVerif.Scalars SaphyrVerif.Pump SaphyrVerif.Budget SaphyrVerif.Spec

theorem parserLoop_depthErr (p : Pump) (inp : List RawItem) (d m : Nat) (l : Loc) (p' : Pump) (rest : List RawItem)
    (hinj : p.inject = [])
    (h : parserLoop p inp = (.error (.replayStackDepth d m l), p', rest)) : d = 1 ∧ m = 0 := by
  fun_induction parserLoop p inp
  all_goals try (simp at h; done)
  case case3 => split at h <;> simp at h
  case case14 p loc rest' bud p1 id count p2 hc nd hd ob hob =>
    simp only [Prod.mk.injEq, Step.error.injEq, PErr.replayStackDepth.injEq] at h
    obtain ⟨⟨rfl, rfl, -⟩, -, -⟩ := h
    have hd' : p.inject.length + 1 > p2.limits.maxReplayStackDepth := hd
    rw [hinj] at hd'
    simp only [List.length_nil] at hd'
    refine ⟨?_, by omega⟩
    show p.inject.length + 1 = 1
    rw [hinj]; rfl
  case case18 p loc rest' bud p1 id count p2 hc nd hd hany buf hbuf p3 step q hs ob hob =>
    simp only [Prod.mk.injEq] at h
    obtain ⟨rfl, rfl, rfl⟩ := h
    exact absurd rfl (serveInject_cases _ _ hs d m l)
  case case19 p loc rest' bud p1 id count p2 hc nd hd hany buf hbuf p3 q hs ob hob ih =>
    have hq : q = _ := serveInject_cases _ _ hs
    exact ih (by rw [hq]) h
  case case20 ih => exact ih rfl h
  case case24 ih => exact ih rfl h
  case case25 ih => exact ih hinj h
  case case26 ih => exact ih hinj h
  case case27 ih => exact ih hinj h

theorem nextImpl_depthErr (p : Pump) (inp : List RawItem) (d m : Nat) (l : Loc) (p' : Pump) (rest : List RawItem)
    (h : nextImpl p inp = (.error (.replayStackDepth d m l), p', rest)) : d = 1 ∧ m = 0 := by
  unfold nextImpl at h
  rcases hs : serveInject p p.inject with ⟨_ | step, p1⟩
  · rw [hs] at h
    have hp1 : p1 = _ := serveInject_cases _ _ hs
    exact parserLoop_depthErr p1 inp d m l p' rest (by rw [hp1]) h
  · rw [hs] at h
    simp only [Prod.mk.injEq] at h
    obtain ⟨rfl, rfl, rfl⟩ := h
    exact absurd rfl (serveInject_cases _ _ hs d m l)

/-! ## whole runs -/

theorem nextImpl_after_null (p : Pump) (hinj : p.inject = []) (hpa : p.producedAny = true) :
    nextImpl p [] = (.eof, { p with inject := [] }, []) := by
  simp [nextImpl, hinj, serveInject, parserLoop, hpa]

/-- invariant of a run with a budget: everything delivered so far was observed and the observed counters
are within the limits -/
def RunInv (lim : Limits) (p : Pump) (acc : List Ev) : Prop :=
  ∃ enf : Enf, p.budget = some enf ∧ enf.perDocument = false ∧ enf.lim = lim ∧ p.recursiveInProgress = [] ∧
    acc.length ≤ enf.report.events ∧ (acc.filter nodeEv).length ≤ enf.report.nodes ∧
    enf.report.events ≤ lim.maxEvents ∧ enf.report.nodes ≤ lim.maxNodes ∧ (acc ≠ [] → p.producedAny = true)

theorem pumpAll_bound (lim : Limits) (fuel : Nat) (p : Pump) (inp : List RawItem) (acc : List Ev)
    (evs : List Ev) (err : Option PErr) (p' : Pump) (hinv : RunInv lim p acc)
    (h : pumpAll fuel p inp acc = some (evs, err, p')) :
    (evs.length ≤ lim.maxEvents ∧ (evs.filter nodeEv).length ≤ lim.maxNodes) ∨
      ((∃ loc, evs = [.scalar [] 4 none .plain 0 loc]) ∧ err = none ∧ p'.synthesizedNull = true) := by
  induction fuel generalizing p inp acc with
  | zero => simp [pumpAll] at h
  | succ fuel ih =>
    obtain ⟨enf, hb, hpd, hlim, hrec, hev, hnd, hevmax, hndmax, hpa⟩ := hinv
    have hdone : evs = acc.reverse →
        (evs.length ≤ lim.maxEvents ∧ (evs.filter nodeEv).length ≤ lim.maxNodes) := by
      rintro rfl
      simp only [List.length_reverse, List.filter_reverse]
      omega
    rw [pumpAll] at h
    rcases hn : nextImpl p inp with ⟨step, p1, rest⟩
    rw [hn] at h
    cases step with
    | eof =>
      simp only [Option.some.injEq, Prod.mk.injEq] at h
      exact .inl (hdone h.1.symm)
    | error er =>
      simp only [Option.some.injEq, Prod.mk.injEq] at h
      exact .inl (hdone h.1.symm)
    | event e =>
      simp only at h
      obtain ⟨r1, r2, hcase⟩ := nextImpl_budget p inp e p1 rest enf hb hpd hn
      rcases hcase with ⟨enf', hb', ⟨o1, o2, o3, o4, o5⟩, -⟩ | ⟨n1, n2, rfl, n4, ⟨loc, rfl⟩, -⟩
      · rcases o5 with ⟨o5, o6⟩ | ⟨hne, -⟩
        · refine ih p1 rest (e :: acc) ⟨enf', hb', o1, o2.trans hlim, r1.trans hrec, ?_, ?_, ?_, ?_, fun _ => r2⟩ h
          · simp only [List.length_cons]; omega
          · simp only [List.filter_cons]
            split <;> simp_all <;> omega
          · rw [← hlim]; exact o4
          · by_cases hne : nodeEv e = true
            · rw [← hlim]; exact o6 hne
            · simp only [hne] at o5; simp at o5; omega
        · exact absurd hrec hne
      · have hacc : acc = [] := by
          by_cases ha : acc = []
          · exact ha
          · rw [hpa ha] at n1; cases n1
        subst hacc
        cases fuel with
        | zero => simp [pumpAll] at h
        | succ fuel =>
          rw [pumpAll, nextImpl_after_null p1 n4 r2] at h
          simp only [Option.some.injEq, Prod.mk.injEq] at h
          obtain ⟨rfl, rfl, rfl⟩ := h
          exact .inr ⟨⟨loc, rfl⟩, rfl, n2⟩

end SaphyrVerif.Lemmas.C08
