import SaphyrVerif.Lemmas.C17Caret
/-!
Helper lemmas for C17, part 10: the crate's own window renderer
(`fmt_snippet_window_with_mapping_or_fallback`): its slices are safe and its output is clean.
-/
namespace SaphyrVerif.Lemmas.C17
open SaphyrVerif SaphyrVerif.Snippet
open SaphyrVerif.Spec.Snippet (isControl sanitizeChar clean takeRows dropRows row visibleLine)

theorem blen_reverse (l : List Char) : blen l.reverse = blen l := by
  induction l with
  | nil => rfl
  | cons c cs ih => rw [List.reverse_cons, blen_append, ih, blen_cons, blen_cons, blen_nil]; omega

/-- `rfind('\n')`: the text splits into a part that is empty or ends with the last line break, and a
part without line break -/
theorem rfindNl_spec (pre : List Char) :
    ∃ A B, pre = A ++ B ∧ '\n' ∉ B ∧ (A = [] ∨ A.getLast? = some '\n') ∧
      ((rfindNl pre = none ∧ blen A = 0) ∨ ∃ i, rfindNl pre = some i ∧ i + 1 = blen A) := by
  unfold rfindNl
  cases hq : findNl pre.reverse with
  | none =>
    have hn := findNl_none _ hq
    refine ⟨[], pre, rfl, ?_, .inl rfl, .inl ⟨rfl, rfl⟩⟩
    intro hm; exact hn (List.mem_reverse.mpr hm)
  | some i =>
    obtain ⟨x, y, e, hnx, hi⟩ := findNl_some _ _ hq
    have hp : pre = y.reverse ++ '\n' :: x.reverse := by
      have := congrArg List.reverse e
      rw [List.reverse_reverse] at this
      rw [this]; simp
    refine ⟨y.reverse ++ ['\n'], x.reverse, by rw [hp]; simp, ?_, .inr (by simp), .inr ⟨_, rfl, ?_⟩⟩
    · intro hm; exact hnx (List.mem_reverse.mp hm)
    · have h1 : utf8LenChar '\n' = 1 := by decide
      have e1 : blen pre = blen y + 1 + blen x := by
        rw [hp]; simp only [blen_append, blen_cons, blen_reverse, h1]; omega
      have e2 : blen (y.reverse ++ ['\n']) = blen y + 1 := by
        simp only [blen_append, blen_cons, blen_nil, blen_reverse, h1]
      show blen pre - 1 - i + 1 = blen (y.reverse ++ ['\n'])
      rw [e1, e2, hi]; omega

/-- (safety + shape) the caret line, at a character boundary of the window text -/
theorem caretLine_spec (wt : List Char) (msg pre rest : List Char) (hwt : wt = pre ++ rest) :
    ∃ n, caretLine wt (blen pre) msg =
      .ok ("  | ".toList ++ List.replicate n ' ' ++ ['^'] ++ (if msg.isEmpty then [] else ' ' :: msg) ++ ['\n']) := by
  unfold caretLine
  have h1 : slice wt 0 (blen pre) "fmt_window:window_text[..local_start]" = .ok pre := by
    rw [hwt]; exact slice_to pre rest _
  rw [h1]
  simp only [res_bind_ok]
  obtain ⟨A, B, e, _, _, hlbs⟩ := rfindNl_spec pre
  have h2 : slice wt (blen A) (blen pre) "fmt_window:window_text[line_byte_start..local_start]" = .ok B := by
    have : wt = A ++ B ++ rest := by rw [hwt, e]
    rw [this]
    exact slice_append3' A B rest _ _ _ rfl (by rw [e, blen_append])
  rcases hlbs with ⟨hn, h0⟩ | ⟨i, hs, hi⟩
  · rw [hn]
    simp only []
    rw [← h0, h2]
    simp only [res_bind_ok, res_pure]
    exact ⟨B.length, rfl⟩
  · rw [hs]
    simp only []
    rw [hi, h2]
    simp only [res_bind_ok, res_pure]
    exact ⟨B.length, rfl⟩

theorem clean_replicate_space (n : Nat) : clean (List.replicate n ' ') = true := by
  unfold clean
  rw [List.all_eq_true]
  intro c hc
  rw [List.eq_of_mem_replicate hc]
  decide

theorem clean_padLeft (s : List Char) (w : Nat) (h : clean s = true) : clean (padLeft s w) = true := by
  unfold padLeft
  rw [clean_append, clean_replicate_space, h]; rfl

theorem clean_stripCR (l : List Char) (h : clean l = true) : clean (stripCR l) = true := by
  unfold stripCR
  split
  · exact clean_sublist _ l h (fun c hc => List.dropLast_subset l hc)
  · exact h

theorem clean_stripNL (l : List Char) (h : clean l = true) : clean (stripNL l) = true := by
  unfold stripNL
  split
  · exact clean_sublist _ l h (fun c hc => List.dropLast_subset l hc)
  · exact h

theorem clean_caret (n : Nat) (msg : List Char) (hmsg : clean msg = true) :
    clean ("  | ".toList ++ List.replicate n ' ' ++ ['^'] ++ (if msg.isEmpty then [] else ' ' :: msg) ++ ['\n']) = true := by
  simp only [clean_append, clean_replicate_space, Bool.and_true]
  have h1 : clean "  | ".toList = true := by decide
  have h2 : clean ['^'] = true := by decide
  have h3 : clean ['\n'] = true := by decide
  have h4 : clean (if msg.isEmpty then [] else ' ' :: msg) = true := by
    split
    · rfl
    · have : clean (' ' :: msg) = (clean [' '] && clean msg) := clean_append [' '] msg
      rw [this, hmsg]; decide
  rw [h1, h2, h3, h4]; rfl

/-- pieces of `split_inclusive('\n')` are parts of the text -/
theorem splitInclusive_subset (s : List Char) : ∀ piece ∈ splitInclusive s, ∀ c ∈ piece, c ∈ s := by
  induction s with
  | nil => intro piece hp; cases hp
  | cons c cs ih =>
    intro piece hp x hx
    unfold splitInclusive at hp
    by_cases hc : c = '\n'
    · rw [if_pos hc] at hp
      rcases List.mem_cons.mp hp with h | h
      · rw [h] at hx; simp at hx; rw [hx]; simp
      · exact List.mem_cons_of_mem _ (ih piece h x hx)
    · rw [if_neg hc] at hp
      cases hq : splitInclusive cs with
      | nil =>
        rw [hq] at hp
        simp at hp; rw [hp] at hx; simp at hx; rw [hx]; simp
      | cons l ls =>
        rw [hq] at hp
        rcases List.mem_cons.mp hp with h | h
        · rw [h] at hx
          rcases List.mem_cons.mp hx with h2 | h2
          · rw [h2]; simp
          · exact List.mem_cons_of_mem _ (ih l (by rw [hq]; simp) x h2)
        · exact List.mem_cons_of_mem _ (ih piece (by rw [hq]; exact List.mem_cons_of_mem _ h) x hx)

/-- (safety + cleanliness) the line loop of the window renderer -/
theorem fmtLines_spec (wt : List Char) (msg pre rest : List Char) (hwt : wt = pre ++ rest)
    (hclean : clean wt = true) (hmsg : clean msg = true) (row wsr wer wsar gutter : Nat) :
    ∀ (pieces : List (List Char)) (cur : Nat) (out : List Char), (∀ piece ∈ pieces, ∀ c ∈ piece, c ∈ wt) →
      clean out = true →
      ∃ out' cur', fmtLines wt (blen pre) msg row wsr wer wsar gutter pieces cur out = .ok (out', cur') ∧
        clean out' = true := by
  intro pieces
  induction pieces with
  | nil => intro cur out _ ho; exact ⟨out, cur, rfl, ho⟩
  | cons piece ps ih =>
    intro cur out hsub ho
    rw [fmtLines]
    simp only []
    have hpiece : clean piece = true := clean_sublist piece wt hclean (hsub piece (by simp))
    have hline : clean (stripCR (stripNL piece)) = true := clean_stripCR _ (clean_stripNL _ hpiece)
    have hout1 : clean (out ++ padLeft (natStr (satAdd wsar cur - wsr)) gutter ++ " | ".toList ++
        stripCR (stripNL piece) ++ ['\n']) = true := by
      have hp := clean_padLeft (natStr (satAdd wsar cur - wsr)) gutter (toDigits_clean _)
      have hb : clean " | ".toList = true := by decide
      have hn : clean ['\n'] = true := by decide
      simp only [clean_append, ho, hline, hp, hb, hn, Bool.true_and]
    by_cases hcur : cur = row
    · rw [if_pos hcur]
      obtain ⟨n, hcl⟩ := caretLine_spec wt msg pre rest hwt
      rw [hcl]
      simp only [res_bind_ok, res_pure]
      have hout2 := clean_caret n msg hmsg
      by_cases hbrk : cur + 1 > wer
      · rw [if_pos hbrk]
        exact ⟨_, _, rfl, by rw [clean_append, hout1, hout2]; rfl⟩
      · rw [if_neg hbrk]
        exact ih (cur + 1) _ (fun p hp => hsub p (List.mem_cons_of_mem _ hp)) (by rw [clean_append, hout1, hout2]; rfl)
    · rw [if_neg hcur]
      simp only [res_bind_ok, res_pure]
      by_cases hbrk : cur + 1 > wer
      · rw [if_pos hbrk]
        exact ⟨_, _, rfl, hout1⟩
      · rw [if_neg hbrk]
        exact ih (cur + 1) _ (fun p hp => hsub p (List.mem_cons_of_mem _ hp)) hout1

/-- `sanitize_terminal_message` is the character-level sanitiser (identity on clean text) -/
theorem sanitizeMessage_eq (msg : List Char) : sanitizeMessage msg = .ok (Spec.Snippet.sanitize msg) := by
  unfold sanitizeMessage
  by_cases h : isClean msg = true
  · rw [if_pos h, sanitize_of_clean msg (by rw [← isClean_eq]; exact h)]
  · rw [if_neg h, sanitize_eq]

/-- (safety + cleanliness) the crate's own window renderer: never a panic, and its output is clean
whatever the label contained (the label is sanitised first) -/
theorem fmtWindow_spec (text : List Char) (loc : Snippet.Loc) (m : Mapping) (msg0 : List Char) (r : Nat)
    (hlen : text.length + 1 ≤ usizeMax) (hcol : loc.column ≤ usizeMax) :
    ∃ out, fmtWindow text loc m msg0 r = .ok out ∧ clean out = true := by
  obtain ⟨res, hs, hok⟩ := prepare_safe text loc m r hlen hcol
  unfold fmtWindow
  rw [sanitizeMessage_eq]
  simp only [res_bind_ok]
  generalize hm : Spec.Snippet.sanitize msg0 = msg
  have hmsg : clean msg = true := by rw [← hm]; exact sanitize_spec_clean msg0
  rw [hs]
  cases res with
  | none => exact ⟨[], rfl, rfl⟩
  | some p =>
    simp only [res_bind_ok]
    have ok := hok p rfl
    obtain ⟨pre, rest, hwt, hls, _⟩ := prepare_caret text loc m r hlen hcol p hs
    rw [← hls]
    have hgut : clean "  |\n".toList = true := by decide
    obtain ⟨out', cur', hfl, hcl⟩ := fmtLines_spec p.windowText msg pre rest hwt ok.clean hmsg p.row p.windowStartRow
      p.windowEndRow p.displayStartRow (natStr (absoluteRow m p.windowEndRow)).length
      (splitInclusive p.windowText) p.windowStartRow "  |\n".toList (splitInclusive_subset _) hgut
    rw [hfl]
    simp only [res_bind_ok]
    obtain ⟨n, hcar⟩ := caretLine_spec p.windowText msg pre rest hwt
    have hcc := clean_caret n msg hmsg
    have hpad : ∀ k : Nat, clean (padLeft (natStr k) (natStr (absoluteRow m p.windowEndRow)).length) = true :=
      fun k => clean_padLeft _ _ (toDigits_clean _)
    have hbar : clean " |\n".toList = true := by decide
    by_cases hcond : p.windowEndRow = p.totalLines ∧ p.windowText.getLast? = some '\n' ∧ cur' ≤ p.windowEndRow
    · rw [if_pos hcond]
      by_cases hcur : cur' = p.row
      · rw [if_pos hcur, hcar]
        simp only [res_bind_ok, res_pure]
        refine ⟨_, rfl, ?_⟩
        simp only [clean_append, hcl, hpad, hbar, hcc, hgut, Bool.and_self]
      · rw [if_neg hcur]
        simp only [res_bind_ok, res_pure]
        refine ⟨_, rfl, ?_⟩
        simp only [clean_append, hcl, hpad, hbar, hgut, Bool.and_self]
    · rw [if_neg hcond]
      simp only [res_bind_ok, res_pure]
      refine ⟨_, rfl, ?_⟩
      simp only [clean_append, hcl, hgut, Bool.and_self]

end SaphyrVerif.Lemmas.C17
