import SaphyrVerif.Lemmas.C11_Root
import SaphyrVerif.Lemmas.C11_Iter
import SaphyrVerif.Lemmas.C11_Skip
/-!
Helper lemmas for C11, part 9: the iterator loop stabilises.  One iteration either finishes (whatever
the remaining fuel) or continues from a strictly smaller cursor; the order is well-founded.
-/
namespace SaphyrVerif.Lemmas.C11
open SaphyrVerif SaphyrVerif.Scalars SaphyrVerif.Pump SaphyrVerif.De SaphyrVerif.Entry

/-- well-founded induction along `Lt` -/
theorem lt_induction (P : Cur → Prop) (hstep : ∀ c, (∀ c', Lt c c' → P c') → P c) : ∀ c, P c := by
  have key : ∀ a b c, curA c = a → curB c = b → P c := by
    intro a
    induction a using Nat.strongRecOn with
    | _ a iha =>
      intro b
      induction b using Nat.strongRecOn with
      | _ b ihb =>
        intro c ha hb
        apply hstep
        intro c' hlt
        rcases hlt.2 with h | ⟨h1, h2⟩
        · exact iha (curA c') (by omega) (curB c') c' rfl rfl
        · exact ihb (curB c') (by omega) c' (by omega) rfl
  intro c
  exact key _ _ c rfl rfl

theorem look_of_peek {p : Pump} {inp : List RawItem} {ev : Ev} {c : Cur}
    (h : Cur.peek (.live p inp) = .ok (some ev) c) : curLook c = some ev := by
  simp only [Cur.peek, Pump.peek] at h
  cases hl : p.look with
  | some ev' =>
    simp only [hl] at h
    simp only [R.ok.injEq, Option.some.injEq] at h
    obtain ⟨rfl, rfl⟩ := h
    simp [curLook]
  | none =>
    simp only [hl] at h
    rcases hn : nextImpl p inp with ⟨s, p2, r2⟩
    rw [hn] at h
    cases s with
    | event e =>
      simp only [R.ok.injEq, Option.some.injEq] at h
      obtain ⟨rfl, rfl⟩ := h
      simp [curLook]
    | eof => simp at h
    | error e => simp at h

abbrev Items := List (Except DErr Val)

/-- what one iteration of the iterator does, for every amount of remaining fuel `m` -/
def StepOutcome (cfg : Cfg) (ty : Ty) (c0 : Cur) (F : Nat → Items → Items) : Prop :=
  (∃ T : Items → Items, ∀ m acc, F m acc = T acc) ∨
  (∃ (p' : Pump) (inp' : List RawItem) (g : Items → Items), Lt c0 (.live p' inp') ∧ ∀ m acc, F m acc = iterLoop cfg ty m p' inp' (g acc))

theorem step_cases (cfg : Cfg) (ty : Ty) (p : Pump) (inp : List RawItem) :
    StepOutcome cfg ty (.live p inp) (fun m acc => iterLoop cfg ty (m + 1) p inp acc) := by
  -- recovery after an error item: skip to the next document
  have hskip : ∀ (e : DErr) (p2 : Pump) (inp2 : List RawItem), Le (.live p inp) (.live p2 inp2) →
      StepOutcome cfg ty (.live p inp) (fun m acc =>
        let (found, p, inp) := Pump.skipToNextDocument p2 inp2
        if found then iterLoop cfg ty m p inp (acc ++ [.error e]) else acc ++ [.error e]) := by
    intro e p2 inp2 hle
    have hlen := skipLoop_length inp2 { p2 with look := none, inject := [], recStack := [] }
    rcases hs : Pump.skipToNextDocument p2 inp2 with ⟨found, p3, inp3⟩
    unfold Pump.skipToNextDocument at hs
    rw [hs] at hlen
    cases found with
    | false =>
      refine Or.inl ?_
      exact ⟨fun acc => acc ++ [.error e], fun m acc => by simp⟩
    | true =>
      refine Or.inr ?_
      refine ⟨p3, inp3, fun acc => acc ++ [.error e], ?_, fun m acc => by simp⟩
      have h3 := hlen.2 rfl
      refine ⟨rfl, Or.inl ?_⟩
      have := hle.2
      simp only [curA] at h3 this ⊢
      omega
  -- the branch that skips a null-like root scalar
  have hnull : ∀ (c : Cur) (ev : Ev), curLook c = some ev → Le (.live p inp) c →
      StepOutcome cfg ty (.live p inp) (fun m acc =>
        match c.next with
        | .ok _ (.live p inp) => iterLoop cfg ty m p inp acc
        | .err e _ => acc ++ [.error e]
        | _ => acc) := by
    intro c ev hlook hle
    obtain ⟨c2, hn, hlt⟩ := next_of_look hlook
    obtain ⟨p2, inp2, rfl⟩ := live_of_curK (c := c2) (by rw [hlt.1, hle.1]; rfl)
    refine Or.inr ?_
    refine ⟨p2, inp2, id, hle.trans_lt hlt, ?_⟩
    intro m acc
    simp only [hn, id]
  -- the branch that runs the typed deserializer (never on a container end)
  have hdeser : ∀ (c : Cur) (ev : Ev), curLook c = some ev → isEndEv ev = false → Le (.live p inp) c →
      StepOutcome cfg ty (.live p inp) (fun m acc =>
        match deser (fuelFor 100000) cfg ty false false c with
        | .ok v (.live p inp) => iterLoop cfg ty m p inp (acc ++ [.ok v])
        | .err e (.live p inp) =>
          let (found, p, inp) := Pump.skipToNextDocument p inp
          if found then iterLoop cfg ty m p inp (acc ++ [.error e]) else acc ++ [.error e]
        | _ => acc) := by
    intro c ev hlook hne hle
    have hk : curK c = 1 := by rw [hle.1]; rfl
    have hroot := deser_root (fuelFor 100000) cfg ty false false c ev hlook
      (fun h => by rw [hne] at h; cases h)
    have hle2 := (allLe (fuelFor 100000)).deser cfg ty false false c
    cases hr : deser (fuelFor 100000) cfg ty false false c with
    | ok v c2 =>
      rw [hr] at hroot hle2
      have hlt : Lt c c2 := hroot
      obtain ⟨p2, inp2, rfl⟩ := live_of_curK (c := c2) (by rw [hlt.1, hk])
      refine Or.inr ?_
      exact ⟨p2, inp2, fun acc => acc ++ [.ok v], hle.trans_lt hlt, fun m acc => rfl⟩
    | err e c2 =>
      rw [hr] at hle2
      have hle' : Le c c2 := hle2
      obtain ⟨p2, inp2, rfl⟩ := live_of_curK (c := c2) (by rw [hle'.1, hk])
      exact hskip e p2 inp2 (hle.trans hle')
  obtain ⟨p1, inp1, hlive⟩ := peek_live p inp
  have hple := peek_le (.live p inp)
  cases hpk : Cur.peek (.live p inp) with
  | err e c =>
    refine Or.inl ?_
    exact ⟨fun acc => acc ++ [.error e], fun m acc => by simp only [iterLoop, hpk]⟩
  | ok o c =>
    rw [hpk] at hlive hple
    simp only [rcur] at hlive hple
    subst hlive
    cases o with
    | none =>
      refine Or.inl ?_
      exact ⟨fun acc => match finishCur (.live p1 inp1) with
        | some e => acc ++ [.error e]
        | none => acc, fun m acc => by simp only [iterLoop, hpk]; rfl⟩
    | some ev =>
      have hlook := look_of_peek hpk
      cases ev with
      | scalar v tg rt st a l =>
        by_cases hn : scalarIsNullish v st = true
        · have := hnull _ _ hlook hple
          simp only [iterLoop, hpk, hn, if_true]
          exact this
        · have := hdeser _ _ hlook rfl hple
          simp only [iterLoop, hpk, hn, if_false, Bool.false_eq_true]
          exact this
      | seqStart a tg rt l =>
        have := hdeser _ _ hlook rfl hple
        simp only [iterLoop, hpk, if_false, Bool.false_eq_true]
        exact this
      | mapStart a l =>
        have := hdeser _ _ hlook rfl hple
        simp only [iterLoop, hpk, if_false, Bool.false_eq_true]
        exact this
      | seqEnd l =>
        have := hskip ⟨"UnexpectedSequenceEnd", l, 0⟩ p1 inp1 hple
        simp only [iterLoop, hpk]
        exact this
      | mapEnd l =>
        have := hskip ⟨"UnexpectedMappingEnd", l, 0⟩ p1 inp1 hple
        simp only [iterLoop, hpk]
        exact this

/-- the iterator loop stabilises, for every target type, pump state and item list -/
theorem iter_stabilises (cfg : Cfg) (ty : Ty) (p : Pump) (inp : List RawItem) :
    ∃ n, ∀ k acc, iterLoop cfg ty (n + k) p inp acc = iterLoop cfg ty n p inp acc := by
  have key : ∀ c : Cur, ∀ p inp, c = .live p inp →
      ∃ n, ∀ k acc, iterLoop cfg ty (n + k) p inp acc = iterLoop cfg ty n p inp acc := by
    intro c
    induction c using lt_induction with
    | hstep c ih =>
      intro p inp hc
      subst hc
      rcases step_cases cfg ty p inp with ⟨T, hT⟩ | ⟨p', inp', g, hlt, hrec⟩
      · refine ⟨1, fun k acc => ?_⟩
        have h1 := hT k acc
        have h2 := hT 0 acc
        simp only at h1 h2
        rw [Nat.add_comm 1 k, h1]
        exact h2.symm
      · obtain ⟨n', hn'⟩ := ih _ hlt p' inp' rfl
        refine ⟨n' + 1, fun k acc => ?_⟩
        have h1 := hrec (n' + k) acc
        have h2 := hrec n' acc
        simp only at h1 h2
        rw [show n' + 1 + k = n' + k + 1 by omega, h1, h2]
        exact hn' k (g acc)
  exact key _ p inp rfl

end SaphyrVerif.Lemmas.C11
