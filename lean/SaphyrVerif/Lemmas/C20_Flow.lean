import SaphyrVerif.Lemmas.C13_Emit
import SaphyrVerif.Lemmas.C13_Lines
/-!
C20 proof machinery: flow wrappers.  A flow fragment (leaves, `Some`, newtype structs, sequences /
tuples, mappings with distinct safe string keys — no enum variants with payload: they are written with
their block layout inside flow, a defect), its one-line flow text, the emitter invariant in flow
context and the reference reader on the flow text.
-/
set_option linter.unusedSimpArgs false
set_option linter.unusedVariables false
set_option linter.unusedSectionVars false
namespace SaphyrVerif.Emit
open SaphyrVerif

mutual
/-- the flow fragment -/
def inFlowFrag : SVal → Bool
  | .unit => true
  | .none => true
  | .bool _ => true
  | .int _ => true
  | .str s => isSafeStr s
  | .unitVariant _ n => isSafeStr n
  | .some v => inFlowFrag v
  | .newtypeStruct v => inFlowFrag v
  | .seq xs => inFlowFragList xs
  | .tuple xs => inFlowFragList xs
  | .map _ es => inFlowFragEntries es && (keysOf es).Nodup
  | _ => false
def inFlowFragList : List SVal → Bool
  | [] => true
  | v :: vs => inFlowFrag v && inFlowFragList vs
def inFlowFragEntries : List (SVal × SVal) → Bool
  | [] => true
  | (k, v) :: es => (match k with | .str s => isSafeStr s | _ => false) && inFlowFrag v && inFlowFragEntries es
end

mutual
/-- the text of a value inside a flow collection -/
def flowTxt : SVal → List Char
  | .unit => "null".toList
  | .none => "null".toList
  | .bool b => if b then "true".toList else "false".toList
  | .int i => intText i
  | .str s => s
  | .unitVariant _ n => n
  | .some v => flowTxt v
  | .newtypeStruct v => flowTxt v
  | .seq xs => '[' :: flowItems xs ++ [']']
  | .tuple xs => '[' :: flowItems xs ++ [']']
  | .map _ es => '{' :: flowEntries es ++ ['}']
  | _ => []
/-- items separated by `, ` -/
def flowItems : List SVal → List Char
  | [] => []
  | x :: xs => flowTxt x ++ flowItemsTail xs
def flowItemsTail : List SVal → List Char
  | [] => []
  | x :: xs => ',' :: ' ' :: flowTxt x ++ flowItemsTail xs
def flowEntries : List (SVal × SVal) → List Char
  | [] => []
  | (k, v) :: es => (keyOf k).getD [] ++ ':' :: ' ' :: flowTxt v ++ flowEntriesTail es
def flowEntriesTail : List (SVal × SVal) → List Char
  | [] => []
  | (k, v) :: es => ',' :: ' ' :: (keyOf k).getD [] ++ ':' :: ' ' :: flowTxt v ++ flowEntriesTail es
end

/-! ### the emitter in flow context -/

/-- between two tokens of a flow collection: mid-line, nothing pending -/
structure Mid (s : St) : Prop where
  als : s.atLineStart = false
  psc : s.pendingSpaceAfterColon = false
  pss : s.pendingStrStyle = none

variable {o : Opts} {f : ScalarFns}

theorem serToken_flow (tok : List Char) {s : St} (h : Mid s) (hf : s.inFlow ≥ 1) :
    (serToken o tok s).out = s.out ++ tok ∧ Mid (serToken o tok s) ∧ (serToken o tok s).inFlow = s.inFlow := by
  have := h.als; have := h.psc
  have hne : (s.inFlow == 0) = false := by simp; omega
  refine ⟨?_, ⟨?_, ?_, ?_⟩, ?_⟩ <;>
    simp [serToken, writeSpaceIfPending, indentIfLineStart, writeEndOfScalar, St.write, hne, *, h.pss]

theorem serStr_flow (ho : FragOpts o) (hf : SafeContract f) {v : List Char} (hs : isSafeStr v = true) {s : St}
    (h : Mid s) (hfl : s.inFlow ≥ 1) : serStr o f v s = serToken o v s := by
  have hp := isSafeStr_not_punct hs
  have hq := ho.quoteAll
  have hne : (s.inFlow == 0) = false := by simp; omega
  have hgt : decide (s.inFlow > 0) = true := by simp; omega
  have hgt' : decide (0 < s.inFlow) = true := by simp; omega
  unfold serStr
  simp only [h.pss, hne, Option.isNone_none, Bool.true_and, Bool.false_and, Bool.false_eq_true, if_false]
  simp only [hp, Bool.false_eq_true, if_false, plainOrQuotedValue, hq, hgt, hf.value v o.yaml12 true hs, hf.shape v hs, if_true,
    Bool.not_false, Bool.and_self]
  simp [serToken, writeSpaceIfPending, St.write, indentIfLineStart, h.als, h.psc, hgt', hf.value v o.yaml12 true hs, hf.shape v hs]

/-- `serialize_seq` in flow style (inside a flow collection, or at the top with the hint pending) -/
theorem serializeSeq_flow {s : St} (h : Mid s) (hfl : s.inFlow ≥ 1 ∨ s.pendingFlow = some .anySeq) :
    (serializeSeq o s).1.flow = true ∧ (serializeSeq o s).1.first = true ∧
    (serializeSeq o s).2.out = s.out ++ ['['] ∧ Mid (serializeSeq o s).2 ∧
    (serializeSeq o s).2.inFlow = s.inFlow := by
  have := h.als; have := h.psc
  by_cases hz : s.inFlow > 0
  · refine ⟨?_, ?_, ?_, ⟨?_, ?_, ?_⟩, ?_⟩ <;>
      simp [serializeSeq, takeFlow, hz, writeSpaceIfPending, indentIfLineStart, St.write, *, h.pss]
  · have hp : s.pendingFlow = some .anySeq := by
      rcases hfl with h1 | h1
      · omega
      · exact h1
    refine ⟨?_, ?_, ?_, ⟨?_, ?_, ?_⟩, ?_⟩ <;>
      simp [serializeSeq, takeFlow, hz, hp, writeSpaceIfPending, indentIfLineStart, St.write, *, h.pss]

theorem serializeMap_flow {s : St} (len : Option Nat) (h : Mid s) (hfl : s.inFlow ≥ 1 ∨ s.pendingFlow = some .anyMap) :
    (serializeMap o len s).1.flow = true ∧ (serializeMap o len s).1.first = true ∧
    (serializeMap o len s).2.out = s.out ++ ['{'] ∧ Mid (serializeMap o len s).2 ∧
    (serializeMap o len s).2.inFlow = s.inFlow := by
  have := h.als; have := h.psc
  by_cases hz : s.inFlow > 0
  · refine ⟨?_, ?_, ?_, ⟨?_, ?_, ?_⟩, ?_⟩ <;>
      simp [serializeMap, takeFlow, hz, writeSpaceIfPending, indentIfLineStart, St.write, *, h.pss]
  · have hp : s.pendingFlow = some .anyMap := by
      rcases hfl with h1 | h1
      · omega
      · exact h1
    refine ⟨?_, ?_, ?_, ⟨?_, ?_, ?_⟩, ?_⟩ <;>
      simp [serializeMap, takeFlow, hz, hp, writeSpaceIfPending, indentIfLineStart, St.write, *, h.pss]

section
variable (ho : FragOpts o) (hf : SafeContract f)
include ho hf

mutual
/-- a value inside a flow collection: its flow text, nothing else -/
theorem ser_flow : ∀ (v : SVal), inFlowFrag v = true → ∀ (s : St), Mid s → s.inFlow ≥ 1 →
    ∃ s', ser o f v s = .ok s' ∧ s'.out = s.out ++ flowTxt v ∧ Mid s' ∧ s'.inFlow = s.inFlow
  | .unit, _, s, h, hfl => ⟨_, by rw [ser], by simpa [flowTxt] using serToken_flow (o := o) "null".toList h hfl⟩
  | .none, _, s, h, hfl => ⟨_, by rw [ser], by simpa [flowTxt] using serToken_flow (o := o) "null".toList h hfl⟩
  | .bool b, _, s, h, hfl => ⟨_, by rw [ser], by
      simpa [flowTxt] using serToken_flow (o := o) (if b then "true".toList else "false".toList) h hfl⟩
  | .int i, _, s, h, hfl => ⟨_, by rw [ser], by simpa [flowTxt] using serToken_flow (o := o) (intText i) h hfl⟩
  | .str t, hv, s, h, hfl => by
    simp only [inFlowFrag] at hv
    exact ⟨_, by rw [ser, serStr_flow ho hf hv h hfl], by simpa [flowTxt] using serToken_flow (o := o) t h hfl⟩
  | .unitVariant e n, hv, s, h, hfl => by
    simp only [inFlowFrag] at hv
    have hm : Mid (writeSpaceIfPending s) := by
      constructor <;> simp [writeSpaceIfPending, St.write, h.psc, h.als, h.pss]
    have hi : (writeSpaceIfPending s).inFlow = s.inFlow := wsp_inFlow s
    refine ⟨serToken o n s, ?_, ?_⟩
    · rw [ser]
      simp only [ho.tagged, Bool.false_eq_true, if_false]
      rw [serStr_flow ho hf hv hm (by omega), serToken_wsp]
    · simpa [flowTxt] using serToken_flow (o := o) n h hfl
  | .some v, hv, s, h, hfl => by
    simp only [inFlowFrag] at hv
    rw [ser]; simpa [flowTxt] using ser_flow v hv s h hfl
  | .newtypeStruct v, hv, s, h, hfl => by
    simp only [inFlowFrag] at hv
    rw [ser]; simpa [flowTxt] using ser_flow v hv s h hfl
  | .seq xs, hv, s, h, hfl => by
    simp only [inFlowFrag] at hv
    obtain ⟨hq1, hq2, hout1, hm1, hi1⟩ := serializeSeq_flow (o := o) h (Or.inl hfl)
    obtain ⟨q', s', he, hqf, hout, hm, hi⟩ := ser_flow_items xs hv _ (serializeSeq o s).1 hq1 hm1
    rw [ser_seq, he]
    have hne : (s'.inFlow == 0) = false := by simp; omega
    have hs0 : ¬ s.inFlow = 0 := by omega
    refine ⟨_, rfl, ?_, ?_, ?_⟩
    · simp [seqEnd, hqf, St.write, hne, hout, hout1, hq2, flowTxt, List.append_assoc]
    · constructor <;> simp [seqEnd, hqf, St.write, hne, hm.als, hm.psc, hm.pss]
    · simp [seqEnd, hqf, St.write, hne, hi, hi1, hs0]
  | .tuple xs, hv, s, h, hfl => by
    simp only [inFlowFrag] at hv
    obtain ⟨hq1, hq2, hout1, hm1, hi1⟩ := serializeSeq_flow (o := o) h (Or.inl hfl)
    obtain ⟨q', s', he, hqf, hout, hm, hi⟩ := ser_flow_items xs hv _ (serializeSeq o s).1 hq1 hm1
    rw [ser_tuple, he]
    have hne : (s'.inFlow == 0) = false := by simp; omega
    have hs0 : ¬ s.inFlow = 0 := by omega
    refine ⟨_, rfl, ?_, ?_, ?_⟩
    · simp [seqEnd, hqf, St.write, hne, hout, hout1, hq2, flowTxt, List.append_assoc]
    · constructor <;> simp [seqEnd, hqf, St.write, hne, hm.als, hm.psc, hm.pss]
    · simp [seqEnd, hqf, St.write, hne, hi, hi1, hs0]
  | .map known es, hv, s, h, hfl => by
    simp only [inFlowFrag, Bool.and_eq_true] at hv
    obtain ⟨hq1, hq2, hout1, hm1, hi1⟩ :=
      serializeMap_flow (o := o) (if known then some es.length else none) h (Or.inl hfl)
    obtain ⟨m', s', he, hmf, hout, hm, hi⟩ := ser_flow_entries es hv.1 _ (serializeMap o _ s).1 hq1 hm1
    rw [ser_map, he]
    have hne : (s'.inFlow == 0) = false := by simp; omega
    have hs0 : ¬ s.inFlow = 0 := by omega
    refine ⟨_, rfl, ?_, ?_, ?_⟩
    · simp [mapEnd, hmf, St.write, hne, hout, hout1, hq2, flowTxt, List.append_assoc]
    · constructor <;> simp [mapEnd, hmf, St.write, hne, hm.als, hm.psc, hm.pss]
    · simp [mapEnd, hmf, St.write, hne, hi, hi1, hs0]
  | .newtypeVariant _ _, hv, _, _, _ => by simp [inFlowFrag] at hv
  | .tupleStruct _, hv, _, _, _ => by simp [inFlowFrag] at hv
  | .tupleVariant _ _, hv, _, _, _ => by simp [inFlowFrag] at hv
  | .structVariant _ _, hv, _, _, _ => by simp [inFlowFrag] at hv
  | .flowSeq _, hv, _, _, _ => by simp [inFlowFrag] at hv
  | .flowMap _, hv, _, _, _ => by simp [inFlowFrag] at hv
  | .commented _ _, hv, _, _, _ => by simp [inFlowFrag] at hv
  | .spaceAfter _, hv, _, _, _ => by simp [inFlowFrag] at hv
  | .litStr _, hv, _, _, _ => by simp [inFlowFrag] at hv
  | .foldStr _, hv, _, _, _ => by simp [inFlowFrag] at hv
/-- the elements of a flow sequence -/
theorem ser_flow_items : ∀ (xs : List SVal), inFlowFragList xs = true → ∀ (s : St) (q : SeqSer), q.flow = true → Mid s →
    ∃ q' s', serSeqElems o f q xs s = .ok (q', s') ∧ q'.flow = true ∧
      s'.out = s.out ++ (if q.first then flowItems xs else flowItemsTail xs) ∧ Mid s' ∧ s'.inFlow = s.inFlow
  | [], _, s, q, hq, h => ⟨q, s, by rw [serSeqElems], hq, by cases q.first <;> simp [flowItems, flowItemsTail], h, rfl⟩
  | x :: xs, hv, s, q, hq, h => by
    simp only [inFlowFragList, Bool.and_eq_true] at hv
    obtain ⟨qd, qf, qfirst⟩ := q
    simp only at hq
    subst hq
    have hm0 : Mid ({ (if !qfirst then s.write [',', ' '] else s) with inFlow := (if !qfirst then s.write [',', ' '] else s).inFlow + 1 } : St) := by
      cases qfirst <;> constructor <;> simp [St.write, h.als, h.psc, h.pss]
    obtain ⟨sx, hex, houtx, hmx, hix⟩ := ser_flow x hv.1 _ hm0 (by simp)
    have hmx' : Mid ({ sx with inFlow := sx.inFlow - 1 } : St) := ⟨hmx.als, hmx.psc, hmx.pss⟩
    obtain ⟨q', s', he, hqf, hout, hm, hi⟩ :=
      ser_flow_items xs hv.2 { sx with inFlow := sx.inFlow - 1 } { depth := qd, flow := true, first := false } rfl hmx'
    refine ⟨q', s', ?_, hqf, ?_, hm, ?_⟩
    · rw [serSeqElems]
      simp only [if_true, hex]
      exact he
    · rw [hout, houtx]
      cases qfirst <;> simp [St.write, flowItems, flowItemsTail, List.append_assoc]
    · rw [hi]; simp only [hix]
      cases qfirst <;> simp [St.write]
/-- the entries of a flow mapping -/
theorem ser_flow_entries : ∀ (es : List (SVal × SVal)), inFlowFragEntries es = true → ∀ (s : St) (m : MapSer), m.flow = true → Mid s →
    ∃ m' s', serMapEntries o f m es s = .ok (m', s') ∧ m'.flow = true ∧
      s'.out = s.out ++ (if m.first then flowEntries es else flowEntriesTail es) ∧ Mid s' ∧ s'.inFlow = s.inFlow
  | [], _, s, m, hm, h => ⟨m, s, by rw [serMapEntries], hm, by cases m.first <;> simp [flowEntries, flowEntriesTail], h, rfl⟩
  | (k, v) :: es, hv, s, m, hm, h => by
    cases k <;> simp only [inFlowFragEntries, Bool.and_eq_true, Bool.false_and, Bool.false_eq_true, false_and] at hv
    rename_i kt
    obtain ⟨md, mf, mfirst, mlkc, maad, mivs⟩ := m
    simp only at hm
    subst hm
    let s1 : St := if !mfirst then s.write [',', ' '] else s
    let s2 : St := { s1.write (kt ++ [':', ' ']) with atLineStart := false }
    have hm0 : Mid ({ s2 with inFlow := s2.inFlow + 1 } : St) := by
      cases mfirst <;> constructor <;> simp [s1, s2, St.write, h.psc, h.pss]
    obtain ⟨sx, hex, houtx, hmx, hix⟩ := ser_flow v hv.1.2 { s2 with inFlow := s2.inFlow + 1 } hm0 (by simp)
    have hmx' : Mid ({ sx with inFlow := sx.inFlow - 1 } : St) := ⟨hmx.als, hmx.psc, hmx.pss⟩
    obtain ⟨m', s', he, hmf, hout, hmm, hi⟩ :=
      ser_flow_entries es hv.2 { sx with inFlow := sx.inFlow - 1 }
        { depth := md, flow := true, first := false, lastKeyComplex := false, alignAfterDash := maad, inlineValueStart := mivs } rfl hmx'
    refine ⟨m', s', ?_, hmf, ?_, hmm, ?_⟩
    · rw [serMapEntries]
      simp only [if_true, keyText_safe hf hv.1.1]
      show (match ser o f v { s2 with inFlow := s2.inFlow + 1 } with
            | Except.error e => Except.error e
            | Except.ok s => serMapEntries o f _ es { s with inFlow := s.inFlow - 1 }) = _
      rw [hex]
      exact he
    · rw [hout, houtx]
      cases mfirst <;> simp [s1, s2, St.write, flowEntries, flowEntriesTail, keyOf, List.append_assoc]
    · rw [hi]; simp only [hix]
      cases mfirst <;> simp [s1, s2, St.write]
end

end

end SaphyrVerif.Emit
