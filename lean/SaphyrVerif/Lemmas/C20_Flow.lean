import SaphyrVerif.Lemmas.C13_Emit
import SaphyrVerif.Lemmas.C13_Lines
/-!
C20 proof machinery: flow wrappers.  A flow fragment (leaves, `Some`, newtype structs, sequences /
tuples / tuple structs, mappings with distinct safe string keys, enum variants with data — written
as `{Variant: payload}` inside a flow collection), its one-line flow text, the emitter invariant in
flow context and the reference reader on the flow text.
-/
set_option linter.unusedSimpArgs false
set_option linter.unusedVariables false
set_option linter.unusedSectionVars false
namespace SaphyrVerif.Emit
open SaphyrVerif

mutual
/-- the flow fragment -/
def inFlowFrag : SVal → Bool
  | .unit => true
  | .none => true
  | .bool _ => true
  | .int _ => true
  | .str s => isSafeStr s
  | .unitVariant _ n => isSafeStr n
  | .some v => inFlowFrag v
  | .newtypeStruct v => inFlowFrag v
  | .seq xs => inFlowFragList xs
  | .tuple xs => inFlowFragList xs
  | .tupleStruct xs => inFlowFragList xs
  | .map _ es => inFlowFragEntries es && (keysOf es).Nodup
  | .newtypeVariant n v => isSafeStr n && inFlowFrag v
  | .tupleVariant n xs => isSafeStr n && inFlowFragList xs
  | .structVariant n fs => isSafeStr n && (inFlowFragEntries fs && (keysOf fs).Nodup)
  | _ => false
def inFlowFragList : List SVal → Bool
  | [] => true
  | v :: vs => inFlowFrag v && inFlowFragList vs
def inFlowFragEntries : List (SVal × SVal) → Bool
  | [] => true
  | (k, v) :: es => (match k with | .str s => isSafeStr s | _ => false) && inFlowFrag v && inFlowFragEntries es
end

/-- `{Variant: payload}` -/
def flowVariant (n payload : List Char) : List Char := '{' :: n ++ ':' :: ' ' :: payload ++ ['}']

mutual
/-- the text of a value inside a flow collection -/
def flowTxt : SVal → List Char
  | .unit => "null".toList
  | .none => "null".toList
  | .bool b => if b then "true".toList else "false".toList
  | .int i => intText i
  | .str s => s
  | .unitVariant _ n => n
  | .some v => flowTxt v
  | .newtypeStruct v => flowTxt v
  | .seq xs => '[' :: flowItems xs ++ [']']
  | .tuple xs => '[' :: flowItems xs ++ [']']
  | .tupleStruct xs => '[' :: flowItems xs ++ [']']
  | .map _ es => '{' :: flowEntries es ++ ['}']
  | .newtypeVariant n v => flowVariant n (flowTxt v)
  | .tupleVariant n xs => flowVariant n ('[' :: flowItems xs ++ [']'])
  | .structVariant n fs => flowVariant n ('{' :: flowEntries fs ++ ['}'])
  | _ => []
/-- items separated by `, ` -/
def flowItems : List SVal → List Char
  | [] => []
  | x :: xs => flowTxt x ++ flowItemsTail xs
def flowItemsTail : List SVal → List Char
  | [] => []
  | x :: xs => ',' :: ' ' :: flowTxt x ++ flowItemsTail xs
def flowEntries : List (SVal × SVal) → List Char
  | [] => []
  | (k, v) :: es => (keyOf k).getD [] ++ ':' :: ' ' :: flowTxt v ++ flowEntriesTail es
def flowEntriesTail : List (SVal × SVal) → List Char
  | [] => []
  | (k, v) :: es => ',' :: ' ' :: (keyOf k).getD [] ++ ':' :: ' ' :: flowTxt v ++ flowEntriesTail es
end

/-! ### the emitter in flow context -/

/-- between two tokens of a flow collection: mid-line (a space may be pending after `Variant:`) -/
structure Mid (s : St) : Prop where
  als : s.atLineStart = false
  pss : s.pendingStrStyle = none

/-- the deferred space after a `:` -/
def sp (s : St) : List Char := if s.pendingSpaceAfterColon then [' '] else []

variable {o : Opts} {f : ScalarFns}

/-- a node writes `txt` inside a flow collection (after the deferred space, if any) and leaves nothing pending -/
def FlowOKP (P : St → Except EmitErr St) (txt : List Char) : Prop :=
  ∀ (s : St), Mid s → s.inFlow ≥ 1 →
    ∃ s', P s = .ok s' ∧ s'.out = s.out ++ sp s ++ txt ∧ Mid s' ∧ s'.pendingSpaceAfterColon = false ∧ s'.inFlow = s.inFlow

theorem serToken_flow (tok : List Char) : FlowOKP (fun s => .ok (serToken o tok s)) tok := by
  intro s h hf
  have := h.als
  have hne : (s.inFlow == 0) = false := by simp; omega
  refine ⟨_, rfl, ?_, ⟨?_, ?_⟩, ?_, ?_⟩ <;>
    (by_cases hp : s.pendingSpaceAfterColon = true <;>
      simp [serToken, writeSpaceIfPending, indentIfLineStart, writeEndOfScalar, St.write, sp, hne, hp, *, h.pss])

theorem serStr_flow (ho : PlainOpts o) (hf : SafeContract f) {v : List Char} (hs : isSafeStr v = true) {s : St}
    (h : Mid s) (hfl : s.inFlow ≥ 1) : serStr o f v s = serToken o v s := by
  have hp := isSafeStr_not_punct hs
  have hq := ho.quoteAll
  have hne : (s.inFlow == 0) = false := by simp; omega
  have hgt : decide (s.inFlow > 0) = true := by simp; omega
  have hgt' : decide (0 < s.inFlow) = true := by simp; omega
  unfold serStr
  simp only [h.pss, hne, Option.isNone_none, Bool.true_and, Bool.false_and, Bool.false_eq_true, if_false]
  simp only [hp, Bool.false_eq_true, if_false, plainOrQuotedValue, hq, hgt, hf.value v o.yaml12 true hs, hf.shape v hs, if_true,
    Bool.not_false, Bool.and_self]
  by_cases hpsc : s.pendingSpaceAfterColon = true <;>
    simp [serToken, writeSpaceIfPending, St.write, indentIfLineStart, h.als, hpsc, hgt', hf.value v o.yaml12 true hs, hf.shape v hs]

/-- `serialize_seq` in flow style (inside a flow collection, or at the top with the hint pending) -/
theorem serializeSeq_flow {s : St} (h : Mid s) (hfl : s.inFlow ≥ 1 ∨ s.pendingFlow = some .anySeq) :
    (serializeSeq o s).1.flow = true ∧ (serializeSeq o s).1.first = true ∧ (serializeSeq o s).1.restoreShift = none ∧
    (serializeSeq o s).2.out = s.out ++ sp s ++ ['['] ∧ Mid (serializeSeq o s).2 ∧
    (serializeSeq o s).2.pendingSpaceAfterColon = false ∧
    (serializeSeq o s).2.inFlow = s.inFlow := by
  have := h.als
  by_cases hz : s.inFlow > 0
  · refine ⟨?_, ?_, ?_, ?_, ⟨?_, ?_⟩, ?_, ?_⟩ <;>
      (by_cases hp : s.pendingSpaceAfterColon = true <;>
        simp [serializeSeq, takeFlow, hz, writeSpaceIfPending, indentIfLineStart, St.write, sp, hp, *, h.pss])
  · have hp : s.pendingFlow = some .anySeq := by
      rcases hfl with h1 | h1
      · omega
      · exact h1
    refine ⟨?_, ?_, ?_, ?_, ⟨?_, ?_⟩, ?_, ?_⟩ <;>
      (by_cases hpp : s.pendingSpaceAfterColon = true <;>
        simp [serializeSeq, takeFlow, hz, hp, writeSpaceIfPending, indentIfLineStart, St.write, sp, hpp, *, h.pss])

theorem serializeMap_flow {s : St} (len : Option Nat) (h : Mid s) (hfl : s.inFlow ≥ 1 ∨ s.pendingFlow = some .anyMap) :
    (serializeMap o len s).1.flow = true ∧ (serializeMap o len s).1.first = true ∧ (serializeMap o len s).1.restoreShift = none ∧
    (serializeMap o len s).2.out = s.out ++ sp s ++ ['{'] ∧ Mid (serializeMap o len s).2 ∧
    (serializeMap o len s).2.pendingSpaceAfterColon = false ∧
    (serializeMap o len s).2.inFlow = s.inFlow := by
  have := h.als
  by_cases hz : s.inFlow > 0
  · refine ⟨?_, ?_, ?_, ?_, ⟨?_, ?_⟩, ?_, ?_⟩ <;>
      (by_cases hp : s.pendingSpaceAfterColon = true <;>
        simp [serializeMap, takeFlow, hz, writeSpaceIfPending, indentIfLineStart, St.write, sp, hp, *, h.pss])
  · have hp : s.pendingFlow = some .anyMap := by
      rcases hfl with h1 | h1
      · omega
      · exact h1
    refine ⟨?_, ?_, ?_, ?_, ⟨?_, ?_⟩, ?_, ?_⟩ <;>
      (by_cases hpp : s.pendingSpaceAfterColon = true <;>
        simp [serializeMap, takeFlow, hz, hp, writeSpaceIfPending, indentIfLineStart, St.write, sp, hpp, *, h.pss])

/-- the elements of a flow sequence -/
def FlowItemsOK (o : Opts) (f : ScalarFns) (xs : List SVal) : Prop :=
  ∀ (s : St) (q : SeqSer), q.flow = true → Mid s → s.pendingSpaceAfterColon = false →
    ∃ q' s', serSeqElems o f q xs s = .ok (q', s') ∧ q'.flow = true ∧ q'.restoreShift = q.restoreShift ∧
      s'.out = s.out ++ (if q.first then flowItems xs else flowItemsTail xs) ∧ Mid s' ∧
      s'.pendingSpaceAfterColon = false ∧ s'.inFlow = s.inFlow

/-- the entries of a flow mapping -/
def FlowEntriesOK (o : Opts) (f : ScalarFns) (es : List (SVal × SVal)) : Prop :=
  ∀ (s : St) (m : MapSer), m.flow = true → Mid s → s.pendingSpaceAfterColon = false →
    ∃ m' s', serMapEntries o f m es s = .ok (m', s') ∧ m'.flow = true ∧ m'.restoreShift = m.restoreShift ∧
      s'.out = s.out ++ (if m.first then flowEntries es else flowEntriesTail es) ∧ Mid s' ∧
      s'.pendingSpaceAfterColon = false ∧ s'.inFlow = s.inFlow

/-- a sequence inside a flow collection -/
theorem seq_flow_step {xs : List SVal} (hxs : FlowItemsOK o f xs) :
    FlowOKP (ser o f (.seq xs)) ('[' :: flowItems xs ++ [']']) := by
  intro s h hfl
  obtain ⟨hq1, hq2, hq3, hout1, hm1, hp1, hi1⟩ := serializeSeq_flow (o := o) h (Or.inl hfl)
  obtain ⟨q', s', he, hqf, hqr, hout, hm, hp, hi⟩ := hxs _ (serializeSeq o s).1 hq1 hm1 hp1
  rw [ser_seq, he]
  have hne : (s'.inFlow == 0) = false := by simp; omega
  have hs0 : ¬ s.inFlow = 0 := by omega
  have hr : q'.restoreShift = none := by rw [hqr, hq3]
  refine ⟨_, rfl, ?_, ?_, ?_, ?_⟩
  · simp [seqEnd, hr, hqf, St.write, hne, hout, hout1, hq2, List.append_assoc]
  · constructor <;> simp [seqEnd, hr, hqf, St.write, hne, hm.als, hm.pss]
  · simp [seqEnd, hr, hqf, St.write, hne, hp]
  · simp [seqEnd, hr, hqf, St.write, hne, hi, hi1, hs0]

/-- a mapping inside a flow collection -/
theorem map_flow_step (known : Bool) {es : List (SVal × SVal)} (hes : FlowEntriesOK o f es) :
    FlowOKP (ser o f (.map known es)) ('{' :: flowEntries es ++ ['}']) := by
  intro s h hfl
  obtain ⟨hq1, hq2, hq3, hout1, hm1, hp1, hi1⟩ :=
    serializeMap_flow (o := o) (if known then some es.length else none) h (Or.inl hfl)
  obtain ⟨m', s', he, hmf, hmr, hout, hm, hp, hi⟩ := hes _ (serializeMap o _ s).1 hq1 hm1 hp1
  rw [ser_map, he]
  have hne : (s'.inFlow == 0) = false := by simp; omega
  have hs0 : ¬ s.inFlow = 0 := by omega
  have hr : m'.restoreShift = none := by rw [hmr, hq3]
  refine ⟨_, rfl, ?_, ?_, ?_, ?_⟩
  · simp [mapEnd, hr, hmf, St.write, hne, hout, hout1, hq2, List.append_assoc]
  · constructor <;> simp [mapEnd, hr, hmf, St.write, hne, hm.als, hm.pss]
  · simp [mapEnd, hr, hmf, St.write, hne, hp]
  · simp [mapEnd, hr, hmf, St.write, hne, hi, hi1, hs0]

/-- an enum variant with data inside a flow collection: `{Variant: payload}` -/
theorem variant_flow_step (ho : PlainOpts o) (hf : SafeContract f) {n : List Char} (hn : isSafeStr n = true)
    {P : St → Except EmitErr St} {txt : List Char} (hP : FlowOKP P txt) :
    FlowOKP (variantRun o f n P) (flowVariant n txt) := by
  intro s h hfl
  have hz : s.inFlow > 0 := by omega
  have hbv : beginVariant o f n s =
      ({ flow := true }, { (writeSpaceIfPending s).write ('{' :: n ++ [':']) with pendingSpaceAfterColon := true, atLineStart := false }) := by
    simp [beginVariant, hz, plainOrQuoted_safe ho.quoteAll hf hn]
  have hm0 : Mid ({ (writeSpaceIfPending s).write ('{' :: n ++ [':']) with pendingSpaceAfterColon := true, atLineStart := false } : St) := by
    constructor <;> (by_cases hp : s.pendingSpaceAfterColon = true <;> simp [writeSpaceIfPending, St.write, hp, h.pss])
  obtain ⟨s2, he, hout, hm, hp, hi⟩ := hP _ hm0 (by
    by_cases hp : s.pendingSpaceAfterColon = true <;> simp [writeSpaceIfPending, St.write, hp] <;> omega)
  rw [variantRun, hbv]
  simp only [he]
  refine ⟨_, rfl, ?_, ?_, ?_, ?_⟩
  · simp only [endVariant, restoreShift_none, if_true, St.write]
    rw [hout]
    by_cases hpp : s.pendingSpaceAfterColon = true <;>
      simp [writeSpaceIfPending, St.write, sp, hpp, flowVariant, List.append_assoc]
  · constructor <;> simp [endVariant, St.write, hm.als, hm.pss]
  · simp [endVariant, St.write, hp]
  · simp only [endVariant, restoreShift_none, if_true, St.write]
    rw [hi]
    by_cases hpp : s.pendingSpaceAfterColon = true <;> simp [writeSpaceIfPending, St.write, hpp]

theorem flow_items_nil : FlowItemsOK o f [] := by
  intro s q hq h hp
  exact ⟨q, s, by rw [serSeqElems], hq, rfl, by cases q.first <;> simp [flowItems, flowItemsTail], h, hp, rfl⟩

theorem flow_items_cons {x : SVal} {xs : List SVal} (hx : FlowOKP (ser o f x) (flowTxt x)) (hxs : FlowItemsOK o f xs) :
    FlowItemsOK o f (x :: xs) := by
  intro s q hq h hp
  obtain ⟨qd, qf, qfirst, qrs⟩ := q
  simp only at hq
  subst hq
  have hm0 : Mid ({ (if !qfirst then s.write [',', ' '] else s) with inFlow := (if !qfirst then s.write [',', ' '] else s).inFlow + 1 } : St) := by
    cases qfirst <;> constructor <;> simp [St.write, h.als, h.pss]
  have hp0 : ({ (if !qfirst then s.write [',', ' '] else s) with inFlow := (if !qfirst then s.write [',', ' '] else s).inFlow + 1 } : St).pendingSpaceAfterColon = false := by
    cases qfirst <;> simp [St.write, hp]
  obtain ⟨sx, hex, houtx, hmx, hpx, hix⟩ := hx _ hm0 (by simp)
  have hmx' : Mid ({ sx with inFlow := sx.inFlow - 1 } : St) := ⟨hmx.als, hmx.pss⟩
  obtain ⟨q', s', he, hqf, hqr, hout, hm, hpp, hi⟩ :=
    hxs { sx with inFlow := sx.inFlow - 1 } { depth := qd, flow := true, first := false, restoreShift := qrs } rfl hmx' hpx
  refine ⟨q', s', ?_, hqf, by simpa using hqr, ?_, hm, hpp, ?_⟩
  · rw [serSeqElems]
    simp only [if_true, hex]
    exact he
  · rw [hout, houtx]
    cases qfirst <;> simp [sp, hp, St.write, flowItems, flowItemsTail, List.append_assoc]
  · rw [hi]; simp only [hix]
    cases qfirst <;> simp [St.write]

theorem flow_entries_nil : FlowEntriesOK o f [] := by
  intro s m hm h hp
  exact ⟨m, s, by rw [serMapEntries], hm, rfl, by cases m.first <;> simp [flowEntries, flowEntriesTail], h, hp, rfl⟩

theorem flow_entries_cons (hf : SafeContract f) {kt : List Char} {v : SVal} {es : List (SVal × SVal)}
    (hk : isSafeStr kt = true) (hv : FlowOKP (ser o f v) (flowTxt v)) (hes : FlowEntriesOK o f es) :
    FlowEntriesOK o f ((.str kt, v) :: es) := by
  intro s m hm h hp
  obtain ⟨md, mf, mfirst, mlkc, mrs, mivs⟩ := m
  simp only at hm
  subst hm
  let s1 : St := if !mfirst then s.write [',', ' '] else s
  let s2 : St := { s1.write (kt ++ [':', ' ']) with atLineStart := false }
  have hm0 : Mid ({ s2 with inFlow := s2.inFlow + 1 } : St) := by
    cases mfirst <;> constructor <;> simp [s1, s2, St.write, h.pss]
  have hp0 : ({ s2 with inFlow := s2.inFlow + 1 } : St).pendingSpaceAfterColon = false := by
    cases mfirst <;> simp [s1, s2, St.write, hp]
  obtain ⟨sx, hex, houtx, hmx, hpx, hix⟩ := hv { s2 with inFlow := s2.inFlow + 1 } hm0 (by simp)
  have hmx' : Mid ({ sx with inFlow := sx.inFlow - 1 } : St) := ⟨hmx.als, hmx.pss⟩
  obtain ⟨m', s', he, hmf, hmr, hout, hmm, hpp, hi⟩ :=
    hes { sx with inFlow := sx.inFlow - 1 }
      { depth := md, flow := true, first := false, lastKeyComplex := false, restoreShift := mrs, inlineValueStart := mivs } rfl hmx' hpx
  refine ⟨m', s', ?_, hmf, by simpa using hmr, ?_, hmm, hpp, ?_⟩
  · rw [serMapEntries]
    simp only [if_true, keyText_safe hf hk]
    show (match ser o f v { s2 with inFlow := s2.inFlow + 1 } with
          | Except.error e => Except.error e
          | Except.ok s => serMapEntries o f _ es { s with inFlow := s.inFlow - 1 }) = _
    rw [hex]
    exact he
  · rw [hout, houtx]
    cases mfirst <;> simp [sp, hp, s1, s2, St.write, flowEntries, flowEntriesTail, keyOf, List.append_assoc]
  · rw [hi]; simp only [hix]
    cases mfirst <;> simp [s1, s2, St.write]

section
variable (ho : PlainOpts o) (hf : SafeContract f)
include ho hf

mutual
/-- a value inside a flow collection: its flow text, nothing else -/
theorem ser_flow : ∀ (v : SVal), inFlowFrag v = true → FlowOKP (ser o f v) (flowTxt v)
  | .unit, _ => by
    intro s h hfl; rw [ser]; simpa [flowTxt] using serToken_flow (o := o) "null".toList s h hfl
  | .none, _ => by
    intro s h hfl; rw [ser]; simpa [flowTxt] using serToken_flow (o := o) "null".toList s h hfl
  | .bool b, _ => by
    intro s h hfl; rw [ser]
    simpa [flowTxt] using serToken_flow (o := o) (if b then "true".toList else "false".toList) s h hfl
  | .int i, _ => by
    intro s h hfl; rw [ser]; simpa [flowTxt] using serToken_flow (o := o) (intText i) s h hfl
  | .str t, hv => by
    simp only [inFlowFrag] at hv
    intro s h hfl
    rw [ser, serStr_flow ho hf hv h hfl]
    simpa [flowTxt] using serToken_flow (o := o) t s h hfl
  | .unitVariant e n, hv => by
    simp only [inFlowFrag] at hv
    intro s h hfl
    rw [ser]
    simp only [ho.tagged, Bool.false_eq_true, if_false]
    rw [serStr_flow ho hf hv h hfl]
    simpa [flowTxt] using serToken_flow (o := o) n s h hfl
  | .some v, hv => by
    simp only [inFlowFrag] at hv
    intro s h hfl
    rw [ser]; simpa [flowTxt] using ser_flow v hv s h hfl
  | .newtypeStruct v, hv => by
    simp only [inFlowFrag] at hv
    intro s h hfl
    rw [ser]; simpa [flowTxt] using ser_flow v hv s h hfl
  | .seq xs, hv => by
    simp only [inFlowFrag] at hv
    simpa [flowTxt] using seq_flow_step (ser_flow_items xs hv)
  | .tuple xs, hv => by
    simp only [inFlowFrag] at hv
    intro s h hfl
    rw [ser_tuple]
    simpa [flowTxt] using seq_flow_step (ser_flow_items xs hv) s h hfl
  | .tupleStruct xs, hv => by
    simp only [inFlowFrag] at hv
    intro s h hfl
    rw [ser_tupleStruct]
    simpa [flowTxt] using seq_flow_step (ser_flow_items xs hv) s h hfl
  | .map known es, hv => by
    simp only [inFlowFrag, Bool.and_eq_true] at hv
    simpa [flowTxt] using map_flow_step known (ser_flow_entries es hv.1)
  | .newtypeVariant n v, hv => by
    simp only [inFlowFrag, Bool.and_eq_true] at hv
    intro s h hfl
    rw [ser_newtypeVariant]
    simpa [flowTxt] using variant_flow_step ho hf hv.1 (ser_flow v hv.2) s h hfl
  | .tupleVariant n xs, hv => by
    simp only [inFlowFrag, Bool.and_eq_true] at hv
    intro s h hfl
    rw [ser_tupleVariant]
    simpa [flowTxt] using variant_flow_step ho hf hv.1 (seq_flow_step (ser_flow_items xs hv.2)) s h hfl
  | .structVariant n fs, hv => by
    simp only [inFlowFrag, Bool.and_eq_true] at hv
    intro s h hfl
    rw [ser_structVariant]
    simpa [flowTxt] using variant_flow_step ho hf hv.1 (map_flow_step true (ser_flow_entries fs hv.2.1)) s h hfl
  | .flowSeq _, hv => by simp [inFlowFrag] at hv
  | .flowMap _, hv => by simp [inFlowFrag] at hv
  | .commented _ _, hv => by simp [inFlowFrag] at hv
  | .spaceAfter _, hv => by simp [inFlowFrag] at hv
  | .litStr _, hv => by simp [inFlowFrag] at hv
  | .foldStr _, hv => by simp [inFlowFrag] at hv
/-- the elements of a flow sequence -/
theorem ser_flow_items : ∀ (xs : List SVal), inFlowFragList xs = true → FlowItemsOK o f xs
  | [], _ => flow_items_nil
  | x :: xs, hv => by
    simp only [inFlowFragList, Bool.and_eq_true] at hv
    exact flow_items_cons (ser_flow x hv.1) (ser_flow_items xs hv.2)
/-- the entries of a flow mapping -/
theorem ser_flow_entries : ∀ (es : List (SVal × SVal)), inFlowFragEntries es = true → FlowEntriesOK o f es
  | [], _ => flow_entries_nil
  | (k, v) :: es, hv => by
    cases k <;> simp only [inFlowFragEntries, Bool.and_eq_true, Bool.false_and, Bool.false_eq_true, false_and] at hv
    rename_i kt
    exact flow_entries_cons hf hv.1.1 (ser_flow v hv.1.2) (ser_flow_entries es hv.2)
end

end

end SaphyrVerif.Emit
