import SaphyrVerif.Model.Entry
import SaphyrVerif.Lemmas.CurSimTac
/-!
Typed multi-document theorems (C11), continued — lock-step simulation, part 1: two cursors `c` and `σ c` that
answer every `peek` / `next` ALIKE — the same event or the same error —, with an invariant `Inv` of the left
cursor after a successful operation and an invariant `ErrI` after a failed one.  The typed deserializer, run on
such a pair, returns the same value or the same error, and the returned cursors are again a pair `d`, `σ d` with
`Inv d` (value) resp. `ErrI d` (error) — in particular the cursor it returns on an ERROR is described, which is what
the streaming iterator needs for its recovery.  (The pass itself, `Lemmas/C11_Typed2Lock*.lean`, is the twin of
`Lemmas/E2EBudget*.lean`, with an arbitrary `σ` in place of `strip` and without the one-sided breach outcome.)

Instance (`Lemmas/C11_Typed2Fail.lean`): `σ` replaces the rest of the stream behind the current document by
another one; `Inv` = "the pump alone will fail before the end of the document".
-/
namespace SaphyrVerif.Lemmas.Lock
set_option linter.unusedSimpArgs false
open SaphyrVerif SaphyrVerif.Scalars SaphyrVerif.Pump SaphyrVerif.De

/-- parameters of the lock-step comparison -/
structure LP where
  σ : Cur → Cur
  Inv : Cur → Prop
  ErrI : Cur → Prop
  σ_lastLoc : ∀ c, (σ c).lastLoc = c.lastLoc
  σ_refLoc : ∀ c, (σ c).refLoc = c.refLoc
  σ_atAlias : ∀ c, (σ c).atAlias = c.atAlias
  σ_replay : ∀ b i r, σ (.replay b i r) = .replay b i r
  inv_err : ∀ c, Inv c → ErrI c

theorem LP.σ_tagUseSite (P : LP) (c : Cur) (l : Loc) : tagUseSite (P.σ c) l = tagUseSite c l := by
  simp [tagUseSite, P.σ_refLoc]

theorem LP.σ_eofErr (P : LP) (c : Cur) : eofErr (P.σ c) = eofErr c := by simp [eofErr, P.σ_lastLoc]

/-- the two results agree: the same value / the same error, and the cursors are a pair again -/
inductive LR (P : LP) {α : Type} : R α → R α → Prop
  | ok {a : α} {d : Cur} : P.Inv d → LR P (.ok a d) (.ok a (P.σ d))
  | err {e : DErr} {d : Cur} : P.ErrI d → LR P (.err e d) (.err e (P.σ d))

theorem LR.fwd_ok {P : LP} {α : Type} {x y : R α} {a : α} {d : Cur} (heq : x = .ok a d) (h : LR P x y) :
    y = .ok a (P.σ d) ∧ P.Inv d := by
  cases h with
  | ok hi => cases heq; exact ⟨rfl, hi⟩
  | err => cases heq

theorem LR.fwd_err {P : LP} {α : Type} {x y : R α} {e : DErr} {d : Cur} (heq : x = .err e d) (h : LR P x y) :
    y = .err e (P.σ d) ∧ P.ErrI d := by
  cases h with
  | ok hi => cases heq
  | err hi => cases heq; exact ⟨rfl, hi⟩

/-- the invariant is kept by the two cursor operations, which answer alike on both cursors -/
def Closed (P : LP) : Prop := ∀ c, P.Inv c → LR P c.peek (P.σ c).peek ∧ LR P c.next (P.σ c).next

theorem Closed.peek_cases {P : LP} (hcl : Closed P) {c : Cur} (h : P.Inv c) :
    (∃ o d, c.peek = .ok o d ∧ (P.σ c).peek = .ok o (P.σ d) ∧ P.Inv d) ∨
    (∃ e d, c.peek = .err e d ∧ (P.σ c).peek = .err e (P.σ d) ∧ P.ErrI d) := by
  have hx := (hcl c h).1
  revert hx
  generalize c.peek = x
  generalize (P.σ c).peek = y
  intro hx
  cases hx with
  | ok hi => exact .inl ⟨_, _, rfl, rfl, hi⟩
  | err hi => exact .inr ⟨_, _, rfl, rfl, hi⟩

theorem Closed.next_cases {P : LP} (hcl : Closed P) {c : Cur} (h : P.Inv c) :
    (∃ o d, c.next = .ok o d ∧ (P.σ c).next = .ok o (P.σ d) ∧ P.Inv d) ∨
    (∃ e d, c.next = .err e d ∧ (P.σ c).next = .err e (P.σ d) ∧ P.ErrI d) := by
  have hx := (hcl c h).2
  revert hx
  generalize c.next = x
  generalize (P.σ c).next = y
  intro hx
  cases hx with
  | ok hi => exact .inl ⟨_, _, rfl, rfl, hi⟩
  | err hi => exact .inr ⟨_, _, rfl, rfl, hi⟩

end SaphyrVerif.Lemmas.Lock

