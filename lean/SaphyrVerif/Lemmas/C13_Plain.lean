import SaphyrVerif.Lemmas.C13_Quoted
/-!
C13 / C12 composition, part 2a: PLAIN tokens in general.  A text that starts like a plain scalar, holds
no `#`, no key separator (`: ` / `:` + TAB / trailing `:`), no trailing blank, and resolves to a string is a
scalar token for itself; without any `:` it is a key token for itself.
-/
set_option linter.unusedSimpArgs false
set_option linter.unusedVariables false
namespace SaphyrVerif.Emit
open SaphyrVerif

/-- every `:` of the text is followed by a character other than a blank -/
def noKeySep : List Char → Bool
  | [] => true
  | ':' :: rest => !colonEndsKey rest && noKeySep rest
  | _ :: rest => noKeySep rest

theorem noKeySep_cons {c : Char} {cs : List Char} (h : noKeySep (c :: cs) = true) : noKeySep cs = true := by
  by_cases hc : c = ':'
  · subst hc; simp only [noKeySep, Bool.and_eq_true] at h; exact h.2
  · rw [noKeySep] at h
    · exact h
    · intro e; exact hc e

/-- scanning a text without `#` and without key separator finds no implicit key -/
theorem splitPlainKey_none : ∀ (s acc : List Char), noKeySep s = true → '#' ∉ s → splitPlainKey acc s = none
  | [], acc, _, _ => rfl
  | c :: cs, acc, hs, hh => by
    have hcs := noKeySep_cons hs
    have hh' : '#' ∉ cs := fun h => hh (by simp [h])
    have hc : c ≠ '#' := fun e => hh (by simp [e])
    unfold splitPlainKey
    split
    · rename_i he; exact absurd he (by simp)
    · rename_i acc' rest he
      simp only [List.cons.injEq] at he
      obtain ⟨rfl, rfl⟩ := he
      simp only [noKeySep, Bool.and_eq_true, Bool.not_eq_true'] at hs
      simp only [hs.1, Bool.false_eq_true, if_false]
      exact splitPlainKey_none _ _ hcs hh'
    · rename_i he
      simp only [List.cons.injEq] at he
      exact absurd (by rw [he.2]; simp) hh'
    · rename_i he
      simp only [List.cons.injEq] at he
      exact absurd (by rw [he.2]; simp) hh'
    · rename_i c' r he
      simp only [List.cons.injEq] at he
      obtain ⟨rfl, rfl⟩ := he
      exact splitPlainKey_none _ _ hcs hh'

/-- the first line of a plain scalar without `#` is the whole text (minus trailing blanks) -/
theorem plainFirstLine_noHash : ∀ (s acc : List Char), '#' ∉ s →
    plainFirstLine acc s = (trimEndSpaces (acc.reverse ++ s), false)
  | [], acc, _ => by simp [plainFirstLine]
  | c :: cs, acc, hh => by
    have hh' : '#' ∉ cs := fun h => hh (by simp [h])
    unfold plainFirstLine
    split
    · rename_i he; exact absurd he (by simp)
    · rename_i he
      simp only [List.cons.injEq] at he
      exact absurd (by rw [he.2]; simp) hh'
    · rename_i he
      simp only [List.cons.injEq] at he
      exact absurd (by rw [he.2]; simp) hh'
    · rename_i c' r he
      simp only [List.cons.injEq] at he
      obtain ⟨rfl, rfl⟩ := he
      rw [plainFirstLine_noHash _ _ hh']; simp

theorem trimEndSpaces_id {s : List Char} (h1 : s.getLast? ≠ some ' ') (h2 : s.getLast? ≠ some '\t') : trimEndSpaces s = s := by
  unfold trimEndSpaces
  cases hr : s.reverse with
  | nil => simp [List.reverse_eq_nil_iff.mp hr]
  | cons c cs =>
    have hl : s.getLast? = some c := by
      rw [← List.reverse_reverse s, hr]; simp
    have e1 : c ≠ ' ' := fun e => h1 (by rw [hl, e])
    have e2 : c ≠ '\t' := fun e => h2 (by rw [hl, e])
    have hb : (c == ' ' || c == '\t') = false := by simp [e1, e2]
    rw [List.dropWhile_cons_of_neg (by simp [hb]), ← hr, List.reverse_reverse]

/-- first characters of a plain scalar token -/
def plainStart (c : Char) : Bool := keyStart c && c != '"' && c != '\''

theorem plainStart_key {c : Char} (h : plainStart c = true) : keyStart c = true := by
  simp only [plainStart, Bool.and_eq_true] at h; exact h.1.1

theorem plainStart_ne {c : Char} (h : plainStart c = true) (x : Char) (hx : plainStart x = false) : c ≠ x := by
  rintro rfl; rw [h] at hx; exact Bool.noConfusion hx

/-- a plain scalar alone on its line -/
theorem blockNode_plainGen (fuel n : Nat) (seqAt : Option Nat) (inl : Bool) (i : Nat) {s : List Char} {c : Char} {cs : List Char}
    (rest : List Line) (e : s = c :: cs) (hstart : plainStart c = true) (hcls : classify s = .other)
    (hsep : noKeySep s = true) (hhash : '#' ∉ s) (hl1 : s.getLast? ≠ some ' ') (hl2 : s.getLast? ≠ some '\t')
    (hi : n ≤ i) (hd : DedLt n rest) :
    blockNode (fuel + 1) n seqAt inl (⟨i, s⟩ :: rest) = some (resolvePlain s, rest) := by
  have hk := plainStart_key hstart
  have hns : (⟨i, s⟩ : Line).isSkippable = false := by
    rw [e]; exact notSkippable_of_head (keyStart_ne hk '#' (by decide))
  have hlt : ¬ (i < n) := by omega
  have hsk : skipTag s = s := by rw [e]; exact skipTag_keyStart _ hk
  have hne : ∀ x : Char, plainStart x = false → (c == x) = false := fun x hx => by
    simp only [beq_eq_false_iff_ne]; exact plainStart_ne hstart x hx
  have hik : implicitKey s = none := by
    unfold implicitKey
    rw [hsk, e]
    split
    · rename_i he; simp only [List.cons.injEq] at he; exact absurd he.1 (plainStart_ne hstart '"' (by decide))
    · rename_i he; simp only [List.cons.injEq] at he; exact absurd he.1 (plainStart_ne hstart '\'' (by decide))
    · split
      · rfl
      · rename_i c' r he
        split
        · rfl
        · rw [← e, splitPlainKey_none s [] hsep hhash]; rfl
  have hpf : plainFirstLine [] s = (s, false) := by
    rw [plainFirstLine_noHash s [] hhash]; simp [trimEndSpaces_id hl1 hl2]
  rw [blockNode, skipBlank_cons rest hns]
  simp only [hcls, hlt, decide_false, Bool.false_and, Bool.false_eq_true, if_false, hsk]
  rw [e]
  simp only [hne '[' (by decide), hne '{' (by decide), hne '|' (by decide), hne '>' (by decide), hne '&' (by decide),
    hne '*' (by decide), hne '%' (by decide), hne '@' (by decide), hne '`' (by decide), hne '"' (by decide),
    hne '\'' (by decide), hne '#' (by decide), Bool.or_self, Bool.false_eq_true, if_false]
  rw [← e, hik, hpf]
  simp only [Bool.false_eq_true, if_false, plainContinuation_ded hd]

/-- the conditions under which a text is a plain scalar token for itself -/
structure PlainVal (s : List Char) : Prop where
  start : ∃ c cs, s = c :: cs ∧ plainStart c = true
  cls : classify s = .other
  sep : noKeySep s = true
  chars : ∀ x ∈ s, lineChar x = true ∧ x ≠ '#'
  last : s.getLast? ≠ some ' ' ∧ s.getLast? ≠ some '\t'
  str : resolvePlain s = .str s
  noMarker : isDocMarker ⟨0, s⟩ "---".toList = false ∧ isDocMarker ⟨0, s⟩ "...".toList = false

theorem PlainVal.scalarTok {s : List Char} (h : PlainVal s) : ScalarTok s (.str s) := by
  obtain ⟨c, cs, e, hc⟩ := h.start
  have hhash : '#' ∉ s := fun hm => (h.chars '#' hm).2 rfl
  refine ⟨fun fuel n seqAt inl i rest hi hd => ?_, by rw [e]; simp, ?_, fun x hx => (h.chars x hx).1, h.noMarker⟩
  · rw [blockNode_plainGen fuel n seqAt inl i rest e hc h.cls h.sep hhash h.last.1 h.last.2 hi hd, h.str]
  · have hk := plainStart_key hc
    rw [e]
    simp only [List.head?_cons, ne_eq, Option.some.injEq]
    exact ⟨keyStart_ne hk ' ' (by decide), keyStart_ne hk '#' (by decide), keyStart_ne hk '%' (by decide)⟩

/-! ### plain keys -/

/-- scanning `key: …` where the key holds neither `:` nor `#` -/
theorem splitPlainKey_plain : ∀ (k acc after : List Char), ':' ∉ k → '#' ∉ k → colonEndsKey after = true →
    splitPlainKey acc (k ++ ':' :: after) = some (acc.reverse ++ k, after)
  | [], acc, after, _, _, ha => by simp [splitPlainKey, ha]
  | c :: cs, acc, after, hc, hh, ha => by
    have hc' : ':' ∉ cs := fun h => hc (by simp [h])
    have hh' : '#' ∉ cs := fun h => hh (by simp [h])
    have h1 : c ≠ ':' := fun e => hc (by simp [e])
    simp only [List.cons_append]
    unfold splitPlainKey
    split
    · rename_i he; exact absurd he (by simp)
    · rename_i r he
      simp only [List.cons.injEq] at he
      exact absurd he.1 h1
    · rename_i he
      simp only [List.cons.injEq] at he
      cases cs with
      | nil => simp at he
      | cons d ds => simp at he; exact absurd (by rw [he.2.1]; simp) hh'
    · rename_i he
      simp only [List.cons.injEq] at he
      cases cs with
      | nil => simp at he
      | cons d ds => simp at he; exact absurd (by rw [he.2.1]; simp) hh'
    · rename_i c' r he
      simp only [List.cons.injEq] at he
      obtain ⟨rfl, rfl⟩ := he
      rw [splitPlainKey_plain _ _ _ hc' hh' ha]; simp

/-- the conditions under which a text is a plain key token for itself -/
structure PlainKey (s : List Char) : Prop where
  start : ∃ c cs, s = c :: cs ∧ plainStart c = true
  cls : ∀ after, classify (s ++ ':' :: after) = .other
  chars : ∀ x ∈ s, lineChar x = true ∧ x ≠ '#' ∧ x ≠ ':'
  last : s.getLast? ≠ some ' ' ∧ s.getLast? ≠ some '\t'
  str : resolvePlain s = .str s
  noMarker : ∀ after, isDocMarker ⟨0, s ++ ':' :: after⟩ "---".toList = false ∧
    isDocMarker ⟨0, s ++ ':' :: after⟩ "...".toList = false
  /-- alone on a line (the explicit form `? key`): not a sequence entry / explicit-key indicator, no document marker -/
  cls0 : classify s = .other
  noMarker0 : isDocMarker ⟨0, s⟩ "---".toList = false ∧ isDocMarker ⟨0, s⟩ "...".toList = false

/-- a plain key token is a plain scalar token as well (it holds no `:` at all) -/
theorem PlainKey.plainVal {s : List Char} (h : PlainKey s) : PlainVal s := by
  refine ⟨h.start, h.cls0, ?_, fun x hx => ⟨(h.chars x hx).1, (h.chars x hx).2.1⟩, h.last, h.str, h.noMarker0⟩
  have hc : ∀ (t : List Char), (∀ x ∈ t, x ≠ ':') → noKeySep t = true := by
    intro t
    induction t with
    | nil => intro _; rfl
    | cons c cs ih =>
      intro ht
      have h1 : c ≠ ':' := ht c (by simp)
      rw [noKeySep]
      · exact ih (fun x hx => ht x (by simp [hx]))
      · intro e; exact h1 e
  exact hc s (fun x hx => (h.chars x hx).2.2)

theorem PlainKey.keyTok {s : List Char} (h : PlainKey s) : KeyTok s s := by
  obtain ⟨c, cs, e, hc⟩ := h.start
  have hk := plainStart_key hc
  have hcolon : ':' ∉ s := fun hm => (h.chars ':' hm).2.2 rfl
  have hhash : '#' ∉ s := fun hm => (h.chars '#' hm).2.1 rfl
  refine ⟨?_, h.cls, ⟨c, cs, e, hk⟩, fun x hx => (h.chars x hx).1, h.noMarker, h.plainVal.scalarTok⟩
  intro after ha
  have hne : ∀ x : Char, plainStart x = false → (c == x) = false := fun x hx => by
    simp only [beq_eq_false_iff_ne]; exact plainStart_ne hc x hx
  have hsp := splitPlainKey_plain s [] after hcolon hhash ha
  simp only [List.reverse_nil, List.nil_append] at hsp
  unfold implicitKey
  have hsk : skipTag (s ++ ':' :: after) = s ++ ':' :: after := by
    rw [e]; exact skipTag_keyStart _ hk
  rw [hsk]
  have e' : s ++ ':' :: after = c :: (cs ++ ':' :: after) := by rw [e]; rfl
  rw [e']
  split
  · rename_i he; simp only [List.cons.injEq] at he; exact absurd he.1 (plainStart_ne hc '"' (by decide))
  · rename_i he; simp only [List.cons.injEq] at he; exact absurd he.1 (plainStart_ne hc '\'' (by decide))
  · have hspecial : (c == '[' || c == '{' || c == '|' || c == '>' || c == '#' || c == '&' || c == '*' || c == '%' || c == '@' || c == '`') = false := by
      simp [hne '[' (by decide), hne '{' (by decide), hne '|' (by decide), hne '>' (by decide), hne '#' (by decide),
        hne '&' (by decide), hne '*' (by decide), hne '%' (by decide), hne '@' (by decide), hne '`' (by decide)]
    simp only [hspecial, Bool.false_eq_true, if_false]
    rw [← e', hsp]
    simp [trimEndSpaces_id h.last.1 h.last.2, h.str]

end SaphyrVerif.Emit
