import SaphyrVerif.Lemmas.C17Crop
/-!
Helper lemmas for C17, part 7: the ring reader's recent-bytes window and its trimming to UTF-8
boundaries (`trim_to_utf8_boundaries_with_line`, `trim_incomplete_utf8_tail`, `push_ring_bytes`).
-/
namespace SaphyrVerif.Lemmas.C17
open SaphyrVerif SaphyrVerif.Snippet

/-! ### structure of one encoded character -/

theorem utf8Bytes_struct' (c : Char) :
    ∃ lead conts, utf8Bytes c = lead :: conts ∧ isCont lead = false ∧ (∀ b ∈ conts, isCont b = true) ∧
      conts.length + 1 = utf8LenChar c ∧ expectedLen lead = some (utf8LenChar c) ∧ conts.length ≤ 3 := by
  have hv := char_valid c
  have hl := utf8Bytes_length c
  rcases shape c with ⟨h, e⟩ | ⟨h1, h2, e⟩ | ⟨h1, h2, e⟩ | ⟨h1, e⟩
  · refine ⟨c.toNat, [], e, ?_, by simp, ?_, ?_, by simp⟩
    · unfold isCont; have : c.toNat / 64 ≠ 2 := by omega
      simp [this]
    · rw [← hl, e]; rfl
    · unfold expectedLen; rw [if_pos (by omega), ← hl, e]; rfl
  · refine ⟨_, _, e, ?_, ?_, ?_, ?_, by simp⟩
    · unfold isCont; have : (0xC0 + c.toNat / 64) / 64 ≠ 2 := by omega
      simp [this]
    · intro b hb; simp at hb; subst hb; unfold isCont
      have : (0x80 + c.toNat % 64) / 64 = 2 := by omega
      simp [this]
    · rw [← hl, e]; rfl
    · unfold expectedLen
      rw [if_neg (by omega), if_pos (by omega), ← hl, e]; rfl
  · refine ⟨_, _, e, ?_, ?_, ?_, ?_, by simp⟩
    · unfold isCont; have : (0xE0 + c.toNat / 4096) / 64 ≠ 2 := by omega
      simp [this]
    · intro b hb; simp at hb; unfold isCont
      rcases hb with hb | hb <;> subst hb
      · have : (0x80 + c.toNat / 64 % 64) / 64 = 2 := by omega
        simp [this]
      · have : (0x80 + c.toNat % 64) / 64 = 2 := by omega
        simp [this]
    · rw [← hl, e]; rfl
    · unfold expectedLen
      rw [if_neg (by omega), if_neg (by omega), if_pos (by omega), ← hl, e]; rfl
  · refine ⟨_, _, e, ?_, ?_, ?_, ?_, by simp⟩
    · unfold isCont; have : (0xF0 + c.toNat / 262144) / 64 ≠ 2 := by omega
      simp [this]
    · intro b hb; simp at hb; unfold isCont
      rcases hb with hb | hb | hb <;> subst hb
      · have : (0x80 + c.toNat / 4096 % 64) / 64 = 2 := by omega
        simp [this]
      · have : (0x80 + c.toNat / 64 % 64) / 64 = 2 := by omega
        simp [this]
      · have : (0x80 + c.toNat % 64) / 64 = 2 := by omega
        simp [this]
    · rw [← hl, e]; rfl
    · unfold expectedLen
      rw [if_neg (by omega), if_neg (by omega), if_neg (by omega), if_pos (by omega), ← hl, e]; rfl

/-! ### the trailing scan -/

theorem trailScan_spec (A : List Nat) (lead : Nat) (conts : List Nat) (h1 : isCont lead = false)
    (h2 : ∀ b ∈ conts, isCont b = true) (h3 : conts.length ≤ 3) :
    trailScan (A ++ lead :: conts) 3 (A ++ lead :: conts).length 0 = .ok (A.length + 1, conts.length) := by
  match conts, h2, h3 with
  | [], _, _ =>
    simp [trailScan, h1]
  | [x], h2, _ =>
    have hx : isCont x = true := h2 x (by simp)
    simp [trailScan, h1, hx]
  | [x, y], h2, _ =>
    have hx : isCont x = true := h2 x (by simp)
    have hy : isCont y = true := h2 y (by simp)
    simp [trailScan, h1, hx, hy]
  | [x, y, z], h2, _ =>
    have hx : isCont x = true := h2 x (by simp)
    have hy : isCont y = true := h2 y (by simp)
    have hz : isCont z = true := h2 z (by simp)
    simp [trailScan, hx, hy, hz, List.getElem?_append_right]
  | _ :: _ :: _ :: _ :: _, _, h3 => simp at h3

/-- a proper, non-empty prefix of the encoding of one character -/
def IsPartialHead (ph : List Nat) : Prop :=
  ph = [] ∨ ∃ c k, 1 ≤ k ∧ k < utf8LenChar c ∧ ph = (utf8Bytes c).take k

/-- one round of `trim_incomplete_utf8_tail` on `A ++ lead :: conts` -/
theorem trimTail_step (fuel : Nat) (A : List Nat) (lead : Nat) (conts : List Nat) (L : Nat)
    (h1 : isCont lead = false) (h2 : ∀ b ∈ conts, isCont b = true) (h3 : conts.length ≤ 3)
    (h4 : expectedLen lead = some L) :
    trimTail (fuel + 1) (A ++ lead :: conts) =
      if conts.length + 1 < L then trimTail fuel A else .ok (A ++ lead :: conts) := by
  rw [trimTail]
  have hne : (A ++ lead :: conts).isEmpty = false := by simp
  rw [hne]
  simp only [Bool.false_eq_true, if_false]
  rw [trailScan_spec A lead conts h1 h2 h3]
  simp only [res_bind_ok]
  rw [if_neg (by omega)]
  have hidx : (A ++ lead :: conts)[A.length + 1 - 1]? = some lead := by
    rw [List.getElem?_append_right (by omega)]; simp
  simp only [hidx, h4]
  have hlen : (A ++ lead :: conts).length - (A.length + 1 - 1) = conts.length + 1 := by
    simp only [List.length_append, List.length_cons]; omega
  rw [hlen]
  have htake : (A ++ lead :: conts).take (A.length + 1 - 1) = A := by
    simp
  rw [htake]
  rfl

/-- a complete encoding is left alone -/
theorem trimTail_complete (fuel : Nat) (mid : List Char) : trimTail (fuel + 1) (encode mid) = .ok (encode mid) := by
  rcases List.eq_nil_or_concat mid with h | ⟨init, c, h⟩
  · subst h; simp [trimTail, encode]
  · subst h
    rw [List.concat_eq_append, encode_append]
    obtain ⟨lead, conts, e, h1, h2, h3, h4, h5⟩ := utf8Bytes_struct' c
    have : encode [c] = lead :: conts := by simp [encode, e]
    rw [this, trimTail_step fuel _ lead conts _ h1 h2 h5 h4, if_neg (by omega)]

/-- (trailing half) an incomplete trailing sequence is dropped, complete characters are kept -/
theorem trimTail_spec (fuel : Nat) (mid : List Char) (ph : List Nat) (hph : IsPartialHead ph) :
    trimTail (fuel + 2) (encode mid ++ ph) = .ok (encode mid) := by
  rcases hph with h | ⟨c, k, hk1, hk2, h⟩
  · subst h; rw [List.append_nil]; exact trimTail_complete (fuel + 1) mid
  · subst h
    obtain ⟨lead, conts, e, h1, h2, h3, h4, h5⟩ := utf8Bytes_struct' c
    have hk : k = (k - 1) + 1 := by omega
    rw [e, hk, List.take_succ_cons]
    rw [trimTail_step (fuel + 1) _ lead (conts.take (k - 1)) _ h1
      (fun b hb => h2 b (List.take_subset _ _ hb)) (by rw [List.length_take]; omega) h4]
    rw [if_pos (by rw [List.length_take]; omega)]
    exact trimTail_complete fuel mid

/-! ### the leading scan -/

theorem takeWhile_cont (ct rest : List Nat) (h1 : ∀ b ∈ ct, isCont b = true)
    (h2 : rest = [] ∨ ∃ x xs, rest = x :: xs ∧ isCont x = false) :
    (ct ++ rest).takeWhile isCont = ct := by
  rw [List.takeWhile_append_of_pos h1]
  rcases h2 with h | ⟨x, xs, h, hx⟩
  · subst h; simp
  · subst h; rw [List.takeWhile_cons]; simp [hx]

theorem encode_head (mid : List Char) (ph : List Nat) (hph : IsPartialHead ph) :
    encode mid ++ ph = [] ∨ ∃ x xs, encode mid ++ ph = x :: xs ∧ isCont x = false := by
  cases mid with
  | nil =>
    rcases hph with h | ⟨c, k, hk1, hk2, h⟩
    · left; subst h; rfl
    · right
      obtain ⟨lead, conts, e, h1, _⟩ := utf8Bytes_struct' c
      have hk : k = (k - 1) + 1 := by omega
      refine ⟨lead, conts.take (k - 1), ?_, h1⟩
      rw [h, e, hk, List.take_succ_cons]; rfl
  | cons c cs =>
    right
    obtain ⟨lead, conts, e, h1, _⟩ := utf8Bytes_struct' c
    exact ⟨lead, conts ++ encode cs ++ ph, by simp [encode, e], h1⟩

theorem cont_ne_nl (ct : List Nat) (h : ∀ b ∈ ct, isCont b = true) : ct.count 0x0A = 0 := by
  apply List.count_eq_zero.mpr
  intro hm
  have := h _ hm
  exact absurd this (by decide)

/-- `trim_to_utf8_boundaries_with_line` on continuation bytes ++ complete characters ++ a partial head -/
theorem ringTrim_spec (ct : List Nat) (mid : List Char) (ph : List Nat) (so sl : Nat)
    (h1 : ∀ b ∈ ct, isCont b = true) (hph : IsPartialHead ph) (hsl : sl ≤ usizeMax) :
    ringTrim (ct ++ encode mid ++ ph) so sl = .ok (so + ct.length, sl, encode mid) := by
  unfold ringTrim
  by_cases he : (ct ++ encode mid ++ ph).isEmpty = true
  · rw [if_pos he]
    have hnil : ct ++ encode mid ++ ph = [] := List.isEmpty_iff.mp he
    have h2 : ct = [] ∧ encode mid = [] ∧ ph = [] := by
      simp only [List.append_eq_nil_iff] at hnil
      exact ⟨hnil.1.1, hnil.1.2, hnil.2⟩
    rw [h2.1, h2.2.1, h2.2.2]; rfl
  · rw [if_neg he]
    simp only []
    have htw : (ct ++ encode mid ++ ph).takeWhile isCont = ct := by
      rw [List.append_assoc]; exact takeWhile_cont ct _ h1 (encode_head mid ph hph)
    rw [htw, cont_ne_nl ct h1]
    have hdrop : (ct ++ encode mid ++ ph).drop ct.length = encode mid ++ ph := by
      rw [List.append_assoc, List.drop_left]
    rw [hdrop]
    cases hq : encode mid ++ ph with
    | nil =>
      have h2 : encode mid = [] ∧ ph = [] := by
        simpa [List.append_eq_nil_iff] using hq
      simp [trimTail, h2.1, satAdd, hsl, Nat.min_eq_left hsl]
    | cons x xs =>
      rw [← hq]
      have hlen : (encode mid ++ ph).length + 1 = ((encode mid ++ ph).length - 1) + 2 := by
        rw [hq]; simp
      rw [hlen, trimTail_spec _ mid ph hph]
      simp [satAdd, Nat.min_eq_left hsl]

/-! ### byte windows of a valid stream -/

theorem prefix_window (cs : List Char) (b : Nat) (hb : b ≤ (encode cs).length) :
    ∃ mid ph, (encode cs).take b = encode mid ++ ph ∧ mid <+: cs ∧ IsPartialHead ph := by
  induction cs generalizing b with
  | nil => exact ⟨[], [], by simp [encode], List.prefix_refl _, .inl rfl⟩
  | cons c cs ih =>
    rw [encode] at hb ⊢
    have hl := utf8Bytes_length c
    by_cases hbl : utf8LenChar c ≤ b
    · rw [List.length_append, hl] at hb
      obtain ⟨mid, ph, e, hp, hh⟩ := ih (b - utf8LenChar c) (by omega)
      refine ⟨c :: mid, ph, ?_, (List.prefix_cons_inj c).mpr hp, hh⟩
      rw [List.take_append, hl, e, List.take_of_length_le (by omega), encode, List.append_assoc]
    · by_cases hb0 : b = 0
      · subst hb0; exact ⟨[], [], by simp [encode], List.nil_prefix, .inl rfl⟩
      · refine ⟨[], (utf8Bytes c).take b, ?_, List.nil_prefix, .inr ⟨c, b, by omega, by omega, rfl⟩⟩
        rw [List.take_append, hl]
        have : b - utf8LenChar c = 0 := by omega
        rw [this]; simp [encode]

/-- every byte window of a valid UTF-8 stream is: continuation bytes of a character cut at the left
edge, then complete characters (a contiguous piece of the stream), then a proper prefix of a character
cut at the right edge -/
theorem window_decomp (cs : List Char) (a b : Nat) (hab : a ≤ b) (hb : b ≤ (encode cs).length) :
    ∃ ct mid ph, ((encode cs).take b).drop a = ct ++ encode mid ++ ph ∧ (∀ x ∈ ct, isCont x = true) ∧
      mid <:+: cs ∧ IsPartialHead ph := by
  induction cs generalizing a b with
  | nil => exact ⟨[], [], [], by simp [encode], by simp, List.infix_refl _, .inl rfl⟩
  | cons c cs ih =>
    have hl := utf8Bytes_length c
    by_cases hal : utf8LenChar c ≤ a
    · rw [encode] at hb ⊢
      rw [List.length_append, hl] at hb
      obtain ⟨ct, mid, ph, e, h1, h2, h3⟩ := ih (a - utf8LenChar c) (b - utf8LenChar c) (by omega) (by omega)
      refine ⟨ct, mid, ph, ?_, h1, List.infix_cons h2, h3⟩
      rw [List.take_append, hl, List.drop_append, List.length_take, hl, ← e]
      have e1 : (utf8Bytes c).take b = utf8Bytes c := List.take_of_length_le (by omega)
      rw [e1, List.drop_of_length_le (by omega), List.nil_append]
      congr 1
      omega
    · by_cases ha0 : a = 0
      · subst ha0
        obtain ⟨mid, ph, e, hp, hh⟩ := prefix_window (c :: cs) b hb
        exact ⟨[], mid, ph, by simpa using e, by simp, hp.isInfix, hh⟩
      · -- the window starts inside `c`
        obtain ⟨lead, conts, e, _, hconts, _, _, _⟩ := utf8Bytes_struct' c
        rw [encode] at hb ⊢
        rw [List.length_append, hl] at hb
        have hcont_drop : ∀ x ∈ (utf8Bytes c).drop a, isCont x = true := by
          intro x hx
          rw [e] at hx
          have : a = (a - 1) + 1 := by omega
          rw [this, List.drop_succ_cons] at hx
          exact hconts x (List.drop_subset _ _ hx)
        by_cases hbl : b ≤ utf8LenChar c
        · refine ⟨((utf8Bytes c).take b).drop a, [], [], ?_, ?_, List.nil_infix, .inl rfl⟩
          · rw [List.take_append, hl]
            have : b - utf8LenChar c = 0 := by omega
            rw [this]; simp [encode]
          · intro x hx
            rw [List.drop_take] at hx
            exact hcont_drop x (List.take_subset _ _ hx)
        · obtain ⟨mid, ph, e2, hp, hh⟩ := prefix_window cs (b - utf8LenChar c) (by omega)
          refine ⟨(utf8Bytes c).drop a, mid, ph, ?_, hcont_drop, List.infix_cons hp.isInfix, hh⟩
          rw [List.take_append, hl, List.drop_append, List.length_take, hl, e2]
          have e1 : (utf8Bytes c).take b = utf8Bytes c := List.take_of_length_le (by omega)
          have e3 : a - min b (utf8LenChar c) = 0 := by omega
          rw [e1, e3, List.drop_zero, List.append_assoc]

/-- the bytes dropped at the left edge are not line breaks: the line number of the new start is the
line number of the old one -/
theorem window_line (S : List Nat) (a b : Nat) (hab : a ≤ b) (hb : b ≤ S.length) (ct rest : List Nat)
    (hw : (S.take b).drop a = ct ++ rest) (hct : ∀ x ∈ ct, isCont x = true) :
    (S.take (a + ct.length)).count 0x0A = (S.take a).count 0x0A := by
  have hlen : ((S.take b).drop a).length = b - a := by
    rw [List.length_drop, List.length_take]; omega
  have hk : ct.length ≤ b - a := by
    rw [← hlen, hw, List.length_append]; omega
  have e1 : S.take b = S.take a ++ (S.take b).drop a := by
    have : (S.take b).take a = S.take a := by rw [List.take_take]; congr 1; omega
    rw [← this, List.take_append_drop]
  have e2 : S.take (a + ct.length) = (S.take b).take (a + ct.length) := by
    rw [List.take_take]; congr 1; omega
  rw [e2, e1, hw, List.take_append, List.length_take]
  have e3 : min a S.length = a := by omega
  rw [e3, List.take_of_length_le (by rw [List.length_take]; omega)]
  have e4 : a + ct.length - a = ct.length := by omega
  rw [e4, List.take_left' rfl, List.count_append, cont_ne_nl ct hct]
  rfl

/-! ### lines ended within a prefix of a byte stream (YAML rule: LF, CRLF, lone CR) -/

open SaphyrVerif.Spec.Snippet (endsLineAt linesEndedBefore)

@[simp] theorem linesEndedBefore_zero (s : List Nat) : linesEndedBefore s 0 = 0 := rfl

theorem linesEndedBefore_succ (s : List Nat) (n : Nat) :
    linesEndedBefore s (n + 1) = linesEndedBefore s n + (if endsLineAt s n = true then 1 else 0) := by
  unfold linesEndedBefore
  rw [List.range_succ, List.countP_append, List.countP_cons, List.countP_nil]
  simp

theorem linesEndedBefore_congr (s t : List Nat) (n : Nat) (h : ∀ i, i < n → endsLineAt s i = endsLineAt t i) :
    linesEndedBefore s n = linesEndedBefore t n := by
  induction n with
  | zero => rfl
  | succ n ih =>
    rw [linesEndedBefore_succ, linesEndedBefore_succ, ih (fun i hi => h i (by omega)), h n (by omega)]

theorem linesEndedBefore_le (s : List Nat) (n : Nat) : linesEndedBefore s n ≤ n := by
  induction n with
  | zero => simp
  | succ n ih => rw [linesEndedBefore_succ]; split <;> omega

theorem linesEndedBefore_mono (s : List Nat) (m n : Nat) (h : m ≤ n) : linesEndedBefore s m ≤ linesEndedBefore s n := by
  induction n with
  | zero => have : m = 0 := by omega
            subst this; exact Nat.le_refl _
  | succ n ih =>
    by_cases hm : m = n + 1
    · subst hm; exact Nat.le_refl _
    · have := ih (by omega)
      rw [linesEndedBefore_succ]; omega

/-- whether byte `i` ends a line depends on bytes `i` and `i + 1` only -/
theorem endsLineAt_append_left (s t : List Nat) (i : Nat) (h : i + 1 < s.length) :
    endsLineAt (s ++ t) i = endsLineAt s i := by
  unfold endsLineAt
  rw [List.getElem?_append_left (by omega), List.getElem?_append_left h]

theorem linesEndedBefore_append_left (s t : List Nat) (n : Nat) (h : n < s.length) :
    linesEndedBefore (s ++ t) n = linesEndedBefore s n :=
  linesEndedBefore_congr _ _ n (fun i hi => endsLineAt_append_left s t i (by omega))

theorem linesEndedBefore_take (s : List Nat) (m n : Nat) (h : n < m) :
    linesEndedBefore (s.take m) n = linesEndedBefore s n := by
  by_cases hm : m ≤ s.length
  · have e : s = s.take m ++ s.drop m := (List.take_append_drop m s).symm
    conv => rhs; rw [e]
    rw [linesEndedBefore_append_left _ _ n (by rw [List.length_take]; omega)]
  · rw [List.take_of_length_le (by omega)]

/-- bytes that are neither LF nor CR end no line -/
theorem linesEndedBefore_add_of_not_break (s : List Nat) (a k : Nat)
    (h : ∀ i, a ≤ i → i < a + k → s[i]? ≠ some 0x0A ∧ s[i]? ≠ some 0x0D) :
    linesEndedBefore s (a + k) = linesEndedBefore s a := by
  induction k with
  | zero => rfl
  | succ k ih =>
    rw [← Nat.add_assoc, linesEndedBefore_succ, ih (fun i h1 h2 => h i h1 (by omega))]
    have := h (a + k) (by omega) (by omega)
    have e : endsLineAt s (a + k) = false := by
      unfold endsLineAt
      simp [this.1, this.2]
    rw [e]; simp

/-- the byte evicted from a full ring ended a line, as `push_ring_bytes` decides it (the byte after it
is the ring's new first byte, or the incoming byte when the ring holds a single byte), is exactly
"this byte of the stream ends a line" -/
theorem evicted_ends_line (seen : List Nat) (b e : Nat) (tl : List Nat) (i : Nat)
    (hdrop : seen.drop i = e :: tl) :
    decide (e = 0x0A ∨ (e = 0x0D ∧ tl.head?.getD b ≠ 0x0A)) = endsLineAt (seen ++ [b]) i := by
  have hlt : i < seen.length := by
    by_cases hq : i < seen.length
    · exact hq
    · rw [List.drop_of_length_le (by omega)] at hdrop; cases hdrop
  have hget : seen[i]? = some e := by
    have := congrArg List.head? hdrop
    rw [List.head?_drop] at this
    simpa using this
  have hdrop1 : seen.drop (i + 1) = tl := by
    have := congrArg List.tail hdrop
    rw [List.tail_drop] at this
    simpa using this
  have hnext : (seen ++ [b])[i + 1]? = some (tl.head?.getD b) := by
    cases tl with
    | nil =>
      have hl : seen.length = i + 1 := by
        have := congrArg List.length hdrop1
        rw [List.length_drop] at this
        simp at this; omega
      rw [List.getElem?_append_right (by omega), hl]
      simp
    | cons t ts =>
      have hl : i + 1 < seen.length := by
        have := congrArg List.length hdrop1
        rw [List.length_drop] at this
        simp at this; omega
      rw [List.getElem?_append_left hl]
      have := congrArg List.head? hdrop1
      rw [List.head?_drop] at this
      simpa using this
  unfold endsLineAt
  rw [List.getElem?_append_left hlt, hget, hnext]
  by_cases h1 : e = 0x0A
  · simp [h1]
  · by_cases h2 : e = 0x0D
    · by_cases h3 : tl.head?.getD b = 0x0A
      · simp [h2, h3]
      · simp [h2, h3]
    · simp [h1, h2]

/-! ### `push_ring_bytes` keeps the last `cap` bytes -/

/-- invariant of the ring after the byte sequence `seen` has gone through `push_ring_bytes`: the ring
holds the last `cap` bytes, knows their offset, and its first byte lies on line 1 + the number of lines
(YAML rule) that ended within the evicted bytes -/
def RingInv (cap : Nat) (seen : List Nat) (r : Ring) : Prop :=
  r.buf = seen.drop (seen.length - cap) ∧ (seen ≠ [] → r.startOffset = seen.length - cap) ∧
    r.startLine = 1 + linesEndedBefore seen (seen.length - cap)

theorem ringPush1_inv (cap : Nat) (hcap : 1 ≤ cap) (seen : List Nat) (r : Ring) (b : Nat)
    (hlen : seen.length + 2 ≤ usizeMax) (h : RingInv cap seen r) :
    RingInv cap (seen ++ [b]) (ringPush1 cap r seen.length b) := by
  obtain ⟨hbuf, hoff, hline⟩ := h
  unfold ringPush1
  simp only []
  by_cases hfull : seen.length < cap
  · -- not yet full: nothing is evicted
    have hk : seen.length - cap = 0 := by omega
    rw [hk, List.drop_zero] at hbuf
    rw [hk, linesEndedBefore_zero] at hline
    have hk' : (seen ++ [b]).length - cap = 0 := by simp only [List.length_append, List.length_cons, List.length_nil]; omega
    have hne : ¬ ((if r.buf.isEmpty = true then { r with startOffset := seen.length } else r).buf.length = cap) := by
      split <;> (simp only [hbuf]; omega)
    rw [if_neg hne]
    refine ⟨?_, ?_, ?_⟩
    · rw [hk', List.drop_zero]; split <;> simp [hbuf]
    · intro _
      rw [hk']
      by_cases hs : seen = []
      · subst hs; simp [hbuf]
      · have h1 : r.buf.isEmpty = false := by rw [hbuf]; cases seen <;> simp_all
        rw [h1]; simp only [Bool.false_eq_true, if_false]
        rw [hoff hs]; omega
    · rw [hk', linesEndedBefore_zero]; split <;> simp [hline]
  · -- full: the oldest byte is evicted
    have hge : cap ≤ seen.length := by omega
    have hsne : seen ≠ [] := by intro h; rw [h] at hge; simp at hge; omega
    have hbl : r.buf.length = cap := by rw [hbuf, List.length_drop]; omega
    have h1 : r.buf.isEmpty = false := by
      cases hq : r.buf with
      | nil => rw [hq] at hbl; simp at hbl; omega
      | cons _ _ => rfl
    rw [h1]; simp only [Bool.false_eq_true, if_false]
    rw [if_pos hbl]
    cases hq : r.buf with
    | nil => rw [hq] at hbl; simp at hbl; omega
    | cons e tl =>
      simp only []
      have hdrop : seen.drop (seen.length - cap) = e :: tl := by rw [← hbuf, hq]
      have hdrop1 : seen.drop (seen.length - cap + 1) = tl := by
        have := congrArg List.tail hdrop
        rw [List.tail_drop] at this
        simpa using this
      have hk' : (seen ++ [b]).length - cap = seen.length - cap + 1 := by
        simp only [List.length_append, List.length_cons, List.length_nil]; omega
      have hev := evicted_ends_line seen b e tl (seen.length - cap) hdrop
      refine ⟨?_, ?_, ?_⟩
      · show tl ++ [b] = _
        rw [hk', List.drop_append_of_le_length (by omega), hdrop1]
      · intro _
        show r.startOffset + 1 = _
        rw [hoff hsne, hk']
      · show (if decide (e = 0x0A ∨ (e = 0x0D ∧ tl.head?.getD b ≠ 0x0A)) = true then satAdd r.startLine 1
            else r.startLine) = _
        rw [hev, hk', linesEndedBefore_succ, linesEndedBefore_append_left seen [b] _ (by omega), hline]
        have hcnt := linesEndedBefore_le seen (seen.length - cap)
        by_cases he : endsLineAt (seen ++ [b]) (seen.length - cap) = true
        · rw [if_pos he, if_pos he, satAdd_eq _ _ (by omega)]; omega
        · rw [if_neg he, if_neg he]; rfl

theorem ringPush_inv (cap : Nat) (hcap : 1 ≤ cap) (bs seen : List Nat) (r : Ring)
    (hlen : seen.length + bs.length + 2 ≤ usizeMax) (h : RingInv cap seen r) :
    RingInv cap (seen ++ bs) (ringPush cap r seen.length bs) := by
  induction bs generalizing seen r with
  | nil => rw [List.append_nil]; exact h
  | cons b bs ih =>
    rw [ringPush]
    have h1 := ringPush1_inv cap hcap seen r b (by simp at hlen; omega) h
    have := ih (seen ++ [b]) (ringPush1 cap r seen.length b) (by simp at hlen ⊢; omega) h1
    simp only [List.length_append, List.length_cons, List.length_nil, Nat.zero_add, List.append_assoc,
      List.cons_append, List.nil_append] at this
    exact this

/-- after reading `bs` from a fresh reader the ring holds the last `cap` bytes of `bs`, knows their
absolute offset, and its line number is the number of lines ended within the evicted bytes + 1 -/
theorem ringPush_spec (cap : Nat) (hcap : 1 ≤ cap) (bs : List Nat) (hlen : bs.length + 2 ≤ usizeMax) :
    RingInv cap bs (ringPush cap ⟨[], 0, 1, true⟩ 0 bs) := by
  have h0 : RingInv cap [] ⟨[], 0, 1, true⟩ := ⟨by simp, fun h => absurd rfl h, by simp⟩
  have := ringPush_inv cap hcap bs [] ⟨[], 0, 1, true⟩ (by simpa using hlen) h0
  simpa using this

/-- `ring_starts_line`: nothing has been evicted, or the last evicted byte ended a line -/
def RingStarts (cap : Nat) (seen : List Nat) (r : Ring) : Prop :=
  r.startsLine = decide (seen.length ≤ cap ∨ endsLineAt seen (seen.length - cap - 1) = true)

theorem ringPush1_starts (cap : Nat) (hcap : 1 ≤ cap) (seen : List Nat) (r : Ring) (b : Nat)
    (h : RingInv cap seen r) (hs : RingStarts cap seen r) :
    RingStarts cap (seen ++ [b]) (ringPush1 cap r seen.length b) := by
  obtain ⟨hbuf, _, _⟩ := h
  unfold RingStarts at *
  unfold ringPush1
  simp only []
  by_cases hfull : seen.length < cap
  · have hk : seen.length - cap = 0 := by omega
    rw [hk, List.drop_zero] at hbuf
    have hne : ¬ ((if r.buf.isEmpty = true then { r with startOffset := seen.length } else r).buf.length = cap) := by
      split <;> (simp only [hbuf]; omega)
    rw [if_neg hne]
    have h1 : (seen ++ [b]).length ≤ cap := by simp only [List.length_append, List.length_cons, List.length_nil]; omega
    have h2 : seen.length ≤ cap := by omega
    have hs' : r.startsLine = true := by rw [hs]; simp [h2]
    have h1' : seen.length + 1 ≤ cap := by omega
    split <;> simp [hs', h1']
  · have hge : cap ≤ seen.length := by omega
    have hbl : r.buf.length = cap := by rw [hbuf, List.length_drop]; omega
    have h1 : r.buf.isEmpty = false := by
      cases hq : r.buf with
      | nil => rw [hq] at hbl; simp at hbl; omega
      | cons _ _ => rfl
    rw [h1]; simp only [Bool.false_eq_true, if_false]
    rw [if_pos hbl]
    cases hq : r.buf with
    | nil => rw [hq] at hbl; simp at hbl; omega
    | cons e tl =>
      simp only []
      have hdrop : seen.drop (seen.length - cap) = e :: tl := by rw [← hbuf, hq]
      have hev := evicted_ends_line seen b e tl (seen.length - cap) hdrop
      have hidx : (seen ++ [b]).length - cap - 1 = seen.length - cap := by
        simp only [List.length_append, List.length_cons, List.length_nil]; omega
      have hnle : ¬ (seen ++ [b]).length ≤ cap := by
        simp only [List.length_append, List.length_cons, List.length_nil]; omega
      show decide (e = 0x0A ∨ (e = 0x0D ∧ tl.head?.getD b ≠ 0x0A)) = _
      rw [hev, hidx]
      have hnle' : ¬ seen.length + 1 ≤ cap := by omega
      simp [hnle']

theorem ringPush_starts (cap : Nat) (hcap : 1 ≤ cap) (bs seen : List Nat) (r : Ring)
    (hlen : seen.length + bs.length + 2 ≤ usizeMax) (h : RingInv cap seen r) (hs : RingStarts cap seen r) :
    RingStarts cap (seen ++ bs) (ringPush cap r seen.length bs) := by
  induction bs generalizing seen r with
  | nil => rw [List.append_nil]; exact hs
  | cons b bs ih =>
    rw [ringPush]
    have h1 := ringPush1_inv cap hcap seen r b (by simp at hlen; omega) h
    have h2 := ringPush1_starts cap hcap seen r b h hs
    have := ih (seen ++ [b]) (ringPush1 cap r seen.length b) (by simp at hlen ⊢; omega) h1 h2
    simp only [List.length_append, List.length_cons, List.length_nil, Nat.zero_add, List.append_assoc,
      List.cons_append, List.nil_append] at this
    exact this

theorem ringPush_starts_spec (cap : Nat) (hcap : 1 ≤ cap) (bs : List Nat) (hlen : bs.length + 2 ≤ usizeMax) :
    RingStarts cap bs (ringPush cap ⟨[], 0, 1, true⟩ 0 bs) := by
  have h0 : RingInv cap [] ⟨[], 0, 1, true⟩ := ⟨by simp, fun h => absurd rfl h, by simp⟩
  have hs0 : RingStarts cap [] ⟨[], 0, 1, true⟩ := by simp [RingStarts]
  have := ringPush_starts cap hcap bs [] ⟨[], 0, 1, true⟩ (by simpa using hlen) h0 hs0
  simpa using this

end SaphyrVerif.Lemmas.C17
