import SaphyrVerif.Lemmas.C05_Weak3
/-!
Weak cursor invariant, part 4: the simultaneous induction for the functions that depend on `deser`.
-/
namespace SaphyrVerif.Lemmas.C05
open SaphyrVerif SaphyrVerif.Scalars SaphyrVerif.Pump SaphyrVerif.De SaphyrVerif.Spec
set_option linter.unusedSimpArgs false
variable {buf : List Ev} {ref : Option Loc}

/-! ### the map-access loop -/

/-- whatever `nextKey` returned: started while flushing, the cursor did not move; otherwise at most one
unmatched end was consumed -/
theorem NKPost.loop_exit {i : Nat} {fl : Bool} {step : KeyStep} {m' : MA} {c' : Cur}
    (h : NKPost buf ref i fl step m' c') :
    (fl = true → c' = .replay buf i ref) ∧ Stays buf ref i 1 c' := by
  obtain ⟨j, hc, hij, hA, hB⟩ := h
  cases fl with
  | true =>
    obtain ⟨rfl, -⟩ := hA rfl
    exact ⟨fun _ => hc, hc ▸ Stays.refl (by omega)⟩
  | false =>
    refine ⟨fun h => (by cases h), j, hc, hij, ?_⟩
    rcases hB rfl with ⟨-, ha⟩ | ⟨ha, -⟩
    · exact ha.mono (by omega)
    · exact ha

/-- one round of the loop: a delivered key, its value, the rest of the loop -/
theorem NKPost.loop_key {i : Nat} {fl : Bool} {k : Val} {fp : FP} {m1 m2 : MA} {c1 c2 c' : Cur}
    (h : NKPost buf ref i fl (.key k fp) m1 c1)
    (hv : ∀ j, c1 = .replay buf j ref →
      Stays buf ref j 0 c2 ∧ m2.flushingMerges = m1.flushingMerges ∧
        (m1.pendingValue.isSome = true → c2 = .replay buf j ref))
    (hr : ∀ j, c2 = .replay buf j ref → (m2.flushingMerges = true → c' = .replay buf j ref) ∧ Stays buf ref j 1 c') :
    (fl = true → c' = .replay buf i ref) ∧ Stays buf ref i 1 c' := by
  obtain ⟨j, hc, hij, hA, hB⟩ := h
  obtain ⟨hs, hm, hp⟩ := hv j hc
  cases fl with
  | true =>
    obtain ⟨rfl, hd⟩ := hA rfl
    rcases hd with hd | ⟨hf, hpv⟩
    · cases hd
    · have h2 := hp hpv
      obtain ⟨hr1, -⟩ := hr j h2
      have := hr1 (hm.trans hf)
      exact ⟨fun _ => this, this ▸ Stays.refl (by omega)⟩
  | false =>
    refine ⟨fun h => (by cases h), ?_⟩
    rcases hB rfl with ⟨hf, ha⟩ | ⟨ha, hd⟩
    · have h1 : Stays buf ref i 0 c1 := ⟨j, hc, hij, ha.mono (by omega)⟩
      refine h1.trans (k' := 1) (fun j' hj' => ?_) (by omega)
      cases hc.symm.trans hj'
      exact hs.trans (fun j2 hj2 => (hr j2 hj2).2) (by omega)
    · rcases hd with hd | ⟨hf, hpv⟩
      · cases hd
      · have h2 := hp hpv
        obtain ⟨hr1, -⟩ := hr j h2
        have := hr1 (hm.trans hf)
        exact ⟨j, this, hij, ha⟩

/-! ### the induction hypothesis -/

structure WeakAll (buf : List Ev) (ref : Option Loc) (fuel : Nat) : Prop where
  deser : ∀ {cfg : Cfg} {ty : Ty} {ik km : Bool} {i : Nat} {v : Val} {c' : Cur},
    deser fuel cfg ty ik km (.replay buf i ref) = .ok v c' → Stays buf ref i 0 c'
  deserSeqLike : ∀ {cfg : Cfg} {shape : Ty ⊕ List Ty} {i : Nat} {v : Val} {c' : Cur},
    deserSeqLike fuel cfg shape (.replay buf i ref) = .ok v c' → Stays buf ref i 0 c'
  seqElems : ∀ {cfg : Cfg} {t : Ty} {i : Nat} {acc vs : List Val} {c' : Cur},
    seqElems fuel cfg t (.replay buf i ref) acc = .ok vs c' → Stays buf ref i 0 c'
  tupleElems : ∀ {cfg : Cfg} {ts : List Ty} {i : Nat} {acc vs : List Val} {c' : Cur},
    tupleElems fuel cfg ts (.replay buf i ref) acc = .ok vs c' → Stays buf ref i 0 c'
  deserMapLike : ∀ {cfg : Cfg} {shape : (Ty × Ty) ⊕ (List (String × Ty) × Bool)} {i : Nat} {v : Val} {c' : Cur},
    deserMapLike fuel cfg shape (.replay buf i ref) = .ok v c' → Stays buf ref i 0 c'
  mapEntries : ∀ {cfg : Cfg} {kt vt : Ty} {i : Nat} {m : MA} {acc es : List (Val × Val)} {c' : Cur},
    mapEntries fuel cfg kt vt (.replay buf i ref) m acc = .ok es c' →
    (m.flushingMerges = true → c' = .replay buf i ref) ∧ Stays buf ref i 1 c'
  structEntries : ∀ {cfg : Cfg} {fields : List (String × Ty)} {deny : Bool} {i : Nat} {m : MA}
    {acc got : List (String × Val)} {c' : Cur},
    structEntries fuel cfg fields deny (.replay buf i ref) m acc = .ok got c' →
    (m.flushingMerges = true → c' = .replay buf i ref) ∧ Stays buf ref i 1 c'
  nextValue : ∀ {cfg : Cfg} {vt : Ty} {i : Nat} {m m' : MA} {v : Val} {c' : Cur},
    nextValue fuel cfg vt (.replay buf i ref) m = .ok (v, m') c' →
    Stays buf ref i 0 c' ∧ m'.flushingMerges = m.flushingMerges ∧
      (m.pendingValue.isSome = true → c' = .replay buf i ref)
  deserEnum : ∀ {cfg : Cfg} {name : String} {variants : List (String × VTy)} {i : Nat} {v : Val} {c' : Cur},
    deserEnum fuel cfg name variants (.replay buf i ref) = .ok v c' → Stays buf ref i 0 c'
  variantPayload : ∀ {cfg : Cfg} {variants : List (String × VTy)} {vname : List Char} {vloc : Loc}
    {mapMode tagged : Bool} {i : Nat} {v : Val} {c' : Cur},
    variantPayload fuel cfg variants vname vloc mapMode tagged (.replay buf i ref) = .ok v c' →
    Stays buf ref i (if mapMode then 1 else 0) c'

section step
variable {fuel : Nat} (ih : WeakAll buf ref fuel) {cfg : Cfg} {i : Nat} {c' : Cur}
include ih

theorem nextValue_succ {vt : Ty} {m m' : MA} {v : Val}
    (h : nextValue (fuel + 1) cfg vt (.replay buf i ref) m = .ok (v, m') c') :
    Stays buf ref i 0 c' ∧ m'.flushingMerges = m.flushingMerges ∧
      (m.pendingValue.isSome = true → c' = .replay buf i ref) := by
  rw [nextValue] at h
  split at h
  · contradiction
  dsimp only at h
  split at h
  · repeat' (first
      | contradiction
      | (cases h; exact ⟨Stays.refl (Int.le_refl 0), rfl, fun _ => rfl⟩)
      | split at h)
  · rename_i hpv
    simp only [peek_replay] at h
    split at h
    · contradiction
    · rename_i hq
      cases h
      exact ⟨ih.deser hq, rfl, fun hs => by simp [hpv] at hs⟩

theorem mapEntries_succ {kt vt : Ty} {m : MA} {acc es : List (Val × Val)}
    (h : mapEntries (fuel + 1) cfg kt vt (.replay buf i ref) m acc = .ok es c') :
    (m.flushingMerges = true → c' = .replay buf i ref) ∧ Stays buf ref i 1 c' := by
  rw [mapEntries] at h
  split at h
  · contradiction
  · rename_i hq
    cases h
    exact (nextKey_post fuel hq).loop_exit
  · rename_i hq
    split at h
    · contradiction
    · rename_i hq2
      exact (nextKey_post fuel hq).loop_key (fun j hj => by subst hj; exact ih.nextValue hq2)
        (fun j hj => by subst hj; exact ih.mapEntries h)

theorem structEntries_succ {fields : List (String × Ty)} {deny : Bool} {m : MA} {acc got : List (String × Val)}
    (h : structEntries (fuel + 1) cfg fields deny (.replay buf i ref) m acc = .ok got c') :
    (m.flushingMerges = true → c' = .replay buf i ref) ∧ Stays buf ref i 1 c' := by
  rw [structEntries] at h
  split at h
  · contradiction
  · rename_i hq
    cases h
    exact (nextKey_post fuel hq).loop_exit
  · rename_i hq
    dsimp only at h
    repeat' (first | contradiction | split at h)
    all_goals
      rename_i hq2
      exact (nextKey_post fuel hq).loop_key (fun j hj => by subst hj; exact ih.nextValue hq2)
        (fun j hj => by subst hj; exact ih.structEntries h)
  · contradiction


theorem seqElems_succ {t : Ty} {acc vs : List Val}
    (h : seqElems (fuel + 1) cfg t (.replay buf i ref) acc = .ok vs c') : Stays buf ref i 0 c' := by
  rw [seqElems] at h
  weak_ev
  all_goals try weak_leaf
  all_goals
    split at h
    · contradiction
    · rename_i hq
      exact (ih.deser hq).trans (fun j hj => by subst hj; exact ih.seqElems h) (by omega)

theorem tupleElems_succ {ts : List Ty} {acc vs : List Val}
    (h : tupleElems (fuel + 1) cfg ts (.replay buf i ref) acc = .ok vs c') : Stays buf ref i 0 c' := by
  cases ts with
  | nil => rw [tupleElems] at h; weak_leaf
  | cons t ts =>
    rw [tupleElems] at h
    weak_ev
    all_goals try weak_leaf
    all_goals
      split at h
      · contradiction
      · rename_i hq
        exact (ih.deser hq).trans (fun j hj => by subst hj; exact ih.tupleElems h) (by omega)

theorem deserMapLike_succ {shape : (Ty × Ty) ⊕ (List (String × Ty) × Bool)} {v : Val}
    (h : deserMapLike (fuel + 1) cfg shape (.replay buf i ref) = .ok v c') : Stays buf ref i 0 c' := by
  rw [deserMapLike] at h
  weak_ev
  all_goals try simp only [Bool.false_eq_true, ↓reduceIte] at h
  all_goals try weak_leaf
  · -- null-like scalar
    split at h
    · split at h
      · weak_leaf
      · cases structFinish_weak h
        exact Stays.one hb (by simp [Ev.delta]) (by omega)
    · contradiction
  · split at h
    · split at h
      · contradiction
      · rename_i hq
        cases h
        exact Stays.step hb (ih.mapEntries hq).2 (by simp only [Ev.delta]; omega) (by omega)
    · split at h
      · contradiction
      · rename_i hq
        refine Stays.step hb (k' := 1) ?_ (by simp only [Ev.delta]; omega) (by omega)
        refine (ih.structEntries hq).2.trans (k' := 0) (fun j hj => ?_) (by omega)
        subst hj
        cases structFinish_weak h
        exact Stays.refl (by omega)

omit ih in
theorem seqTail_weak {vs : List Val} {v : Val}
    (h : (match Cur.peek (.replay buf i ref) with
      | .err e c => R.err e c
      | .ok (some (.seqEnd _)) c =>
        match c.next with
        | .err e c => .err e c
        | .ok _ c => .ok (Val.seq vs) c
      | .ok _ c => .ok (.seq vs) c) = .ok v c') : Stays buf ref i 1 c' := by
  weak_ev <;> weak_leaf

theorem deserSeqLike_succ {shape : Ty ⊕ List Ty} {v : Val}
    (h : deserSeqLike (fuel + 1) cfg shape (.replay buf i ref) = .ok v c') : Stays buf ref i 0 c' := by
  rw [deserSeqLike] at h
  weak_ev
  all_goals try simp only [Bool.false_eq_true, ↓reduceIte] at h
  all_goals try weak_leaf
  · cases shape <;> weak_splits
    all_goals
      rename_i heq; subst h; dsimp only at heq
      repeat' (first
        | (cases heq; done)
        | (cases heq; exact Stays.one hb (by simp [Ev.delta]) (by omega))
        | (injection heq with heq; cases byteSeqVisit_weak heq; exact Stays.one hb (by simp [Ev.delta]) (by omega))
        | split at heq)
  · refine Stays.step hb (k' := 1) ?_ (by simp only [Ev.delta]; omega) (by omega)
    cases shape <;> dsimp only at h <;> split at h
    · contradiction
    · rename_i hq
      exact (ih.seqElems hq).trans (fun j hj => by subst hj; exact seqTail_weak h) (by omega)
    · contradiction
    · rename_i hq
      exact (ih.tupleElems hq).trans (fun j hj => by subst hj; exact seqTail_weak h) (by omega)

omit ih in
theorem optKeyTail_weak {v : Val}
    (h : (match Cur.next (.replay buf i ref) with
      | .err e c => R.err e c
      | .ok none c => .err (eofErr c) c
      | .ok (some (.mapEnd _)) c => .ok Val.none c
      | .ok (some other) c => .err ⟨"Unexpected", other.loc, 0⟩ c) = .ok v c') : Stays buf ref i 1 c' := by
  weak_ev <;> weak_leaf

theorem deser_succ {ty : Ty} {ik km : Bool} {v : Val}
    (h : deser (fuel + 1) cfg ty ik km (.replay buf i ref) = .ok v c') : Stays buf ref i 0 c' := by
  cases ty <;> rw [deser] at h
  case bool => exact deserScalarTyped_weak h
  case int => exact deserScalarTyped_weak h
  case float => exact deserScalarTyped_weak h
  case char => exact deserScalarTyped_weak h
  case string => exact deserString_weak h
  case seq => exact ih.deserSeqLike h
  case tuple => exact ih.deserSeqLike h
  case map => exact ih.deserMapLike h
  case struct => exact ih.deserMapLike h
  case enum => exact ih.deserEnum h
  case newtype => exact ih.deser h
  case unit => weak_ev <;> weak_splits
  case bytes =>
    weak_ev
    all_goals try weak_leaf
    · weak_splits
    · exact Stays.step hb (bytesLoop_weak' fuel h) (by simp only [Ev.delta]; omega) (by omega)
  case any =>
    weak_ev
    all_goals try weak_leaf
    · exact deserAnyScalar_weak ⟨_, hb, rfl⟩ h
    · exact ih.deserSeqLike h
    · exact ih.deserMapLike h
  case option =>
    split at h
    · weak_ev
      all_goals try weak_leaf
      exact Stays.step hb (optKeyTail_weak h) (by simp only [Ev.delta]; omega) (by omega)
    · weak_ev
      all_goals repeat' (first | weak_leaf | split at h)
      all_goals
        rename_i hq
        cases h
        exact ih.deser hq

theorem enumMapTail_weak {variants : List (String × VTy)} {v : Val}
    (h : (match Cur.next (.replay buf i ref) with
      | .err e c => R.err e c
      | .ok none c => .err (eofErr c) c
      | .ok (some (.scalar v tag _ st _ l)) c =>
        if cfg.noSchema && tag != tagString && maybeNotString v st then .err ⟨"QuotingRequired", l, 0⟩ c
        else variantPayload fuel cfg variants v l true false c
      | .ok (some other) c => .err ⟨"ExpectedStringKeyForExternallyTaggedEnum", other.loc, 0⟩ c) = .ok v c') :
    Stays buf ref i 1 c' := by
  weak_ev
  all_goals try weak_leaf
  split at h
  · contradiction
  · have := ih.variantPayload h
    simp only [↓reduceIte] at this
    exact Stays.step hb this (by simp only [Ev.delta]; omega) (by omega)

theorem deserEnum_succ {name : String} {variants : List (String × VTy)} {v : Val}
    (h : deserEnum (fuel + 1) cfg name variants (.replay buf i ref) = .ok v c') : Stays buf ref i 0 c' := by
  rw [deserEnum] at h
  weak_ev
  all_goals try weak_leaf
  · repeat' (first | weak_leaf | split at h)
    all_goals
      have := ih.variantPayload h
      simp only [Bool.false_eq_true, ↓reduceIte] at this
      exact Stays.step hb this (by simp only [Ev.delta]; omega) (by omega)
  · split at h
    · split at h
      · split at h
        · contradiction
        · rename_i hq
          split at h
          · contradiction
          · cases h
            exact Stays.step hb (collectTaggedSeq_weak fuel hq) (by simp only [Ev.delta]; omega) (by omega)
      · contradiction
    · contradiction
  · exact Stays.step hb (enumMapTail_weak ih h) (by simp only [Ev.delta]; omega) (by omega)

omit ih in
theorem expectMapEnd_weak {mapMode tagged : Bool} {w v : Val}
    (h : (if tagged = true then
            match Cur.peek (.replay buf i ref) with
            | .err e c => R.err e c
            | .ok none c => .ok w c
            | .ok (some ev) c => .err ⟨"Unexpected", ev.loc, 0⟩ c
          else if (!mapMode) = true then .ok w (.replay buf i ref)
          else
            match Cur.next (.replay buf i ref) with
            | .err e c => .err e c
            | .ok none c => .err (eofErr c) c
            | .ok (some (.mapEnd _)) c => .ok w c
            | .ok (some other) c => .err ⟨"ExpectedMappingEndAfterEnumVariantValue", other.loc, 0⟩ c) = .ok v c') :
    Stays buf ref i (if mapMode then 1 else 0) c' := by
  cases mapMode <;> cases tagged <;>
    simp only [Bool.false_eq_true, Bool.not_true, Bool.not_false, ↓reduceIte] at h ⊢ <;>
    weak_ev <;> weak_leaf

theorem variantPayload_succ {variants : List (String × VTy)} {vname : List Char} {vloc : Loc}
    {mapMode tagged : Bool} {v : Val}
    (h : variantPayload (fuel + 1) cfg variants vname vloc mapMode tagged (.replay buf i ref) = .ok v c') :
    Stays buf ref i (if mapMode then 1 else 0) c' := by
  rw [variantPayload] at h
  split at h
  · contradiction
  dsimp only at h
  have hk0 : (0 : Int) ≤ if mapMode = true then 1 else 0 := by split <;> omega
  split at h
  · -- unit
    split at h
    · rename_i hm
      have hk : (if mapMode = true then (1 : Int) else 0) = 1 := by simp [hm]
      rw [hk]
      weak_ev
      all_goals try weak_leaf
      split at h
      · have := expectMapEnd_weak h
        rw [hk] at this
        exact Stays.step hb this (by simp only [Ev.delta]; omega) (by omega)
      · contradiction
    · cases h; exact Stays.refl hk0
  · -- newtype
    split at h
    · split at h
      · contradiction
      · cases h; exact Stays.refl hk0
    · simp only [peek_replay] at h
      split at h
      · contradiction
      · rename_i hq
        exact (ih.deser hq).trans (fun j hj => by subst hj; exact expectMapEnd_weak h) (by omega)
  · -- tuple
    split at h
    · split at h
      · contradiction
      · cases h; exact Stays.refl hk0
    · split at h
      · contradiction
      · rename_i hq
        exact (ih.deserSeqLike hq).trans (fun j hj => by subst hj; exact expectMapEnd_weak h) (by omega)
  · -- struct
    split at h
    · split at h
      · contradiction
      · cases h; exact Stays.refl hk0
    · split at h
      · contradiction
      · rename_i hq
        exact (ih.deserMapLike hq).trans (fun j hj => by subst hj; exact expectMapEnd_weak h) (by omega)

end step

theorem weakAll (buf : List Ev) (ref : Option Loc) (fuel : Nat) : WeakAll buf ref fuel := by
  induction fuel with
  | zero =>
    constructor
    · intro cfg ty ik km i v c' h; rw [deser] at h; contradiction
    · intro cfg shape i v c' h; rw [deserSeqLike] at h; contradiction
    · intro cfg t i acc vs c' h; rw [seqElems] at h; contradiction
    · intro cfg ts i acc vs c' h; rw [tupleElems] at h; contradiction
    · intro cfg shape i v c' h; rw [deserMapLike] at h; contradiction
    · intro cfg kt vt i m acc es c' h; rw [mapEntries] at h; contradiction
    · intro cfg fields deny i m acc got c' h; rw [structEntries] at h; contradiction
    · intro cfg vt i m m' v c' h; rw [nextValue] at h; contradiction
    · intro cfg name variants i v c' h; rw [deserEnum] at h; contradiction
    · intro cfg variants vname vloc mapMode tagged i v c' h; rw [variantPayload] at h; contradiction
  | succ fuel ih =>
    exact
      { deser := deser_succ ih
        deserSeqLike := deserSeqLike_succ ih
        seqElems := seqElems_succ ih
        tupleElems := tupleElems_succ ih
        deserMapLike := deserMapLike_succ ih
        mapEntries := mapEntries_succ ih
        structEntries := structEntries_succ ih
        nextValue := nextValue_succ ih
        deserEnum := deserEnum_succ ih
        variantPayload := variantPayload_succ ih }

end SaphyrVerif.Lemmas.C05
