import SaphyrVerif.Model.F64
/-!
Facts about the IEEE-754 model `Model/F64.lean` used by C19:
* `ilog2` is the floor of the binary logarithm of a positive rational,
* `round` returns a well-formed value,
* `round` is exact on representable values (`round_exact`),
* hence multiplication by `±1.0` is the identity / negation on well-formed values
  (`mul_one`, `mul_neg_one`) — the `sign * v` of the evaluator's `unary`.
-/
set_option linter.unusedSimpArgs false
namespace SaphyrVerif.Lemmas.C19F
open SaphyrVerif.F64

theorem two_pow_pos (n : Nat) : 0 < 2 ^ n := Nat.two_pow_pos n

/-- `2^j ≤ num/den`, the comparison `ilog2` and `round` perform through `scale`. -/
def P (num den : Nat) (j : Int) : Prop := (scale num den (-j)).2 ≤ (scale num den (-j)).1

/-- The comparison in a uniform shape (both sides shifted by `2^N`, `N + j ≥ 0`). -/
theorem P_iff (num den : Nat) (j : Int) (N : Nat) (hN : 0 ≤ (N : Int) + j) :
    P num den j ↔ den * 2 ^ ((N : Int) + j).toNat ≤ num * 2 ^ N := by
  unfold P scale
  by_cases hj : 0 ≤ -j
  · simp only [hj, ↓reduceIte]
    obtain ⟨t, ht⟩ : ∃ t : Nat, j = -(t : Int) := ⟨(-j).toNat, by omega⟩
    subst ht
    have h1 : (- -(t : Int)).toNat = t := by omega
    have h2 : ((N : Int) + -(t : Int)).toNat = N - t := by omega
    have h3 : t ≤ N := by omega
    rw [h1, h2]
    have h4 : 2 ^ N = 2 ^ t * 2 ^ (N - t) := by rw [← Nat.pow_add]; congr 1; omega
    rw [h4, ← Nat.mul_assoc]
    exact (Nat.mul_le_mul_right_iff (two_pow_pos _)).symm
  · simp only [hj, ↓reduceIte]
    obtain ⟨t, ht⟩ : ∃ t : Nat, j = (t : Int) := ⟨j.toNat, by omega⟩
    subst ht
    have h1 : (- -(t : Int)).toNat = t := by omega
    have h2 : ((N : Int) + (t : Int)).toNat = t + N := by omega
    rw [h1, h2, Nat.pow_add, ← Nat.mul_assoc]
    exact (Nat.mul_le_mul_right_iff (two_pow_pos _)).symm

theorem P_anti {num den : Nat} {j k : Int} (hjk : j ≤ k) (h : P num den k) : P num den j := by
  obtain ⟨N, hN⟩ : ∃ N : Nat, 0 ≤ (N : Int) + j := ⟨(-j).toNat, by omega⟩
  have hNk : 0 ≤ (N : Int) + k := by omega
  rw [P_iff num den j N hN]
  rw [P_iff num den k N hNk] at h
  refine Nat.le_trans (Nat.mul_le_mul_left den ?_) h
  exact Nat.pow_le_pow_right (by decide) (by omega)

/-- `⌊log2 (num/den)⌋`: `2^k ≤ num/den < 2^(k+1)`. -/
theorem ilog2_spec (num den : Nat) (hn : num ≠ 0) (hd : den ≠ 0) :
    P num den (ilog2 num den) ∧ ¬ P num den (ilog2 num den + 1) := by
  unfold ilog2
  simp only []
  have ha1 : 2 ^ num.log2 ≤ num := Nat.log2_self_le hn
  have ha2 : num < 2 ^ (num.log2 + 1) := Nat.lt_log2_self
  have hb1 : 2 ^ den.log2 ≤ den := Nat.log2_self_le hd
  have hb2 : den < 2 ^ (den.log2 + 1) := Nat.lt_log2_self
  generalize num.log2 = a at *
  generalize den.log2 = b at *
  -- N = b + 2 makes every shifted exponent non-negative
  have up : ¬ P num den ((a : Int) - b + 1) := by
    rw [P_iff num den _ (b + 2) (by omega)]
    have : (((b + 2 : Nat) : Int) + ((a : Int) - b + 1)).toNat = a + 3 := by omega
    rw [this]
    intro h
    -- den * 2^(a+3) ≤ num * 2^(b+2) < 2^(a+1) * 2^(b+2) ≤ ... but den ≥ 2^b
    have h1 : 2 ^ b * 2 ^ (a + 3) ≤ den * 2 ^ (a + 3) := Nat.mul_le_mul_right _ hb1
    have h2 : num * 2 ^ (b + 2) < 2 ^ (a + 1) * 2 ^ (b + 2) := Nat.mul_lt_mul_of_pos_right ha2 (two_pow_pos _)
    have h3 : 2 ^ b * 2 ^ (a + 3) = 2 ^ (a + 1) * 2 ^ (b + 2) := by
      rw [← Nat.pow_add, ← Nat.pow_add]; congr 1; omega
    omega
  have low : P num den ((a : Int) - b - 1) := by
    rw [P_iff num den _ (b + 2) (by omega)]
    have : (((b + 2 : Nat) : Int) + ((a : Int) - b - 1)).toNat = a + 1 := by omega
    rw [this]
    have h1 : den * 2 ^ (a + 1) ≤ 2 ^ (b + 1) * 2 ^ (a + 1) := Nat.mul_le_mul_right _ (Nat.le_of_lt hb2)
    have h2 : 2 ^ a * 2 ^ (b + 2) ≤ num * 2 ^ (b + 2) := Nat.mul_le_mul_right _ ha1
    have h3 : 2 ^ (b + 1) * 2 ^ (a + 1) = 2 ^ a * 2 ^ (b + 2) := by
      rw [← Nat.pow_add, ← Nat.pow_add]; congr 1; omega
    omega
  by_cases hp : P num den ((a : Int) - b)
  · have : (scale num den (-((a : Int) - b))).2 ≤ (scale num den (-((a : Int) - b))).1 := hp
    rw [if_pos this]
    exact ⟨hp, up⟩
  · have : ¬ (scale num den (-((a : Int) - b))).2 ≤ (scale num den (-((a : Int) - b))).1 := hp
    rw [if_neg this]
    refine ⟨low, ?_⟩
    have : (a : Int) - b - 1 + 1 = (a : Int) - b := by omega
    rw [this]
    exact hp

/-- uniqueness of the floor of the logarithm -/
theorem ilog2_unique (num den : Nat) (hn : num ≠ 0) (hd : den ≠ 0) (k : Int)
    (h1 : P num den k) (h2 : ¬ P num den (k + 1)) : ilog2 num den = k := by
  obtain ⟨g1, g2⟩ := ilog2_spec num den hn hd
  by_cases hlt : ilog2 num den < k
  · exact absurd (P_anti (by omega) h1) g2
  · by_cases hgt : k < ilog2 num den
    · exact absurd (P_anti (by omega) g1) h2
    · omega

theorem roundEven_zero (q d : Nat) (hd : 0 < d) : roundEven q 0 d = q := by
  unfold roundEven
  simp [hd]

theorem roundEven_bounds (q r d : Nat) : q ≤ roundEven q r d ∧ roundEven q r d ≤ q + 1 := by
  unfold roundEven
  split
  · omega
  · split
    · omega
    · split <;> omega

/-- `roundEven q r d` (value `q + r/d`, `r < d`) goes down below the half, up above it, and to the even
neighbour on a tie. -/
theorem roundEven_nearest (q r d : Nat) :
    (roundEven q r d = q ∧ 2 * r ≤ d ∧ (2 * r = d → q % 2 = 0)) ∨
    (roundEven q r d = q + 1 ∧ d ≤ 2 * r ∧ (2 * r = d → (q + 1) % 2 = 0)) := by
  unfold roundEven
  by_cases h1 : 2 * r < d
  · rw [if_pos h1]
    exact Or.inl ⟨rfl, by omega, by omega⟩
  · rw [if_neg h1]
    by_cases h2 : d < 2 * r
    · rw [if_pos h2]
      exact Or.inr ⟨rfl, by omega, by omega⟩
    · rw [if_neg h2]
      by_cases h3 : (q % 2 == 0) = true
      · rw [if_pos h3]
        exact Or.inl ⟨rfl, by omega, fun _ => by simpa using h3⟩
      · rw [if_neg h3]
        have : q % 2 ≠ 0 := by simpa using h3
        exact Or.inr ⟨rfl, by omega, fun _ => by omega⟩

/-- Shape of a positive value `m · 2^e` handed to `round` as a fraction. -/
def Rep (num den m : Nat) (e : Int) : Prop := ∃ a b : Nat, num = m * 2 ^ a ∧ den = 2 ^ b ∧ (a : Int) - b = e

theorem log2_mul_pow (m a : Nat) (hm : m ≠ 0) : (m * 2 ^ a).log2 = m.log2 + a := by
  have hne : m * 2 ^ a ≠ 0 := Nat.mul_ne_zero hm (Nat.ne_of_gt (two_pow_pos a))
  rw [Nat.log2_eq_iff hne]
  constructor
  · rw [Nat.pow_add]; exact Nat.mul_le_mul_right _ (Nat.log2_self_le hm)
  · have : m.log2 + a + 1 = (m.log2 + 1) + a := by omega
    rw [this, Nat.pow_add]
    exact Nat.mul_lt_mul_of_pos_right Nat.lt_log2_self (two_pow_pos a)

theorem P_rep {num den m : Nat} {e : Int} (h : Rep num den m e) (j : Int) :
    P num den j ↔ ∃ N : Nat, 0 ≤ (N : Int) + j - e ∧ 2 ^ ((N : Int) + j - e).toNat ≤ m * 2 ^ N := by
  obtain ⟨a, b, rfl, rfl, he⟩ := h
  constructor
  · intro hp
    refine ⟨b + (-j).toNat + a, by omega, ?_⟩
    have hN : 0 ≤ ((b + (-j).toNat + a : Nat) : Int) + j := by omega
    rw [P_iff _ _ j _ hN] at hp
    -- 2^b * 2^(N+j) ≤ m * 2^a * 2^N
    generalize hNN : b + (-j).toNat + a = N at *
    have hpow : 2 ^ (((N : Int) + j - e).toNat) * 2 ^ a = 2 ^ b * 2 ^ ((N : Int) + j).toNat := by
      rw [← Nat.pow_add, ← Nat.pow_add]; congr 1; omega
    have : 2 ^ (((N : Int) + j - e).toNat) * 2 ^ a ≤ (m * 2 ^ N) * 2 ^ a := by
      rw [hpow]
      calc 2 ^ b * 2 ^ ((N : Int) + j).toNat ≤ m * 2 ^ a * 2 ^ N := hp
        _ = (m * 2 ^ N) * 2 ^ a := by ac_rfl
    exact Nat.le_of_mul_le_mul_right this (two_pow_pos a)
  · rintro ⟨N, h0, hle⟩
    -- use the shift N' = N + b
    have hN : 0 ≤ ((N + b : Nat) : Int) + j := by omega
    rw [P_iff _ _ j (N + b) hN]
    have hpow : 2 ^ b * 2 ^ (((N + b : Nat) : Int) + j).toNat = 2 ^ (((N : Int) + j - e).toNat) * (2 ^ a * 2 ^ b) := by
      rw [← Nat.pow_add, ← Nat.pow_add, ← Nat.pow_add]; congr 1; omega
    rw [hpow]
    calc 2 ^ (((N : Int) + j - e).toNat) * (2 ^ a * 2 ^ b) ≤ (m * 2 ^ N) * (2 ^ a * 2 ^ b) :=
          Nat.mul_le_mul_right _ hle
      _ = m * 2 ^ a * 2 ^ (N + b) := by
          rw [Nat.pow_add]
          ac_rfl

theorem ilog2_rep {num den m : Nat} {e : Int} (hm : m ≠ 0) (h : Rep num den m e) :
    ilog2 num den = (m.log2 : Int) + e := by
  have hnd : num ≠ 0 ∧ den ≠ 0 := by
    obtain ⟨a, b, rfl, rfl, _⟩ := h
    exact ⟨Nat.mul_ne_zero hm (Nat.ne_of_gt (two_pow_pos a)), Nat.ne_of_gt (two_pow_pos b)⟩
  apply ilog2_unique num den hnd.1 hnd.2
  · rw [P_rep h]
    refine ⟨0, by omega, ?_⟩
    have : ((0 : Nat) : Int) + ((m.log2 : Int) + e) - e = m.log2 := by omega
    rw [this]
    simpa using Nat.log2_self_le hm
  · rw [P_rep h]
    rintro ⟨N, h0, hle⟩
    have : ((N : Int) + ((m.log2 : Int) + e + 1) - e).toNat = (m.log2 + 1) + N := by omega
    rw [this, Nat.pow_add] at hle
    have := Nat.le_of_mul_le_mul_right hle (two_pow_pos N)
    exact absurd Nat.lt_log2_self (Nat.not_lt.mpr this)

/-- the quotient computed by `round` at the right exponent is exact -/
theorem scale_rep {num den m : Nat} {e : Int} (h : Rep num den m e) :
    (scale num den (-e)).1 / (scale num den (-e)).2 = m ∧ (scale num den (-e)).1 % (scale num den (-e)).2 = 0 ∧
      0 < (scale num den (-e)).2 := by
  obtain ⟨a, b, rfl, rfl, he⟩ := h
  unfold scale
  by_cases h0 : 0 ≤ -e
  · simp only [h0, ↓reduceIte]
    have : m * 2 ^ a * 2 ^ (-e).toNat = m * 2 ^ b := by
      rw [Nat.mul_assoc, ← Nat.pow_add]; congr 2; omega
    rw [this]
    exact ⟨Nat.mul_div_cancel _ (two_pow_pos b), Nat.mul_mod_left _ _, two_pow_pos b⟩
  · simp only [h0, ↓reduceIte]
    have : 2 ^ b * 2 ^ (- -e).toNat = 2 ^ a := by
      rw [← Nat.pow_add]; congr 1; omega
    rw [this]
    exact ⟨Nat.mul_div_cancel _ (two_pow_pos a), Nat.mul_mod_left _ _, two_pow_pos a⟩

/-- (T) `round` is the identity on representable values. -/
theorem round_exact (f : Fmt) (neg : Bool) {num den m : Nat} {e : Int} (hm : m ≠ 0)
    (hwf : WF f (.fin neg m e)) (h : Rep num den m e) : round f neg num den = .fin neg m e := by
  obtain ⟨hlt, hemin, hemax, hnorm⟩ := hwf
  have hnum : num ≠ 0 := by
    obtain ⟨a, b, rfl, rfl, _⟩ := h
    exact Nat.mul_ne_zero hm (Nat.ne_of_gt (two_pow_pos a))
  unfold round
  have hb : (num == 0) = false := by simpa using hnum
  simp only [hb, Bool.false_eq_true, ↓reduceIte]
  rw [ilog2_rep hm h]
  -- the chosen exponent is `e`
  have hL : m.log2 < f.prec := (Nat.log2_lt hm).2 hlt
  have hE : (if (m.log2 : Int) + e - ((f.prec - 1 : Nat) : Int) < f.emin then f.emin
      else (m.log2 : Int) + e - ((f.prec - 1 : Nat) : Int)) = e := by
    cases hnorm with
    | inl hn =>
      have : f.prec - 1 ≤ m.log2 := (Nat.le_log2 hm).2 hn
      split <;> omega
    | inr hs => split <;> omega
  rw [hE]
  obtain ⟨hq, hr, hd⟩ := scale_rep h
  rw [hq, hr, roundEven_zero _ _ hd]
  have hne : (m == 2 ^ f.prec) = false := by
    simp only [beq_eq_false_iff_ne, ne_eq]
    omega
  simp only [hne, Bool.false_eq_true, ↓reduceIte]
  have : ¬ f.emax < e := by omega
  simp [this]

theorem scale_zero_fst (den : Nat) (e : Int) : (scale 0 den e).1 = 0 := by
  unfold scale
  split <;> simp

theorem round_zero (f : Fmt) (neg : Bool) (den : Nat) : round f neg 0 den = .fin neg 0 f.emin := by
  simp [round]

/-- `2^(e+t) ≤ num/den` read off the fraction `scale num den (-e)` that `round` divides. -/
theorem P_scaled (num den : Nat) (e : Int) (t : Nat) :
    P num den (e + t) ↔ (scale num den (-e)).2 * 2 ^ t ≤ (scale num den (-e)).1 := by
  by_cases h : 0 ≤ -e
  · obtain ⟨u, hu⟩ : ∃ u : Nat, e = -(u : Int) := ⟨(-e).toNat, by omega⟩
    subst hu
    rw [P_iff num den _ u (by omega)]
    have : ((u : Int) + (-(u : Int) + (t : Int))).toNat = t := by omega
    rw [this]
    unfold scale
    simp only [h, ↓reduceIte]
    have : (- -(u : Int)).toNat = u := by omega
    rw [this]
  · obtain ⟨u, hu⟩ : ∃ u : Nat, e = (u : Int) := ⟨e.toNat, by omega⟩
    subst hu
    rw [P_iff num den _ 0 (by omega)]
    have : (((0 : Nat) : Int) + ((u : Int) + (t : Int))).toNat = u + t := by omega
    rw [this]
    unfold scale
    simp only [h, ↓reduceIte]
    have : (- -(u : Int)).toNat = u := by omega
    rw [this, Nat.pow_add, Nat.mul_assoc]
    simp

theorem scale_snd_pos (num den : Nat) (hd : den ≠ 0) (e : Int) : 0 < (scale num den e).2 := by
  unfold scale
  split
  · exact Nat.pos_of_ne_zero hd
  · exact Nat.mul_pos (Nat.pos_of_ne_zero hd) (two_pow_pos _)

/-- (T) `round` always returns a well-formed value of the format. -/
theorem round_wf (f : Fmt) (hp : 1 ≤ f.prec) (hee : f.emin ≤ f.emax) (neg : Bool) (num den : Nat) (hd : den ≠ 0) :
    WF f (round f neg num den) := by
  by_cases hn : num = 0
  · subst hn
    rw [round_zero]
    exact ⟨two_pow_pos _, Int.le_refl _, hee, Or.inr rfl⟩
  · obtain ⟨g1, g2⟩ := ilog2_spec num den hn hd
    unfold round
    have hb : (num == 0) = false := by simpa using hn
    simp only [hb, Bool.false_eq_true, ↓reduceIte]
    generalize hk : ilog2 num den = k at *
    generalize he : (if k - ((f.prec - 1 : Nat) : Int) < f.emin then f.emin else k - ((f.prec - 1 : Nat) : Int)) = e
    have he1 : f.emin ≤ e := by rw [← he]; split <;> omega
    have he2 : k - ((f.prec - 1 : Nat) : Int) ≤ e := by rw [← he]; split <;> omega
    have he3 : e = f.emin ∨ e = k - ((f.prec - 1 : Nat) : Int) := by rw [← he]; split <;> omega
    have hdpos := scale_snd_pos num den hd (-e)
    generalize hn' : (scale num den (-e)).1 = n at *
    generalize hd' : (scale num den (-e)).2 = d at *
    -- quotient below 2^prec
    have hq_lt : n / d < 2 ^ f.prec := by
      have hnp : ¬ P num den (e + (f.prec : Nat)) := fun h => g2 (P_anti (by omega) h)
      rw [P_scaled, hn', hd'] at hnp
      rw [Nat.div_lt_iff_lt_mul hdpos, Nat.mul_comm]
      omega
    have hq_ge : e = k - ((f.prec - 1 : Nat) : Int) → 2 ^ (f.prec - 1) ≤ n / d := by
      intro hek
      have : P num den (e + ((f.prec - 1 : Nat) : Int)) := by
        have : e + ((f.prec - 1 : Nat) : Int) = k := by omega
        rw [this]; exact g1
      rw [P_scaled, hn', hd'] at this
      rw [Nat.le_div_iff_mul_le hdpos, Nat.mul_comm]
      exact this
    obtain ⟨hm1, hm2⟩ := roundEven_bounds (n / d) (n % d) d
    generalize roundEven (n / d) (n % d) d = m at *
    by_cases hmp : m = 2 ^ f.prec
    · have hb2 : (m == 2 ^ f.prec) = true := by simpa using hmp
      simp only [hb2, ↓reduceIte]
      split
      · trivial
      · rename_i hle
        refine ⟨?_, by omega, by omega, Or.inl (Nat.le_refl _)⟩
        exact Nat.pow_lt_pow_right (by decide) (by omega)
    · have hb2 : (m == 2 ^ f.prec) = false := by simpa using hmp
      simp only [hb2, Bool.false_eq_true, ↓reduceIte]
      split
      · trivial
      · rename_i hle
        refine ⟨by omega, he1, by omega, ?_⟩
        cases he3 with
        | inl h => exact Or.inr h
        | inr h => exact Or.inl (Nat.le_trans (hq_ge h) hm1)

/-! ## multiplication by ±1.0 -/

theorem one64 : ofNat binary64 1 = .fin false 4503599627370496 (-52) := by decide

theorem rep_mul_one (m : Nat) (e : Int) :
    Rep (scale (4503599627370496 * m) 1 (-52 + e)).1 (scale (4503599627370496 * m) 1 (-52 + e)).2 m e := by
  unfold scale
  by_cases h : 0 ≤ -52 + e
  · simp only [h, ↓reduceIte]
    refine ⟨52 + (-52 + e).toNat, 0, ?_, rfl, by omega⟩
    rw [Nat.pow_add, ← Nat.mul_assoc, Nat.mul_comm m]
  · simp only [h, ↓reduceIte]
    refine ⟨52, (-(-52 + e)).toNat, ?_, by simp, by omega⟩
    rw [Nat.mul_comm]

/-- (T) `1.0 * x = x` for every well-formed binary64 value. -/
theorem mul_one (x : Fl) (hx : WF binary64 x) : mul binary64 (ofNat binary64 1) x = x := by
  rw [one64]
  cases x with
  | nan => rfl
  | inf s => simp [mul]
  | fin s m e =>
    by_cases hm : m = 0
    · subst hm
      obtain ⟨_, h1, _, h2⟩ := hx
      have he : e = binary64.emin := by
        cases h2 with
        | inl h => exact absurd h (by decide)
        | inr h => exact h
      subst he
      simp only [mul, Nat.mul_zero, scale_zero_fst, round_zero]
      cases s <;> rfl
    · simp only [mul]
      have hs : (false != s) = s := by cases s <;> rfl
      rw [hs]
      exact round_exact binary64 s hm hx (rep_mul_one m e)

theorem negone64 : neg (ofNat binary64 1) = .fin true 4503599627370496 (-52) := by decide

/-- (T) `-1.0 * x = -x` for every well-formed binary64 value. -/
theorem mul_neg_one (x : Fl) (hx : WF binary64 x) : mul binary64 (neg (ofNat binary64 1)) x = neg x := by
  rw [negone64]
  cases x with
  | nan => rfl
  | inf s => simp [mul, neg]
  | fin s m e =>
    by_cases hm : m = 0
    · subst hm
      obtain ⟨_, h1, _, h2⟩ := hx
      have he : e = binary64.emin := by
        cases h2 with
        | inl h => exact absurd h (by decide)
        | inr h => exact h
      subst he
      simp only [mul, neg, Nat.mul_zero, scale_zero_fst, round_zero]
      cases s <;> rfl
    · simp only [mul, neg]
      have hs : (true != s) = !s := by cases s <;> rfl
      rw [hs]
      have hx' : WF binary64 (.fin (!s) m e) := hx
      exact round_exact binary64 (!s) hm hx' (rep_mul_one m e)

/-! ## closure of the well-formed values under the operations -/

/-- a format with at least one significand bit and a non-empty exponent range -/
structure FmtOk (f : Fmt) : Prop where
  prec : 1 ≤ f.prec
  range : f.emin ≤ f.emax

theorem zero_wf {f : Fmt} (hf : FmtOk f) (s : Bool) : WF f (.fin s 0 f.emin) :=
  ⟨two_pow_pos _, Int.le_refl _, hf.range, Or.inr rfl⟩

theorem scale_one_snd_ne (num : Nat) (e : Int) : (scale num 1 e).2 ≠ 0 :=
  Nat.ne_of_gt (scale_snd_pos num 1 (by decide) e)

theorem neg_wf {f : Fmt} {x : Fl} (h : WF f x) : WF f (neg x) := by
  cases x <;> exact h

theorem add_wf {f : Fmt} (hf : FmtOk f) (a b : Fl) : WF f (add f a b) := by
  cases a with
  | nan => trivial
  | inf s1 =>
    cases b with
    | nan => trivial
    | inf s2 => simp only [add]; split <;> trivial
    | fin s2 m2 e2 => trivial
  | fin s1 m1 e1 =>
    cases b with
    | nan => trivial
    | inf s2 => trivial
    | fin s2 m2 e2 =>
      simp only [add]
      split <;> (split
                 · exact zero_wf hf _
                 · exact round_wf f hf.prec hf.range _ _ _ (scale_one_snd_ne _ _))

theorem sub_wf {f : Fmt} (hf : FmtOk f) (a b : Fl) : WF f (sub f a b) := add_wf hf a (neg b)

theorem mul_wf {f : Fmt} (hf : FmtOk f) (a b : Fl) : WF f (mul f a b) := by
  cases a with
  | nan => trivial
  | inf s1 =>
    cases b with
    | nan => trivial
    | inf s2 => trivial
    | fin s2 m2 e2 => simp only [mul]; split <;> trivial
  | fin s1 m1 e1 =>
    cases b with
    | nan => trivial
    | inf s2 => simp only [mul]; split <;> trivial
    | fin s2 m2 e2 =>
      simp only [mul]
      exact round_wf f hf.prec hf.range _ _ _ (scale_one_snd_ne _ _)

theorem div_wf {f : Fmt} (hf : FmtOk f) (a b : Fl) : WF f (div f a b) := by
  cases a with
  | nan => trivial
  | inf s1 =>
    cases b with
    | nan => trivial
    | inf s2 => trivial
    | fin s2 m2 e2 => trivial
  | fin s1 m1 e1 =>
    cases b with
    | nan => trivial
    | inf s2 => exact zero_wf hf _
    | fin s2 m2 e2 =>
      simp only [div]
      split
      · split <;> trivial
      · rename_i hm2
        have hm2' : m2 ≠ 0 := by simpa using hm2
        exact round_wf f hf.prec hf.range _ _ _ (Nat.ne_of_gt (scale_snd_pos _ _ hm2' _))

theorem convert_wf {f : Fmt} (hf : FmtOk f) (x : Fl) : WF f (convert f x) := by
  cases x with
  | nan => trivial
  | inf s => trivial
  | fin s m e => exact round_wf f hf.prec hf.range _ _ _ (scale_one_snd_ne _ _)

theorem ofNat_wf {f : Fmt} (hf : FmtOk f) (n : Nat) : WF f (ofNat f n) :=
  round_wf f hf.prec hf.range _ _ _ (by decide)

theorem prec64 : 1 ≤ binary64.prec := by show 1 ≤ 53; omega
theorem range64 : binary64.emin ≤ binary64.emax := by show (-1074 : Int) ≤ 971; omega
theorem prec32 : 1 ≤ binary32.prec := by show 1 ≤ 24; omega
theorem range32 : binary32.emin ≤ binary32.emax := by show (-149 : Int) ≤ 104; omega

theorem ok64 : FmtOk binary64 := ⟨prec64, range64⟩
theorem ok32 : FmtOk binary32 := ⟨prec32, range32⟩

end SaphyrVerif.Lemmas.C19F
