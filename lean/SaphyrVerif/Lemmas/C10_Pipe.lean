import SaphyrVerif.Lemmas.C10_Gate
import SaphyrVerif.Spec.Utf8
/-! Helper lemmas for the reader pipeline after fixes cbb7ef9 / 784e913 (C10): the gate owns the size limit,
`ChunkedChars` behind it has none.  (1) a gate with a cap the input fits behaves as a gate without a cap;
(2) `ChunkedChars` over a well-formed (possibly cut) prefix followed by a failing call records exactly that
failure — also when the call fails in the middle of a code point. -/
namespace SaphyrVerif.Lemmas.C10Pipe
open SaphyrVerif SaphyrVerif.Reader SaphyrVerif.Spec.Utf8 SaphyrVerif.Lemmas.C09 SaphyrVerif.Lemmas.C10Gate

/-! ### the limit is invisible while the input fits -/

theorem note_limit (g : Gate) (l : Option Nat) (b : Nat) :
    ({ g with limit := l } : Gate).note b = { g.note b with limit := l } := by
  cases g with
  | mk inner limit pulled tripped encoding first half hp taken =>
    cases encoding <;> cases half <;> simp only [Gate.note] <;> (try split) <;> rfl

theorem noteAll_limit : ∀ (bs : List Nat) (g : Gate) (l : Option Nat),
    ({ g with limit := l } : Gate).noteAll bs = { g.noteAll bs with limit := l }
  | [], _, _ => rfl
  | b :: bs, g, l => by
    simp only [Gate.noteAll]
    rw [note_limit, noteAll_limit bs (g.note b) l]

/-- `plain` never looks at the limit -/
theorem plain_limit (g : Gate) (l : Option Nat) (want : Nat) :
    ({ g with limit := l } : Gate).plain want = ((g.plain want).1, { (g.plain want).2 with limit := l }) := by
  unfold Gate.plain
  simp only []
  cases hr : readCall want g.inner with
  | mk r s =>
    cases r with
    | err k => rfl
    | ok bs =>
      cases bs with
      | nil =>
        simp only []
        have : ({ g with limit := l, inner := s } : Gate).atEnd = ({ g with inner := s } : Gate).atEnd :=
          atEnd_core rfl
        rw [← this]
      | cons b bs =>
        simp only []
        have := noteAll_limit (b :: bs) { g with inner := s, taken := g.taken + (bs.length + 1) } l
        rw [← this]

/-- `plain` depends on the request only through what the inner reader answers -/
theorem plain_congr (g : Gate) {w n : Nat} (h : readCall w g.inner = readCall n g.inner) : g.plain w = g.plain n := by
  unfold Gate.plain; rw [h]

/-- a `read` on a gate whose cap the rest of the input fits: the plain path with the consumer's own request -/
theorem read_fits (g : Gate) (cap n : Nat) (hn : 0 < n) (hl : g.limit = some cap) (ht : g.tripped = false)
    (hfit : g.pulled + (flat g.inner).length ≤ cap) :
    g.read n = g.plain n ∧ (g.plain n).2.limit = some cap ∧ (g.plain n).2.tripped = false ∧
    (g.plain n).2.pulled + (flat (g.plain n).2.inner).length ≤ cap := by
  have hread : g.read n = g.plain n := by
    rcases read_paths g n hn with ⟨_, _, h0, _⟩ | ⟨h0, _⟩ | ⟨l, hl', _, _, hr⟩ | ⟨l, hl', _, hle, hr⟩
    · rw [ht] at h0; cases h0
    · rw [hl] at h0; cases h0
    · rw [hl] at hl'; cases hl'
      rw [hr]; exact plain_congr g (readCall_min (by omega))
    · rw [hl] at hl'; cases hl'
      have hfl : flat g.inner = [] := List.eq_nil_of_length_eq_zero (by omega)
      rw [hr, probe_eq_plain g hfl]; exact plain_congr g (readCall_nobytes hn hfl)
  refine ⟨hread, ?_⟩
  rcases plain_spec g n with ⟨k, s, hrc, he⟩ | ⟨s, hrc, he⟩ | ⟨b, bs, s, hrc, he⟩
  · have hfl := (readCall_flat hrc).2 _ rfl
    rw [he]; exact ⟨hl, ht, by simp only [hfl]; exact hfit⟩
  · have hfl := ((readCall_flat hrc).1 _ rfl).1
    simp at hfl
    rw [he]; exact ⟨hl, ht, by simp only [hfl]; exact hfit⟩
  · have hfl := ((readCall_flat hrc).1 _ rfl).1
    obtain ⟨f1, f2, f3, _, f5⟩ := noteAll_fields (b :: bs) { g with inner := s, taken := g.taken + (bs.length + 1) }
    rw [he]
    refine ⟨f2.trans hl, f3.trans ht, ?_⟩
    have f1' : (({ g with inner := s, taken := g.taken + (bs.length + 1) } : Gate).noteAll (b :: bs)).inner = s := f1
    have f5' : (({ g with inner := s, taken := g.taken + (bs.length + 1) } : Gate).noteAll (b :: bs)).pulled = g.pulled + (bs.length + 1) := f5
    rw [f1', f5']
    rw [← hfl] at hfit
    simp only [List.length_append, List.length_cons] at hfit
    omega

/-- the whole run: with a cap the input fits, the consumer sees what it would see without any cap — whatever the
bytes are (UTF-8, UTF-16, cut inside a character or not) and whatever the reader does (failing calls, empty reads) -/
theorem run_cap_inactive (cap : Nat) : ∀ (reqs : List Nat) (g : Gate), (∀ n ∈ reqs, 0 < n) → g.limit = some cap →
    g.tripped = false → g.pulled + (flat g.inner).length ≤ cap →
    (g.run reqs).1 = (({ g with limit := none } : Gate).run reqs).1
  | [], _, _, _, _, _ => rfl
  | n :: reqs, g, hpos, hl, ht, hfit => by
    have hn := hpos n (by simp)
    obtain ⟨h1, h2, h3, h4⟩ := read_fits g cap n hn hl ht hfit
    have hnone : ({ g with limit := none } : Gate).read n = ((g.plain n).1, { (g.plain n).2 with limit := none }) := by
      rcases read_paths ({ g with limit := none } : Gate) n hn with ⟨_, h0, _⟩ | ⟨_, hr⟩ | ⟨_, h0, _⟩ | ⟨_, h0, _⟩
      · cases h0
      · rw [hr, plain_limit]
      · cases h0
      · cases h0
    have ih := run_cap_inactive cap reqs (g.plain n).2 (fun m hm => hpos m (by simp [hm])) h2 h3 h4
    simp only [Gate.run, h1, hnone]
    rw [ih]

/-! ### `ChunkedChars` over a well-formed, possibly cut, prefix and then a failing call -/

/-- bytes that are the beginning of a well-formed UTF-8 text never make the greedy decoder report a malformed
sequence: it decodes the complete characters and stops either at the end or at a cut character -/
theorem flatDecode_prefix_ok : ∀ (fuel : Nat) (cs : List Char) (bs tail : List Nat), bs ++ tail = encode cs →
    bs.length < fuel → (flatDecode fuel bs).2.1 ≠ some kInvalidData
  | 0, _, _, _, _, hl => by omega
  | fuel + 1, cs, [], tail, _, _ => by simp [flatDecode, flatStep]
  | fuel + 1, [], b :: t, tail, h, _ => by simp [encode] at h
  | fuel + 1, c :: cs, b :: t, tail, h, hl => by
    obtain ⟨b', r, he, _, hn'⟩ := encodeChar_shape c
    simp only [encode, he, List.cons_append, List.cons.injEq] at h
    obtain ⟨hb, ht⟩ := h
    subst hb
    simp only [flatDecode, flatStep, hn']
    by_cases hlt : t.length < r.length + 1 - 1
    · have hlt' : t.length < r.length := by omega
      simp [hlt', kInvalidData, kUnexpectedEof]
    · have hge : r.length ≤ t.length := by omega
      -- t = r ++ rest
      have htake : t.take (r.length + 1 - 1) = r := by
        have : (t ++ tail).take r.length = r := by rw [ht]; simp
        rw [List.take_append_of_le_length hge] at this
        simpa using this
      have hdec := decode1_encodeChar c
      rw [he] at hdec
      simp only [hlt, if_false, htake, hdec]
      have hrest : t.drop (r.length + 1 - 1) ++ tail = encode cs := by
        have : (t ++ tail).drop r.length = encode cs := by rw [ht]; simp
        rw [List.drop_append_of_le_length hge] at this
        simpa using this
      exact flatDecode_prefix_ok fuel cs _ tail hrest (by simp at hl ⊢; omega)

/-- a hard reader error after a chunked prefix that is the beginning of a well-formed text: the characters
completed before are delivered and the cell holds exactly that error — also when the failing call comes in the
middle of a code point (the continuation loop stores whatever `Err` it gets) -/
theorem collect_fault_exact (k : IoKind) (hk1 : k ≠ kInterrupted) (post : Sched) :
    ∀ (fuel : Nat) (cc : CC) (pre : Sched), cc.reader = pre ++ .fail k :: post → chunked pre = true →
    cc.maxBytes = none → (flat pre).length < fuel → (flatDecode fuel (flat pre)).2.1 ≠ some kInvalidData →
    (collectRaw fuel cc).1 = (flatDecode fuel (flat pre)).1 ∧ (collectRaw fuel cc).2.cell = some k := by
  intro fuel
  induction fuel with
  | zero => intro cc pre _ _ _ h; omega
  | succ fuel ih =>
    intro cc pre hr hc hm hl hgood
    simp only [collectRaw, flatDecode] at hgood ⊢
    cases hf : flat pre with
    | nil =>
      have hs := chunked_flat_nil hc hf
      subst hs
      have hn : Reader.nextChar cc = (none, { cc with reader := post, cell := some k }) := by
        unfold Reader.nextChar
        have hki : (k == kInterrupted) = false := by simpa using hk1
        simp [hr, readFirst, hki]
      rw [hn]; simp [flatStep]
    | cons b t =>
      rw [hf] at hgood
      obtain ⟨pre1, h1, hc1, hf1⟩ := readFirst_app (tl := .fail k :: post) hc hf
      simp only [flatStep] at hgood ⊢
      cases hn : needed b with
      | none => simp [hn] at hgood
      | some n =>
        simp only [hn] at hgood ⊢
        have hcl := contLoopF_app k post (n - 1) (n - 1) [] pre1 (Nat.le_refl _) hc1
        rw [hf1] at hcl
        by_cases hlt : t.length < n - 1
        · have h2 := hcl.2 hlt
          have : ∃ cc', Reader.nextChar cc = (none, cc') ∧ cc'.cell = some k := by
            unfold Reader.nextChar; simp [hr, h1, hn, contLoop, h2]
          obtain ⟨cc', e1, e2⟩ := this
          rw [e1]; simp [e2, hlt]
        · obtain ⟨pre2, h2, hc2, hf2⟩ := hcl.1 (by omega)
          simp only [List.nil_append] at h2
          simp only [hlt, if_false] at hgood ⊢
          cases hd : decode1 (b :: t.take (n - 1)) with
          | none => simp [hd] at hgood
          | some c =>
            simp only [hd] at hgood ⊢
            have : ∃ cc', Reader.nextChar cc = (some c, cc') ∧ cc'.reader = pre2 ++ .fail k :: post ∧ cc'.maxBytes = none := by
              unfold Reader.nextChar; simp [hr, h1, hn, contLoop, h2, hm, hd]
            obtain ⟨cc', e1, e2, e3⟩ := this
            rw [e1]
            simp only []
            have hlen : (flat pre2).length < fuel := by
              rw [hf2]; simp; rw [hf] at hl; simp at hl; omega
            have := ih (noteChar cc' c) pre2 (by simp [e2]) hc2 (by simp [e3]) hlen (by rw [hf2]; exact hgood)
            rw [hf2] at this
            exact ⟨by rw [this.1], this.2⟩

/-! ### result lists as schedules -/

theorem flat_map_data : ∀ (chunks : List (List Nat)), flat (chunks.map .data) = chunks.flatten
  | [] => rfl
  | c :: cs => by simp only [List.map_cons, flat, List.flatten_cons]; rw [flat_map_data cs]

theorem flat_asSched_errs (k : IoKind) : ∀ (m : Nat), flat (asSched (List.replicate m (.err k))) = []
  | 0 => rfl
  | m + 1 => by simp only [List.replicate_succ, asSched, flat]; exact flat_asSched_errs k m

end SaphyrVerif.Lemmas.C10Pipe
