import SaphyrVerif.Lemmas.C11_Cursor
/-!
Helper lemmas for C11, part 5: every function of the typed deserializer only moves its cursor forward:
the cursor it returns (on success and on error) is `Le`-reachable from the cursor it was given; in
particular a live cursor stays live.
-/
namespace SaphyrVerif.Lemmas.C11
open SaphyrVerif SaphyrVerif.Scalars SaphyrVerif.Pump SaphyrVerif.De

/-- the returned cursor is reachable from `c` -/
def RLe {α : Type} (c : Cur) (r : R α) : Prop := Le c (rcur r)

@[grind =] theorem RLe_ok {α : Type} (c c' : Cur) (a : α) : RLe c (R.ok a c') = Le c c' := rfl
@[grind =] theorem RLe_err {α : Type} (c c' : Cur) (e : DErr) : RLe c (R.err e c' : R α) = Le c c' := rfl
theorem rle_peek (c : Cur) : RLe c c.peek := peek_le c
theorem rle_next (c : Cur) : RLe c c.next := next_le c
/-- marks the cursor all facts are to be related to (keeps the transitivity instances linear) -/
def Root (_c : Cur) : Prop := True
theorem RLe.of_le {α : Type} {a b : Cur} {r : R α} (_h0 : Root a) (h1 : Le a b) (h2 : RLe b r) : RLe a r :=
  Le.trans h1 h2
theorem Le.trans_root {a b c : Cur} (_h0 : Root a) (h1 : Le a b) (h2 : Le b c) : Le a c := Le.trans h1 h2
grind_pattern rle_peek => c.peek
grind_pattern rle_next => c.next
grind_pattern Le.trans_root => Root a, Le a b, Le b c
grind_pattern RLe.of_le => Root a, Le a b, RLe b r
attribute [grind .] Le.refl

theorem rle_deserScalarTyped (cfg : Cfg) (ty : Ty) (c : Cur) : RLe c (deserScalarTyped cfg ty c) := by
  simp only [deserScalarTyped]
  have hroot : Root c := trivial
  grind
grind_pattern rle_deserScalarTyped => deserScalarTyped cfg ty c

theorem rle_takeStringScalar (cfg : Cfg) (c : Cur) : RLe c (takeStringScalar cfg c) := by
  simp only [takeStringScalar]
  have hroot : Root c := trivial
  grind
grind_pattern rle_takeStringScalar => takeStringScalar cfg c

theorem rle_deserString (cfg : Cfg) (c : Cur) : RLe c (deserString cfg c) := by
  simp only [deserString]
  have hroot : Root c := trivial
  grind
grind_pattern rle_deserString => deserString cfg c

theorem rle_deserStr (cfg : Cfg) (c : Cur) : RLe c (deserStr cfg c) := by
  simp only [deserStr]
  have hroot : Root c := trivial
  grind
grind_pattern rle_deserStr => deserStr cfg c

theorem rle_deserAnyScalar (cfg : Cfg) (c : Cur) (v : List Char) (tag : Nat) (st : Style) (l : Loc) :
    RLe c (deserAnyScalar cfg c v tag st l) := by
  simp only [deserAnyScalar]
  have hroot : Root c := trivial
  grind (splits := 40) (gen := 40) (ematch := 40)
grind_pattern rle_deserAnyScalar => deserAnyScalar cfg c v tag st l

theorem rle_byteSeqVisit (shape : Ty ⊕ List Ty) (data : List Nat) (c : Cur) : RLe c (byteSeqVisit shape data c) := by
  simp only [byteSeqVisit]
  have hroot : Root c := trivial
  grind
grind_pattern rle_byteSeqVisit => byteSeqVisit shape data c

theorem rle_structFinish (fields : List (String × Ty)) (got : List (String × Val)) (c : Cur) :
    RLe c (structFinish fields got c) := by
  simp only [structFinish]
  have hroot : Root c := trivial
  grind
grind_pattern rle_structFinish => structFinish fields got c

end SaphyrVerif.Lemmas.C11
