import SaphyrVerif.Model.De
/-!
Helper lemmas for C11, part 3: a lexicographic progress measure for the live cursor.

`A` = number of remaining parser items; `B` = number of replay events not yet served by the inject
stack + 1 if the look-ahead is filled + 1 if nothing was produced yet (the pump may still synthesise a
null document).  Every `next` / `peek` is non-increasing in `(A, B)`, and every `next` that delivers an
event is strictly decreasing.
-/
namespace SaphyrVerif.Lemmas.C11
open SaphyrVerif SaphyrVerif.Scalars SaphyrVerif.Pump SaphyrVerif.De

/-- replay events still to be served by the inject stack -/
def injRemaining (as : List (Nat × List Ev)) : List InjectFrame → Nat
  | [] => 0
  | fr :: rest => (((lookupAnchor as fr.anchorId).map List.length).getD 0 - fr.idx) + injRemaining as rest

def lookBit (p : Pump) : Nat := if p.look.isSome then 1 else 0
def prodBit (p : Pump) : Nat := if p.producedAny then 0 else 1

def pumpB (p : Pump) : Nat := injRemaining p.anchors p.inject + lookBit p + prodBit p

/-- 1 for a delivered event -/
def evt : Step → Nat
  | .event _ => 1
  | _ => 0

theorem serveInject_measure (p : Pump) (fs : List InjectFrame) :
    (serveInject p fs).2.anchors = p.anchors ∧ (serveInject p fs).2.look = p.look ∧
    prodBit (serveInject p fs).2 ≤ prodBit p ∧
    injRemaining p.anchors (serveInject p fs).2.inject + evt ((serveInject p fs).1.getD .eof) ≤
      injRemaining p.anchors fs ∧
    ((serveInject p fs).1 = none → (serveInject p fs).2.inject = []) := by
  induction fs with
  | nil => exact ⟨rfl, rfl, Nat.le_refl _, by simp [serveInject, injRemaining, evt], by simp [serveInject]⟩
  | cons fr rest ih =>
    simp only [serveInject]
    split
    · rename_i hl
      simp [injRemaining, hl, evt, prodBit]
    · rename_i buf hl
      split
      · rename_i hge
        obtain ⟨h1, h2, h3, h4, h5⟩ := ih
        refine ⟨h1, h2, h3, ?_, h5⟩
        simp only [injRemaining, hl]
        omega
      · rename_i hlt
        split
        · obtain ⟨h1, h2, h3, h4, h5⟩ := ih
          refine ⟨h1, h2, h3, ?_, h5⟩
          simp only [injRemaining, hl]
          omega
        · rename_i ev hev
          have hlt' : fr.idx < buf.length := by omega
          clear ih
          split
          · simp [injRemaining, hl, evt, prodBit]; omega
          · split
            · simp [injRemaining, hl, evt, prodBit]; omega
            · split
              · simp [injRemaining, hl, evt, prodBit]; omega
              · simp [injRemaining, hl, evt, prodBit]; omega

theorem parserLoop_look (p : Pump) (inp : List RawItem) : (parserLoop p inp).2.1.look = p.look := by
  fun_induction parserLoop p inp
  all_goals try (simp_all +zetaDelta [Pump.resetDocumentState]; done)
  case case6 =>
    simp +zetaDelta only
    split <;> simp
  case case18 =>
    rename_i p3 step p' hs ob hx
    have := (serveInject_measure p3 p3.inject).2.1
    rw [hs] at this
    simp +zetaDelta at this ⊢
    exact this
  case case19 =>
    rename_i p3 p' hs ob hx ih
    rw [ih]
    have := (serveInject_measure p3 p3.inject).2.1
    rw [hs] at this
    simp +zetaDelta at this ⊢
    exact this

theorem parserLoop_length_le (p : Pump) (inp : List RawItem) :
    (parserLoop p inp).2.2.length ≤ inp.length := by
  fun_induction parserLoop p inp
  all_goals try (simp_all +zetaDelta; done)
  all_goals try (simp_all +zetaDelta; omega)

theorem parserLoop_length_lt (p : Pump) (inp : List RawItem) (h : inp ≠ []) :
    (parserLoop p inp).2.2.length < inp.length := by
  cases inp with
  | nil => exact absurd rfl h
  | cons it rest =>
    have hrec : ∀ q : Pump, (parserLoop q rest).2.2.length < (it :: rest).length := by
      intro q
      have := parserLoop_length_le q rest
      simp only [List.length_cons]
      omega
    have hnow : rest.length < (it :: rest).length := by simp
    cases it with
    | err ua l => simp [parserLoop]
    | ev raw loc =>
      simp only [parserLoop]
      repeat' split
      all_goals first
        | exact hnow
        | exact hrec _
        | (simp only [List.length_cons]; omega)

theorem parserLoop_nil (p : Pump) :
    (parserLoop p []).2.2 = [] ∧ pumpB (parserLoop p []).2.1 + evt (parserLoop p []).1 ≤ pumpB p := by
  simp only [parserLoop]
  split
  · rename_i h
    simp [pumpB, lookBit, prodBit, evt] at h ⊢
    simp [h]
  · simp [evt]

/-- progress of `nextImpl` -/
theorem nextImpl_measure (p : Pump) (inp : List RawItem) :
    (nextImpl p inp).2.1.look = p.look ∧
    ((nextImpl p inp).2.2.length < inp.length ∨
      ((nextImpl p inp).2.2.length = inp.length ∧
        pumpB (nextImpl p inp).2.1 + evt (nextImpl p inp).1 ≤ pumpB p)) := by
  unfold nextImpl
  obtain ⟨h1, h2, h3, h4, h5⟩ := serveInject_measure p p.inject
  rcases hs : serveInject p p.inject with ⟨_ | step, p'⟩
  · rw [hs] at h1 h2 h3 h4 h5
    simp only at h1 h2 h3 h4 h5 ⊢
    refine ⟨by rw [parserLoop_look, h2], ?_⟩
    have hB : pumpB p' ≤ pumpB p := by
      simp only [pumpB, lookBit, h1, h2, h5 trivial, injRemaining]
      omega
    cases inp with
    | nil =>
      right
      obtain ⟨ha, hb⟩ := parserLoop_nil p'
      exact ⟨by rw [ha], by omega⟩
    | cons it rest => exact Or.inl (parserLoop_length_lt p' _ (by simp))
  · rw [hs] at h1 h2 h3 h4 h5
    simp only [Option.getD_some] at h1 h2 h3 h4 h5 ⊢
    refine ⟨h2, Or.inr ⟨?_, ?_⟩⟩
    · trivial
    · simp only [pumpB, lookBit, h1, h2]
      omega

end SaphyrVerif.Lemmas.C11
