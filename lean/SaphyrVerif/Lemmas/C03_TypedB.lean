import SaphyrVerif.Spec.Explicit
import SaphyrVerif.Lemmas.C03_TypedA
/-!
Helper lemmas for C03 (typed level), part B — writing out and entry lists:
writing out the values and the merge sources of a mapping first and taking the effective entries
afterwards gives the effective entries of the original mapping with their values written out
(`writeOut`, the total variant of `explicitTree`: see `Spec/Explicit.lean`).
-/
namespace SaphyrVerif.Lemmas.C03T
open SaphyrVerif SaphyrVerif.Scalars SaphyrVerif.Pump SaphyrVerif.De SaphyrVerif.Spec
open SaphyrVerif.Lemmas.C04 (keys)

/-! ### relating optional results -/

/-- both fail, or both succeed with related results -/
def ORel {α β : Type} (R : α → β → Prop) : Option α → Option β → Prop
  | none, none => True
  | some a, some b => R a b
  | _, _ => False

theorem ORel.of_some_right {α β : Type} {R : α → β → Prop} {x : Option α} {b : β} (h : ORel R x (some b)) :
    ∃ a, x = some a ∧ R a b := by
  cases x with
  | none => cases h
  | some a => exact ⟨a, rfl, h⟩

theorem ORel.of_some_left {α β : Type} {R : α → β → Prop} {a : α} {y : Option β} (h : ORel R (some a) y) :
    ∃ b, y = some b ∧ R a b := by
  cases y with
  | none => cases h
  | some b => exact ⟨b, rfl, h⟩

theorem ORel.none_iff {α β : Type} {R : α → β → Prop} {x : Option α} {y : Option β} (h : ORel R x y) :
    x = none ↔ y = none := by
  cases x <;> cases y <;> simp_all [ORel]

theorem ORel.mono {α β : Type} {R S : α → β → Prop} {x : Option α} {y : Option β} (h : ORel R x y)
    (hrs : ∀ a b, R a b → S a b) : ORel S x y := by
  cases x <;> cases y <;> simp_all [ORel]

/-! ### entry lists with the same keys and explicit values -/

/-- same keys, values written out (as values) -/
inductive VRel (dup : DupPolicy) : List (ENode × ENode) → List (ENode × ENode) → Prop
  | nil : VRel dup [] []
  | cons {k v v' : ENode} {es es' : List (ENode × ENode)} :
    writeOut dup v = v' → VRel dup es es' → VRel dup ((k, v) :: es) ((k, v') :: es')

theorem VRel.keys {dup : DupPolicy} {es es' : List (ENode × ENode)} (h : VRel dup es es') : keys es = keys es' := by
  induction h with
  | nil => rfl
  | cons _ _ ih =>
    simp only [List.map_cons]
    exact congrArg _ ih

theorem VRel.append {dup : DupPolicy} {a a' b b' : List (ENode × ENode)} (h1 : VRel dup a a') (h2 : VRel dup b b') :
    VRel dup (a ++ b) (a' ++ b') := by
  induction h1 with
  | nil => exact h2
  | cons hv _ ih => exact VRel.cons hv ih

theorem ORel.map_cons {dup : DupPolicy} {k v v' : ENode} (hv : writeOut dup v = v')
    {x y : Option (List (ENode × ENode))} (h : ORel (VRel dup) x y) :
    ORel (VRel dup) (x.map ((k, v) :: ·)) (y.map ((k, v') :: ·)) := by
  cases x <;> cases y <;> simp only [ORel, Option.map_none, Option.map_some] at h ⊢
  exact VRel.cons hv h

/-- the duplicate-key policy looks at the keys only -/
theorem applyPolicy_vrel (dup p : DupPolicy) {own own1 : List (ENode × ENode)} (h : VRel dup own own1) :
    ∀ seen, ORel (VRel dup) (applyPolicy p own seen) (applyPolicy p own1 seen) := by
  induction h with
  | nil => intro seen; exact VRel.nil
  | @cons k v v' es es' hv _ ih =>
    intro seen
    have hc := fun s => ORel.map_cons (k := k) hv (ih s)
    cases p with
    | lastWins => simp only [applyPolicy]; exact hc _
    | error =>
      simp only [applyPolicy]
      split
      · trivial
      · exact hc _
    | firstWins =>
      simp only [applyPolicy]
      split
      · exact ih _
      · exact hc _

theorem dropSeen_vrel (dup : DupPolicy) {l l1 : List (ENode × ENode)} (h : VRel dup l l1) :
    ∀ seen, VRel dup (dropSeen l seen) (dropSeen l1 seen) := by
  induction h with
  | nil => intro seen; exact VRel.nil
  | @cons k v v' es es' hv _ ih =>
    intro seen
    simp only [dropSeen_cons]
    split
    · exact ih _
    · exact VRel.cons hv (ih _)

/-! ### `dropSeen`: the seen-list as a set, appending, dropping twice -/

theorem dropSeen_congr_seen (l : List (ENode × ENode)) : ∀ (s s' : List FP), (∀ x, x ∈ s ↔ x ∈ s') →
    dropSeen l s = dropSeen l s' := by
  induction l with
  | nil => intro s s' _; rfl
  | cons e rest ih =>
    intro s s' hss
    obtain ⟨k, v⟩ := e
    simp only [dropSeen_cons]
    by_cases hk : fpOf k ∈ s
    · have h1 := (C04.any_beq_iff s (fpOf k)).2 hk
      have h2 := (C04.any_beq_iff s' (fpOf k)).2 ((hss _).1 hk)
      simp only [h1, h2, if_true]
      exact ih s s' hss
    · have h1 := (C04.any_beq_false_iff s (fpOf k)).2 hk
      have h2 := (C04.any_beq_false_iff s' (fpOf k)).2 (fun h => hk ((hss _).2 h))
      simp only [h1, h2, Bool.false_eq_true, if_false]
      rw [ih (fpOf k :: s) (fpOf k :: s')]
      intro x
      simp only [List.mem_cons, hss x]

theorem dropSeen_append (a b : List (ENode × ENode)) : ∀ s,
    dropSeen (a ++ b) s = dropSeen a s ++ dropSeen b ((keys (dropSeen a s)).reverse ++ s) := by
  induction a with
  | nil => intro s; simp [dropSeen, keys]
  | cons e rest ih =>
    intro s
    obtain ⟨k, v⟩ := e
    simp only [List.cons_append, dropSeen_cons]
    split
    · exact ih s
    · rw [ih (fpOf k :: s)]
      simp [keys]

/-- dropping the keys of a smaller seen-set first changes nothing -/
theorem dropSeen_dropSeen (l : List (ENode × ENode)) : ∀ (s0 s : List FP), (∀ x ∈ s0, x ∈ s) →
    dropSeen (dropSeen l s0) s = dropSeen l s := by
  induction l with
  | nil => intro s0 s _; rfl
  | cons e rest ih =>
    intro s0 s hsub
    obtain ⟨k, v⟩ := e
    by_cases hk0 : fpOf k ∈ s0
    · have h1 := (C04.any_beq_iff s0 (fpOf k)).2 hk0
      have h2 := (C04.any_beq_iff s (fpOf k)).2 (hsub _ hk0)
      simp only [dropSeen_cons, h1, h2, if_true]
      exact ih s0 s hsub
    · have h1 := (C04.any_beq_false_iff s0 (fpOf k)).2 hk0
      rw [dropSeen_cons (seen := s0)]
      simp only [h1, Bool.false_eq_true, if_false]
      by_cases hk : fpOf k ∈ s
      · have h2 := (C04.any_beq_iff s (fpOf k)).2 hk
        simp only [dropSeen_cons, h2, if_true]
        apply ih
        intro x hx
        rcases List.mem_cons.1 hx with rfl | hx
        · exact hk
        · exact hsub x hx
      · have h2 := (C04.any_beq_false_iff s (fpOf k)).2 hk
        simp only [dropSeen_cons, h2, Bool.false_eq_true, if_false]
        congr 1
        apply ih
        intro x hx
        rcases List.mem_cons.1 hx with rfl | hx
        · exact List.mem_cons_self ..
        · exact List.mem_cons_of_mem _ (hsub x hx)

/-! ### merged entries before / after making the sources explicit -/

/-- `b'` delivers, after any set of keys already present, what `b` delivers with the values made explicit:
`b'` may lack entries of `b` whose key occurs earlier in `b` (they can never be delivered) -/
def SrcRel (dup : DupPolicy) (b b' : List (ENode × ENode)) : Prop :=
  ∀ seen, VRel dup (dropSeen b seen) (dropSeen b' seen)

theorem SrcRel.nil (dup : DupPolicy) : SrcRel dup [] [] := fun _ => VRel.nil

theorem SrcRel.of_vrel {dup : DupPolicy} {b b' : List (ENode × ENode)} (h : VRel dup b b') : SrcRel dup b b' :=
  fun seen => dropSeen_vrel dup h seen

theorem SrcRel.append {dup : DupPolicy} {a a' b b' : List (ENode × ENode)} (h1 : SrcRel dup a a') (h2 : SrcRel dup b b') :
    SrcRel dup (a ++ b) (a' ++ b') := by
  intro seen
  rw [dropSeen_append, dropSeen_append, ← (h1 seen).keys]
  exact (h1 seen).append (h2 _)

theorem SrcRel.dropSeen_right {dup : DupPolicy} {b x : List (ENode × ENode)} (h : SrcRel dup b x) :
    SrcRel dup b (dropSeen x []) := by
  intro seen
  rw [dropSeen_dropSeen x [] seen (by simp)]
  exact h seen

/-! ### the entry list functions in terms of `splitEntries` and `seqSourceEntries` -/

open SaphyrVerif.Lemmas.C05 in
/-- the batches of the merge values from last to first, concatenated, are the entries of the sequence of
the merge values -/
theorem seqSource_eq (l : List ENode) :
    seqSourceEntries l = (l.reverse.mapM sourceEntries).map List.flatten := by
  induction l with
  | nil => simp
  | cons n ns ih =>
    rw [seqSourceEntries_cons, ih, List.reverse_cons, List.mapM_append]
    simp only [List.mapM_cons, List.mapM_nil]
    cases sourceEntries n <;> cases List.mapM sourceEntries ns.reverse <;> simp

/-- `effEntries` in terms of the own entries and the merge values -/
theorem effEntries_alt (dup : DupPolicy) (entries : List (ENode × ENode)) :
    effEntries dup entries =
      match applyPolicy dup (splitEntries entries).1 [], seqSourceEntries (splitEntries entries).2 with
      | some ownKept, some bf => some (ownKept ++ dropSeen bf (keys ownKept).reverse)
      | _, _ => none := by
  rw [seqSource_eq]
  unfold effEntries
  cases h1 : applyPolicy dup (splitEntries entries).1 [] with
  | none => simp [h1]
  | some ownKept =>
    cases h2 : List.mapM sourceEntries (splitEntries entries).2.reverse with
    | none => simp [h1, h2]
    | some batches => simp [h1, h2, keys]

open SaphyrVerif.Lemmas.C05 in
/-- a mapping as a merge source: its own fields, then the entries of its merge values -/
theorem mapSource_alt (entries : List (ENode × ENode)) :
    mapSourceEntries entries =
      (seqSourceEntries (splitEntries entries).2).map ((splitEntries entries).1 ++ ·) := by
  induction entries with
  | nil => simp [splitEntries]
  | cons e rest ih =>
    obtain ⟨k, v⟩ := e
    rw [mapSourceEntries_cons, C03.splitEntries_cons, ih]
    by_cases hk : isMergeKeyNode k = true
    · simp only [hk, if_true, seqSourceEntries_cons]
      cases sourceEntries v <;> cases seqSourceEntries (splitEntries rest).2 <;> simp
    · simp only [hk, Bool.false_eq_true, if_false]
      cases seqSourceEntries (splitEntries rest).2 <;> simp

/-- a merge source under first-wins: the first entry of every key of `sourceEntries` -/
theorem eff_firstWins_eq (entries : List (ENode × ENode)) :
    effEntries .firstWins entries = (mapSourceEntries entries).map (dropSeen · []) := by
  rw [effEntries_alt, mapSource_alt, applyPolicy_firstWins_eq]
  cases seqSourceEntries (splitEntries entries).2 with
  | none => simp
  | some bf => simp [dropSeen_append]

open SaphyrVerif.Lemmas.C05 in
theorem mapSource_of_no_merge (es : List (ENode × ENode)) (h : ∀ e ∈ es, isMergeKeyNode e.1 = false) :
    mapSourceEntries es = some es := by
  rw [mapSource_alt, C03.splitEntries_of_no_merge es h]
  simp

/-! ### unfolding `writeOut` -/

theorem writeOutE_nil (dup : DupPolicy) : writeOutE dup [] = [] := by rw [writeOutE]

theorem writeOutE_cons (dup : DupPolicy) (k v : ENode) (rest : List (ENode × ENode)) :
    writeOutE dup ((k, v) :: rest) =
      (k, if isMergeKeyNode k then writeOutSrc dup v else writeOut dup v) :: writeOutE dup rest := by rw [writeOutE]

theorem writeOutL_nil (dup : DupPolicy) : writeOutL dup [] = [] := by rw [writeOutL]
theorem writeOutL_cons (dup : DupPolicy) (n : ENode) (ns : List ENode) :
    writeOutL dup (n :: ns) = writeOut dup n :: writeOutL dup ns := by rw [writeOutL]
theorem writeOutSrcL_nil (dup : DupPolicy) : writeOutSrcL dup [] = [] := by rw [writeOutSrcL]
theorem writeOutSrcL_cons (dup : DupPolicy) (n : ENode) (ns : List ENode) :
    writeOutSrcL dup (n :: ns) = writeOutSrc dup n :: writeOutSrcL dup ns := by rw [writeOutSrcL]

theorem writeOut_scalar (dup : DupPolicy) (v : List Char) (tag : Nat) (rt : Option (List Char)) (st : Style)
    (a : Nat) (l : Loc) : writeOut dup (.scalar v tag rt st a l) = .scalar v tag rt st a l := by rw [writeOut]

theorem writeOut_seq (dup : DupPolicy) (a tag : Nat) (rt : Option (List Char)) (l el : Loc) (items : List ENode) :
    writeOut dup (.seq a tag rt l el items) = .seq a tag rt l el (writeOutL dup items) := by rw [writeOut]

theorem writeOut_map (dup : DupPolicy) (a : Nat) (l el : Loc) (entries : List (ENode × ENode)) :
    writeOut dup (.map a l el entries) =
      match effEntries dup (writeOutE dup entries) with
      | some es' => .map a l el es'
      | none => .map a l el entries := by rw [writeOut]; rfl

theorem writeOutSrc_scalar (dup : DupPolicy) (v : List Char) (tag : Nat) (rt : Option (List Char)) (st : Style)
    (a : Nat) (l : Loc) : writeOutSrc dup (.scalar v tag rt st a l) = .scalar v tag rt st a l := by rw [writeOutSrc]

theorem writeOutSrc_seq (dup : DupPolicy) (a tag : Nat) (rt : Option (List Char)) (l el : Loc) (items : List ENode) :
    writeOutSrc dup (.seq a tag rt l el items) = .seq a tag rt l el (writeOutSrcL dup items) := by rw [writeOutSrc]

theorem writeOutSrc_map (dup : DupPolicy) (a : Nat) (l el : Loc) (entries : List (ENode × ENode)) :
    writeOutSrc dup (.map a l el entries) =
      match effEntries .firstWins (writeOutE dup entries) with
      | some es' => .map a l el es'
      | none => .map a l el entries := by rw [writeOutSrc]; rfl

/-- own entries and merge values of the entries with written-out values -/
theorem writeOutE_split (dup : DupPolicy) : ∀ (entries : List (ENode × ENode)),
    VRel dup (splitEntries entries).1 (splitEntries (writeOutE dup entries)).1 ∧
      (splitEntries (writeOutE dup entries)).2 = writeOutSrcL dup (splitEntries entries).2 := by
  intro entries
  induction entries with
  | nil => rw [writeOutE_nil]; exact ⟨VRel.nil, by simp [splitEntries, writeOutSrcL_nil]⟩
  | cons e rest ih =>
    obtain ⟨k, v⟩ := e
    obtain ⟨ih1, ih2⟩ := ih
    rw [writeOutE_cons, C03.splitEntries_cons, C03.splitEntries_cons]
    by_cases hk : isMergeKeyNode k = true
    · simp only [hk, if_true]
      exact ⟨ih1, by rw [writeOutSrcL_cons, ih2]⟩
    · simp only [hk, Bool.false_eq_true, if_false]
      exact ⟨VRel.cons rfl ih1, ih2⟩

/-! ### merge sources: written out first or afterwards -/

theorem orel_append {dup : DupPolicy} {x y x' y' : Option (List (ENode × ENode))} :
    ORel (SrcRel dup) x x' → ORel (SrcRel dup) y y' →
    ORel (SrcRel dup)
      (match x, y with | some b, some r => some (r ++ b) | _, _ => none)
      (match x', y' with | some b, some r => some (r ++ b) | _, _ => none) := by
  intro h1 h2
  cases x <;> cases x' <;> cases y <;> cases y' <;> simp only [ORel] at h1 h2 ⊢
  exact h2.append h1

open SaphyrVerif.Lemmas.C05 in
mutual
/-- a merge value and its written-out form deliver the same entries (values written out) after any set of
keys already present, or are both rejected -/
theorem writeOutSrc_rel (dup : DupPolicy) : ∀ (n : ENode),
    ORel (SrcRel dup) (sourceEntries n) (sourceEntries (writeOutSrc dup n))
  | .scalar v tag rt st a l => by
    rw [writeOutSrc_scalar]
    simp only [sourceEntries_scalar]
    split
    · exact SrcRel.nil dup
    · trivial
  | .seq a tag rt l el items => by
    rw [writeOutSrc_seq]
    simp only [sourceEntries_seq]
    exact writeOutSrcL_rel dup items
  | .map a l el entries => by
    rw [writeOutSrc_map]
    have ih := writeOutE_src_rel dup entries
    cases hf : effEntries .firstWins (writeOutE dup entries) with
    | none =>
      -- not a valid merge source: left as written, and rejected in both forms
      simp only [sourceEntries_map]
      rw [eff_firstWins_eq] at hf
      cases hx : mapSourceEntries (writeOutE dup entries) with
      | some x => simp [hx] at hf
      | none =>
        rw [hx] at ih
        rw [(ih.none_iff).2 rfl]
        trivial
    | some es' =>
      simp only [sourceEntries_map]
      rw [eff_firstWins_eq] at hf
      cases hx : mapSourceEntries (writeOutE dup entries) with
      | none => simp [hx] at hf
      | some x =>
        simp only [hx, Option.map_some, Option.some.injEq] at hf
        subst hf
        rw [hx] at ih
        obtain ⟨b, hb, hbx⟩ := ih.of_some_right
        have hnm : ∀ e ∈ dropSeen x [], isMergeKeyNode e.1 = false := fun e he' =>
          C03.mapSourceEntries_no_merge _ x hx e ((C04.dropSeen_sublist x []).subset he')
        rw [hb, mapSource_of_no_merge _ hnm]
        exact hbx.dropSeen_right
theorem writeOutSrcL_rel (dup : DupPolicy) : ∀ (items : List ENode),
    ORel (SrcRel dup) (seqSourceEntries items) (seqSourceEntries (writeOutSrcL dup items))
  | [] => by
    rw [writeOutSrcL_nil]
    simp only [seqSourceEntries_nil]
    exact SrcRel.nil dup
  | n :: ns => by
    rw [writeOutSrcL_cons, seqSourceEntries_cons, seqSourceEntries_cons]
    exact orel_append (writeOutSrc_rel dup n) (writeOutSrcL_rel dup ns)
theorem writeOutE_src_rel (dup : DupPolicy) : ∀ (entries : List (ENode × ENode)),
    ORel (SrcRel dup) (mapSourceEntries entries) (mapSourceEntries (writeOutE dup entries))
  | [] => by
    rw [writeOutE_nil]
    simp only [mapSourceEntries_nil]
    exact SrcRel.nil dup
  | (k, v) :: rest => by
    have ihr := writeOutE_src_rel dup rest
    rw [writeOutE_cons, mapSourceEntries_cons, mapSourceEntries_cons]
    by_cases hk : isMergeKeyNode k = true
    · simp only [hk, if_true]
      exact orel_append (writeOutSrc_rel dup v) ihr
    · simp only [hk, Bool.false_eq_true, if_false]
      cases hm : mapSourceEntries rest <;> cases hm' : mapSourceEntries (writeOutE dup rest) <;> rw [hm, hm'] at ihr
      · trivial
      · cases ihr
      · cases ihr
      · exact SrcRel.append (a := [(k, v)]) (a' := [(k, writeOut dup v)]) (SrcRel.of_vrel (VRel.cons rfl VRel.nil)) ihr
end

/-- (core of the nested theorem) the effective entries of the mapping with written-out values and sources are
the effective entries of the original mapping with their values written out — or both are undefined -/
theorem effEntries_writeOut (dup : DupPolicy) (entries : List (ENode × ENode)) :
    ORel (VRel dup) (effEntries dup entries) (effEntries dup (writeOutE dup entries)) := by
  obtain ⟨hown, hsrc⟩ := writeOutE_split dup entries
  have h1 := applyPolicy_vrel dup dup hown []
  have h2 := writeOutSrcL_rel dup (splitEntries entries).2
  rw [← hsrc] at h2
  rw [effEntries_alt, effEntries_alt]
  cases ho : applyPolicy dup (splitEntries entries).1 [] <;>
    cases ho' : applyPolicy dup (splitEntries (writeOutE dup entries)).1 [] <;> rw [ho, ho'] at h1
  · cases seqSourceEntries (splitEntries entries).2 <;>
      cases seqSourceEntries (splitEntries (writeOutE dup entries)).2 <;> trivial
  · cases h1
  · cases h1
  · rename_i ownKept ownKept1
    cases hs : seqSourceEntries (splitEntries entries).2 <;>
      cases hs' : seqSourceEntries (splitEntries (writeOutE dup entries)).2 <;> rw [hs, hs'] at h2
    · trivial
    · cases h2
    · cases h2
    · rename_i bf bf1
      simp only [ORel]
      rw [← h1.keys]
      exact h1.append (h2 _)

end SaphyrVerif.Lemmas.C03T
