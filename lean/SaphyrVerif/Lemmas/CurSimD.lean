import SaphyrVerif.Lemmas.CurSimDe
/-!
Cursor simulation, part 2e: the map access (`nextKey`, `nextValue`).  The two sides may hold different
reference locations in their pending entries, merge batches and buffered value; everything the access
decides (duplicate detection, merge order, which events are handed to the key / value deserializer)
depends on fingerprints and recorded events only.
-/
namespace SaphyrVerif.Lemmas.CurSim
open SaphyrVerif SaphyrVerif.Scalars SaphyrVerif.Pump SaphyrVerif.De

set_option linter.unusedSimpArgs false
set_option linter.unusedVariables false

theorem enqGo_rel {s s' : List (List PendingEntry)} (h : PLL s s') :
    (enqueueNextMergeBatch.go s).1 = (enqueueNextMergeBatch.go s').1 ∧
    PL (enqueueNextMergeBatch.go s).2.1 (enqueueNextMergeBatch.go s').2.1 ∧
    PLL (enqueueNextMergeBatch.go s).2.2 (enqueueNextMergeBatch.go s').2.2 := by
  induction s generalizing s' with
  | nil =>
    rw [h.nil_left]
    exact ⟨rfl, PL.refl _, PLL.refl _⟩
  | cons b rest ih =>
    obtain ⟨b', rest', rfl, hb, hr⟩ := h.cons_left
    simp only [enqueueNextMergeBatch.go]
    rw [← hb.isEmpty]
    cases b.isEmpty with
    | true => simpa using ih hr
    | false => exact ⟨rfl, hb, hr⟩

/-- `enqueue_next_merge_batch` finds a batch on both sides or on neither, and keeps the states related -/
theorem enq_rel {m m' : MA} (h : MRel m m') :
    (enqueueNextMergeBatch m).1 = (enqueueNextMergeBatch m').1 ∧
    MRel (enqueueNextMergeBatch m).2 (enqueueNextMergeBatch m').2 := by
  obtain ⟨hk, seen, pend, ms, fl, pv⟩ := m
  obtain ⟨hk', seen', pend', ms', fl', pv'⟩ := m'
  simp only [MRel, er, MAe.mk.injEq] at h
  obtain ⟨rfl, rfl, hp, hms, rfl, hpv⟩ := h
  obtain ⟨h1, h2, h3⟩ := enqGo_rel (s := ms) (s' := ms') hms
  simp only [enqueueNextMergeBatch]
  refine ⟨h1, ?_⟩
  simp only [MRel, er, MAe.mk.injEq, List.map_append, true_and]
  exact ⟨by rw [show List.map kv _ = List.map kv _ from h2, hp], h3, hpv⟩

theorem nextValue_simStep {fuel : Nat} (ih : SimA fuel) :
    ∀ cfg vt {c c' m m'}, Sim c c' → MRel m m' →
      RV VM (De.nextValue (fuel + 1) cfg vt c m) (De.nextValue (fuel + 1) cfg vt c' m') := by
  intro cfg vt c c' m m' hs hm
  obtain ⟨hk, seen, pend, ms, fl, pv⟩ := m
  obtain ⟨hk', seen', pend', ms', fl', pv'⟩ := m'
  simp only [MRel, er, MAe.mk.injEq] at hm
  obtain ⟨rfl, rfl, hp, hms, rfl, hpv⟩ := hm
  rw [De.nextValue, De.nextValue]
  cases hk
  · exact RV.err
  · rcases pv with _ | ⟨evs, ref⟩ <;> rcases pv' with _ | ⟨evs', ref'⟩ <;> simp at hpv
    · simp only [Bool.not_true, Bool.false_eq_true, ↓reduceIte]
      sim_loop
    · subst hpv
      have hrc := Sim.replay evs 0 (some ref) (some ref')
      simp only [Bool.not_true, Bool.false_eq_true, ↓reduceIte]
      sim_loop

theorem MRel.mk' {hk : Bool} {seen : List FP} {p p' : List PendingEntry} {ms ms' : List (List PendingEntry)}
    {fl : Bool} {pv pv' : Option (List Ev × Loc)} (hp : PL p p') (hms : PLL ms ms')
    (hpv : pv.map (·.1) = pv'.map (·.1)) : MRel ⟨hk, seen, p, ms, fl, pv⟩ ⟨hk, seen, p', ms', fl, pv'⟩ := by
  simp only [MRel, er, MAe.mk.injEq, true_and]
  exact ⟨hp, hms, hpv⟩

/-- nothing pending, merges being flushed -/
theorem nextKey_flush {fuel : Nat} (ih : SimA fuel) (cfg : Cfg) (ks : Ty ⊕ Unit) {c c' : Cur} (hs : Sim c c')
    (hk : Bool) (seen : List FP) {ms ms' : List (List PendingEntry)} {pv pv' : Option (List Ev × Loc)}
    (hms : PLL ms ms') (hpv : pv.map (·.1) = pv'.map (·.1)) :
    RV KM (De.nextKey (fuel + 1) cfg ks c ⟨hk, seen, [], ms, true, pv⟩)
      (De.nextKey (fuel + 1) cfg ks c' ⟨hk, seen, [], ms', true, pv'⟩) := by
  obtain ⟨hA1, hA2⟩ := enq_rel (MRel.mk' (hk := hk) (seen := seen) (fl := true) (PL.refl []) hms hpv)
  replace hA1 := hA1.symm
  rw [De.nextKey, De.nextKey]
  simp only [↓reduceIte]
  sim_loop

/-- nothing pending, reading the mapping -/
theorem nextKey_live {fuel : Nat} (ih : SimA fuel) (cfg : Cfg) (ks : Ty ⊕ Unit) {c c' : Cur} (hs : Sim c c')
    (hk : Bool) (seen : List FP) {ms ms' : List (List PendingEntry)} {pv pv' : Option (List Ev × Loc)}
    (hms : PLL ms ms') (hpv : pv.map (·.1) = pv'.map (·.1)) :
    RV KM (De.nextKey (fuel + 1) cfg ks c ⟨hk, seen, [], ms, false, pv⟩)
      (De.nextKey (fuel + 1) cfg ks c' ⟨hk, seen, [], ms', false, pv'⟩) := by
  obtain ⟨hA1, hA2⟩ := enq_rel (MRel.mk' (hk := hk) (seen := seen) (fl := true) (PL.refl []) hms hpv)
  replace hA1 := hA1.symm
  have hie : ms'.isEmpty = ms.isEmpty := (PLL.isEmpty hms).symm
  rw [De.nextKey, De.nextKey]
  simp only [Bool.false_eq_true, ↓reduceIte]
  sim_loop
/-- a pending entry (own field buffered for a one-entry-null key, or a merged entry) -/
theorem nextKey_pending {fuel : Nat} (ih : SimA fuel) (cfg : Cfg) (ks : Ty ⊕ Unit) {c c' : Cur} (hs : Sim c c')
    (hk : Bool) (seen : List FP) (k v : KeyNode) (r r' : Loc) {rest rest' : List PendingEntry}
    {ms ms' : List (List PendingEntry)} (fl : Bool) {pv pv' : Option (List Ev × Loc)}
    (hrest : PL rest rest') (hms : PLL ms ms') (hpv : pv.map (·.1) = pv'.map (·.1)) :
    RV KM (De.nextKey (fuel + 1) cfg ks c ⟨hk, seen, ⟨k, v, r⟩ :: rest, ms, fl, pv⟩)
      (De.nextKey (fuel + 1) cfg ks c' ⟨hk, seen, ⟨k, v, r'⟩ :: rest', ms', fl, pv'⟩) := by
  rw [De.nextKey, De.nextKey]
  simp only []
  sim_loop

theorem nextKey_simStep {fuel : Nat} (ih : SimA fuel) :
    ∀ cfg ks {c c' m m'}, Sim c c' → MRel m m' →
      RV KM (De.nextKey (fuel + 1) cfg ks c m) (De.nextKey (fuel + 1) cfg ks c' m') := by
  intro cfg ks c c' m m' hs hm
  obtain ⟨hk, seen, pend, ms, fl, pv⟩ := m
  obtain ⟨hk', seen', pend', ms', fl', pv'⟩ := m'
  simp only [MRel, er, MAe.mk.injEq] at hm
  obtain ⟨rfl, rfl, hp, hms, rfl, hpv⟩ := hm
  have hp' : PL pend pend' := hp
  rcases pend with _ | ⟨entry, rest⟩
  · rw [hp'.nil_left]
    cases fl
    · exact nextKey_live ih cfg ks hs hk seen hms hpv
    · exact nextKey_flush ih cfg ks hs hk seen hms hpv
  · obtain ⟨r', rest', rfl, hrest⟩ := hp'.cons_left
    obtain ⟨k, v, r⟩ := entry
    exact nextKey_pending ih cfg ks hs hk seen k v r r' fl hrest hms hpv

end SaphyrVerif.Lemmas.CurSim
