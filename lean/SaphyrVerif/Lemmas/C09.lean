import SaphyrVerif.Model.Reader
import SaphyrVerif.Spec.Utf8
import SaphyrVerif.Spec.Lines
/-! Helper lemmas for C09: UTF-8 arithmetic, reading through a schedule = reading the flat bytes. -/
namespace SaphyrVerif.Lemmas.C09
open SaphyrVerif SaphyrVerif.Reader SaphyrVerif.Spec.Utf8 SaphyrVerif.Spec.Lines

/-- the bit tests of `ChunkedChars::next` as ranges (finite table: all 256 byte values) -/
theorem needed_ranges : ∀ b, b < 256 →
    needed b =
      (if b < 0x80 then some 1 else if b < 0xC0 then none else if b < 0xE0 then some 2
       else if b < 0xF0 then some 3 else if b < 0xF8 then some 4 else none) := by
  decide +kernel

theorem char_valid (c : Char) : c.toNat < 0xD800 ∨ (0xDFFF < c.toNat ∧ c.toNat < 0x110000) := by
  exact c.valid

theorem ofNat_toNat' (c : Char) (n : Nat) (h : n = c.toNat) : Char.ofNat n = c := by
  subst h; exact Char.ofNat_toNat c

theorem toNat_ofNat' (n : Nat) (h : n < 0xD800 ∨ (0xDFFF < n ∧ n < 0x110000)) : (Char.ofNat n).toNat = n := by
  have : n.isValidChar := h
  simp [Char.ofNat, this, Char.toNat, Char.ofNatAux]

theorem decode1_enc1 (n : Nat) (h : n < 0x80) : decode1 [n] = some (Char.ofNat n) := by
  simp [decode1, h]

theorem decode1_enc2 (n : Nat) (h1 : 0x80 ≤ n) (h2 : n < 0x800) :
    decode1 [0xC0 + n / 64, 0x80 + n % 64] = some (Char.ofNat n) := by
  have e : (0xC0 + n / 64 - 0xC0) * 64 + (0x80 + n % 64 - 0x80) = n := by omega
  have c : (0xC2 ≤ 0xC0 + n / 64 && 0xC0 + n / 64 ≤ 0xDF && isCont (0x80 + n % 64)) = true := by
    simp [isCont]; omega
  simp only [decode1, c, e, if_true]

theorem decode1_enc3 (n : Nat) (h1 : 0x800 ≤ n) (h2 : n < 0x10000) (hs : n < 0xD800 ∨ 0xDFFF < n) :
    decode1 [0xE0 + n / 4096, 0x80 + (n / 64) % 64, 0x80 + n % 64] = some (Char.ofNat n) := by
  have e : (0xE0 + n / 4096 - 0xE0) * 4096 + (0x80 + (n / 64) % 64 - 0x80) * 64 + (0x80 + n % 64 - 0x80) = n := by omega
  have c : (((0xE0 + n / 4096 == 0xE0 && 0xA0 ≤ 0x80 + (n / 64) % 64 && 0x80 + (n / 64) % 64 ≤ 0xBF) ||
      (0xE1 ≤ 0xE0 + n / 4096 && 0xE0 + n / 4096 ≤ 0xEC && isCont (0x80 + (n / 64) % 64)) ||
      (0xE0 + n / 4096 == 0xED && 0x80 ≤ 0x80 + (n / 64) % 64 && 0x80 + (n / 64) % 64 ≤ 0x9F) ||
      (0xEE ≤ 0xE0 + n / 4096 && 0xE0 + n / 4096 ≤ 0xEF && isCont (0x80 + (n / 64) % 64))) &&
      isCont (0x80 + n % 64)) = true := by
    simp [isCont]; omega
  simp only [decode1, c, e, if_true]

theorem decode1_enc4 (n : Nat) (h1 : 0x10000 ≤ n) (h2 : n < 0x110000) :
    decode1 [0xF0 + n / 262144, 0x80 + (n / 4096) % 64, 0x80 + (n / 64) % 64, 0x80 + n % 64] = some (Char.ofNat n) := by
  have e : (0xF0 + n / 262144 - 0xF0) * 262144 + (0x80 + (n / 4096) % 64 - 0x80) * 4096 +
      (0x80 + (n / 64) % 64 - 0x80) * 64 + (0x80 + n % 64 - 0x80) = n := by omega
  have c : (((0xF0 + n / 262144 == 0xF0 && 0x90 ≤ 0x80 + (n / 4096) % 64 && 0x80 + (n / 4096) % 64 ≤ 0xBF) ||
      (0xF1 ≤ 0xF0 + n / 262144 && 0xF0 + n / 262144 ≤ 0xF3 && isCont (0x80 + (n / 4096) % 64)) ||
      (0xF0 + n / 262144 == 0xF4 && 0x80 ≤ 0x80 + (n / 4096) % 64 && 0x80 + (n / 4096) % 64 ≤ 0x8F)) &&
      isCont (0x80 + (n / 64) % 64) && isCont (0x80 + n % 64)) = true := by
    simp [isCont]; omega
  simp only [decode1, c, e, if_true]

/-- the validator accepts every encoded scalar value and returns it -/
theorem decode1_encodeChar (c : Char) : decode1 (encodeChar c) = some c := by
  have hv := char_valid c
  have hc : Char.ofNat c.toNat = c := Char.ofNat_toNat c
  unfold encodeChar
  simp only []
  split
  · rw [decode1_enc1 _ (by assumption), hc]
  · split
    · rw [decode1_enc2 _ (by omega) (by assumption), hc]
    · split
      · rw [decode1_enc3 _ (by omega) (by assumption) (by omega), hc]
      · rw [decode1_enc4 _ (by omega) (by omega), hc]

theorem encodeChar_ofNat (n : Nat) (h : n < 0xD800 ∨ (0xDFFF < n ∧ n < 0x110000)) :
    encodeChar (Char.ofNat n) =
      (if n < 0x80 then [n]
       else if n < 0x800 then [0xC0 + n / 64, 0x80 + n % 64]
       else if n < 0x10000 then [0xE0 + n / 4096, 0x80 + (n / 64) % 64, 0x80 + n % 64]
       else [0xF0 + n / 262144, 0x80 + (n / 4096) % 64, 0x80 + (n / 64) % 64, 0x80 + n % 64]) := by
  simp only [encodeChar, toNat_ofNat' n h]

private theorem l2 {a b a' b' : Nat} (h1 : a = a') (h2 : b = b') : [a, b] = [a', b'] := by subst h1 h2; rfl
private theorem l3 {a b c a' b' c' : Nat} (h1 : a = a') (h2 : b = b') (h3 : c = c') : [a, b, c] = [a', b', c'] := by
  subst h1 h2 h3; rfl
private theorem l4 {a b c d a' b' c' d' : Nat} (h1 : a = a') (h2 : b = b') (h3 : c = c') (h4 : d = d') :
    [a, b, c, d] = [a', b', c', d'] := by subst h1 h2 h3 h4; rfl

/-- the validator accepts nothing but encoded scalar values -/
theorem decode1_sound (bs : List Nat) (c : Char) (h : decode1 bs = some c) : bs = encodeChar c := by
  match bs, h with
  | [b0], h =>
    simp only [decode1] at h
    split at h
    · rename_i h0
      have h := Option.some.inj h; subst h
      rw [encodeChar_ofNat _ (by omega)]; simp [h0]
    · cases h
  | [b0, b1], h =>
    simp only [decode1] at h
    split at h
    · rename_i hc
      have h := Option.some.inj h; subst h
      simp [isCont] at hc
      rw [encodeChar_ofNat _ (by omega)]
      rw [if_neg (by omega), if_pos (by omega)]
      exact l2 (by omega) (by omega)
    · cases h
  | [b0, b1, b2], h =>
    simp only [decode1] at h
    split at h
    · rename_i hc
      have h := Option.some.inj h; subst h
      simp [isCont] at hc
      rw [encodeChar_ofNat _ (by omega)]
      rw [if_neg (by omega), if_neg (by omega), if_pos (by omega)]
      exact l3 (by omega) (by omega) (by omega)
    · cases h
  | [b0, b1, b2, b3], h =>
    simp only [decode1] at h
    split at h
    · rename_i hc
      have h := Option.some.inj h; subst h
      simp [isCont] at hc
      rw [encodeChar_ofNat _ (by omega)]
      rw [if_neg (by omega), if_neg (by omega), if_neg (by omega)]
      exact l4 (by omega) (by omega) (by omega) (by omega)
    · cases h
  | [], h => simp [decode1] at h
  | _ :: _ :: _ :: _ :: _ :: _, h => simp [decode1] at h

/-- the leading byte of an encoded scalar value announces exactly its length -/
theorem encodeChar_shape (c : Char) :
    ∃ b rest, encodeChar c = b :: rest ∧ b < 256 ∧ needed b = some (rest.length + 1) := by
  have hv := char_valid c
  unfold encodeChar
  simp only []
  split
  · refine ⟨_, _, rfl, by omega, ?_⟩
    rw [needed_ranges _ (by omega)]; simp; omega
  · split
    · refine ⟨_, _, rfl, by omega, ?_⟩
      rw [needed_ranges _ (by omega)]
      rw [if_neg (by omega), if_neg (by omega), if_pos (by omega)]; rfl
    · split
      · refine ⟨_, _, rfl, by omega, ?_⟩
        rw [needed_ranges _ (by omega)]
        rw [if_neg (by omega), if_neg (by omega), if_neg (by omega), if_pos (by omega)]; rfl
      · refine ⟨_, _, rfl, by omega, ?_⟩
        rw [needed_ranges _ (by omega)]
        rw [if_neg (by omega), if_neg (by omega), if_neg (by omega), if_neg (by omega), if_pos (by omega)]; rfl

/-! ### reading through a schedule of non-empty read results = reading the flat bytes -/

theorem chunked_flat_nil {s : Sched} (hc : chunked s = true) (h : flat s = []) : s = [] := by
  cases s with
  | nil => rfl
  | cons it rest =>
    cases it with
    | data bs => cases bs <;> simp_all [chunked, flat]
    | fail k => simp [chunked] at hc

theorem readFirst_chunked {s : Sched} (hc : chunked s = true) {b : Nat} {t : List Nat} (h : flat s = b :: t) :
    ∃ s', readFirst s = (.byte b, s') ∧ chunked s' = true ∧ flat s' = t := by
  cases s with
  | nil => simp [flat] at h
  | cons it rest =>
    cases it with
    | fail k => simp [chunked] at hc
    | data bs =>
      match bs, hc, h with
      | [], hc, _ => simp [chunked] at hc
      | [x], hc, h =>
        simp [chunked] at hc; simp [flat] at h
        exact ⟨rest, by simp [readFirst, h.1], hc, h.2⟩
      | x :: y :: ys, hc, h =>
        simp [chunked] at hc; simp [flat] at h
        exact ⟨.data (y :: ys) :: rest, by simp [readFirst, h.1], by simp [chunked, hc], by simp [flat, h.2]⟩

theorem readCall_chunked {s : Sched} (hc : chunked s = true) {n : Nat} (hn : 0 < n) {b : Nat} {t : List Nat}
    (h : flat s = b :: t) :
    ∃ g gs s', readCall n s = (.ok (g :: gs), s') ∧ gs.length + 1 ≤ n ∧ chunked s' = true ∧
      (g :: gs) ++ flat s' = flat s := by
  cases s with
  | nil => simp [flat] at h
  | cons it rest =>
    cases it with
    | fail k => simp [chunked] at hc
    | data bs =>
      cases bs with
      | nil => simp [chunked] at hc
      | cons x xs =>
        simp [chunked] at hc
        by_cases hl : (x :: xs).length ≤ n
        · have hl2 : xs.length + 1 ≤ n := by simpa using hl
          exact ⟨x, xs, rest, by simp [readCall, hl2], hl2, hc, by simp [flat]⟩
        · have hl' : n < xs.length + 1 := by simpa using hl
          obtain ⟨m, rfl⟩ : ∃ m, n = m + 1 := ⟨n - 1, by omega⟩
          refine ⟨x, xs.take m, .data (xs.drop m) :: rest, ?_, ?_, ?_, ?_⟩
          · simp [readCall]; omega
          · simp; omega
          · simp [chunked, hc]; omega
          · simp [flat]; rw [← List.append_assoc, List.take_append_drop]

theorem contLoopF_chunked : ∀ (fuel rem : Nat) (acc : List Nat) (s : Sched), rem ≤ fuel → chunked s = true →
    (rem ≤ (flat s).length →
      ∃ s', contLoopF fuel rem acc s = (.done (acc ++ (flat s).take rem), s') ∧ chunked s' = true ∧
        flat s' = (flat s).drop rem) ∧
    ((flat s).length < rem →
      ∃ s', contLoopF fuel rem acc s = (.eof (acc ++ flat s), s') ∧ chunked s' = true ∧ flat s' = []) := by
  intro fuel
  induction fuel with
  | zero =>
    intro rem acc s hr hc
    have : rem = 0 := by omega
    subst this
    exact ⟨fun _ => ⟨s, by simp [contLoopF], hc, by simp⟩, fun h => by omega⟩
  | succ fuel ih =>
    intro rem acc s hr hc
    by_cases h0 : rem = 0
    · subst h0
      exact ⟨fun _ => ⟨s, by simp [contLoopF], hc, by simp⟩, fun h => by omega⟩
    · cases hf : flat s with
      | nil =>
        have hs := chunked_flat_nil hc hf
        subst hs
        refine ⟨fun h => by simp at h; omega, fun _ => ⟨[], ?_, rfl, rfl⟩⟩
        simp [contLoopF, h0, readCall]
      | cons b t =>
        obtain ⟨g, gs, s', hrc, hlen, hc', hfl⟩ := readCall_chunked hc (Nat.pos_of_ne_zero h0) hf
        have hstep : contLoopF (fuel + 1) rem acc s = contLoopF fuel (rem - (gs.length + 1)) (acc ++ g :: gs) s' := by
          simp [contLoopF, h0, hrc]
        have hlen2 : (flat s).length = gs.length + 1 + (flat s').length := by
          rw [← hfl]; simp; omega
        have ih' := ih (rem - (gs.length + 1)) (acc ++ g :: gs) s' (by omega) hc'
        rw [hf] at hlen2
        have hbt : (b :: t).length = t.length + 1 := rfl
        constructor
        · intro hle
          obtain ⟨s'', h1, h2, h3⟩ := ih'.1 (by simp at hle; omega)
          refine ⟨s'', ?_, h2, ?_⟩
          · rw [hstep, h1, ← hf, ← hfl]
            congr 2
            rw [List.take_append]
            simp [List.take_of_length_le (show (g :: gs).length ≤ rem by simpa using hlen)]
          · rw [h3, ← hf, ← hfl, List.drop_append]
            simp [List.drop_eq_nil_of_le (show (g :: gs).length ≤ rem by simpa using hlen)]
        · intro hlt
          obtain ⟨s'', h1, h2, h3⟩ := ih'.2 (by simp at hlt; omega)
          refine ⟨s'', ?_, h2, h3⟩
          rw [hstep, h1, ← hf, ← hfl]
          simp

/-- one decoding step on the flat byte string (no reader, no schedule) -/
inductive FlatStep where
  | endOfInput
  /-- malformed / truncated sequence: the error kind and the bytes left after the ones it consumed -/
  | bad (k : IoKind) (rest : List Nat)
  | char (c : Char) (rest : List Nat)

def flatStep : List Nat → FlatStep
  | [] => .endOfInput
  | b :: t =>
    match needed b with
    | none => .bad kInvalidData t
    | some n =>
      if t.length < n - 1 then .bad kUnexpectedEof []
      else
        match decode1 (b :: t.take (n - 1)) with
        | none => .bad kInvalidData (t.drop (n - 1))
        | some c => .char c (t.drop (n - 1))

/-- `ChunkedChars::next` over ANY partition of the stream into non-empty read results is the flat step -/
theorem next_chunked (cc : CC) (hc : chunked cc.reader = true) (hm : cc.maxBytes = none) :
    match flatStep (flat cc.reader) with
    | .endOfInput => ∃ cc', nextChar cc = (none, cc') ∧ cc'.cell = cc.cell ∧ flat cc'.reader = [] ∧
        chunked cc'.reader = true ∧ cc'.maxBytes = none
    | .bad k rest => ∃ cc', nextChar cc = (none, cc') ∧ cc'.cell = some k ∧ chunked cc'.reader = true ∧
        flat cc'.reader = rest ∧ cc'.maxBytes = none
    | .char c rest => ∃ cc', nextChar cc = (some c, cc') ∧ cc'.cell = cc.cell ∧ chunked cc'.reader = true ∧
        flat cc'.reader = rest ∧ cc'.maxBytes = none := by
  cases hf : flat cc.reader with
  | nil =>
    have hs := chunked_flat_nil hc hf
    simp only [flatStep]
    refine ⟨{ cc with reader := [] }, ?_, rfl, rfl, rfl, hm⟩
    simp [nextChar, hs, readFirst]
  | cons b t =>
    obtain ⟨s', h1, hc', hf'⟩ := readFirst_chunked hc hf
    simp only [flatStep]
    cases hn : needed b with
    | none =>
      simp only []
      have he : ∃ cc', nextChar cc = (none, cc') ∧ cc'.reader = s' ∧ cc'.cell = some kInvalidData ∧ cc'.maxBytes = none := by
        simp [nextChar, h1, hn, hm]
      obtain ⟨cc', e1, e2, e3, e4⟩ := he
      exact ⟨cc', e1, e3, by rw [e2]; exact hc', by rw [e2]; exact hf', e4⟩
    | some n =>
      simp only []
      have hcl := contLoopF_chunked (n - 1) (n - 1) [] s' (Nat.le_refl _) hc'
      rw [hf'] at hcl
      by_cases hlt : t.length < n - 1
      · obtain ⟨s'', h2, hc'', hf''⟩ := hcl.2 hlt
        simp only [hlt, if_true]
        have he : ∃ cc', nextChar cc = (none, cc') ∧ cc'.reader = s'' ∧ cc'.cell = some kUnexpectedEof ∧ cc'.maxBytes = none := by
          simp [nextChar, h1, hn, contLoop, h2, hm]
        obtain ⟨cc', e1, e2, e3, e4⟩ := he
        exact ⟨cc', e1, e3, by rw [e2]; exact hc'', by rw [e2]; exact hf'', e4⟩
      · obtain ⟨s'', h2, hc'', hf''⟩ := hcl.1 (by omega)
        simp only [hlt, if_false]
        simp only [List.nil_append] at h2
        cases hd : decode1 (b :: t.take (n - 1)) with
        | none =>
          simp only []
          have he : ∃ cc', nextChar cc = (none, cc') ∧ cc'.reader = s'' ∧ cc'.cell = some kInvalidData ∧ cc'.maxBytes = none := by
            simp [nextChar, h1, hn, contLoop, h2, hm, hd]
          obtain ⟨cc', e1, e2, e3, e4⟩ := he
          exact ⟨cc', e1, e3, by rw [e2]; exact hc'', by rw [e2]; exact hf'', e4⟩
        | some c =>
          simp only []
          have he : ∃ cc', nextChar cc = (some c, cc') ∧ cc'.reader = s'' ∧ cc'.cell = cc.cell ∧ cc'.maxBytes = none := by
            simp [nextChar, h1, hn, contLoop, h2, hm, hd]
          obtain ⟨cc', e1, e2, e3, e4⟩ := he
          exact ⟨cc', e1, e3, by rw [e2]; exact hc'', by rw [e2]; exact hf'', e4⟩

/-! ### the characters `next_char` produces up to its first `None` (with the line flags `next` keeps) -/

@[simp] theorem noteChar_reader (cc : CC) (c : Char) : (noteChar cc c).reader = cc.reader := by
  unfold noteChar; split <;> split <;> rfl
@[simp] theorem noteChar_maxBytes (cc : CC) (c : Char) : (noteChar cc c).maxBytes = cc.maxBytes := by
  unfold noteChar; split <;> split <;> rfl
@[simp] theorem noteChar_cell (cc : CC) (c : Char) : (noteChar cc c).cell = cc.cell := by
  unfold noteChar; split <;> split <;> rfl
@[simp] theorem noteChar_pulled (cc : CC) (c : Char) : (noteChar cc c).pulled = cc.pulled := by
  unfold noteChar; split <;> split <;> rfl
@[simp] theorem noteChar_totalBytes (cc : CC) (c : Char) : (noteChar cc c).totalBytes = cc.totalBytes := by
  unfold noteChar; split <;> split <;> rfl

/-- run `next` while `next_char` delivers characters; stops at the first `None` of `next_char` and returns
the state right after that call (before `next` decides about the synthetic break) -/
def collectRaw : Nat → CC → List Char × CC
  | 0, cc => ([], cc)
  | fuel + 1, cc =>
    match nextChar cc with
    | (none, cc') => ([], cc')
    | (some c, cc') =>
      let r := collectRaw fuel (noteChar cc' c)
      (c :: r.1, r.2)

/-- greedy decoding of the flat byte string: characters, the error kind at the stopping point (if
any), and the undecoded remainder -/
def flatDecode : Nat → List Nat → List Char × Option IoKind × List Nat
  | 0, bs => ([], none, bs)
  | fuel + 1, bs =>
    match flatStep bs with
    | .endOfInput => ([], none, [])
    | .bad k _ => ([], some k, bs)
    | .char c rest =>
      let r := flatDecode fuel rest
      (c :: r.1, r.2.1, r.2.2)

theorem flatStep_char {bs : List Nat} {c : Char} {rest : List Nat} (h : flatStep bs = .char c rest) :
    bs = encodeChar c ++ rest ∧ rest.length < bs.length := by
  cases bs with
  | nil => simp [flatStep] at h
  | cons b t =>
    simp only [flatStep] at h
    split at h
    · cases h
    · rename_i n hn
      split at h
      · cases h
      · rename_i hlt
        split at h
        · cases h
        · rename_i c' hd
          injection h with h1 h2
          subst h1 h2
          have := decode1_sound _ _ hd
          constructor
          · rw [← this]; simp
          · simp; omega

theorem flatStep_bad {bs : List Nat} {k : IoKind} {r' : List Nat} (h : flatStep bs = .bad k r') : bs ≠ [] ∧ ¬ StartsWithChar bs := by
  cases bs with
  | nil => simp [flatStep] at h
  | cons b t =>
    refine ⟨by simp, ?_⟩
    rintro ⟨c, tail, hb⟩
    obtain ⟨b', r, he, _, hn'⟩ := encodeChar_shape c
    rw [he] at hb
    simp at hb
    obtain ⟨hb1, hb2⟩ := hb
    subst hb1
    have hdec := decode1_encodeChar c
    rw [he] at hdec
    simp only [flatStep, hn'] at h
    have hlen : ¬ t.length < r.length + 1 - 1 := by rw [hb2]; simp
    rw [if_neg hlen] at h
    have htake : t.take (r.length + 1 - 1) = r := by rw [hb2]; simp
    rw [htake, hdec] at h
    cases h

theorem flatStep_end {bs : List Nat} (h : flatStep bs = .endOfInput) : bs = [] := by
  cases bs with
  | nil => rfl
  | cons b t =>
    simp only [flatStep] at h
    split at h
    · cases h
    · split at h
      · cases h
      · split at h <;> cases h

/-- the greedy flat decoder meets the encoding-based specification -/
theorem flatDecode_spec : ∀ (fuel : Nat) (bs : List Nat), bs.length < fuel →
    bs = encode (flatDecode fuel bs).1 ++ (flatDecode fuel bs).2.2 ∧
    ((flatDecode fuel bs).2.2 = [] ↔ (flatDecode fuel bs).2.1 = none) ∧
    ((flatDecode fuel bs).2.2 ≠ [] → ¬ StartsWithChar (flatDecode fuel bs).2.2) := by
  intro fuel
  induction fuel with
  | zero => intro bs h; omega
  | succ fuel ih =>
    intro bs hl
    simp only [flatDecode]
    cases hs : flatStep bs with
    | endOfInput =>
      have := flatStep_end hs
      subst this
      simp [encode]
    | bad k =>
      obtain ⟨h1, h2⟩ := flatStep_bad hs
      simp [encode, h1, h2]
    | char c rest =>
      obtain ⟨h1, h2⟩ := flatStep_char hs
      obtain ⟨i1, i2, i3⟩ := ih rest (by omega)
      simp only []
      refine ⟨?_, i2, i3⟩
      simp only [encode, List.append_assoc]
      rw [← i1]; exact h1

/-- `collectRaw` over any partition into non-empty read results = greedy decoding of the flat bytes -/
theorem collect_eq_flat : ∀ (fuel : Nat) (cc : CC), chunked cc.reader = true → cc.maxBytes = none →
    cc.cell = none → (flat cc.reader).length < fuel →
    (collectRaw fuel cc).1 = (flatDecode fuel (flat cc.reader)).1 ∧
    (collectRaw fuel cc).2.cell = (flatDecode fuel (flat cc.reader)).2.1 := by
  intro fuel
  induction fuel with
  | zero => intro cc _ _ _ h; omega
  | succ fuel ih =>
    intro cc hc hm hcell hl
    have hn := next_chunked cc hc hm
    simp only [collectRaw, flatDecode]
    cases hs : flatStep (flat cc.reader) with
    | endOfInput =>
      rw [hs] at hn
      obtain ⟨cc', e1, e2, _⟩ := hn
      simp [e1, e2, hcell]
    | bad k =>
      rw [hs] at hn
      obtain ⟨cc', e1, e2⟩ := hn
      simp [e1, e2]
    | char c rest =>
      rw [hs] at hn
      obtain ⟨cc', e1, e2, e3, e4, e5⟩ := hn
      obtain ⟨_, h2⟩ := flatStep_char hs
      have := ih (noteChar cc' c) (by simpa using e3) (by simpa using e5) (by simp [e2, hcell]) (by simp [e4]; omega)
      simp only [e1]
      simp only [noteChar_reader, e4] at this
      exact ⟨by rw [this.1], this.2⟩

/-! ### a chunked prefix followed by an arbitrary tail (used for faults after some good data) -/

theorem readFirst_app {pre tl : Sched} (hc : chunked pre = true) {b : Nat} {t : List Nat} (h : flat pre = b :: t) :
    ∃ pre', readFirst (pre ++ tl) = (.byte b, pre' ++ tl) ∧ chunked pre' = true ∧ flat pre' = t := by
  cases pre with
  | nil => simp [flat] at h
  | cons it rest =>
    cases it with
    | fail k => simp [chunked] at hc
    | data bs =>
      match bs, hc, h with
      | [], hc, _ => simp [chunked] at hc
      | [x], hc, h =>
        simp [chunked] at hc; simp [flat] at h
        exact ⟨rest, by simp [readFirst, h.1], hc, h.2⟩
      | x :: y :: ys, hc, h =>
        simp [chunked] at hc; simp [flat] at h
        exact ⟨.data (y :: ys) :: rest, by simp [readFirst, h.1], by simp [chunked, hc], by simp [flat, h.2]⟩

theorem readCall_app {pre tl : Sched} (hc : chunked pre = true) {n : Nat} (hn : 0 < n) {b : Nat} {t : List Nat}
    (h : flat pre = b :: t) :
    ∃ g gs pre', readCall n (pre ++ tl) = (.ok (g :: gs), pre' ++ tl) ∧ gs.length + 1 ≤ n ∧ chunked pre' = true ∧
      (g :: gs) ++ flat pre' = flat pre := by
  cases pre with
  | nil => simp [flat] at h
  | cons it rest =>
    cases it with
    | fail k => simp [chunked] at hc
    | data bs =>
      cases bs with
      | nil => simp [chunked] at hc
      | cons x xs =>
        simp [chunked] at hc
        by_cases hl : (x :: xs).length ≤ n
        · have hl2 : xs.length + 1 ≤ n := by simpa using hl
          exact ⟨x, xs, rest, by simp [readCall, hl2], hl2, hc, by simp [flat]⟩
        · have hl' : n < xs.length + 1 := by simpa using hl
          obtain ⟨m, rfl⟩ : ∃ m, n = m + 1 := ⟨n - 1, by omega⟩
          refine ⟨x, xs.take m, .data (xs.drop m) :: rest, ?_, ?_, ?_, ?_⟩
          · simp [readCall]; omega
          · simp; omega
          · simp [chunked, hc]; omega
          · simp [flat]; rw [← List.append_assoc, List.take_append_drop]

/-- the continuation loop over a chunked prefix followed by a failing call: it completes inside the prefix,
or it consumes the whole prefix and returns that error -/
theorem contLoopF_app (k : IoKind) (post : Sched) : ∀ (fuel rem : Nat) (acc : List Nat) (pre : Sched),
    rem ≤ fuel → chunked pre = true →
    (rem ≤ (flat pre).length →
      ∃ pre', contLoopF fuel rem acc (pre ++ .fail k :: post) = (.done (acc ++ (flat pre).take rem), pre' ++ .fail k :: post) ∧
        chunked pre' = true ∧ flat pre' = (flat pre).drop rem) ∧
    ((flat pre).length < rem →
      contLoopF fuel rem acc (pre ++ .fail k :: post) = (.err k (acc ++ flat pre), post)) := by
  intro fuel
  induction fuel with
  | zero =>
    intro rem acc pre hr hc
    have : rem = 0 := by omega
    subst this
    exact ⟨fun _ => ⟨pre, by simp [contLoopF], hc, by simp⟩, fun h => by omega⟩
  | succ fuel ih =>
    intro rem acc pre hr hc
    by_cases h0 : rem = 0
    · subst h0
      exact ⟨fun _ => ⟨pre, by simp [contLoopF], hc, by simp⟩, fun h => by omega⟩
    · cases hf : flat pre with
      | nil =>
        have hs := chunked_flat_nil hc hf
        subst hs
        refine ⟨fun h => by simp at h; omega, fun _ => ?_⟩
        simp [contLoopF, h0, readCall]
      | cons b t =>
        obtain ⟨g, gs, pre', hrc, hlen, hc', hfl⟩ := readCall_app (tl := .fail k :: post) hc (Nat.pos_of_ne_zero h0) hf
        have hstep : contLoopF (fuel + 1) rem acc (pre ++ .fail k :: post) =
            contLoopF fuel (rem - (gs.length + 1)) (acc ++ g :: gs) (pre' ++ .fail k :: post) := by
          simp [contLoopF, h0, hrc]
        have hlen2 : (flat pre).length = gs.length + 1 + (flat pre').length := by
          rw [← hfl]; simp; omega
        have ih' := ih (rem - (gs.length + 1)) (acc ++ g :: gs) pre' (by omega) hc'
        rw [hf] at hlen2
        have hbt : (b :: t).length = t.length + 1 := rfl
        constructor
        · intro hle
          obtain ⟨s'', h1, h2, h3⟩ := ih'.1 (by simp at hle; omega)
          refine ⟨s'', ?_, h2, ?_⟩
          · rw [hstep, h1, ← hf, ← hfl]
            congr 2
            rw [List.take_append]
            simp [List.take_of_length_le (show (g :: gs).length ≤ rem by simpa using hlen)]
          · rw [h3, ← hf, ← hfl, List.drop_append]
            simp [List.drop_eq_nil_of_le (show (g :: gs).length ≤ rem by simpa using hlen)]
        · intro hlt
          have := ih'.2 (by simp at hlt; omega)
          rw [hstep, this, ← hf, ← hfl]
          simp

/-- a hard reader error after a chunked prefix is always recorded in the cell (or an earlier
malformed / truncated sequence already was) -/
theorem collect_fault_recorded (k : IoKind) (hk1 : k ≠ kInterrupted) (post : Sched) :
    ∀ (fuel : Nat) (cc : CC) (pre : Sched), cc.reader = pre ++ .fail k :: post → chunked pre = true →
    cc.maxBytes = none → (flat pre).length < fuel → (collectRaw fuel cc).2.cell ≠ none := by
  intro fuel
  induction fuel with
  | zero => intro cc pre _ _ _ h; omega
  | succ fuel ih =>
    intro cc pre hr hc hm hl
    simp only [collectRaw]
    cases hf : flat pre with
    | nil =>
      have hs := chunked_flat_nil hc hf
      subst hs
      have hn : Reader.nextChar cc = (none, { cc with reader := post, cell := some k }) := by
        unfold Reader.nextChar
        have hki : (k == kInterrupted) = false := by simpa using hk1
        simp [hr, readFirst, hki]
      rw [hn]; simp
    | cons b t =>
      obtain ⟨pre1, h1, hc1, hf1⟩ := readFirst_app (tl := .fail k :: post) hc hf
      cases hn : needed b with
      | none =>
        have : Reader.nextChar cc = (none, { cc with reader := pre1 ++ .fail k :: post, pulled := cc.pulled + 1, cell := some kInvalidData }) := by
          unfold Reader.nextChar; simp [hr, h1, hn]
        rw [this]; simp [kInvalidData]
      | some n =>
        have hcl := contLoopF_app k post (n - 1) (n - 1) [] pre1 (Nat.le_refl _) hc1
        rw [hf1] at hcl
        by_cases hlt : t.length < n - 1
        · have h2 := hcl.2 hlt
          have : ∃ cc', Reader.nextChar cc = (none, cc') ∧ cc'.cell = some k := by
            unfold Reader.nextChar; simp [hr, h1, hn, contLoop, h2]
          obtain ⟨cc', e1, e2⟩ := this
          rw [e1]; simp [e2]
        · obtain ⟨pre2, h2, hc2, hf2⟩ := hcl.1 (by omega)
          simp only [List.nil_append] at h2
          cases hd : decode1 (b :: t.take (n - 1)) with
          | none =>
            have : ∃ cc', Reader.nextChar cc = (none, cc') ∧ cc'.cell = some kInvalidData := by
              unfold Reader.nextChar; simp [hr, h1, hn, contLoop, h2, hm, hd]
            obtain ⟨cc', e1, e2⟩ := this
            rw [e1]; simp [e2, kInvalidData]
          | some c =>
            have : ∃ cc', Reader.nextChar cc = (some c, cc') ∧ cc'.reader = pre2 ++ .fail k :: post ∧ cc'.maxBytes = none := by
              unfold Reader.nextChar; simp [hr, h1, hn, contLoop, h2, hm, hd]
            obtain ⟨cc', e1, e2, e3⟩ := this
            rw [e1]
            simp only []
            have hlen : (flat pre2).length < fuel := by
              rw [hf2]; simp; rw [hf] at hl; simp at hl; omega
            exact ih (noteChar cc' c) pre2 (by simp [e2]) hc2 (by simp [e3]) hlen

/-! ### bytes are only moved from the reader to the buffer (any schedule) -/

theorem readFirst_flat (s : Sched) : ∀ b, (readFirst s).1 = .byte b → flat s = b :: flat (readFirst s).2 := by
  fun_induction readFirst s <;> simp_all [flat]

theorem readFirst_flat_err (s : Sched) : (∀ b, (readFirst s).1 ≠ .byte b) → flat (readFirst s).2 = flat s := by
  fun_induction readFirst s <;> simp_all [flat]

theorem readCall_flat' {n : Nat} {s s' : Sched} {r : ReadRes} (h : readCall n s = (r, s')) :
    (∀ bs, r = .ok bs → bs ++ flat s' = flat s) ∧ (∀ k, r = .err k → flat s' = flat s) := by
  cases s with
  | nil => simp [readCall] at h; obtain ⟨rfl, rfl⟩ := h; simp [flat]
  | cons it rest =>
    cases it with
    | fail k => simp [readCall] at h; obtain ⟨rfl, rfl⟩ := h; simp [flat]
    | data d =>
      simp only [readCall] at h
      split at h
      · simp at h; obtain ⟨rfl, rfl⟩ := h; simp [flat]
      · simp at h; obtain ⟨rfl, rfl⟩ := h
        simp [flat]
        rw [← List.append_assoc, List.take_append_drop]

def contGot : ContRes → List Nat
  | .done g => g
  | .eof g => g
  | .err _ g => g

/-- the continuation loop only moves bytes from the reader to its buffer -/
theorem contLoopF_flat (fuel rem : Nat) (acc : List Nat) (s : Sched) :
    ∃ x, contGot (contLoopF fuel rem acc s).1 = acc ++ x ∧ flat s = x ++ flat (contLoopF fuel rem acc s).2 := by
  fun_induction contLoopF fuel rem acc s
  case case1 => exact ⟨[], by simp [contGot], by simp⟩
  case case2 => exact ⟨[], by simp [contGot], by simp⟩
  case case3 fuel rem acc s h0 k s' hr =>
    have hf := readCall_flat' hr
    exact ⟨[], by simp [contGot], by simp [hf.2 k rfl]⟩
  case case4 fuel rem acc s h0 s' hr =>
    have hf := readCall_flat' hr
    have := hf.1 [] rfl
    exact ⟨[], by simp [contGot], by simpa using this.symm⟩
  case case5 fuel rem acc s h0 b bs s' hr ih =>
    have hf := readCall_flat' hr
    obtain ⟨x, h1, h2⟩ := ih
    refine ⟨b :: bs ++ x, by rw [h1]; simp, ?_⟩
    rw [← hf.1 (b :: bs) rfl, h2]; simp

/-! ### RingReader -/

theorem readCall_flat {n : Nat} {s s' : Sched} {r : ReadRes} (h : readCall n s = (r, s')) :
    (∀ bs, r = .ok bs → bs ++ flat s' = flat s ∧ bs.length ≤ n) ∧ (∀ k, r = .err k → flat s' = flat s) := by
  cases s with
  | nil => simp [readCall] at h; obtain ⟨rfl, rfl⟩ := h; simp [flat]
  | cons it rest =>
    cases it with
    | fail k => simp [readCall] at h; obtain ⟨rfl, rfl⟩ := h; simp [flat]
    | data d =>
      simp only [readCall] at h
      split at h
      · rename_i hl
        simp at h; obtain ⟨rfl, rfl⟩ := h
        simp [flat]; exact hl
      · simp at h; obtain ⟨rfl, rfl⟩ := h
        simp [flat]
        constructor
        · rw [← List.append_assoc, List.take_append_drop]
        · omega

theorem pushRing_fields (r : Ring) (bs : List Nat) (off : Nat) :
    (pushRingBytes r bs off).inner = r.inner ∧ (pushRingBytes r bs off).stash = r.stash ∧
    (pushRingBytes r bs off).returnedTotal = r.returnedTotal ∧ (pushRingBytes r bs off).out = r.out ∧
    (pushRingBytes r bs off).pulledBytes = r.pulledBytes ∧ (pushRingBytes r bs off).cap = r.cap ∧
    (pushRingBytes r bs off).ahead = r.ahead := by
  fun_induction pushRingBytes r bs off
  case case1 => simp
  case case2 r b bs off r1 r2 ih =>
    have h1 : r1.inner = r.inner ∧ r1.stash = r.stash ∧ r1.returnedTotal = r.returnedTotal ∧ r1.out = r.out ∧
        r1.pulledBytes = r.pulledBytes ∧ r1.cap = r.cap ∧ r1.ahead = r.ahead := by
      simp only [r1]; split <;> simp
    have h2 : r2.inner = r.inner ∧ r2.stash = r.stash ∧ r2.returnedTotal = r.returnedTotal ∧ r2.out = r.out ∧
        r2.pulledBytes = r.pulledBytes ∧ r2.cap = r.cap ∧ r2.ahead = r.ahead := by
      simp only [r2]
      split
      · split <;> simp [h1]
      · exact h1
    simp only [] at ih
    obtain ⟨a, b', c, d, e, f, g⟩ := ih
    exact ⟨by rw [a]; exact h2.1, by rw [b']; exact h2.2.1, by rw [c]; exact h2.2.2.1, by rw [d]; exact h2.2.2.2.1,
      by rw [e]; exact h2.2.2.2.2.1, by rw [f]; exact h2.2.2.2.2.2.1, by rw [g]; exact h2.2.2.2.2.2.2⟩

/-- transparency invariant of the ring reader: what was handed out plus what is stashed is exactly what
was taken from the inner reader, in order; the inner stream is intact; the stash respects the cap -/
def RInv (total : List Nat) (r : Ring) : Prop :=
  r.out ++ r.stash = r.pulledBytes ∧ r.pulledBytes ++ flat r.inner = total ∧ r.stash.length ≤ r.ahead

theorem pushBackN_room {n : Nat} {l : List Nat} (b : Nat) (h : l.length < n) : pushBackN n l b = l ++ [b] := by
  unfold pushBackN
  have : (l.length == n) = false := by simp; omega
  simp [this]

theorem stashAll_room {n : Nat} : ∀ (bs st : List Nat), st.length + bs.length ≤ n → stashAll n st bs = st ++ bs := by
  intro bs
  induction bs with
  | nil => intro st _; simp [stashAll]
  | cons b bs ih =>
    intro st h
    simp only [stashAll]
    rw [pushBackN_room b (by simp at h; omega), ih _ (by simp at h ⊢; omega)]
    simp

theorem read_RInv {total : List Nat} (r : Ring) (n : Nat) (h : RInv total r) :
    RInv total (r.read n).2 ∧ (r.read n).2.ahead = r.ahead ∧
    (∀ bs, (r.read n).1 = .ok bs → (r.read n).2.out = r.out ++ bs) ∧
    (∀ k, (r.read n).1 = .err k → (r.read n).2.out = r.out) := by
  obtain ⟨h1, h2, h3⟩ := h
  fun_cases Ring.read r n
  case case1 hn => exact ⟨⟨h1, h2, h3⟩, rfl, by simp, by simp⟩
  case case2 hn hs got =>
    refine ⟨⟨?_, h2, ?_⟩, rfl, by simp [got], by simp⟩
    · show (r.out ++ got) ++ r.stash.drop n = r.pulledBytes
      rw [List.append_assoc]; simp only [got]; rw [List.take_append_drop]; exact h1
    · show (r.stash.drop n).length ≤ r.ahead
      simp; omega
  case case3 hn hs k s hr =>
    have hf := readCall_flat hr
    refine ⟨⟨h1, ?_, h3⟩, rfl, by simp, by simp⟩
    show r.pulledBytes ++ flat s = total
    rw [hf.2 k rfl]; exact h2
  case case4 hn hs s hr =>
    have hf := readCall_flat hr
    have := (hf.1 [] rfl).1
    simp at this
    refine ⟨⟨h1, ?_, h3⟩, rfl, by simp, by simp⟩
    show r.pulledBytes ++ flat s = total
    rw [this]; exact h2
  case case5 hn hs chunk s hne hr r1 r2 =>
    have hf := readCall_flat hr
    have hfl := (hf.1 chunk rfl).1
    have hse : r.stash = [] := by simpa using hs
    have pf := pushRing_fields r1 chunk r1.returnedTotal
    obtain ⟨p1, p2, p3, p4, p5, p6, p7⟩ := pf
    have q : r2 = pushRingBytes r1 chunk r1.returnedTotal := rfl
    refine ⟨⟨?_, ?_, ?_⟩, ?_, ?_, by simp⟩
    · show (r2.out ++ chunk) ++ r2.stash = r2.pulledBytes
      rw [q, p2, p4, p5]
      show (r.out ++ chunk) ++ r.stash = r.pulledBytes ++ chunk
      rw [hse] at h1 ⊢; simp at h1 ⊢; exact h1
    · show r2.pulledBytes ++ flat r2.inner = total
      rw [q, p5, p1]
      show (r.pulledBytes ++ chunk) ++ flat s = total
      rw [List.append_assoc, hfl]; exact h2
    · show r2.stash.length ≤ r2.ahead
      rw [q, p2, p7]; exact h3
    · show r2.ahead = r.ahead
      rw [q, p7]
    · intro bs hb
      simp at hb
      show r2.out ++ chunk = r.out ++ bs
      rw [q, p4, hb]

theorem readAheadF_RInv {total : List Nat} (fuel : Nat) (r : Ring) (remaining : Nat) :
    RInv total r → r.stash.length + remaining ≤ r.ahead →
    RInv total (readAheadF fuel r remaining).2 ∧ (readAheadF fuel r remaining).2.ahead = r.ahead ∧
    (readAheadF fuel r remaining).2.out = r.out := by
  fun_induction readAheadF fuel r remaining
  case case1 r rem => intro h _; exact ⟨h, rfl, rfl⟩
  case case2 fuel r rem h0 => intro h _; exact ⟨h, rfl, rfl⟩
  case case3 fuel r rem h0 want k s hr =>
    intro h _
    have hf := readCall_flat hr
    exact ⟨⟨h.1, by show r.pulledBytes ++ flat s = total; rw [hf.2 k rfl]; exact h.2.1, h.2.2⟩, rfl, rfl⟩
  case case4 fuel r rem h0 want s hr =>
    intro h _
    have hf := readCall_flat hr
    have := (hf.1 [] rfl).1
    simp at this
    exact ⟨⟨h.1, by show r.pulledBytes ++ flat s = total; rw [this]; exact h.2.1, h.2.2⟩, rfl, rfl⟩
  case case5 fuel r rem h0 want b bs s hr chunk absStart r1 r2 ih =>
    intro h hroom
    obtain ⟨h1, h2, h3⟩ := h
    have hf := readCall_flat hr
    obtain ⟨hfl, hlen⟩ := hf.1 (b :: bs) rfl
    have hlen2 : chunk.length ≤ rem := by
      have : min rem SCRATCH ≤ rem := Nat.min_le_left _ _
      simp only [chunk, want] at hlen ⊢
      omega
    have hst : stashAll r.ahead r.stash chunk = r.stash ++ chunk :=
      stashAll_room chunk r.stash (by omega)
    obtain ⟨p1, p2, p3, p4, p5, p6, p7⟩ := pushRing_fields r1 chunk absStart
    have q : r2 = pushRingBytes r1 chunk absStart := rfl
    have hinv : RInv total r2 := by
      refine ⟨?_, ?_, ?_⟩
      · rw [q, p2, p4, p5]
        show r.out ++ stashAll r.ahead r.stash chunk = r.pulledBytes ++ chunk
        rw [hst, ← List.append_assoc, h1]
      · rw [q, p5, p1]
        show (r.pulledBytes ++ chunk) ++ flat s = total
        rw [List.append_assoc]; rw [← hfl] at h2; exact h2
      · rw [q, p2, p7]
        show (stashAll r.ahead r.stash chunk).length ≤ r.ahead
        rw [hst]; simp; omega
    have hroom2 : r2.stash.length + (rem - chunk.length) ≤ r2.ahead := by
      rw [q, p2, p7]
      show (stashAll r.ahead r.stash chunk).length + (rem - chunk.length) ≤ r.ahead
      rw [hst]; simp; omega
    obtain ⟨i1, i2, i3⟩ := ih hinv hroom2
    refine ⟨i1, ?_, ?_⟩
    · rw [i2, q, p7]
    · rw [i3, q, p4]

theorem getRecent_RInv {total : List Nat} (r : Ring) (h : RInv total r) :
    RInv total r.getRecent.2 ∧ r.getRecent.2.ahead = r.ahead ∧ r.getRecent.2.out = r.out := by
  have key : ∀ (e : Option IoKind) (r' : Ring),
      (if r.ahead - r.stash.length > 0 then readAheadAtMost r (r.ahead - r.stash.length) else (none, r)) = (e, r') →
      RInv total r' ∧ r'.ahead = r.ahead ∧ r'.out = r.out := by
    intro e r' he
    by_cases hc : r.ahead - r.stash.length > 0
    · simp only [hc, if_true, readAheadAtMost] at he
      have := readAheadF_RInv (total := total) (r.ahead - r.stash.length) r (r.ahead - r.stash.length) h
        (by have := h.2.2; omega)
      rw [he] at this
      exact this
    · simp only [hc, if_false] at he
      simp only [Prod.mk.injEq] at he
      obtain ⟨_, rfl⟩ := he
      exact ⟨h, rfl, rfl⟩
  unfold Ring.getRecent
  simp only []
  cases hx : (if r.ahead - r.stash.length > 0 then readAheadAtMost r (r.ahead - r.stash.length) else (none, r)) with
  | mk e r' =>
    have := key e r' hx
    cases e <;> simp only [] <;> exact this

theorem step_RInv {total : List Nat} (r : Ring) (op : RingOp) (h : RInv total r) :
    RInv total (r.step op).2 ∧ (r.step op).2.ahead = r.ahead := by
  cases op with
  | read n => exact ⟨(read_RInv r n h).1, (read_RInv r n h).2.1⟩
  | recent => exact ⟨(getRecent_RInv r h).1, (getRecent_RInv r h).2.1⟩

/-- bytes handed to the consumer by the `read` operations of a run -/
def returned : List (RingOut × Ring) → List Nat
  | [] => []
  | (.read (.ok bs), _) :: rest => bs ++ returned rest
  | _ :: rest => returned rest

theorem run_returned {total : List Nat} : ∀ (ops : List RingOp) (r : Ring), RInv total r →
    (r.after ops).out = r.out ++ returned (r.run ops) ∧ RInv total (r.after ops) ∧ (r.after ops).ahead = r.ahead := by
  intro ops
  induction ops with
  | nil => intro r h; simp [Ring.after, Ring.run, returned]; exact h
  | cons op ops ih =>
    intro r h
    simp only [Ring.after, Ring.run]
    obtain ⟨hs, ha⟩ := step_RInv r op h
    obtain ⟨i1, i2, i3⟩ := ih (r.step op).2 hs
    refine ⟨?_, i2, by rw [i3, ha]⟩
    rw [i1]
    cases op with
    | read n =>
      obtain ⟨_, _, ho, he⟩ := read_RInv r n h
      show (r.read n).2.out ++ _ = r.out ++ returned ((RingOut.read (r.read n).1, (r.read n).2) :: _)
      cases hres : (r.read n).1 with
      | ok bs => rw [ho bs hres]; simp [returned]
      | err k => rw [he k hres]; simp [returned]
    | recent =>
      obtain ⟨_, _, ho⟩ := getRecent_RInv r h
      show r.getRecent.2.out ++ _ = r.out ++ returned ((RingOut.recent r.getRecent.1, r.getRecent.2) :: _)
      rw [ho]; simp [returned]

/-! ### the synthetic line break of `next` (fix bfd6267) -/

/-- `next_char` never touches the line flags -/
theorem nextChar_flags (cc : CC) :
    (nextChar cc).2.atLineStart = cc.atLineStart ∧ (nextChar cc).2.inDirectiveLine = cc.inDirectiveLine := by
  unfold nextChar
  cases h1 : readFirst cc.reader with
  | mk r1 s1 =>
    cases r1 with
    | eof => simp
    | err k => simp
    | byte first =>
      simp only []
      cases hn : needed first with
      | none => simp
      | some n =>
        simp only []
        cases hc : contLoop (n - 1) [] s1 with
        | mk r2 s2 =>
          cases r2 with
          | eof got => simp
          | err k got => simp
          | done got =>
            simp only []
            cases hm : cc.maxBytes with
            | none => simp only []; cases hd : decode1 (first :: got) <;> simp
            | some lim =>
              simp only []
              by_cases hl : cc.totalBytes + n > lim
              · simp [hl]
              · simp only [hl, if_false]; cases hd : decode1 (first :: got) <;> simp

/-- `next_char` never clears the error cell -/
theorem nextChar_cell_mono (cc : CC) : cc.cell.isSome = true → (nextChar cc).2.cell.isSome = true := by
  intro hs
  unfold nextChar
  cases h1 : readFirst cc.reader with
  | mk r1 s1 =>
    cases r1 with
    | eof => simpa using hs
    | err k => simp
    | byte first =>
      simp only []
      cases hn : needed first with
      | none => simp
      | some n =>
        simp only []
        cases hc : contLoop (n - 1) [] s1 with
        | mk r2 s2 =>
          cases r2 with
          | eof got => simp
          | err k got => simp
          | done got =>
            simp only []
            cases hm : cc.maxBytes with
            | none => simp only []; cases hd : decode1 (first :: got) <;> simp [hs]
            | some lim =>
              simp only []
              by_cases hl : cc.totalBytes + n > lim
              · simp [hl]
              · simp only [hl, if_false]; cases hd : decode1 (first :: got) <;> simp [hs]

/-- every character `next_char` delivers costs at least one byte of the stream; a `None` never adds bytes -/
theorem nextChar_bytes (cc : CC) :
    (flat (nextChar cc).2.reader).length ≤ (flat cc.reader).length ∧
    (∀ c, (nextChar cc).1 = some c → (flat (nextChar cc).2.reader).length < (flat cc.reader).length) := by
  have hfl := readFirst_flat cc.reader
  have hfe := readFirst_flat_err cc.reader
  unfold nextChar
  cases h1 : readFirst cc.reader with
  | mk r1 s1 =>
    rw [h1] at hfl hfe
    cases r1 with
    | eof => have := hfe (by simp); simp at this ⊢; simp [this]
    | err k => have := hfe (by simp); simp at this ⊢; simp [this]
    | byte first =>
      have hb := hfl first rfl
      simp only [] at hb ⊢
      have hlen1 : (flat cc.reader).length = (flat s1).length + 1 := by rw [hb]; simp
      cases hn : needed first with
      | none => simp; omega
      | some n =>
        simp only []
        obtain ⟨x, hx1, hx2⟩ := contLoopF_flat (n - 1) (n - 1) [] s1
        unfold contLoop
        cases hc : contLoopF (n - 1) (n - 1) [] s1 with
        | mk r2 s2 =>
          rw [hc] at hx1 hx2
          have hl2 : (flat s2).length ≤ (flat s1).length := by rw [hx2]; simp
          cases r2 with
          | eof got => simp; omega
          | err k got => simp; omega
          | done got =>
            simp only []
            cases hm : cc.maxBytes with
            | none => simp only []; cases hd : decode1 (first :: got) <;> simp <;> omega
            | some lim =>
              simp only []
              by_cases hl : cc.totalBytes + n > lim
              · simp [hl]; omega
              · simp only [hl, if_false]; cases hd : decode1 (first :: got) <;> simp <;> omega

/-- `next` in terms of `next_char`, spelled out -/
theorem next_some {cc cc' : CC} {c : Char} (h : nextChar cc = (some c, cc')) : next cc = (some c, noteChar cc' c) := by
  simp [next, h]

theorem next_none {cc cc' : CC} (h : nextChar cc = (none, cc')) :
    next cc = if cc'.inDirectiveLine then (some '\n', { cc' with inDirectiveLine := false, atLineStart := true }) else (none, cc') := by
  simp [next, h]

/-- a run of `next` = the run of real characters, then — exactly when the state says "inside a directive
line" — the synthetic break followed by the continuation -/
theorem collect_seg : ∀ (fuel : Nat) (cc : CC), (collectRaw fuel cc).1.length < fuel →
    collect fuel cc =
      if (collectRaw fuel cc).2.inDirectiveLine then
        ((collectRaw fuel cc).1 ++ '\n' ::
            (collect (fuel - (collectRaw fuel cc).1.length - 1) { (collectRaw fuel cc).2 with inDirectiveLine := false, atLineStart := true }).1,
          (collect (fuel - (collectRaw fuel cc).1.length - 1) { (collectRaw fuel cc).2 with inDirectiveLine := false, atLineStart := true }).2)
      else ((collectRaw fuel cc).1, (collectRaw fuel cc).2) := by
  intro fuel
  induction fuel with
  | zero => intro cc h; simp [collectRaw] at h
  | succ fuel ih =>
    intro cc h
    cases hn : nextChar cc with
    | mk r cc' =>
      cases r with
      | none =>
        simp only [collectRaw, hn, collect, next_none hn]
        by_cases hd : cc'.inDirectiveLine = true
        · simp [hd]
        · simp [hd]
      | some c =>
        simp only [collectRaw, hn] at h ⊢
        simp only [collect, next_some hn]
        have := ih (noteChar cc' c) (by simp at h; omega)
        rw [this]
        by_cases hd : (collectRaw fuel (noteChar cc' c)).2.inDirectiveLine = true
        · simp only [hd, if_true, List.length_cons, List.cons_append]
          have e : fuel + 1 - ((collectRaw fuel (noteChar cc' c)).1.length + 1) - 1 =
              fuel - (collectRaw fuel (noteChar cc' c)).1.length - 1 := by omega
          rw [e]
        · simp [hd]

/-- the real characters never outnumber the bytes -/
theorem collectRaw_len : ∀ (fuel : Nat) (cc : CC),
    (collectRaw fuel cc).1.length + (flat (collectRaw fuel cc).2.reader).length ≤ (flat cc.reader).length := by
  intro fuel
  induction fuel with
  | zero => intro cc; simp [collectRaw]
  | succ fuel ih =>
    intro cc
    obtain ⟨h1, h2⟩ := nextChar_bytes cc
    cases hn : nextChar cc with
    | mk r cc' =>
      rw [hn] at h1 h2
      cases r with
      | none => simp only [collectRaw, hn]; simpa using h1
      | some c =>
        simp only [collectRaw, hn]
        have := ih (noteChar cc' c)
        have := h2 c rfl
        simp at *
        omega

/-! #### the flags follow the text -/

/-- the flag bookkeeping of `next` on its own -/
def stepFlags (st : Bool × Bool) (c : Char) : Bool × Bool :=
  let st := if st.1 && c != Char.ofNat 0xFEFF then (false, c == '%') else st
  if c == '\n' || c == '\r' then (true, false) else st

theorem noteChar_flags (cc : CC) (c : Char) :
    ((noteChar cc c).atLineStart, (noteChar cc c).inDirectiveLine) = stepFlags (cc.atLineStart, cc.inDirectiveLine) c := by
  unfold noteChar stepFlags
  by_cases h1 : (cc.atLineStart && c != Char.ofNat 0xFEFF) = true <;>
    by_cases h2 : (c == '\n' || c == '\r') = true <;> simp [h1, h2]

theorem collectRaw_flags : ∀ (fuel : Nat) (cc : CC),
    ((collectRaw fuel cc).2.atLineStart, (collectRaw fuel cc).2.inDirectiveLine) =
      (collectRaw fuel cc).1.foldl stepFlags (cc.atLineStart, cc.inDirectiveLine) := by
  intro fuel
  induction fuel with
  | zero => intro cc; simp [collectRaw]
  | succ fuel ih =>
    intro cc
    have hf := nextChar_flags cc
    cases hn : nextChar cc with
    | mk r cc' =>
      rw [hn] at hf
      cases r with
      | none => simp only [collectRaw, hn, List.foldl_nil]; simpa using hf
      | some c =>
        simp only [collectRaw, hn, List.foldl_cons]
        rw [ih (noteChar cc' c), noteChar_flags]
        have h1 := hf.1
        have h2 := hf.2
        simp only at h1 h2
        rw [h1, h2]

theorem dropWhile_nil_iff_all (p : Char → Bool) (l : List Char) : l.dropWhile p = [] ↔ l.all p = true := by
  induction l with
  | nil => simp
  | cons x xs ih =>
    by_cases hx : p x = true
    · simp [List.dropWhile_cons, hx, ih]
    · simp [List.dropWhile_cons, hx]

theorem lastLine_snoc (t : List Char) (c : Char) :
    lastLine (t ++ [c]) = if isBreak c then [] else lastLine t ++ [c] := by
  unfold lastLine
  by_cases h : isBreak c = true <;> simp [h]

/-- the flags after a text, from a fresh line: "only byte-order marks so far on this line" and the
specification `lastLineIsDirective` -/
theorem flags_spec_rev (r : List Char) :
    r.reverse.foldl stepFlags (true, false) = ((lastLine r.reverse).all isBom, lastLineIsDirective r.reverse) := by
  induction r with
  | nil => simp [lastLine, lastLineIsDirective]
  | cons c r ih =>
    rw [List.reverse_cons]
    generalize r.reverse = t at ih ⊢
    rw [List.foldl_append, ih]
    simp only [List.foldl_cons, List.foldl_nil, lastLineIsDirective, lastLine_snoc]
    unfold stepFlags
    by_cases hb : isBreak c = true
    · have hb' : (c == '\n' || c == '\r') = true := hb
      simp [hb, hb']
    · have hb' : (c == '\n' || c == '\r') = false := by simpa [isBreak] using hb
      simp only [hb, hb', Bool.false_eq_true, if_false]
      by_cases hall : (lastLine t).all isBom = true
      · -- only byte-order marks so far on this line
        have hdw : (lastLine t).dropWhile isBom = [] := (dropWhile_nil_iff_all _ _).2 hall
        by_cases hc : isBom c = true
        · have hc' : (c != Char.ofNat 0xFEFF) = false := by simpa [isBom] using hc
          simp [hall, hc', hc, List.dropWhile_append, hdw, List.dropWhile_cons]
        · have hc' : (c != Char.ofNat 0xFEFF) = true := by simpa [isBom] using hc
          simp [hall, hc', hc, List.dropWhile_append, hdw, List.dropWhile_cons]
      · have hne : (lastLine t).dropWhile isBom ≠ [] := by
          intro h; exact hall ((dropWhile_nil_iff_all _ _).1 h)
        simp only [hall, Bool.false_and, Bool.false_eq_true, if_false]
        have : ((lastLine t ++ [c]).dropWhile isBom) = (lastLine t).dropWhile isBom ++ [c] := by
          rw [List.dropWhile_append]; simp [hne]
        rw [this]
        cases hd : (lastLine t).dropWhile isBom with
        | nil => exact absurd hd hne
        | cons x xs => simp [hall]

theorem flags_spec (t : List Char) :
    t.foldl stepFlags (true, false) = ((lastLine t).all isBom, lastLineIsDirective t) := by
  have := flags_spec_rev t.reverse
  simpa using this

/-! #### consequences for `collect` -/

theorem next_cell_mono (cc : CC) (h : cc.cell.isSome = true) : (next cc).2.cell.isSome = true := by
  have := nextChar_cell_mono cc h
  unfold next
  cases hn : nextChar cc with
  | mk r cc' =>
    rw [hn] at this
    cases r with
    | some c => simpa using this
    | none => simp only []; split <;> simpa using this

theorem collect_cell_mono : ∀ (fuel : Nat) (cc : CC), cc.cell.isSome = true → (collect fuel cc).2.cell.isSome = true := by
  intro fuel
  induction fuel with
  | zero => intro cc h; simpa [collect] using h
  | succ fuel ih =>
    intro cc h
    have := next_cell_mono cc h
    simp only [collect]
    cases hn : next cc with
    | mk r cc' =>
      rw [hn] at this
      cases r with
      | none => simpa using this
      | some c => simp only []; exact ih cc' this

/-- an exhausted reader with no pending directive line: `None`, and nothing changes -/
theorem next_exhausted (cc : CC) (hr : cc.reader = []) (hd : cc.inDirectiveLine = false) : next cc = (none, cc) := by
  have : nextChar cc = (none, cc) := by
    unfold nextChar; rw [hr]; simp [readFirst]; cases cc; simp_all
  simp [next, this, hd]

theorem collect_exhausted (fuel : Nat) (cc : CC) (hr : cc.reader = []) (hd : cc.inDirectiveLine = false) :
    collect fuel cc = ([], cc) := by
  cases fuel with
  | zero => rfl
  | succ f => simp [collect, next_exhausted cc hr hd]

/-- a run whose real characters drain the reader: the characters, one synthetic break iff the state says
"inside a directive line", and then `None` -/
theorem collect_seg_clean (fuel : Nat) (cc : CC) (hfin : (collectRaw fuel cc).1.length < fuel)
    (hr : (collectRaw fuel cc).2.reader = []) :
    (collect fuel cc).1 = (collectRaw fuel cc).1 ++ (if (collectRaw fuel cc).2.inDirectiveLine then ['\n'] else []) ∧
    (collect fuel cc).2.cell = (collectRaw fuel cc).2.cell := by
  rw [collect_seg fuel cc hfin]
  by_cases hd : (collectRaw fuel cc).2.inDirectiveLine = true
  · simp only [hd, if_true]
    rw [collect_exhausted _ { (collectRaw fuel cc).2 with inDirectiveLine := false, atLineStart := true } hr rfl]
    exact ⟨rfl, rfl⟩
  · simp [hd]

/-- the general shape: real characters, then (iff the flag is up) the break and a continuation that can only
keep or set the error cell -/
theorem collect_seg_general (fuel : Nat) (cc : CC) (hfin : (collectRaw fuel cc).1.length < fuel) :
    ∃ more, (collect fuel cc).1 =
        (collectRaw fuel cc).1 ++ (if (collectRaw fuel cc).2.inDirectiveLine then '\n' :: more else []) ∧
      ((collectRaw fuel cc).2.cell.isSome = true → (collect fuel cc).2.cell.isSome = true) ∧
      ((collectRaw fuel cc).2.inDirectiveLine = false → (collect fuel cc).2.cell = (collectRaw fuel cc).2.cell) := by
  rw [collect_seg fuel cc hfin]
  by_cases hd : (collectRaw fuel cc).2.inDirectiveLine = true
  · simp only [hd, if_true]
    refine ⟨_, rfl, ?_, fun h => by simp at h⟩
    intro hs
    exact collect_cell_mono _ { (collectRaw fuel cc).2 with inDirectiveLine := false, atLineStart := true } (by simpa using hs)
  · simp [hd]

/-- the relation "same bytes to come, same flags, same cell" between two `ChunkedChars` over chunked readers -/
def SameView (a b : CC) : Prop :=
  chunked a.reader = true ∧ chunked b.reader = true ∧ flat a.reader = flat b.reader ∧
  a.maxBytes = none ∧ b.maxBytes = none ∧ a.atLineStart = b.atLineStart ∧
  a.inDirectiveLine = b.inDirectiveLine ∧ a.cell = b.cell

theorem noteChar_congr {a b : CC} (c : Char) (h1 : a.atLineStart = b.atLineStart)
    (h2 : a.inDirectiveLine = b.inDirectiveLine) :
    (noteChar a c).atLineStart = (noteChar b c).atLineStart ∧
    (noteChar a c).inDirectiveLine = (noteChar b c).inDirectiveLine := by
  have ha := noteChar_flags a c
  have hb := noteChar_flags b c
  rw [h1, h2] at ha
  have := ha.trans hb.symm
  exact ⟨congrArg Prod.fst this, congrArg Prod.snd this⟩

/-- `collect` over chunked readers depends only on the bytes (also past malformed sequences) -/
theorem collect_indep : ∀ (fuel : Nat) (a b : CC), SameView a b →
    (collect fuel a).1 = (collect fuel b).1 ∧ (collect fuel a).2.cell = (collect fuel b).2.cell := by
  intro fuel
  induction fuel with
  | zero => intro a b h; exact ⟨rfl, h.2.2.2.2.2.2.2⟩
  | succ fuel ih =>
    intro a b ⟨ca, cb, hf, ma, mb, hs, hd, hc⟩
    have na := next_chunked a ca ma
    have nb := next_chunked b cb mb
    have fa := nextChar_flags a
    have fb := nextChar_flags b
    rw [← hf] at nb
    simp only [collect]
    cases hstep : flatStep (flat a.reader) with
    | endOfInput =>
      rw [hstep] at na nb
      obtain ⟨a', ea, a1, a2, a3, a4⟩ := na
      obtain ⟨b', eb, b1, b2, b3, b4⟩ := nb
      rw [ea] at fa; rw [eb] at fb
      simp only at fa fb
      rw [next_none ea, next_none eb]
      have hdd : a'.inDirectiveLine = b'.inDirectiveLine := by rw [fa.2, fb.2, hd]
      by_cases hx : a'.inDirectiveLine = true
      · have hy : b'.inDirectiveLine = true := by rw [← hdd]; exact hx
        simp only [hx, hy, if_true]
        have := ih { a' with inDirectiveLine := false, atLineStart := true } { b' with inDirectiveLine := false, atLineStart := true }
          ⟨a3, b3, by simp [a2, b2], a4, b4, by simp [fa.1, fb.1, hs], rfl, by simp [a1, b1, hc]⟩
        exact ⟨by rw [this.1], this.2⟩
      · have hy : ¬ b'.inDirectiveLine = true := by rw [← hdd]; exact hx
        simp only [hx, hy, Bool.false_eq_true, if_false]
        exact ⟨trivial, by rw [a1, b1, hc]⟩
    | bad k rest =>
      rw [hstep] at na nb
      obtain ⟨a', ea, a1, a3, a2, a4⟩ := na
      obtain ⟨b', eb, b1, b3, b2, b4⟩ := nb
      rw [ea] at fa; rw [eb] at fb
      simp only at fa fb
      rw [next_none ea, next_none eb]
      have hdd : a'.inDirectiveLine = b'.inDirectiveLine := by rw [fa.2, fb.2, hd]
      by_cases hx : a'.inDirectiveLine = true
      · have hy : b'.inDirectiveLine = true := by rw [← hdd]; exact hx
        simp only [hx, hy, if_true]
        have := ih { a' with inDirectiveLine := false, atLineStart := true } { b' with inDirectiveLine := false, atLineStart := true }
          ⟨a3, b3, by simp [a2, b2], a4, b4, by simp [fa.1, fb.1, hs], rfl, by simp [a1, b1]⟩
        exact ⟨by rw [this.1], this.2⟩
      · have hy : ¬ b'.inDirectiveLine = true := by rw [← hdd]; exact hx
        simp only [hx, hy, Bool.false_eq_true, if_false]
        exact ⟨trivial, by rw [a1, b1]⟩
    | char c rest =>
      rw [hstep] at na nb
      obtain ⟨a', ea, a1, a3, a2, a4⟩ := na
      obtain ⟨b', eb, b1, b3, b2, b4⟩ := nb
      rw [ea] at fa; rw [eb] at fb
      simp only at fa fb
      rw [next_some ea, next_some eb]
      simp only []
      have hn := noteChar_congr (a := a') (b := b') c (by rw [fa.1, fb.1, hs]) (by rw [fa.2, fb.2, hd])
      have := ih (noteChar a' c) (noteChar b' c)
        ⟨by simpa using a3, by simpa using b3, by simp [a2, b2], by simpa using a4, by simpa using b4,
          hn.1, hn.2, by simp [a1, b1, hc]⟩
      exact ⟨by rw [this.1], this.2⟩

/-- when the flat decoding ends cleanly (no malformed remainder) the raw run has drained a chunked reader -/
theorem collectRaw_clean_end : ∀ (fuel : Nat) (cc : CC), chunked cc.reader = true → cc.maxBytes = none →
    (flat cc.reader).length < fuel → (flatDecode fuel (flat cc.reader)).2.2 = [] →
    (collectRaw fuel cc).2.reader = [] ∧ (collectRaw fuel cc).2.cell = cc.cell := by
  intro fuel
  induction fuel with
  | zero => intro cc _ _ h; omega
  | succ fuel ih =>
    intro cc hc hm hl hrest
    have hn := next_chunked cc hc hm
    simp only [collectRaw, flatDecode] at hrest ⊢
    cases hs : flatStep (flat cc.reader) with
    | endOfInput =>
      rw [hs] at hn
      obtain ⟨cc', e1, e2, e3, e4, _⟩ := hn
      simp only [e1]
      exact ⟨chunked_flat_nil e4 e3, e2⟩
    | bad k r' =>
      rw [hs] at hrest
      simp only at hrest
      exact absurd hrest (flatStep_bad hs).1
    | char c rest =>
      rw [hs] at hn hrest
      obtain ⟨cc', e1, e2, e3, e4, e5⟩ := hn
      obtain ⟨_, h2⟩ := flatStep_char hs
      simp only [e1]
      simp only at hrest
      have := ih (noteChar cc' c) (by simpa using e3) (by simpa using e5) (by simp [e4]; omega)
        (by simpa [e4] using hrest)
      exact ⟨this.1, by rw [this.2]; simp [e2]⟩

end SaphyrVerif.Lemmas.C09
